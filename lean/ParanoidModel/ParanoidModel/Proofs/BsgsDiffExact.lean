/-
Proofs/BsgsDiffExact.lean — the EXACT set of keys flagged by `BatchDLOfDifferences`, and its
consequences for C17 (joint check CheckECKeySmallDifference): permutation and healthy-addition
invariance of the boolean verdicts.

`BsgsDiff` (soundness) says a recorded relation is true; `BsgsDiffComplete` says a pair closer than
`max(table size, max_diff)` is flagged.  Neither bounds the recorded `k`, so together they do not
determine WHO is flagged.  Here: every recorded `k` is `±table[x]`, hence `|k| < V` where `V` is the
number of multiples of `G` the table in use holds (`TableOK look V V`: complete up to `V`, values
below `V`; `PointTable(g, size)` with split `m` has `V = ceil(size/m)·m`), and conversely every pair
with `0 < |k| < V` is flagged.  So

    key `i` is flagged  ⇔  some OTHER key `Q` of the call has `P ≠ Q`, `P - Q = k • G`, `|k| < V`

(`flagged_iff`), a condition on the multiset of points of the call and on `V` only.
What is recorded AS EVIDENCE (which partner `Q`, which `k`) is the last hit in scan order and DOES
depend on the order of the batch (Props/C17Ec.lean has the kernel-checked example; the real code
behaves the same).
-/
import ParanoidModel.Proofs.BsgsHistory
namespace Paranoid.Bsgs
open Paranoid Paranoid.Ec WeierstrassCurve

/-! ### every recorded `k` is a table value up to sign (no curve facts needed) -/

/-- all recorded relations have `|k| < V`. -/
def DlBound (V : Nat) (res : List (Option Rel)) : Prop :=
  ∀ (k : Nat) (r : Rel), res[k]? = some (some r) → r.dl.natAbs < V

theorem DlBound.set {V : Nat} {res : List (Option Rel)} (h : DlBound V res) (i : Nat) (r0 : Rel)
    (h0 : r0.dl.natAbs < V) : DlBound V (res.set i (some r0)) := by
  intro k r hk
  rw [List.getElem?_set] at hk
  split at hk
  · split at hk
    · cases hk; exact h0
    · cases hk
  · exact h k r hk

theorem dlBound_replicate (V n : Nat) : DlBound V (List.replicate n none) := by
  intro k r hk
  rw [List.getElem?_replicate] at hk
  split at hk <;> cases hk

theorem diffTry_bound (c : Curve) {V : Nat} {p q diff : Pt} {nOther i j : Nat}
    {res res' : List (Option Rel)} (hres : DlBound V res) {dl : Int} (hdl : dl.natAbs < V)
    (h : diffTry c p q diff nOther i j res dl = .ok res') : DlBound V res' := by
  unfold diffTry at h
  split at h
  · cases h
  · split at h
    · split at h
      · cases h
      · rename_i r hr
        obtain ⟨_, hrdl⟩ := fmtRel_ok hr
        split at h
        · split at h
          · cases h
          · rename_i r2 hr2
            cases h
            obtain ⟨_, hrdl2⟩ := fmtRel_ok hr2
            exact (hres.set i r (by rw [hrdl]; exact hdl)).set _ r2 (by
              rw [hrdl2, Int.natAbs_neg]; exact hdl)
        · cases h
          exact hres.set i r (by rw [hrdl]; exact hdl)
    · cases h; exact hres

theorem diffStep_bound (c : Curve) {V : Nat} (look : Lookup)
    (hlook : ∀ k v, look k = some v → v < V) {p nq : Pt} {nOther i j : Nat} {x : Option Int}
    {res res' : List (Option Rel)} (hres : DlBound V res)
    (h : diffStep c look p nOther i res j nq x = .ok res') : DlBound V res' := by
  unfold diffStep at h
  split at h
  · cases h; exact hres
  · split at h
    · cases h; exact hres
    · rename_i v hv
      have hvV : v < V := hlook _ v hv
      split at h
      · cases h
      · split at h
        · cases h
        · rename_i res1 h1
          have hb1 : ((v : Nat) : Int).natAbs < V := by simpa using hvV
          have hb2 : (-((v : Nat) : Int)).natAbs < V := by simpa using hvV
          exact diffTry_bound c (diffTry_bound c hres hb1 h1) hb2 h

theorem diffScan_bound (c : Curve) {V : Nat} (look : Lookup)
    (hlook : ∀ k v, look k = some v → v < V) (p : Pt) (nOther i : Nat) :
    ∀ (nqs : List Pt) (xs : List (Option Int)) (j : Nat) (res res' : List (Option Rel)),
    DlBound V res → diffScan c look p nOther i nqs xs j res = .ok res' → DlBound V res'
  | [], _, _, res, res', hres, h => by
    simp only [diffScan] at h; cases h; exact hres
  | _ :: _, [], _, res, res', hres, h => by
    simp only [diffScan] at h; cases h; exact hres
  | nq :: nqs, x :: xs, j, res, res', hres, h => by
    rw [diffScan] at h
    split at h
    · cases h
    · rename_i res1 h1
      exact diffScan_bound c look hlook p nOther i nqs xs (j + 1) res1 res'
        (diffStep_bound c look hlook hres h1) h

theorem diffOuter_bound (c : Curve) {V : Nat} (look : Lookup)
    (hlook : ∀ k v, look k = some v → v < V) (nOther : Nat) :
    ∀ (ps : List Pt) (i : Nat) (negated : List Pt) (res res' : List (Option Rel)),
    DlBound V res → diffOuter c look nOther ps i negated res = .ok res' → DlBound V res'
  | [], _, _, res, res', hres, h => by cases h; exact hres
  | p :: ps, i, negated, res, res', hres, h => by
    rw [diffOuter] at h
    split at h
    · cases h
    · split at h
      · cases h
      · rename_i res1 h1
        exact diffOuter_bound c look hlook nOther ps (i + 1) _ res1 res'
          (diffScan_bound c look hlook p nOther i negated _ 0 res res1 hres h1) h

section group
variable (c : Curve) [hp : Fact (Nat.Prime c.p)]

/-- a reachable `_table` state answers like an EXACT table of the multiples `0 … V-1` of `G`. -/
theorem tableOK_exact_of_tableIs (hc : c.Good) (hG : onCurve c c.g = true) {st : EcState}
    (h : TableIs c st) : ∃ V, st.tableSize ≤ V ∧ TableOK c st.table.get? V V := by
  rcases h with ⟨h1, h2⟩ | ⟨m, hm, hs, ht⟩
  · refine ⟨0, by omega, ⟨fun k v hv => ?_, fun v hv => by omega⟩⟩
    rw [h2] at hv; simp [XTable.get?] at hv
  · obtain ⟨t, ht1, hle, ht2, ht3⟩ := pointTable_spec c hc c.g hG st.tableSize m (by omega) hm
    rw [ht] at ht1; cases ht1
    exact ⟨_, hle, ht2, ht3⟩

/-- `CloseG` is symmetric. -/
theorem CloseG.symm {V : Nat} {A B : (W c).Point} (h : CloseG c V A B) : CloseG c V B A := by
  obtain ⟨hne, k, hk, hlt⟩ := h
  exact ⟨fun h => hne h.symm, -k, by rw [neg_zsmul, ← hk, neg_sub], by simpa using hlt⟩

/-- `V` is a range of the table `BatchDLOfDifferences(max_diff)` uses when called in state `st`
(float oracle `m`): after the `if max_diff > self._table_size` update the table answers like an
exact table of the multiples `0 … V-1` of `G`.  A property of the curve object and of `max_diff`
only — no point list occurs. -/
def DiffRange (st : EcState) (maxDiff m V : Nat) : Prop :=
  ∃ st1, ensureTableG listImpl c st maxDiff m = .ok st1 ∧ TableIs c st1 ∧
    TableOK c st1.table.get? V V ∧ max st.tableSize maxDiff ≤ V

/-- every reachable state has such a range. -/
theorem diffRange_exists (hc : c.Good) (hG : onCurve c c.g = true) {st : EcState}
    (hst : TableIs c st) (maxDiff m : Nat) (hm : st.tableSize < maxDiff → 1 ≤ m) :
    ∃ V, DiffRange c st maxDiff m V := by
  obtain ⟨V0, hV0⟩ := stateOK_of_tableIs c hc hG hst
  obtain ⟨st1, h1, _, hsz, _⟩ := ensureTable_spec c hc hG st V0 hV0 maxDiff m hm
  have ht1 := (ensureTable_tableIs c hst h1).1
  obtain ⟨V, hle, hV⟩ := tableOK_exact_of_tableIs c hc hG ht1
  exact ⟨V, st1, h1, ht1, hV, by rw [← hsz]; exact hle⟩

/-- ★ the exact flagged set of one `BatchDLOfDifferences` call.  All points of the call finite,
reduced, on the curve; `V` a range of the table in use (`DiffRange`: it depends on the state,
`max_diff` and the float `m` only).  The call returns, and the key at position `i` is flagged IF AND
ONLY IF some key `Q` of the call (`other_points ++ points`) satisfies `P ≠ Q`, `P - Q = k • G`,
`|k| < V` — a condition on the SET of group elements of the call.  (With fewer than two points
nothing is compared, nobody is flagged, and the right-hand side is false as well.) -/
theorem batchDLOfDifferences_flagged_iff (hc : c.Good) (hG : onCurve c c.g = true)
    (hGr : Reduced c c.g) (st : EcState) (maxDiff m V : Nat) (hV : DiffRange c st maxDiff m V)
    (points other : List Pt) (hL : ∀ Q ∈ other ++ points, GoodPt c Q) :
    ∃ res st', batchDLOfDifferences c st points other maxDiff m = .ok (res, st') ∧
      res.length = points.length ∧
      ∀ (i : Nat) (P : Pt), points[i]? = some P →
        (Flagged res i ↔ ∃ Q ∈ other ++ points, CloseG c V (toPoint c P) (toPoint c Q)) := by
  obtain ⟨st1, h1, _, htab, _⟩ := hV
  unfold batchDLOfDifferences batchDLOfDifferencesG
  by_cases hact : points.isEmpty ∨ points.length + other.length < 2
  · rw [if_pos (by simpa using hact)]
    refine ⟨_, st, rfl, by simp, ?_⟩
    intro i P hP
    constructor
    · rintro ⟨r, hr⟩
      rw [List.getElem?_replicate] at hr
      split at hr <;> cases hr
    · rintro ⟨Q, hQ, hne, _⟩
      exfalso
      have hi : i < points.length := by
        by_contra hge; rw [List.getElem?_eq_none (by omega)] at hP; cases hP
      rcases hact with h | h
      · rw [List.isEmpty_iff] at h; subst h; simp at hi
      · -- one point, no other point: `Q = P`
        have h1' : points.length = 1 := by omega
        have h0 : other = [] := List.eq_nil_of_length_eq_zero (by omega)
        subst h0
        obtain ⟨P0, hP0⟩ := List.length_eq_one_iff.mp h1'
        subst hP0
        have hi0 : i = 0 := by simpa using hi
        subst hi0
        simp only [List.nil_append, List.mem_cons, List.not_mem_nil, or_false] at hQ
        simp only [List.getElem?_cons_zero, Option.some.injEq] at hP
        subst hQ; subst hP
        exact hne rfl
  · rw [if_neg (by simpa using hact)]
    rw [h1]
    simp only
    obtain ⟨res, h2, l2, _, t2⟩ := diffOuter_spec c hc hG hGr (nOther := other.length) rfl
      (listImpl.get? st1.table) hL points 0 (other.map (negate c))
      (List.replicate points.length none) (by simp) (by simp) (by simp)
    rw [h2]
    refine ⟨res, st1, rfl, l2, ?_⟩
    have hLon : ∀ Q ∈ other ++ points, onCurve c Q = true := fun Q hQ => (hL Q hQ).1
    have hsound := diffOuter_sound c hc hG (nOther := other.length) rfl (listImpl.get? st1.table) hLon
      points 0 (other.map (negate c)) (List.replicate points.length none) res (by simp) (by simp)
      (by intro k r hk; rw [List.getElem?_replicate] at hk; split at hk <;> cases hk) h2
    have hbound := diffOuter_bound c (listImpl.get? st1.table) (fun k v hv => (htab.1 k v hv).1)
      other.length points 0 (other.map (negate c)) (List.replicate points.length none) res
      (dlBound_replicate V _) h2
    intro i P hP
    constructor
    · rintro ⟨r, hr⟩
      obtain ⟨P', j, Q, hP', hQ, _, _, _, hrel, hne⟩ := hsound i r hr
      rw [hP] at hP'; cases hP'
      exact ⟨Q, List.mem_of_getElem? hQ, hne, r.dl, hrel, hbound i r hr⟩
    · rintro ⟨Q, hQ, hclose⟩
      obtain ⟨j, hj⟩ := List.getElem?_of_mem hQ
      have hjne : j ≠ other.length + i := by
        intro hji
        subst hji
        rw [getElem?_L_right rfl _ (by omega)] at hj
        simp only [Nat.add_sub_cancel_left] at hj
        rw [hP] at hj; cases hj
        exact hclose.1 rfl
      rcases Nat.lt_or_gt_of_ne hjne with hlt | hgt
      · exact (t2 _ _ htab i j P Q (Nat.zero_le _) hP hlt hj hclose).1
      · have hQp : points[j - other.length]? = some Q := by
          rw [← getElem?_L_right rfl j (by omega)]; exact hj
        have hLp : (other ++ points)[other.length + i]? = some P := by
          rw [getElem?_L_right rfl _ (by omega)]; simpa using hP
        have := (t2 _ _ htab (j - other.length) (other.length + i) Q P (Nat.zero_le _) hQp (by omega)
          hLp (CloseG.symm c hclose)).2 (by omega)
        simpa using this

/-- ★ the flag of a key is a function of the SET of group elements of the call: two calls from the
same state with the same `max_diff` and float value — any two batches, orders, multiplicities,
splits into `points` / `other_points` — whose point lists denote the same set of group elements give
a key `P` occurring in both the same flag.  In particular: permuting the batch permutes the flags. -/
theorem batchDLOfDifferences_flag_set (hc : c.Good) (hG : onCurve c c.g = true)
    (hGr : Reduced c c.g) (st : EcState) (hst : TableIs c st) (maxDiff m : Nat)
    (hm : st.tableSize < maxDiff → 1 ≤ m)
    (points other points' other' : List Pt) (hL : ∀ Q ∈ other ++ points, GoodPt c Q)
    (hL' : ∀ Q ∈ other' ++ points', GoodPt c Q)
    (hset : ∀ A : (W c).Point, (∃ Q ∈ other ++ points, toPoint c Q = A) ↔
      (∃ Q ∈ other' ++ points', toPoint c Q = A)) :
    ∃ res st1 res' st1', batchDLOfDifferences c st points other maxDiff m = .ok (res, st1) ∧
      batchDLOfDifferences c st points' other' maxDiff m = .ok (res', st1') ∧
      ∀ (i i' : Nat) (P P' : Pt), points[i]? = some P → points'[i']? = some P' →
        toPoint c P = toPoint c P' → (Flagged res i ↔ Flagged res' i') := by
  obtain ⟨V, hV⟩ := diffRange_exists c hc hG hst maxDiff m hm
  obtain ⟨res, st1, h1, _, f1⟩ := batchDLOfDifferences_flagged_iff c hc hG hGr st maxDiff m V hV
    points other hL
  obtain ⟨res', st1', h1', _, f1'⟩ := batchDLOfDifferences_flagged_iff c hc hG hGr st maxDiff m V hV
    points' other' hL'
  refine ⟨res, st1, res', st1', h1, h1', ?_⟩
  intro i i' P P' hP hP' hPP
  rw [f1 i P hP, f1' i' P' hP', hPP]
  constructor
  · rintro ⟨Q, hQ, hcl⟩
    obtain ⟨Q', hQ', hQQ⟩ := (hset _).mp ⟨Q, hQ, rfl⟩
    exact ⟨Q', hQ', by rw [hQQ]; exact hcl⟩
  · rintro ⟨Q', hQ', hcl⟩
    obtain ⟨Q, hQ, hQQ⟩ := (hset _).mpr ⟨Q', hQ', rfl⟩
    exact ⟨Q, hQ, by rw [hQQ]; exact hcl⟩

end group
end Paranoid.Bsgs
