/-
Proofs/BsgsDiffExactCheck.lean — `batchDLOfDifferences_flagged_iff` lifted to
CheckECKeySmallDifference: which keys of a batch are flagged, exactly; permutation / duplication /
healthy-addition invariance of the boolean verdicts.
-/
import ParanoidModel.Proofs.BsgsDiffExact
import ParanoidModel.Proofs.BsgsCheckLoop
namespace Paranoid.Bsgs
open Paranoid Paranoid.Ec WeierstrassCurve

/-- `st` / `m` are the `_table` state and the float oracle of the curve object of entry `e`. -/
def InFac (f : Factory) (sts : List EcState) (ms : List Nat) (e : FEntry) (st : EcState) (m : Nat) :
    Prop := ∃ idx : Nat, f[idx]? = some e ∧ sts[idx]? = some st ∧ ms[idx]? = some m

theorem InFac.cons {f : Factory} {sts : List EcState} {ms : List Nat} {e : FEntry} {st : EcState}
    {m : Nat} (h : InFac f sts ms e st m) (e0 : FEntry) (st0 : EcState) (m0 : Nat) :
    InFac (e0 :: f) (st0 :: sts) (m0 :: ms) e st m := by
  obtain ⟨idx, a, b, c⟩ := h
  exact ⟨idx + 1, by simpa using a, by simpa using b, by simpa using c⟩

/-- with distinct ids an entry has ONE state and oracle value. -/
theorem InFac.unique {f : Factory} (hnd : (f.map (·.id)).Nodup) {sts : List EcState} {ms : List Nat}
    {e : FEntry} {st st' : EcState} {m m' : Nat} (h : InFac f sts ms e st m)
    (h' : InFac f sts ms e st' m') : st = st' ∧ m = m' := by
  obtain ⟨i, a, b, c⟩ := h
  obtain ⟨i', a', b', c'⟩ := h'
  have hii : i = i' := by
    have hi : i < f.length := (List.getElem?_eq_some_iff.mp a).1
    have hi' : i' < f.length := (List.getElem?_eq_some_iff.mp a').1
    have e1 : (f.map (·.id))[i]? = some e.id := by rw [List.getElem?_map, a]; rfl
    have e2 : (f.map (·.id))[i']? = some e.id := by rw [List.getElem?_map, a']; rfl
    have hi2 : i < (f.map (·.id)).length := by rw [List.length_map]; exact hi
    have hi2' : i' < (f.map (·.id)).length := by rw [List.length_map]; exact hi'
    rw [List.getElem?_eq_getElem hi2] at e1
    rw [List.getElem?_eq_getElem hi2'] at e2
    exact (List.Nodup.getElem_inj_iff hnd).mp (by
      rw [Option.some.inj e1, Option.some.inj e2])
  subst hii
  rw [b] at b'; rw [c] at c'
  exact ⟨Option.some.inj b', Option.some.inj c'⟩

/-- CheckECKeySmallDifference under `SDHyp`: the loop returns, and the verdict written for a key of
curve entry `e` is `diffVerdict` of ITS OWN rank in the answer of the ONE `BatchDLOfDifferences` call
made on the points of its curve group, from the state and with the float value of its curve
object. -/
theorem smallDiffLoop_exact (keys : List ECKey) (maxDiff : Nat) : ∀ (f : Factory)
    (sts : List EcState) (ms : List Nat) (res : List KeyVerdict), (f.map (·.id)).Nodup →
    SDHyp keys maxDiff f sts ms → res.length = keys.length →
    ∃ res' sts', smallDiffLoop listImpl keys maxDiff f sts ms res = .ok (res', sts') ∧
      res'.length = keys.length ∧
      (∀ (p : Nat) (k : ECKey), keys[p]? = some k →
        (∀ e ∈ f, e.id = k.curveType → e.curve = none) → res'[p]? = res[p]?) ∧
      (∀ (p : Nat) (k : ECKey) (e : FEntry) (c : Curve), keys[p]? = some k → e ∈ f →
        e.id = k.curveType → e.curve = some c →
        ∃ (st : EcState) (m : Nat) (rels : List (Option Rel)) (st1 : EcState) (r : Nat)
          (x : Option Rel), InFac f sts ms e st m ∧ CurveHyp c ∧ TableIs c st ∧
          (st.tableSize < maxDiff → 1 ≤ m) ∧
          batchDLOfDifferences c st (groupPoints e.id keys) [] maxDiff m = .ok (rels, st1) ∧
          (groupPoints e.id keys)[r]? = some k.pt ∧ rels[r]? = some x ∧
          res'[p]? = some (some (diffVerdict x))) := by
  intro f
  induction f with
  | nil =>
    intro sts ms res _ hh hl
    cases sts <;> cases ms <;> simp only [SDHyp] at hh
    exact ⟨res, [], rfl, hl, fun _ _ _ _ => rfl, fun _ _ e _ _ he => by simp at he⟩
  | cons e es ih =>
    intro sts ms res hnd hh hl
    cases sts with
    | nil => simp only [SDHyp] at hh
    | cons st sts =>
    cases ms with
    | nil => simp only [SDHyp] at hh
    | cons m ms =>
    obtain ⟨he, hrest⟩ := hh
    rw [List.map_cons, List.nodup_cons] at hnd
    obtain ⟨hnotin, hnd'⟩ := hnd
    have hother : ∀ e' ∈ es, e'.id ≠ e.id := fun e' he' h =>
      hnotin (List.mem_map.mpr ⟨e', he', h⟩)
    rw [smallDiffLoop]
    cases hcur : e.curve with
    | none =>
      simp only
      obtain ⟨res', sts', h1, h2, h4, h5⟩ := ih sts ms res hnd' hrest hl
      refine ⟨res', st :: sts', consState_ok h1, h2, ?_, ?_⟩
      · intro p k hk hall
        exact h4 p k hk (fun e' he' => hall e' (List.mem_cons_of_mem _ he'))
      · intro p k e' c hk he' hid hcur'
        rcases List.mem_cons.mp he' with rfl | he'
        · rw [hcur] at hcur'; cases hcur'
        · obtain ⟨st0, m0, rels, st1, r, x, hin, rest⟩ := h5 p k e' c hk he' hid hcur'
          exact ⟨st0, m0, rels, st1, r, x, hin.cons e st m, rest⟩
    | some c =>
      simp only
      obtain ⟨hch, hst, hon, horc⟩ := he c hcur
      obtain ⟨rels, st', e1, _, e3, _⟩ := smallDiffGroup_spec c hch st hst e.id keys hon maxDiff m horc
      rw [e1]
      simp only
      have hpar := group_parallel e.id keys
      obtain ⟨s1, s2, s3⟩ := scatter_spec (keyIdxs e.id keys 0) (rels.map diffVerdict) res
        (keyIdxs_nodup e.id keys) (by rw [List.length_map, e3, hpar.length_eq])
        (fun i hi => by rw [hl]; exact keyIdxs_lt e.id keys i hi)
      obtain ⟨res', sts', h1, h2, h4, h5⟩ := ih sts ms
        (scatter res (keyIdxs e.id keys 0) (rels.map diffVerdict)) hnd' hrest (by rw [s1, hl])
      refine ⟨res', st' :: sts', consState_ok h1, h2, ?_, ?_⟩
      · intro p k hk hall
        have hnot : p ∉ keyIdxs e.id keys 0 := by
          intro hp
          have := mem_keyIdxs_type e.id keys p k hp hk
          have := hall e List.mem_cons_self this.symm
          rw [hcur] at this; cases this
        rw [h4 p k hk (fun e' he' => hall e' (List.mem_cons_of_mem _ he')), s3 p hnot]
      · intro p k e' c' hk he' hid hcur'
        rcases List.mem_cons.mp he' with rfl | he'
        · rw [hcur] at hcur'; cases hcur'
          obtain ⟨r, hr1, hr2⟩ := group_rank e'.id keys p k hk hid.symm
          have hrlt : r < rels.length := by
            rw [e3]
            by_contra hge; rw [List.getElem?_eq_none (by omega)] at hr2; cases hr2
          have hres1 : (scatter res (keyIdxs e'.id keys 0) (rels.map diffVerdict))[p]? =
              some (some (diffVerdict rels[r])) :=
            s2 r p (diffVerdict rels[r]) hr1 (by
              rw [List.getElem?_map, List.getElem?_eq_getElem hrlt]; rfl)
          have hkeep := h4 p k hk (fun e'' he'' hid'' =>
            absurd (hid''.trans hid.symm) (hother e'' he''))
          exact ⟨st, m, rels, st', r, rels[r], ⟨0, rfl, rfl, rfl⟩, hch, hst, horc, e1, hr2,
            List.getElem?_eq_getElem hrlt, by rw [hkeep, hres1]⟩
        · obtain ⟨st0, m0, rels0, st1, r, x, hin, rest⟩ := h5 p k e' c' hk he' hid hcur'
          exact ⟨st0, m0, rels0, st1, r, x, hin.cons e st m, rest⟩

theorem mem_groupPoints_iff {id : Nat} {keys : List ECKey} {P : Pt} :
    P ∈ groupPoints id keys ↔ ∃ k ∈ keys, k.curveType = id ∧ P = k.pt := by
  unfold groupPoints
  rw [List.mem_map]
  constructor
  · rintro ⟨k, hk, rfl⟩
    obtain ⟨hk1, hk2⟩ := List.mem_filter.mp hk
    exact ⟨k, hk1, by simpa using hk2, rfl⟩
  · rintro ⟨k, hk, hid, rfl⟩
    exact ⟨k, List.mem_filter.mpr ⟨hk, by simpa using hid⟩, rfl⟩

theorem diffVerdict_result (x : Option Rel) : (diffVerdict x).result = true ↔ ∃ r, x = some r := by
  cases x with
  | none => simp [diffVerdict]
  | some r => simp [diffVerdict]

/-- ★ CheckECKeySmallDifference: WHO is flagged, exactly.  `f` with distinct ids, a batch
satisfying `SDHyp`.  Let `e` be an entry with curve `c`, state `st` and float value `m`, and `V` a
range of the table its `BatchDLOfDifferences(max_diff)` call uses (`DiffRange` — no key occurs in
it).  Then the check returns, and a key `k` of that curve is flagged IF AND ONLY IF some key `k'` of
the batch on the same curve satisfies `P ≠ P'`, `P - P' = kk • G`, `|kk| < V`. -/
theorem checkECKeySmallDifference_flag_iff (f : Factory) (sts : List EcState) (ms : List Nat)
    (keys : List ECKey) (maxDiff : Nat) (hnd : (f.map (·.id)).Nodup)
    (hh : SDHyp keys maxDiff f sts ms) :
    ∃ res sts', checkECKeySmallDifference f sts ms keys maxDiff = .ok (res, sts') ∧
      res.length = keys.length ∧
      (∀ (p : Nat) (k : ECKey), keys[p]? = some k → factoryGet f k.curveType = none →
        res[p]? = some none) ∧
      ∀ (e : FEntry) (c : Curve) (st : EcState) (m V : Nat) (hp : Nat.Prime c.p), e ∈ f →
        e.curve = some c → InFac f sts ms e st m →
        haveI : Fact (Nat.Prime c.p) := ⟨hp⟩
        DiffRange c st maxDiff m V →
        ∀ (p : Nat) (k : ECKey), keys[p]? = some k → k.curveType = e.id →
          ∃ kv, res[p]? = some (some kv) ∧
            (kv.result = true ↔ ∃ k' ∈ keys, k'.curveType = e.id ∧
              CloseG c V (toPoint c k.pt) (toPoint c k'.pt)) := by
  obtain ⟨res, sts', h1, h2, h4, h5⟩ := smallDiffLoop_exact keys maxDiff f sts ms
    (List.replicate keys.length none) hnd hh (by simp)
  refine ⟨res, sts', h1, h2, ?_, ?_⟩
  · intro p k hk hget
    rw [h4 p k hk ((factoryGet_none_iff hnd _).mp hget), List.getElem?_replicate]
    have : p < keys.length := by
      by_contra hge; rw [List.getElem?_eq_none (by omega)] at hk; cases hk
    rw [if_pos this]
  · intro e c st m V hp he hcur hin
    haveI : Fact (Nat.Prime c.p) := ⟨hp⟩
    intro hV p k hk hid
    obtain ⟨st0, m0, rels, st1, r, x, hin0, hch, hst, horc, hcall, hr, hx, hres⟩ :=
      h5 p k e c hk he hid.symm hcur
    obtain ⟨rfl, rfl⟩ := InFac.unique hnd hin hin0
    obtain ⟨g1, g2, _, _, _, _⟩ := generator_of_paramsOK c hch.params
    obtain ⟨g7, _⟩ := reduced_of_paramsOK c hch.params
    -- the points of the group are good
    have hgood : ∀ Q ∈ ([] : List Pt) ++ groupPoints e.id keys, GoodPt c Q := by
      intro Q hQ
      rw [List.nil_append] at hQ
      obtain ⟨k', hk', hid', rfl⟩ := mem_groupPoints_iff.mp hQ
      have : SDHyp keys maxDiff f sts ms := hh
      have hpts : ∀ (f : Factory) (sts : List EcState) (ms : List Nat),
          SDHyp keys maxDiff f sts ms → e ∈ f → onCurve c k'.pt = true ∧ Reduced c k'.pt := by
        intro f
        induction f with
        | nil => intro _ _ _ he; cases he
        | cons e0 es ih =>
          intro sts ms hh he
          cases sts with
          | nil => simp only [SDHyp] at hh
          | cons s0 sts =>
          cases ms with
          | nil => simp only [SDHyp] at hh
          | cons m0 ms =>
            obtain ⟨hh1, hh2⟩ := hh
            rcases List.mem_cons.mp he with rfl | he'
            · exact (hh1 c hcur).2.2.1 _ (mem_groupPoints_iff.mpr ⟨k', hk', hid', rfl⟩)
            · exact ih sts ms hh2 he'
      obtain ⟨a, b⟩ := hpts f sts ms this he
      exact ⟨a, b, trivial⟩
    obtain ⟨rels', st1', hcall', _, hiff⟩ := batchDLOfDifferences_flagged_iff c g1 g2 g7 st maxDiff m V
      hV (groupPoints e.id keys) [] hgood
    rw [hcall] at hcall'
    simp only [Except.ok.injEq, Prod.mk.injEq] at hcall'
    obtain ⟨rfl, _⟩ := hcall'
    refine ⟨diffVerdict x, hres, ?_⟩
    rw [diffVerdict_result]
    have := hiff r k.pt hr
    unfold Flagged at this
    rw [hx] at this
    simp only [Option.some.injEq] at this
    rw [this, List.nil_append]
    constructor
    · rintro ⟨Q, hQ, hcl⟩
      obtain ⟨k', hk', hid', rfl⟩ := mem_groupPoints_iff.mp hQ
      exact ⟨k', hk', hid', hcl⟩
    · rintro ⟨k', hk', hid', hcl⟩
      exact ⟨k'.pt, mem_groupPoints_iff.mpr ⟨k', hk', hid', rfl⟩, hcl⟩

/-- `SDHyp` depends on the batch only through the set of its keys (antitone). -/
theorem sdHyp_mono {keys keys' : List ECKey} (hsub : ∀ k ∈ keys', k ∈ keys) (maxDiff : Nat) :
    ∀ (f : Factory) (sts : List EcState) (ms : List Nat),
    SDHyp keys maxDiff f sts ms → SDHyp keys' maxDiff f sts ms
  | [], [], [], _ => trivial
  | [], [], _ :: _, h => by simp only [SDHyp] at h
  | [], _ :: _, _, h => by simp only [SDHyp] at h
  | _ :: _, [], _, h => by simp only [SDHyp] at h
  | _ :: _, _ :: _, [], h => by simp only [SDHyp] at h
  | e :: es, st :: sts, m :: ms, h => by
    obtain ⟨h1, h2⟩ := h
    refine ⟨fun c hc => ?_, sdHyp_mono hsub maxDiff es sts ms h2⟩
    obtain ⟨a, b, d, g⟩ := h1 c hc
    refine ⟨a, b, fun P hP => ?_, g⟩
    obtain ⟨k, hk, hid, rfl⟩ := mem_groupPoints_iff.mp hP
    exact d _ (mem_groupPoints_iff.mpr ⟨k, hsub k hk, hid, rfl⟩)

/-- every entry of a factory under `SDHyp` has a state, a float value, `CurveHyp` and a range. -/
theorem sdHyp_entry {keys : List ECKey} {maxDiff : Nat} : ∀ {f : Factory} {sts : List EcState}
    {ms : List Nat}, SDHyp keys maxDiff f sts ms → ∀ e ∈ f, ∀ c, e.curve = some c →
    ∃ st m, InFac f sts ms e st m ∧ CurveHyp c ∧ TableIs c st ∧ (st.tableSize < maxDiff → 1 ≤ m)
  | [], _, _, _, e, he, _, _ => by cases he
  | _ :: _, [], _, h, _, _, _, _ => by simp only [SDHyp] at h
  | _ :: _, _ :: _, [], h, _, _, _, _ => by simp only [SDHyp] at h
  | e0 :: es, st :: sts, m :: ms, h, e, he, c, hc => by
    obtain ⟨h1, h2⟩ := h
    rcases List.mem_cons.mp he with rfl | he'
    · obtain ⟨a, b, _, g⟩ := h1 c hc
      exact ⟨st, m, ⟨0, rfl, rfl, rfl⟩, a, b, g⟩
    · obtain ⟨st', m', hin, rest⟩ := sdHyp_entry h2 e he' c hc
      exact ⟨st', m', hin.cons e0 st m, rest⟩

end Paranoid.Bsgs
