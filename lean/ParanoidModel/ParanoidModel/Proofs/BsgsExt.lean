/-
Proofs/BsgsExt.lean — ExtendedBatchDL: the recorded value of a valid point is a log of it (C02);
private keys `i · multiplier` with `i < bound` are found (C10).
-/
import ParanoidModel.Proofs.BsgsMain
namespace Paranoid.Bsgs
open Paranoid Paranoid.Ec WeierstrassCurve

/-! ### list plumbing -/

theorem invMod_ok (a : Int) (m x : Nat) (hm : 2 ≤ m) (h : invMod a m = .ok x) :
    (a * x) % (m : Int) = 1 ∧ x < m ∧ Int.gcd a m = 1 := by
  rcases invMod_cases a m hm with ⟨hg, y, hy, h1, h2⟩ | ⟨_, he⟩
  · rw [hy] at h
    cases h
    exact ⟨h2, h1, hg⟩
  · rw [he] at h; cases h

theorem forall₂_append {α β} {R : α → β → Prop} {l1 l1' : List α} {l2 l2' : List β}
    (h : List.Forall₂ R l1 l2) (h' : List.Forall₂ R l1' l2') :
    List.Forall₂ R (l1 ++ l1') (l2 ++ l2') := by
  induction h with
  | nil => exact h'
  | cons hab _ ih => exact .cons hab ih

/-- `(P_i, inv_j)` at position `i + num_points * j`. -/
def extPairs (points : List Pt) (invs : List Nat) : List (Pt × Nat) :=
  invs.flatMap fun inv => points.map fun P => (P, inv)

theorem extPairs_length (points : List Pt) (invs : List Nat) :
    (extPairs points invs).length = invs.length * points.length := by
  induction invs with
  | nil => simp [extPairs]
  | cons inv invs ih =>
    simp only [extPairs, List.flatMap_cons, List.length_append, List.length_map, List.length_cons] at ih ⊢
    rw [ih]; ring

theorem extPairs_getElem? (points : List Pt) : ∀ (invs : List Nat) (j i : Nat) (P : Pt) (inv : Nat),
    points[i]? = some P → invs[j]? = some inv →
    (extPairs points invs)[j * points.length + i]? = some (P, inv)
  | [], j, _, _, _, _, hj => by simp at hj
  | inv0 :: invs, j, i, P, inv, hi, hj => by
    have hilt : i < points.length := by
      by_contra h; rw [List.getElem?_eq_none (by omega)] at hi; cases hi
    simp only [extPairs, List.flatMap_cons]
    cases j with
    | zero =>
      simp at hj; subst hj
      rw [Nat.zero_mul, Nat.zero_add, List.getElem?_append_left (by simpa using hilt)]
      simp [hi]
    | succ j =>
      simp at hj
      rw [List.getElem?_append_right (by simp; nlinarith)]
      have e : (j + 1) * points.length + i - (List.map (fun P => (P, inv0)) points).length
          = j * points.length + i := by
        simp only [List.length_map]
        rw [Nat.add_mul]; omega
      rw [e]
      exact extPairs_getElem? points invs j i P inv hi hj

theorem extPairs_getElem?_inv (points : List Pt) (invs : List Nat) (idx : Nat) (P : Pt) (inv : Nat)
    (h : (extPairs points invs)[idx]? = some (P, inv)) :
    0 < points.length ∧ points[idx % points.length]? = some P ∧ invs[idx / points.length]? = some inv := by
  have hlt : idx < invs.length * points.length := by
    rw [← extPairs_length]
    by_contra hge; rw [List.getElem?_eq_none (by omega)] at h; cases h
  have hnp : 0 < points.length := by
    rcases Nat.eq_zero_or_pos points.length with h0 | h0
    · rw [h0] at hlt; omega
    · exact h0
  have hi : idx % points.length < points.length := Nat.mod_lt _ hnp
  have hj : idx / points.length < invs.length := Nat.div_lt_of_lt_mul (by rwa [Nat.mul_comm])
  have h1 := extPairs_getElem? points invs (idx / points.length) (idx % points.length)
    points[idx % points.length] invs[idx / points.length] (List.getElem?_eq_getElem hi)
    (List.getElem?_eq_getElem hj)
  rw [Nat.div_add_mod'] at h1
  rw [h1] at h
  cases h
  exact ⟨hnp, List.getElem?_eq_getElem hi, List.getElem?_eq_getElem hj⟩

/-! ### the result loop -/

theorem extCollect_spec (np : Nat) (hnp : 0 < np) (mults : List Nat) :
    ∀ (ds : List (Option Int)) (k : Nat) (res : List (Option Int)),
    res.length = np → k + ds.length ≤ mults.length * np →
    ∃ res', extCollect np mults ds k res = .ok res' ∧ res'.length = np ∧
      (∀ (i : Nat) (v : Int), res'[i]? = some (some v) → res[i]? = some (some v) ∨
        ∃ (idx : Nat) (d : Int) (m : Nat), ds[idx]? = some (some d) ∧ (k + idx) % np = i ∧
          mults[(k + idx) / np]? = some m ∧ v = d * (m : Int)) ∧
      (∀ (i : Nat) (v : Int), res[i]? = some (some v) → ∃ v' : Int, res'[i]? = some (some v')) ∧
      (∀ (idx : Nat) (d : Int), ds[idx]? = some (some d) →
        ∃ v' : Int, res'[(k + idx) % np]? = some (some v'))
  | [], k, res, hl, _ =>
    ⟨res, rfl, hl, fun i v h => .inl h, fun i v h => ⟨v, h⟩, fun idx d h => by simp at h⟩
  | none :: ds, k, res, hl, hk => by
    obtain ⟨res', h1, h2, h3, h4, h5⟩ := extCollect_spec np hnp mults ds (k + 1) res hl
      (by simp at hk; omega)
    refine ⟨res', by rw [extCollect]; exact h1, h2, ?_, h4, ?_⟩
    · intro i v hv
      rcases h3 i v hv with h | ⟨idx, d, m, a, b, c', e⟩
      · exact .inl h
      · exact .inr ⟨idx + 1, d, m, by simpa using a, by rwa [show k + (idx + 1) = k + 1 + idx by omega],
          by rwa [show k + (idx + 1) = k + 1 + idx by omega], e⟩
    · intro idx d hd
      cases idx with
      | zero => simp at hd
      | succ idx =>
        simp at hd
        rw [show k + (idx + 1) = k + 1 + idx by omega]
        exact h5 idx d hd
  | some d :: ds, k, res, hl, hk => by
    simp only [List.length_cons] at hk
    have hkm : k / np < mults.length := Nat.div_lt_of_lt_mul (by rw [Nat.mul_comm]; omega)
    obtain ⟨res', h1, h2, h3, h4, h5⟩ := extCollect_spec np hnp mults ds (k + 1)
      (res.set (k % np) (some (d * (mults[k / np] : Int)))) (by simpa using hl) (by omega)
    have hmod : k % np < res.length := by rw [hl]; exact Nat.mod_lt _ hnp
    refine ⟨res', ?_, h2, ?_, ?_, ?_⟩
    · rw [extCollect, if_neg (by omega), List.getElem?_eq_getElem hkm]
      exact h1
    · intro i v hv
      rcases h3 i v hv with h | ⟨idx, d', m, a, b, c', e⟩
      · by_cases hik : k % np = i
        · rw [List.getElem?_set, if_pos hik, if_pos hmod] at h
          cases h
          exact .inr ⟨0, d, mults[k / np], by simp, by simpa using hik,
            by simpa using List.getElem?_eq_getElem hkm, rfl⟩
        · rw [List.getElem?_set, if_neg hik] at h
          exact .inl h
      · exact .inr ⟨idx + 1, d', m, by simpa using a, by rwa [show k + (idx + 1) = k + 1 + idx by omega],
          by rwa [show k + (idx + 1) = k + 1 + idx by omega], e⟩
    · intro i v hv
      by_cases hik : k % np = i
      · exact h4 i (d * (mults[k / np] : Int)) (by rw [List.getElem?_set, if_pos hik, if_pos hmod])
      · exact h4 i v (by rw [List.getElem?_set, if_neg hik]; exact hv)
    · intro idx d' hd
      cases idx with
      | zero =>
        exact h4 (k % np) (d * (mults[k / np] : Int))
          (by rw [List.getElem?_set, if_pos rfl, if_pos hmod])
      | succ idx =>
        simp at hd
        rw [show k + (idx + 1) = k + 1 + idx by omega]
        exact h5 idx d' hd

section group
variable (c : Curve) [hp : Fact (Nat.Prime c.p)]

theorem extAllPoints_spec (points : List Pt) : ∀ (invs : List Nat) (all : List Pt),
    extAllPoints c points invs = .ok all →
    List.Forall₂ (fun Q (pi : Pt × Nat) => multiply c pi.1 (pi.2 : Int) = .ok Q) all
      (extPairs points invs)
  | [], all, h => by cases h; exact .nil
  | inv :: invs, all, h => by
    rw [extAllPoints] at h
    split at h
    · cases h
    · rename_i row hrow
      split at h
      · cases h
      · rename_i rest hrest
        cases h
        have h1 := (forE_ok hrow).flip
        have h2 : List.Forall₂ (fun Q (pi : Pt × Nat) => multiply c pi.1 (pi.2 : Int) = .ok Q) row
            (points.map fun P => (P, inv)) := by
          rw [List.forall₂_map_right_iff]
          exact h1
        simp only [extPairs, List.flatMap_cons]
        exact forall₂_append h2 (extAllPoints_spec points invs rest hrest)

theorem extAllPoints_total (hc : c.Good) (points : List Pt) (hpts : ∀ P ∈ points, onCurve c P = true) :
    ∀ invs : List Nat, ∃ all, extAllPoints c points invs = .ok all ∧ ∀ Q ∈ all, onCurve c Q = true
  | [] => ⟨[], rfl, fun Q h => by simp at h⟩
  | inv :: invs => by
    obtain ⟨rest, hr1, hr2⟩ := extAllPoints_total hc points hpts invs
    obtain ⟨row, hrow⟩ := forE_total (f := fun P => multiply c P (inv : Int)) (l := points)
      (fun P hP => by obtain ⟨R, h, _⟩ := multiply_zsmul c hc P inv (hpts P hP); exact ⟨R, h⟩)
    refine ⟨row ++ rest, by rw [extAllPoints, hrow]; simp only; rw [hr1], ?_⟩
    intro Q hQ
    rcases List.mem_append.mp hQ with h | h
    · obtain ⟨P, hP, hm⟩ := forall₂_mem_left (forE_ok hrow).flip h
      obtain ⟨R, h1, h2, _⟩ := multiply_zsmul c hc P inv (hpts P hP)
      rw [h1] at hm; cases hm; exact h2
    · exact hr2 Q h

/-- `(m·inv) • P = P` when `m·inv ≡ 1 (mod N)` and `N • P = 0`. -/
theorem smul_inv_cancel {P : (W c).Point} (hN : c.n • P = 0) (m inv : Nat)
    (h : ((m : Int) * inv) % (c.n : Int) = 1) : ((m : Int) * inv) • P = P := by
  have := Int.emod_add_mul_ediv ((m : Int) * inv) (c.n : Int)
  rw [h] at this
  rw [← this, add_zsmul, one_zsmul, mul_zsmul, natCast_zsmul, smul_comm, hN, zsmul_zero, add_zero]

/-- **ExtendedBatchDL soundness** (C02): for a point `P` on the curve with `N • P = 0` (a valid
public key), the recorded value — `dlog · multiplier` for the last multiplier (in list order) whose
transformed point has a found log — satisfies `v • G = P`. For every state, bound, oracle value. -/
theorem extendedBatchDLB_sound (hc : c.Good) (hG : onCurve c c.g = true) (hn : 2 ≤ c.n)
    (bound : Nat) (st : EcState) (points : List Pt) (ts m : Nat) (res : List (Option Int))
    (st' : EcState) (h : extendedBatchDLB listImpl c bound st points ts m = .ok (res, st'))
    (i : Nat) (P : Pt) (v : Int) (hP : points[i]? = some P) (hon : onCurve c P = true)
    (hN : c.n • toPoint c P = 0) (hv : res[i]? = some (some v)) : v • Gp c = toPoint c P := by
  unfold extendedBatchDLB at h
  split at h
  · cases h
  · rename_i invs hinvs
    split at h
    · cases h
    · rename_i all hall
      split at h
      · cases h
      · rename_i dls st1 hdl
        split at h
        · cases h
        · rename_i res1 hcol
          cases h
          have hnp : 0 < points.length := by
            by_contra h0
            rw [List.getElem?_eq_none (by omega)] at hP; cases hP
          have hsound := batchDL_sound c hc hG st all bound ts m dls st' hdl
          have hpairs := extAllPoints_spec c points invs all hall
          have hinv := forE_ok hinvs
          have hlen : dls.length = (extMultipliers c).length * points.length := by
            rw [← hsound.length_eq, hpairs.length_eq, extPairs_length, hinv.length_eq]
          obtain ⟨res', h1, _, h3, _, _⟩ := extCollect_spec points.length hnp (extMultipliers c) dls 0
            (List.replicate points.length none) (by simp) (by omega)
          rw [h1] at hcol; cases hcol
          rcases h3 i v hv with h0 | ⟨idx, d, mu, hd, hi, hmu, rfl⟩
          · rw [List.getElem?_replicate] at h0; split at h0 <;> cases h0
          · rw [zero_add] at hi hmu
            -- the point at position idx
            have hidx : idx < all.length := by
              rw [hsound.length_eq]
              by_contra hge; rw [List.getElem?_eq_none (by omega)] at hd; cases hd
            obtain ⟨Q, hQ, hdQ⟩ := forall₂_getElem? hsound idx (some d) hd
            obtain ⟨pi, hpi, hmul⟩ := forall₂_getElem? hpairs.flip idx Q hQ
            obtain ⟨P', inv⟩ := pi
            obtain ⟨_, hP', hinv'⟩ := extPairs_getElem?_inv points invs idx P' inv hpi
            rw [hi, hP] at hP'; cases hP'
            obtain ⟨mu', hmu', hinvmod⟩ := forall₂_getElem? hinv (idx / points.length) inv hinv'
            rw [hmu] at hmu'; cases hmu'
            have hio := invMod_ok (mu : Int) c.n inv hn hinvmod
            obtain ⟨R, hR1, _, hR3⟩ := multiply_zsmul c hc P inv hon
            simp only at hmul
            rw [hR1] at hmul; cases hmul
            have hdG := hdQ d rfl
            rw [hR3] at hdG
            rw [mul_comm, mul_zsmul, hdG, ← mul_zsmul]
            exact smul_inv_cancel c hN mu inv hio.1

/-- every multiplier is invertible modulo the group order (so `gmpy.invert` does not raise). -/
def MultipliersOK : Prop := ∀ mu ∈ extMultipliers c, Int.gcd (mu : Int) c.n = 1

theorem extInverses_total (hn : 2 ≤ c.n) (hmu : MultipliersOK c) :
    ∃ invs, extInverses c = .ok invs ∧
      List.Forall₂ (fun (mu inv : Nat) => invMod (mu : Int) c.n = .ok inv) (extMultipliers c) invs := by
  obtain ⟨invs, h⟩ := forE_total (f := fun (mu : Nat) => invMod (mu : Int) c.n) (l := extMultipliers c)
    (fun mu hmem => by
      rcases invMod_cases (mu : Int) c.n hn with ⟨_, x, hx, _⟩ | ⟨hg, _⟩
      · exact ⟨x, hx⟩
      · exact absurd (hmu mu hmem) hg)
  exact ⟨invs, h, forE_ok h⟩

/-- **ExtendedBatchDL totality and completeness** (C10). For every state satisfying the table
invariant, every `ts ≥ 1`, every list of on-curve points: the call does not raise; and a reduced point
`P = d • G` whose private key is `d = i · mu` for one of the multipliers `mu` and `i < bound` is
recorded with some `v` such that `v • G = P` (hence `v ≡ d (mod N)` when `G` has order `N`). -/
theorem extendedBatchDLB_complete (hc : c.Good) (hG : onCurve c c.g = true) (hGr : Reduced c c.g)
    (hn : 2 ≤ c.n) (hNG : c.n • Gp c = 0) (hmu : MultipliersOK c) (bound : Nat)
    (st : EcState) (V : Nat) (hst : StateOK c st V) (points : List Pt)
    (hpts : ∀ P ∈ points, onCurve c P = true) (ts m : Nat) (hts : 1 ≤ ts)
    (hm : st.tableSize < ts → 1 ≤ m) :
    ∃ res st', extendedBatchDLB listImpl c bound st points ts m = .ok (res, st') ∧
      StateOK c st' (rangeAfter st V ts m) ∧ st'.tableSize = max st.tableSize ts ∧
      res.length = points.length ∧
      ∀ (i : Nat) (P : Pt) (d i0 mu : Nat), points[i]? = some P → Reduced c P →
        toPoint c P = d • Gp c → mu ∈ extMultipliers c → d = i0 * mu → i0 < bound →
        ∃ v : Int, res[i]? = some (some v) ∧ v • Gp c = toPoint c P := by
  obtain ⟨invs, hinvs, hinv⟩ := extInverses_total c hn hmu
  obtain ⟨all, hall, hallon⟩ := extAllPoints_total c hc points hpts invs
  obtain ⟨dls, st1, hdl, hst1, hsz, _, hcomp⟩ := batchDL_complete c hc hG hGr st V hst all hallon bound
    ts m hts hm
  have hpairs := extAllPoints_spec c points invs all hall
  have hlen : dls.length = (extMultipliers c).length * points.length := by
    rw [← hcomp.length_eq, hpairs.length_eq, extPairs_length, hinv.length_eq]
  rcases Nat.eq_zero_or_pos points.length with hnp0 | hnp
  · -- empty list: `all_points = []`, BatchDL([]) — covered by the general statement only when it
    -- does not raise; with no points `dls = []`
    have hp0 : points = [] := List.eq_nil_of_length_eq_zero hnp0
    subst hp0
    have : dls = [] := List.eq_nil_of_length_eq_zero (by rw [hlen]; simp)
    subst this
    refine ⟨[], st1, ?_, hst1, hsz, rfl, fun i P d i0 mu hP => by simp at hP⟩
    unfold extendedBatchDLB
    rw [hinvs]; simp only; rw [hall]; simp only
    have hdl' : batchDLG listImpl c st all bound ts m = .ok ([], st1) := hdl
    rw [hdl']
    rfl
  · obtain ⟨res, h1, h2, h3, _, h5⟩ := extCollect_spec points.length hnp (extMultipliers c) dls 0
      (List.replicate points.length none) (by simp) (by omega)
    have hrun : extendedBatchDLB listImpl c bound st points ts m = .ok (res, st1) := by
      unfold extendedBatchDLB
      rw [hinvs]; simp only; rw [hall]; simp only
      have hdl' : batchDLG listImpl c st all bound ts m = .ok (dls, st1) := hdl
      rw [hdl']; simp only; rw [h1]
    refine ⟨res, st1, hrun, hst1, hsz, h2, ?_⟩
    intro i P d i0 mu hP hPr hPd hmem hd hi0
    have hon := hpts P (List.mem_of_getElem? hP)
    obtain ⟨j, hj⟩ := List.getElem?_of_mem hmem
    obtain ⟨inv, hinvj, hinvmod⟩ : ∃ inv, invs[j]? = some inv ∧ invMod (mu : Int) c.n = .ok inv := by
      obtain ⟨a, ha, hr⟩ := forall₂_getElem? hinv.flip j mu hj
      exact ⟨a, ha, hr⟩
    have hio := invMod_ok (mu : Int) c.n inv hn hinvmod
    -- the transformed point
    have hpair := extPairs_getElem? points invs j i P inv hP hinvj
    obtain ⟨Q, hQ, hmul⟩ := forall₂_getElem? hpairs _ _ hpair
    simp only at hmul
    obtain ⟨R, hR1, hR2⟩ := multiply_repR c hc hon hPr (inv : Int)
    rw [hR1] at hmul; cases hmul
    have hQi0 : toPoint c Q = i0 • Gp c := by
      rw [hR2.2.1, hPd, hd, ← natCast_zsmul, ← mul_zsmul]
      have e : (inv : Int) * ((i0 * mu : Nat) : Int) = (i0 : Int) * ((mu : Int) * inv) := by
        push_cast; ring
      rw [e, mul_zsmul, smul_inv_cancel c hNG mu inv hio.1, natCast_zsmul]
    obtain ⟨r, hr, hrel⟩ := forall₂_getElem? hcomp.flip (j * points.length + i) Q hQ
    obtain ⟨v', rfl, _, _⟩ := hrel i0 hR2.2.2 hi0 hQi0
    obtain ⟨v, hv⟩ := h5 (j * points.length + i) v' hr
    have hi : i < points.length := by
      by_contra hge; rw [List.getElem?_eq_none (by omega)] at hP; cases hP
    rw [zero_add, Nat.mul_add_mod_of_lt hi] at hv
    refine ⟨v, hv, ?_⟩
    have hNP : c.n • toPoint c P = 0 := by rw [hPd, smul_comm, hNG, nsmul_zero]
    exact extendedBatchDLB_sound c hc hG hn bound st points ts m res st1 hrun i P v hP hon hNP hv

end group
end Paranoid.Bsgs
