/-
Proofs/BsgsFast.lean — the hash-map instance of the model (`hashImpl`, run by the native driver)
gives the same answers as the association-list instance (`listImpl`, the subject of Props/C10).
Only the `Std.HashMap` lemmas `getElem?_insert`, `getElem?_empty` are used about the hash map.

`Sim a b`: the two dicts answer every lookup alike. It holds for the empty dicts, is preserved by
`d[k] = v`, hence by PointTable; every other function reads the dict only through `get?`.
`SimRes`: both sides raise the same exception, or return equal results and `Sim`-related states.
-/
import ParanoidModel.Model.Bsgs
import Mathlib.Data.List.Forall2
namespace Paranoid.Bsgs
open Paranoid Paranoid.Ec

abbrev HTable := Std.HashMap (Option Int) Nat

def Sim (a : XTable) (b : HTable) : Prop := ∀ k, listImpl.get? a k = hashImpl.get? b k

theorem sim_empty : Sim listImpl.empty hashImpl.empty := by
  intro k
  simp [listImpl, hashImpl, XTable.get?]

theorem xtable_get?_set (t : XTable) (k k' : Option Int) (v : Nat) :
    (t.set k v).get? k' = if k = k' then some v else t.get? k' := by
  induction t with
  | nil => simp [XTable.set, XTable.get?]
  | cons e rest ih =>
    obtain ⟨k0, v0⟩ := e
    unfold XTable.set
    by_cases h0 : k0 = k
    · rw [if_pos h0]
      subst h0
      unfold XTable.get?
      by_cases h1 : k0 = k' <;> simp [h1]
    · rw [if_neg h0]
      unfold XTable.get?
      by_cases h1 : k0 = k'
      · rw [if_pos h1, if_pos h1]
        have : ¬ k = k' := fun h => h0 (h1.trans h.symm)
        rw [if_neg this]
      · rw [if_neg h1, if_neg h1, ih]

theorem sim_set {a : XTable} {b : HTable} (h : Sim a b) (k : Option Int) (v : Nat) :
    Sim (listImpl.set a k v) (hashImpl.set b k v) := by
  intro k'
  have := h k'
  simp only [listImpl, hashImpl] at this ⊢
  rw [xtable_get?_set, Std.HashMap.getElem?_insert, this]
  by_cases hk : k = k' <;> simp [hk]

theorem tableRowG_sim : ∀ (xs : List (Option Int)) (a : XTable) (b : HTable) (v : Nat), Sim a b →
    Sim (tableRowG listImpl a xs v) (tableRowG hashImpl b xs v)
  | [], _, _, _, h => h
  | x :: xs, a, b, v, h => tableRowG_sim xs _ _ (v + 1) (sim_set h x v)

/-- results of two runs: same exception, or `R`-related values. -/
def RelE {α β} (R : α → β → Prop) : Except PyErr α → Except PyErr β → Prop
  | .ok a, .ok b => R a b
  | .error e, .error e' => e = e'
  | _, _ => False

theorem tableRowsG_sim (c : Curve) (low : List Pt) (m : Nat) :
    ∀ (ps : List Pt) (i : Nat) (a : XTable) (b : HTable), Sim a b →
    RelE Sim (tableRowsG listImpl c low m ps i a) (tableRowsG hashImpl c low m ps i b)
  | [], _, _, _, h => h
  | p :: ps, i, a, b, h => by
    rw [tableRowsG, tableRowsG]
    cases batchAddX c p low with
    | error e => rfl
    | ok xs => exact tableRowsG_sim c low m ps (i + 1) _ _ (tableRowG_sim xs a b (i * m) h)

theorem pointTableG_sim (c : Curve) (base : Pt) (n m : Nat) :
    RelE Sim (pointTableG listImpl c base n m) (pointTableG hashImpl c base n m) := by
  unfold pointTableG
  by_cases hm : m = 0
  · rw [if_pos hm, if_pos hm]; rfl
  · rw [if_neg hm, if_neg hm]
    cases pointSequence c base m with
    | error e => rfl
    | ok low =>
      simp only
      cases multiply c base m with
      | error e => rfl
      | ok bm =>
        simp only
        cases pointSequence c bm ((n + m - 1) / m) with
        | error e => rfl
        | ok high => exact tableRowsG_sim c low m high 0 _ _ sim_empty

/-- states: same `_table_size`, dicts answering alike. -/
def SimSt (s : StateG XTable) (t : StateG HTable) : Prop :=
  s.tableSize = t.tableSize ∧ Sim s.table t.table

theorem simSt_init : SimSt (StateG.init listImpl) (StateG.init hashImpl) := ⟨rfl, sim_empty⟩

theorem ensureTableG_sim (c : Curve) {s : StateG XTable} {t : StateG HTable} (h : SimSt s t)
    (size m : Nat) :
    RelE SimSt (ensureTableG listImpl c s size m) (ensureTableG hashImpl c t size m) := by
  unfold ensureTableG
  rw [h.1]
  by_cases hs : size > t.tableSize
  · rw [if_pos hs, if_pos hs]
    have := pointTableG_sim c c.g size m
    revert this
    cases pointTableG listImpl c c.g size m <;> cases pointTableG hashImpl c c.g size m <;>
      simp [RelE, SimSt]
  · rw [if_neg hs, if_neg hs]; exact h

theorem lookup_eq {s : StateG XTable} {t : StateG HTable} (h : SimSt s t) :
    listImpl.get? s.table = hashImpl.get? t.table := funext h.2

/-- results with state. -/
def SimRes {α} : Except PyErr (α × StateG XTable) → Except PyErr (α × StateG HTable) → Prop :=
  RelE fun a b => a.1 = b.1 ∧ SimSt a.2 b.2

theorem batchDLG_sim (c : Curve) {s : StateG XTable} {t : StateG HTable} (h : SimSt s t)
    (points : List Pt) (n ts m : Nat) :
    SimRes (batchDLG listImpl c s points n ts m) (batchDLG hashImpl c t points n ts m) := by
  unfold batchDLG
  have := ensureTableG_sim c h ts m
  revert this
  cases ensureTableG listImpl c s ts m with
  | error e =>
    cases ensureTableG hashImpl c t ts m with
    | error e' => intro h'; exact h'
    | ok t' => intro h'; exact h'.elim
  | ok s' =>
    cases ensureTableG hashImpl c t ts m with
    | error e' => intro h'; exact h'.elim
    | ok t' =>
      intro h'
      simp only
      rw [lookup_eq h']
      cases batchDLCore c (hashImpl.get? t'.table) points n ts with
      | error e => rfl
      | ok res => exact ⟨rfl, h'⟩

theorem extendedBatchDLB_sim (c : Curve) (bound : Nat) {s : StateG XTable} {t : StateG HTable}
    (h : SimSt s t) (points : List Pt) (ts m : Nat) :
    SimRes (extendedBatchDLB listImpl c bound s points ts m)
      (extendedBatchDLB hashImpl c bound t points ts m) := by
  unfold extendedBatchDLB
  cases extInverses c with
  | error e => rfl
  | ok invs =>
    simp only
    cases extAllPoints c points invs with
    | error e => rfl
    | ok all =>
      simp only
      have := batchDLG_sim c h all bound ts m
      revert this
      cases batchDLG listImpl c s all bound ts m with
      | error e =>
        cases batchDLG hashImpl c t all bound ts m with
        | error e' => intro h'; exact h'
        | ok r => intro h'; exact h'.elim
      | ok r1 =>
        cases batchDLG hashImpl c t all bound ts m with
        | error e' => intro h'; exact h'.elim
        | ok r2 =>
          intro h'
          obtain ⟨d1, s1⟩ := r1
          obtain ⟨d2, s2⟩ := r2
          obtain ⟨hd, hs⟩ := h'
          simp only at hd
          subst hd
          simp only
          cases extCollect points.length (extMultipliers c) d1 0 (List.replicate points.length none) with
          | error e => rfl
          | ok res => exact ⟨rfl, hs⟩

theorem extendedBatchDLG_sim (c : Curve) {s : StateG XTable} {t : StateG HTable} (h : SimSt s t)
    (points : List Pt) (ts m : Nat) :
    SimRes (extendedBatchDLG listImpl c s points ts m) (extendedBatchDLG hashImpl c t points ts m) :=
  extendedBatchDLB_sim c _ h points ts m

theorem batchDLOfDifferencesG_sim (c : Curve) {s : StateG XTable} {t : StateG HTable}
    (h : SimSt s t) (points other : List Pt) (maxDiff m : Nat) :
    SimRes (batchDLOfDifferencesG listImpl c s points other maxDiff m)
      (batchDLOfDifferencesG hashImpl c t points other maxDiff m) := by
  unfold batchDLOfDifferencesG
  by_cases hg : points.isEmpty = true ∨ points.length + other.length < 2
  · rw [if_pos hg, if_pos hg]; exact ⟨rfl, h⟩
  · rw [if_neg hg, if_neg hg]
    have := ensureTableG_sim c h maxDiff m
    revert this
    cases ensureTableG listImpl c s maxDiff m with
    | error e =>
      cases ensureTableG hashImpl c t maxDiff m with
      | error e' => intro h'; exact h'
      | ok t' => intro h'; exact h'.elim
    | ok s' =>
      cases ensureTableG hashImpl c t maxDiff m with
      | error e' => intro h'; exact h'.elim
      | ok t' =>
        intro h'
        simp only
        rw [lookup_eq h']
        cases diffOuter c (hashImpl.get? t'.table) other.length points 0 (other.map (negate c))
            (List.replicate points.length none) with
        | error e => rfl
        | ok res => exact ⟨rfl, h'⟩

/-- lists of states, entry by entry. -/
def SimSts : List (StateG XTable) → List (StateG HTable) → Prop := List.Forall₂ SimSt

def SimResL {α} : Except PyErr (α × List (StateG XTable)) → Except PyErr (α × List (StateG HTable)) → Prop :=
  RelE fun a b => a.1 = b.1 ∧ SimSts a.2 b.2

theorem consState_sim {s : StateG XTable} {t : StateG HTable} (hst : SimSt s t)
    {r1 : Except PyErr (List KeyVerdict × List (StateG XTable))}
    {r2 : Except PyErr (List KeyVerdict × List (StateG HTable))} (h : SimResL r1 r2) :
    SimResL (consState s r1) (consState t r2) := by
  cases r1 with
  | error e1 =>
    cases r2 with
    | error e2 => exact h
    | ok b => exact h.elim
  | ok a =>
    cases r2 with
    | error e2 => exact h.elim
    | ok b => exact ⟨h.1, .cons hst h.2⟩

theorem weakKeyLoop_sim (keys : List ECKey) : ∀ (f : Factory) (ss : List (StateG XTable))
    (ts : List (StateG HTable)) (os : List (Nat × Nat)) (res : List KeyVerdict), SimSts ss ts →
    SimResL (weakKeyLoop listImpl keys f ss os res) (weakKeyLoop hashImpl keys f ts os res) := by
  intro f
  induction f with
  | nil => intro ss ts os res _; simp [weakKeyLoop, SimResL, RelE, SimSts]
  | cons e es ihf =>
    intro ss ts os res h
    cases h with
    | nil => simp [weakKeyLoop, SimResL, RelE, SimSts]
    | cons hst hrest =>
      rename_i s t ss ts
      cases os with
      | nil => simp [weakKeyLoop, SimResL, RelE, SimSts]
      | cons o os =>
        rw [weakKeyLoop, weakKeyLoop]
        cases e.curve with
        | none => exact consState_sim hst (ihf ss ts os res hrest)
        | some c =>
          simp only
          by_cases hg : (groupPoints e.id keys).isEmpty = true
          · rw [if_pos hg, if_pos hg]; exact consState_sim hst (ihf ss ts os res hrest)
          · rw [if_neg hg, if_neg hg]
            have hx := extendedBatchDLG_sim c hst (groupPoints e.id keys) o.1 o.2
            revert hx
            cases extendedBatchDLG listImpl c s (groupPoints e.id keys) o.1 o.2 with
            | error e1 =>
              cases extendedBatchDLG hashImpl c t (groupPoints e.id keys) o.1 o.2 with
              | error e2 => intro h'; exact h'
              | ok r => intro h'; exact h'.elim
            | ok r1 =>
              cases extendedBatchDLG hashImpl c t (groupPoints e.id keys) o.1 o.2 with
              | error e2 => intro h'; exact h'.elim
              | ok r2 =>
                intro h'
                obtain ⟨d1, s1⟩ := r1
                obtain ⟨d2, s2⟩ := r2
                obtain ⟨hd, hs⟩ := h'
                simp only at hd
                subst hd
                exact consState_sim hs (ihf ss ts os _ hrest)

theorem smallDiffLoop_sim (keys : List ECKey) (maxDiff : Nat) : ∀ (f : Factory)
    (ss : List (StateG XTable)) (ts : List (StateG HTable)) (ms : List Nat) (res : List KeyVerdict),
    SimSts ss ts →
    SimResL (smallDiffLoop listImpl keys maxDiff f ss ms res)
      (smallDiffLoop hashImpl keys maxDiff f ts ms res) := by
  intro f
  induction f with
  | nil => intro ss ts ms res _; simp [smallDiffLoop, SimResL, RelE, SimSts]
  | cons e es ihf =>
    intro ss ts ms res h
    cases h with
    | nil => simp [smallDiffLoop, SimResL, RelE, SimSts]
    | cons hst hrest =>
      rename_i s t ss ts
      cases ms with
      | nil => simp [smallDiffLoop, SimResL, RelE, SimSts]
      | cons m ms =>
        rw [smallDiffLoop, smallDiffLoop]
        cases e.curve with
        | none => exact consState_sim hst (ihf ss ts ms res hrest)
        | some c =>
          simp only
          have hx := batchDLOfDifferencesG_sim c hst (groupPoints e.id keys) [] maxDiff m
          revert hx
          cases batchDLOfDifferencesG listImpl c s (groupPoints e.id keys) [] maxDiff m with
          | error e1 =>
            cases batchDLOfDifferencesG hashImpl c t (groupPoints e.id keys) [] maxDiff m with
            | error e2 => intro h'; exact h'
            | ok r => intro h'; exact h'.elim
          | ok r1 =>
            cases batchDLOfDifferencesG hashImpl c t (groupPoints e.id keys) [] maxDiff m with
            | error e2 => intro h'; exact h'.elim
            | ok r2 =>
              intro h'
              obtain ⟨d1, s1⟩ := r1
              obtain ⟨d2, s2⟩ := r2
              obtain ⟨hd, hs⟩ := h'
              simp only at hd
              subst hd
              exact consState_sim hs (ihf ss ts ms _ hrest)

/-- **driver = model.** Every stateful operation run with the hash-map dict from `Sim`-related
states gives the same exception or the same result and `Sim`-related states as the association-list
model the theorems of Props/C10 are about. (The driver starts from `StateG.init` or from
`pointTableG hashImpl` of the state token, `pointTableG_sim`.) -/
theorem driver_agrees (c : Curve) {s : StateG XTable} {t : StateG HTable} (h : SimSt s t) :
    (∀ points n ts m, SimRes (batchDLG listImpl c s points n ts m) (batchDLG hashImpl c t points n ts m)) ∧
    (∀ points ts m, SimRes (extendedBatchDLG listImpl c s points ts m)
      (extendedBatchDLG hashImpl c t points ts m)) ∧
    (∀ points other maxDiff m, SimRes (batchDLOfDifferencesG listImpl c s points other maxDiff m)
      (batchDLOfDifferencesG hashImpl c t points other maxDiff m)) :=
  ⟨fun p n ts m => batchDLG_sim c h p n ts m, fun p ts m => extendedBatchDLG_sim c h p ts m,
   fun p o md m => batchDLOfDifferencesG_sim c h p o md m⟩

theorem driver_agrees_checks (f : Factory) {ss : List (StateG XTable)} {ts : List (StateG HTable)}
    (h : SimSts ss ts) (keys : List ECKey) :
    (∀ orc, SimResL (checkWeakECPrivateKeyG listImpl f ss orc keys)
      (checkWeakECPrivateKeyG hashImpl f ts orc keys)) ∧
    (∀ ms maxDiff, SimResL (checkECKeySmallDifferenceG listImpl f ss ms keys maxDiff)
      (checkECKeySmallDifferenceG hashImpl f ts ms keys maxDiff)) :=
  ⟨fun orc => weakKeyLoop_sim keys f ss ts orc _ h,
   fun ms md => smallDiffLoop_sim keys md f ss ts ms _ h⟩

end Paranoid.Bsgs
