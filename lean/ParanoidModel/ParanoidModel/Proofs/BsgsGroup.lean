/-
Proofs/BsgsGroup.lean — bookkeeping of the per-curve batches inside the EC Check methods:
`keys = [key for key in artifacts if key.ec_info.curve_type == curve_id]`, its batch positions, and
the write-back `for i, key in enumerate(keys): … SetTestResult(key.test_info, …)`.
No curve arithmetic here.
-/
import ParanoidModel.Model.Bsgs
import Mathlib.Data.List.Forall2
import Mathlib.Data.List.Nodup
namespace Paranoid.Bsgs
open Paranoid Paranoid.Ec

theorem forall₂_idx {α β} {R : α → β → Prop} {l1 : List α} {l2 : List β}
    (h : List.Forall₂ R l1 l2) :
    ∀ (r : Nat) (a : α), l1[r]? = some a → ∃ b, l2[r]? = some b ∧ R a b := by
  induction h with
  | nil => intro r a ha; simp at ha
  | cons hab _ ih =>
    intro r a ha
    cases r with
    | zero => simp at ha; subst ha; exact ⟨_, by simp, hab⟩
    | succ r => simp at ha; obtain ⟨b, hb, hr⟩ := ih r a ha; exact ⟨b, by simpa using hb, hr⟩

/-! ### positions of a group -/

/-- rank `r` of the group of `id` is the key at batch position `idx`. -/
def GroupAt (id : Nat) (keys : List ECKey) (r idx : Nat) : Prop :=
  (keyIdxs id keys 0)[r]? = some idx

theorem keyIdxs_shift (id : Nat) : ∀ (keys : List ECKey) (i0 : Nat),
    keyIdxs id keys i0 = (keyIdxs id keys 0).map (· + i0)
  | [], _ => rfl
  | k :: ks, i0 => by
    rw [keyIdxs, keyIdxs]
    split
    · rw [keyIdxs_shift id ks (i0 + 1), keyIdxs_shift id ks (0 + 1)]
      simp [List.map_map, Function.comp_def, Nat.add_assoc, Nat.add_comm 1]
    · rw [keyIdxs_shift id ks (i0 + 1), keyIdxs_shift id ks (0 + 1)]
      simp [List.map_map, Function.comp_def, Nat.add_assoc, Nat.add_comm 1]

/-- positions and points of a group run in parallel: rank `r` ↦ (position, point of that key). -/
theorem group_parallel (id : Nat) : ∀ (keys : List ECKey),
    List.Forall₂ (fun idx P => ∃ k, keys[idx]? = some k ∧ k.curveType = id ∧ P = k.pt)
      (keyIdxs id keys 0) (groupPoints id keys)
  | [] => .nil
  | k :: ks => by
    have ih := group_parallel id ks
    have ih' : List.Forall₂ (fun idx P => ∃ k', (k :: ks)[idx]? = some k' ∧ k'.curveType = id ∧ P = k'.pt)
        (keyIdxs id ks (0 + 1)) (groupPoints id ks) := by
      rw [keyIdxs_shift, List.forall₂_map_left_iff]
      exact ih.imp fun idx P ⟨k', a, b, c⟩ => ⟨k', by simpa using a, b, c⟩
    rw [keyIdxs, groupPoints]
    by_cases hk : k.curveType = id
    · rw [if_pos hk, List.filter_cons_of_pos (by simpa using hk), List.map_cons]
      exact .cons ⟨k, rfl, hk, rfl⟩ ih'
    · rw [if_neg hk, List.filter_cons_of_neg (by simpa using hk)]
      exact ih'

theorem keyIdxs_lt (id : Nat) (keys : List ECKey) : ∀ idx ∈ keyIdxs id keys 0, idx < keys.length := by
  intro idx h
  obtain ⟨r, hr⟩ := List.getElem?_of_mem h
  obtain ⟨_, _, k, hk, _⟩ := forall₂_idx (group_parallel id keys) r idx hr
  by_contra hge; rw [List.getElem?_eq_none (by omega)] at hk; cases hk

/-- strictly increasing, hence without repetition. -/
theorem keyIdxs_sorted (id : Nat) : ∀ (keys : List ECKey) (i0 : Nat),
    (keyIdxs id keys i0).Pairwise (· < ·) ∧ ∀ idx ∈ keyIdxs id keys i0, i0 ≤ idx
  | [], _ => ⟨.nil, fun _ h => by simp [keyIdxs] at h⟩
  | k :: ks, i0 => by
    obtain ⟨h1, h2⟩ := keyIdxs_sorted id ks (i0 + 1)
    rw [keyIdxs]
    split
    · refine ⟨List.pairwise_cons.mpr ⟨fun a ha => ?_, h1⟩, fun idx h => ?_⟩
      · have := h2 a ha; omega
      · rcases List.mem_cons.mp h with rfl | h
        · exact Nat.le_refl _
        · have := h2 idx h; omega
    · exact ⟨h1, fun idx h => by have := h2 idx h; omega⟩

theorem keyIdxs_nodup (id : Nat) (keys : List ECKey) : (keyIdxs id keys 0).Nodup :=
  (keyIdxs_sorted id keys 0).1.imp (fun h => Nat.ne_of_lt h)

/-- every key of the group has a rank. -/
theorem group_rank (id : Nat) : ∀ (keys : List ECKey) (p : Nat) (k : ECKey),
    keys[p]? = some k → k.curveType = id →
    ∃ r : Nat, (keyIdxs id keys 0)[r]? = some p ∧ (groupPoints id keys)[r]? = some k.pt
  | [], p, _, h, _ => by simp at h
  | k0 :: ks, p, k, h, hid => by
    rw [keyIdxs, groupPoints]
    cases p with
    | zero =>
      simp at h; subst h
      rw [if_pos hid, List.filter_cons_of_pos (by simpa using hid)]
      exact ⟨0, rfl, rfl⟩
    | succ p =>
      simp at h
      obtain ⟨r, hr1, hr2⟩ := group_rank id ks p k h hid
      have hr1' : (keyIdxs id ks (0 + 1))[r]? = some (p + 1) := by
        rw [keyIdxs_shift, List.getElem?_map, hr1]; rfl
      by_cases hk : k0.curveType = id
      · rw [if_pos hk, List.filter_cons_of_pos (by simpa using hk)]
        exact ⟨r + 1, by simpa using hr1', by simpa [groupPoints] using hr2⟩
      · rw [if_neg hk, List.filter_cons_of_neg (by simpa using hk)]
        exact ⟨r, hr1', hr2⟩

theorem mem_keyIdxs_type (id : Nat) (keys : List ECKey) (p : Nat) (k : ECKey)
    (hp : p ∈ keyIdxs id keys 0) (hk : keys[p]? = some k) : k.curveType = id := by
  obtain ⟨r, hr⟩ := List.getElem?_of_mem hp
  obtain ⟨_, _, k', hk', hid, _⟩ := forall₂_idx (group_parallel id keys) r p hr
  rw [hk] at hk'; cases hk'; exact hid

/-! ### write-back -/

theorem scatter_spec : ∀ (idxs : List Nat) (vs : List KV) (res : List KeyVerdict),
    idxs.Nodup → idxs.length = vs.length → (∀ i ∈ idxs, i < res.length) →
    (scatter res idxs vs).length = res.length ∧
    (∀ (r i : Nat) (v : KV), idxs[r]? = some i → vs[r]? = some v →
      (scatter res idxs vs)[i]? = some (some v)) ∧
    (∀ p, p ∉ idxs → (scatter res idxs vs)[p]? = res[p]?)
  | [], vs, res, _, _, _ => by
    cases vs <;> exact ⟨rfl, fun r i v h => by simp at h, fun p _ => rfl⟩
  | i :: is, [], res, _, hl, _ => by simp at hl
  | i :: is, v :: vs, res, hnd, hl, hlt => by
    obtain ⟨hni, hnd'⟩ := List.nodup_cons.mp hnd
    obtain ⟨h1, h2, h3⟩ := scatter_spec is vs (res.set i (some v)) hnd' (by simpa using hl)
      (fun j hj => by simpa using hlt j (List.mem_cons_of_mem _ hj))
    rw [scatter]
    refine ⟨by simpa using h1, ?_, ?_⟩
    · intro r j w hr hw
      cases r with
      | zero =>
        simp at hr hw; subst hr; subst hw
        rw [h3 i hni, List.getElem?_set, if_pos rfl, if_pos (hlt i List.mem_cons_self)]
      | succ r => exact h2 r j w (by simpa using hr) (by simpa using hw)
    · intro p hp
      rw [h3 p (fun h => hp (List.mem_cons_of_mem _ h)), List.getElem?_set,
        if_neg (fun h : i = p => hp (h ▸ List.mem_cons_self))]

end Paranoid.Bsgs
