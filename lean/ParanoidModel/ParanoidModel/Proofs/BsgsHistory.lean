/-
Proofs/BsgsHistory.lean — the mutable attributes `_table` / `_table_size` over every history of
BatchDL / ExtendedBatchDL / BatchDLOfDifferences calls on one curve object.
-/
import ParanoidModel.Proofs.BsgsDiffComplete
import ParanoidModel.Proofs.BsgsExt
namespace Paranoid.Bsgs
open Paranoid Paranoid.Ec WeierstrassCurve

/-- one call on the curve object (arguments incl. the values the float oracles took). -/
inductive Op where
  | dl (points : List Pt) (n ts m : Nat)
  | ext (points : List Pt) (ts m : Nat)
  | diff (points other : List Pt) (maxDiff m : Nat)

/-- state after the call (its result is dropped). -/
def runOp (c : Curve) (st : EcState) : Op → Except PyErr EcState
  | .dl points n ts m => (batchDL c st points n ts m).map Prod.snd
  | .ext points ts m => (extendedBatchDL c st points ts m).map Prod.snd
  | .diff points other maxDiff m => (batchDLOfDifferences c st points other maxDiff m).map Prod.snd

/-- a history of calls none of which raised. -/
def runOps (c : Curve) : EcState → List Op → Except PyErr EcState
  | st, [] => .ok st
  | st, op :: ops =>
    match runOp c st op with
    | .error e => .error e
    | .ok st' => runOps c st' ops

/-- `_table` is `{}` with `_table_size = 0`, or it is exactly `PointTable(g, _table_size)` (for the
split `m ≥ 1` the float square root produced when it was built). -/
def TableIs (c : Curve) (st : EcState) : Prop :=
  (st.tableSize = 0 ∧ st.table = []) ∨
  ∃ m, 1 ≤ m ∧ 1 ≤ st.tableSize ∧ pointTable c c.g st.tableSize m = .ok st.table

theorem tableIs_init (c : Curve) : TableIs c (StateG.init listImpl) := .inl ⟨rfl, rfl⟩

theorem ensureTable_tableIs (c : Curve) {st st' : EcState} (h : TableIs c st) {size m : Nat}
    (he : ensureTableG listImpl c st size m = .ok st') :
    TableIs c st' ∧ st.tableSize ≤ st'.tableSize ∧ size ≤ st'.tableSize := by
  unfold ensureTableG at he
  split at he
  · rename_i hgt
    rw [pointTableG_list] at he
    split at he
    · cases he
    · rename_i t ht
      cases he
      refine ⟨.inr ⟨m, ?_, by simp only; omega, ht⟩, by simp only; omega, le_refl _⟩
      by_contra hm
      have : m = 0 := by omega
      subst this
      simp [pointTable] at ht
  · cases he; exact ⟨h, le_refl _, by omega⟩

theorem runOp_tableIs (c : Curve) {st st' : EcState} (h : TableIs c st) (op : Op)
    (he : runOp c st op = .ok st') : TableIs c st' ∧ st.tableSize ≤ st'.tableSize := by
  cases op with
  | dl points n ts m =>
    simp only [runOp, batchDL, batchDLG] at he
    split at he
    · cases he
    · rename_i st1 h1
      split at he
      · cases he
      · cases he
        exact ⟨(ensureTable_tableIs c h h1).1, (ensureTable_tableIs c h h1).2.1⟩
  | ext points ts m =>
    simp only [runOp, extendedBatchDL, extendedBatchDLG, extendedBatchDLB] at he
    split at he
    · cases he
    · split at he
      · cases he
      · split at he
        · cases he
        · rename_i dls st1 hdl
          split at he
          · cases he
          · cases he
            simp only [batchDLG] at hdl
            split at hdl
            · cases hdl
            · rename_i st2 h1
              split at hdl
              · cases hdl
              · cases hdl
                exact ⟨(ensureTable_tableIs c h h1).1, (ensureTable_tableIs c h h1).2.1⟩
  | diff points other maxDiff m =>
    simp only [runOp, batchDLOfDifferences, batchDLOfDifferencesG] at he
    split at he
    · cases he; exact ⟨h, le_refl _⟩
    · split at he
      · cases he
      · rename_i st1 h1
        split at he
        · cases he
        · cases he
          exact ⟨(ensureTable_tableIs c h h1).1, (ensureTable_tableIs c h h1).2.1⟩

/-- the invariant over every history. -/
theorem runOps_tableIs (c : Curve) : ∀ (ops : List Op) {st st' : EcState}, TableIs c st →
    runOps c st ops = .ok st' → TableIs c st' ∧ st.tableSize ≤ st'.tableSize
  | [], st, st', h, he => by cases he; exact ⟨h, le_refl _⟩
  | op :: ops, st, st', h, he => by
    rw [runOps] at he
    split at he
    · cases he
    · rename_i st1 h1
      obtain ⟨a, b⟩ := runOp_tableIs c h op h1
      obtain ⟨a', b'⟩ := runOps_tableIs c ops a he
      exact ⟨a', by omega⟩

section group
variable (c : Curve) [hp : Fact (Nat.Prime c.p)]

/-- the exact-table invariant gives the search invariant. -/
theorem stateOK_of_tableIs (hc : c.Good) (hG : onCurve c c.g = true) {st : EcState}
    (h : TableIs c st) : ∃ V, StateOK c st V := by
  rcases h with ⟨h1, h2⟩ | ⟨m, hm, hs, ht⟩
  · refine ⟨0, ⟨fun k v hv => ?_, fun v hv => by omega⟩⟩
    rw [h2] at hv; simp [XTable.get?] at hv
  · obtain ⟨t, ht1, _, ht2, ht3⟩ := pointTable_spec c hc c.g hG st.tableSize m (by omega) hm
    rw [ht] at ht1; cases ht1
    refine ⟨tableRange st.tableSize m, ht2, fun v hv => ht3 v ?_⟩
    have h3 := Nat.div_add_mod (st.tableSize + m - 1) m
    have h4 := Nat.mod_lt (st.tableSize + m - 1) hm
    have h5 : m * ((st.tableSize + m - 1) / m) = (st.tableSize + m - 1) / m * m := Nat.mul_comm _ _
    omega

end group
end Paranoid.Bsgs
