/-
Proofs/BsgsMain.lean — BatchDL as a method on the state: table invariant, soundness, totality,
completeness (weak: some true log; exact: the planted log when nothing can wrap around).
-/
import ParanoidModel.Proofs.BsgsComplete
namespace Paranoid.Bsgs
open Paranoid Paranoid.Ec WeierstrassCurve

section group
variable (c : Curve) [hp : Fact (Nat.Prime c.p)]

/-- the state invariant: `_table` answers like a table of the multiples `0 … _table_size - 1` of `G`
(values `< V`). The fresh state satisfies it with `V = 0`. -/
def StateOK (st : EcState) (V : Nat) : Prop := TableOK c st.table.get? st.tableSize V

theorem stateOK_init : StateOK c (StateG.init listImpl) 0 :=
  ⟨fun k v h => by simp [StateG.init, listImpl, XTable.get?] at h, fun v hv => by
    simp [StateG.init] at hv⟩

/-- number of multiples stored by `PointTable(g, size)` with split `m`: `ceil(size/m)·m`. -/
def tableRange (size m : Nat) : Nat := (size + m - 1) / m * m

/-- value bound of the table after `ensureTable`. -/
def rangeAfter (st : EcState) (V size m : Nat) : Nat :=
  if size > st.tableSize then tableRange size m else V

theorem ensureTable_spec (hc : c.Good) (hG : onCurve c c.g = true) (st : EcState) (V : Nat)
    (hst : StateOK c st V) (size m : Nat) (hm : st.tableSize < size → 1 ≤ m) :
    ∃ st', ensureTableG listImpl c st size m = .ok st' ∧ StateOK c st' (rangeAfter st V size m) ∧
      st'.tableSize = max st.tableSize size ∧
      (size ≤ st.tableSize → st' = st) := by
  unfold ensureTableG rangeAfter
  by_cases h : size > st.tableSize
  · rw [if_pos h, if_pos h, pointTableG_list]
    obtain ⟨t, ht1, _, ht2, ht3⟩ := pointTable_spec c hc c.g hG size m (by omega) (hm h)
    rw [ht1]
    refine ⟨⟨size, t⟩, rfl, ⟨ht2, fun v hv => ht3 v ?_⟩, by simp; omega, fun h' => by omega⟩
    have h3 := Nat.div_add_mod (size + m - 1) m
    have h4 := Nat.mod_lt (size + m - 1) (hm h)
    have h5 : m * ((size + m - 1) / m) = (size + m - 1) / m * m := Nat.mul_comm _ _
    simp only at hv
    omega
  · rw [if_neg h, if_neg h]
    exact ⟨st, rfl, hst, by omega, fun _ => rfl⟩

/-- **BatchDL soundness** (C02), for every state (also one violating the invariant), every bound,
every value of the float oracles and every point list: every recorded value is a log of its point. -/
theorem batchDL_sound (hc : c.Good) (hG : onCurve c c.g = true) (st : EcState) (points : List Pt)
    (n ts m : Nat) (res : List (Option Int)) (st' : EcState)
    (h : batchDL c st points n ts m = .ok (res, st')) :
    List.Forall₂ (fun P r => ∀ v, r = some v → v • Gp c = toPoint c P) points res := by
  unfold batchDL batchDLG at h
  split at h
  · cases h
  · rename_i st1 _
    split at h
    · cases h
    · rename_i res1 hres
      cases h
      exact batchDLCore_sound c hc hG _ points n ts res hres

/-- the exact-value part: a value returned by the scan that is congruent to `x` equals `x` when
`2n + t + V ≤ N`. -/
theorem exact_of_bound (hord : addOrderOf (Gp c) = c.n) (n ts V x : Nat) (hx : x < n) (hts : 1 ≤ ts)
    (hwrap : 2 * n + (2 * ts - 1) + V ≤ c.n) (k : Nat) (hk : k < 2 + n / (2 * ts - 1)) (v : Int)
    (hv : |v| ≤ (k : Int) * (2 * (ts : Int) - 1) + V - 1) (hvx : v • Gp c = x • Gp c) : v = x := by
  have h0 : (v - x) • Gp c = 0 := by rw [sub_zsmul, hvx, natCast_zsmul]; simp
  have hdvd := addOrderOf_dvd_iff_zsmul_eq_zero.mpr h0
  rw [hord] at hdvd
  have ht : (2 * (ts : Int) - 1) = ((2 * ts - 1 : Nat) : Int) := by omega
  have hq := Nat.div_mul_le_self n (2 * ts - 1)
  have hkt : k * (2 * ts - 1) ≤ (1 + n / (2 * ts - 1)) * (2 * ts - 1) :=
    Nat.mul_le_mul_right _ (by omega)
  have e : (1 + n / (2 * ts - 1)) * (2 * ts - 1) = (2 * ts - 1) + n / (2 * ts - 1) * (2 * ts - 1) := by ring
  have hkt' : (k : Int) * (2 * (ts : Int) - 1) ≤ (2 * ts - 1 : Nat) + n := by
    rw [ht]; exact_mod_cast (by omega : k * (2 * ts - 1) ≤ (2 * ts - 1) + n)
  rw [abs_le] at hv
  have : |v - x| < (c.n : Int) := by rw [abs_lt]; constructor <;> omega
  have := Int.eq_zero_of_abs_lt_dvd hdvd this
  omega

/-- **one point**, exact completeness. -/
theorem dlPoint_exact (hc : c.Good) (hG : onCurve c c.g = true) (hGr : Reduced c c.g)
    (hord : addOrderOf (Gp c) = c.n)
    {look : Lookup} {size V : Nat} (htab : TableOK c look size V) (n ts : Nat) (hts : 1 ≤ ts)
    {listC : List Pt} (hl : ListCOK c (2 * (ts : Int) - 1) (2 + n / (2 * ts - 1)) listC)
    {P : Pt} (hP : onCurve c P = true) (hPr : Reduced c P) (x : Nat) (hx : x < n)
    (hPx : toPoint c P = x • Gp c) (hwrap : 2 * n + (2 * ts - 1) + V ≤ c.n)
    (v : Int) (h : dlPoint c look (2 * (ts : Int) - 1) listC P = .ok (some v)) : v = x := by
  cases P with
  | inf =>
    cases h
    -- x • G = 0 with x < n ≤ N
    rw [toPoint_inf] at hPx
    have hdvd := addOrderOf_dvd_iff_zsmul_eq_zero.mpr
      (show (x : Int) • Gp c = 0 by rw [natCast_zsmul]; exact hPx.symm)
    rw [hord] at hdvd
    have := Int.eq_zero_of_abs_lt_dvd hdvd (by rw [abs_lt]; constructor <;> omega)
    omega
  | aff px py =>
    have hR : RepR c (.aff px py) (toPoint c (.aff px py)) := ⟨hP, rfl, hPr⟩
    obtain ⟨xs, hxs1, hxs2, _⟩ := scanKeys c hc hl hR
    rw [dlPoint, hxs1] at h
    simp only at h
    obtain ⟨r, hr1, _, hr2⟩ := dlScan_spec c hc hG look (2 * (ts : Int) - 1) px py xs 0 none
    rw [hr1] at h
    cases h
    rcases hr2 v rfl with e | ⟨hs, k, x', hk, hcand⟩
    · cases e
    · have hklt : k < xs.length := by
        by_contra hge
        rw [List.getElem?_eq_none (by omega)] at hk
        cases hk
      rw [zero_add] at hcand
      have hb := cand_bound c htab (by omega : (0 : Int) ≤ 2 * (ts : Int) - 1) hcand
      exact exact_of_bound c hord n ts V x hx hts hwrap k (by omega) v hb (by rw [hs, hPx])

/-- **BatchDL totality and completeness.** For every state satisfying the table invariant (cached
table larger OR smaller than the requested one), every requested table size `ts ≥ 1` (so: whatever
the float square root returned), every list of on-curve points: the call does not raise, the new
state satisfies the invariant with size `max(old, ts)`, and for every reduced point `P = x • G`
with `x < n` the entry is some `v` with `v • G = P`; it is `x` itself when
`2n + (2·ts - 1) + V' ≤ N` (`V'` = number of multiples in the table in use). -/
theorem batchDL_complete (hc : c.Good) (hG : onCurve c c.g = true) (hGr : Reduced c c.g)
    (st : EcState) (V : Nat) (hst : StateOK c st V) (points : List Pt)
    (hpts : ∀ P ∈ points, onCurve c P = true) (n ts m : Nat) (hts : 1 ≤ ts)
    (hm : st.tableSize < ts → 1 ≤ m) :
    ∃ res st', batchDL c st points n ts m = .ok (res, st') ∧
      StateOK c st' (rangeAfter st V ts m) ∧ st'.tableSize = max st.tableSize ts ∧
      (ts ≤ st.tableSize → st' = st) ∧
      List.Forall₂ (fun P r => ∀ x : Nat, Reduced c P → x < n → toPoint c P = x • Gp c →
        ∃ v : Int, r = some v ∧ v • Gp c = toPoint c P ∧
          (addOrderOf (Gp c) = c.n → 2 * n + (2 * ts - 1) + rangeAfter st V ts m ≤ c.n → v = (x : Int)))
        points res := by
  obtain ⟨st1, h1, hst1, hsz, hsame⟩ := ensureTable_spec c hc hG st V hst ts m hm
  obtain ⟨res, listC, hres, hl, hall⟩ := batchDLCore_total c hc hG hGr (st1.table.get?) points hpts n ts hts
  refine ⟨res, st1, ?_, hst1, hsz, hsame, ?_⟩
  · unfold batchDL batchDLG
    rw [h1]
    simp only
    have hres' : batchDLCore c (listImpl.get? st1.table) points n ts = .ok res := hres
    rw [hres']
  · have hmem : ∀ P r, P ∈ points → dlPoint c st1.table.get? (2 * (ts : Int) - 1) listC P = .ok r →
        ∀ x : Nat, Reduced c P → x < n → toPoint c P = x • Gp c →
        ∃ v : Int, r = some v ∧ v • Gp c = toPoint c P ∧
          (addOrderOf (Gp c) = c.n → 2 * n + (2 * ts - 1) + rangeAfter st V ts m ≤ c.n → v = (x : Int)) := by
      intro P r hPm hr x hPr hx hPx
      have hon := hpts P hPm
      obtain ⟨r', hr', hsome⟩ := dlPoint_found c hc hG hGr hst1 n ts hts (by rw [hsz]; omega) hl hon
        hPr x hx hPx
      rw [hr] at hr'; cases hr'
      obtain ⟨v, rfl⟩ := Option.isSome_iff_exists.mp hsome
      refine ⟨v, rfl, dlPoint_sound c hc hG _ _ listC P _ hr v rfl, ?_⟩
      intro hord hwrap
      exact dlPoint_exact c hc hG hGr hord hst1 n ts hts hl hon hPr x hx hPx hwrap v hr
    clear hres
    induction hall with
    | nil => exact .nil
    | cons hab _ ih =>
      exact .cons (hmem _ _ List.mem_cons_self hab)
        (ih (fun P hP => hpts P (List.mem_cons_of_mem _ hP))
          (fun P r hP => hmem P r (List.mem_cons_of_mem _ hP)))

end group
end Paranoid.Bsgs
