/-
Proofs/C08Chain.lean — helper lemmas for Props/C08Chain.lean (review finding F8): the pieces that
compose `hnp_pre_*` (planted vector in the lattice), `hnp_post*` (planted row in the reduced basis
⇒ key among the guesses) and the check layer, for the call the checks really make: `w = None`.

 * `defaultW` / `getLattice_none`: the `if w is None:` block as a total function of
   `(bias, len(a), float oracle)`; `getLattice a b none … = getLattice a b (some (defaultW …)) …`
   for a non-empty window (an empty COMMON_POSTFIX window is `ZeroDivisionError`);
 * `genRel_of_modEq`: from the congruences `mult·a_i + y·b_i ≡ s + e_i (mod n)` to the integer
   relation with explicit quotients (the coefficients of the lattice combination);
 * `gen_pre_rows`: the planted vector `(mult·u, y, e_i·w)` for ANY representative `y ≡ mult·x`
   (LLL returns `mult·x` reduced modulo `n`, not the integer product);
 * side conditions of `hnp_post_prime` discharged: `n ∤ ±(n·w+1)`, `n ∤ ±mult`;
 * bias bits ⇒ entry bounds; the COMMON_POSTFIX decomposition `k = low + 2^β·h` from
   `k mod 2^bits = low`, `β ≤ bits`, and `gcd(2^β, n) = 1` for an odd prime.
-/
import ParanoidModel.Proofs.Hnp
import ParanoidModel.Proofs.Cr50
import Mathlib.Tactic.Ring
import Mathlib.Tactic.Linarith

namespace Paranoid.C08Chain
open Paranoid Paranoid.Hnp

/-! ### `w = None` -/

/-- the value the `if w is None:` block assigns (`fb` = the float oracle
`int(n.bit_length() / len(a) * 1.25)`, only read for COMMON_POSTFIX). -/
def defaultW (bias : Bias) (len fb : Nat) : Int :=
  match bias with
  | .msb => defaultWPrefix len
  | .commonPrefix => defaultWPrefix len
  | .commonPostfix => 2 ^ (max 3 fb)
  | .generalized => defaultWGeneralized len

theorem defaultWPrefix_pos (len : Nat) : 0 < defaultWPrefix len := by
  unfold defaultWPrefix; split_ifs <;> positivity

theorem defaultWGeneralized_pos (len : Nat) : 0 < defaultWGeneralized len := by
  unfold defaultWGeneralized; split_ifs <;> positivity

theorem defaultW_pos (bias : Bias) (len fb : Nat) : 0 < defaultW bias len fb := by
  cases bias
  · exact defaultWPrefix_pos len
  · exact defaultWPrefix_pos len
  · show (0 : Int) < 2 ^ (max 3 fb); positivity
  · exact defaultWGeneralized_pos len

/-- the default weights are the documented powers of two. -/
theorem defaultW_table (len fb : Nat) :
    defaultW .msb len fb = (if len < 4 then 2 ^ 128 else if len < 9 then 2 ^ 64
      else if len < 14 then 2 ^ 48 else 2 ^ 32) ∧
    defaultW .commonPrefix len fb = defaultW .msb len fb ∧
    defaultW .commonPostfix len fb = 2 ^ (max 3 fb) ∧
    defaultW .generalized len fb = (if len < 20 then 2 ^ 64 else if len < 32 then 2 ^ 48
      else 2 ^ 64) :=
  ⟨rfl, rfl, rfl, rfl⟩

/-- **(ii) the default.** With `w = None` and a non-empty window (or any bias but COMMON_POSTFIX)
`GetLattice` builds exactly the lattice of `w = defaultW bias len(a) fb`. -/
theorem getLattice_none (a b : List Int) (n : Nat) (bias : Bias) (fb : Nat)
    (hne : a.length ≠ 0 ∨ bias ≠ .commonPostfix) :
    getLattice a b none n bias fb = getLattice a b (some (defaultW bias a.length fb)) n bias fb := by
  unfold getLattice
  by_cases hl : a.length ≠ b.length
  · rw [if_pos hl, if_pos hl]
  · rw [if_neg hl, if_neg hl]
    cases bias <;> simp only [hnpResolveW, hnpDefaultW, defaultW]
    rw [if_neg (by rcases hne with h | h; exact h; exact absurd rfl h)]

theorem hiddenNumberProblem_none (a b : List Int) (n : Nat) (bias : Bias) (fb : Nat)
    (basis : List (List Int)) (hne : a.length ≠ 0 ∨ bias ≠ .commonPostfix) :
    hiddenNumberProblem a b none n bias fb basis =
      hiddenNumberProblem a b (some (defaultW bias a.length fb)) n bias fb basis := by
  unfold hiddenNumberProblem
  rw [getLattice_none a b n bias fb hne]

/-- the empty COMMON_POSTFIX window raises (`n.bit_length() / 0`). -/
theorem getLattice_none_empty_postfix (n fb : Nat) :
    getLattice [] [] none n .commonPostfix fb = .error .zeroDivision := by
  simp [getLattice, hnpResolveW, hnpDefaultW]

/-! ### the relation with an arbitrary representative of `mult·x` -/

/-- `mult·a_i + y·b_i = s + e_i + c_i·n` entrywise. With `y = mult·x` this is `HnpRel`. -/
def GenRel (a b : List Int) (n mult y s : Int) (es cs : List Int) : Prop :=
  b.length = a.length ∧ es.length = a.length ∧ cs.length = a.length ∧
  ∀ i, i < a.length → mult * ent a i + y * ent b i = s + ent es i + ent cs i * n

theorem hnpRel_of_genRel (a b : List Int) (x n mult s : Int) (es cs : List Int)
    (h : GenRel a b n mult (mult * x) s es cs) : HnpRel a b x n mult s es cs := by
  obtain ⟨h1, h2, h3, h4⟩ := h
  refine ⟨h1, h2, h3, fun i hi => ?_⟩
  have := h4 i hi
  linarith

/-- the quotient list of a family of congruences. -/
def quotients (a b : List Int) (n mult y s : Int) (es : List Int) : List Int :=
  (List.range a.length).map (fun i => (mult * ent a i + y * ent b i - s - ent es i) / n)

/-- from congruences to the integer relation (the `c_i` are the quotients). -/
theorem genRel_of_modEq (a b es : List Int) (n mult y s : Int)
    (hb : b.length = a.length) (he : es.length = a.length)
    (h : ∀ i, i < a.length → mult * ent a i + y * ent b i ≡ s + ent es i [ZMOD n]) :
    GenRel a b n mult y s es (quotients a b n mult y s es) := by
  refine ⟨hb, he, by simp [quotients], fun i hi => ?_⟩
  have hq : ent (quotients a b n mult y s es) i =
      (mult * ent a i + y * ent b i - s - ent es i) / n := by
    unfold quotients; rw [ent_map_range, if_pos hi]
  rw [hq]
  have hd : n ∣ mult * ent a i + y * ent b i - s - ent es i := by
    have := (h i hi).symm.dvd
    have e : mult * ent a i + y * ent b i - (s + ent es i) =
        mult * ent a i + y * ent b i - s - ent es i := by ring
    rwa [e] at this
  have := Int.ediv_mul_cancel hd
  linarith

/-- **pre, prefix shapes, any representative.** -/
theorem gen_pre_rows (a b es cs : List Int) (w n u mult y s : Int)
    (h : GenRel a b n mult y s es cs) :
    lincomb (a.length + 2) (mult :: y :: prefixCoeffs s n cs) (hnpRows a b w n u true) =
      mult * u :: y :: es.map (· * w) := by
  obtain ⟨hb, hk, hc, hrel⟩ := h
  unfold prefixCoeffs
  rw [hc, lincomb_hnpRows_pfx a b hb w n u mult y (-(s + ent cs 0 * n))
    (fun i => -(ent cs i - ent cs 0)), map_eq_map_range es, hk]
  congr 2
  apply map_range_congr
  intro i hi
  have h0 := hrel i hi
  show (mult * ent a i + y * ent b i + -(s + ent cs 0 * n) +
      (if i = 0 then 0 else -(ent cs i - ent cs 0) * n)) * w = ent es i * w
  congr 1
  by_cases hi0 : i = 0
  · subst hi0; rw [if_pos rfl]; linarith
  · rw [if_neg hi0]; linarith

/-- **pre, MSB shape, from `GenRel`** (`mult = 1`, `s = 0`). -/
theorem msb_pre_rows (a b ks cs : List Int) (w n y : Int) (h : GenRel a b n 1 y 0 ks cs) :
    lincomb (a.length + 2) (1 :: y :: cs.map (fun c => -c)) (hnpRows a b w n (n * w + 1) false) =
      (n * w + 1) :: y :: ks.map (· * w) := by
  have h' : HnpRel a b y n 1 0 ks cs := by
    apply hnpRel_of_genRel
    simpa using h
  exact hnp_pre_msb_rows a b ks cs y w n h'

/-! ### `±` a row -/

/-- `row` or its negative is one of the rows of `basis`. -/
def PMMem (row : List Int) (basis : List (List Int)) : Prop :=
  row ∈ basis ∨ row.map (fun v => -v) ∈ basis

instance (row : List Int) (basis : List (List Int)) : Decidable (PMMem row basis) := by
  unfold PMMem; infer_instance

theorem smul_one_row (v : List Int) : smul 1 v = v := by simp [smul]
theorem smul_neg_one_row (v : List Int) : smul (-1) v = v.map (fun x => -x) := by
  simp [smul]

theorem pmMem_iff (row : List Int) (basis : List (List Int)) :
    PMMem row basis ↔ ∃ t : Int, (t = 1 ∨ t = -1) ∧ smul t row ∈ basis := by
  constructor
  · rintro (h | h)
    · exact ⟨1, Or.inl rfl, by rwa [smul_one_row]⟩
    · exact ⟨-1, Or.inr rfl, by rwa [smul_neg_one_row]⟩
  · rintro ⟨t, rfl | rfl, h⟩
    · left; rwa [smul_one_row] at h
    · right; rwa [smul_neg_one_row] at h

/-! ### (iii) the side condition of `hnp_post_prime` -/

theorem not_dvd_pm (n : Nat) (t T0 : Int) (ht : t = 1 ∨ t = -1)
    (h0 : ¬ (n : Int) ∣ T0) : ¬ (n : Int) ∣ t * T0 := by
  rcases ht with rfl | rfl
  · simpa using h0
  · simpa using h0

theorem not_dvd_nw1 (n : Nat) (hp : n.Prime) (w : Int) : ¬ (n : Int) ∣ (n : Int) * w + 1 := by
  intro hd
  have h2 : (n : Int) ∣ 1 := by
    have : (n : Int) ∣ (n : Int) * w := dvd_mul_right _ _
    have := Int.dvd_sub hd this
    simpa using this
  have := hp.two_le
  have := Int.le_of_dvd (by norm_num) h2
  omega

theorem nw1_modEq (n : Nat) (w x : Int) : x ≡ ((n : Int) * w + 1) * x [ZMOD n] := by
  have : (n : Int) * w + 1 ≡ 1 [ZMOD n] := by
    have h0 : (n : Int) * w ≡ 0 [ZMOD n] := (Int.modEq_zero_iff_dvd).mpr (dvd_mul_right _ _)
    have h1 := h0.add_right 1
    simp only [zero_add] at h1
    exact h1
  have := (this.mul_right x).symm
  simpa using this

/-! ### post for `±` the planted row, prime modulus -/

/-- `±(T₀, T₁, …)` in the basis with `T₁ ≡ T₀·x`, `n ∤ T₀`, `n` prime: a row `(u, v, …)` with `u` a
unit and `v ≡ u·x` — the hypothesis of the post theorems. -/
theorem good_row_of_pm (n : Nat) (hp : n.Prime) (basis : List (List Int)) (x T0 T1 : Int)
    (tl : List Int) (htgt : T1 ≡ T0 * x [ZMOD n]) (h0 : ¬ (n : Int) ∣ T0)
    (hin : PMMem (T0 :: T1 :: tl) basis) :
    ∃ u v rest, (u :: v :: rest) ∈ basis ∧ Int.gcd u n = 1 ∧ v ≡ u * x [ZMOD n] := by
  obtain ⟨t, ht, hmem⟩ := (pmMem_iff _ _).mp hin
  refine ⟨t * T0, t * T1, tl.map (t * ·), by simpa [smul] using hmem, ?_, ?_⟩
  · obtain ⟨v0, v1, rest, hrow, hv⟩ := rowOk_of_prime n hp [t * T0, 0] (by simp)
    injection hrow with h0' _
    subst h0'
    rcases hv with hv | hv
    · exact absurd hv (not_dvd_pm n t T0 ht h0)
    · exact hv
  · calc t * T1 ≡ t * (T0 * x) [ZMOD n] := htgt.mul_left t
      _ = t * T0 * x := by ring

/-- if the reduced basis contains `±(T₀, T₁, …)` with `T₁ ≡ T₀·x`, `n ∤ T₀`, `n` prime, rows with
at least two entries: `x mod n` is reported — for any `w` argument. -/
theorem post_pm (a b : List Int) (w : Option Int) (n : Nat) (bias : Bias) (fb : Nat)
    (basis lat : List (List Int)) (x T0 T1 : Int) (tl : List Int) (hp : n.Prime)
    (hlat : getLattice a b w n bias fb = .ok lat) (hrows : ∀ r ∈ basis, 2 ≤ r.length)
    (htgt : T1 ≡ T0 * x [ZMOD n]) (h0 : ¬ (n : Int) ∣ T0)
    (hin : PMMem (T0 :: T1 :: tl) basis) :
    ∃ gs, hiddenNumberProblem a b w n bias fb basis = .ok gs ∧ (x % (n : Int)).toNat ∈ gs :=
  hnp_post_general a b w n bias fb basis lat x hp.one_lt hlat
    (fun r hr => rowOk_of_prime n hp r (hrows r hr))
    (good_row_of_pm n hp basis x T0 T1 tl htgt h0 hin)

/-! ### (iv) bias bits ⇒ entry bounds -/

/-- non-negative small parts below `B` give planted entries in `[0, B·w)`. -/
theorem entries_bound (es : List Int) (w B : Int) (hw : 0 < w) (hB : ∀ e ∈ es, 0 ≤ e ∧ e < B) :
    ∀ v ∈ es.map (· * w), 0 ≤ v ∧ v < B * w := by
  intro v hv
  obtain ⟨e, he, rfl⟩ := List.mem_map.mp hv
  exact ⟨mul_nonneg (hB e he).1 hw.le, mul_lt_mul_of_pos_right (hB e he).2 hw⟩

/-! ### COMMON_POSTFIX: `k mod 2^bits = low`, `β ≤ bits` ⇒ `k = low mod 2^β + 2^β·(k / 2^β)` -/

theorem postfix_decomp (k low : Int) (bits β : Nat) (hβ : β ≤ bits)
    (hk : k % 2 ^ bits = low) : k = low % 2 ^ β + 2 ^ β * (k / 2 ^ β) := by
  have hd : ((2 : Int) ^ β) ∣ 2 ^ bits := pow_dvd_pow 2 hβ
  have h1 : k % 2 ^ β = low % 2 ^ β := by
    rw [← hk, Int.emod_emod_of_dvd k hd]
  have := Int.emod_add_mul_ediv k (2 ^ β)
  rw [h1] at this
  exact this.symm

/-- the high part of a non-negative nonce below `2^L`: `0 ≤ k / 2^β < 2^(L-β)`, and the planted
entry `(k / 2^β)·2^β ≤ k`. -/
theorem postfix_high_bound (k : Int) (L β : Nat) (h0 : 0 ≤ k) (h1 : k < 2 ^ L) (hβ : β ≤ L) :
    0 ≤ k / 2 ^ β ∧ k / 2 ^ β < 2 ^ (L - β) := by
  have hpos : (0 : Int) < 2 ^ β := by positivity
  refine ⟨Int.ediv_nonneg h0 hpos.le, ?_⟩
  rw [Int.ediv_lt_iff_lt_mul hpos, ← pow_add, Nat.sub_add_cancel hβ]
  exact h1

/-- an odd prime is coprime to every power of two. -/
theorem gcd_two_pow (n : Nat) (hp : n.Prime) (h2 : n ≠ 2) (β : Nat) :
    Int.gcd ((2 : Int) ^ β) n = 1 := by
  have hc : Nat.Coprime 2 n := by
    rw [Nat.coprime_comm]
    exact (Nat.coprime_primes hp Nat.prime_two).mpr h2
  have := Nat.Coprime.pow_left β hc
  show Nat.gcd _ _ = 1
  simpa [Int.natAbs_pow] using this

/-- `n.bit_length()`: `n < 2^bitLength n`. -/
theorem lt_two_pow_bitLength (n : Nat) : n < 2 ^ bitLength n := by
  unfold bitLength
  split
  · subst_vars; simp
  · exact Nat.lt_log2_self

end Paranoid.C08Chain
