/-
Proofs/C08ChainAny.lean — helper lemmas for Props/C08ChainAny.lean (second review, M1 / M2).

 * M1: the key position of the planted row carries ANY integer representative `x ≡ d (mod n)`;
   `lll.reduce` size-reduces that coordinate against the lattice vector `(0, n, 0, …, 0)`, so on
   the real code it is the CENTRED representative (`centeredRep`: `d` for `2d ≤ n`, else `d − n`).
   `signedWith_congr`, `toNat_of_modEq`: the signing relation and the reported guess only depend on
   the class of `x`.
 * the POST half needs no bias and no signing relation at all: a row `±(T₀, T₁, …)` with
   `T₁ ≡ T₀·d`, `n ∤ T₀` in the LLL answer suffices (`hnp_post_any`).
 * M2: `biasBound` (the entry bound `B(bits) = 2^(bl − bits)·w`, strictly decreasing in `bits`) and
   `ScaleShort` (the comparison of that bound with the scale of the OTHER reduced basis vectors,
   `(det / known short vectors)^(1/M)`): implied by the margin `r·bl + 2M ≤ M·bits`
   (`scaleShort_of_margin`), and FALSE without bias (`scaleShort_needs_bias`: it forces
   `bl < M·bits`).
-/
import ParanoidModel.Proofs.C08ChainCheck
import Mathlib.Tactic.Ring
import Mathlib.Tactic.Linarith

namespace Paranoid.C08Chain
open Paranoid Paranoid.Hnp Paranoid.Ec Paranoid.EcdsaChecks

/-! ### representatives of the key -/

/-- the representative of `d mod n` in `(−n/2, n/2]`: what size reduction against `(0, n, 0, …)`
leaves in the key position. -/
def centeredRep (d n : Nat) : Int := if 2 * d ≤ n then (d : Int) else (d : Int) - n

theorem centeredRep_modEq (d n : Nat) : centeredRep d n ≡ (d : Int) [ZMOD (n : Int)] := by
  unfold centeredRep
  split
  · exact Int.ModEq.refl _
  · simp

theorem centeredRep_abs (d n : Nat) (hd : d < n) : 2 * |centeredRep d n| ≤ (n : Int) := by
  unfold centeredRep
  split
  · rename_i h
    rw [abs_of_nonneg (by omega)]
    exact_mod_cast h
  · rename_i h
    rw [abs_of_neg (by omega)]
    omega

/-- the two representatives that occur: `d` and `d − n`. -/
def keyReps (d n : Nat) : List Int := [(d : Int), (d : Int) - n]

theorem centeredRep_mem (d n : Nat) : centeredRep d n ∈ keyReps d n := by
  unfold centeredRep keyReps; split <;> simp

theorem keyReps_modEq (d n : Nat) : ∀ x ∈ keyReps d n, x ≡ (d : Int) [ZMOD (n : Int)] := by
  intro x hx
  simp only [keyReps, List.mem_cons, List.not_mem_nil, or_false] at hx
  rcases hx with rfl | rfl
  · exact Int.ModEq.refl _
  · simp

/-- the solver reduces modulo `n`: every representative of `d < n` is reported as `d`. -/
theorem toNat_of_modEq (x : Int) (d n : Nat) (hd : d < n)
    (hx : x ≡ (d : Int) [ZMOD (n : Int)]) : (x % (n : Int)).toNat = d := by
  have h : x % (n : Int) = (d : Int) % (n : Int) := hx
  rw [h, Int.emod_eq_of_lt (by omega) (by exact_mod_cast hd), Int.toNat_natCast]

/-- the signing relation only depends on the class of the key. -/
theorem signedWith_congr (n : Nat) (d x : Int) (hx : x ≡ d [ZMOD (n : Int)]) (v : Triple) (k : Int)
    (h : SignedWith n d v k) : SignedWith n x v k := by
  unfold SignedWith at *
  exact h.trans (((hx.symm).mul_left (v.1 : Int)).add_left (v.2.2 : Int))

/-! ### `GetLattice(a, b, None, n, bias)` returns on the calls the checks make -/

theorem getLattice_none_ok (a b : List Int) (n : Nat) (bias : Bias) (fb : Nat) (hp : n.Prime)
    (hb : b.length = a.length) (hpost : bias = .commonPostfix → n ≠ 2 ∧ a ≠ []) :
    ∃ lat, getLattice a b none n bias fb = .ok lat := by
  cases bias with
  | msb =>
    rw [getLattice_none a b n .msb fb (Or.inr (by decide)), getLattice_some a b _ n .msb fb hb]
    exact ⟨_, rfl⟩
  | commonPrefix =>
    rw [getLattice_none a b n .commonPrefix fb (Or.inr (by decide)),
      getLattice_some a b _ n .commonPrefix fb hb]
    exact ⟨_, rfl⟩
  | generalized =>
    rw [getLattice_none a b n .generalized fb (Or.inr (by decide)),
      getLattice_some a b _ n .generalized fb hb]
    exact ⟨_, rfl⟩
  | commonPostfix =>
    obtain ⟨h2, hne⟩ := hpost rfl
    have hlen0 : a.length ≠ 0 := fun h => hne (List.length_eq_zero_iff.mp h)
    rw [getLattice_none a b n .commonPostfix fb (Or.inl hlen0),
      getLattice_some a b _ n .commonPostfix fb hb]
    obtain ⟨wi, hwi⟩ := invMod_of_coprime (defaultW .commonPostfix a.length fb) n hp.pos
      (gcd_two_pow n hp h2 _)
    unfold getLatticeW
    simp only [hwi]
    exact ⟨_, rfl⟩

/-- **POST for every bias, no bias hypothesis.**  `n` prime, `len(a) = len(b)` (COMMON_POSTFIX: `n`
odd, window non-empty), LLL rows with at least two entries.  If the LLL answer contains
`±(T₀, T₁, …)` with `T₁ ≡ T₀·x (mod n)` and `n ∤ T₀`, then `HiddenNumberProblem(a, b, None, n, bias)`
returns a list containing `x mod n`.  Nothing is assumed about `a`, `b`, the nonces or the tail of
the row. -/
theorem hnp_post_any (a b : List Int) (n : Nat) (bias : Bias) (fb : Nat) (hp : n.Prime)
    (hb : b.length = a.length) (hpost : bias = .commonPostfix → n ≠ 2 ∧ a ≠ [])
    (basis : List (List Int)) (hrows : ∀ r ∈ basis, 2 ≤ r.length)
    (x T0 T1 : Int) (tl : List Int) (htgt : T1 ≡ T0 * x [ZMOD (n : Int)]) (h0 : ¬ (n : Int) ∣ T0)
    (hin : PMMem (T0 :: T1 :: tl) basis) :
    ∃ gs, hiddenNumberProblem a b none n bias fb basis = .ok gs ∧ (x % (n : Int)).toNat ∈ gs := by
  obtain ⟨lat, hlat⟩ := getLattice_none_ok a b n bias fb hp hb hpost
  exact post_pm a b none n bias fb basis lat x T0 T1 tl hp hlat hrows htgt h0 hin

/-! ### M2: the entry bound and the scale it has to beat -/

/-- `B(bits) = 2^(bit_length(n) − bits)·w`: the bound on the tail entries of the planted row when
`bits` bits of every nonce are biased. -/
def biasBound (n bits : Nat) (w : Int) : Int := 2 ^ (bitLength n - bits) * w

/-- `B` strictly decreases with the number of biased bits (up to `bit_length(n)`). -/
theorem biasBound_strictAnti (n bits bits' : Nat) (w : Int) (hw : 0 < w) (h : bits < bits')
    (h' : bits' ≤ bitLength n) : biasBound n bits' w < biasBound n bits w := by
  unfold biasBound
  apply mul_lt_mul_of_pos_right _ hw
  have : bitLength n - bits' < bitLength n - bits := by omega
  exact_mod_cast Nat.pow_lt_pow_right (by norm_num : 1 < 2) this

/-- **the shortness comparison** (interface for a future Lovász argument; NOT used by any proof of
detection here).  `M` = number of tail coordinates that count (`len` for MSB and the LCG lattices,
`len − 1` for the prefix shapes, where one dimension is spent on the common part), `r` = number of
known short lattice vectors that do not help (`(0, n, 0, …)`: `r = 1`; GENERALIZED also has
`(n, 0, …)`: `r = 2`), `B` = bound on the tail entries DIVIDED by the weight `w`.

`(2B)^M < n^(M−r)`, i.e. `2·B·w < (n^(M−r)·w^M)^(1/M)`: the tail of the planted row is shorter, by a
factor 2 per coordinate, than the scale of the reduced basis vectors other than the known short
ones (their Gram–Schmidt norms multiply to the determinant `n^(M−r)·w^M` of the tail lattice — on a
real secp256r1 MSB run with 10 signatures and 64 zero bits: planted tail 2^240, the other rows
2^277 = n^(9/10)·2^48). -/
def ScaleShort (n M r : Nat) (B : Int) : Prop := (2 * B) ^ M < (n : Int) ^ (M - r)

instance (n M r : Nat) (B : Int) : Decidable (ScaleShort n M r B) := by
  unfold ScaleShort; infer_instance

theorem two_pow_bitLength_pred_le (n : Nat) (hn : n ≠ 0) : 2 ^ (bitLength n - 1) ≤ n := by
  unfold bitLength
  rw [if_neg hn, Nat.add_sub_cancel]
  exact Nat.log2_self_le hn

theorem scaleShort_pow (n M r e : Nat) :
    ScaleShort n M r (2 ^ e) ↔ 2 ^ (M * (e + 1)) < n ^ (M - r) := by
  unfold ScaleShort
  have : (2 * (2 : Int) ^ e) ^ M = ((2 ^ (M * (e + 1)) : Nat) : Int) := by
    push_cast
    rw [pow_mul', ← pow_succ']
  rw [this]
  exact_mod_cast Iff.rfl

/-- **bias ⇒ short.**  `1 ≤ r ≤ M`, `bits ≤ bl`, and the margin `r·bl + 2·M ≤ M·bits` give
`ScaleShort n M r 2^(bl − bits)`.  (MSB, `r = 1`, `M = len`: implied by the property's premise
`len·bits ≥ 2·bl` as soon as `2·len ≤ bl`, `msb_margin_of_property`.) -/
theorem scaleShort_of_margin (n M r bits : Nat) (hn : n ≠ 0) (hr : 1 ≤ r) (hrM : r ≤ M)
    (hbits : bits ≤ bitLength n) (h : r * bitLength n + 2 * M ≤ M * bits) :
    ScaleShort n M r (2 ^ (bitLength n - bits)) := by
  rw [scaleShort_pow]
  have h1 : (2 ^ (bitLength n - 1)) ^ (M - r) ≤ n ^ (M - r) :=
    Nat.pow_le_pow_left (two_pow_bitLength_pred_le n hn) _
  rw [← pow_mul] at h1
  refine lt_of_lt_of_le ?_ h1
  apply Nat.pow_lt_pow_right (by norm_num)
  obtain ⟨k, hk⟩ : ∃ k, bitLength n = bits + k := ⟨bitLength n - bits, by omega⟩
  obtain ⟨t, ht⟩ : ∃ t, M = r + t := ⟨M - r, by omega⟩
  have hbl : 1 ≤ bitLength n := by
    unfold bitLength; rw [if_neg hn]; omega
  obtain ⟨c, hc⟩ : ∃ c, bitLength n = c + 1 := ⟨bitLength n - 1, by omega⟩
  have e1 : bitLength n - bits = k := by omega
  have e2 : M - r = t := by omega
  have e3 : bitLength n - 1 = c := by omega
  rw [e1, e2, e3]
  -- M·(k+1) < c·t, from r·bl + 2M ≤ M·bits, bl = bits + k = c + 1, M = r + t
  have hM : M * bitLength n = M * bits + M * k := by rw [hk]; ring
  have h3 : M * (k + 1) + r * bitLength n + M ≤ M * bitLength n := by
    have : M * (k + 1) = M * k + M := by ring
    omega
  have h4 : M * bitLength n = r * bitLength n + t * bitLength n := by rw [ht]; ring
  have h5 : t * bitLength n = c * t + t := by rw [hc]; ring
  have : M * (k + 1) + M ≤ c * t + t := by omega
  have htM : t < M ∨ (t = M ∧ r = 0) := by omega
  rcases htM with h6 | ⟨_, h6⟩
  · omega
  · omega

/-- **short ⇒ bias** (why the bias hypothesis is not decorative in a statement that carries
`ScaleShort`): the comparison forces `bl < M·bits`; in particular it is FALSE for `bits = 0`. -/
theorem scaleShort_needs_bias (n M r bits : Nat) (hr : 1 ≤ r)
    (h : ScaleShort n M r (2 ^ (bitLength n - bits))) : bitLength n < M * bits := by
  rw [scaleShort_pow] at h
  have h1 : n ^ (M - r) ≤ (2 ^ bitLength n) ^ (M - r) :=
    Nat.pow_le_pow_left (lt_two_pow_bitLength n).le _
  rw [← pow_mul] at h1
  have h2 := (Nat.pow_lt_pow_iff_right (by norm_num : 1 < 2)).mp (lt_of_lt_of_le h h1)
  by_cases hb : bits ≤ bitLength n
  · obtain ⟨k, hk⟩ : ∃ k, bitLength n = bits + k := ⟨bitLength n - bits, by omega⟩
    have e1 : bitLength n - bits = k := by omega
    rw [e1] at h2
    have hM : 1 ≤ M := by
      by_contra h0
      have : M = 0 := by omega
      subst this; simp at h2
    obtain ⟨t, ht⟩ : ∃ t, M = 1 + t := ⟨M - 1, by omega⟩
    have h3 : bitLength n * (M - r) ≤ bitLength n * t :=
      Nat.mul_le_mul_left _ (by omega)
    have h4 : M * (k + 1) = M * k + M := by ring
    have h5 : M * bitLength n = M * bits + M * k := by rw [hk]; ring
    have h6 : M * bitLength n = bitLength n + bitLength n * t := by rw [ht]; ring
    omega
  · have hM : 1 ≤ M := by
      by_contra h0
      have : M = 0 := by omega
      subst this; simp at h2
    have : bits ≤ M * bits := Nat.le_mul_of_pos_left _ hM
    omega

/-- the property's premise `len·bits ≥ 2·bl` gives the MSB margin when `2·len ≤ bl` (every window
the checks cut has at most 120 values; the supported curves have `bl ≥ 192`… for windows of more
than `bl/2` values use the margin itself). -/
theorem msb_margin_of_property (bl len bits : Nat) (h : 2 * bl ≤ len * bits) (h2 : 2 * len ≤ bl) :
    1 * bl + 2 * len ≤ len * bits := by omega

/-- **the weight side of shortness** (decidable; what fails in known finding D23): the reduced
basis vectors other than `(0, n, 0, …)` have a key coordinate up to `n/2` and a tail of scale
`n^((M−r)/M)·w`; the key coordinate `|x| ≤ n/2` of the planted row survives size reduction only if
those vectors are not shorter than `n`, i.e. `n^r·2^M ≤ w^M`. -/
def WeightOK (n M r : Nat) (w : Int) : Prop := (n : Int) ^ r * 2 ^ M ≤ w ^ M

instance (n M r : Nat) (w : Int) : Decidable (WeightOK n M r w) := by
  unfold WeightOK; infer_instance

/-- tail entries below `B(bits)` (absolute values). -/
theorem target_bound_bias (es : List Int) (n bits : Nat) (w : Int) (hw : 0 < w)
    (hB : ∀ e ∈ es, |e| < 2 ^ (bitLength n - bits)) :
    ∀ v ∈ es.map (· * w), |v| < biasBound n bits w := by
  intro v hv
  obtain ⟨e, he, rfl⟩ := List.mem_map.mp hv
  unfold biasBound
  rw [abs_mul, abs_of_pos hw]
  exact mul_lt_mul_of_pos_right (hB e he) hw

/-! ### Cr50: the digit bound against the determinant -/

/-- the Cr50 lattice has dimension `D = 2·words + 2` and determinant `256·n` (unit diagonal, then
`256`, `n`); a row all of whose entries are at most `Bd` in absolute value is short when
`(2·Bd)^D < 256·n`, i.e. `2·Bd < det^(1/D)`. -/
def Cr50Short (n Bd : Nat) : Prop := (2 * Bd) ^ (2 * ((bitLength n + 31) / 32) + 2) < 256 * n

instance (n Bd : Nat) : Decidable (Cr50Short n Bd) := by unfold Cr50Short; infer_instance

/-- byte digits (`Bd = 256`: 24 of every 32 nonce bits are determined) are short on every curve
whose order length is a positive multiple of 32 … -/
theorem cr50Short_bytes (n : Nat) (hn : n ≠ 0) (hbl : bitLength n % 32 = 0) : Cr50Short n 256 := by
  unfold Cr50Short
  have hpos : 1 ≤ bitLength n := by unfold bitLength; rw [if_neg hn]; omega
  obtain ⟨q, hq⟩ : ∃ q, bitLength n = 32 * q := ⟨bitLength n / 32, by omega⟩
  have hq1 : 1 ≤ q := by omega
  have e : (bitLength n + 31) / 32 = q := by omega
  rw [e]
  have h1 := two_pow_bitLength_pred_le n hn
  have h2 : (2 * 256) ^ (2 * q + 2) = 2 ^ (18 * q + 18) := by
    rw [show (2 * 256 : Nat) = 2 ^ 9 by norm_num, ← pow_mul]; congr 1; ring
  rw [h2]
  have h3 : 2 ^ (18 * q + 18) < 2 ^ (8 + (bitLength n - 1)) :=
    Nat.pow_lt_pow_right (by norm_num) (by omega)
  have h4 : 2 ^ (8 + (bitLength n - 1)) = 256 * 2 ^ (bitLength n - 1) := by
    rw [pow_add]; norm_num
  rw [h4] at h3
  exact lt_of_lt_of_le h3 (Nat.mul_le_mul_left _ h1)

/-- … and unbiased 32-bit words (`Bd = 2^32`) are not. -/
theorem cr50Short_words_false (n : Nat) : ¬ Cr50Short n (2 ^ 32) := by
  unfold Cr50Short
  intro h
  have h1 := lt_two_pow_bitLength n
  have h2 : (2 * 2 ^ 32) ^ (2 * ((bitLength n + 31) / 32) + 2) =
      2 ^ (66 * ((bitLength n + 31) / 32) + 66) := by
    rw [show (2 * 2 ^ 32 : Nat) = 2 ^ 33 by norm_num, ← pow_mul]; congr 1; ring
  rw [h2] at h
  have h3 : 256 * n < 2 ^ (8 + bitLength n) := by
    rw [pow_add]; norm_num; omega
  have := (Nat.pow_lt_pow_iff_right (by norm_num : 1 < 2)).mp (lt_trans h h3)
  omega

/-! ### small facts used at the check level -/

theorem bl_pos_of_prime (n : Nat) (hp : n.Prime) : 1 ≤ bitLength n := by
  unfold bitLength; rw [if_neg hp.ne_zero]; omega

/-- the window's parameters were prepared (the `Check` call returned) and every `s` is invertible. -/
theorem window_params {b : Nat}
    {O : Nat → GroupOracle} {factory : Factory} {arts : List Sig} {res : CheckResult}
    {cid : Nat} {obj : CurveObj} {key : Key} {d : Nat} {env : SolverEnv}
    {lll : Nat → Nat → LllAnswers}
    (S : Setting (.biased (.bias b)) O factory arts res cid obj key d env lll)
    (j : Nat) (hj : j < (mapIssuerSigIndexes ((groupFrom cid 0 arts).map Prod.snd)).length)
    (kk : Nat) (win : List Triple) (hwin : (sizeLoop windowSizes ((O cid).uniq j))[kk]? = some win) :
    ∃ wab, hnpParamsList obj.curve.n win = .ok wab ∧
      ∀ v ∈ win, Int.gcd (v.2.1 : Int) obj.curve.n = 1 := by
  obtain ⟨cs, hc⟩ := issuerCalls_of_check _ O factory arts res S.checked cid obj S.hobj j hj
  obtain ⟨wab, hw, _⟩ := window_call b cid obj.curve.n _ cs hc kk win hwin
  have hwab := (hnpParamsList_ok _ win wab).mpr hw
  exact ⟨wab, hwab, gcd_of_paramsList _ S.nPrime.two_le win wab hwab⟩

end Paranoid.C08Chain
