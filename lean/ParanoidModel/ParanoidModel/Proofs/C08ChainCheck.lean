/-
Proofs/C08ChainCheck.lean — the check layer of `ecdsa_sig_checks.py` (Model/EcdsaChecks.lean) with
its solver oracle INSTANTIATED by the solver models (Model/Hnp.lean, Model/Cr50.lean); helper
lemmas for Props/C08Chain.lean (review findings F8 (i), F7, F17/C08).

 * `solveCall env c lll` — what the solver MODEL returns for a recorded call `c : Call`, given the
   answers `lll` of the `lll.reduce` calls made inside it (`HiddenNumberProblem(a, b, None, n, bias)`,
   `Cr50U2fGuesses(...)`, `HiddenNumberProblemForCurve(...)`);
 * `SolvedGroup` — the check layer's `GroupOracle.answer` of one curve group is, call by call, the
   list the solver model returns (as a set: Python returns `list(set)`);
 * every guess of a solver model is `< n` (hence the value `_IssuerDLogs` records, the LAST key
   guess of `list(guesses)`, is the private key itself and not `d + n`);
 * `chain_core` — if the solver model of ANY call made for the group returns a list containing the
   private key `d < n` of an issuer key tuple, every signature of the batch with that curve and
   key tuple gets the verdict `posVerdict d` (weak, DISCRETE_LOG = format(d, "x"));
 * from signatures to the solver arguments: `HiddenNumberParams` of values signed with `d` satisfy
   `a_i + b_i·d ≡ k_i (mod n)`; the windows of the parameter list are the parameter lists of the
   windows.
-/
import ParanoidModel.Proofs.C08Chain
import ParanoidModel.Proofs.EcdsaChecksEc
namespace Paranoid.C08Chain
open Paranoid Paranoid.Hnp Paranoid.Ec Paranoid.EcdsaChecks WeierstrassCurve

/-! ### the solver model behind a recorded call -/

/-- what the check layer does not determine: the float oracle of `GetLattice`, and (LCG checks)
`lcg_constants.CONSTANT_FACTORY` and `CURVE_FACTORY[curve_type].n` as `hnpForCurve` takes them. -/
structure SolverEnv where
  /-- `int(n.bit_length() / len(a) * 1.25)` as a function of `(n, len(a))` -/
  fbOf : Nat → Nat → Nat
  lcgFactory : List LcgMeta
  curveN : Nat → Option (Option Nat)

/-- `hnp.Bias(value)`. -/
def biasOfNat : Nat → Option Bias
  | 1 => some .msb
  | 2 => some .commonPrefix
  | 3 => some .commonPostfix
  | 4 => some .generalized
  | _ => none

/-- `hnp.SearchStrategy(value)`: SINGLE = 1, SLIDING = 2, INCLUDE_KEY = 4. -/
def flagsOfNat (v : Nat) : SearchFlags := ⟨v % 2 == 1, (v / 2) % 2 == 1, (v / 4) % 2 == 1⟩

def natsToInts (l : List Nat) : List Int := l.map (fun (v : Nat) => (v : Int))

theorem mem_natsToInts (z : Int) (l : List Nat) : z ∈ natsToInts l ↔ ∃ g ∈ l, (g : Int) = z := by
  unfold natsToInts; exact List.mem_map

/-- the answers of the `lll.reduce` calls made inside ONE solver call, in call order. -/
abbrev LllAnswers := Nat → List (List Int)

/-- the solver model applied to a recorded call, exactly with the arguments the check passes
(`w = None`). -/
def solveCall (env : SolverEnv) : Call → LllAnswers → Except PyErr (List Nat)
  | .hnp a b n bias, lll =>
    match biasOfNat bias with
    | none => .error .valueError
    | some bs =>
      hiddenNumberProblem (natsToInts a) (natsToInts b) none n bs (env.fbOf n a.length) (lll 0)
  | .cr50 v1 v2 n, lll =>
    cr50Guesses v1.1 v1.2.1 v1.2.2 v2.1 v2.2.1 v2.2.2 n (lll 0)
  | .hnpCurve a b cid name flags, lll =>
    hnpForCurve (natsToInts a) (natsToInts b) cid (env.curveN cid) (some name) (flagsOfNat flags)
      env.lcgFactory lll

/-- the solver oracle of one curve group IS the solver model: for every issuer `j` of the group and
every call `kk` the check makes for it, the model returns (no exception) and the recorded answer
has exactly the model's elements.  `lll j kk` are the `lll.reduce` answers inside that call. -/
def SolvedGroup (k : Kind) (cid n : Nat) (env : SolverEnv) (G : GroupOracle)
    (lll : Nat → Nat → LllAnswers) (npks : Nat) : Prop :=
  ∀ j, j < npks → ∀ cs, issuerCalls k cid n (G.uniq j) = .ok cs → ∀ kk c, cs[kk]? = some c →
    ∃ gs, solveCall env c (lll j kk) = .ok gs ∧ ∀ g : Int, g ∈ G.answer j kk ↔ g ∈ natsToInts gs

/-! ### every model guess is `< n` -/

theorem hnpGuessLoop_forall (step : List Int → Except PyErr (Option Nat)) (P : Nat → Prop)
    (hstep : ∀ r g, step r = .ok (some g) → P g) :
    ∀ (basis : List (List Int)) (acc gs : List Nat),
      hnpGuessLoop step basis acc = .ok gs → (∀ g ∈ acc, P g) → ∀ g ∈ gs, P g
  | [], acc, gs, h, hacc => by
    simp only [hnpGuessLoop, Except.ok.injEq] at h
    subst h; exact hacc
  | row :: rest, acc, gs, h, hacc => by
    unfold hnpGuessLoop at h
    split at h
    · cases h
    · exact hnpGuessLoop_forall step P hstep rest acc gs h hacc
    · rename_i g0 hg0
      apply hnpGuessLoop_forall step P hstep rest _ gs h
      intro g hg
      rcases (mem_hnpSetAdd acc g0 g).mp hg with h1 | h1
      · exact hacc g h1
      · subst h1; exact hstep row _ hg0

theorem emod_toNat_lt (z : Int) (n : Nat) (hn : n ≠ 0) : (z % (n : Int)).toNat < n := by
  have hnz : (n : Int) ≠ 0 := by exact_mod_cast hn
  have h1 := Int.emod_lt_of_pos z (by omega : (0 : Int) < n)
  have h2 := Int.emod_nonneg z hnz
  omega

theorem hnpRowGuessPre_lt (n : Nat) (row : List Int) (g : Nat)
    (h : hnpRowGuessPre n row = .ok (some g)) : g < n := by
  unfold hnpRowGuessPre at h
  split at h
  · cases h
  split at h
  · cases h
  rename_i hn0
  split at h
  · cases h
  split at h
  · cases h
  split at h
  · cases h
  injection h with h; injection h with h
  subst h
  exact emod_toNat_lt _ n hn0

theorem precomp_lt (a b : List Int) (n : Nat) (consts : List (Int × Int)) (w : Int)
    (basis : List (List Int)) (gs : List Nat)
    (h : hiddenNumberProblemWithPrecomputation a b n consts w basis = .ok gs) :
    ∀ g ∈ gs, g < n := by
  unfold hiddenNumberProblemWithPrecomputation at h
  split at h
  · cases h
  exact hnpGuessLoop_forall _ (· < n) (hnpRowGuessPre_lt n) basis [] gs h (by simp)

theorem forCurveLoop_lt (n : Nat) (oracle : Nat → List (List Int)) :
    ∀ (subs : List HnpSubset) (i : Nat) (acc gs : List Nat),
      forCurveLoop n oracle subs i acc = .ok gs → (∀ g ∈ acc, g < n) → ∀ g ∈ gs, g < n
  | [], i, acc, gs, h, hacc => by
    simp only [forCurveLoop, Except.ok.injEq] at h
    subst h; exact hacc
  | s :: rest, i, acc, gs, h, hacc => by
    unfold forCurveLoop at h
    split at h
    · cases h
    · rename_i g0 hg0
      apply forCurveLoop_lt n oracle rest (i + 1) _ gs h
      intro g hg
      rcases List.mem_append.mp hg with h1 | h1
      · exact hacc g h1
      · exact precomp_lt _ _ _ _ _ _ _ hg0 g h1

theorem hnpForCurve_lt (a b : List Int) (curve n : Nat) (lcg : Option Nat) (f : SearchFlags)
    (factory : List LcgMeta) (oracle : Nat → List (List Int)) (gs : List Nat)
    (h : hnpForCurve a b curve (some (some n)) lcg f factory oracle = .ok gs) :
    ∀ g ∈ gs, g < n := by
  unfold hnpForCurve at h
  split at h
  · cases h
  simp only [forCurveRun] at h
  split at h
  · cases h
  · rename_i gs' hgs'
    split at h
    · cases h
    · cases h
      exact forCurveLoop_lt n oracle _ 0 [] _ hgs' (by simp)

theorem cr50PairGuess_lt (r1 s1 z1 r2 s2 z2 : Int) (n : Nat) (hn : n ≠ 0) (k : Nat × Nat) (x : Nat)
    (h : cr50PairGuess r1 s1 z1 r2 s2 z2 n k = .ok x) : x < n := by
  unfold cr50PairGuess at h
  split at h
  · cases h
  split at h
  · cases h
  split at h
  · cases h
  injection h with h
  subst h
  exact emod_toNat_lt _ n hn

theorem cr50GuessLoop_lt (r1 s1 z1 r2 s2 z2 : Int) (n : Nat) (hn : n ≠ 0) (a b w : Int)
    (basis : List Int) :
    ∀ (reduced : List (List Int)) (acc gs : List Nat),
      cr50GuessLoop r1 s1 z1 r2 s2 z2 n a b w basis reduced acc = .ok gs →
      (∀ g ∈ acc, g < n) → ∀ g ∈ gs, g < n
  | [], acc, gs, h, hacc => by
    simp only [cr50GuessLoop, Except.ok.injEq] at h
    subst h; exact hacc
  | row :: rest, acc, gs, h, hacc => by
    unfold cr50GuessLoop at h
    split at h
    · cases h
    · exact cr50GuessLoop_lt r1 s1 z1 r2 s2 z2 n hn a b w basis rest acc gs h hacc
    · split at h
      · cases h
      · rename_i x hx
        apply cr50GuessLoop_lt r1 s1 z1 r2 s2 z2 n hn a b w basis rest _ gs h
        intro g hg
        split at hg
        · exact hacc g hg
        · rcases List.mem_append.mp hg with h1 | h1
          · exact hacc g h1
          · simp only [List.mem_singleton] at h1
            subst h1
            exact cr50PairGuess_lt r1 s1 z1 r2 s2 z2 n hn _ _ hx

theorem cr50Guesses_lt (r1 s1 z1 r2 s2 z2 : Int) (n : Nat) (reduced : List (List Int))
    (gs : List Nat) (h : cr50Guesses r1 s1 z1 r2 s2 z2 n reduced = .ok gs) : ∀ g ∈ gs, g < n := by
  unfold cr50Guesses at h
  split at h
  · cases h; simp
  split at h
  · cases h
  rename_i hn
  split at h
  · cases h
  exact cr50GuessLoop_lt r1 s1 z1 r2 s2 z2 n hn _ _ _ _ reduced [] gs h (by simp)

/-- which calls `issuerCalls` produces: all with the group's `n` (resp. curve id). -/
def CallFor (cid n : Nat) : Call → Prop
  | .hnp _ _ n' _ => n' = n
  | .cr50 _ _ n' => n' = n
  | .hnpCurve _ _ cid' _ _ => cid' = cid

theorem cr50Calls_callFor (cid n : Nat) : ∀ (uniq : List Triple) (cs : List Call),
    cr50Calls n uniq = .ok cs → ∀ c ∈ cs, CallFor cid n c
  | [], cs, h => by cases h
  | [v], cs, h => by
    simp only [cr50Calls, Except.ok.injEq] at h
    subst h
    intro c hc
    simp only [List.mem_singleton] at hc
    subst hc; rfl
  | v :: w :: rest, cs, h => by
    unfold cr50Calls at h
    split at h
    · cases h
    · rename_i cs' hcs'
      cases h
      intro c hc
      rcases List.mem_cons.mp hc with rfl | hc
      · rfl
      · exact cr50Calls_callFor cid n (w :: rest) cs' hcs' c hc

theorem issuerCalls_callFor (k : Kind) (cid n : Nat) (uniq : List Triple) (cs : List Call)
    (h : issuerCalls k cid n uniq = .ok cs) : ∀ c ∈ cs, CallFor cid n c := by
  cases k with
  | cr50 => exact cr50Calls_callFor cid n uniq cs h
  | biased m =>
    simp only [issuerCalls, biasedCalls] at h
    split at h
    · cases h
    · rename_i ab _
      cases h
      intro c hc
      cases m with
      | bias b =>
        simp only [modeCalls, List.mem_map] at hc
        obtain ⟨w, _, rfl⟩ := hc; rfl
      | lcg name flags =>
        simp only [modeCalls, List.mem_singleton] at hc
        subst hc; rfl

/-- every guess of the solver model of a call made for the group is below the group's `n`. -/
theorem solveCall_lt (env : SolverEnv) (cid n : Nat) (henv : env.curveN cid = some (some n))
    (c : Call) (hc : CallFor cid n c) (lll : LllAnswers) (gs : List Nat)
    (h : solveCall env c lll = .ok gs) : ∀ g ∈ gs, g < n := by
  cases c with
  | hnp a b n' bias =>
    simp only [CallFor] at hc; subst hc
    simp only [solveCall] at h
    split at h
    · cases h
    · intro g hg
      obtain ⟨_, _, _, _, _, hlt⟩ := hnp_guess_origin _ _ _ _ _ _ _ _ h g hg
      exact hlt
  | cr50 v1 v2 n' =>
    simp only [CallFor] at hc; subst hc
    exact cr50Guesses_lt _ _ _ _ _ _ _ _ _ h
  | hnpCurve a b cid' name flags =>
    simp only [CallFor] at hc; subst hc
    simp only [solveCall, henv] at h
    exact hnpForCurve_lt _ _ _ _ _ _ _ _ _ h

/-! ### the group's guesses come from the group's calls -/

theorem mem_answersOf_inv (O : GroupOracle) (j : Nat) (g : Int) : ∀ (cnt k0 : Nat),
    g ∈ answersOf O j cnt k0 → ∃ kk, k0 ≤ kk ∧ kk < k0 + cnt ∧ g ∈ O.answer j kk
  | 0, k0, h => by simp [answersOf] at h
  | cnt + 1, k0, h => by
    unfold answersOf at h
    rcases List.mem_append.mp h with h | h
    · exact ⟨k0, Nat.le_refl _, by omega, h⟩
    · obtain ⟨kk, h1, h2, h3⟩ := mem_answersOf_inv O j g cnt (k0 + 1) h
      exact ⟨kk, by omega, by omega, h3⟩

theorem mem_groupAnswers_inv (k : Kind) (cid n : Nat) (O : GroupOracle) (g : Int) :
    ∀ (pks : Pks) (j0 : Nat), g ∈ groupAnswersFrom k cid n O j0 pks →
      ∃ j cs kk, j < pks.length ∧ issuerCalls k cid n (O.uniq (j0 + j)) = .ok cs ∧ kk < cs.length ∧
        g ∈ O.answer (j0 + j) kk
  | [], _, h => by simp [groupAnswersFrom] at h
  | e :: rest, j0, h => by
    unfold groupAnswersFrom at h
    rcases List.mem_append.mp h with h | h
    · cases hc : issuerCalls k cid n (O.uniq j0) with
      | error e => rw [hc] at h; simp at h
      | ok cs =>
        rw [hc] at h
        obtain ⟨kk, _, h2, h3⟩ := mem_answersOf_inv O j0 g cs.length 0 h
        exact ⟨0, cs, kk, by simp, by simpa using hc, by omega, by simpa using h3⟩
    · obtain ⟨j, cs, kk, h1, h2, h3, h4⟩ := mem_groupAnswers_inv k cid n O g rest (j0 + 1) h
      refine ⟨j + 1, cs, kk, by simp; omega, ?_, h3, ?_⟩
      · rwa [show j0 + (j + 1) = j0 + 1 + j by omega]
      · rwa [show j0 + (j + 1) = j0 + 1 + j by omega]

/-! ### uniqueness of the reduced private key -/

/-- `G` has order exactly `n` in the Mathlib group (for whichever proof of `p` prime). -/
def GOrder (c : Curve) : Prop :=
  ∀ _ : Fact (Nat.Prime c.p), addOrderOf (toPoint c c.g) = c.n

theorem gOrder_of_paramsOK (c : Curve) (h : c.paramsOK = true) (hn : Nat.Prime c.n) : GOrder c := by
  intro inst
  exact (generator_of_paramsOK c h).2.2.2.2.2 hn

/-- two private keys of the same key tuple, both in `[0, n)`, are equal when `G` has order `n`. -/
theorem keyOf_unique (c : Curve) (hord : GOrder c) (k : Key) (d d' : Int)
    (h : KeyOf c k d) (h' : KeyOf c k d') (h0 : 0 ≤ d) (h1 : d < c.n) (h0' : 0 ≤ d') (h1' : d' < c.n) :
    d = d' := by
  obtain ⟨inst, hk⟩ := h
  obtain ⟨_, hk'⟩ := h'
  have ho := hord inst
  have e : (d % (c.n : Int)).toNat • toPoint c c.g = (d' % (c.n : Int)).toNat • toPoint c c.g :=
    hk.2.symm.trans hk'.2
  rw [Int.emod_eq_of_lt h0 h1, Int.emod_eq_of_lt h0' h1'] at e
  have := nsmul_injOn_Iio_addOrderOf (x := toPoint c c.g)
    (by rw [ho]; show d.toNat < c.n; omega) (by rw [ho]; show d'.toNat < c.n; omega) e
  omega

/-! ### the check succeeded, so the arguments of every issuer were prepared -/

theorem issuerCalls_of_check (k : Kind) (O : Nat → GroupOracle) (factory : Factory)
    (arts : List Sig) (res : CheckResult) (h : check k O factory arts = .ok res)
    (cid : Nat) (obj : CurveObj) (hobj : (cid, some obj) ∈ factory)
    (j : Nat) (hj : j < (mapIssuerSigIndexes ((groupFrom cid 0 arts).map Prod.snd)).length) :
    ∃ cs, issuerCalls k cid obj.curve.n ((O cid).uniq j) = .ok cs := by
  have hne : groupFrom cid 0 arts ≠ [] := by
    intro h0; rw [h0] at hj; simp [mapIssuerSigIndexes, mapIssuerFrom] at hj
  obtain ⟨gr, hgr, _, _⟩ := (checkLoop_ok k O arts factory res h).1 cid obj hobj hne
  obtain ⟨_, _, hc, _⟩ := processGroup_ok _ _ _ _ _ _ _ hgr
  obtain ⟨q1, q2⟩ := groupCallsFrom_inv _ _ _ _ _ _ _ _ hc
  have hj' : j < gr.calls.length := by rw [q1]; exact hj
  have := q2 j gr.calls[j] (by rw [List.getElem?_eq_getElem hj'])
  rw [Nat.zero_add] at this
  exact ⟨_, this⟩

/-! ### the check layer on top of the solver models -/

/-- **chain, check side.**  Curve objects as in `all_of_issuer_flagged` (valid, reduced, distinct
ids), `G` of order `n`, order oracles consistent, the group's solver oracle instantiated by the
solver models (`SolvedGroup`).  If the model of ONE call made for the group returns a list containing
`d < n`, a private key of the reduced key tuple `key`, then every signature of the batch with that
curve id and key tuple gets `posVerdict d`: weak, DISCRETE_LOG = `format(d, "x")` — `d` itself,
because every model guess is `< n`. -/
theorem chain_core (k : Kind) (O : Nat → GroupOracle) (factory : Factory) (arts : List Sig)
    (res : CheckResult) (hF : FactoryOK factory) (hR : FactoryReduced factory)
    (hnd : (factory.map Prod.fst).Nodup) (hG : GuessConsistent k O arts factory)
    (h : check k O factory arts = .ok res)
    (cid : Nat) (obj : CurveObj) (hobj : (cid, some obj) ∈ factory) (hord : GOrder obj.curve)
    (key : Key) (hkr : KeyReduced obj.curve key) (d : Nat) (hd : d < obj.curve.n)
    (hkey : KeyOf obj.curve key d)
    (env : SolverEnv) (henv : env.curveN cid = some (some obj.curve.n))
    (lll : Nat → Nat → LllAnswers)
    (hsolve : SolvedGroup k cid obj.curve.n env (O cid) lll
      (mapIssuerSigIndexes ((groupFrom cid 0 arts).map Prod.snd)).length)
    (j : Nat) (hj : j < (mapIssuerSigIndexes ((groupFrom cid 0 arts).map Prod.snd)).length)
    (cs : List Call) (hc : issuerCalls k cid obj.curve.n ((O cid).uniq j) = .ok cs)
    (kk : Nat) (c : Call) (hck : cs[kk]? = some c)
    (gs : List Nat) (hgs : solveCall env c (lll j kk) = .ok gs) (hdgs : d ∈ gs) :
    ∀ bi s, arts[bi]? = some s → s.curve = cid → s.key = key →
      verdictOf res.writes bi = some (posVerdict d) := by
  have hne : groupFrom cid 0 arts ≠ [] := by
    intro h0; rw [h0] at hj; simp [mapIssuerSigIndexes, mapIssuerFrom] at hj
  have hkk : kk < cs.length := (List.getElem?_eq_some_iff.mp hck).1
  -- the key is among the recorded answers, hence in `list(guesses)`
  obtain ⟨gs', hgs', hiff⟩ := hsolve j hj cs hc kk c hck
  rw [hgs] at hgs'; cases hgs'
  have hdans : (d : Int) ∈ (O cid).answer j kk :=
    (hiff d).mpr ((mem_natsToInts _ _).mpr ⟨d, hdgs, rfl⟩)
  have hdgl : (d : Int) ∈ (O cid).guessList :=
    answer_in_guessList k O factory arts hG cid obj hobj hne j cs kk _ hj hc hkk hdans
  obtain ⟨inst, hkd⟩ := hkey
  obtain ⟨pre, d', post, q1, q2, q3⟩ := exists_last (fun x => IsKeyOf obj.curve key x)
    (O cid).guessList ⟨d, hdgl, hkd⟩
  have hlast : LastKeyGuess obj.curve key (O cid).guessList d' := ⟨pre, post, q1, q2, q3⟩
  -- the last key guess is a model guess, hence in `[0, n)`, hence `d`
  have hd'gl : d' ∈ (O cid).guessList := by rw [q1]; simp
  have hd'ans := ((isEnumOf_iff _ _).mp (hG cid obj hobj hne)).2 d' |>.mp hd'gl
  obtain ⟨j', cs', kk', hj', hc', hkk', hans'⟩ :=
    mem_groupAnswers_inv k cid obj.curve.n (O cid) d' _ 0 hd'ans
  rw [Nat.zero_add] at hc' hans'
  obtain ⟨gs'', hgs'', hiff'⟩ := hsolve j' hj' cs' hc' kk' cs'[kk'] (List.getElem?_eq_getElem hkk')
  obtain ⟨g, hg, hgd⟩ := (mem_natsToInts _ _).mp ((hiff' d').mp hans')
  have hglt : g < obj.curve.n :=
    solveCall_lt env cid obj.curve.n henv _
      (issuerCalls_callFor k cid obj.curve.n _ cs' hc' _ (List.getElem_mem hkk')) _ _ hgs'' g hg
  have hdd : (d : Int) = d' :=
    keyOf_unique obj.curve hord key d d' ⟨inst, hkd⟩ ⟨inst, q2⟩ (by omega) (by exact_mod_cast hd)
      (by rw [← hgd]; omega) (by rw [← hgd]; exact_mod_cast hglt)
  intro bi s hs hcid hk'
  subst hcid; subst hk'
  obtain ⟨v, hv, hcase⟩ := check_exact k O factory arts res hF hR hnd h bi s hs obj hobj
  rcases hcase with ⟨_, n2⟩ | ⟨d'', p1, _, _, p3⟩
  · exact absurd ⟨hkr, d, hdgl, ⟨inst, hkd⟩⟩ n2
  · rw [hv, p1, hdd, lastKeyGuess_unique obj.curve s.key _ d'' d' p3 hlast]

/-! ### from signatures to the solver arguments -/

/-- the ECDSA signing equation of `(r, s, z)` with nonce `k` and private key `d`:
`s·k ≡ z + r·d (mod n)`. -/
def SignedWith (n : Nat) (d : Int) (v : Triple) (k : Int) : Prop :=
  (v.2.1 : Int) * k ≡ (v.2.2 : Int) + (v.1 : Int) * d [ZMOD (n : Int)]

instance (n : Nat) (d : Int) (v : Triple) (k : Int) : Decidable (SignedWith n d v k) := by
  unfold SignedWith; infer_instance

/-- the relation `HiddenNumberParams` establishes, signature by signature. -/
def ParamsOf (n : Nat) (v : Triple) (p : Nat × Nat) : Prop :=
  hiddenNumberParams n v.1 v.2.1 v.2.2 = .ok p

theorem paramsOf_rel (n : Nat) (hn : 2 ≤ n) (d : Int) (nonce : Triple → Int) :
    ∀ (vals : List Triple) (ab : List (Nat × Nat)), List.Forall₂ (ParamsOf n) vals ab →
      (∀ v ∈ vals, SignedWith n d v (nonce v)) →
      ab.length = vals.length ∧
      ∀ i, i < vals.length →
        ent (natsToInts (ab.map Prod.fst)) i + ent (natsToInts (ab.map Prod.snd)) i * d ≡
          ent (vals.map nonce) i [ZMOD (n : Int)]
  | [], _, .nil, _ => ⟨rfl, fun i hi => by simp at hi⟩
  | v :: vals, p :: ab, .cons hp hrest, hsig => by
    obtain ⟨ih1, ih2⟩ := paramsOf_rel n hn d nonce vals ab hrest
      (fun v' hv' => hsig v' (List.mem_cons_of_mem _ hv'))
    refine ⟨by simp [ih1], ?_⟩
    intro i hi
    cases i with
    | zero =>
      simp only [natsToInts, List.map_cons, ent_cons_zero]
      have hgcd : Int.gcd (v.2.1 : Int) n = 1 := by
        by_contra hne
        have := (hiddenNumberParams_error_iff n hn v.1 v.2.1 v.2.2 .zeroDivision).mpr ⟨rfl, hne⟩
        unfold ParamsOf at hp
        rw [hp] at this; cases this
      obtain ⟨a, b, h1, _, _, h4⟩ := hiddenNumberParams_spec n hn v.1 v.2.1 v.2.2 d (nonce v) hgcd
        (hsig v (List.mem_cons_self ..))
      unfold ParamsOf at hp
      rw [hp] at h1
      cases h1
      exact h4
    | succ i =>
      simp only [natsToInts, List.map_cons, ent_cons_succ]
      exact ih2 i (by simpa using hi)

theorem ent_map_fn {α} (l : List α) (f : α → Int) (i : Nat) (hi : i < l.length) :
    ent (l.map f) i = f l[i] := by
  rw [ent_of_lt _ _ (by simpa using hi)]; simp

/-- lengths and congruences of the solver arguments of a list of values signed with `d`. -/
theorem sig_rel (n : Nat) (hn : 2 ≤ n) (d : Int) (nonce : Triple → Int) (vals : List Triple)
    (ab : List (Nat × Nat)) (hF : List.Forall₂ (ParamsOf n) vals ab)
    (hsig : ∀ v ∈ vals, SignedWith n d v (nonce v)) :
    (natsToInts (ab.map Prod.fst)).length = vals.length ∧
    (natsToInts (ab.map Prod.snd)).length = (natsToInts (ab.map Prod.fst)).length ∧
    (vals.map nonce).length = (natsToInts (ab.map Prod.fst)).length ∧
    ∀ i, i < (natsToInts (ab.map Prod.fst)).length →
      ent (natsToInts (ab.map Prod.fst)) i + ent (natsToInts (ab.map Prod.snd)) i * d ≡
        ent (vals.map nonce) i [ZMOD (n : Int)] := by
  obtain ⟨h1, h2⟩ := paramsOf_rel n hn d nonce vals ab hF hsig
  have hl : (natsToInts (ab.map Prod.fst)).length = vals.length := by simp [natsToInts, h1]
  refine ⟨hl, by simp [natsToInts], by simp [natsToInts, h1], fun i hi => h2 i (by omega)⟩

/-! ### windows commute with the elementwise relation -/

theorem forall₂_chunksAux {α β} (R : α → β → Prop) (size : Nat) :
    ∀ (fuel : Nat) (l : List α) (m : List β), List.Forall₂ R l m →
      List.Forall₂ (List.Forall₂ R) (chunksAux size fuel l) (chunksAux size fuel m)
  | 0, _, _, _ => .nil
  | fuel + 1, [], _, .nil => .nil
  | fuel + 1, x :: xs, y :: ys, h => by
    simp only [chunksAux]
    exact .cons (List.forall₂_take size h)
      (forall₂_chunksAux R size fuel _ _ (List.forall₂_drop size h))

theorem forall₂_chunks {α β} (R : α → β → Prop) (size : Nat) (l : List α) (m : List β)
    (h : List.Forall₂ R l m) : List.Forall₂ (List.Forall₂ R) (chunks size l) (chunks size m) := by
  unfold chunks
  rw [← h.length_eq]
  exact forall₂_chunksAux R size _ l m h

theorem forall₂_sizeLoop {α β} (R : α → β → Prop) : ∀ (sizes : List Nat) (l : List α) (m : List β),
    List.Forall₂ R l m → List.Forall₂ (List.Forall₂ R) (sizeLoop sizes l) (sizeLoop sizes m)
  | [], _, _, _ => .nil
  | size :: rest, l, m, h => by
    simp only [sizeLoop]
    rw [← h.length_eq]
    apply List.rel_append (forall₂_chunks R size l m h)
    split
    · exact .nil
    · exact forall₂_sizeLoop R rest l m h

theorem forall₂_getElem? {α β} {R : α → β → Prop} : ∀ {l : List α} {m : List β},
    List.Forall₂ R l m → ∀ (i : Nat) (x : α), l[i]? = some x → ∃ y, m[i]? = some y ∧ R x y
  | _, _, .nil, i, x, h => by simp at h
  | _, _, .cons hxy hrest, i, x, h => by
    cases i with
    | zero => simp at h; subst h; exact ⟨_, by simp, hxy⟩
    | succ i => simp at h; simpa using forall₂_getElem? hrest i x h

/-- **the call of window `kk`.**  If the arguments of an issuer were prepared and `win` is the
`kk`-th window of its `unique_vals`, the `kk`-th solver call of a bias check is
`HiddenNumberProblem(a, b, None, n, bias)` with `(a_i, b_i) = HiddenNumberParams(win_i)`. -/
theorem window_call (b cid n : Nat) (uniq : List Triple) (cs : List Call)
    (hc : issuerCalls (.biased (.bias b)) cid n uniq = .ok cs)
    (kk : Nat) (win : List Triple) (hwin : (sizeLoop windowSizes uniq)[kk]? = some win) :
    ∃ wab, List.Forall₂ (ParamsOf n) win wab ∧
      cs[kk]? = some (Call.hnp (wab.map Prod.fst) (wab.map Prod.snd) n b) := by
  simp only [issuerCalls, biasedCalls] at hc
  cases hab : hnpParamsList n uniq with
  | error e => rw [hab] at hc; cases hc
  | ok ab =>
    rw [hab] at hc
    simp only [Except.ok.injEq] at hc
    have hF : List.Forall₂ (ParamsOf n) uniq ab := (hnpParamsList_ok n uniq ab).mp hab
    obtain ⟨wab, hw1, hw2⟩ := forall₂_getElem? (forall₂_sizeLoop (ParamsOf n) windowSizes uniq ab hF)
      kk win hwin
    refine ⟨wab, hw2, ?_⟩
    rw [← hc]
    simp only [modeCalls, List.getElem?_map, hw1, Option.map_some]

/-- a window is a non-empty part of the list. -/
theorem window_subset {α} (l : List α) (w : List α) (hw : w ∈ sizeLoop windowSizes l) :
    (∀ x ∈ w, x ∈ l) ∧ w ≠ [] := by
  have key : ∀ size, 0 < size → w ∈ chunks size l → (∀ x ∈ w, x ∈ l) ∧ w ≠ [] := by
    intro size hs hm
    obtain ⟨i, _, _, h3, h4⟩ := chunks_mem size hs l.length l (Nat.le_refl _) w hm
    refine ⟨fun x hx => ?_, h4⟩
    rw [h3] at hx
    exact List.mem_of_mem_drop (List.mem_of_mem_take hx)
  rw [sizeLoop_windowSizes] at hw
  split at hw
  · exact key 24 (by omega) hw
  · split at hw
    · rcases List.mem_append.mp hw with h | h
      · exact key 24 (by omega) h
      · exact key 48 (by omega) h
    · rcases List.mem_append.mp hw with h | h
      · rcases List.mem_append.mp h with h | h
        · exact key 24 (by omega) h
        · exact key 48 (by omega) h
      · exact key 120 (by omega) h

/-- a non-empty list of at most 24 values is solved in ONE call with all of them (window 0). -/
theorem window_single {α} (l : List α) (hne : l ≠ []) (hlen : l.length ≤ 24) :
    (sizeLoop windowSizes l)[0]? = some l := by
  rw [sizeLoop_windowSizes, if_pos hlen, chunks_of_le 24 (by omega) l hne (by omega)]
  rfl

/-- **the Cr50 call of the pair `kk`, `kk + 1`.** -/
theorem cr50_pair_call (n : Nat) : ∀ (uniq : List Triple) (cs : List Call),
    cr50Calls n uniq = .ok cs → ∀ (kk : Nat) (v1 v2 : Triple), uniq[kk]? = some v1 →
      uniq[kk + 1]? = some v2 → cs[kk]? = some (Call.cr50 v1 v2 n)
  | [], cs, h, _, _, _, _, _ => by cases h
  | [v], cs, _, kk, v1, v2, _, h2 => by simp at h2
  | v :: w :: rest, cs, h, kk, v1, v2, h1, h2 => by
    unfold cr50Calls at h
    split at h
    · cases h
    · rename_i cs' hcs'
      cases h
      cases kk with
      | zero =>
        simp only [List.getElem?_cons_zero, Option.some.injEq, Nat.zero_add,
          List.getElem?_cons_succ] at h1 h2
        subst h1; subst h2; rfl
      | succ kk =>
        simp only [List.getElem?_cons_succ] at h1 h2 ⊢
        exact cr50_pair_call n (w :: rest) cs' hcs' kk v1 v2 h1 h2

/-! ### `SolvedGroup` as an evaluable predicate -/

/-- same elements (the recorded answer is `list(set)` in Python's order). -/
def sameElems (ans : List Int) (gs : List Nat) : Bool :=
  ans.all (fun z => (natsToInts gs).contains z) && (natsToInts gs).all (fun z => ans.contains z)

theorem sameElems_iff (ans : List Int) (gs : List Nat) (h : sameElems ans gs = true) :
    ∀ g : Int, g ∈ ans ↔ g ∈ natsToInts gs := by
  simp only [sameElems, Bool.and_eq_true, List.all_eq_true, List.contains_iff_mem] at h
  exact fun g => ⟨h.1 g, h.2 g⟩

/-- the calls of issuer `j`, checked one by one from index `kk`. -/
def solvedCallsB (env : SolverEnv) (G : GroupOracle) (lll : Nat → Nat → LllAnswers) (j : Nat) :
    List Call → Nat → Bool
  | [], _ => true
  | c :: rest, kk =>
    (match solveCall env c (lll j kk) with
     | .ok gs => sameElems (G.answer j kk) gs
     | .error _ => false) && solvedCallsB env G lll j rest (kk + 1)

theorem solvedCallsB_spec (env : SolverEnv) (G : GroupOracle) (lll : Nat → Nat → LllAnswers)
    (j : Nat) : ∀ (cs : List Call) (k0 : Nat), solvedCallsB env G lll j cs k0 = true →
      ∀ kk c, cs[kk]? = some c →
        ∃ gs, solveCall env c (lll j (k0 + kk)) = .ok gs ∧
          ∀ g : Int, g ∈ G.answer j (k0 + kk) ↔ g ∈ natsToInts gs
  | [], _, _, kk, c, h => by simp at h
  | c0 :: rest, k0, hB, kk, c, h => by
    simp only [solvedCallsB, Bool.and_eq_true] at hB
    cases kk with
    | zero =>
      simp only [List.getElem?_cons_zero, Option.some.injEq] at h
      subst h
      cases hs : solveCall env c0 (lll j k0) with
      | error e => rw [hs] at hB; simp at hB
      | ok gs =>
        rw [hs] at hB
        exact ⟨gs, by simp, by simpa using sameElems_iff _ _ hB.1⟩
    | succ kk =>
      simp only [List.getElem?_cons_succ] at h
      have := solvedCallsB_spec env G lll j rest (k0 + 1) hB.2 kk c h
      rwa [show k0 + 1 + kk = k0 + (kk + 1) by omega] at this

/-- `SolvedGroup`, evaluated: for every issuer position whose arguments could be prepared, every
call's recorded answer has the elements of the model's answer. -/
def solvedGroupB (k : Kind) (cid n : Nat) (env : SolverEnv) (G : GroupOracle)
    (lll : Nat → Nat → LllAnswers) (npks : Nat) : Bool :=
  (List.range npks).all fun j =>
    match issuerCalls k cid n (G.uniq j) with
    | .ok cs => solvedCallsB env G lll j cs 0
    | .error _ => true

theorem solvedGroup_of_B (k : Kind) (cid n : Nat) (env : SolverEnv) (G : GroupOracle)
    (lll : Nat → Nat → LllAnswers) (npks : Nat) (h : solvedGroupB k cid n env G lll npks = true) :
    SolvedGroup k cid n env G lll npks := by
  intro j hj cs hc kk c hck
  simp only [solvedGroupB, List.all_eq_true, List.mem_range] at h
  have := h j hj
  rw [hc] at this
  have := solvedCallsB_spec env G lll j cs 0 this kk c hck
  simpa using this

/-! ### the chain for a bias check and for the Cr50 check, modulo the solver-level statement -/

/-- bias checks: if the solver model of window `kk` of issuer `j` returns `d` (hypothesis `hpost`,
discharged by the `sigs_*` sandwiches), every signature of the key tuple gets `posVerdict d`. -/
theorem chain_hnp (b : Nat) (bs : Bias) (hbs : biasOfNat b = some bs)
    (O : Nat → GroupOracle) (factory : Factory) (arts : List Sig)
    (res : CheckResult) (hF : FactoryOK factory) (hR : FactoryReduced factory)
    (hnd : (factory.map Prod.fst).Nodup) (hG : GuessConsistent (.biased (.bias b)) O arts factory)
    (h : check (.biased (.bias b)) O factory arts = .ok res)
    (cid : Nat) (obj : CurveObj) (hobj : (cid, some obj) ∈ factory) (hord : GOrder obj.curve)
    (key : Key) (hkr : KeyReduced obj.curve key) (d : Nat) (hd : d < obj.curve.n)
    (hkey : KeyOf obj.curve key d)
    (env : SolverEnv) (henv : env.curveN cid = some (some obj.curve.n))
    (lll : Nat → Nat → LllAnswers)
    (hsolve : SolvedGroup (.biased (.bias b)) cid obj.curve.n env (O cid) lll
      (mapIssuerSigIndexes ((groupFrom cid 0 arts).map Prod.snd)).length)
    (j : Nat) (hj : j < (mapIssuerSigIndexes ((groupFrom cid 0 arts).map Prod.snd)).length)
    (kk : Nat) (win : List Triple)
    (hwin : (sizeLoop windowSizes ((O cid).uniq j))[kk]? = some win)
    (hpost : ∀ wab, hnpParamsList obj.curve.n win = .ok wab →
      ∃ gs, hiddenNumberProblem (natsToInts (wab.map Prod.fst)) (natsToInts (wab.map Prod.snd)) none
        obj.curve.n bs (env.fbOf obj.curve.n win.length) (lll j kk 0) = .ok gs ∧ d ∈ gs) :
    ∀ bi s, arts[bi]? = some s → s.curve = cid → s.key = key →
      verdictOf res.writes bi = some (posVerdict d) := by
  obtain ⟨cs, hc⟩ := issuerCalls_of_check _ O factory arts res h cid obj hobj j hj
  obtain ⟨wab, hw, hck⟩ := window_call b cid obj.curve.n _ cs hc kk win hwin
  obtain ⟨gs, hgs, hdgs⟩ := hpost wab ((hnpParamsList_ok _ win wab).mpr hw)
  have hlen : (wab.map Prod.fst).length = win.length := by simp [hw.length_eq]
  have hsc : solveCall env (Call.hnp (wab.map Prod.fst) (wab.map Prod.snd) obj.curve.n b)
      (lll j kk) = .ok gs := by
    simp only [solveCall, hbs, hlen]; exact hgs
  exact chain_core _ O factory arts res hF hR hnd hG h cid obj hobj hord key hkr d hd hkey env henv
    lll hsolve j hj cs hc kk _ hck gs hsc hdgs

/-- the Cr50 check: the pair `unique_vals[kk]`, `unique_vals[kk+1]`. -/
theorem chain_cr50_core (O : Nat → GroupOracle) (factory : Factory) (arts : List Sig)
    (res : CheckResult) (hF : FactoryOK factory) (hR : FactoryReduced factory)
    (hnd : (factory.map Prod.fst).Nodup) (hG : GuessConsistent .cr50 O arts factory)
    (h : check .cr50 O factory arts = .ok res)
    (cid : Nat) (obj : CurveObj) (hobj : (cid, some obj) ∈ factory) (hord : GOrder obj.curve)
    (key : Key) (hkr : KeyReduced obj.curve key) (d : Nat) (hd : d < obj.curve.n)
    (hkey : KeyOf obj.curve key d)
    (env : SolverEnv) (henv : env.curveN cid = some (some obj.curve.n))
    (lll : Nat → Nat → LllAnswers)
    (hsolve : SolvedGroup .cr50 cid obj.curve.n env (O cid) lll
      (mapIssuerSigIndexes ((groupFrom cid 0 arts).map Prod.snd)).length)
    (j : Nat) (hj : j < (mapIssuerSigIndexes ((groupFrom cid 0 arts).map Prod.snd)).length)
    (kk : Nat) (v1 v2 : Triple) (h1 : ((O cid).uniq j)[kk]? = some v1)
    (h2 : ((O cid).uniq j)[kk + 1]? = some v2)
    (gs : List Nat)
    (hgs : cr50Guesses v1.1 v1.2.1 v1.2.2 v2.1 v2.2.1 v2.2.2 obj.curve.n (lll j kk 0) = .ok gs)
    (hdgs : d ∈ gs) :
    ∀ bi s, arts[bi]? = some s → s.curve = cid → s.key = key →
      verdictOf res.writes bi = some (posVerdict d) := by
  obtain ⟨cs, hc⟩ := issuerCalls_of_check _ O factory arts res h cid obj hobj j hj
  have hck := cr50_pair_call obj.curve.n _ cs hc kk v1 v2 h1 h2
  exact chain_core _ O factory arts res hF hR hnd hG h cid obj hobj hord key hkr d hd hkey env henv
    lll hsolve j hj cs hc kk _ hck gs hgs hdgs

/-- the LCG checks: one call `HiddenNumberProblemForCurve(a, b, curve_id, lcg, flags)` per issuer. -/
theorem chain_forcurve (name flags : Nat)
    (O : Nat → GroupOracle) (factory : Factory) (arts : List Sig)
    (res : CheckResult) (hF : FactoryOK factory) (hR : FactoryReduced factory)
    (hnd : (factory.map Prod.fst).Nodup)
    (hG : GuessConsistent (.biased (.lcg name flags)) O arts factory)
    (h : check (.biased (.lcg name flags)) O factory arts = .ok res)
    (cid : Nat) (obj : CurveObj) (hobj : (cid, some obj) ∈ factory) (hord : GOrder obj.curve)
    (key : Key) (hkr : KeyReduced obj.curve key) (d : Nat) (hd : d < obj.curve.n)
    (hkey : KeyOf obj.curve key d)
    (env : SolverEnv) (henv : env.curveN cid = some (some obj.curve.n))
    (lll : Nat → Nat → LllAnswers)
    (hsolve : SolvedGroup (.biased (.lcg name flags)) cid obj.curve.n env (O cid) lll
      (mapIssuerSigIndexes ((groupFrom cid 0 arts).map Prod.snd)).length)
    (j : Nat) (hj : j < (mapIssuerSigIndexes ((groupFrom cid 0 arts).map Prod.snd)).length)
    (ab : List (Nat × Nat)) (hab : hnpParamsList obj.curve.n ((O cid).uniq j) = .ok ab)
    (gs : List Nat)
    (hgs : hnpForCurve (natsToInts (ab.map Prod.fst)) (natsToInts (ab.map Prod.snd)) cid
      (some (some obj.curve.n)) (some name) (flagsOfNat flags) env.lcgFactory (lll j 0) = .ok gs)
    (hdgs : d ∈ gs) :
    ∀ bi s, arts[bi]? = some s → s.curve = cid → s.key = key →
      verdictOf res.writes bi = some (posVerdict d) := by
  have hc : issuerCalls (.biased (.lcg name flags)) cid obj.curve.n ((O cid).uniq j) =
      .ok [Call.hnpCurve (ab.map Prod.fst) (ab.map Prod.snd) cid name flags] := by
    simp [issuerCalls, biasedCalls, hab, modeCalls]
  have hsc : solveCall env (Call.hnpCurve (ab.map Prod.fst) (ab.map Prod.snd) cid name flags)
      (lll j 0) = .ok gs := by
    simp only [solveCall, henv]; exact hgs
  exact chain_core _ O factory arts res hF hR hnd hG h cid obj hobj hord key hkr d hd hkey env henv
    lll hsolve j hj _ hc 0 _ (by simp) gs hsc hdgs

/-- the `s` of every value whose parameters were prepared is invertible. -/
theorem gcd_of_paramsList (n : Nat) (hn : 2 ≤ n) (vals : List Triple) (ab : List (Nat × Nat))
    (h : hnpParamsList n vals = .ok ab) : ∀ v ∈ vals, Int.gcd (v.2.1 : Int) n = 1 := by
  intro v hv
  by_contra hne
  have hF := (hnpParamsList_ok n vals ab).mp h
  obtain ⟨i, hi, rfl⟩ := List.mem_iff_getElem.mp hv
  obtain ⟨p, _, hp⟩ := forall₂_getElem? hF i vals[i] (List.getElem?_eq_getElem hi)
  have := (hiddenNumberParams_error_iff n hn vals[i].1 vals[i].2.1 vals[i].2.2 .zeroDivision).mpr
    ⟨rfl, hne⟩
  rw [hp] at this; cases this

/-- **the setting of the check-level chain theorems**: one `Check` call of kind `k` on the batch
`arts` that returned `res`; a curve id `cid` with its curve object; an issuer key tuple `key` whose
private key is `d`; and the solver oracle of that curve group instantiated by the solver models
fed with the `lll.reduce` answers `lll j kk` (issuer `j`, call `kk`). -/
structure Setting (k : Kind) (O : Nat → GroupOracle) (factory : Factory) (arts : List Sig)
    (res : CheckResult) (cid : Nat) (obj : CurveObj) (key : Key) (d : Nat) (env : SolverEnv)
    (lll : Nat → Nat → LllAnswers) : Prop where
  /-- curve objects valid (`ObjOK`), generator and caches reduced, ids distinct -/
  factoryOK : FactoryOK factory
  factoryReduced : FactoryReduced factory
  nodup : (factory.map Prod.fst).Nodup
  /-- `list(guesses)` is an enumeration of the union of the solver answers -/
  guessConsistent : GuessConsistent k O arts factory
  /-- the call returned (in particular every `s` of a known curve is invertible) -/
  checked : check k O factory arts = .ok res
  hobj : (cid, some obj) ∈ factory
  /-- the group order is prime and is the order of `G` -/
  nPrime : obj.curve.n.Prime
  gOrder : GOrder obj.curve
  /-- the issuer key tuple has coordinates below `p` and is `d • G`, `d < n` -/
  keyReduced : KeyReduced obj.curve key
  dLt : d < obj.curve.n
  keyOf : KeyOf obj.curve key d
  envN : env.curveN cid = some (some obj.curve.n)
  /-- the recorded solver answers of the group are the solver models' answers -/
  solved : SolvedGroup k cid obj.curve.n env (O cid) lll
    (mapIssuerSigIndexes ((groupFrom cid 0 arts).map Prod.snd)).length

end Paranoid.C08Chain
