/-
Proofs/CfLarge.lean — a good rational approximation forces a large partial quotient (C05,
continued-fraction clause), and a large partial quotient makes CheckContinuedFraction flag.

`euclid_large_quot`: if `|a·d − c·b| = E > 0` and `(K + 3)·E·d ≤ b + E` then Euclid's algorithm on
`(a, b)` produces a quotient `≥ K`. (Classically: `c/d` is a convergent of `a/b` by Legendre's
criterion and the next partial quotient exceeds `b/(d·E) − 2`; the proof here is a direct induction
on `d` that runs Euclid's algorithm on `(a, b)` and `(c, d)` in parallel — the quotients agree, the
determinant keeps its absolute value `E`, the invariant `(K+3)·E·d ≤ b + E` is preserved — until
`d ∣ c`, where the remainder is `E/d` and the next quotient is about `b·d/E`.)
-/
import ParanoidModel.Proofs.NTheory
import ParanoidModel.Proofs.Totality
import Mathlib.Tactic.Ring
import Mathlib.Tactic.Linarith

namespace Paranoid.CfLarge
open Paranoid Paranoid.NT

theorem div_mod_of_eq {a b q r : Nat} (h : a = q * b + r) (hr : r < b) : a / b = q ∧ a % b = r := by
  have hb : 0 < b := by omega
  subst h
  constructor
  · rw [Nat.add_comm, Nat.add_mul_div_right _ _ hb, Nat.div_eq_of_lt hr, Nat.zero_add]
  · rw [Nat.add_comm, Nat.add_mul_mod_self_right, Nat.mod_eq_of_lt hr]

/-- head of Euclid's quotient list. -/
theorem mem_euclidQuots_head (a b : Nat) (hb : b ≠ 0) : a / b ∈ euclidQuots a b := by
  rw [euclidQuots_pos a b hb]; exact List.mem_cons_self

theorem mem_euclidQuots_tail {a b q : Nat} (hb : b ≠ 0) (h : q ∈ euclidQuots b (a % b)) :
    q ∈ euclidQuots a b := by
  rw [euclidQuots_pos a b hb]; exact List.mem_cons_of_mem _ h

theorem euclid_large_quot : ∀ (d : Nat) (a b c E K : Nat), 0 < d → 0 < E → 1 ≤ K →
    (a * d = c * b + E ∨ a * d + E = c * b) → (K + 3) * E * d ≤ b + E →
    ∃ q ∈ euclidQuots a b, K ≤ q := by
  intro d
  induction d using Nat.strong_induction_on with
  | _ d ih =>
    intro a b c E K hd hE hK hdet hsz
    -- b is large
    have hb3 : 3 * E + K * E ≤ b + E := by
      have h1 : (K + 3) * E * 1 ≤ (K + 3) * E * d := Nat.mul_le_mul_left _ hd
      have h2 : (K + 3) * E * 1 = 3 * E + K * E := by ring
      omega
    have hKE : E ≤ K * E := Nat.le_mul_of_pos_left E hK
    have hbE : 3 * E ≤ b := by omega
    have hb0 : b ≠ 0 := by omega
    have hdm := Nat.div_add_mod c d
    generalize hq' : c / d = q' at hdm
    generalize hd' : c % d = d' at hdm
    have hd'lt : d' < d := hd' ▸ Nat.mod_lt c hd
    rcases Nat.eq_zero_or_pos d' with hz | hpos
    · -- d ∣ c: the remainder is E / d, the next quotient about b·d / E
      subst hz
      have hc : c = d * q' := by omega
      subst hc
      rcases hdet with h | h
      · -- a = q'·b + e, e·d = E
        have hle : q' * b ≤ a := by
          have : q' * b * d ≤ a * d := by nlinarith
          exact Nat.le_of_mul_le_mul_right this hd
        obtain ⟨e, he⟩ : ∃ e, a = q' * b + e := ⟨a - q' * b, by omega⟩
        have hed : e * d = E := by
          have : (q' * b + e) * d = d * q' * b + E := by rw [← he]; exact h
          nlinarith
        have heE : e ≤ E := by rw [← hed]; exact Nat.le_mul_of_pos_right e hd
        have he0 : 0 < e := by
          rcases Nat.eq_zero_or_pos e with h0 | h0
          · rw [h0] at hed; omega
          · exact h0
        obtain ⟨h1, h2⟩ := div_mod_of_eq he (by omega)
        refine ⟨b / e, ?_, ?_⟩
        · apply mem_euclidQuots_tail hb0
          rw [h2]; exact mem_euclidQuots_head b e (by omega)
        · rw [Nat.le_div_iff_mul_le he0]
          have : K * e ≤ K * E := Nat.mul_le_mul_left K heE
          omega
      · -- a = q'·b − e, e·d = E
        have hle : a ≤ q' * b := by
          have : a * d ≤ q' * b * d := by nlinarith
          exact Nat.le_of_mul_le_mul_right this hd
        obtain ⟨e, he⟩ : ∃ e, q' * b = a + e := ⟨q' * b - a, by omega⟩
        have hed : e * d = E := by
          have : a * d + E = (a + e) * d := by rw [← he]; rw [h]; ring
          nlinarith
        have heE : e ≤ E := by rw [← hed]; exact Nat.le_mul_of_pos_right e hd
        have he0 : 0 < e := by
          rcases Nat.eq_zero_or_pos e with h0 | h0
          · rw [h0] at hed; omega
          · exact h0
        have hq1 : 1 ≤ q' := by
          rcases Nat.eq_zero_or_pos q' with h0 | h0
          · rw [h0] at he; omega
          · exact h0
        obtain ⟨q'', rfl⟩ : ∃ q'', q' = q'' + 1 := ⟨q' - 1, by omega⟩
        have ha : a = q'' * b + (b - e) := by
          have : (q'' + 1) * b = q'' * b + b := by ring
          omega
        obtain ⟨h1, h2⟩ := div_mod_of_eq ha (by omega)
        have hb1 : b = 1 * (b - e) + e := by omega
        obtain ⟨h3, h4⟩ := div_mod_of_eq hb1 (by omega)
        refine ⟨(b - e) / e, ?_, ?_⟩
        · apply mem_euclidQuots_tail hb0
          rw [h2]
          apply mem_euclidQuots_tail (by omega)
          rw [h4]; exact mem_euclidQuots_head (b - e) e (by omega)
        · rw [Nat.le_div_iff_mul_le he0]
          have : K * e ≤ K * E := Nat.mul_le_mul_left K heE
          omega
    · -- 1 ≤ d' < d: one parallel Euclid step
      have hc : c = d * q' + d' := by omega
      subst hc
      have hd1 : d' + 1 ≤ d := hd'lt
      rcases hdet with h | h
      · -- a·d = c·b + E:  r·d = d'·b + E
        have hle : q' * b ≤ a := by
          have : q' * b * d ≤ a * d := by nlinarith
          exact Nat.le_of_mul_le_mul_right this hd
        obtain ⟨r, hr⟩ : ∃ r, a = q' * b + r := ⟨a - q' * b, by omega⟩
        have hrd : r * d = d' * b + E := by
          have : (q' * b + r) * d = (d * q' + d') * b + E := by rw [← hr]; exact h
          nlinarith
        have hrb : r < b := by
          have h1 : d' * b + b ≤ d * b := by
            have := Nat.mul_le_mul_right b hd1
            rw [Nat.add_mul, Nat.one_mul] at this; exact this
          have : r * d < b * d := by rw [Nat.mul_comm b d]; omega
          exact Nat.lt_of_mul_lt_mul_right this
        obtain ⟨h1, h2⟩ := div_mod_of_eq hr hrb
        have hsz' : (K + 3) * E * d' ≤ r + E := by
          have hmul : (K + 3) * E * d' * d ≤ (r + E) * d := by
            have e1 : (r + E) * d = d' * b + E + E * d := by rw [Nat.add_mul, hrd]
            have e2 : d' * ((K + 3) * E * d) ≤ d' * (b + E) := Nat.mul_le_mul_left d' hsz
            have e3 : E * (d' + 1) ≤ E * d := Nat.mul_le_mul_left E hd1
            nlinarith
          exact Nat.le_of_mul_le_mul_right hmul hd
        obtain ⟨q, hq, hKq⟩ := ih d' hd'lt b r d E K hpos hE hK
          (Or.inr (by rw [Nat.mul_comm b d', Nat.mul_comm d r]; omega)) hsz'
        exact ⟨q, mem_euclidQuots_tail hb0 (h2 ▸ hq), hKq⟩
      · -- a·d + E = c·b:  r·d + E = d'·b
        have hdb : b ≤ d' * b := Nat.le_mul_of_pos_left b hpos
        have hle : q' * b ≤ a := by
          have : q' * b * d ≤ a * d := by nlinarith
          exact Nat.le_of_mul_le_mul_right this hd
        obtain ⟨r, hr⟩ : ∃ r, a = q' * b + r := ⟨a - q' * b, by omega⟩
        have hrd : r * d + E = d' * b := by
          have : (q' * b + r) * d + E = (d * q' + d') * b := by rw [← hr]; exact h
          nlinarith
        have hrb : r < b := by
          have h1 : d' * b + b ≤ d * b := by
            have := Nat.mul_le_mul_right b hd1
            rw [Nat.add_mul, Nat.one_mul] at this; exact this
          have : r * d < b * d := by rw [Nat.mul_comm b d]; omega
          exact Nat.lt_of_mul_lt_mul_right this
        obtain ⟨h1, h2⟩ := div_mod_of_eq hr hrb
        have hsz' : (K + 3) * E * d' ≤ r + E := by
          have hmul : (K + 3) * E * d' * d ≤ (r + E) * d := by
            have e1 : (r + E) * d + E = d' * b + E * d := by rw [Nat.add_mul]; omega
            have e2 : d' * ((K + 3) * E * d) ≤ d' * (b + E) := Nat.mul_le_mul_left d' hsz
            have e3 : E * (d' + 1) ≤ E * d := Nat.mul_le_mul_left E hd1
            nlinarith
          exact Nat.le_of_mul_le_mul_right hmul hd
        obtain ⟨q, hq, hKq⟩ := ih d' hd'lt b r d E K hpos hE hK
          (Or.inl (by rw [Nat.mul_comm b d', Nat.mul_comm d r]; omega)) hsz'
        exact ⟨q, mem_euclidQuots_tail hb0 (h2 ▸ hq), hKq⟩

/-! ### a large partial quotient makes the check flag -/

theorem cfStep_large (n x bound quot v : Nat) (hx : x ≠ 0) (hq : bound ≤ quot) :
    ∃ fs, cfStep n x bound quot v = .ok (some (false, fs)) := by
  unfold cfStep
  have hx' : (x : Int) ≠ 0 := by exact_mod_cast hx
  obtain ⟨⟨r, c⟩, h1⟩ := divmodRounded_ok ((n : Int) * v) x hx'
  rw [h1]
  simp only
  obtain ⟨⟨a, b⟩, h2⟩ := divmodRounded_ok r x hx'
  rw [h2]
  simp only
  split
  · exact ⟨_, rfl⟩
  · rw [if_pos hq]; exact ⟨_, rfl⟩

theorem cfStep_false (n x bound quot v : Nat) (res : Bool × List Nat)
    (h : cfStep n x bound quot v = .ok (some res)) : res.1 = false := by
  unfold cfStep at h
  split at h
  · cases h
  · split at h
    · cases h
    · split at h
      · cases h; rfl
      · split at h
        · cases h; rfl
        · cases h

/-- if some partial quotient is `≥ bound` the loop answers `(False, …)`. -/
theorem cfCheckLoop_large (n x bound : Nat) (hx : x ≠ 0) : ∀ (l : List (Nat × Nat × Nat)),
    (∃ e ∈ l, bound ≤ e.1) → ∃ fs, cfCheckLoop n x bound l = .ok (false, fs)
  | [], h => by obtain ⟨e, he, _⟩ := h; cases he
  | (quot, y, v) :: rest, h => by
    unfold cfCheckLoop
    obtain ⟨r, hr⟩ := cfStep_ok n x bound quot v hx
    rw [hr]
    cases r with
    | some res =>
      have := cfStep_false n x bound quot v res hr
      obtain ⟨ok, fs⟩ := res
      simp only at this
      subst this
      exact ⟨fs, rfl⟩
    | none =>
      simp only
      apply cfCheckLoop_large n x bound hx rest
      obtain ⟨e, he, hb⟩ := h
      rcases List.mem_cons.mp he with rfl | he'
      · obtain ⟨fs, hfs⟩ := cfStep_large n x bound quot v hx hb
        rw [hfs] at hr; cases hr
      · exact ⟨e, he', hb⟩

/-- **Large quotient ⇒ flagged.** If Euclid's algorithm on `(n, 2^bitlen n)` has a quotient
`≥ bound`, `CheckContinuedFraction(n, bound)` returns `(False, fs)` for some `fs`. -/
theorem checkContinuedFraction_large (n bound : Nat)
    (h : ∃ q ∈ euclidQuots n (2 ^ bitLength n), bound ≤ q) :
    ∃ fs, checkContinuedFraction n bound = .ok (false, fs) := by
  unfold checkContinuedFraction
  apply cfCheckLoop_large n _ bound (by positivity)
  obtain ⟨q, hq, hb⟩ := h
  rw [continuedFraction_eq]
  have hm := convergents_map_fst (euclidQuots n (2 ^ bitLength n)) 1 0 0 1
  rw [← hm] at hq
  obtain ⟨e, he, rfl⟩ := List.mem_map.mp hq
  exact ⟨e, he, hb⟩

end Paranoid.CfLarge
