/-
Proofs/CheckAll.lean — consequences of `checkArtifacts_spec` for pre-annotated and for fresh
batches, the exact entries written by every step, CheckIssuerKey's verdict.  Core Lean only.
-/
import ParanoidModel.Proofs.Checks
namespace Paranoid

/-! ### reading back a result after SetTestResult -/

/-- the stored entry after `SetTestResult(e)` when `old` was stored under the same name. -/
def mergeEntry (old : Option Entry) (e : Entry) : Entry :=
  match old with
  | some x => ⟨x.name, x.result || e.result, max x.severity e.severity⟩
  | none => e

theorem find_updateFirst (e : Entry) (l : List Entry) (n : String) :
    (updateFirst e l).find? (fun x => x.name = n) =
      if n = e.name then
        (l.find? (fun x => x.name = n)).map
          (fun x => ⟨x.name, x.result || e.result, max x.severity e.severity⟩)
      else l.find? (fun x => x.name = n) := by
  induction l with
  | nil => simp [updateFirst]
  | cons x xs ih =>
    unfold updateFirst
    by_cases hx : x.name = e.name
    · simp only [hx, if_true]
      rw [List.find?_cons, List.find?_cons]
      by_cases hn : n = e.name
      · subst hn; simp [hx]
      · have : ¬ e.name = n := fun h => hn h.symm
        simp [hn, this, hx]
    · simp only [hx, if_false]
      rw [List.find?_cons, List.find?_cons, ih]
      by_cases hxn : x.name = n
      · have : ¬ n = e.name := fun h => hx (hxn.trans h)
        simp [hxn, this]
      · simp [hxn]

theorem getTestResult_setTestResult (ver : String) (ti : TestInfo) (e : Entry) (n : String) :
    getTestResult (setTestResult ver ti e) n =
      if n = e.name then some (mergeEntry (getTestResult ti n) e) else getTestResult ti n := by
  unfold setTestResult
  split
  · rename_i x hx
    simp only [getTestResult] at *
    rw [find_updateFirst]
    by_cases hn : n = e.name
    · subst hn; simp [hx, mergeEntry]
    · simp [hn]
  · rename_i hx
    simp only [getTestResult] at *
    rw [List.find?_append]
    by_cases hn : n = e.name
    · subst hn; simp [hx, mergeEntry]
    · have : ¬ e.name = n := fun h => hn h.symm
      simp [hn, this]

/-! ### what holds for every artefact, pre-annotated or not -/

/-- `a'` is `a` after some checks: nothing recorded was lost. -/
structure Later (a a' : Artifact) : Prop where
  key : SameKey a a'
  mono : Mono a.info a'.info
  nodup : (a.info.results.map (·.name)).Nodup → (a'.info.results.map (·.name)).Nodup
  count : ∀ n, nameCount n a'.info.results ≤ max 1 (nameCount n a.info.results)
  consistent : Consistent a.info → Consistent a'.info

theorem actsBy_later {ver : String} {ops : Nat → Artifact → List Op} {j : Nat} {a a' : Artifact}
    (h : ActsBy ver ops j a a') : Later a a' := by
  obtain ⟨hk, ho⟩ := h
  have hr := applyOps_eq_runOps ho
  refine ⟨hk, ?_, ?_, ?_, ?_⟩
  · rw [← hr]; exact runOps_mono ver _ _
  · intro hnd; rw [← hr]; exact runOps_names_nodup ver _ _ hnd
  · intro n; rw [← hr]; exact nameCount_runOps ver _ _ n
  · intro hc; rw [← hr]; exact runOps_consistent ver _ _ hc

theorem actsBy_weak {ver : String} {ops : Nat → Artifact → List Op} {j : Nat} {a a' : Artifact}
    (h : ActsBy ver ops j a a') : a'.info.weak = (a.info.weak || posFlag (ops j a)) :=
  applyOps_weak h.2

/-- recorded factors under `k` survive when no check overwrites `k` by a plain AttachInfo. -/
theorem actsBy_factors {ver : String} {ops : Nat → Artifact → List Op} {j : Nat} {a a' : Artifact}
    (h : ActsBy ver ops j a a') (k : String) (hno : ∀ op ∈ ops j a, overwrites k op = false)
    (o : Option (List Int)) (ho : getAttachedFactors a.info k = .ok o) :
    ∃ o', getAttachedFactors a'.info k = .ok o' ∧
      (∀ x, MemO x o' ↔ MemO x o ∨ ∃ fs ∈ attachedUnder k (ops j a), x ∈ fs) ∧
      (o' = none ↔ o = none ∧ attachedUnder k (ops j a) = []) := by
  have hr := applyOps_eq_runOps h.2
  rw [← hr]
  exact runOps_factors ver _ _ k o ho hno

theorem overwrites_attachOps (k : String) (v : Verdict)
    (hv : ∀ k' x, v.info = some (k', x) → k' ≠ k) : ∀ op ∈ attachOps v, overwrites k op = false := by
  intro op hop
  unfold attachOps at hop
  rcases List.mem_append.1 hop with h | h
  · cases hf : v.factors with
    | none => simp [hf] at h
    | some p => simp only [hf, List.mem_singleton] at h; subst h; rfl
  · cases hi : v.info with
    | none => simp [hi] at h
    | some p =>
      simp only [hi, List.mem_singleton] at h; subst h
      have := hv p.1 p.2 (by rw [hi])
      simp [overwrites, this]

theorem overwrites_issuerOps (var : Variant) (c : CheckSpec) (keys : List Artifact) (a : Artifact)
    (k : String) : ∀ op ∈ issuerOps var c keys a, overwrites k op = false := by
  induction keys with
  | nil => intro op hop; cases hop
  | cons key keys ih =>
    intro op hop
    simp only [issuerOps, List.mem_append] at hop
    rcases hop with h | h
    · split at h
      · split at h
        · simp only [List.mem_singleton] at h; subst h; rfl
        · cases h
      · cases h
    · exact ih op h

theorem overwrites_allOps (var : Variant) (ver : String) (ec : List CheckSpec) (steps : List Step)
    (st : List Artifact) (j : Nat) (a : Artifact) (k : String)
    (hv : ∀ s ∈ steps, ∀ i k' x, (s.verdict i).info = some (k', x) → k' ≠ k) :
    ∀ op ∈ allOps var ver ec steps st j a, overwrites k op = false := by
  intro op hop
  simp only [allOps, List.mem_flatMap] at hop
  obtain ⟨s, hs, hop⟩ := hop
  unfold stepOps at hop
  split at hop
  · split at hop
    · exact overwrites_issuerOps var _ _ _ k op hop
    · cases hop
  · unfold genOps at hop
    split at hop
    · unfold verdictOps at hop
      rcases List.mem_append.1 hop with h | h
      · split at h
        · exact overwrites_attachOps k _ (hv s hs j) op h
        · cases h
      · simp only [List.mem_singleton] at h; subst h; rfl
    · cases hop

/-! ### the entry each step writes -/

/-- the `test_result` the step passes to SetTestResult for the artefact `a` at position `j`
(`none`: the check does not apply to it — no entry). -/
def expectedEntry (var : Variant) (ver : String) (ec : List CheckSpec) (s : Step)
    (st : List Artifact) (j : Nat) (a : Artifact) : Option Entry :=
  if s.spec.issuer then
    match innerCheckAllEC ver ec s.inner (issuerKeys var st) with
    | .ok (keys', _) =>
      match keys'.find? (fun key => keyId var a = keyId var key) with
      | some key =>
        match issuerEntry s.spec key with
        | .ok en => some en
        | .error _ => none
      | none => none
    | .error _ => none
  else if applicable s.spec a then some (entryFor s.spec (s.verdict j)) else none

theorem issuerEntry_name {c : CheckSpec} {key : Artifact} {en : Entry}
    (h : issuerEntry c key = .ok en) : en.name = c.name := by
  unfold issuerEntry at h
  split at h
  · split at h
    · cases h; rfl
    · cases h
  · cases h; rfl

theorem expectedEntry_name {var : Variant} {ver : String} {ec : List CheckSpec} {s : Step}
    {st : List Artifact} {j : Nat} {a : Artifact} {e : Entry}
    (h : expectedEntry var ver ec s st j a = some e) : e.name = s.spec.name := by
  unfold expectedEntry at h
  split at h
  · split at h
    · split at h
      · split at h
        · rename_i hen; cases h; exact issuerEntry_name hen
        · cases h
      · cases h
    · cases h
  · split at h
    · cases h; rfl
    · cases h

theorem issuerOps_nil_of_no_match (var : Variant) (c : CheckSpec) (keys : List Artifact)
    (a : Artifact) (h : ∀ k ∈ keys, keyId var a ≠ keyId var k) : issuerOps var c keys a = [] := by
  induction keys with
  | nil => rfl
  | cons key keys ih =>
    simp only [issuerOps]
    rw [if_neg (h key List.mem_cons_self), ih (fun k hk => h k (List.mem_cons_of_mem _ hk))]
    rfl

theorem entriesOf_issuerOps (var : Variant) (c : CheckSpec) (keys : List Artifact) (a : Artifact)
    (hnd : (keys.map (keyId var)).Nodup) :
    entriesOf (issuerOps var c keys a) =
      match keys.find? (fun key => keyId var a = keyId var key) with
      | some key =>
        match issuerEntry c key with
        | .ok en => [en]
        | .error _ => []
      | none => [] := by
  induction keys with
  | nil => rfl
  | cons key keys ih =>
    simp only [List.map_cons, List.nodup_cons] at hnd
    rw [List.find?_cons]
    by_cases hk : keyId var a = keyId var key
    · simp only [hk, decide_true, issuerOps, if_true]
      have : issuerOps var c keys a = [] := by
        apply issuerOps_nil_of_no_match
        intro k hkm heq
        exact hnd.1 (List.mem_map.2 ⟨k, hkm, by rw [← heq, hk]⟩)
      rw [this, List.append_nil]
      cases issuerEntry c key with
      | ok en => rfl
      | error e => rfl
    · simp only [hk, decide_false, issuerOps, if_false, List.nil_append]
      exact ih hnd.2

theorem map_keyId_of_pointwise {R : Nat → Artifact → Artifact → Prop}
    (hR : ∀ i a b, R i a b → SameKey a b) (var : Variant) {i : Nat} {l l' : List Artifact}
    (h : Pointwise R i l l') : l'.map (keyId var) = l.map (keyId var) := by
  induction l generalizing i l' with
  | nil => cases l' with
    | nil => rfl
    | cons b bs => exact h.elim
  | cons a as ih => cases l' with
    | nil => exact h.elim
    | cons b bs =>
      simp only [List.map_cons]
      rw [(hR _ _ _ h.1).keyId, ih h.2]

theorem innerKeys_nodup {var : Variant} {ver : String} {ec : List CheckSpec}
    {inner : Nat → Nat → Verdict} {st keys' : List Artifact} {r : Bool}
    (h : innerCheckAllEC ver ec inner (issuerKeys var st) = .ok (keys', r)) :
    (keys'.map (keyId var)).Nodup := by
  rw [map_keyId_of_pointwise (fun _ _ _ hh => hh.1) var (innerCheckAllEC_spec h)]
  exact issuerKeys_nodup var st

/-- the entries a step writes are exactly its expected entry (one or none). -/
theorem entriesOf_stepOps (var : Variant) (ver : String) (ec : List CheckSpec) (s : Step)
    (st : List Artifact) (j : Nat) (a : Artifact) :
    entriesOf (stepOps var ver ec s st j a) = (expectedEntry var ver ec s st j a).toList := by
  unfold stepOps expectedEntry
  by_cases hiss : s.spec.issuer = true
  · simp only [hiss, if_true]
    cases hin : innerCheckAllEC ver ec s.inner (issuerKeys var st) with
    | error e => rfl
    | ok p =>
      obtain ⟨keys', r'⟩ := p
      dsimp only
      rw [entriesOf_issuerOps var _ _ _ (innerKeys_nodup hin)]
      cases hf : keys'.find? (fun key => keyId var a = keyId var key) with
      | none => rfl
      | some key =>
        dsimp only
        cases issuerEntry s.spec key <;> rfl
  · simp only [hiss, Bool.false_eq_true, if_false]
    rw [entriesOf_genOps]
    split <;> rfl

theorem entriesOf_flatMap {σ : Type} (f : σ → List Op) (ss : List σ) :
    entriesOf (ss.flatMap f) = ss.flatMap (fun s => entriesOf (f s)) := by
  induction ss with
  | nil => rfl
  | cons s ss ih => simp only [List.flatMap_cons, entriesOf_append, ih]

theorem flatMap_toList_eq_filterMap {σ β : Type} (f : σ → Option β) (ss : List σ) :
    ss.flatMap (fun s => (f s).toList) = ss.filterMap f := by
  induction ss with
  | nil => rfl
  | cons s ss ih =>
    simp only [List.flatMap_cons, List.filterMap_cons, ih]
    cases f s <;> rfl

theorem entriesOf_allOps (var : Variant) (ver : String) (ec : List CheckSpec) (steps : List Step)
    (st : List Artifact) (j : Nat) (a : Artifact) :
    entriesOf (allOps var ver ec steps st j a) =
      steps.filterMap (fun s => expectedEntry var ver ec s st j a) := by
  unfold allOps
  rw [entriesOf_flatMap, ← flatMap_toList_eq_filterMap]
  congr 1
  funext s
  exact entriesOf_stepOps var ver ec s st j a

/-- names of the expected entries: a sub-sequence of the step names. -/
theorem names_filterMap_expected (var : Variant) (ver : String) (ec : List CheckSpec)
    (steps : List Step) (st : List Artifact) (j : Nat) (a : Artifact) :
    ((steps.filterMap (fun s => expectedEntry var ver ec s st j a)).map (·.name)).Sublist
      (steps.map (·.spec.name)) := by
  induction steps with
  | nil => exact List.Sublist.slnil
  | cons s ss ih =>
    simp only [List.filterMap_cons, List.map_cons]
    cases he : expectedEntry var ver ec s st j a with
    | none => exact List.Sublist.cons _ ih
    | some e =>
      simp only [List.map_cons]
      rw [expectedEntry_name he]
      exact List.Sublist.cons₂ _ ih

theorem any_isSet_eq (ops : List Op) : ops.any isSet = !(entriesOf ops).isEmpty := by
  induction ops with
  | nil => rfl
  | cons op ops ih =>
    cases op with
    | setTestResult e => simp [isSet, entriesOf]
    | attachInfo k v => simpa [isSet, entriesOf] using ih
    | attachFactors k fs => simpa [isSet, entriesOf] using ih

/-- FRESH artefact: after the checks its result list is exactly the expected entries of the
steps, in order; weak = some entry positive; version recorded as soon as one entry exists. -/
theorem actsBy_fresh {var : Variant} {ver : String} {ec : List CheckSpec} {steps : List Step}
    {st : List Artifact} {j : Nat} {a a' : Artifact}
    (h : ActsBy ver (allOps var ver ec steps st) j a a') (hfresh : a.info = TestInfo.empty)
    (hnd : (steps.map (·.spec.name)).Nodup) :
    a'.info.results = steps.filterMap (fun s => expectedEntry var ver ec s st j a) ∧
    a'.info.weak = a'.info.results.any (·.result) ∧
    a'.info.version = (if a'.info.results.isEmpty then "" else ver) := by
  obtain ⟨_, ho⟩ := h
  rw [hfresh] at ho
  have hres : a'.info.results = entriesOf (allOps var ver ec steps st j a) := by
    have := applyOps_results_fresh ho (by
      simp only [TestInfo.empty, List.map_nil, List.nil_append]
      rw [entriesOf_allOps]
      exact (names_filterMap_expected var ver ec steps st j a).nodup hnd)
    simpa [TestInfo.empty] using this
  refine ⟨by rw [hres, entriesOf_allOps], ?_, ?_⟩
  · rw [applyOps_weak ho, hres]; simp [TestInfo.empty]
  · have := runOps_version ver TestInfo.empty (allOps var ver ec steps st j a)
    rw [applyOps_eq_runOps ho] at this
    rw [this, any_isSet_eq, hres]
    cases (entriesOf (allOps var ver ec steps st j a)).isEmpty <;> simp [TestInfo.empty]

/-! ### which steps write an entry -/

theorem expectedEntry_generic (var : Variant) (ver : String) (ec : List CheckSpec) (s : Step)
    (st : List Artifact) (j : Nat) (a : Artifact) (hs : s.spec.issuer = false) :
    expectedEntry var ver ec s st j a =
      if applicable s.spec a then some (entryFor s.spec (s.verdict j)) else none := by
  simp [expectedEntry, hs]

/-- the checked issuer key of a signature, as CheckIssuerKey sees it. -/
theorem issuer_key_exists {var : Variant} {ver : String} {ec : List CheckSpec}
    {inner : Nat → Nat → Verdict} {arts keys' : List Artifact} {r : Bool}
    (hin : innerCheckAllEC ver ec inner (issuerKeys var arts) = .ok (keys', r))
    (a : Artifact) (ha : a ∈ arts) :
    ∃ k key0 key', (issuerKeys var arts)[k]? = some key0 ∧ keys'[k]? = some key' ∧
      keyId var key0 = keyId var a ∧ (∃ b ∈ arts, key0 = freshKey b) ∧
      ActsBy ver (innerOps ec inner) k key0 key' ∧
      keys'.find? (fun key => keyId var a = keyId var key) = some key' := by
  obtain ⟨key0, hk0, hid⟩ := issuerKeys_cover var arts a ha
  obtain ⟨k, hk⟩ := List.mem_iff_getElem?.1 hk0
  have hpw := innerCheckAllEC_spec hin
  have hlen := hpw.length
  have hk' : k < keys'.length := by
    rw [hlen]
    exact (List.getElem?_eq_some_iff.1 hk).1
  refine ⟨k, key0, keys'[k], hk, List.getElem?_eq_getElem hk', hid,
    issuerKeys_from var arts key0 hk0, ?_, ?_⟩
  · have := hpw.get k key0 keys'[k] hk (List.getElem?_eq_getElem hk')
    simpa using this
  · have hact := hpw.get k key0 keys'[k] hk (List.getElem?_eq_getElem hk')
    have hidk : keyId var keys'[k] = keyId var a := by rw [hact.1.keyId, hid]
    have hnd := innerKeys_nodup (st := arts) hin
    -- the unique key with this id is the one at position k
    rw [List.find?_eq_some_iff_append]
    refine ⟨by simp [hidk], ?_⟩
    refine ⟨keys'.take k, keys'.drop (k + 1), ?_, ?_⟩
    · rw [List.getElem_cons_drop, List.take_append_drop]
    · intro x hx
      simp only [Bool.not_eq_true', decide_eq_false_iff_not]
      intro heq
      obtain ⟨m, hm, hxm⟩ := List.mem_take_iff_getElem.1 hx
      have hmk : m < k := by omega
      have hm' : m < keys'.length := by omega
      have hpair := (List.pairwise_iff_getElem.1 hnd) m k (by simpa using hm') (by simpa using hk') hmk
      apply hpair
      simp only [List.getElem_map]
      rw [hxm, ← heq, hidk]

/-- in a run that returned, every step writes an entry exactly for the artefacts it applies to
(CheckIssuerKey: every signature). -/
theorem expectedEntry_isSome {var : Variant} {ver : String} {ec : List CheckSpec} {s : Step}
    {arts : List Artifact} (hg : StepGood var ver ec s (statics arts)) (j : Nat) (a : Artifact)
    (ha : a ∈ arts) :
    (expectedEntry var ver ec s (statics arts) j a).isSome = (s.spec.issuer || applicable s.spec a) := by
  cases hiss : s.spec.issuer with
  | false =>
    rw [expectedEntry_generic _ _ _ _ _ _ _ hiss]
    cases applicable s.spec a <;> simp
  | true =>
    obtain ⟨keys', r', hin, hok⟩ := hg hiss
    have hin' := hin
    rw [issuerKeys_statics] at hin'
    obtain ⟨k, key0, key', _, hk', _, _, _, hfind⟩ := issuer_key_exists hin' a ha
    obtain ⟨en, hen⟩ := hok key' (List.mem_of_getElem? hk')
    simp [expectedEntry, hiss, hin, hfind, hen]

/-! ### CheckIssuerKey: the verdict copied to a signature -/

/-- do the EC checks flag the issuer key at position `k` of `pks_pb`? -/
def ecFlags (ec : List CheckSpec) (inner : Nat → Nat → Verdict) (k : Nat) (key : Artifact) :
    Prop :=
  ∃ j c, ec[j]? = some c ∧ applicable c key = true ∧ (inner j k).positive = true

theorem posFlag_innerOps (ec : List CheckSpec) (inner : Nat → Nat → Verdict) (k : Nat)
    (key : Artifact) : posFlag (innerOps ec inner k key) = true ↔ ecFlags ec inner k key := by
  unfold innerOps ecFlags
  rw [posFlag_flatMap, List.any_eq_true]
  constructor
  · rintro ⟨⟨c, j⟩, hmem, hf⟩
    rw [posFlag_genOps, Bool.and_eq_true] at hf
    have := List.mem_zipIdx hmem
    simp only [Nat.zero_le, Nat.zero_add, Nat.sub_zero, true_and] at this
    exact ⟨j, c, by rw [List.getElem?_eq_getElem this.1]; exact congrArg some this.2.symm, hf.1, hf.2⟩
  · rintro ⟨j, c, hc, h1, h2⟩
    refine ⟨(c, j), ?_, ?_⟩
    · obtain ⟨hlt, heq⟩ := List.getElem?_eq_some_iff.1 hc
      rw [List.mem_iff_getElem?]
      exact ⟨j, by simp [List.getElem?_zipIdx, hc]⟩
    · rw [posFlag_genOps, Bool.and_eq_true]; exact ⟨h1, h2⟩

/-- entries the inner CheckAllEC leaves on the (fresh) issuer key at position `k`. -/
def innerEntries (ec : List CheckSpec) (inner : Nat → Nat → Verdict) (k : Nat) (key : Artifact) :
    List Entry :=
  ec.zipIdx.filterMap (fun (s : CheckSpec × Nat) =>
    if applicable s.1 key then some (entryFor s.1 (inner s.2 k)) else none)

theorem entriesOf_innerOps (ec : List CheckSpec) (inner : Nat → Nat → Verdict) (k : Nat)
    (key : Artifact) : entriesOf (innerOps ec inner k key) = innerEntries ec inner k key := by
  unfold innerOps innerEntries
  rw [entriesOf_flatMap, ← flatMap_toList_eq_filterMap]
  congr 1
  funext s
  rw [entriesOf_genOps]
  split <;> rfl

theorem names_innerEntries (ec : List CheckSpec) (inner : Nat → Nat → Verdict) (k : Nat)
    (key : Artifact) :
    ((innerEntries ec inner k key).map (·.name)).Sublist (ec.map (·.name)) := by
  unfold innerEntries
  suffices h : ∀ (i : Nat) (l : List CheckSpec),
      (((l.zipIdx i).filterMap (fun (s : CheckSpec × Nat) =>
        if applicable s.1 key then some (entryFor s.1 (inner s.2 k)) else none)).map (·.name)).Sublist
        (l.map (·.name)) from h 0 ec
  intro i l
  induction l generalizing i with
  | nil => exact List.Sublist.slnil
  | cons c cs ih =>
    simp only [List.zipIdx_cons, List.filterMap_cons, List.map_cons]
    split
    · rename_i hnone
      exact List.Sublist.cons _ (ih (i + 1))
    · rename_i e hsome
      split at hsome
      · cases hsome
        exact List.Sublist.cons₂ _ (ih (i + 1))
      · cases hsome

/-- state of a checked issuer key: fresh ECKey + the inner EC checks. -/
theorem innerKey_state {ver : String} {ec : List CheckSpec} {inner : Nat → Nat → Verdict}
    {k : Nat} {key0 key' : Artifact} (hact : ActsBy ver (innerOps ec inner) k key0 key')
    (hfresh : key0.info = TestInfo.empty) :
    (key'.info.weak = true ↔ ecFlags ec inner k key0) ∧
    ((ec.map (·.name)).Nodup → key'.info.results = innerEntries ec inner k key0) ∧
    Consistent key'.info := by
  have hw := actsBy_weak hact
  rw [hfresh] at hw
  refine ⟨?_, ?_, ?_⟩
  · rw [hw, ← posFlag_innerOps]; simp [TestInfo.empty]
  · intro hnd
    have ho := hact.2
    rw [hfresh] at ho
    have := applyOps_results_fresh ho (by
      simp only [TestInfo.empty, List.map_nil, List.nil_append]
      rw [entriesOf_innerOps]
      exact (names_innerEntries ec inner k key0).nodup hnd)
    simpa [TestInfo.empty, entriesOf_innerOps] using this
  · have := (actsBy_later hact).consistent
    rw [hfresh] at this
    exact this consistent_empty

/-- `test_result.severity = GetHighestSeverity(...)` never assigns `None`: a weak checked key
has a positive entry. -/
theorem issuerEntry_ok_of_consistent (c : CheckSpec) (key : Artifact) (hc : Consistent key.info) :
    ∃ en, issuerEntry c key = .ok en := by
  unfold issuerEntry
  split
  · rename_i hw
    obtain ⟨e, he, hr⟩ := hc.1 hw
    cases hs : getHighestSeverity key.info with
    | none =>
      rw [getHighestSeverity_none] at hs
      rw [hs e he] at hr; cases hr
    | some s => exact ⟨_, rfl⟩
  · exact ⟨_, rfl⟩

/-! ### CheckIssuerKey called directly -/

theorem issuerOps_eq (var : Variant) (c : CheckSpec) (keys : List Artifact) (a : Artifact)
    (hnd : (keys.map (keyId var)).Nodup) :
    issuerOps var c keys a =
      match keys.find? (fun key => keyId var a = keyId var key) with
      | some key =>
        match issuerEntry c key with
        | .ok en => [Op.setTestResult en]
        | .error _ => []
      | none => [] := by
  induction keys with
  | nil => rfl
  | cons key keys ih =>
    simp only [List.map_cons, List.nodup_cons] at hnd
    rw [List.find?_cons]
    by_cases hk : keyId var a = keyId var key
    · simp only [hk, decide_true, issuerOps, if_true]
      have : issuerOps var c keys a = [] := by
        apply issuerOps_nil_of_no_match
        intro k hkm heq
        exact hnd.1 (List.mem_map.2 ⟨k, hkm, by rw [← heq, hk]⟩)
      rw [this, List.append_nil]
      cases issuerEntry c key <;> rfl
    · simp only [hk, decide_false, issuerOps, if_false, List.nil_append]
      exact ih hnd.2

theorem issuerEntry_spec {c : CheckSpec} {key : Artifact} {en : Entry}
    (h : issuerEntry c key = .ok en) :
    en.name = c.name ∧ en.result = key.info.weak ∧
    (key.info.weak = false → en.severity = c.severity) ∧
    (key.info.weak = true → getHighestSeverity key.info = some en.severity) := by
  unfold issuerEntry at h
  split at h
  · rename_i hw
    split at h
    · rename_i sv hs
      cases h
      exact ⟨rfl, hw.symm, fun h' => (by rw [hw] at h'; cases h'), fun _ => hs⟩
    · cases h
  · rename_i hw
    cases h
    have hw' : key.info.weak = false := by simpa using hw
    exact ⟨rfl, hw'.symm, fun _ => rfl, fun h' => (by rw [hw'] at h'; cases h')⟩

/-- what one CheckIssuerKey call does to the signature at position `n`: exactly one
SetTestResult, with the test_result built from the checked ECKey whose dictionary key equals the
signature's. -/
theorem checkIssuerKey_entry {var : Variant} {ver : String} {ec : List CheckSpec} {c : CheckSpec}
    {inner : Nat → Nat → Verdict} {arts arts' : List Artifact} {w : Bool}
    (h : checkIssuerKey var ver ec c inner arts = .ok (arts', w))
    (n : Nat) (a a' : Artifact) (ha : arts[n]? = some a) (ha' : arts'[n]? = some a') :
    ∃ k key0 key' en, (issuerKeys var arts)[k]? = some key0 ∧ keyId var key0 = keyId var a ∧
      (∃ b ∈ arts, key0 = freshKey b) ∧ ActsBy ver (innerOps ec inner) k key0 key' ∧
      issuerEntry c key' = .ok en ∧ a'.info = setTestResult ver a.info en ∧ SameKey a a' := by
  unfold checkIssuerKey at h
  split at h
  · cases h
  · rename_i keys' r' hin
    obtain ⟨p, _, hok⟩ := copyBackAll_spec (i := 0) h
    obtain ⟨k, key0, key', hk, hk', hid, hfrom, hact, hfind⟩ :=
      issuer_key_exists hin a (List.mem_of_getElem? ha)
    obtain ⟨en, hen⟩ := hok key' (List.mem_of_getElem? hk')
    have hact' := p.get n a a' ha ha'
    obtain ⟨hkey, ho⟩ := hact'
    have ho : applyOps ver a.info (issuerOps var c keys' a) = .ok a'.info := ho
    rw [issuerOps_eq var c keys' a (innerKeys_nodup hin), hfind] at ho
    simp only [hen, applyOps, applyOp, Except.ok.injEq] at ho
    exact ⟨k, key0, key', en, hk, hid, hfrom, hact, hen, ho.symm, hkey⟩

/-! ### small list facts -/

theorem eq_of_nodup_map {α β : Type} (f : α → β) {l : List α} (hnd : (l.map f).Nodup)
    {x y : α} (hx : x ∈ l) (hy : y ∈ l) (h : f x = f y) : x = y := by
  induction l with
  | nil => cases hx
  | cons z zs ih =>
    simp only [List.map_cons, List.nodup_cons] at hnd
    rcases List.mem_cons.1 hx with hxz | hx' <;> rcases List.mem_cons.1 hy with hyz | hy'
    · rw [hxz, hyz]
    · subst hxz; exact (hnd.1 (List.mem_map.2 ⟨y, hy', h.symm⟩)).elim
    · subst hyz; exact (hnd.1 (List.mem_map.2 ⟨x, hx', h⟩)).elim
    · exact ih hnd.2 hx' hy'

theorem find_of_mem_nodup {l : List Entry} (hnd : (l.map (·.name)).Nodup) {e : Entry}
    (he : e ∈ l) : l.find? (fun x => x.name = e.name) = some e := by
  induction l with
  | nil => cases he
  | cons z zs ih =>
    simp only [List.map_cons, List.nodup_cons] at hnd
    rw [List.find?_cons]
    rcases List.mem_cons.1 he with rfl | he
    · simp
    · have : ¬ z.name = e.name := fun h => hnd.1 (List.mem_map.2 ⟨e, he, h.symm⟩)
      simp only [this, decide_false]
      exact ih hnd.2 he

theorem names_filterMap {σ : Type} (f : σ → Option Entry) (g : σ → String)
    (hf : ∀ s e, f s = some e → e.name = g s) (l : List σ) :
    (l.filterMap f).map (·.name) = (l.filter (fun s => (f s).isSome)).map g := by
  induction l with
  | nil => rfl
  | cons s ss ih =>
    simp only [List.filterMap_cons, List.filter_cons]
    cases h : f s with
    | none => simpa using ih
    | some e => simp [hf s e h, ih]

theorem mkSteps_names (specs : List CheckSpec) (O : Nat → Nat → Verdict)
    (I : Nat → Nat → Nat → Verdict) :
    (mkSteps specs O I).map (·.spec) = specs := by
  unfold mkSteps
  rw [List.map_map]
  suffices h : ∀ (i : Nat) (l : List CheckSpec),
      (l.zipIdx i).map ((fun (x : Step) => x.spec) ∘ fun (s : CheckSpec × Nat) =>
        (⟨s.1, O s.2, I s.2⟩ : Step)) = l from h 0 specs
  intro i l
  induction l generalizing i with
  | nil => rfl
  | cons c cs ih => simp only [List.zipIdx_cons, List.map_cons, Function.comp, ih]

end Paranoid
