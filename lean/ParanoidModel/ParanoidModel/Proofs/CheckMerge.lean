/-
Proofs/CheckMerge.lean — the EXACT result list of a `TestInfo` after any history of util calls
on ANY initial `TestInfo` (entries of an earlier run, foreign names, duplicate names, any
order), and its consequence for `_CheckArtifacts` on pre-annotated artefacts.  Core Lean only.

A result list is determined by (1) the list of its names and (2) for every name the sub-list of
the entries carrying it (`namedAs`).  Both are computed here for `SetTestResult` and for a whole
history whose SetTestResult calls carry pairwise different names (one per check).
-/
import ParanoidModel.Proofs.CheckAll
namespace Paranoid

/-- the entries carrying the name `n`, in order. -/
def namedAs (n : String) (l : List Entry) : List Entry := l.filter (fun x => x.name = n)

/-- what SetTestResult(e) does to the entries named `e.name`: the FIRST one becomes
`(name, old.result or e.result, max old.severity e.severity)`, later duplicates are untouched;
without any, `e` is the only one. -/
def mergeInto (l : List Entry) (e : Entry) : List Entry :=
  match l with
  | [] => [e]
  | x :: rest => mergeEntry (some x) e :: rest

/-- `SetTestResult` on the result list alone. -/
def setRes (l : List Entry) (e : Entry) : List Entry :=
  match l.find? (fun x => x.name = e.name) with
  | some _ => updateFirst e l
  | none => l ++ [e]

theorem setTestResult_results (ver : String) (ti : TestInfo) (e : Entry) :
    (setTestResult ver ti e).results = setRes ti.results e := rfl

/-- all SetTestResult calls of a history, on the result list. -/
def resAll (l : List Entry) (es : List Entry) : List Entry := es.foldl setRes l

theorem head_namedAs (n : String) (l : List Entry) :
    (namedAs n l).head? = l.find? (fun x => x.name = n) := by
  unfold namedAs
  exact List.head?_filter

theorem namedAs_eq_nil_iff (n : String) (l : List Entry) :
    namedAs n l = [] ↔ n ∉ l.map (·.name) := by
  unfold namedAs
  rw [List.filter_eq_nil_iff]
  simp only [decide_eq_true_eq, List.mem_map, not_exists, not_and]

theorem namedAs_updateFirst (e : Entry) (l : List Entry) (n : String) :
    namedAs n (updateFirst e l) =
      if n = e.name then
        (match namedAs n l with
         | [] => []
         | x :: rest => mergeEntry (some x) e :: rest)
      else namedAs n l := by
  induction l with
  | nil => simp [updateFirst, namedAs]
  | cons x xs ih =>
    unfold updateFirst
    by_cases hx : x.name = e.name
    · simp only [hx, if_true]
      by_cases hn : n = e.name
      · subst hn
        simp [namedAs, hx, mergeEntry]
      · have h1 : ¬ e.name = n := fun h => hn h.symm
        simp [namedAs, hx, hn, h1]
    · simp only [hx, if_false]
      have hc : namedAs n (x :: updateFirst e xs) =
          (if x.name = n then [x] else []) ++ namedAs n (updateFirst e xs) := by
        unfold namedAs
        by_cases hxn : x.name = n <;> simp [hxn]
      have hc' : namedAs n (x :: xs) = (if x.name = n then [x] else []) ++ namedAs n xs := by
        unfold namedAs
        by_cases hxn : x.name = n <;> simp [hxn]
      rw [hc, hc', ih]
      by_cases hn : n = e.name
      · have hxn : ¬ x.name = n := fun h => hx (h.trans hn)
        simp [hn]
        rw [← hn]
        simp [hxn]
      · simp [hn]

theorem namedAs_setRes (l : List Entry) (e : Entry) (n : String) :
    namedAs n (setRes l e) = if n = e.name then mergeInto (namedAs n l) e else namedAs n l := by
  unfold setRes
  split
  · rename_i x hx
    rw [namedAs_updateFirst]
    by_cases hn : n = e.name
    · subst hn
      simp only [if_true]
      have hh := head_namedAs e.name l
      rw [hx] at hh
      cases hl : namedAs e.name l with
      | nil => rw [hl] at hh; cases hh
      | cons y ys => rfl
    · simp [hn]
  · rename_i hx
    have hnil : namedAs e.name l = [] := by
      have hh := head_namedAs e.name l
      rw [hx] at hh
      exact List.head?_eq_none_iff.1 hh
    by_cases hn : n = e.name
    · subst hn
      simp only [if_true]
      unfold namedAs at hnil ⊢
      rw [List.filter_append, hnil]
      simp [mergeInto]
    · have h1 : ¬ e.name = n := fun h => hn h.symm
      simp only [hn, if_false]
      unfold namedAs
      rw [List.filter_append]
      simp [h1]

theorem find_none_of_not_mem (n : String) (es : List Entry) (h : n ∉ es.map (·.name)) :
    es.find? (fun x => x.name = n) = none := by
  rw [List.find?_eq_none]
  intro x hx
  simp only [decide_eq_true_eq]
  intro hxn
  exact h (List.mem_map.2 ⟨x, hx, hxn⟩)

/-- per name: after the SetTestResult calls `es` (pairwise different names) the entries named
`n` are the old ones with `e` merged into the first, where `e` is THE call named `n`; untouched
when no call carries that name. -/
theorem namedAs_resAll (l : List Entry) (es : List Entry) (hnd : (es.map (·.name)).Nodup)
    (n : String) :
    namedAs n (resAll l es) =
      match es.find? (fun x => x.name = n) with
      | some e => mergeInto (namedAs n l) e
      | none => namedAs n l := by
  induction es generalizing l with
  | nil => rfl
  | cons e es ih =>
    simp only [List.map_cons, List.nodup_cons] at hnd
    show namedAs n (resAll (setRes l e) es) = _
    rw [ih (setRes l e) hnd.2, namedAs_setRes, List.find?_cons]
    by_cases hn : n = e.name
    · subst hn
      rw [find_none_of_not_mem _ _ hnd.1]
      simp
    · have h1 : ¬ e.name = n := fun h => hn h.symm
      simp [hn, h1]

theorem names_setRes (l : List Entry) (e : Entry) :
    (setRes l e).map (·.name) =
      if e.name ∈ l.map (·.name) then l.map (·.name) else l.map (·.name) ++ [e.name] := by
  unfold setRes
  split
  · rename_i x hx
    rw [updateFirst_names]
    have : e.name ∈ l.map (·.name) := by
      have := List.find?_some hx
      have hm := List.mem_of_find?_eq_some hx
      simp only [decide_eq_true_eq] at this
      exact List.mem_map.2 ⟨x, hm, this⟩
    rw [if_pos this]
  · rename_i hx
    have : e.name ∉ l.map (·.name) := by
      rw [List.find?_eq_none] at hx
      intro hm
      obtain ⟨x, hx1, hx2⟩ := List.mem_map.1 hm
      have := hx x hx1
      simp [hx2] at this
    rw [if_neg this]
    simp

/-- names: the old names in their order (entries are never reordered, removed or duplicated),
followed by the names of the calls that had no entry yet, in call order. -/
theorem names_resAll (l : List Entry) (es : List Entry) (hnd : (es.map (·.name)).Nodup) :
    (resAll l es).map (·.name) =
      l.map (·.name) ++ (es.map (·.name)).filter (fun m => decide (m ∉ l.map (·.name))) := by
  induction es generalizing l with
  | nil => simp [resAll]
  | cons e es ih =>
    simp only [List.map_cons, List.nodup_cons] at hnd
    show (resAll (setRes l e) es).map (·.name) = _
    rw [ih (setRes l e) hnd.2, names_setRes]
    by_cases hm : e.name ∈ l.map (·.name)
    · simp only [hm, if_true, List.map_cons, List.filter_cons, not_true_eq_false, decide_false,
        Bool.false_eq_true, if_false]
    · simp only [hm, if_false, List.map_cons, List.filter_cons, not_false_eq_true, decide_true,
        if_true, List.append_assoc, List.singleton_append]
      congr 2
      apply List.filter_congr
      intro m hmem
      have hne : m ≠ e.name := fun h => hnd.1 (h ▸ hmem)
      simp [hne]

/-- attach calls never touch the result list: a history acts on it by its SetTestResult calls. -/
theorem applyOps_results {ver : String} {ti t : TestInfo} {ops : List Op}
    (h : applyOps ver ti ops = .ok t) : t.results = resAll ti.results (entriesOf ops) := by
  induction ops generalizing ti with
  | nil => cases h; rfl
  | cons op ops ih =>
    unfold applyOps at h
    split at h
    · rename_i t' h'
      cases op with
      | setTestResult e =>
        cases h'
        rw [ih h]
        rfl
      | attachInfo k v =>
        cases h'
        rw [ih h]
        rfl
      | attachFactors k fs =>
        obtain ⟨old, _, rfl⟩ := attachFactors_ok h'
        rw [ih h]
        rfl
    · cases h

theorem applyOps_version {ver : String} {ti t : TestInfo} {ops : List Op}
    (h : applyOps ver ti ops = .ok t) :
    t.version = if ti.version = "" ∧ (entriesOf ops).isEmpty = false then ver else ti.version := by
  have := runOps_version ver ti ops
  rw [applyOps_eq_runOps h, any_isSet_eq] at this
  rw [this]
  cases (entriesOf ops).isEmpty <;> simp

/-! ### `_CheckArtifacts` on a pre-annotated artefact -/

/-- the `test_result`s the steps pass to SetTestResult for the artefact `a` at position `j`
(one per step that applies to it), in the order the checks run. -/
def newEntries (var : Variant) (ver : String) (ec : List CheckSpec) (steps : List Step)
    (st : List Artifact) (j : Nat) (a : Artifact) : List Entry :=
  steps.filterMap (fun s => expectedEntry var ver ec s st j a)

theorem newEntries_nodup (var : Variant) (ver : String) (ec : List CheckSpec) (steps : List Step)
    (st : List Artifact) (j : Nat) (a : Artifact) (hnd : (steps.map (·.spec.name)).Nodup) :
    ((newEntries var ver ec steps st j a).map (·.name)).Nodup :=
  (names_filterMap_expected var ver ec steps st j a).nodup hnd

/-- the new entry named after the step `s` is the expected entry of `s`. -/
theorem find_newEntries (var : Variant) (ver : String) (ec : List CheckSpec) (steps : List Step)
    (st : List Artifact) (j : Nat) (a : Artifact) (hnd : (steps.map (·.spec.name)).Nodup)
    (s : Step) (hs : s ∈ steps) :
    (newEntries var ver ec steps st j a).find? (fun x => x.name = s.spec.name) =
      expectedEntry var ver ec s st j a := by
  have hnames := newEntries_nodup var ver ec steps st j a hnd
  cases he : expectedEntry var ver ec s st j a with
  | some e =>
    have hmem : e ∈ newEntries var ver ec steps st j a :=
      List.mem_filterMap.2 ⟨s, hs, he⟩
    have := find_of_mem_nodup hnames hmem
    rw [expectedEntry_name he] at this
    exact this
  | none =>
    apply find_none_of_not_mem
    intro hmem
    obtain ⟨e, he', hname⟩ := List.mem_map.1 hmem
    obtain ⟨s', hs', hes'⟩ := List.mem_filterMap.1 he'
    have : s' = s := eq_of_nodup_map (fun (x : Step) => x.spec.name) hnd hs' hs
      (by rw [← expectedEntry_name hes', hname])
    subst this
    rw [he] at hes'; cases hes'

/-- no step is named `n`: no new entry is named `n`. -/
theorem find_newEntries_foreign (var : Variant) (ver : String) (ec : List CheckSpec)
    (steps : List Step) (st : List Artifact) (j : Nat) (a : Artifact) (n : String)
    (hn : n ∉ steps.map (·.spec.name)) :
    (newEntries var ver ec steps st j a).find? (fun x => x.name = n) = none := by
  apply find_none_of_not_mem
  intro hmem
  obtain ⟨e, he', hname⟩ := List.mem_map.1 hmem
  obtain ⟨s', hs', hes'⟩ := List.mem_filterMap.1 he'
  exact hn (List.mem_map.2 ⟨s', hs', by rw [← expectedEntry_name hes', hname]⟩)

/-- ANY artefact (pre-annotated or not) after `_CheckArtifacts`: result list, weak flag and
version in terms of what it carried before and of the new entries. -/
theorem actsBy_merge {var : Variant} {ver : String} {ec : List CheckSpec} {steps : List Step}
    {st : List Artifact} {j : Nat} {a a' : Artifact}
    (h : ActsBy ver (allOps var ver ec steps st) j a a') :
    a'.info.results = resAll a.info.results (newEntries var ver ec steps st j a) ∧
    a'.info.weak = (a.info.weak || (newEntries var ver ec steps st j a).any (·.result)) ∧
    a'.info.version =
      (if a.info.version = "" ∧ (newEntries var ver ec steps st j a).isEmpty = false then ver
       else a.info.version) := by
  obtain ⟨_, ho⟩ := h
  refine ⟨?_, ?_, ?_⟩
  · rw [applyOps_results ho, entriesOf_allOps]; rfl
  · rw [applyOps_weak ho, entriesOf_allOps]; rfl
  · rw [applyOps_version ho, entriesOf_allOps]; rfl

theorem nameCount_eq_length_namedAs (n : String) (l : List Entry) :
    nameCount n l = (namedAs n l).length := by
  unfold nameCount namedAs
  rw [List.countP_eq_length_filter]

theorem mem_mkSteps {specs : List CheckSpec} {O : Nat → Nat → Verdict}
    {I : Nat → Nat → Nat → Verdict} {s : Step} :
    s ∈ mkSteps specs O I ↔ ∃ j c, specs[j]? = some c ∧ s = ⟨c, O j, I j⟩ := by
  unfold mkSteps
  rw [List.mem_map]
  constructor
  · rintro ⟨⟨c, j⟩, hmem, rfl⟩
    have := List.mem_zipIdx hmem
    simp only [Nat.zero_le, Nat.zero_add, Nat.sub_zero, true_and] at this
    exact ⟨j, c, by rw [List.getElem?_eq_getElem this.1]; exact congrArg some this.2.symm, rfl⟩
  · rintro ⟨j, c, hc, rfl⟩
    refine ⟨(c, j), ?_, rfl⟩
    rw [List.mem_iff_getElem?]
    exact ⟨j, by simp [List.getElem?_zipIdx, hc]⟩

theorem mkSteps_names_nodup (specs : List CheckSpec) (O : Nat → Nat → Verdict)
    (I : Nat → Nat → Nat → Verdict) (h : (specs.map (·.name)).Nodup) :
    ((mkSteps specs O I).map (·.spec.name)).Nodup := by
  have : (mkSteps specs O I).map (·.spec.name) = specs.map (·.name) := by
    conv => rhs; rw [← mkSteps_names specs O I]
    rw [List.map_map]; rfl
  rw [this]; exact h

end Paranoid
