/-
Proofs/Checks.lean — lemmas about Model/Checks.lean: every `Check` call, `_CheckArtifacts`
and the entry points act on each artefact as ONE history of util calls (`stepOps`), and return
`True` exactly when one of those calls carried a positive result.  Core Lean only.
-/
import ParanoidModel.Model.Checks
import ParanoidModel.Proofs.Bookkeeping
namespace Paranoid

/-! ### position-wise relations between a batch before and after -/

def Pointwise (R : Nat → Artifact → Artifact → Prop) : Nat → List Artifact → List Artifact → Prop
  | _, [], [] => True
  | i, a :: as, b :: bs => R i a b ∧ Pointwise R (i + 1) as bs
  | _, [], _ :: _ => False
  | _, _ :: _, [] => False

theorem Pointwise.imp {R S : Nat → Artifact → Artifact → Prop}
    (h : ∀ i a b, R i a b → S i a b) {i : Nat} {l l' : List Artifact}
    (hp : Pointwise R i l l') : Pointwise S i l l' := by
  induction l generalizing i l' with
  | nil => cases l' with
    | nil => trivial
    | cons b bs => exact hp.elim
  | cons a as ih => cases l' with
    | nil => exact hp.elim
    | cons b bs => exact ⟨h _ _ _ hp.1, ih hp.2⟩

theorem Pointwise.comp {R S : Nat → Artifact → Artifact → Prop} {i : Nat}
    {l1 l2 l3 : List Artifact} (h1 : Pointwise R i l1 l2) (h2 : Pointwise S i l2 l3) :
    Pointwise (fun j a c => ∃ b, R j a b ∧ S j b c) i l1 l3 := by
  induction l1 generalizing i l2 l3 with
  | nil =>
    cases l2 with
    | nil => cases l3 with
      | nil => trivial
      | cons c cs => exact h2.elim
    | cons b bs => exact h1.elim
  | cons a as ih =>
    cases l2 with
    | nil => exact h1.elim
    | cons b bs =>
      cases l3 with
      | nil => exact h2.elim
      | cons c cs => exact ⟨⟨b, h1.1, h2.1⟩, ih h1.2 h2.2⟩

theorem Pointwise.refl {R : Nat → Artifact → Artifact → Prop} (h : ∀ i a, R i a a) (i : Nat)
    (l : List Artifact) : Pointwise R i l l := by
  induction l generalizing i with
  | nil => trivial
  | cons a as ih => exact ⟨h i a, ih (i + 1)⟩

theorem Pointwise.length {R : Nat → Artifact → Artifact → Prop} {i : Nat} {l l' : List Artifact}
    (h : Pointwise R i l l') : l'.length = l.length := by
  induction l generalizing i l' with
  | nil => cases l' with
    | nil => rfl
    | cons b bs => exact h.elim
  | cons a as ih => cases l' with
    | nil => exact h.elim
    | cons b bs => simp only [List.length_cons, ih h.2]

/-- every artefact of the result comes from the artefact at the same position. -/
theorem Pointwise.of_mem_right {R : Nat → Artifact → Artifact → Prop} {i : Nat}
    {l l' : List Artifact} (h : Pointwise R i l l') (b : Artifact) (hb : b ∈ l') :
    ∃ j a, a ∈ l ∧ R j a b := by
  induction l generalizing i l' with
  | nil => cases l' with
    | nil => cases hb
    | cons b bs => exact h.elim
  | cons a as ih => cases l' with
    | nil => exact h.elim
    | cons c cs =>
      rcases List.mem_cons.1 hb with rfl | hb
      · exact ⟨i, a, List.mem_cons_self, h.1⟩
      · obtain ⟨j, a', ha', hr⟩ := ih h.2 hb
        exact ⟨j, a', List.mem_cons_of_mem _ ha', hr⟩

theorem Pointwise.of_mem_left {R : Nat → Artifact → Artifact → Prop} {i : Nat}
    {l l' : List Artifact} (h : Pointwise R i l l') (a : Artifact) (ha : a ∈ l) :
    ∃ j b, b ∈ l' ∧ R j a b := by
  induction l generalizing i l' with
  | nil => cases ha
  | cons x xs ih => cases l' with
    | nil => exact h.elim
    | cons c cs =>
      rcases List.mem_cons.1 ha with rfl | ha
      · exact ⟨i, c, List.mem_cons_self, h.1⟩
      · obtain ⟨j, b, hb, hr⟩ := ih h.2 ha
        exact ⟨j, b, List.mem_cons_of_mem _ hb, hr⟩

/-- the element at position `n` of both lists. -/
theorem Pointwise.get {R : Nat → Artifact → Artifact → Prop} {i : Nat}
    {l l' : List Artifact} (h : Pointwise R i l l') (n : Nat) (a b : Artifact)
    (ha : l[n]? = some a) (hb : l'[n]? = some b) : R (i + n) a b := by
  induction l generalizing i l' n with
  | nil => simp at ha
  | cons x xs ih => cases l' with
    | nil => exact h.elim
    | cons c cs =>
      cases n with
      | zero =>
        simp only [List.getElem?_cons_zero, Option.some.injEq] at ha hb
        subst ha; subst hb; exact h.1
      | succ m =>
        simp only [List.getElem?_cons_succ] at ha hb
        have := ih h.2 m ha hb
        rwa [Nat.add_assoc, Nat.add_comm 1 m] at this

/-- curve id and issuer / public point are never touched. -/
def SameKey (a b : Artifact) : Prop := b.curve = a.curve ∧ b.point = a.point

theorem SameKey.refl (a : Artifact) : SameKey a a := ⟨rfl, rfl⟩

theorem SameKey.trans {a b c : Artifact} (h1 : SameKey a b) (h2 : SameKey b c) : SameKey a c :=
  ⟨h2.1.trans h1.1, h2.2.trans h1.2⟩

theorem SameKey.freshKey {a b : Artifact} (h : SameKey a b) : freshKey b = freshKey a := by
  simp [Paranoid.freshKey, h.1, h.2]

theorem SameKey.keyId {a b : Artifact} (h : SameKey a b) (var : Variant) :
    keyId var b = keyId var a := by
  cases var <;> simp [Paranoid.keyId, h.1, h.2]

theorem SameKey.applicable {a b : Artifact} (h : SameKey a b) (c : CheckSpec) :
    applicable c b = applicable c a := by
  simp [Paranoid.applicable, known, h.1]

/-- the part of a batch no check ever changes. -/
def statics (l : List Artifact) : List Artifact := l.map freshKey

theorem statics_eq_of_pointwise {R : Nat → Artifact → Artifact → Prop}
    (hR : ∀ i a b, R i a b → SameKey a b) {i : Nat} {l l' : List Artifact}
    (h : Pointwise R i l l') : statics l' = statics l := by
  induction l generalizing i l' with
  | nil => cases l' with
    | nil => rfl
    | cons b bs => exact h.elim
  | cons a as ih => cases l' with
    | nil => exact h.elim
    | cons b bs =>
      simp only [statics, List.map_cons] at *
      rw [(hR _ _ _ h.1).freshKey, ih h.2]

/-- OR over the positions of a batch. -/
def anyIdx (f : Nat → Artifact → Bool) : Nat → List Artifact → Bool
  | _, [] => false
  | i, a :: as => f i a || anyIdx f (i + 1) as

theorem anyIdx_true {f : Nat → Artifact → Bool} {i : Nat} {l : List Artifact} :
    anyIdx f i l = true ↔ ∃ n a, l[n]? = some a ∧ f (i + n) a = true := by
  induction l generalizing i with
  | nil => simp [anyIdx]
  | cons x xs ih =>
    simp only [anyIdx, Bool.or_eq_true, ih]
    constructor
    · rintro (h | ⟨n, a, ha, hf⟩)
      · exact ⟨0, x, by simp, by simpa using h⟩
      · exact ⟨n + 1, a, by simpa using ha, by
          rwa [Nat.add_assoc, Nat.add_comm 1 n] at hf⟩
    · rintro ⟨n, a, ha, hf⟩
      cases n with
      | zero =>
        simp only [List.getElem?_cons_zero, Option.some.injEq] at ha
        subst ha; exact Or.inl (by simpa using hf)
      | succ m =>
        simp only [List.getElem?_cons_succ] at ha
        exact Or.inr ⟨m, a, ha, by rwa [Nat.add_assoc, Nat.add_comm 1 m]⟩

theorem anyIdx_congr_statics {f : Nat → Artifact → Bool}
    (hf : ∀ i a b, SameKey a b → f i b = f i a) {R : Nat → Artifact → Artifact → Prop}
    (hR : ∀ i a b, R i a b → SameKey a b) {i : Nat} {l l' : List Artifact}
    (h : Pointwise R i l l') : anyIdx f i l' = anyIdx f i l := by
  induction l generalizing i l' with
  | nil => cases l' with
    | nil => rfl
    | cons b bs => exact h.elim
  | cons a as ih => cases l' with
    | nil => exact h.elim
    | cons b bs =>
      simp only [anyIdx]
      rw [hf _ _ _ (hR _ _ _ h.1), ih h.2]

theorem any_or_any {σ : Type} (p q : σ → Bool) (ss : List σ) :
    (ss.any p || ss.any q) = ss.any (fun s => p s || q s) := by
  induction ss with
  | nil => rfl
  | cons s ss ih =>
    simp only [List.any_cons, ← ih]
    cases p s <;> cases q s <;> cases ss.any p <;> cases ss.any q <;> rfl

theorem anyIdx_any {σ : Type} (g : σ → Nat → Artifact → Bool) (ss : List σ) (i : Nat)
    (l : List Artifact) :
    anyIdx (fun j a => ss.any (fun s => g s j a)) i l = ss.any (fun s => anyIdx (g s) i l) := by
  induction l generalizing i with
  | nil => simp [anyIdx]
  | cons a as ih =>
    simp only [anyIdx, ih]
    exact any_or_any _ _ ss

/-- some artefact is weak afterwards iff one was weak before or a positive result was set. -/
theorem exists_weak_iff {F : Nat → Artifact → Bool} {i : Nat} {l l' : List Artifact}
    (h : Pointwise (fun j a a' => a'.info.weak = (a.info.weak || F j a)) i l l') :
    (∃ a' ∈ l', a'.info.weak = true) ↔ (∃ a ∈ l, a.info.weak = true) ∨ anyIdx F i l = true := by
  induction l generalizing i l' with
  | nil => cases l' with
    | nil => simp [anyIdx]
    | cons b bs => exact h.elim
  | cons a as ih => cases l' with
    | nil => exact h.elim
    | cons b bs =>
      simp only [List.mem_cons, exists_eq_or_imp, anyIdx, Bool.or_eq_true, ih h.2, h.1]
      constructor
      · rintro ((h1 | h1) | h1 | h1)
        · exact Or.inl (Or.inl h1)
        · exact Or.inr (Or.inl h1)
        · exact Or.inl (Or.inr h1)
        · exact Or.inr (Or.inr h1)
      · rintro ((h1 | h1) | h1 | h1)
        · exact Or.inl (Or.inl h1)
        · exact Or.inr (Or.inl h1)
        · exact Or.inl (Or.inr h1)
        · exact Or.inr (Or.inr h1)

/-- did the history set a positive result? -/
def posFlag (ops : List Op) : Bool := (entriesOf ops).any (·.result)

theorem posFlag_append (o1 o2 : List Op) : posFlag (o1 ++ o2) = (posFlag o1 || posFlag o2) := by
  simp [posFlag, entriesOf_append, List.any_append]

theorem posFlag_flatMap {σ : Type} (f : σ → List Op) (ss : List σ) :
    posFlag (ss.flatMap f) = ss.any (fun s => posFlag (f s)) := by
  induction ss with
  | nil => rfl
  | cons s ss ih => simp only [List.flatMap_cons, posFlag_append, ih, List.any_cons]

/-- one call acted on every artefact by the history `ops j a`. -/
def ActsBy (ver : String) (ops : Nat → Artifact → List Op) (j : Nat) (a a' : Artifact) : Prop :=
  SameKey a a' ∧ applyOps ver a.info (ops j a) = .ok a'.info

/-! ### every check but CheckIssuerKey -/

/-- util calls of a check on the artefact at position `j`. -/
def genOps (c : CheckSpec) (v : Nat → Verdict) (j : Nat) (a : Artifact) : List Op :=
  if applicable c a then verdictOps c (v j) else []

theorem entriesOf_attachOps (v : Verdict) : entriesOf (attachOps v) = [] := by
  unfold attachOps
  cases v.factors with
  | none => cases v.info with
    | none => rfl
    | some p => rfl
  | some p => cases v.info with
    | none => rfl
    | some q => rfl

theorem entriesOf_verdictOps (c : CheckSpec) (v : Verdict) :
    entriesOf (verdictOps c v) = [entryFor c v] := by
  unfold verdictOps
  rw [entriesOf_append]
  split
  · rw [entriesOf_attachOps]; rfl
  · rfl

theorem entriesOf_genOps (c : CheckSpec) (v : Nat → Verdict) (j : Nat) (a : Artifact) :
    entriesOf (genOps c v j a) = if applicable c a then [entryFor c (v j)] else [] := by
  unfold genOps
  split
  · exact entriesOf_verdictOps c _
  · rfl

theorem posFlag_genOps (c : CheckSpec) (v : Nat → Verdict) (j : Nat) (a : Artifact) :
    posFlag (genOps c v j a) = (applicable c a && (v j).positive) := by
  unfold posFlag
  rw [entriesOf_genOps]
  split
  · rename_i h; simp [h, entryFor]
  · rename_i h; simp [h]

theorem checkOne_spec {ver : String} {c : CheckSpec} {a a' : Artifact} {v : Nat → Verdict}
    {j : Nat} {w : Bool} (h : checkOne ver c a (v j) = .ok (a', w)) :
    ActsBy ver (genOps c v) j a a' ∧ w = posFlag (genOps c v j a) := by
  rw [posFlag_genOps]
  unfold checkOne at h
  unfold ActsBy genOps
  split at h
  · rename_i happ
    split at h
    · rename_i t ht
      cases h
      exact ⟨⟨⟨rfl, rfl⟩, by simpa [happ] using ht⟩, by simp [happ]⟩
    · cases h
  · rename_i happ
    cases h
    exact ⟨⟨SameKey.refl _, by simp [happ, applyOps]⟩, by simp [happ]⟩

theorem runCheckFrom_spec {ver : String} {c : CheckSpec} {v : Nat → Verdict} {i : Nat}
    {arts arts' : List Artifact} {w : Bool}
    (h : runCheckFrom ver c v i arts = .ok (arts', w)) :
    Pointwise (ActsBy ver (genOps c v)) i arts arts' ∧
      w = anyIdx (fun j a => posFlag (genOps c v j a)) i arts := by
  induction arts generalizing i arts' w with
  | nil => cases h; exact ⟨trivial, rfl⟩
  | cons a as ih =>
    unfold runCheckFrom at h
    split at h
    · cases h
    · rename_i a1 w1 h1
      split at h
      · cases h
      · rename_i as1 w2 h2
        cases h
        obtain ⟨p1, q1⟩ := checkOne_spec h1
        obtain ⟨p2, q2⟩ := ih h2
        exact ⟨⟨p1, p2⟩, by simp only [anyIdx]; rw [q1, q2]⟩

theorem genOps_sameKey (c : CheckSpec) (v : Nat → Verdict) (j : Nat) {a b : Artifact}
    (h : SameKey a b) : genOps c v j b = genOps c v j a := by
  simp [genOps, h.applicable]

/-! ### `_CheckArtifacts` as a fold of histories -/

theorem foldChecks_spec {σ : Type} (ver : String)
    (run : σ → List Artifact → Except PyErr (List Artifact × Bool))
    (ops : σ → List Artifact → Nat → Artifact → List Op)
    (good : σ → List Artifact → Prop)
    (hrun : ∀ s arts arts' w, run s arts = .ok (arts', w) →
      Pointwise (ActsBy ver (ops s (statics arts))) 0 arts arts' ∧
      w = anyIdx (fun j a => posFlag (ops s (statics arts) j a)) 0 arts ∧
      good s (statics arts))
    (hops : ∀ s st j a b, SameKey a b → ops s st j b = ops s st j a)
    (steps : List σ) (arts arts' : List Artifact) (r : Bool)
    (h : foldChecks run steps arts = .ok (arts', r)) :
    Pointwise (ActsBy ver (fun j a => steps.flatMap (fun s => ops s (statics arts) j a)))
      0 arts arts' ∧
    r = steps.any (fun s => anyIdx (fun j a => posFlag (ops s (statics arts) j a)) 0 arts) ∧
    ∀ s ∈ steps, good s (statics arts) := by
  induction steps generalizing arts arts' r with
  | nil =>
    cases h
    exact ⟨Pointwise.refl (fun i a => ⟨SameKey.refl a, rfl⟩) 0 arts, rfl, by simp⟩
  | cons s ss ih =>
    unfold foldChecks at h
    split at h
    · cases h
    · rename_i arts1 r1 h1
      split at h
      · cases h
      · rename_i arts2 r2 h2
        cases h
        obtain ⟨p1, q1, g1⟩ := hrun s arts arts1 r1 h1
        obtain ⟨p2, q2, g2⟩ := ih arts1 arts' r2 h2
        have hst : statics arts1 = statics arts :=
          statics_eq_of_pointwise (fun _ _ _ hh => hh.1) p1
        rw [hst] at p2 q2 g2
        refine ⟨?_, ?_, ?_⟩
        · refine Pointwise.imp ?_ (Pointwise.comp p1 p2)
          rintro j a c ⟨b, ⟨hk1, ho1⟩, ⟨hk2, ho2⟩⟩
          refine ⟨hk1.trans hk2, ?_⟩
          simp only [List.flatMap_cons]
          rw [applyOps_append, ho1]
          dsimp only
          have : (ss.flatMap fun s => ops s (statics arts) j b) =
              (ss.flatMap fun s => ops s (statics arts) j a) := by
            congr 1; funext s; exact hops s _ j a b hk1
          rw [← this]; exact ho2
        · simp only [List.any_cons]
          rw [q1, q2]
          congr 1
          congr 1
          funext s
          exact anyIdx_congr_statics
            (fun i a b hab => by rw [hops s _ i a b hab]) (fun _ _ _ hh => hh.1) p1
        · intro s' hs'
          rcases List.mem_cons.1 hs' with rfl | hs'
          · exact g1
          · exact g2 s' hs'

/-! ### CheckIssuerKey -/

/-- the SetTestResult calls of the copy-back loop that reach the signature `a`. -/
def issuerOps (var : Variant) (c : CheckSpec) : List Artifact → Artifact → List Op
  | [], _ => []
  | key :: keys, a =>
    (if keyId var a = keyId var key then
      match issuerEntry c key with
      | .ok en => [Op.setTestResult en]
      | .error _ => []
     else []) ++ issuerOps var c keys a

theorem issuerOps_sameKey (var : Variant) (c : CheckSpec) (keys : List Artifact)
    {a b : Artifact} (h : SameKey a b) : issuerOps var c keys b = issuerOps var c keys a := by
  induction keys with
  | nil => rfl
  | cons key keys ih => simp only [issuerOps, h.keyId, ih]

theorem copyBack_spec (var : Variant) (ver : String) (e : Entry) (key : Artifact) (i : Nat)
    (arts : List Artifact) :
    Pointwise (ActsBy ver (fun _ a =>
      if keyId var a = keyId var key then [Op.setTestResult e] else [])) i arts
      (copyBack var ver e key arts) := by
  induction arts generalizing i with
  | nil => trivial
  | cons a as ih =>
    refine ⟨?_, ih (i + 1)⟩
    unfold ActsBy
    by_cases hk : keyId var a = keyId var key
    · simp only [hk, if_true]
      exact ⟨⟨rfl, rfl⟩, rfl⟩
    · simp only [hk, if_false]
      exact ⟨SameKey.refl a, rfl⟩

theorem copyBackAll_spec {var : Variant} {ver : String} {c : CheckSpec} {keys : List Artifact}
    {i : Nat} {arts arts' : List Artifact} {w : Bool}
    (h : copyBackAll var ver c keys arts = .ok (arts', w)) :
    Pointwise (ActsBy ver (fun _ a => issuerOps var c keys a)) i arts arts' ∧
      w = keys.any (·.info.weak) ∧ ∀ key ∈ keys, ∃ en, issuerEntry c key = .ok en := by
  induction keys generalizing arts arts' w with
  | nil =>
    cases h
    exact ⟨Pointwise.refl (fun _ a => ⟨SameKey.refl a, rfl⟩) i arts, rfl, by simp⟩
  | cons key keys ih =>
    unfold copyBackAll at h
    split at h
    · cases h
    · rename_i en hen
      split at h
      · cases h
      · rename_i arts2 w2 h2
        cases h
        obtain ⟨p2, q2, e2⟩ := ih h2
        refine ⟨?_, by simp [q2], ?_⟩
        · refine Pointwise.imp ?_ (Pointwise.comp (copyBack_spec var ver en key i arts) p2)
          rintro j a d ⟨b, ⟨hk1, ho1⟩, ⟨hk2, ho2⟩⟩
          refine ⟨hk1.trans hk2, ?_⟩
          simp only [issuerOps, hen]
          rw [applyOps_append, ho1]
          dsimp only
          rw [← issuerOps_sameKey var c keys hk1]; exact ho2
        · intro k hk
          rcases List.mem_cons.1 hk with rfl | hk
          · exact ⟨en, hen⟩
          · exact e2 k hk

/-- util calls of one `Check` call (any check) on the artefact at position `j`; `st` is the
static part of the batch. -/
def stepOps (var : Variant) (ver : String) (ec : List CheckSpec) (s : Step) (st : List Artifact)
    (j : Nat) (a : Artifact) : List Op :=
  if s.spec.issuer then
    match innerCheckAllEC ver ec s.inner (issuerKeys var st) with
    | .ok (keys', _) => issuerOps var s.spec keys' a
    | .error _ => []
  else genOps s.spec s.verdict j a

theorem stepOps_sameKey (var : Variant) (ver : String) (ec : List CheckSpec) (s : Step)
    (st : List Artifact) (j : Nat) (a b : Artifact) (h : SameKey a b) :
    stepOps var ver ec s st j b = stepOps var ver ec s st j a := by
  unfold stepOps
  split
  · split
    · exact issuerOps_sameKey var _ _ h
    · rfl
  · exact genOps_sameKey _ _ _ h

/-! de-duplication of the issuer keys -/

theorem keyId_freshKey (var : Variant) (a : Artifact) : keyId var (freshKey a) = keyId var a := by
  cases var <;> rfl

theorem issuerKeysAux_statics (var : Variant) (acc l : List Artifact) :
    issuerKeysAux var acc (statics l) = issuerKeysAux var acc l := by
  induction l generalizing acc with
  | nil => rfl
  | cons a as ih =>
    simp only [statics, List.map_cons, issuerKeysAux, keyId_freshKey] at *
    have : freshKey (freshKey a) = freshKey a := rfl
    rw [this]
    split
    · exact ih acc
    · exact ih _

theorem issuerKeys_statics (var : Variant) (l : List Artifact) :
    issuerKeys var (statics l) = issuerKeys var l := issuerKeysAux_statics var [] l

/-- `pks_pb`: the accumulator is kept, every batch element is represented, every new key is the
fresh ECKey of a batch element, and key ids stay pairwise distinct. -/
theorem issuerKeysAux_spec (var : Variant) (acc l : List Artifact) :
    (∀ k ∈ acc, k ∈ issuerKeysAux var acc l) ∧
    (∀ a ∈ l, ∃ k ∈ issuerKeysAux var acc l, keyId var k = keyId var a) ∧
    (∀ k ∈ issuerKeysAux var acc l, k ∈ acc ∨ ∃ a ∈ l, k = freshKey a) ∧
    ((acc.map (keyId var)).Nodup → ((issuerKeysAux var acc l).map (keyId var)).Nodup) := by
  induction l generalizing acc with
  | nil => simp [issuerKeysAux]
  | cons a as ih =>
    unfold issuerKeysAux
    split
    · rename_i hany
      obtain ⟨i1, i2, i3, i4⟩ := ih acc
      refine ⟨i1, ?_, ?_, i4⟩
      · intro b hb
        rcases List.mem_cons.1 hb with rfl | hb
        · rw [List.any_eq_true] at hany
          obtain ⟨k, hk, hkid⟩ := hany
          exact ⟨k, i1 k hk, by simpa using hkid⟩
        · exact i2 b hb
      · intro k hk
        rcases i3 k hk with h | ⟨b, hb, rfl⟩
        · exact Or.inl h
        · exact Or.inr ⟨b, List.mem_cons_of_mem _ hb, rfl⟩
    · rename_i hany
      obtain ⟨i1, i2, i3, i4⟩ := ih (acc ++ [freshKey a])
      refine ⟨fun k hk => i1 k (List.mem_append_left _ hk), ?_, ?_, ?_⟩
      · intro b hb
        rcases List.mem_cons.1 hb with rfl | hb
        · exact ⟨freshKey b, i1 _ (List.mem_append_right _ (List.mem_singleton.2 rfl)),
            keyId_freshKey var b⟩
        · exact i2 b hb
      · intro k hk
        rcases i3 k hk with h | ⟨b, hb, rfl⟩
        · rcases List.mem_append.1 h with h | h
          · exact Or.inl h
          · exact Or.inr ⟨a, List.mem_cons_self, List.mem_singleton.1 h⟩
        · exact Or.inr ⟨b, List.mem_cons_of_mem _ hb, rfl⟩
      · intro hnd
        apply i4
        rw [List.map_append, List.nodup_append]
        refine ⟨hnd, by simp, ?_⟩
        intro x hx y hy hxy
        simp only [List.map_cons, List.map_nil, List.mem_singleton] at hy
        subst hy; subst hxy
        rw [List.mem_map] at hx
        obtain ⟨k, hk, hkid⟩ := hx
        apply hany
        rw [List.any_eq_true]
        exact ⟨k, hk, by simpa [keyId_freshKey] using hkid⟩

theorem issuerKeys_cover (var : Variant) (l : List Artifact) (a : Artifact) (ha : a ∈ l) :
    ∃ k ∈ issuerKeys var l, keyId var k = keyId var a :=
  (issuerKeysAux_spec var [] l).2.1 a ha

theorem issuerKeys_from (var : Variant) (l : List Artifact) (k : Artifact)
    (hk : k ∈ issuerKeys var l) : ∃ a ∈ l, k = freshKey a := by
  rcases (issuerKeysAux_spec var [] l).2.2.1 k hk with h | h
  · cases h
  · exact h

theorem issuerKeys_nodup (var : Variant) (l : List Artifact) :
    ((issuerKeys var l).map (keyId var)).Nodup :=
  (issuerKeysAux_spec var [] l).2.2.2 (by simp)

/-! the inner CheckAllEC -/

/-- util calls of the inner `CheckAllEC` on the issuer key at position `k`. -/
def innerOps (ec : List CheckSpec) (inner : Nat → Nat → Verdict) (k : Nat) (key : Artifact) :
    List Op :=
  ec.zipIdx.flatMap (fun (s : CheckSpec × Nat) => genOps s.1 (inner s.2) k key)

theorem innerCheckAllEC_spec {ver : String} {ec : List CheckSpec} {inner : Nat → Nat → Verdict}
    {keys keys' : List Artifact} {r : Bool}
    (h : innerCheckAllEC ver ec inner keys = .ok (keys', r)) :
    Pointwise (ActsBy ver (innerOps ec inner)) 0 keys keys' := by
  have := (foldChecks_spec ver (fun (s : CheckSpec × Nat) => runCheck ver s.1 (inner s.2))
    (fun s _ j a => genOps s.1 (inner s.2) j a) (fun _ _ => True)
    (fun s arts arts' w hh => ⟨(runCheckFrom_spec hh).1, (runCheckFrom_spec hh).2, trivial⟩)
    (fun s _ j a b hab => genOps_sameKey _ _ _ hab) ec.zipIdx keys keys' r h).1
  exact this

/-! one step, any check -/

theorem issuerOps_posFlag_of_weak (var : Variant) (c : CheckSpec) (keys : List Artifact)
    (a : Artifact) (hok : ∀ key ∈ keys, ∃ en, issuerEntry c key = .ok en) :
    posFlag (issuerOps var c keys a) = keys.any (fun key =>
      decide (keyId var a = keyId var key) && key.info.weak) := by
  induction keys with
  | nil => rfl
  | cons key keys ih =>
    simp only [issuerOps, posFlag_append, List.any_cons]
    rw [ih (fun k hk => hok k (List.mem_cons_of_mem _ hk))]
    congr 1
    obtain ⟨en, hen⟩ := hok key List.mem_cons_self
    by_cases hk : keyId var a = keyId var key
    · simp only [hk, if_true, hen, decide_true, Bool.true_and]
      unfold issuerEntry at hen
      split at hen
      · rename_i hw
        split at hen
        · cases hen; simp [posFlag, entriesOf, hw]
        · cases hen
      · rename_i hw
        cases hen; simp [posFlag, entriesOf, hw]
    · simp [hk, posFlag, entriesOf]

/-- for a CheckIssuerKey step: the inner CheckAllEC returned and every checked key got its
test_result (no `severity = None`). -/
def StepGood (var : Variant) (ver : String) (ec : List CheckSpec) (s : Step)
    (st : List Artifact) : Prop :=
  s.spec.issuer = true → ∃ keys' r', innerCheckAllEC ver ec s.inner (issuerKeys var st) =
    .ok (keys', r') ∧ ∀ key ∈ keys', ∃ en, issuerEntry s.spec key = .ok en

theorem runStep_spec (var : Variant) (ver : String) (ec : List CheckSpec) (s : Step)
    (arts arts' : List Artifact) (w : Bool) (h : runStep var ver ec s arts = .ok (arts', w)) :
    Pointwise (ActsBy ver (stepOps var ver ec s (statics arts))) 0 arts arts' ∧
      w = anyIdx (fun j a => posFlag (stepOps var ver ec s (statics arts) j a)) 0 arts ∧
      StepGood var ver ec s (statics arts) := by
  unfold runStep at h
  by_cases hiss : s.spec.issuer = true
  · simp only [hiss, if_true] at h
    unfold checkIssuerKey at h
    split at h
    · cases h
    · rename_i keys' r' hin
      obtain ⟨p, q, hok⟩ := copyBackAll_spec (i := 0) h
      have hops : ∀ j a, stepOps var ver ec s (statics arts) j a = issuerOps var s.spec keys' a := by
        intro j a
        simp only [stepOps, hiss, if_true, issuerKeys_statics, hin]
      refine ⟨?_, ?_, fun _ => ⟨keys', r', by rw [issuerKeys_statics]; exact hin, hok⟩⟩
      · refine Pointwise.imp ?_ p
        intro j a b hab
        unfold ActsBy at *
        rw [hops]; exact hab
      · -- the return value: some checked key is weak ↔ some signature got a positive entry
        have hpw := innerCheckAllEC_spec hin
        rw [q]
        apply Bool.eq_iff_iff.2
        rw [List.any_eq_true, anyIdx_true]
        constructor
        · rintro ⟨key, hkey, hweak⟩
          obtain ⟨_, k0, hk0, hact⟩ := hpw.of_mem_right key hkey
          obtain ⟨a, ha, rfl⟩ := issuerKeys_from var arts k0 hk0
          obtain ⟨n, hn⟩ := List.mem_iff_getElem?.1 ha
          refine ⟨n, a, hn, ?_⟩
          rw [hops, issuerOps_posFlag_of_weak var s.spec keys' a hok, List.any_eq_true]
          refine ⟨key, hkey, ?_⟩
          have : keyId var key = keyId var a := by
            rw [hact.1.keyId, keyId_freshKey]
          simp [this, hweak]
        · rintro ⟨n, a, _, hf⟩
          rw [hops, issuerOps_posFlag_of_weak var s.spec keys' a hok, List.any_eq_true] at hf
          obtain ⟨key, hkey, hf⟩ := hf
          simp only [Bool.and_eq_true, decide_eq_true_eq] at hf
          exact ⟨key, hkey, hf.2⟩
  · have hiss' : s.spec.issuer = false := by simpa using hiss
    simp only [hiss', Bool.false_eq_true, if_false] at h
    obtain ⟨p, q⟩ := runCheckFrom_spec h
    have hops : ∀ j a, stepOps var ver ec s (statics arts) j a = genOps s.spec s.verdict j a := by
      intro j a; simp [stepOps, hiss']
    refine ⟨?_, ?_, fun hh => by rw [hiss'] at hh; cases hh⟩
    · refine Pointwise.imp ?_ p
      intro j a b hab
      unfold ActsBy at *
      rw [hops]; exact hab
    · rw [q]; congr 1; funext j a; rw [hops]

/-- all util calls of `_CheckArtifacts(arts, steps)` on the artefact at position `j`. -/
def allOps (var : Variant) (ver : String) (ec : List CheckSpec) (steps : List Step)
    (st : List Artifact) (j : Nat) (a : Artifact) : List Op :=
  steps.flatMap (fun s => stepOps var ver ec s st j a)

/-- MAIN LEMMA: `_CheckArtifacts` acts on the artefact at position `j` as the single history
`allOps … j a`, and returns True exactly when some artefact's history sets a positive result. -/
theorem checkArtifacts_spec {var : Variant} {ver : String} {ec : List CheckSpec}
    {steps : List Step} {arts arts' : List Artifact} {r : Bool}
    (h : checkArtifacts var ver ec steps arts = .ok (arts', r)) :
    Pointwise (ActsBy ver (allOps var ver ec steps (statics arts))) 0 arts arts' ∧
      r = anyIdx (fun j a => posFlag (allOps var ver ec steps (statics arts) j a)) 0 arts ∧
      ∀ s ∈ steps, StepGood var ver ec s (statics arts) := by
  obtain ⟨p, q, g⟩ := foldChecks_spec ver (runStep var ver ec) (stepOps var ver ec)
    (StepGood var ver ec)
    (runStep_spec var ver ec) (stepOps_sameKey var ver ec) steps arts arts' r h
  refine ⟨p, ?_, g⟩
  rw [q]
  unfold allOps
  rw [← anyIdx_any]
  congr 1
  funext j a
  rw [posFlag_flatMap]

end Paranoid
