/-
Proofs/ClosedForm.lean — lemmas for C06 (RSA half) and the exact acceptance rates used by C07:
CheckSizes / CheckExponents criteria, `_HasDiscreteLog` = "is a power of the base" for prime
moduli, ROCA and ROCA-variant detectors, `%X` formatting, keypair seed reconstruction.
-/
import ParanoidModel.Model.ClosedForm
import ParanoidModel.Generated.Consts
import ParanoidModel.Proofs.Ecdsa
import Mathlib.FieldTheory.Finite.Basic
import Mathlib.Data.Nat.Prime.Basic
import Mathlib.Data.Nat.Bitwise
namespace Paranoid

/-! ### sizes / exponent -/

theorem sizesWeak_iff (n : Nat) : sizesWeak n = true ↔ n < 2 ^ 2047 := by
  unfold sizesWeak
  rw [decide_eq_true_iff, ← bitLength_le_iff]
  omega

theorem exponentWeak_iff (e : Nat) : exponentWeak e = true ↔ e ≠ 65537 := by
  simp [exponentWeak]

theorem bytes2int_eq_iff (b : List Nat) (hb : ∀ x ∈ b, x < 256) (v : Nat) :
    bytes2int b = v ↔ b.dropWhile (· = 0) = int2bytes v := by
  constructor
  · intro h; rw [← h, int2bytes_bytes2int b hb]
  · intro h
    obtain ⟨k, hk⟩ := dropWhile_zero_eq b
    rw [hk, bytes2int_zeros_append, h, bytes2int_int2bytes]

/-! ### _HasDiscreteLog -/

theorem dlogLoop_iff (value b n : Nat) : ∀ (fuel acc : Nat), acc < n →
    (dlogLoop value b n fuel acc = true ↔ ∃ j, j < fuel ∧ acc * b ^ j % n = value)
  | 0, acc, _ => by simp [dlogLoop]
  | fuel + 1, acc, hacc => by
    unfold dlogLoop
    have hn : 0 < n := by omega
    split
    · rename_i h
      simp only [true_iff]
      exact ⟨0, by omega, by rw [Nat.pow_zero, Nat.mul_one, Nat.mod_eq_of_lt hacc, h]⟩
    · rename_i h
      rw [dlogLoop_iff value b n fuel _ (Nat.mod_lt _ hn)]
      constructor
      · rintro ⟨j, hj, e⟩
        refine ⟨j + 1, by omega, ?_⟩
        rw [← e, Nat.pow_succ, Nat.mul_mod (acc * b % n), Nat.mod_mod, ← Nat.mul_mod]
        congr 1; ring
      · rintro ⟨j, hj, e⟩
        cases j with
        | zero => simp [Nat.mod_eq_of_lt hacc] at e; exact absurd e h
        | succ j =>
          refine ⟨j, by omega, ?_⟩
          rw [← e, Nat.pow_succ, Nat.mul_mod (acc * b % n), Nat.mod_mod, ← Nat.mul_mod]
          congr 1; ring

/-- the loop of `_HasDiscreteLog` tests exactly the exponents `0 … n-2`. -/
theorem hasDiscreteLog_eq (value base n : Nat) (hn : n ≠ 0) :
    ∃ r, hasDiscreteLog value base n = .ok r ∧
      (r = true ↔ ∃ j, j < n - 1 ∧ base ^ j % n = value) := by
  refine ⟨dlogLoop value (base % n) n (n - 1) 1, by simp [hasDiscreteLog, hn], ?_⟩
  by_cases h1 : n = 1
  · subst h1; simp [dlogLoop]
  · rw [dlogLoop_iff _ _ _ _ _ (by omega)]
    simp only [Nat.one_mul, Nat.pow_mod, Nat.mod_mod]

/-- for a prime `p` not dividing `base`, exponents `0 … p-2` represent every power. -/
theorem exists_pow_lt_of_prime (p base v : Nat) (hp : p.Prime) (hb : ¬ p ∣ base) :
    (∃ j, j < p - 1 ∧ base ^ j % p = v) ↔ ∃ k, base ^ k % p = v := by
  constructor
  · rintro ⟨j, _, e⟩; exact ⟨j, e⟩
  · rintro ⟨k, e⟩
    have hcop : Nat.Coprime base p := ((Nat.Prime.coprime_iff_not_dvd hp).2 hb).symm
    have hf : base ^ (p - 1) ≡ 1 [MOD p] := by
      have := Nat.ModEq.pow_totient hcop
      rwa [Nat.totient_prime hp] at this
    have hp1 : 0 < p - 1 := by have := hp.two_le; omega
    refine ⟨k % (p - 1), Nat.mod_lt _ hp1, ?_⟩
    rw [← e]
    conv_rhs => rw [← Nat.div_add_mod k (p - 1), Nat.pow_add, Nat.pow_mul]
    have : (base ^ (p - 1)) ^ (k / (p - 1)) * base ^ (k % (p - 1)) ≡
        1 ^ (k / (p - 1)) * base ^ (k % (p - 1)) [MOD p] :=
      (hf.pow _).mul_right _
    rw [Nat.one_pow, Nat.one_mul] at this
    exact this.symm

/-- ★ `hasDlog_iff`. -/
theorem hasDiscreteLog_prime (value base p : Nat) (hp : p.Prime) (hb : ¬ p ∣ base) :
    ∃ r, hasDiscreteLog value base p = .ok r ∧ (r = true ↔ ∃ k, base ^ k % p = value) := by
  obtain ⟨r, h1, h2⟩ := hasDiscreteLog_eq value base p hp.ne_zero
  exact ⟨r, h1, h2.trans (exists_pow_lt_of_prime p base value hp hb)⟩


/-! ### ROCAKeyDetector.IsWeak -/

theorem productOfPrimes_eq (ps : List Nat) : productOfPrimes ps = ps.prod := by
  have : ∀ (l : List Nat) (acc : Nat), l.foldl (fun a p => a * p) acc = acc * l.prod := by
    intro l
    induction l with
    | nil => intro acc; simp
    | cons x t ih => intro acc; simp [ih, Nat.mul_assoc]
  simp [productOfPrimes, this]

/-- hypotheses on the prime tuple: every entry prime and not dividing the base. -/
def GoodPrimes (ps : List Nat) (f4 : Nat) : Prop := ∀ p ∈ ps, p.Prime ∧ ¬ p ∣ f4

theorem rocaLoop_iff (f4 R : Nat) : ∀ (ps : List Nat), GoodPrimes ps f4 →
    ∃ r, rocaLoop f4 R ps = .ok r ∧ (r = true ↔ ∀ p ∈ ps, ∃ k, f4 ^ k % p = R % p)
  | [], _ => ⟨true, rfl, by simp⟩
  | p :: ps, hg => by
    obtain ⟨hp, hd⟩ := hg p (by simp)
    obtain ⟨b, hb, hbi⟩ := hasDiscreteLog_prime (R % p) f4 p hp hd
    obtain ⟨r, hr, hri⟩ := rocaLoop_iff f4 R ps (fun q hq => hg q (by simp [hq]))
    unfold rocaLoop
    rw [hb]
    cases b with
    | false =>
      refine ⟨false, rfl, ?_⟩
      simp only [Bool.false_eq_true, false_iff]
      intro h
      exact absurd (hbi.2 (h p (by simp))) (by simp)
    | true =>
      refine ⟨r, hr, ?_⟩
      rw [hri]
      simp only [List.mem_cons, forall_eq_or_imp]
      exact ⟨fun h => ⟨hbi.1 rfl, h⟩, fun h => h.2⟩

/-- ★ `roca_iff` for any tuple of primes not dividing the base: the `% product_of_primes`
reduction is harmless because every prime divides the product. -/
theorem rocaIsWeak_iff (ps : List Nat) (f4 n : Nat) (hg : GoodPrimes ps f4) :
    ∃ r, rocaIsWeak ps f4 n = .ok r ∧ (r = true ↔ ∀ p ∈ ps, ∃ k, f4 ^ k % p = n % p) := by
  have h0 : productOfPrimes ps ≠ 0 := by
    rw [productOfPrimes_eq]
    apply List.prod_ne_zero
    intro h
    exact (hg 0 h).1.ne_zero rfl
  obtain ⟨r, hr, hri⟩ := rocaLoop_iff f4 (n % productOfPrimes ps) ps hg
  refine ⟨r, by simp [rocaIsWeak, h0, hr], ?_⟩
  rw [hri]
  apply forall₂_congr
  intro p hp
  rw [Nat.mod_mod_of_dvd n (by rw [productOfPrimes_eq]; exact List.dvd_prod hp)]

/-! ### ROCAKeyVariantDetector -/

theorem foldl_set_length (f : Nat → Nat) : ∀ (l : List Nat) (a : List Bool),
    (l.foldl (fun a i => a.set (f i) true) a).length = a.length
  | [], a => rfl
  | x :: t, a => by simp [List.foldl_cons, foldl_set_length f t]

theorem foldl_set_getElem? (f : Nat → Nat) (j : Nat) : ∀ (l : List Nat) (a : List Bool),
    j < a.length →
    ((l.foldl (fun a i => a.set (f i) true) a)[j]? = some true ↔
      (a[j]? = some true ∨ ∃ i ∈ l, f i = j))
  | [], a, _ => by simp
  | x :: t, a, hj => by
    rw [List.foldl_cons, foldl_set_getElem? f j t (a.set (f x) true) (by simpa using hj)]
    rw [List.getElem?_set]
    by_cases hx : f x = j
    · simp [hx, hj]
    · simp only [hx, ↓reduceIte, List.mem_cons, exists_eq_or_imp, false_or]

theorem quadraticResidues_length (p : Nat) : (quadraticResidues p).length = p := by
  simp [quadraticResidues, foldl_set_length]

theorem quadraticResidues_getElem? (p j : Nat) (hj : j < p) :
    ∃ b, (quadraticResidues p)[j]? = some b ∧ (b = true ↔ ∃ i, i < p ∧ i * i % p = j) := by
  have hlen := quadraticResidues_length p
  have hsome : ∃ b, (quadraticResidues p)[j]? = some b :=
    ⟨(quadraticResidues p)[j]'(by omega), List.getElem?_eq_getElem (by omega)⟩
  obtain ⟨b, hb⟩ := hsome
  refine ⟨b, hb, ?_⟩
  have key := foldl_set_getElem? (fun i => i * i % p) j (List.range p) (List.replicate p false)
    (by simpa using hj)
  have hrep : (List.replicate p false)[j]? ≠ some true := by
    simp [List.getElem?_replicate]
  unfold quadraticResidues at hb
  rw [hb] at key
  simp only [Option.some.injEq, hrep, false_or, List.mem_range] at key
  exact key

/-- the table lookup is the quadratic-residue predicate (0 counts as a residue). -/
theorem qrLookup_iff (p n : Nat) (hp : p ≠ 0) :
    ∃ b, qrLookup p n = .ok b ∧ (b = true ↔ ∃ y, y * y % p = n % p) := by
  obtain ⟨b, hb, hbi⟩ := quadraticResidues_getElem? p (n % p) (Nat.mod_lt _ (by omega))
  refine ⟨b, by simp [qrLookup, hp, hb], ?_⟩
  rw [hbi]
  constructor
  · rintro ⟨i, _, e⟩; exact ⟨i, e⟩
  · rintro ⟨y, e⟩
    refine ⟨y % p, Nat.mod_lt _ (by omega), ?_⟩
    rw [← e, Nat.mul_mod y y p]

theorem qrLoop_iff (n : Nat) : ∀ (ps : List Nat), (∀ p ∈ ps, p ≠ 0) →
    ∃ r, qrLoop n ps = .ok r ∧ (r = true ↔ ∀ p ∈ ps, ∃ y, y * y % p = n % p)
  | [], _ => ⟨true, rfl, by simp⟩
  | p :: ps, h0 => by
    obtain ⟨b, hb, hbi⟩ := qrLookup_iff p n (h0 p (by simp))
    obtain ⟨r, hr, hri⟩ := qrLoop_iff n ps (fun q hq => h0 q (by simp [hq]))
    unfold qrLoop
    rw [hb]
    cases b with
    | false =>
      refine ⟨false, rfl, ?_⟩
      simp only [Bool.false_eq_true, false_iff]
      intro h
      exact absurd (hbi.2 (h p (by simp))) (by simp)
    | true =>
      refine ⟨r, hr, ?_⟩
      rw [hri]
      simp only [List.mem_cons, forall_eq_or_imp]
      exact ⟨fun h => ⟨hbi.1 rfl, h⟩, fun h => h.2⟩

/-- ★ `rocaVariant_iff`. -/
theorem rocaVariantIsWeak_iff (vps rps : List Nat) (f4 n : Nat) (hv : ∀ p ∈ vps, p ≠ 0)
    (hg : GoodPrimes rps f4) :
    ∃ r, rocaVariantIsWeak vps rps f4 n = .ok r ∧
      (r = true ↔ (∀ p ∈ vps, ∃ y, y * y % p = n % p) ∧
        ¬ ∀ p ∈ rps, ∃ k, f4 ^ k % p = n % p) := by
  obtain ⟨q, hq, hqi⟩ := qrLoop_iff n vps hv
  obtain ⟨w, hw, hwi⟩ := rocaIsWeak_iff rps f4 n hg
  unfold rocaVariantIsWeak
  rw [hq]
  cases q with
  | false =>
    refine ⟨false, rfl, ?_⟩
    simp only [Bool.false_eq_true, false_iff, not_and]
    intro h; exact absurd (hqi.2 h) (by simp)
  | true =>
    simp only [hw]
    cases w with
    | true =>
      refine ⟨false, rfl, ?_⟩
      simp only [Bool.false_eq_true, false_iff, not_and, not_not]
      intro _; exact hwi.1 rfl
    | false =>
      refine ⟨true, rfl, ?_⟩
      simp only [true_iff]
      exact ⟨hqi.1 rfl, fun h => absurd (hwi.2 h) (by simp)⟩


/-- trial division, evaluable by the kernel. -/
def isPrimeB (p : Nat) : Bool := decide (2 ≤ p) && (List.range p).all fun d => d < 2 || p % d != 0

theorem isPrimeB_sound (p : Nat) (h : isPrimeB p = true) : p.Prime := by
  simp only [isPrimeB, Bool.and_eq_true, decide_eq_true_eq, List.all_eq_true, List.mem_range,
    Bool.or_eq_true, bne_iff_ne, ne_eq] at h
  rw [Nat.prime_def_lt]
  refine ⟨h.1, fun m hm hd => ?_⟩
  rcases h.2 m hm with h2 | h2
  · have : m ≠ 0 := by rintro rfl; simp at hd; omega
    omega
  · exact absurd (Nat.mod_eq_zero_of_dvd hd) h2

def bitSetOf (l : List Nat) : Nat := l.foldl (fun m x => m ||| (1 <<< x)) 0

theorem testBit_foldl_lor (l : List Nat) (m v : Nat) :
    (l.foldl (fun m x => m ||| (1 <<< x)) m).testBit v = (m.testBit v || decide (v ∈ l)) := by
  induction l generalizing m with
  | nil => simp
  | cons x t ih =>
    rw [List.foldl_cons, ih, Nat.testBit_lor, Nat.one_shiftLeft, Nat.testBit_two_pow]
    by_cases h : x = v
    · subst h; simp
    · have : ¬ v = x := fun e => h e.symm
      simp [h, this]

theorem testBit_bitSetOf (l : List Nat) (v : Nat) : (bitSetOf l).testBit v = decide (v ∈ l) := by
  simp [bitSetOf, testBit_foldl_lor]

def powersList (f4 p : Nat) : List Nat := (List.range (p - 1)).map fun j => f4 ^ j % p
def squaresList (p : Nat) : List Nat := (List.range p).map fun i => i * i % p
def maskCount (p mask : Nat) : Nat := ((List.range p).filter fun v => mask.testBit v).length


/-! ### `%X` formatting -/

def digits16Len (n len : Nat) : List Nat :=
  (List.range len).map fun i => n / 16 ^ (len - 1 - i) % 16

def ofDigits16 (l : List Nat) : Nat := l.foldl (fun a d => a * 16 + d) 0

theorem hexUpper_eq (n : Nat) : hexUpper n = (digits16Len n (hexLen n)).map upperHexDigit := by
  simp [hexUpper, digits16Len, List.map_map, Function.comp_def]

theorem digits16Len_succ (n len : Nat) :
    digits16Len n (len + 1) = digits16Len (n / 16) len ++ [n % 16] := by
  unfold digits16Len
  rw [List.range_succ, List.map_append]
  congr 1
  · apply List.map_congr_left
    intro i hi
    rw [List.mem_range] at hi
    have e : len + 1 - 1 - i = (len - 1 - i) + 1 := by omega
    rw [e, Nat.pow_succ, Nat.mul_comm, Nat.div_div_eq_div_mul]
  · simp

theorem ofDigits16_append_singleton (l : List Nat) (x : Nat) :
    ofDigits16 (l ++ [x]) = ofDigits16 l * 16 + x := by
  simp [ofDigits16, List.foldl_append]

theorem ofDigits16_digits16Len (len : Nat) : ∀ n, ofDigits16 (digits16Len n len) = n % 16 ^ len := by
  induction len with
  | zero => intro n; simp [digits16Len, ofDigits16, Nat.mod_one]
  | succ len ih =>
    intro n
    rw [digits16Len_succ, ofDigits16_append_singleton, ih, Nat.pow_succ]
    rw [Nat.mul_comm (16 ^ len) 16, Nat.mod_mul, Nat.mul_comm]
    omega

theorem digits16Len_lt (n len : Nat) : ∀ d ∈ digits16Len n len, d < 16 := by
  intro d hd
  simp only [digits16Len, List.mem_map] at hd
  obtain ⟨i, _, rfl⟩ := hd
  exact Nat.mod_lt _ (by decide)

theorem hexDigitVal_upper : ∀ d, d < 16 → hexDigitVal (upperHexDigit d) = d := by decide

theorem hexNum_map_upper (l : List Nat) (h : ∀ d ∈ l, d < 16) :
    hexNum (l.map upperHexDigit) = ofDigits16 l := by
  induction l using List.reverseRecOn with
  | nil => rfl
  | append_singleton t x ih =>
    rw [List.map_append, List.map_singleton, ofDigits16_append_singleton,
      ← ih (fun d hd => h d (by simp [hd]))]
    simp only [hexNum, List.foldl_append, List.foldl_cons, List.foldl_nil]
    rw [hexDigitVal_upper x (h x (by simp))]

theorem lt_pow_hexLen (n : Nat) : n < 16 ^ hexLen n := by
  unfold hexLen
  split
  · subst n; decide
  · have h := lt_two_pow_bitLength n
    have e : (16 : Nat) ^ ((bitLength n + 3) / 4) = 2 ^ (4 * ((bitLength n + 3) / 4)) := by
      rw [Nat.pow_mul]
    rw [e]
    exact Nat.lt_of_lt_of_le h (Nat.pow_le_pow_right (by decide) (by omega))

/-- `"%X"` is injective: the number is recovered by reading the digits in base 16. -/
theorem hexNum_hexUpper (n : Nat) : hexNum (hexUpper n) = n := by
  rw [hexUpper_eq, hexNum_map_upper _ (digits16Len_lt _ _), ofDigits16_digits16Len,
    Nat.mod_eq_of_lt (lt_pow_hexLen n)]

theorem hexUpper_injective {a b : Nat} (h : hexUpper a = hexUpper b) : a = b := by
  rw [← hexNum_hexUpper a, ← hexNum_hexUpper b, h]

theorem upperHexDigit_mem : ∀ d, d < 16 → upperHexDigit d ∈ "0123456789ABCDEF".toList := by
  decide

/-- only the characters `0-9A-F` occur. -/
theorem hexUpper_chars (n : Nat) : ∀ c ∈ hexUpper n, c ∈ "0123456789ABCDEF".toList := by
  intro c hc
  rw [hexUpper_eq, List.mem_map] at hc
  obtain ⟨d, hd, rfl⟩ := hc
  exact upperHexDigit_mem d (digits16Len_lt _ _ d hd)

theorem hexUpper_length (n : Nat) : (hexUpper n).length = hexLen n := by simp [hexUpper]

theorem upperHexDigit_ne_zero : ∀ d, d < 16 → d ≠ 0 → upperHexDigit d ≠ '0' := by decide

/-- no padding: the first digit of a non-zero number is not `0`; `"%X" % 0 = "0"`. -/
theorem hexUpper_head (n : Nat) (hn : n ≠ 0) : (hexUpper n).head? ≠ some '0' := by
  have hlen : hexLen n ≠ 0 := by
    have := lt_pow_hexLen n
    intro h; rw [h] at this; omega
  obtain ⟨L, hL⟩ : ∃ L, hexLen n = L + 1 := ⟨hexLen n - 1, by omega⟩
  have hlow : 16 ^ L ≤ n := by
    unfold hexLen at hL
    simp only [hn, ↓reduceIte] at hL
    have h1 : ¬ bitLength n ≤ 4 * L := by omega
    rw [bitLength_le_iff, Nat.pow_mul] at h1
    simpa using h1
  have hup := lt_pow_hexLen n
  rw [hL, Nat.pow_succ] at hup
  unfold hexUpper
  rw [hL, List.range_succ_eq_map, List.map_cons, List.head?_cons]
  simp only [Nat.add_sub_cancel, Nat.sub_zero]
  have hq : n / 16 ^ L < 16 := (Nat.div_lt_iff_lt_mul (Nat.pow_pos (by decide))).2 (by omega)
  have hq1 : 1 ≤ n / 16 ^ L := (Nat.le_div_iff_mul_le (Nat.pow_pos (by decide))).2 (by omega)
  rw [Nat.mod_eq_of_lt hq]
  intro h
  exact upperHexDigit_ne_zero _ hq (by omega) (Option.some.inj h)

theorem hexUpper_zero : hexUpper 0 = ['0'] := by decide

/-! ### keypair -/

theorem seedLoop_length : ∀ (l seed s : List Nat), seedLoop l seed = .ok s → s.length = seed.length
  | [], seed, s, h => by simp [seedLoop] at h; rw [← h]
  | [_], _, _, h => by simp [seedLoop] at h
  | i :: v :: rest, seed, s, h => by
    rw [seedLoop] at h
    split at h
    · rw [seedLoop_length rest _ s h, List.length_set]
    · simp at h

theorem seedFromMeta_length (m s : List Nat) (h : seedFromMeta m = .ok s) : s.length = 32 := by
  cases m with
  | nil => simp [seedFromMeta] at h
  | cons b0 rest =>
    rw [seedFromMeta] at h
    rw [seedLoop_length _ _ _ h]; simp

/-- pairs `i1|b1|i2|b2…` written in order into the seed. -/
def writePairs (seed : List Nat) (pairs : List (Nat × Nat)) : List Nat :=
  pairs.foldl (fun s iv => s.set iv.1 iv.2) seed

def flattenPairs (pairs : List (Nat × Nat)) : List Nat := pairs.flatMap fun iv => [iv.1, iv.2]

theorem seedLoop_pairs : ∀ (pairs : List (Nat × Nat)) (seed : List Nat),
    (∀ iv ∈ pairs, iv.1 < seed.length) →
    seedLoop (flattenPairs pairs) seed = .ok (writePairs seed pairs)
  | [], seed, _ => by simp [flattenPairs, seedLoop, writePairs]
  | (i, v) :: rest, seed, h => by
    have hi : i < seed.length := h (i, v) (by simp)
    simp only [flattenPairs, List.flatMap_cons, List.cons_append, List.nil_append]
    rw [seedLoop, if_pos hi]
    have := seedLoop_pairs rest (seed.set i v)
      (fun iv hiv => by rw [List.length_set]; exact h iv (by simp [hiv]))
    simp only [flattenPairs] at this
    rw [this]
    simp [writePairs]

/-- well-formed metadata `b0|i1|b1|…` with all indices `< 32`: the seed is `b0` followed by
31 zero bytes with `b_k` written at `i_k` (later pairs win). -/
theorem seedFromMeta_pairs (b0 : Nat) (pairs : List (Nat × Nat)) (h : ∀ iv ∈ pairs, iv.1 < 32) :
    seedFromMeta (b0 :: flattenPairs pairs) =
      .ok (writePairs (b0 :: List.replicate 31 0) pairs) := by
  rw [seedFromMeta]
  exact seedLoop_pairs pairs _ (by simpa using h)

theorem seedLoop_error : ∀ (l seed : List Nat) (e : PyErr), seedLoop l seed = .error e → e = .indexError
  | [], _, _, h => by simp [seedLoop] at h
  | [_], _, _, h => by simp [seedLoop] at h; exact h.symm
  | i :: v :: rest, seed, e, h => by
    rw [seedLoop] at h
    split at h
    · exact seedLoop_error rest _ e h
    · simp at h; exact h.symm


/-! ### exact acceptance counts (for `roca_fp_rate`)

The per-prime accepted residues are counted through a bit mask (kernel-accelerated `|||`,
`<<<`, `testBit`) that is proved to represent exactly the residues the model accepts. -/

/-- `_HasDiscreteLog(v, F4, p)` returned `True`. -/
def rocaAccepts (f4 p v : Nat) : Bool :=
  match hasDiscreteLog v f4 p with
  | .ok true => true
  | _ => false

/-- `qr[v]` is `True` in the table of `p`. -/
def qrAccepts (p v : Nat) : Bool :=
  match qrLookup p v with
  | .ok true => true
  | _ => false

/-- number of residues `v ∈ [0, p)` the per-prime ROCA test accepts. -/
def rocaAcceptedMod (f4 p : Nat) : Nat := ((List.range p).filter (rocaAccepts f4 p)).length

/-- number of residues `v ∈ [0, p)` the variant's table accepts. -/
def qrAcceptedMod (p : Nat) : Nat := ((List.range p).filter (qrAccepts p)).length

theorem rocaAccepts_eq_mask (f4 p v : Nat) (hp : p ≠ 0) :
    rocaAccepts f4 p v = (bitSetOf (powersList f4 p)).testBit v := by
  obtain ⟨r, hr, hri⟩ := hasDiscreteLog_eq v f4 p hp
  rw [testBit_bitSetOf]
  unfold rocaAccepts
  rw [hr]
  have hm : v ∈ powersList f4 p ↔ ∃ j, j < p - 1 ∧ f4 ^ j % p = v := by
    simp [powersList]
  cases r with
  | true => simp only; symm; rw [decide_eq_true_iff, hm]; exact hri.1 rfl
  | false =>
    simp only; symm; rw [decide_eq_false_iff_not, hm]
    intro h; exact absurd (hri.2 h) (by simp)

theorem qrAccepts_eq_mask (p v : Nat) (hp : p ≠ 0) (hv : v < p) :
    qrAccepts p v = (bitSetOf (squaresList p)).testBit v := by
  obtain ⟨b, hb, hbi⟩ := quadraticResidues_getElem? p v hv
  rw [testBit_bitSetOf]
  unfold qrAccepts qrLookup
  rw [if_neg hp, Nat.mod_eq_of_lt hv, hb]
  have hm : v ∈ squaresList p ↔ ∃ i, i < p ∧ i * i % p = v := by
    simp [squaresList]
  cases b with
  | true => simp only; symm; rw [decide_eq_true_iff, hm]; exact hbi.1 rfl
  | false =>
    simp only; symm; rw [decide_eq_false_iff_not, hm]
    intro h; exact absurd (hbi.2 h) (by simp)

theorem rocaAcceptedMod_eq (f4 p : Nat) (hp : p ≠ 0) :
    rocaAcceptedMod f4 p = maskCount p (bitSetOf (powersList f4 p)) := by
  unfold rocaAcceptedMod maskCount
  congr 1
  apply List.filter_congr
  intro v _
  exact rocaAccepts_eq_mask f4 p v hp

theorem qrAcceptedMod_eq (p : Nat) (hp : p ≠ 0) :
    qrAcceptedMod p = maskCount p (bitSetOf (squaresList p)) := by
  unfold qrAcceptedMod maskCount
  congr 1
  apply List.filter_congr
  intro v hv
  exact qrAccepts_eq_mask p v hp (List.mem_range.1 hv)

theorem map_rocaAcceptedMod_eq (f4 : Nat) (ps : List Nat) (h : ∀ p ∈ ps, p ≠ 0) :
    ps.map (rocaAcceptedMod f4) = ps.map fun p => maskCount p (bitSetOf (powersList f4 p)) :=
  List.map_congr_left fun p hp => rocaAcceptedMod_eq f4 p (h p hp)

theorem map_qrAcceptedMod_eq (ps : List Nat) (h : ∀ p ∈ ps, p ≠ 0) :
    ps.map qrAcceptedMod = ps.map fun p => maskCount p (bitSetOf (squaresList p)) :=
  List.map_congr_left fun p hp => qrAcceptedMod_eq p (h p hp)

/-! ### facts about the regenerated tuples (`Generated/Consts.lean`) -/

open Consts

theorem rocaPrimes_isPrimeB : ∀ p ∈ rocaPrimes, isPrimeB p = true := by decide +kernel
theorem rocaVariantPrimes_isPrimeB : ∀ p ∈ rocaVariantPrimes, isPrimeB p = true := by
  decide +kernel
theorem rocaPrimes_not_dvd : ∀ p ∈ rocaPrimes, ¬ p ∣ rocaF4 := by decide +kernel

theorem rocaPrimes_good : GoodPrimes rocaPrimes rocaF4 :=
  fun p hp => ⟨isPrimeB_sound p (rocaPrimes_isPrimeB p hp), rocaPrimes_not_dvd p hp⟩

theorem rocaPrimes_ne_zero : ∀ p ∈ rocaPrimes, p ≠ 0 :=
  fun p hp => (isPrimeB_sound p (rocaPrimes_isPrimeB p hp)).ne_zero

theorem rocaVariantPrimes_ne_zero : ∀ p ∈ rocaVariantPrimes, p ≠ 0 :=
  fun p hp => (isPrimeB_sound p (rocaVariantPrimes_isPrimeB p hp)).ne_zero

/-- all primes `p` with `lo ≤ p ≤ hi`, ascending. -/
def primesBetween (lo hi : Nat) : List Nat :=
  (List.range (hi + 1)).filter fun p => decide (lo ≤ p) && isPrimeB p

theorem mem_primesBetween (lo hi p : Nat) :
    p ∈ primesBetween lo hi ↔ lo ≤ p ∧ p ≤ hi ∧ isPrimeB p = true := by
  simp only [primesBetween, List.mem_filter, List.mem_range, Bool.and_eq_true, decide_eq_true_eq]
  constructor
  · rintro ⟨h1, h2, h3⟩; exact ⟨h2, by omega, h3⟩
  · rintro ⟨h1, h2, h3⟩; exact ⟨by omega, h1, h3⟩

/-- the regenerated tuples are what the property names: F4 = 65537, the 39 smallest odd
primes (every prime from 3 up to the largest entry, 39 of them) and the 48 smallest primes
greater than 3. -/
theorem roca_tuples_pinned :
    rocaF4 = 65537 ∧
    rocaPrimes = primesBetween 3 (rocaPrimes.foldl max 0) ∧ rocaPrimes.length = 39 ∧
    rocaVariantPrimes = primesBetween 5 (rocaVariantPrimes.foldl max 0) ∧
    rocaVariantPrimes.length = 48 := by
  decide +kernel

theorem roca_rate_mask :
    (rocaPrimes.map fun p => maskCount p (bitSetOf (powersList rocaF4 p))).prod * 2 ^ 30
      < rocaPrimes.prod ∧
    rocaPrimes.prod <
      (rocaPrimes.map fun p => maskCount p (bitSetOf (powersList rocaF4 p))).prod * 2 ^ 31 := by
  decide +kernel

theorem roca_rate_units_mask :
    (rocaPrimes.map fun p => maskCount p (bitSetOf (powersList rocaF4 p))).prod * 2 ^ 27
      < (rocaPrimes.map fun p => p - 1).prod ∧
    (rocaPrimes.map fun p => p - 1).prod <
      (rocaPrimes.map fun p => maskCount p (bitSetOf (powersList rocaF4 p))).prod * 2 ^ 28 := by
  decide +kernel

theorem variant_rate_mask :
    (rocaVariantPrimes.map fun p => maskCount p (bitSetOf (squaresList p))).prod * 2 ^ 46
      < rocaVariantPrimes.prod := by
  decide +kernel

theorem variant_rate_units_mask :
    (rocaVariantPrimes.map fun p => maskCount p (bitSetOf (squaresList p)) - 1).prod * 2 ^ 48
      = (rocaVariantPrimes.map fun p => p - 1).prod := by
  decide +kernel

end Paranoid
