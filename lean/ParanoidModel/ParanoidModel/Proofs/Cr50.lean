/-
Proofs/Cr50.lean — lemmas for property C08 about Model/Cr50.lean:
 * the sanity `raise` of `Cr50U2fGuesses` is unreachable (`cr50Guesses_error`);
 * exact characterisation of the guess loop when `r₁`, `r₂` are units;
 * the planted vector `(c¹, c², −256, 0)` is in the sub-problem lattice (`cr50_pre_rows`);
 * a reduced row `±(c¹, c², …)` makes the function report the key (`cr50_post_general`).
-/
import ParanoidModel.Model.Cr50
import ParanoidModel.Proofs.Hnp

namespace Paranoid.Hnp

/-! ### the sanity check of `Cr50U2fGuesses` -/

theorem cr50RowPair_some (a b w : Int) (p : Nat) (basis row : List Int) (k : Nat × Nat)
    (h : cr50RowPair a b w p basis row = .ok (some k)) :
    p ≠ 0 ∧ k = cr50RowKs basis row ∧ ((k.1 : Int) * a + (k.2 : Int) * b - w) % (p : Int) = 0 := by
  unfold cr50RowPair at h
  split at h
  · cases h
  rename_i hp
  split at h
  · rename_i hc
    injection h with h; injection h with h
    subst h
    exact ⟨hp, rfl, hc⟩
  · cases h

theorem cr50RowPair_error (a b w : Int) (p : Nat) (basis row : List Int) (e : PyErr)
    (h : cr50RowPair a b w p basis row = .error e) : e = .zeroDivision ∧ p = 0 := by
  unfold cr50RowPair at h
  split at h
  · rename_i hp; injection h with h; exact ⟨h.symm, hp⟩
  · split at h <;> cases h

/-- the algebra behind the sanity check: with `a = r₂s₁`, `b = −r₁s₂`, `w = r₂z₁ − r₁z₂`
(all mod `n`) and inverses `i₁`, `i₂` of `r₁`, `r₂`, a pair `(k₁, k₂)` with
`k₁a + k₂b ≡ w` gives the same key from either signature. -/
theorem cr50_keys_agree (r1 s1 z1 r2 s2 z2 : Int) (n : Nat) (k1 k2 : Int) (i1 i2 : Int)
    (h1 : r1 * i1 ≡ 1 [ZMOD n]) (h2 : r2 * i2 ≡ 1 [ZMOD n])
    (hc : (k1 * (r2 * s1 % (n : Int)) + k2 * (-r1 * s2 % (n : Int)) -
      (r2 * z1 - r1 * z2) % (n : Int)) % (n : Int) = 0) :
    (s1 * k1 - z1) * i1 ≡ (s2 * k2 - z2) * i2 [ZMOD n] := by
  have hA : r2 * s1 % (n : Int) ≡ r2 * s1 [ZMOD n] := Int.mod_modEq _ _
  have hB : -r1 * s2 % (n : Int) ≡ -r1 * s2 [ZMOD n] := Int.mod_modEq _ _
  have hW : (r2 * z1 - r1 * z2) % (n : Int) ≡ r2 * z1 - r1 * z2 [ZMOD n] := Int.mod_modEq _ _
  have h0 : k1 * (r2 * s1 % (n : Int)) + k2 * (-r1 * s2 % (n : Int)) -
      (r2 * z1 - r1 * z2) % (n : Int) ≡ 0 [ZMOD n] := by
    rw [Int.ModEq, hc]; simp
  have h3 : k1 * (r2 * s1) + k2 * (-r1 * s2) - (r2 * z1 - r1 * z2) ≡ 0 [ZMOD n] :=
    (((hA.mul_left k1).add (hB.mul_left k2)).sub hW).symm.trans h0
  -- r2·P ≡ r1·Q
  have h4 : r2 * (s1 * k1 - z1) ≡ r1 * (s2 * k2 - z2) [ZMOD n] := by
    have : r2 * (s1 * k1 - z1) - r1 * (s2 * k2 - z2) ≡ 0 [ZMOD n] := by
      have e : r2 * (s1 * k1 - z1) - r1 * (s2 * k2 - z2) =
          k1 * (r2 * s1) + k2 * (-r1 * s2) - (r2 * z1 - r1 * z2) := by ring
      rw [e]; exact h3
    have := this.add_right (r1 * (s2 * k2 - z2))
    simpa using this
  calc (s1 * k1 - z1) * i1 = (s1 * k1 - z1) * i1 * 1 := by ring
    _ ≡ (s1 * k1 - z1) * i1 * (r2 * i2) [ZMOD n] := (h2.symm).mul_left _
    _ = r2 * (s1 * k1 - z1) * (i1 * i2) := by ring
    _ ≡ r1 * (s2 * k2 - z2) * (i1 * i2) [ZMOD n] := h4.mul_right _
    _ = (s2 * k2 - z2) * i2 * (r1 * i1) := by ring
    _ ≡ (s2 * k2 - z2) * i2 * 1 [ZMOD n] := h1.mul_left _
    _ = (s2 * k2 - z2) * i2 := by ring

/-- the consumer body on a yielded pair: never `ArithmeticError`; `ZeroDivisionError` exactly
when `r₁` or `r₂` has no inverse; otherwise the key computed from the first signature. -/
theorem cr50PairGuess_spec (r1 s1 z1 r2 s2 z2 : Int) (n : Nat) (k : Nat × Nat)
    (hc : ((k.1 : Int) * (r2 * s1 % (n : Int)) + (k.2 : Int) * (-r1 * s2 % (n : Int)) -
      (r2 * z1 - r1 * z2) % (n : Int)) % (n : Int) = 0) :
    (∃ i1 i2, invMod r1 n = .ok i1 ∧ invMod r2 n = .ok i2 ∧
      cr50PairGuess r1 s1 z1 r2 s2 z2 n k = .ok ((s1 * (k.1 : Int) - z1) * (i1 : Int) % (n : Int)).toNat) ∨
    (cr50PairGuess r1 s1 z1 r2 s2 z2 n k = .error .zeroDivision ∧
      ((∃ e, invMod r1 n = .error e) ∨ (∃ e, invMod r2 n = .error e))) := by
  unfold cr50PairGuess
  cases h1 : invMod r1 n with
  | error e =>
    right
    have := invMod_error r1 n e h1
    subst this
    exact ⟨rfl, Or.inl ⟨_, rfl⟩⟩
  | ok i1 =>
    cases h2 : invMod r2 n with
    | error e =>
      right
      have := invMod_error r2 n e h2
      subst this
      exact ⟨rfl, Or.inr ⟨_, rfl⟩⟩
    | ok i2 =>
      left
      refine ⟨i1, i2, rfl, rfl, ?_⟩
      have hs1 := (invMod_ok_modEq r1 n i1 h1).1
      have hs2 := (invMod_ok_modEq r2 n i2 h2).1
      have := cr50_keys_agree r1 s1 z1 r2 s2 z2 n k.1 k.2 i1 i2 hs1 hs2 hc
      simp only
      rw [if_neg (by rw [not_not]; exact this)]


/-- an exception of the guess loop is `ZeroDivisionError`, never the sanity `ArithmeticError`. -/
theorem cr50GuessLoop_error (r1 s1 z1 r2 s2 z2 : Int) (n : Nat) (basis : List Int) (e : PyErr) :
    ∀ (reduced : List (List Int)) (acc : List Nat),
    cr50GuessLoop r1 s1 z1 r2 s2 z2 n (r2 * s1 % (n : Int)) (-r1 * s2 % (n : Int))
      ((r2 * z1 - r1 * z2) % (n : Int)) basis reduced acc = .error e → e = .zeroDivision
  | [], acc, h => by simp [cr50GuessLoop] at h
  | row :: rest, acc, h => by
    unfold cr50GuessLoop at h
    split at h
    · rename_i e' he
      injection h with h; subst h
      exact (cr50RowPair_error _ _ _ _ _ _ _ he).1
    · exact cr50GuessLoop_error r1 s1 z1 r2 s2 z2 n basis e rest acc h
    · rename_i k hk
      obtain ⟨_, _, hc⟩ := cr50RowPair_some _ _ _ _ _ _ _ hk
      rcases cr50PairGuess_spec r1 s1 z1 r2 s2 z2 n k hc with ⟨i1, i2, _, _, hg⟩ | ⟨hg, _⟩
      · rw [hg] at h
        exact cr50GuessLoop_error r1 s1 z1 r2 s2 z2 n basis e rest _ h
      · rw [hg] at h
        injection h with h; exact h.symm

/-- **the sanity `raise` in `Cr50U2fGuesses` is unreachable**: for every input (any integers
`r, s, z`, any modulus, any answer of the lattice reduction) the function does not raise
`ArithmeticError`; its only exception is `ZeroDivisionError` (`n = 0`, or `r₁`/`r₂` without
inverse modulo `n` — impossible for a valid signature on a prime-order curve). -/
theorem cr50Guesses_error (r1 s1 z1 r2 s2 z2 : Int) (n : Nat) (reduced : List (List Int))
    (e : PyErr) (h : cr50Guesses r1 s1 z1 r2 s2 z2 n reduced = .error e) : e = .zeroDivision := by
  unfold cr50Guesses at h
  split at h
  · cases h
  split at h
  · injection h with h; exact h.symm
  split at h
  · rename_i e' he
    injection h with h; subst h
    unfold cr50Lattice at he
    split at he
    · injection he with he; exact he.symm
    · cases he
  · exact cr50GuessLoop_error r1 s1 z1 r2 s2 z2 n _ e reduced [] h

/-- when both `r` are units the loop returns exactly the keys of the rows that pass the test. -/
theorem cr50GuessLoop_ok (r1 s1 z1 r2 s2 z2 : Int) (n : Nat) (hn : n ≠ 0) (basis : List Int)
    (i1 i2 : Nat) (h1 : invMod r1 n = .ok i1) (h2 : invMod r2 n = .ok i2) :
    ∀ (reduced : List (List Int)) (acc : List Nat),
    ∃ gs, cr50GuessLoop r1 s1 z1 r2 s2 z2 n (r2 * s1 % (n : Int)) (-r1 * s2 % (n : Int))
        ((r2 * z1 - r1 * z2) % (n : Int)) basis reduced acc = .ok gs ∧
      ∀ g, g ∈ gs ↔ g ∈ acc ∨ ∃ row ∈ reduced, ∃ k,
        cr50RowPair (r2 * s1 % (n : Int)) (-r1 * s2 % (n : Int)) ((r2 * z1 - r1 * z2) % (n : Int))
          n basis row = .ok (some k) ∧
        g = ((s1 * (k.1 : Int) - z1) * (i1 : Int) % (n : Int)).toNat
  | [], acc => ⟨acc, rfl, by simp⟩
  | row :: rest, acc => by
    unfold cr50GuessLoop
    cases hp : cr50RowPair (r2 * s1 % (n : Int)) (-r1 * s2 % (n : Int))
        ((r2 * z1 - r1 * z2) % (n : Int)) n basis row with
    | error e => exact absurd (cr50RowPair_error _ _ _ _ _ _ _ hp).2 hn
    | ok o =>
      cases o with
      | none =>
        obtain ⟨gs, hgs, hmem⟩ := cr50GuessLoop_ok r1 s1 z1 r2 s2 z2 n hn basis i1 i2 h1 h2 rest acc
        refine ⟨gs, hgs, fun g => ?_⟩
        rw [hmem g]
        constructor
        · rintro (h | ⟨r, hr, k, hk, hg⟩)
          · exact Or.inl h
          · exact Or.inr ⟨r, List.mem_cons_of_mem _ hr, k, hk, hg⟩
        · rintro (h | ⟨r, hr, k, hk, hg⟩)
          · exact Or.inl h
          · rcases List.mem_cons.mp hr with rfl | hr
            · rw [hp] at hk; cases hk
            · exact Or.inr ⟨r, hr, k, hk, hg⟩
      | some k =>
        obtain ⟨_, _, hc⟩ := cr50RowPair_some _ _ _ _ _ _ _ hp
        rcases cr50PairGuess_spec r1 s1 z1 r2 s2 z2 n k hc with ⟨j1, j2, e1, e2, hg⟩ | ⟨_, he⟩
        · rw [h1] at e1; rw [h2] at e2
          injection e1 with e1; injection e2 with e2
          subst e1; subst e2
          simp only [hg]
          obtain ⟨gs, hgs, hmem⟩ := cr50GuessLoop_ok r1 s1 z1 r2 s2 z2 n hn basis i1 i2 h1 h2 rest
            (if ((s1 * (k.1 : Int) - z1) * (i1 : Int) % (n : Int)).toNat ∈ acc then acc
              else acc ++ [((s1 * (k.1 : Int) - z1) * (i1 : Int) % (n : Int)).toNat])
          refine ⟨gs, hgs, fun g => ?_⟩
          rw [hmem g]
          have hacc : ∀ g, (g ∈ (if ((s1 * (k.1 : Int) - z1) * (i1 : Int) % (n : Int)).toNat ∈ acc then acc
              else acc ++ [((s1 * (k.1 : Int) - z1) * (i1 : Int) % (n : Int)).toNat])) ↔
              g ∈ acc ∨ g = ((s1 * (k.1 : Int) - z1) * (i1 : Int) % (n : Int)).toNat := by
            intro g
            split
            · rename_i hin
              constructor
              · exact Or.inl
              · rintro (h | rfl)
                · exact h
                · exact hin
            · simp
          rw [hacc g]
          constructor
          · rintro ((h | h) | ⟨r, hr, k', hk, hg'⟩)
            · exact Or.inl h
            · exact Or.inr ⟨row, List.mem_cons_self .., k, hp, h⟩
            · exact Or.inr ⟨r, List.mem_cons_of_mem _ hr, k', hk, hg'⟩
          · rintro (h | ⟨r, hr, k', hk, hg'⟩)
            · exact Or.inl (Or.inl h)
            · rcases List.mem_cons.mp hr with rfl | hr
              · rw [hp] at hk
                injection hk with hk; injection hk with hk
                subst hk
                exact Or.inl (Or.inr hg')
              · exact Or.inr ⟨r, hr, k', hk, hg'⟩
        · rcases he with ⟨e, he⟩ | ⟨e, he⟩
          · rw [h1] at he; cases he
          · rw [h2] at he; cases he


/-! ### the sub-problem lattice contains the planted vector -/

theorem ent_append (l1 l2 : List Int) (j : Nat) :
    ent (l1 ++ l2) j = if j < l1.length then ent l1 j else ent l2 (j - l1.length) := by
  unfold ent
  split
  · rename_i h; rw [List.getElem?_append_left h]
  · rename_i h; rw [List.getElem?_append_right (by omega)]

theorem colSum_append (j : Nat) : ∀ (cs1 : List Int) (rs1 : List (List Int)) (cs2 : List Int)
    (rs2 : List (List Int)), cs1.length = rs1.length →
    colSum j (cs1 ++ cs2) (rs1 ++ rs2) = colSum j cs1 rs1 + colSum j cs2 rs2
  | [], [], _, _, _ => by simp [colSum]
  | c :: cs, r :: rs, cs2, rs2, h => by
    simp only [List.cons_append, colSum]
    rw [colSum_append j cs rs cs2 rs2 (by simpa using h)]; ring
  | [], _ :: _, _, _, h => by simp at h
  | _ :: _, [], _, _, h => by simp at h

theorem ent_wordRow (size p : Nat) (m : Int) (i : Nat) (v : Int) (j : Nat) :
    ent (cr50WordRow size p m i v) j =
      if j < size - 1 then (if j = i then 1 else 0)
      else if j = size - 1 then v * m % (p : Int) else 0 := by
  unfold cr50WordRow
  rw [ent_append]
  simp only [List.length_map, List.length_range]
  split
  · rename_i h; rw [ent_map_range, if_pos h]
  · rename_i h
    split
    · rename_i h2; rw [h2]; simp [ent]
    · rename_i h2
      rw [ent_of_ge _ _ (by simp; omega)]

/-- last-column contribution of one block: `Σ cᵢ·(basisᵢ·m mod p)`. -/
def wsum (m : Int) (p : Nat) : List Int → List Int → Int
  | c :: cs, v :: vs => c * (v * m % (p : Int)) + wsum m p cs vs
  | _, _ => 0

theorem colSum_block_low (size p : Nat) (m : Int) (j : Nat) (hj : j < size - 1) :
    ∀ (basis cs : List Int) (off : Nat), cs.length = basis.length →
    colSum j cs (cr50Block size p m off basis) =
      if off ≤ j ∧ j < off + cs.length then ent cs (j - off) else 0
  | [], [], off, _ => by simp [cr50Block, colSum]
  | v :: vs, c :: cs, off, h => by
    rw [cr50Block, colSum, colSum_block_low size p m j hj vs cs (off + 1) (by simpa using h),
      ent_wordRow, if_pos hj]
    by_cases h1 : j = off
    · subst h1
      rw [if_pos rfl, if_neg (by omega), if_pos ⟨le_refl _, by simp⟩]
      simp
    · rw [if_neg h1]
      by_cases h2 : off + 1 ≤ j ∧ j < off + 1 + cs.length
      · rw [if_pos h2, if_pos ⟨by omega, by simp; omega⟩]
        obtain ⟨t, ht⟩ : ∃ t, j - off = t + 1 := ⟨j - off - 1, by omega⟩
        rw [ht, ent_cons_succ, show j - (off + 1) = t by omega]
        ring
      · rw [if_neg h2, if_neg (by simp; omega)]
        ring
  | [], _ :: _, _, h => by simp at h
  | _ :: _, [], _, h => by simp at h

theorem colSum_block_last (size p : Nat) (m : Int) (hs : 0 < size) :
    ∀ (basis cs : List Int) (off : Nat), cs.length = basis.length →
    colSum (size - 1) cs (cr50Block size p m off basis) = wsum m p cs basis
  | [], [], off, _ => by simp [cr50Block, colSum, wsum]
  | v :: vs, c :: cs, off, h => by
    rw [cr50Block, colSum, colSum_block_last size p m hs vs cs (off + 1) (by simpa using h),
      ent_wordRow, if_neg (by omega), if_pos rfl, wsum]
  | [], _ :: _, _, h => by simp at h
  | _ :: _, [], _, h => by simp at h

theorem cr50Block_length (size p : Nat) (m : Int) : ∀ (basis : List Int) (off : Nat),
    (cr50Block size p m off basis).length = basis.length
  | [], _ => rfl
  | _ :: vs, off => by simp [cr50Block, cr50Block_length size p m vs (off + 1)]

theorem cr50Block_row_length (size p : Nat) (m : Int) (hs : 0 < size) :
    ∀ (basis : List Int) (off : Nat), ∀ r ∈ cr50Block size p m off basis, r.length = size
  | [], _, r, hr => by simp [cr50Block] at hr
  | v :: vs, off, r, hr => by
    rw [cr50Block] at hr
    rcases List.mem_cons.mp hr with rfl | hr
    · simp [cr50WordRow]; omega
    · exact cr50Block_row_length size p m hs vs (off + 1) r hr

theorem wsum_modEq (m : Int) (p : Nat) : ∀ (cs basis : List Int),
    wsum m p cs basis ≡ dotZip basis cs * m [ZMOD p]
  | [], _ => by cases ‹List Int› <;> simp [wsum, dotZip, Int.ModEq]
  | _ :: _, [] => by simp [wsum, dotZip, Int.ModEq]
  | c :: cs, v :: vs => by
    have ih := wsum_modEq m p cs vs
    have h1 : v * m % (p : Int) ≡ v * m [ZMOD p] := Int.mod_modEq _ _
    have : dotZip (v :: vs) (c :: cs) = v * c + dotZip vs cs := by simp [dotZip]
    rw [this, wsum]
    calc c * (v * m % (p : Int)) + wsum m p cs vs ≡ c * (v * m) + dotZip vs cs * m [ZMOD p] :=
          (h1.mul_left c).add ih
      _ = (v * c + dotZip vs cs) * m := by ring

/-- **pre (Cr50).** For digit vectors `c¹, c²` (one entry per basis word) whose nonces
`k₁ = Σ c¹ⱼ·basisⱼ`, `k₂ = Σ c²ⱼ·basisⱼ` satisfy `k₁·a + k₂·b ≡ w (mod p)`, the vector
`(c¹, c², −256, 0)` is the integer combination `Σ c¹ⱼ·rowⱼ + Σ c²ⱼ·row_{words+j} − row_{2·words}
− q·row_{last}` of the sub-problem lattice. -/
theorem cr50_pre_rows (a b w : Int) (p : Nat) (hp : 0 < p) (basis c1 c2 : List Int)
    (h1 : c1.length = basis.length) (h2 : c2.length = basis.length)
    (hrel : (dotZip basis c1 * a + dotZip basis c2 * b - w) % (p : Int) = 0) :
    ∃ rows, cr50Lattice a b w p basis = .ok rows ∧
      lincomb (2 * basis.length + 2)
        (c1 ++ (c2 ++ [-1, -((wsum a p c1 basis + wsum b p c2 basis - w) / (p : Int))])) rows =
        c1 ++ (c2 ++ [-256, 0]) := by
  refine ⟨_, by unfold cr50Lattice; rw [if_neg (by omega)], ?_⟩
  obtain ⟨size, hsize⟩ : ∃ size, size = 2 * basis.length + 2 := ⟨_, rfl⟩
  obtain ⟨q, hq⟩ : ∃ q, q = (wsum a p c1 basis + wsum b p c2 basis - w) / (p : Int) := ⟨_, rfl⟩
  rw [← hsize, ← hq]
  have hdvd : (p : Int) ∣ wsum a p c1 basis + wsum b p c2 basis - w := by
    have e1 := wsum_modEq a p c1 basis
    have e2 := wsum_modEq b p c2 basis
    have : wsum a p c1 basis + wsum b p c2 basis - w ≡
        dotZip basis c1 * a + dotZip basis c2 * b - w [ZMOD p] := (e1.add e2).sub_right w
    exact Int.dvd_of_emod_eq_zero (Eq.trans this hrel)
  have hqp : q * (p : Int) = wsum a p c1 basis + wsum b p c2 basis - w := by
    rw [hq]; exact Int.ediv_mul_cancel hdvd
  have hrows : ∀ r ∈ cr50Block size p a 0 basis ++ cr50Block size p b basis.length basis ++
      [cr50Zeros (2 * basis.length) ++ [256, w], cr50Zeros (2 * basis.length + 1) ++ [(p : Int)]],
      r.length = size := by
    intro r hr
    simp only [List.mem_append, List.mem_cons, List.not_mem_nil, or_false] at hr
    rcases hr with (hr | hr) | rfl | rfl
    · exact cr50Block_row_length size p a (by omega) basis 0 r hr
    · exact cr50Block_row_length size p b (by omega) basis _ r hr
    · simp [cr50Zeros, hsize]
    · simp [cr50Zeros, hsize]
  apply ext_ent
  · rw [lincomb_length _ _ _ hrows]; simp [h1, h2]; omega
  · intro j hj
    rw [lincomb_length _ _ _ hrows] at hj
    rw [lincomb_ent _ _ _ _ hrows, List.append_assoc,
      colSum_append j c1 _ _ _ (by rw [cr50Block_length, h1]),
      colSum_append j c2 _ _ _ (by rw [cr50Block_length, h2])]
    simp only [colSum]
    have ez1 : ∀ t, ent (cr50Zeros (2 * basis.length) ++ [256, w]) t =
        if t = 2 * basis.length then 256 else if t = 2 * basis.length + 1 then w else 0 := by
      intro t
      rw [ent_append]
      simp only [cr50Zeros, List.length_replicate]
      split
      · rename_i h; rw [ent_replicate_zero, if_neg (by omega), if_neg (by omega)]
      · rename_i h
        by_cases e : t = 2 * basis.length
        · subst e; simp
        · rw [if_neg e]
          by_cases e' : t = 2 * basis.length + 1
          · subst e'; simp
          · rw [if_neg e', ent_of_ge _ _ (by simp; omega)]
    have ez2 : ∀ t, ent (cr50Zeros (2 * basis.length + 1) ++ [(p : Int)]) t =
        if t = 2 * basis.length + 1 then (p : Int) else 0 := by
      intro t
      rw [ent_append]
      simp only [cr50Zeros, List.length_replicate]
      split
      · rename_i h; rw [ent_replicate_zero, if_neg (by omega)]
      · rename_i h
        by_cases e : t = 2 * basis.length + 1
        · subst e; simp
        · rw [if_neg e, ent_of_ge _ _ (by simp; omega)]
    rw [ez1, ez2]
    -- the right-hand side entry
    have eR : ent (c1 ++ (c2 ++ [-256, 0])) j =
        if j < basis.length then ent c1 j
        else if j < 2 * basis.length then ent c2 (j - basis.length)
        else if j = 2 * basis.length then -256 else 0 := by
      rw [ent_append, h1]
      split
      · rfl
      · rename_i h
        rw [ent_append, h2]
        split
        · rw [if_pos (by omega)]
        · rename_i h'
          rw [if_neg (by omega)]
          by_cases e : j = 2 * basis.length
          · rw [if_pos e, show j - basis.length - basis.length = 0 by omega]; simp
          · rw [if_neg e, show j - basis.length - basis.length = 1 by omega]; simp
    rw [eR]
    by_cases hlast : j = size - 1
    · -- last column
      have hj' : j = 2 * basis.length + 1 := by omega
      rw [hlast, colSum_block_last size p a (by omega) basis c1 0 h1,
        colSum_block_last size p b (by omega) basis c2 _ h2]
      rw [show size - 1 = 2 * basis.length + 1 by omega]
      rw [if_neg (by omega), if_pos rfl, if_pos rfl, if_neg (by omega), if_neg (by omega),
        if_neg (by omega)]
      linarith
    · have hjl : j < size - 1 := by omega
      rw [colSum_block_low size p a j hjl basis c1 0 h1,
        colSum_block_low size p b j hjl basis c2 _ h2, h1, h2]
      by_cases c1case : j < basis.length
      · rw [if_pos ⟨by omega, by omega⟩, if_neg (by omega), if_neg (by omega), if_neg (by omega),
          if_neg (by omega), if_pos c1case]
        simp
      · by_cases c2case : j < 2 * basis.length
        · rw [if_neg (by omega), if_pos ⟨by omega, by omega⟩, if_neg (by omega), if_neg (by omega),
            if_neg (by omega), if_neg c1case, if_pos c2case]
          simp
        · have : j = 2 * basis.length := by omega
          rw [if_neg (by omega), if_neg (by omega), if_pos this, if_neg (by omega),
            if_neg c1case, if_neg c2case, if_pos this]
          ring


theorem dotZip_cons (v c : Int) (vs cs : List Int) :
    dotZip (v :: vs) (c :: cs) = v * c + dotZip vs cs := by simp [dotZip]

theorem dotZip_map_neg : ∀ (basis l : List Int), dotZip basis (l.map (fun c => -c)) = -dotZip basis l
  | [], _ => by simp [dotZip]
  | _ :: _, [] => by simp [dotZip]
  | v :: vs, c :: cs => by
    rw [List.map_cons, dotZip_cons, dotZip_cons, dotZip_map_neg vs cs]; ring

theorem dotZip_nonneg : ∀ (basis l : List Int), (∀ v ∈ basis, 0 ≤ v) → (∀ c ∈ l, 0 ≤ c) →
    0 ≤ dotZip basis l
  | [], _, _, _ => by simp [dotZip]
  | _ :: _, [], _, _ => by simp [dotZip]
  | v :: vs, c :: cs, hb, hl => by
    rw [dotZip_cons]
    have h1 := hb v (List.mem_cons_self ..)
    have h2 := hl c (List.mem_cons_self ..)
    have h3 := dotZip_nonneg vs cs (fun v hv => hb v (List.mem_cons_of_mem _ hv))
      (fun c hc => hl c (List.mem_cons_of_mem _ hc))
    positivity

theorem cr50Basis_nonneg (bl : Nat) : ∀ v ∈ cr50Basis bl, 0 ≤ v := by
  intro v hv
  unfold cr50Basis at hv
  obtain ⟨j, _, rfl⟩ := List.mem_map.mp hv
  positivity

theorem cr50RowKs_prefix (basis c1 c2 rest : List Int) (h1 : c1.length = basis.length)
    (h2 : c2.length = basis.length) :
    cr50RowKs basis (c1 ++ (c2 ++ rest)) = ((dotZip basis c1).natAbs, (dotZip basis c2).natAbs) := by
  unfold cr50RowKs
  rw [← h1, List.take_left', List.drop_left', h1, ← h2, List.take_left'] <;> rfl

/-- **post (Cr50).** -/
theorem cr50_post_general (r1 s1 z1 r2 s2 z2 x : Int) (n : Nat) (reduced : List (List Int))
    (c1 c2 rest : List Int) (hbl : bitLength n % 32 = 0) (hn : 1 < n)
    (h1 : c1.length = (cr50Basis (bitLength n)).length)
    (h2 : c2.length = (cr50Basis (bitLength n)).length)
    (hk1 : 0 ≤ dotZip (cr50Basis (bitLength n)) c1) (hk2 : 0 ≤ dotZip (cr50Basis (bitLength n)) c2)
    (hs1 : s1 * dotZip (cr50Basis (bitLength n)) c1 ≡ z1 + r1 * x [ZMOD n])
    (hs2 : s2 * dotZip (cr50Basis (bitLength n)) c2 ≡ z2 + r2 * x [ZMOD n])
    (hr1 : Int.gcd r1 n = 1) (hr2 : Int.gcd r2 n = 1)
    (hrow : (c1 ++ (c2 ++ rest)) ∈ reduced ∨
      (c1.map (fun c => -c) ++ (c2.map (fun c => -c) ++ rest)) ∈ reduced) :
    ∃ gs, cr50Guesses r1 s1 z1 r2 s2 z2 n reduced = .ok gs ∧ (x % (n : Int)).toNat ∈ gs := by
  obtain ⟨i1, hi1⟩ := invMod_of_coprime r1 n (by omega) hr1
  obtain ⟨i2, hi2⟩ := invMod_of_coprime r2 n (by omega) hr2
  have hn0 : n ≠ 0 := by omega
  obtain ⟨gs, hgs, hmem⟩ := cr50GuessLoop_ok r1 s1 z1 r2 s2 z2 n hn0 (cr50Basis (bitLength n))
    i1 i2 hi1 hi2 reduced []
  have hl : ∃ lat, cr50Lattice (r2 * s1 % (n : Int)) (-r1 * s2 % (n : Int))
      ((r2 * z1 - r1 * z2) % (n : Int)) n (cr50Basis (bitLength n)) = .ok lat := by
    unfold cr50Lattice; rw [if_neg (by omega)]; exact ⟨_, rfl⟩
  obtain ⟨lat, hlat⟩ := hl
  refine ⟨gs, ?_, ?_⟩
  · unfold cr50Guesses
    rw [if_neg (by omega), if_neg hn0, hlat]
    exact hgs
  · -- the row that carries the planted digits
    have hks : ∀ row, (row = c1 ++ (c2 ++ rest) ∨
        row = c1.map (fun c => -c) ++ (c2.map (fun c => -c) ++ rest)) →
        cr50RowKs (cr50Basis (bitLength n)) row =
          ((dotZip (cr50Basis (bitLength n)) c1).natAbs, (dotZip (cr50Basis (bitLength n)) c2).natAbs) := by
      rintro row (rfl | rfl)
      · exact cr50RowKs_prefix _ c1 c2 rest h1 h2
      · rw [cr50RowKs_prefix _ _ _ rest (by simpa using h1) (by simpa using h2),
          dotZip_map_neg, dotZip_map_neg, Int.natAbs_neg, Int.natAbs_neg]
    obtain ⟨row, hin, hrow'⟩ : ∃ row, row ∈ reduced ∧ (row = c1 ++ (c2 ++ rest) ∨
        row = c1.map (fun c => -c) ++ (c2.map (fun c => -c) ++ rest)) := by
      rcases hrow with h | h
      · exact ⟨_, h, Or.inl rfl⟩
      · exact ⟨_, h, Or.inr rfl⟩
    have e1 : ((dotZip (cr50Basis (bitLength n)) c1).natAbs : Int) = dotZip (cr50Basis (bitLength n)) c1 :=
      Int.natAbs_of_nonneg hk1
    have e2 : ((dotZip (cr50Basis (bitLength n)) c2).natAbs : Int) = dotZip (cr50Basis (bitLength n)) c2 :=
      Int.natAbs_of_nonneg hk2
    generalize dotZip (cr50Basis (bitLength n)) c1 = k1 at *
    generalize dotZip (cr50Basis (bitLength n)) c2 = k2 at *
    have hP : s1 * k1 - z1 ≡ r1 * x [ZMOD n] := by
      have := hs1.sub_right z1
      simpa using this
    have hQ : s2 * k2 - z2 ≡ r2 * x [ZMOD n] := by
      have := hs2.sub_right z2
      simpa using this
    have hcond : ((k1.natAbs : Int) * (r2 * s1 % (n : Int)) + (k2.natAbs : Int) * (-r1 * s2 % (n : Int)) -
        (r2 * z1 - r1 * z2) % (n : Int)) % (n : Int) = 0 := by
      rw [e1, e2]
      have hA : r2 * s1 % (n : Int) ≡ r2 * s1 [ZMOD n] := Int.mod_modEq _ _
      have hB : -r1 * s2 % (n : Int) ≡ -r1 * s2 [ZMOD n] := Int.mod_modEq _ _
      have hW : (r2 * z1 - r1 * z2) % (n : Int) ≡ r2 * z1 - r1 * z2 [ZMOD n] := Int.mod_modEq _ _
      have : k1 * (r2 * s1 % (n : Int)) + k2 * (-r1 * s2 % (n : Int)) - (r2 * z1 - r1 * z2) % (n : Int)
          ≡ 0 [ZMOD n] := by
        calc k1 * (r2 * s1 % (n : Int)) + k2 * (-r1 * s2 % (n : Int)) - (r2 * z1 - r1 * z2) % (n : Int)
            ≡ k1 * (r2 * s1) + k2 * (-r1 * s2) - (r2 * z1 - r1 * z2) [ZMOD n] :=
              ((hA.mul_left k1).add (hB.mul_left k2)).sub hW
          _ = r2 * (s1 * k1 - z1) - r1 * (s2 * k2 - z2) := by ring
          _ ≡ r2 * (r1 * x) - r1 * (r2 * x) [ZMOD n] := (hP.mul_left r2).sub (hQ.mul_left r1)
          _ = 0 := by ring
      simpa [Int.ModEq] using this
    refine (hmem _).mpr (Or.inr ⟨row, hin, (k1.natAbs, k2.natAbs), ?_, ?_⟩)
    · unfold cr50RowPair
      rw [if_neg hn0, hks row hrow', if_pos hcond]
    · congr 1
      have hspec := (invMod_ok_modEq r1 n i1 hi1).1
      simp only [e1]
      have : (s1 * k1 - z1) * i1 ≡ x [ZMOD n] := by
        calc (s1 * k1 - z1) * i1 ≡ r1 * x * i1 [ZMOD n] := hP.mul_right _
          _ = x * (r1 * i1) := by ring
          _ ≡ x * 1 [ZMOD n] := hspec.mul_left _
          _ = x := by ring
      exact this.symm


/-- the two signature equations `sᵢ·kᵢ ≡ zᵢ + rᵢ·x` give the relation the sub-problem solves:
`k₁·a + k₂·b ≡ w (mod n)` for the `a, b, w` computed by `Cr50U2fGuesses`. -/
theorem cr50_relation (r1 s1 z1 r2 s2 z2 x k1 k2 : Int) (n : Nat)
    (hs1 : s1 * k1 ≡ z1 + r1 * x [ZMOD n]) (hs2 : s2 * k2 ≡ z2 + r2 * x [ZMOD n]) :
    (k1 * (r2 * s1 % (n : Int)) + k2 * (-r1 * s2 % (n : Int)) -
      (r2 * z1 - r1 * z2) % (n : Int)) % (n : Int) = 0 := by
  have hP : s1 * k1 - z1 ≡ r1 * x [ZMOD n] := by
    have := hs1.sub_right z1
    simpa using this
  have hQ : s2 * k2 - z2 ≡ r2 * x [ZMOD n] := by
    have := hs2.sub_right z2
    simpa using this
  have hA : r2 * s1 % (n : Int) ≡ r2 * s1 [ZMOD n] := Int.mod_modEq _ _
  have hB : -r1 * s2 % (n : Int) ≡ -r1 * s2 [ZMOD n] := Int.mod_modEq _ _
  have hW : (r2 * z1 - r1 * z2) % (n : Int) ≡ r2 * z1 - r1 * z2 [ZMOD n] := Int.mod_modEq _ _
  have : k1 * (r2 * s1 % (n : Int)) + k2 * (-r1 * s2 % (n : Int)) - (r2 * z1 - r1 * z2) % (n : Int)
      ≡ 0 [ZMOD n] := by
    calc k1 * (r2 * s1 % (n : Int)) + k2 * (-r1 * s2 % (n : Int)) - (r2 * z1 - r1 * z2) % (n : Int)
        ≡ k1 * (r2 * s1) + k2 * (-r1 * s2) - (r2 * z1 - r1 * z2) [ZMOD n] :=
          ((hA.mul_left k1).add (hB.mul_left k2)).sub hW
      _ = r2 * (s1 * k1 - z1) - r1 * (s2 * k2 - z2) := by ring
      _ ≡ r2 * (r1 * x) - r1 * (r2 * x) [ZMOD n] := (hP.mul_left r2).sub (hQ.mul_left r1)
      _ = 0 := by ring
  simpa [Int.ModEq] using this

end Paranoid.Hnp
