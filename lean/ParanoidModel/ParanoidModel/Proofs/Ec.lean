/-
Proofs/Ec.lean — bridge between the integer model (Model/Ec.lean) and `ZMod p`, the Mathlib curve
`W c`, the abstraction function `toPoint`, and the refinement of the affine operations
(Negate, Double, Add, Subtract) to Mathlib's group law on `WeierstrassCurve.Affine.Point`.
-/
import ParanoidModel.Model.Ec
import ParanoidModel.Proofs.Basic
import Mathlib.AlgebraicGeometry.EllipticCurve.Affine.Point
import Mathlib.Algebra.Field.ZMod
import Mathlib.Tactic.FieldSimp
import Mathlib.Tactic.LinearCombination

namespace Paranoid.Ec
open Paranoid WeierstrassCurve

variable (c : Curve)

/-- the field `GF(p)` -/
abbrev F := ZMod c.p

theorem cast_red (v : Int) : ((c.red v : Int) : ZMod c.p) = (v : ZMod c.p) := by
  unfold Curve.red
  exact ZMod.intCast_mod v c.p

theorem red_eq_zero_iff (v : Int) : c.red v = 0 ↔ ((v : Int) : ZMod c.p) = 0 := by
  unfold Curve.red
  rw [ZMod.intCast_zmod_eq_zero_iff_dvd]
  exact (Int.dvd_iff_emod_eq_zero ..).symm

theorem red_nonneg (hp : 0 < c.p) (v : Int) : 0 ≤ c.red v :=
  Int.emod_nonneg v (by omega)

theorem red_lt (hp : 0 < c.p) (v : Int) : c.red v < c.p :=
  Int.emod_lt_of_pos v (by omega)

/-- two reduced integers with the same residue are equal. -/
theorem eq_of_cast_eq {u v : Int} (hu0 : 0 ≤ u) (hu : u < c.p) (hv0 : 0 ≤ v) (hv : v < c.p)
    (h : (u : ZMod c.p) = (v : ZMod c.p)) : u = v := by
  rw [ZMod.intCast_eq_intCast_iff] at h
  have := h.eq
  rw [Int.emod_eq_of_lt hu0 hu, Int.emod_eq_of_lt hv0 hv] at this
  exact this

variable [hp : Fact (Nat.Prime c.p)]

theorem inv_cases (v : Int) :
    ((v : ZMod c.p) ≠ 0 ∧ ∃ i : Int, c.inv v = .ok i ∧ 0 ≤ i ∧ i < c.p ∧ (i : ZMod c.p) = (v : ZMod c.p)⁻¹) ∨
    ((v : ZMod c.p) = 0 ∧ c.inv v = .error .zeroDivision) := by
  have hp2 : 2 ≤ c.p := hp.out.two_le
  rcases invMod_cases v c.p hp2 with ⟨hg, x, hx, hlt, hmul⟩ | ⟨hg, he⟩
  · left
    have hne : (v : ZMod c.p) ≠ 0 := by
      intro h0
      rw [ZMod.intCast_zmod_eq_zero_iff_dvd] at h0
      have : (c.p : Int) ∣ Int.gcd v c.p := Int.dvd_coe_gcd h0 (dvd_refl _)
      rw [hg] at this
      have := Int.le_of_dvd (by norm_num) this
      omega
    refine ⟨hne, (x : Int), ?_, by omega, by omega, ?_⟩
    · simp [Curve.inv, hx]
    · have h1 : ((v * (x : Int) : Int) : ZMod c.p) = 1 := by
        have := congrArg (Int.cast (R := ZMod c.p)) hmul
        rw [ZMod.intCast_mod] at this
        simpa using this
      rw [Int.cast_mul] at h1
      exact eq_inv_of_mul_eq_one_right h1
  · right
    refine ⟨?_, by simp [Curve.inv, he]⟩
    by_contra hne
    apply hg
    rw [ZMod.intCast_zmod_eq_zero_iff_dvd] at hne
    have hcop : Nat.Coprime c.p v.natAbs := by
      rw [Nat.Prime.coprime_iff_not_dvd hp.out]
      intro h
      exact hne (Int.natCast_dvd.mpr h)
    rw [Int.gcd_comm]
    simpa [Int.gcd] using hcop


/-- a reduced integer is `0` iff it is `0` in `ZMod p`. -/
theorem red_cast_eq_zero (v : Int) : c.red v = 0 ↔ ((c.red v : Int) : ZMod c.p) = 0 := by
  rw [cast_red, red_eq_zero_iff]

theorem red_eq_red_iff (u v : Int) : c.red u = c.red v ↔ (u : ZMod c.p) = (v : ZMod c.p) := by
  have hpos : 0 < c.p := hp.out.pos
  constructor
  · intro h
    have := congrArg (Int.cast (R := ZMod c.p)) h
    rwa [cast_red, cast_red] at this
  · intro h
    apply eq_of_cast_eq c (red_nonneg c hpos u) (red_lt c hpos u) (red_nonneg c hpos v) (red_lt c hpos v)
    rwa [cast_red, cast_red]

/-! ### the Mathlib curve and the abstraction function -/

/-- hypotheses on the curve parameters (besides primality of `p`): odd characteristic and
non-zero discriminant `4a³ + 27b²`. -/
structure Curve.Good (c : Curve) : Prop where
  two : c.p ≠ 2
  discr : c.discrNonzero = true

/-- `y² = x³ + a x + b` over `ZMod p` as a Mathlib Weierstrass curve. -/
def W : WeierstrassCurve.Affine (ZMod c.p) := ⟨0, 0, 0, (c.a : ZMod c.p), (c.b : ZMod c.p)⟩

@[simp] theorem W_a₁ : (W c).a₁ = 0 := rfl
@[simp] theorem W_a₂ : (W c).a₂ = 0 := rfl
@[simp] theorem W_a₃ : (W c).a₃ = 0 := rfl
@[simp] theorem W_a₄ : (W c).a₄ = (c.a : ZMod c.p) := rfl
@[simp] theorem W_a₆ : (W c).a₆ = (c.b : ZMod c.p) := rfl

theorem two_ne_zero' (hc : c.Good) : (2 : ZMod c.p) ≠ 0 := by
  intro h
  have h2 : ((2 : ℕ) : ZMod c.p) = 0 := by exact_mod_cast h
  rw [ZMod.natCast_eq_zero_iff] at h2
  exact hc.two ((Nat.prime_dvd_prime_iff_eq hp.out Nat.prime_two).mp h2)

theorem W_Δ_ne_zero (hc : c.Good) : (W c).Δ ≠ 0 := by
  have hd := hc.discr
  simp only [Curve.discrNonzero, bne_iff_ne, ne_eq, red_eq_zero_iff] at hd
  have h2 := two_ne_zero' c hc
  have e : (W c).Δ = -(2 : ZMod c.p) ^ 4 * ((4 * c.a * c.a * c.a + 27 * c.b * c.b : Int) : ZMod c.p) := by
    simp only [WeierstrassCurve.Δ, WeierstrassCurve.b₂, WeierstrassCurve.b₄, WeierstrassCurve.b₆,
      WeierstrassCurve.b₈, W_a₁, W_a₂, W_a₃, W_a₄, W_a₆]
    push_cast
    ring
  rw [e]
  exact mul_ne_zero (neg_ne_zero.mpr (pow_ne_zero 4 h2)) hd

theorem equation_iff_cast (x y : Int) : (W c).Equation (x : ZMod c.p) (y : ZMod c.p) ↔
    (((x * x + c.a) * x + c.b - y * y : Int) : ZMod c.p) = 0 := by
  rw [Affine.equation_iff]
  simp only [W_a₁, W_a₂, W_a₃, W_a₄, W_a₆]
  push_cast
  constructor <;> intro h <;> linear_combination (-1 : ZMod c.p) * h

theorem onCurve_aff_iff (x y : Int) :
    onCurve c (.aff x y) = true ↔ (W c).Equation (x : ZMod c.p) (y : ZMod c.p) := by
  rw [equation_iff_cast]
  simp only [onCurve, beq_iff_eq, red_eq_zero_iff]

theorem nonsingular_of_onCurve (hc : c.Good) {x y : Int} (h : onCurve c (.aff x y) = true) :
    (W c).Nonsingular (x : ZMod c.p) (y : ZMod c.p) :=
  (Affine.equation_iff_nonsingular_of_Δ_ne_zero (W_Δ_ne_zero c hc)).mp ((onCurve_aff_iff c x y).mp h)

open Classical in
/-- abstraction function: the group element denoted by a model point (`0` for points that are not
on the curve; every theorem below assumes `onCurve`). -/
noncomputable def toPoint : Pt → (W c).Point
  | .inf => 0
  | .aff x y =>
    if h : (W c).Nonsingular (x : ZMod c.p) (y : ZMod c.p) then Affine.Point.some _ _ h else 0

@[simp] theorem toPoint_inf : toPoint c .inf = 0 := rfl

theorem toPoint_aff {x y : Int} (h : (W c).Nonsingular (x : ZMod c.p) (y : ZMod c.p)) :
    toPoint c (.aff x y) = Affine.Point.some _ _ h := by
  simp only [toPoint, dif_pos h]

theorem some_congr {x y x' y' : ZMod c.p} (h : (W c).Nonsingular x y) (hx : x = x') (hy : y = y')
    (h' : (W c).Nonsingular x' y') : Affine.Point.some x y h = Affine.Point.some x' y' h' := by
  subst hx; subst hy; rfl

/-- a model point whose coordinates are congruent to `(X, Y)` denotes `some X Y`. -/
theorem toPoint_eq {x y : Int} {X Y : ZMod c.p} (hx : (x : ZMod c.p) = X) (hy : (y : ZMod c.p) = Y)
    (h : (W c).Nonsingular X Y) : toPoint c (.aff x y) = Affine.Point.some X Y h := by
  subst hx; subst hy; exact toPoint_aff c h

/-- a model point whose coordinates are congruent to a nonsingular `(X, Y)` is on the curve and
denotes `some X Y`. -/
theorem aff_spec {x y : Int} {X Y : ZMod c.p} (hx : (x : ZMod c.p) = X) (hy : (y : ZMod c.p) = Y)
    (h : (W c).Nonsingular X Y) :
    onCurve c (.aff x y) = true ∧ toPoint c (.aff x y) = Affine.Point.some X Y h := by
  subst hx; subst hy
  exact ⟨(onCurve_aff_iff c x y).mpr h.1, toPoint_aff c h⟩

theorem onCurve_of_nonsingular {x y : Int} (h : (W c).Nonsingular (x : ZMod c.p) (y : ZMod c.p)) :
    onCurve c (.aff x y) = true := (onCurve_aff_iff c x y).mpr h.1


/-! ### Negate, Double, Add, Subtract refine the group law -/

theorem negate_onCurve (P : Pt) (hP : onCurve c P = true) : onCurve c (negate c P) = true := by
  cases P with
  | inf => rfl
  | aff x y =>
    rw [negate, onCurve_aff_iff]
    rw [onCurve_aff_iff] at hP
    rw [Affine.equation_iff] at hP ⊢
    simp only [cast_red, W_a₁, W_a₂, W_a₃, W_a₄, W_a₆, Int.cast_neg] at hP ⊢
    linear_combination hP

theorem negate_refines (hc : c.Good) (P : Pt) (hP : onCurve c P = true) :
    toPoint c (negate c P) = - toPoint c P := by
  cases P with
  | inf => simp [negate]
  | aff x y =>
    have h := nonsingular_of_onCurve c hc hP
    rw [toPoint_aff c h, Affine.Point.neg_some, negate]
    apply toPoint_eq c rfl
    simp [cast_red, Affine.negY]

omit hp in
theorem double_aff (x y : Int) : double c (.aff x y) =
    if c.red y = 0 then .ok .inf
    else match c.inv (2 * y) with
      | .error e => .error e
      | .ok i => .ok (tangent c (doubleSlope c x i) x y) := rfl

theorem double_refines (hc : c.Good) (P : Pt) (hP : onCurve c P = true) :
    ∃ R, double c P = .ok R ∧ onCurve c R = true ∧ toPoint c R = toPoint c P + toPoint c P := by
  cases P with
  | inf => exact ⟨.inf, rfl, rfl, by simp⟩
  | aff x y =>
    have h := nonsingular_of_onCurve c hc hP
    have h2 := two_ne_zero' c hc
    rw [toPoint_aff c h]
    rw [double_aff]
    by_cases hy : c.red y = 0
    · rw [if_pos hy]
      refine ⟨.inf, rfl, rfl, ?_⟩
      rw [red_eq_zero_iff] at hy
      rw [toPoint_inf, Affine.Point.add_self_of_Y_eq]
      simp [Affine.negY, hy]
    · rw [if_neg hy]
      rw [red_eq_zero_iff] at hy
      have hy2 : ((2 * y : Int) : ZMod c.p) ≠ 0 := by
        push_cast; exact mul_ne_zero h2 hy
      rcases inv_cases c (2 * y) with ⟨_, i, hi, _, _, hiv⟩ | ⟨h0, _⟩
      swap
      · exact absurd h0 hy2
      rw [hi]
      have hne : (y : ZMod c.p) ≠ (W c).negY x y := by
        simp only [Affine.negY, W_a₁, W_a₃, zero_mul, sub_zero]
        intro he
        apply hy
        have : (2 : ZMod c.p) * y = 0 := by linear_combination he
        exact (mul_eq_zero.mp this).resolve_left h2
      have hns := Affine.nonsingular_add h h (fun hxy => hne hxy.2)
      have key : onCurve c (tangent c (doubleSlope c x i) x y) = true ∧
          toPoint c (tangent c (doubleSlope c x i) x y) = Affine.Point.some _ _ hns := by
        unfold tangent
        have hsl : ((doubleSlope c x i : Int) : ZMod c.p) = (W c).slope x x y y := by
          rw [Affine.slope_of_Y_ne rfl hne]
          simp only [doubleSlope, cast_red, Int.cast_mul, Int.cast_add, hiv, Affine.negY, W_a₁,
            W_a₂, W_a₃, W_a₄]
          have h3 : (y : ZMod c.p) - (-(y : ZMod c.p) - 0 * x - 0) = 2 * y := by ring
          rw [h3]
          push_cast
          field_simp
          ring
        apply aff_spec c
        · simp only [cast_red, Int.cast_sub, Int.cast_mul, hsl, Affine.addX, W_a₁, W_a₂]
          push_cast; ring
        · simp only [cast_red, Int.cast_sub, Int.cast_mul, hsl, Affine.addY, Affine.negAddY,
            Affine.addX, Affine.negY, W_a₁, W_a₂, W_a₃]
          push_cast; ring
      exact ⟨_, rfl, key.1, by rw [key.2, Affine.Point.add_self_of_Y_ne hne]⟩


omit hp in
theorem add_aff (x1 y1 x2 y2 : Int) : add c (.aff x1 y1) (.aff x2 y2) =
    if c.red (x1 - x2) = 0 then
      if c.red (y1 - y2) = 0 then double c (.aff x1 y1) else .ok .inf
    else match c.inv (x1 - x2) with
      | .error e => .error e
      | .ok i => .ok (chord c (c.red ((y1 - y2) * i)) x1 y1 x2) := rfl

/-- the chord formula with slope `t ≡ (y1 - y2)/(x1 - x2)` is Mathlib's addition for `x1 ≠ x2`. -/
theorem chord_spec {x1 y1 x2 y2 t : Int}
    (h1 : (W c).Nonsingular (x1 : ZMod c.p) (y1 : ZMod c.p))
    (h2 : (W c).Nonsingular (x2 : ZMod c.p) (y2 : ZMod c.p))
    (hx : (x1 : ZMod c.p) ≠ (x2 : ZMod c.p))
    (ht : (t : ZMod c.p) = ((y1 : ZMod c.p) - y2) / ((x1 : ZMod c.p) - x2)) :
    onCurve c (chord c t x1 y1 x2) = true ∧
    toPoint c (chord c t x1 y1 x2) = Affine.Point.some _ _ h1 + Affine.Point.some _ _ h2 := by
  rw [Affine.Point.add_of_X_ne hx]
  unfold chord chordX
  apply aff_spec c
  · simp only [cast_red, Int.cast_sub, Int.cast_mul, ht, Affine.addX, W_a₁, W_a₂,
      Affine.slope_of_X_ne hx]
    ring
  · simp only [cast_red, Int.cast_sub, Int.cast_mul, ht, Affine.addY, Affine.negAddY,
      Affine.addX, Affine.negY, W_a₁, W_a₂, W_a₃, Affine.slope_of_X_ne hx]
    ring

theorem add_refines (hc : c.Good) (P Q : Pt) (hP : onCurve c P = true) (hQ : onCurve c Q = true) :
    ∃ R, add c P Q = .ok R ∧ onCurve c R = true ∧ toPoint c R = toPoint c P + toPoint c Q := by
  cases P with
  | inf => exact ⟨Q, by cases Q <;> rfl, hQ, by simp⟩
  | aff x1 y1 =>
  cases Q with
  | inf => exact ⟨_, rfl, hP, by simp⟩
  | aff x2 y2 =>
    have h1 := nonsingular_of_onCurve c hc hP
    have h2 := nonsingular_of_onCurve c hc hQ
    rw [add_aff]
    by_cases hx : c.red (x1 - x2) = 0
    · rw [if_pos hx]
      rw [red_eq_zero_iff, Int.cast_sub, sub_eq_zero] at hx
      by_cases hy : c.red (y1 - y2) = 0
      · rw [if_pos hy]
        rw [red_eq_zero_iff, Int.cast_sub, sub_eq_zero] at hy
        obtain ⟨R, hR, hon, hto⟩ := double_refines c hc _ hP
        refine ⟨R, hR, hon, ?_⟩
        rw [hto, toPoint_aff c h1, toPoint_aff c h2]
        congr 1
        exact some_congr c h1 hx hy h2
      · rw [if_neg hy]
        rw [red_eq_zero_iff, Int.cast_sub, sub_eq_zero] at hy
        refine ⟨.inf, rfl, rfl, ?_⟩
        rw [toPoint_aff c h1, toPoint_aff c h2, toPoint_inf]
        exact (Affine.Point.add_of_Y_eq hx ((Affine.Y_eq_of_X_eq h1.1 h2.1 hx).resolve_left hy)).symm
    · rw [if_neg hx]
      rw [red_eq_zero_iff, Int.cast_sub, sub_eq_zero] at hx
      have hd : ((x1 - x2 : Int) : ZMod c.p) ≠ 0 := by
        rw [Int.cast_sub]; exact sub_ne_zero.mpr hx
      rcases inv_cases c (x1 - x2) with ⟨_, i, hi, _, _, hiv⟩ | ⟨h0, _⟩
      swap
      · exact absurd h0 hd
      rw [hi]
      have := chord_spec c (t := c.red ((y1 - y2) * i)) h1 h2 hx (by
        rw [cast_red, Int.cast_mul, hiv]; push_cast; rw [div_eq_mul_inv])
      exact ⟨_, rfl, this.1, by rw [this.2, toPoint_aff c h1, toPoint_aff c h2]⟩

theorem subtract_refines (hc : c.Good) (P Q : Pt) (hP : onCurve c P = true) (hQ : onCurve c Q = true) :
    ∃ R, subtract c P Q = .ok R ∧ onCurve c R = true ∧ toPoint c R = toPoint c P - toPoint c Q := by
  obtain ⟨R, h1, h2, h3⟩ := add_refines c hc P (negate c Q) hP (negate_onCurve c Q hQ)
  exact ⟨R, h1, h2, by rw [h3, negate_refines c hc Q hQ, sub_eq_add_neg]⟩

/-! ### totality of the patched Add / Double on arbitrary integer inputs -/

theorem two_ne_zero_of_ne_two (h2 : c.p ≠ 2) : (2 : ZMod c.p) ≠ 0 := by
  intro h
  have h2' : ((2 : ℕ) : ZMod c.p) = 0 := by exact_mod_cast h
  rw [ZMod.natCast_eq_zero_iff] at h2'
  exact h2 ((Nat.prime_dvd_prime_iff_eq hp.out Nat.prime_two).mp h2')

/-- the patched `Double` is total: it never raises, for ANY integer coordinates (on the curve or
not), when `p` is an odd prime. -/
theorem double_total (h2 : c.p ≠ 2) (P : Pt) : ∃ R, double c P = .ok R := by
  cases P with
  | inf => exact ⟨_, rfl⟩
  | aff x y =>
    rw [double_aff]
    by_cases hy : c.red y = 0
    · rw [if_pos hy]; exact ⟨_, rfl⟩
    · rw [if_neg hy]
      rw [red_eq_zero_iff] at hy
      rcases inv_cases c (2 * y) with ⟨_, i, hi, _⟩ | ⟨h0, _⟩
      · rw [hi]; exact ⟨_, rfl⟩
      · exfalso
        push_cast at h0
        rcases mul_eq_zero.mp h0 with h | h
        · exact two_ne_zero_of_ne_two c h2 h
        · exact hy h

/-- the patched `Add` is total for ANY pair of integer points when `p` is an odd prime. -/
theorem add_total (h2 : c.p ≠ 2) (P Q : Pt) : ∃ R, add c P Q = .ok R := by
  cases P with
  | inf => cases Q <;> exact ⟨_, rfl⟩
  | aff x1 y1 =>
  cases Q with
  | inf => exact ⟨_, rfl⟩
  | aff x2 y2 =>
    rw [add_aff]
    by_cases hx : c.red (x1 - x2) = 0
    · rw [if_pos hx]
      by_cases hy : c.red (y1 - y2) = 0
      · rw [if_pos hy]; exact double_total c h2 _
      · rw [if_neg hy]; exact ⟨_, rfl⟩
    · rw [if_neg hx]
      rw [red_eq_zero_iff] at hx
      rcases inv_cases c (x1 - x2) with ⟨_, i, hi, _⟩ | ⟨h0, _⟩
      · rw [hi]; exact ⟨_, rfl⟩
      · exact absurd h0 hx

theorem subtract_total (h2 : c.p ≠ 2) (P Q : Pt) : ∃ R, subtract c P Q = .ok R :=
  add_total c h2 P (negate c Q)

end Paranoid.Ec
