/-
Proofs/EcAll.lean — glue lemmas for Props/EcAll.lean: how the composed entry-point models of
Model/EcAll.lean decompose into the pieces the existing theorems (C02S, C06, C10, C16, C18) are
about.  Nothing about the pieces themselves is re-proved here.
-/
import ParanoidModel.Model.EcAll
import ParanoidModel.Props.C16
import ParanoidModel.Props.C18
import ParanoidModel.Props.C06
namespace Paranoid.EcAll
open Paranoid Paranoid.Ec Paranoid.Bsgs

/-! ### the regenerated registry and factory -/

/-- the factory of Model/EcAll is the factory Props/C10, C06 talk about. -/
theorem ecFactory_eq : ecFactory = regenFactory := rfl

theorem ecAll_eq : ecAll =
    [⟨"CheckValidECKey", 2, false, false, false⟩, ⟨"CheckWeakCurve", 2, true, false, false⟩,
     ⟨"CheckWeakECPrivateKey", 4, true, false, false⟩,
     ⟨"CheckECKeySmallDifference", 3, true, false, false⟩] := by decide +kernel

theorem ecdsaAll_eq : ecdsaAll =
    [⟨"CheckLCGNonceGMP", 4, true, false, false⟩,
     ⟨"CheckLCGNonceJavaUtilRandom", 4, true, false, false⟩,
     ⟨"CheckNonceMSB", 4, true, false, false⟩, ⟨"CheckNonceCommonPrefix", 4, true, false, false⟩,
     ⟨"CheckNonceCommonPostfix", 4, true, false, false⟩,
     ⟨"CheckNonceGeneralized", 4, true, false, false⟩, ⟨"CheckIssuerKey", 0, false, false, true⟩,
     ⟨"CheckCr50U2f", 4, true, false, false⟩] := by decide +kernel

theorem factoryGet_of_mem {f : Factory} (hnd : (f.map (·.id)).Nodup) {e : FEntry} (he : e ∈ f) :
    factoryGet f e.id = e.curve := by
  induction f with
  | nil => cases he
  | cons e' es ih =>
    rw [List.map_cons, List.nodup_cons] at hnd
    rw [factoryGet]
    rcases List.mem_cons.mp he with rfl | he
    · rw [if_pos rfl]
    · have : e'.id ≠ e.id := fun h => hnd.1 (List.mem_map.mpr ⟨e, he, h.symm⟩)
      rw [if_neg this]
      exact ih hnd.2 he

/-- `Checks.known` (from `Consts.knownCurves`) and `CURVE_FACTORY.get(...) is not None` (from
`Consts.ecCurveFactory`) are the same predicate on curve ids. -/
theorem ecFactory_nodup : (ecFactory.map (·.id)).Nodup := regenFactory_nodup

theorem factoryGet_isSome (id : Nat) :
    (factoryGet ecFactory id).isSome = Consts.knownCurves.contains id := by
  have hk : Consts.knownCurves = (ecFactory.filter (·.curve.isSome)).map (·.id) := by
    decide +kernel
  have hnd : (ecFactory.map (·.id)).Nodup := regenFactory_nodup
  apply Bool.eq_iff_iff.mpr
  rw [List.contains_iff_mem, hk, List.mem_map]
  constructor
  · intro h
    obtain ⟨c, hc⟩ := Option.isSome_iff_exists.mp h
    obtain ⟨e, he, hid, hcur⟩ := factoryGet_mem hc
    exact ⟨e, List.mem_filter.mpr ⟨he, by rw [hcur]; rfl⟩, hid⟩
  · rintro ⟨e, he, hid⟩
    obtain ⟨he1, he2⟩ := List.mem_filter.mp he
    rw [← hid, factoryGet_of_mem hnd he1]
    exact he2

theorem known_keyOf (a : Artifact) : known a = (factoryGet ecFactory (keyOf a).curveType).isSome := by
  rw [factoryGet_isSome]; rfl

/-! ### CheckWeakECPrivateKey with the bound as a parameter -/

theorem weakKeyLoopB_eq {τ} (I : TableImpl τ) (keys : List ECKey) :
    ∀ (f : Factory) (sts : List (StateG τ)) (os : List (Nat × Nat)) (res : List Bsgs.KeyVerdict),
      weakKeyLoopB I (2 ^ 32) keys f sts os res = weakKeyLoop I keys f sts os res := by
  intro f
  induction f with
  | nil => intro sts os res; simp [weakKeyLoopB, weakKeyLoop]
  | cons e es ih =>
    intro sts os res
    cases sts with
    | nil => simp [weakKeyLoopB, weakKeyLoop]
    | cons st sts =>
      cases os with
      | nil => simp [weakKeyLoopB, weakKeyLoop]
      | cons o os =>
        simp only [weakKeyLoopB, weakKeyLoop, ih, extendedBatchDLG]
        rfl

theorem checkWeakECPrivateKeyB_eq (f : Factory) (sts : List EcState) (orc : List (Nat × Nat))
    (keys : List ECKey) :
    checkWeakECPrivateKeyB listImpl (2 ^ 32) f sts orc keys = checkWeakECPrivateKey f sts orc keys :=
  weakKeyLoopB_eq listImpl keys f sts orc _

/-! ### where a written verdict comes from (no hypothesis on the batch) -/

theorem scatter_origin : ∀ (idxs : List Nat) (vs : List KV) (res : List Bsgs.KeyVerdict) (p : Nat) (kv : KV),
    (scatter res idxs vs)[p]? = some (some kv) →
    res[p]? = some (some kv) ∨ ∃ r : Nat, idxs[r]? = some p ∧ vs[r]? = some kv
  | [], _, res, p, kv, h => by simp only [scatter] at h; exact .inl h
  | _ :: _, [], res, p, kv, h => by simp only [scatter] at h; exact .inl h
  | i :: is, v :: vs, res, p, kv, h => by
    rw [scatter] at h
    rcases scatter_origin is vs _ p kv h with h1 | ⟨r, hr1, hr2⟩
    · rw [List.getElem?_set] at h1
      split at h1
      · rename_i hip
        split at h1
        · cases h1
          exact .inr ⟨0, by simp [hip], by simp⟩
        · cases h1
      · exact .inl h1
    · exact .inr ⟨r + 1, by simpa using hr1, by simpa using hr2⟩

theorem consState_inv {σ} {st : σ} {r : Except PyErr (List Bsgs.KeyVerdict × List σ)}
    {res : List Bsgs.KeyVerdict} {sts : List σ} (h : consState st r = .ok (res, sts)) :
    ∃ sts0, r = .ok (res, sts0) ∧ sts = st :: sts0 := by
  cases r with
  | error e => cases h
  | ok x =>
    obtain ⟨a, b⟩ := x
    simp only [consState, Except.ok.injEq, Prod.mk.injEq] at h
    exact ⟨b, by rw [h.1], h.2.symm⟩

/-- every verdict CheckWeakECPrivateKey leaves in the result list was there before or is
`dlogVerdict` of the answer of ONE `ExtendedBatchDL` call on the key's own curve group, at the key's
rank in that group. -/
theorem weakKeyLoopB_origin (bound : Nat) (keys : List ECKey) :
    ∀ (f : Factory) (sts : List EcState) (os : List (Nat × Nat)) (res res' : List Bsgs.KeyVerdict)
      (sts' : List EcState),
      weakKeyLoopB listImpl bound keys f sts os res = .ok (res', sts') →
      ∀ (p : Nat) (kv : KV), res'[p]? = some (some kv) → res[p]? = some (some kv) ∨
        ∃ (e : FEntry) (c : Curve) (st : EcState) (o : Nat × Nat) (dls : List (Option Int))
          (st1 : EcState) (r : Nat) (x : Option Int), e ∈ f ∧ e.curve = some c ∧
          extendedBatchDLB listImpl c bound st (groupPoints e.id keys) o.1 o.2 = .ok (dls, st1) ∧
          (keyIdxs e.id keys 0)[r]? = some p ∧ dls[r]? = some x ∧ kv = dlogVerdict x := by
  intro f
  induction f with
  | nil =>
    intro sts os res res' sts' h p kv hp
    simp only [weakKeyLoopB, Except.ok.injEq, Prod.mk.injEq] at h
    rw [h.1]; exact .inl hp
  | cons e es ih =>
    intro sts os res res' sts' h p kv hp
    cases sts with
    | nil => simp only [weakKeyLoopB, Except.ok.injEq, Prod.mk.injEq] at h; rw [h.1]; exact .inl hp
    | cons st sts =>
    cases os with
    | nil => simp only [weakKeyLoopB, Except.ok.injEq, Prod.mk.injEq] at h; rw [h.1]; exact .inl hp
    | cons o os =>
    rw [weakKeyLoopB] at h
    have lift : ∀ (res0 : List Bsgs.KeyVerdict),
        (res0[p]? = some (some kv) ∨
          ∃ (e' : FEntry) (c : Curve) (st : EcState) (o : Nat × Nat) (dls : List (Option Int))
            (st1 : EcState) (r : Nat) (x : Option Int), e' ∈ es ∧ e'.curve = some c ∧
            extendedBatchDLB listImpl c bound st (groupPoints e'.id keys) o.1 o.2 = .ok (dls, st1) ∧
            (keyIdxs e'.id keys 0)[r]? = some p ∧ dls[r]? = some x ∧ kv = dlogVerdict x) →
        res0[p]? = some (some kv) ∨
          ∃ (e' : FEntry) (c : Curve) (st : EcState) (o : Nat × Nat) (dls : List (Option Int))
            (st1 : EcState) (r : Nat) (x : Option Int), e' ∈ e :: es ∧ e'.curve = some c ∧
            extendedBatchDLB listImpl c bound st (groupPoints e'.id keys) o.1 o.2 = .ok (dls, st1) ∧
            (keyIdxs e'.id keys 0)[r]? = some p ∧ dls[r]? = some x ∧ kv = dlogVerdict x := by
      rintro res0 (h0 | ⟨e', c, st, o, dls, st1, r, x, he', rest⟩)
      · exact .inl h0
      · exact .inr ⟨e', c, st, o, dls, st1, r, x, List.mem_cons_of_mem _ he', rest⟩
    cases hcur : e.curve with
    | none =>
      rw [hcur] at h
      obtain ⟨sts0, h0, _⟩ := consState_inv h
      exact lift _ (ih sts os res res' sts0 h0 p kv hp)
    | some c =>
      rw [hcur] at h
      simp only at h
      split at h
      · obtain ⟨sts0, h0, _⟩ := consState_inv h
        exact lift _ (ih sts os res res' sts0 h0 p kv hp)
      · split at h
        · cases h
        · rename_i dls st1 hext
          obtain ⟨sts0, h0, _⟩ := consState_inv h
          rcases ih sts os _ res' sts0 h0 p kv hp with h1 | h1
          · rcases scatter_origin _ _ _ p kv h1 with h2 | ⟨r, hr1, hr2⟩
            · exact .inl h2
            · rw [List.getElem?_map] at hr2
              cases hx : dls[r]? with
              | none => rw [hx] at hr2; cases hr2
              | some x =>
                rw [hx] at hr2
                simp only [Option.map_some, Option.some.injEq] at hr2
                exact .inr ⟨e, c, st, o, dls, st1, r, x, List.mem_cons_self, hcur, hext, hr1, hx,
                  hr2.symm⟩
          · exact lift res (.inr h1)

/-- the same for CheckECKeySmallDifference and `BatchDLOfDifferences`. -/
theorem smallDiffLoop_origin (keys : List ECKey) (maxDiff : Nat) :
    ∀ (f : Factory) (sts : List EcState) (ms : List Nat) (res res' : List Bsgs.KeyVerdict)
      (sts' : List EcState),
      smallDiffLoop listImpl keys maxDiff f sts ms res = .ok (res', sts') →
      ∀ (p : Nat) (kv : KV), res'[p]? = some (some kv) → res[p]? = some (some kv) ∨
        ∃ (e : FEntry) (c : Curve) (st : EcState) (m : Nat) (rels : List (Option Rel))
          (st1 : EcState) (r : Nat) (x : Option Rel), e ∈ f ∧ e.curve = some c ∧
          batchDLOfDifferencesG listImpl c st (groupPoints e.id keys) [] maxDiff m = .ok (rels, st1) ∧
          (keyIdxs e.id keys 0)[r]? = some p ∧ rels[r]? = some x ∧ kv = diffVerdict x := by
  intro f
  induction f with
  | nil =>
    intro sts ms res res' sts' h p kv hp
    simp only [smallDiffLoop, Except.ok.injEq, Prod.mk.injEq] at h
    rw [h.1]; exact .inl hp
  | cons e es ih =>
    intro sts ms res res' sts' h p kv hp
    cases sts with
    | nil => simp only [smallDiffLoop, Except.ok.injEq, Prod.mk.injEq] at h; rw [h.1]; exact .inl hp
    | cons st sts =>
    cases ms with
    | nil => simp only [smallDiffLoop, Except.ok.injEq, Prod.mk.injEq] at h; rw [h.1]; exact .inl hp
    | cons m ms =>
    rw [smallDiffLoop] at h
    have lift : ∀ (res0 : List Bsgs.KeyVerdict),
        (res0[p]? = some (some kv) ∨
          ∃ (e' : FEntry) (c : Curve) (st : EcState) (m : Nat) (rels : List (Option Rel))
            (st1 : EcState) (r : Nat) (x : Option Rel), e' ∈ es ∧ e'.curve = some c ∧
            batchDLOfDifferencesG listImpl c st (groupPoints e'.id keys) [] maxDiff m = .ok (rels, st1) ∧
            (keyIdxs e'.id keys 0)[r]? = some p ∧ rels[r]? = some x ∧ kv = diffVerdict x) →
        res0[p]? = some (some kv) ∨
          ∃ (e' : FEntry) (c : Curve) (st : EcState) (m : Nat) (rels : List (Option Rel))
            (st1 : EcState) (r : Nat) (x : Option Rel), e' ∈ e :: es ∧ e'.curve = some c ∧
            batchDLOfDifferencesG listImpl c st (groupPoints e'.id keys) [] maxDiff m = .ok (rels, st1) ∧
            (keyIdxs e'.id keys 0)[r]? = some p ∧ rels[r]? = some x ∧ kv = diffVerdict x := by
      rintro res0 (h0 | ⟨e', c, st, m, rels, st1, r, x, he', rest⟩)
      · exact .inl h0
      · exact .inr ⟨e', c, st, m, rels, st1, r, x, List.mem_cons_of_mem _ he', rest⟩
    cases hcur : e.curve with
    | none =>
      rw [hcur] at h
      obtain ⟨sts0, h0, _⟩ := consState_inv h
      exact lift _ (ih sts ms res res' sts0 h0 p kv hp)
    | some c =>
      rw [hcur] at h
      simp only at h
      split at h
      · cases h
      · rename_i rels st1 hdiff
        obtain ⟨sts0, h0, _⟩ := consState_inv h
        rcases ih sts ms _ res' sts0 h0 p kv hp with h1 | h1
        · rcases scatter_origin _ _ _ p kv h1 with h2 | ⟨r, hr1, hr2⟩
          · exact .inl h2
          · rw [List.getElem?_map] at hr2
            cases hx : rels[r]? with
            | none => rw [hx] at hr2; cases hr2
            | some x =>
              rw [hx] at hr2
              simp only [Option.map_some, Option.some.injEq] at hr2
              exact .inr ⟨e, c, st, m, rels, st1, r, x, List.mem_cons_self, hcur, hdiff, hr1, hx,
                hr2.symm⟩
        · exact lift res (.inr h1)

/-! ### the bookkeeping layer: attached info after a history, totality without factor lists -/

def isFactorsOp : Op → Bool
  | .attachFactors _ _ => true
  | _ => false

/-- what one util call stores under the name `k` through `AttachInfo`. -/
def opInfo (k : String) : Op → Option AttachedValue
  | .attachInfo k' v => if k' = k then some v else none
  | _ => none

/-- the value the LAST `AttachInfo(k, ·)` of a history stores. -/
def lastInfo (k : String) : List Op → Option AttachedValue
  | [] => none
  | op :: ops => (lastInfo k ops).or (opInfo k op)

theorem getAttachedInfo_applyOps (ver k : String) : ∀ (ops : List Op) (ti t : TestInfo),
    applyOps ver ti ops = .ok t → (∀ op ∈ ops, isFactorsOp op = false) →
    getAttachedInfo t k = (lastInfo k ops).or (getAttachedInfo ti k) := by
  intro ops
  induction ops with
  | nil => intro ti t h _; simp only [applyOps, Except.ok.injEq] at h; subst h; rfl
  | cons op ops ih =>
    intro ti t h hnf
    rw [applyOps] at h
    split at h
    · rename_i t1 h1
      have := ih t1 t h (fun o ho => hnf o (List.mem_cons_of_mem _ ho))
      rw [this, lastInfo, Option.or_assoc]
      congr 1
      cases op with
      | setTestResult e => simp only [applyOp, Except.ok.injEq] at h1; subst h1; rfl
      | attachInfo k' v =>
        simp only [applyOp, Except.ok.injEq] at h1; subst h1
        rw [getAttachedInfo_attachInfo, opInfo]
        by_cases hk : k = k'
        · subst hk; simp
        · have : ¬ k' = k := fun h' => hk h'.symm
          simp [hk, this]
      | attachFactors k' fs =>
        have := hnf _ List.mem_cons_self
        simp [isFactorsOp] at this
    · cases h

theorem lastInfo_append_eq (k : String) (a b : List Op) :
    lastInfo k (a ++ b) = (lastInfo k b).or (lastInfo k a) := by
  induction a with
  | nil => simp [lastInfo]
  | cons op a ih => rw [List.cons_append, lastInfo, ih, lastInfo, Option.or_assoc]

theorem lastInfo_append (k : String) (a b : List Op) (x : AttachedValue)
    (h : lastInfo k (a ++ b) = some x) : lastInfo k a = some x ∨ lastInfo k b = some x := by
  rw [lastInfo_append_eq, Option.or_eq_some_iff] at h
  rcases h with h | ⟨_, h⟩
  · exact .inr h
  · exact .inl h

theorem lastInfo_flatMap {σ : Type} (k : String) (f : σ → List Op) (x : AttachedValue) :
    ∀ (ss : List σ), lastInfo k (ss.flatMap f) = some x → ∃ s ∈ ss, lastInfo k (f s) = some x
  | [], h => by simp [lastInfo] at h
  | s :: ss, h => by
    rw [List.flatMap_cons] at h
    rcases lastInfo_append k _ _ x h with h1 | h2
    · exact ⟨s, List.mem_cons_self, h1⟩
    · obtain ⟨s', hs', h'⟩ := lastInfo_flatMap k f x ss h2
      exact ⟨s', List.mem_cons_of_mem _ hs', h'⟩

theorem lastInfo_genOps (k : String) (c : CheckSpec) (v : Nat → Verdict) (j : Nat) (a : Artifact)
    (x : AttachedValue) (h : lastInfo k (genOps c v j a) = some x) :
    applicable c a = true ∧ (v j).positive = true ∧ (v j).info = some (k, x) := by
  unfold genOps at h
  split at h
  · rename_i happ
    unfold verdictOps at h
    split at h
    · rename_i hpos
      refine ⟨happ, hpos, ?_⟩
      unfold attachOps at h
      cases hf : (v j).factors <;> cases hi : (v j).info <;> rw [hf, hi] at h <;>
        simp [lastInfo, opInfo] at h
      all_goals
        rename_i q
        obtain ⟨q1, q2⟩ := q
        simp only at h
        obtain ⟨h1, h2⟩ := h
        subst h1; subst h2; rfl
    · simp [lastInfo, opInfo] at h
  · simp [lastInfo] at h

theorem lastInfo_issuerOps (k : String) (var : Variant) (c : CheckSpec) (keys : List Artifact)
    (a : Artifact) : lastInfo k (issuerOps var c keys a) = none := by
  induction keys with
  | nil => rfl
  | cons key keys ih =>
    rw [issuerOps]
    cases hq : lastInfo k ((if keyId var a = keyId var key then
        match issuerEntry c key with
        | .ok en => [Op.setTestResult en]
        | .error _ => []
       else []) ++ issuerOps var c keys a) with
    | none => rfl
    | some x =>
      rcases lastInfo_append k _ _ x hq with h1 | h2
      · split at h1
        · split at h1 <;> simp [lastInfo, opInfo] at h1
        · simp [lastInfo] at h1
      · rw [ih] at h2; cases h2

/-- an attached value found after `_CheckArtifacts` on an artefact without attached info under `k`
was attached by one of the checks that applies to the artefact, together with a positive result. -/
theorem lastInfo_allOps (k : String) (var : Variant) (ver : String) (ec : List CheckSpec)
    (steps : List Step) (st : List Artifact) (j : Nat) (a : Artifact) (x : AttachedValue)
    (h : lastInfo k (allOps var ver ec steps st j a) = some x) :
    ∃ s ∈ steps, s.spec.issuer = false ∧ applicable s.spec a = true ∧
      (s.verdict j).positive = true ∧ (s.verdict j).info = some (k, x) := by
  obtain ⟨s, hs, h'⟩ := lastInfo_flatMap k _ x steps h
  refine ⟨s, hs, ?_⟩
  unfold stepOps at h'
  split at h'
  · split at h'
    · rw [lastInfo_issuerOps] at h'; cases h'
    · simp [lastInfo] at h'
  · rename_i hiss
    exact ⟨by simpa using hiss, lastInfo_genOps k _ _ _ _ x h'⟩

theorem noFactors_genOps (c : CheckSpec) (v : Nat → Verdict) (j : Nat) (a : Artifact)
    (hv : (v j).factors = none) : ∀ op ∈ genOps c v j a, isFactorsOp op = false := by
  intro op hop
  unfold genOps at hop
  split at hop
  · unfold verdictOps attachOps at hop
    rw [hv] at hop
    split at hop
    · cases hi : (v j).info <;> rw [hi] at hop <;> simp at hop
      · subst hop; rfl
      · rcases hop with rfl | rfl <;> rfl
    · simp at hop; subst hop; rfl
  · cases hop

theorem noFactors_issuerOps (var : Variant) (c : CheckSpec) (keys : List Artifact) (a : Artifact) :
    ∀ op ∈ issuerOps var c keys a, isFactorsOp op = false := by
  induction keys with
  | nil => intro op hop; cases hop
  | cons key keys ih =>
    intro op hop
    rw [issuerOps, List.mem_append] at hop
    rcases hop with hop | hop
    · split at hop
      · split at hop
        · simp at hop; subst hop; rfl
        · cases hop
      · cases hop
    · exact ih op hop

theorem noFactors_allOps (var : Variant) (ver : String) (ec : List CheckSpec) (steps : List Step)
    (st : List Artifact) (j : Nat) (a : Artifact)
    (hv : ∀ s ∈ steps, ∀ i, (s.verdict i).factors = none) :
    ∀ op ∈ allOps var ver ec steps st j a, isFactorsOp op = false := by
  intro op hop
  unfold allOps at hop
  obtain ⟨s, hs, hop⟩ := List.mem_flatMap.mp hop
  unfold stepOps at hop
  split at hop
  · split at hop
    · exact noFactors_issuerOps _ _ _ _ op hop
    · cases hop
  · exact noFactors_genOps _ _ _ _ (hv s hs j) op hop

/-! totality of the bookkeeping layer when no check attaches a factor list -/

theorem applyOps_ok (ver : String) : ∀ (ops : List Op) (ti : TestInfo),
    (∀ op ∈ ops, isFactorsOp op = false) → ∃ t, applyOps ver ti ops = .ok t := by
  intro ops
  induction ops with
  | nil => intro ti _; exact ⟨ti, rfl⟩
  | cons op ops ih =>
    intro ti h
    rw [applyOps]
    cases op with
    | setTestResult e => exact ih _ (fun o ho => h o (List.mem_cons_of_mem _ ho))
    | attachInfo k v => exact ih _ (fun o ho => h o (List.mem_cons_of_mem _ ho))
    | attachFactors k fs => have := h _ List.mem_cons_self; simp [isFactorsOp] at this

theorem runCheckFrom_ok (ver : String) (c : CheckSpec) (v : Nat → Verdict)
    (hv : ∀ i, (v i).factors = none) : ∀ (arts : List Artifact) (i : Nat),
    ∃ r, runCheckFrom ver c v i arts = .ok r := by
  intro arts
  induction arts with
  | nil => intro i; exact ⟨_, rfl⟩
  | cons a as ih =>
    intro i
    rw [runCheckFrom]
    have h1 : ∃ r, checkOne ver c a (v i) = .ok r := by
      unfold checkOne
      split
      · obtain ⟨t, ht⟩ := applyOps_ok ver (verdictOps c (v i)) a.info (by
          have := noFactors_genOps c v i a (hv i)
          intro op hop
          apply this
          unfold genOps
          rw [if_pos ‹_›]; exact hop)
        rw [ht]; exact ⟨_, rfl⟩
      · exact ⟨_, rfl⟩
    obtain ⟨⟨a', w⟩, h1⟩ := h1
    obtain ⟨⟨as', w'⟩, h2⟩ := ih (i + 1)
    rw [h1, h2]
    exact ⟨_, rfl⟩

theorem foldChecks_ok {σ : Type} (run : σ → List Artifact → Except PyErr (List Artifact × Bool))
    (steps : List σ) (hrun : ∀ s ∈ steps, ∀ arts, ∃ r, run s arts = .ok r) :
    ∀ arts, ∃ r, foldChecks run steps arts = .ok r := by
  induction steps with
  | nil => intro arts; exact ⟨_, rfl⟩
  | cons s ss ih =>
    intro arts
    rw [foldChecks]
    obtain ⟨⟨arts1, r1⟩, h1⟩ := hrun s List.mem_cons_self arts
    obtain ⟨⟨arts2, r2⟩, h2⟩ := ih (fun s' hs' => hrun s' (List.mem_cons_of_mem _ hs')) arts1
    rw [h1]
    simp only
    rw [h2]
    exact ⟨_, rfl⟩

theorem copyBackAll_ok (var : Variant) (ver : String) (c : CheckSpec) :
    ∀ (keys : List Artifact), (∀ key ∈ keys, ∃ en, issuerEntry c key = .ok en) →
    ∀ arts, ∃ r, copyBackAll var ver c keys arts = .ok r := by
  intro keys
  induction keys with
  | nil => intro _ arts; exact ⟨_, rfl⟩
  | cons key keys ih =>
    intro h arts
    rw [copyBackAll]
    obtain ⟨en, hen⟩ := h key List.mem_cons_self
    rw [hen]
    obtain ⟨⟨arts', w⟩, h'⟩ := ih (fun k hk => h k (List.mem_cons_of_mem _ hk))
      (copyBack var ver en key arts)
    simp only
    rw [h']
    exact ⟨_, rfl⟩

theorem innerCheckAllEC_ok (ver : String) (ec : List CheckSpec) (inner : Nat → Nat → Verdict)
    (hin : ∀ j k, (inner j k).factors = none) (keys : List Artifact) :
    ∃ r, innerCheckAllEC ver ec inner keys = .ok r := by
  unfold innerCheckAllEC
  apply foldChecks_ok
  intro s _ arts
  exact runCheckFrom_ok ver s.1 (inner s.2) (hin s.2) arts 0

theorem checkIssuerKey_ok (var : Variant) (ver : String) (ec : List CheckSpec) (c : CheckSpec)
    (inner : Nat → Nat → Verdict) (hin : ∀ j k, (inner j k).factors = none) (arts : List Artifact) :
    ∃ r, checkIssuerKey var ver ec c inner arts = .ok r := by
  unfold checkIssuerKey
  obtain ⟨⟨keys', r'⟩, h⟩ := innerCheckAllEC_ok ver ec inner hin (issuerKeys var arts)
  rw [h]
  apply copyBackAll_ok
  intro key hkey
  have hpw := innerCheckAllEC_spec h
  obtain ⟨k, key0, hk0, hact⟩ := hpw.of_mem_right key hkey
  obtain ⟨a, _, rfl⟩ := issuerKeys_from var arts key0 hk0
  exact issuerEntry_ok_of_consistent c key (innerKey_state hact rfl).2.2

/-- `_CheckArtifacts` never raises when no check attaches a factor list (the EC and ECDSA checks
attach DISCRETE_LOG* through `AttachInfo` only). -/
theorem checkArtifacts_ok (var : Variant) (ver : String) (ec : List CheckSpec) (steps : List Step)
    (hv : ∀ s ∈ steps, (∀ i, (s.verdict i).factors = none) ∧ ∀ j k, (s.inner j k).factors = none)
    (arts : List Artifact) : ∃ r, checkArtifacts var ver ec steps arts = .ok r := by
  unfold checkArtifacts
  apply foldChecks_ok
  intro s hs arts'
  unfold runStep
  split
  · exact checkIssuerKey_ok var ver ec s.spec s.inner (hv s hs).2 arts'
  · exact runCheckFrom_ok ver s.spec s.verdict (hv s hs).1 arts' 0

/-- FRESH artefact: a value found under `k` after `_CheckArtifacts` was attached by a check that
applies to the artefact and flagged it. -/
theorem fresh_attached {var : Variant} {ver : String} {ec : List CheckSpec} {steps : List Step}
    {arts arts' : List Artifact} {r : Bool}
    (h : checkArtifacts var ver ec steps arts = .ok (arts', r))
    (hv : ∀ s ∈ steps, ∀ i, (s.verdict i).factors = none)
    {n : Nat} {a a' : Artifact} (ha : arts[n]? = some a) (ha' : arts'[n]? = some a')
    (hfresh : a.info = TestInfo.empty) (k : String) (x : AttachedValue)
    (hx : getAttachedInfo a'.info k = some x) :
    ∃ s ∈ steps, s.spec.issuer = false ∧ applicable s.spec a = true ∧
      (s.verdict n).positive = true ∧ (s.verdict n).info = some (k, x) := by
  obtain ⟨pw, _, _⟩ := checkArtifacts_spec h
  have hact := pw.get n a a' ha ha'
  rw [Nat.zero_add] at hact
  have hops := hact.2
  rw [getAttachedInfo_applyOps ver k _ _ _ hops (noFactors_allOps _ _ _ _ _ _ _ hv), hfresh] at hx
  have : getAttachedInfo TestInfo.empty k = none := rfl
  rw [this, Option.or_none] at hx
  exact lastInfo_allOps k var ver ec steps _ n a x hx

theorem mem_mkSteps {specs : List CheckSpec} {O : Nat → Nat → Verdict}
    {I : Nat → Nat → Nat → Verdict} {s : Step} (h : s ∈ mkSteps specs O I) :
    ∃ j c, specs[j]? = some c ∧ s = ⟨c, O j, I j⟩ := by
  unfold mkSteps at h
  obtain ⟨⟨c, j⟩, hm, rfl⟩ := List.mem_map.mp h
  have := List.mem_zipIdx hm
  simp only [Nat.zero_le, Nat.zero_add, Nat.sub_zero, true_and] at this
  exact ⟨j, c, by rw [List.getElem?_eq_getElem this.1]; exact congrArg some this.2.symm, rfl⟩

/-! ### decomposition of the EC entry point into the four check models -/

theorem liftPy_ok {α} {x : Except PyErr α} {a : α} (h : liftPy x = .ok a) : x = .ok a := by
  cases x with
  | error e => cases h
  | ok b => simp only [liftPy, Except.ok.injEq] at h; rw [h]

/-- the four registered EC checks, run one after another on the same curve objects. -/
theorem ecVerdictsG_ecAll (p : EcParams) (o : EcOracle) (keys : List ECKey) (sts : List EcState) :
    ecVerdictsG listImpl p o keys (ecAll.map (·.name)) sts =
      match checkValidECKey ecFactory keys with
      | .error e => .error (.py e)
      | .ok row1 =>
        match checkWeakECPrivateKeyB listImpl p.bound ecFactory sts o.wk keys with
        | .error e => .error (.py e)
        | .ok (row3, sts3) =>
          match checkECKeySmallDifferenceG listImpl ecFactory sts3 o.sd keys p.maxDiff with
          | .error e => .error (.py e)
          | .ok (row4, sts4) => .ok ([row1, checkWeakCurve ecFactory keys, row3, row4], sts4) := by
  rw [ecAll_eq]
  simp only [List.map_cons, List.map_nil, ecVerdictsG, runEcCheckG]
  have e1 : ¬ "CheckWeakCurve" = "CheckValidECKey" := by decide
  have e2 : ¬ "CheckWeakECPrivateKey" = "CheckValidECKey" := by decide
  have e3 : ¬ "CheckWeakECPrivateKey" = "CheckWeakCurve" := by decide
  have e4 : ¬ "CheckECKeySmallDifference" = "CheckValidECKey" := by decide
  have e5 : ¬ "CheckECKeySmallDifference" = "CheckWeakCurve" := by decide
  have e6 : ¬ "CheckECKeySmallDifference" = "CheckWeakECPrivateKey" := by decide
  simp only [if_true, if_neg e1, if_neg e2, if_neg e3, if_neg e4, if_neg e5, if_neg e6]
  cases checkValidECKey ecFactory keys with
  | error e => rfl
  | ok row1 =>
    simp only
    cases checkWeakECPrivateKeyB listImpl p.bound ecFactory sts o.wk keys with
    | error e => rfl
    | ok r3 =>
      obtain ⟨row3, sts3⟩ := r3
      simp only [liftPy]
      cases checkECKeySmallDifferenceG listImpl ecFactory sts3 o.sd keys p.maxDiff with
      | error e => rfl
      | ok r4 => obtain ⟨row4, sts4⟩ := r4; rfl

/-- what a successful run of the composed EC model consists of. -/
def EcRun (p : EcParams) (o : EcOracle) (sts : List EcState) (arts : List Artifact)
    (rows : List (List Bsgs.KeyVerdict)) (sts' : List EcState) : Prop :=
  ∃ (row1 row3 row4 : List Bsgs.KeyVerdict) (sts3 : List EcState),
    rows = [row1, checkWeakCurve ecFactory (arts.map keyOf), row3, row4] ∧
    checkValidECKey ecFactory (arts.map keyOf) = .ok row1 ∧
    checkWeakECPrivateKeyB listImpl p.bound ecFactory sts o.wk (arts.map keyOf) = .ok (row3, sts3) ∧
    checkECKeySmallDifferenceG listImpl ecFactory sts3 o.sd (arts.map keyOf) p.maxDiff =
      .ok (row4, sts') ∧
    shapeOK ecAll arts rows = true

theorem ecRowsG_ok {p : EcParams} {o : EcOracle} {sts : List EcState} {arts : List Artifact}
    {rows : List (List Bsgs.KeyVerdict)} {sts' : List EcState}
    (h : ecRowsG listImpl p o sts arts = .ok (rows, sts')) : EcRun p o sts arts rows sts' := by
  unfold ecRowsG at h
  rw [ecVerdictsG_ecAll] at h
  cases h1 : checkValidECKey ecFactory (arts.map keyOf) with
  | error e => rw [h1] at h; cases h
  | ok row1 =>
    rw [h1] at h
    simp only at h
    cases h3 : checkWeakECPrivateKeyB listImpl p.bound ecFactory sts o.wk (arts.map keyOf) with
    | error e => rw [h3] at h; cases h
    | ok r3 =>
      obtain ⟨row3, sts3⟩ := r3
      rw [h3] at h
      simp only at h
      cases h4 : checkECKeySmallDifferenceG listImpl ecFactory sts3 o.sd (arts.map keyOf) p.maxDiff with
      | error e => rw [h4] at h; cases h
      | ok r4 =>
        obtain ⟨row4, sts4⟩ := r4
        rw [h4] at h
        simp only at h
        split at h
        · rename_i hshape
          simp only [Except.ok.injEq, Prod.mk.injEq] at h
          obtain ⟨rfl, rfl⟩ := h
          exact ⟨row1, row3, row4, sts3, rfl, h1, h3, h4, hshape⟩
        · cases h

theorem checkAllECFull_ok {p : EcParams} {o : EcOracle} {sts : List EcState} {arts : List Artifact}
    {arts' : List Artifact} {r : Bool} {sts' : List EcState}
    (h : checkAllECFull p o sts arts = .ok ((arts', r), sts')) :
    ∃ rows, ecRowsG listImpl p o sts arts = .ok (rows, sts') ∧
      checkAllEC .repaired (verdictAt rows) noInner arts = .ok (arts', r) := by
  unfold checkAllECFull checkAllECFullG at h
  cases h1 : ecRowsG listImpl p o sts arts with
  | error e => rw [h1] at h; cases h
  | ok x =>
    obtain ⟨rows, sts1⟩ := x
    rw [h1] at h
    simp only at h
    cases h2 : checkAllEC .repaired (verdictAt rows) noInner arts with
    | error e => rw [h2] at h; cases h
    | ok y =>
      rw [h2] at h
      simp only [Except.ok.injEq, Prod.mk.injEq] at h
      exact ⟨rows, by rw [← h.2], by rw [← h.1]; exact h2⟩

/-! ### the shape check -/

theorem rowOK_spec {c : CheckSpec} {arts : List Artifact} {row : List Bsgs.KeyVerdict}
    (h : rowOK c arts row = true) :
    row.length = arts.length ∧
    ∀ (n : Nat) (a : Artifact), arts[n]? = some a →
      ∃ kvo, row[n]? = some kvo ∧ kvo.isSome = applicable c a := by
  unfold rowOK at h
  rw [Bool.and_eq_true, beq_iff_eq, List.all_eq_true] at h
  refine ⟨h.1, fun n a ha => ?_⟩
  have hn : n < arts.length := (List.getElem?_eq_some_iff.mp ha).1
  have hn' : n < row.length := by omega
  refine ⟨row[n], List.getElem?_eq_getElem hn', ?_⟩
  have hm : (a, row[n]) ∈ arts.zip row := by
    rw [List.mem_iff_getElem?]
    refine ⟨n, ?_⟩
    rw [List.getElem?_zip_eq_some]
    exact ⟨ha, List.getElem?_eq_getElem hn'⟩
  have := h.2 _ hm
  simpa using this

theorem rowOK_of {c : CheckSpec} {arts : List Artifact} {row : List Bsgs.KeyVerdict}
    (hl : row.length = arts.length)
    (h : ∀ (n : Nat) (a : Artifact) (kvo : Bsgs.KeyVerdict), arts[n]? = some a → row[n]? = some kvo →
      kvo.isSome = applicable c a) : rowOK c arts row = true := by
  unfold rowOK
  rw [Bool.and_eq_true, beq_iff_eq, List.all_eq_true]
  refine ⟨hl, ?_⟩
  rintro ⟨a, kvo⟩ hm
  obtain ⟨n, hn⟩ := List.mem_iff_getElem?.mp hm
  rw [List.getElem?_zip_eq_some] at hn
  simpa using h n a kvo hn.1 hn.2

/-- `applicable` of the four registered EC checks in terms of the factory. -/
theorem applicable_ec (a : Artifact) :
    applicable ⟨"CheckValidECKey", 2, false, false, false⟩ a = true ∧
    applicable ⟨"CheckWeakCurve", 2, true, false, false⟩ a =
      (factoryGet ecFactory a.curve).isSome ∧
    applicable ⟨"CheckWeakECPrivateKey", 4, true, false, false⟩ a =
      (factoryGet ecFactory a.curve).isSome ∧
    applicable ⟨"CheckECKeySmallDifference", 3, true, false, false⟩ a =
      (factoryGet ecFactory a.curve).isSome := by
  have := known_keyOf a
  simp only [keyOf] at this
  simp [applicable, this]

/-! ### what the rows of the EC checks say (C02), for EVERY batch -/

open WeierstrassCurve in
/-- premise of every group-level lemma of this file: the field moduli of the nine curves of
`CURVE_FACTORY` are prime.  It is PROVED: `fieldPrimes` (Proofs/EcAllPrimes.lean, from the
kernel-checked Pratt certificates of Props/C11Primes.lean); the property theorems of
Props/C16EcAll.lean do not carry it. -/
def FieldPrimes : Prop := ∀ e ∈ ecFactory, ∀ c, e.curve = some c → Nat.Prime c.p

theorem curveHyp_of_factoryGet (hp : FieldPrimes) {id : Nat} {c : Curve}
    (h : factoryGet ecFactory id = some c) : CurveHyp c := by
  obtain ⟨e, he, _, hcur⟩ := factoryGet_mem h
  exact regenFactory_curveHyp hp e he c hcur

theorem keys_getElem? {arts : List Artifact} {n : Nat} {a : Artifact} (ha : arts[n]? = some a) :
    (arts.map keyOf)[n]? = some (keyOf a) := by
  rw [List.getElem?_map, ha]; rfl

theorem validKeyOne_info {f : Factory} {k : ECKey} {kv : KV}
    (h : validKeyOne f k = .ok (some kv)) : kv.info = none := by
  unfold validKeyOne at h
  split at h
  · cases h; rfl
  · split at h
    · cases h
    · cases h; rfl

theorem checkValidECKey_info {f : Factory} {keys : List ECKey} {row : List Bsgs.KeyVerdict}
    (h : checkValidECKey f keys = .ok row) (n : Nat) (kv : KV) (hkv : row[n]? = some (some kv)) :
    kv.info = none := by
  obtain ⟨k, _, hk⟩ := forall₂_getElem? (forE_ok h) n (some kv) hkv
  exact validKeyOne_info hk

theorem checkWeakCurve_info {f : Factory} {keys : List ECKey} (n : Nat) (kv : KV)
    (hkv : (checkWeakCurve f keys)[n]? = some (some kv)) : kv.info = none := by
  unfold checkWeakCurve at hkv
  rw [List.getElem?_map] at hkv
  cases hk : keys[n]? with
  | none => rw [hk] at hkv; cases hkv
  | some k =>
    rw [hk] at hkv
    simp only [Option.map_some, Option.some.injEq, weakCurveOne] at hkv
    split at hkv
    · cases hkv
    · cases hkv; rfl

section sound
open WeierstrassCurve

/-- CheckWeakECPrivateKey, any batch (other keys of the curve group may be off the curve, unreduced,
duplicates), any bound, any state, any float-oracle values: a written verdict is negative without
info or positive with a DISCRETE_LOG `v`, and for a key that is a valid point (on the curve,
`n • P = ∞`) `v • G = P`. -/
theorem row3_sound (hp : FieldPrimes) {bound : Nat} {keys : List ECKey} {sts : List EcState}
    {os : List (Nat × Nat)} {row3 : List Bsgs.KeyVerdict} {sts3 : List EcState}
    (h : checkWeakECPrivateKeyB listImpl bound ecFactory sts os keys = .ok (row3, sts3))
    {n : Nat} {k : ECKey} {kv : KV} (hk : keys[n]? = some k) (hkv : row3[n]? = some (some kv))
    {c : Curve} (hc : factoryGet ecFactory k.curveType = some c) :
    (kv = ⟨false, none⟩ ∨ ∃ v, kv = ⟨true, some (.dlog v)⟩) ∧
    ∀ v, kv.info = some (.dlog v) → ∀ hpc : Nat.Prime c.p,
      haveI : Fact (Nat.Prime c.p) := ⟨hpc⟩
      onCurve c k.pt = true → c.n • toPoint c k.pt = 0 → v • Gp c = toPoint c k.pt := by
  unfold checkWeakECPrivateKeyB at h
  rcases weakKeyLoopB_origin bound keys ecFactory sts os _ row3 sts3 h n kv hkv with h0 | h1
  · rw [List.getElem?_replicate] at h0
    split at h0 <;> cases h0
  · obtain ⟨e, c', st, o, dls, st1, r, x, he, hcur, hext, hr, hx, rfl⟩ := h1
    have hid : k.curveType = e.id :=
      mem_keyIdxs_type e.id keys n k (List.mem_of_getElem? hr) hk
    have hcc : c' = c := by
      have := factoryGet_of_mem ecFactory_nodup he
      rw [← hid, hc, hcur] at this
      exact (Option.some.inj this).symm
    subst hcc
    refine ⟨?_, ?_⟩
    · rcases dlogVerdict_cases x with ⟨h', _⟩ | ⟨v, h', _⟩
      · exact .inl h'
      · exact .inr ⟨v, h'⟩
    · intro v hv hpc hon hN
      haveI : Fact (Nat.Prime c'.p) := ⟨hpc⟩
      have hch := curveHyp_of_factoryGet hp hc
      obtain ⟨g1, g2, _, _, _, _⟩ := generator_of_paramsOK c' hch.params
      obtain ⟨_, g8⟩ := reduced_of_paramsOK c' hch.params
      obtain ⟨P, hP, k0, hk0, _, hPk⟩ := forall₂_idx (group_parallel e.id keys) r n hr
      rw [hk] at hk0; cases hk0
      subst hPk
      have hxv : x = some v := by
        rcases dlogVerdict_cases x with ⟨h', _⟩ | ⟨v', h', hx'⟩
        · rw [h'] at hv; cases hv
        · rw [h'] at hv; cases hv; exact hx'
      exact extendedBatchDLB_sound c' g1 g2 g8 bound st _ o.1 o.2 dls st1 hext r k.pt v hP hon hN
        (by rw [hx, hxv])

/-- CheckECKeySmallDifference, any batch, any `max_diff`, any state, any float-oracle value: a
written verdict is negative without info or positive with a relation; when every key of the curve
group is on the curve, the relation `(Q, d)` names ANOTHER key of the batch on the same curve,
different from this one as a group element, with `P - Q = d • G`. -/
theorem row4_sound (hp : FieldPrimes) {maxDiff : Nat} {keys : List ECKey} {sts : List EcState}
    {ms : List Nat} {row4 : List Bsgs.KeyVerdict} {sts4 : List EcState}
    (h : checkECKeySmallDifferenceG listImpl ecFactory sts ms keys maxDiff = .ok (row4, sts4))
    {n : Nat} {k : ECKey} {kv : KV} (hk : keys[n]? = some k) (hkv : row4[n]? = some (some kv))
    {c : Curve} (hc : factoryGet ecFactory k.curveType = some c) :
    (kv = ⟨false, none⟩ ∨ ∃ rel, kv = ⟨true, some (.diff rel)⟩) ∧
    ∀ rel, kv.info = some (.diff rel) → ∀ hpc : Nat.Prime c.p,
      haveI : Fact (Nat.Prime c.p) := ⟨hpc⟩
      (∀ (n' : Nat) (k' : ECKey), keys[n']? = some k' → k'.curveType = k.curveType →
        onCurve c k'.pt = true) →
      ∃ (n' : Nat) (k' : ECKey), n' ≠ n ∧ keys[n']? = some k' ∧ k'.curveType = k.curveType ∧
        onCurve c (.aff rel.qx rel.qy) = true ∧
        toPoint c (.aff rel.qx rel.qy) = toPoint c k'.pt ∧
        toPoint c k.pt - toPoint c k'.pt = rel.dl • Gp c ∧ toPoint c k.pt ≠ toPoint c k'.pt := by
  unfold checkECKeySmallDifferenceG at h
  rcases smallDiffLoop_origin keys maxDiff ecFactory sts ms _ row4 sts4 h n kv hkv with h0 | h1
  · rw [List.getElem?_replicate] at h0
    split at h0 <;> cases h0
  · obtain ⟨e, c', st, m, rels, st1, r, x, he, hcur, hdiff, hr, hx, rfl⟩ := h1
    have hid : k.curveType = e.id :=
      mem_keyIdxs_type e.id keys n k (List.mem_of_getElem? hr) hk
    have hcc : c' = c := by
      have := factoryGet_of_mem ecFactory_nodup he
      rw [← hid, hc, hcur] at this
      exact (Option.some.inj this).symm
    subst hcc
    refine ⟨?_, ?_⟩
    · rcases diffVerdict_cases x with ⟨h', _⟩ | ⟨v, h', _⟩
      · exact .inl h'
      · exact .inr ⟨v, h'⟩
    · intro rel hrel hpc hon
      haveI : Fact (Nat.Prime c'.p) := ⟨hpc⟩
      have hch := curveHyp_of_factoryGet hp hc
      obtain ⟨g1, g2, _, _, _, _⟩ := generator_of_paramsOK c' hch.params
      have hpar := group_parallel e.id keys
      obtain ⟨P, hP, k0, hk0, _, hPk⟩ := forall₂_idx hpar r n hr
      rw [hk] at hk0; cases hk0
      subst hPk
      have hxv : x = some rel := by
        rcases diffVerdict_cases x with ⟨h', _⟩ | ⟨v', h', hx'⟩
        · rw [h'] at hrel; cases hrel
        · rw [h'] at hrel; cases hrel; exact hx'
      have hL : ∀ Q ∈ ([] : List Pt) ++ groupPoints e.id keys, onCurve c' Q = true := by
        intro Q hQ
        rw [List.nil_append] at hQ
        obtain ⟨j, hj⟩ := List.getElem?_of_mem hQ
        obtain ⟨idx, _, k', hk', hid', rfl⟩ := forall₂_idx hpar.flip j Q hj
        exact hon idx k' hk' (hid'.trans hid.symm)
      have hsound := batchDLOfDifferences_sound c' g1 g2 st (groupPoints e.id keys) [] hL maxDiff m
        rels st1 hdiff
      obtain ⟨P', j, Q, hP', hQ, hj, a1, a2, a3, a4⟩ := hsound r rel (by rw [hx, hxv])
      rw [hP] at hP'; cases hP'
      rw [List.nil_append] at hQ
      simp only [List.length_nil, Nat.zero_add] at hj
      obtain ⟨n', hn', k', hk', hid', hQk⟩ := forall₂_idx hpar.flip j Q hQ
      subst hQk
      refine ⟨n', k', ?_, hk', hid'.trans hid.symm, a1, a2, a3, a4⟩
      intro hnn
      subst hnn
      exact hj (keyIdxs_inj e.id keys hn' hr)

end sound

/-! ### well-formedness of a `CheckAllEC` call, and the hypotheses of C10's check-level theorems -/

/-- Well-formed `CheckAllEC` call (C18): the `_table` state of every curve object is one that
earlier calls can leave behind; every key whose curve id is in `CURVE_FACTORY` is a point of that
curve with coordinates in `[0, p)`; the float oracles are `≥ 1` where a table is (re)built
(`int(math.sqrt(bound * len(points)))` for a non-empty group, `int(math.sqrt(max_diff))` for
`max_diff ≥ 1`).  No condition on keys with unknown / binary-field curve ids, on duplicates, on the
batch size. -/
structure ECWF (p : EcParams) (o : EcOracle) (sts : List EcState) (arts : List Artifact) : Prop where
  states : StatesOK ecFactory sts
  points : ∀ a ∈ arts, ∀ c, factoryGet ecFactory a.curve = some c →
    onCurve c (keyOf a).pt = true ∧ Reduced c (keyOf a).pt
  wk : List.Forall₂ (fun (e : FEntry) (x : Nat × Nat) =>
    groupPoints e.id (arts.map keyOf) ≠ [] → 1 ≤ x.1 ∧ 1 ≤ x.2) ecFactory o.wk
  sd : List.Forall₂ (fun (_ : FEntry) (m : Nat) => 0 < p.maxDiff → 1 ≤ m) ecFactory o.sd

theorem mem_groupPoints {id : Nat} {keys : List ECKey} {P : Pt} (h : P ∈ groupPoints id keys) :
    ∃ k ∈ keys, k.curveType = id ∧ P = k.pt := by
  unfold groupPoints at h
  obtain ⟨k, hk, rfl⟩ := List.mem_map.mp h
  obtain ⟨hk1, hk2⟩ := List.mem_filter.mp hk
  exact ⟨k, hk1, by simpa using hk2, rfl⟩

theorem wkHyp_of (keys : List ECKey) : ∀ (f : Factory) (sts : List EcState) (os : List (Nat × Nat)),
    (∀ e ∈ f, ∀ c, e.curve = some c →
      CurveHyp c ∧ ∀ P ∈ groupPoints e.id keys, onCurve c P = true) →
    StatesOK f sts →
    List.Forall₂ (fun (e : FEntry) (x : Nat × Nat) =>
      groupPoints e.id keys ≠ [] → 1 ≤ x.1 ∧ 1 ≤ x.2) f os →
    WKHyp keys f sts os := by
  intro f
  induction f with
  | nil =>
    intro sts os _ hst hos
    cases sts with
    | nil => cases hos; trivial
    | cons _ _ => simp [StatesOK] at hst
  | cons e es ih =>
    intro sts os hf hst hos
    cases sts with
    | nil => simp [StatesOK] at hst
    | cons st sts =>
      cases hos with
      | cons ho hos' =>
        obtain ⟨hst1, hst2⟩ := hst
        refine ⟨fun c hc => ?_, ih sts _ (fun e' he' => hf e' (List.mem_cons_of_mem _ he')) hst2 hos'⟩
        obtain ⟨h1, h2⟩ := hf e List.mem_cons_self c hc
        exact ⟨h1, hst1 c hc, h2, ho⟩

theorem sdHyp_of (keys : List ECKey) (maxDiff : Nat) :
    ∀ (f : Factory) (sts : List EcState) (ms : List Nat),
    (∀ e ∈ f, ∀ c, e.curve = some c →
      CurveHyp c ∧ ∀ P ∈ groupPoints e.id keys, onCurve c P = true ∧ Reduced c P) →
    StatesOK f sts →
    List.Forall₂ (fun (_ : FEntry) (m : Nat) => 0 < maxDiff → 1 ≤ m) f ms →
    SDHyp keys maxDiff f sts ms := by
  intro f
  induction f with
  | nil =>
    intro sts ms _ hst hms
    cases sts with
    | nil => cases hms; trivial
    | cons _ _ => simp [StatesOK] at hst
  | cons e es ih =>
    intro sts ms hf hst hms
    cases sts with
    | nil => simp [StatesOK] at hst
    | cons st sts =>
      cases hms with
      | cons hm hms' =>
        obtain ⟨hst1, hst2⟩ := hst
        refine ⟨fun c hc => ?_, ih sts _ (fun e' he' => hf e' (List.mem_cons_of_mem _ he')) hst2 hms'⟩
        obtain ⟨h1, h2⟩ := hf e List.mem_cons_self c hc
        exact ⟨h1, hst1 c hc, h2, fun hlt => hm (by omega)⟩

theorem ecwf_factory (hp : FieldPrimes) {p : EcParams} {o : EcOracle} {sts : List EcState}
    {arts : List Artifact} (hwf : ECWF p o sts arts) :
    ∀ e ∈ ecFactory, ∀ c, e.curve = some c →
      CurveHyp c ∧ ∀ P ∈ groupPoints e.id (arts.map keyOf), onCurve c P = true ∧ Reduced c P := by
  intro e he c hc
  refine ⟨regenFactory_curveHyp hp e he c hc, ?_⟩
  intro P hP
  obtain ⟨k, hk, hid, rfl⟩ := mem_groupPoints hP
  obtain ⟨a, ha, rfl⟩ := List.mem_map.mp hk
  have hget : factoryGet ecFactory a.curve = some c := by
    have := factoryGet_of_mem ecFactory_nodup he
    rw [hc] at this
    rw [← this]
    exact congrArg _ hid
  exact hwf.points a ha c hget

theorem verdictAt_factors (rows : List (List Bsgs.KeyVerdict)) (j i : Nat) :
    (verdictAt rows j i).factors = none := by
  unfold verdictAt
  split
  · split <;> rfl
  · rfl

theorem getElem?_of_length_eq {α β} {l : List α} {l' : List β} (h : l.length = l'.length) {n : Nat}
    {b : β} (hb : l'[n]? = some b) : ∃ a, l[n]? = some a := by
  have : n < l'.length := (List.getElem?_eq_some_iff.mp hb).1
  exact ⟨l[n]'(by omega), List.getElem?_eq_getElem (by omega)⟩

/-! ### the inner `CheckAllEC` of CheckIssuerKey IS `CheckAllEC` -/

theorem foldChecks_noIssuer (var : Variant) (ver : String) (ec : List CheckSpec)
    (O : Nat → Nat → Verdict) (I : Nat → Nat → Nat → Verdict) :
    ∀ (l : List CheckSpec) (i : Nat) (keys : List Artifact), (∀ c ∈ l, c.issuer = false) →
      foldChecks (fun (s : CheckSpec × Nat) => runCheck ver s.1 (O s.2)) (l.zipIdx i) keys =
      foldChecks (runStep var ver ec)
        ((l.zipIdx i).map fun (s : CheckSpec × Nat) => (⟨s.1, O s.2, I s.2⟩ : Step)) keys := by
  intro l
  induction l with
  | nil => intro i keys _; rfl
  | cons c cs ih =>
    intro i keys hni
    simp only [List.zipIdx_cons, List.map_cons, foldChecks, runStep, hni c List.mem_cons_self,
      Bool.false_eq_true, if_false]
    cases runCheck ver c (O i) keys with
    | error e => rfl
    | ok x =>
      simp only
      rw [ih (i + 1) x.1 (fun c' hc' => hni c' (List.mem_cons_of_mem _ hc'))]

theorem ecAll_noIssuer : ∀ c ∈ ecAll, c.issuer = false := by rw [ecAll_eq]; decide

/-- `paranoid.CheckAllEC(pks_pb)` inside CheckIssuerKey is the entry point `CheckAllEC`. -/
theorem innerCheckAllEC_eq (O : Nat → Nat → Verdict) (I : Nat → Nat → Nat → Verdict)
    (keys : List Artifact) :
    innerCheckAllEC Consts.libVersion ecAll O keys = checkAllEC .repaired O I keys := by
  unfold innerCheckAllEC checkAllEC checkArtifacts mkSteps
  exact foldChecks_noIssuer .repaired Consts.libVersion ecAll O I ecAll 0 keys ecAll_noIssuer

/-! ### decomposition of the ECDSA entry point -/

theorem checkAllECDSASigsFull_ok {p : EcParams} {O : SigOracle} {st : SigState XTable}
    {sarts : List SigArt} {run : SigRun XTable}
    (h : checkAllECDSASigsFull p O st sarts = .ok run) :
    sigStepsG listImpl p O (sarts.map SigArt.art) (sarts.map SigArt.sig) ecdsaAll.zipIdx st =
      .ok (run.outs, run.state) ∧
    checkAllECDSASigs .repaired (sigVerdictAt run.outs) (sigInnerAt run.outs)
      (sarts.map SigArt.art) = .ok run.result := by
  unfold checkAllECDSASigsFull checkAllECDSASigsFullG at h
  cases h1 : sigStepsG listImpl p O (sarts.map SigArt.art) (sarts.map SigArt.sig) ecdsaAll.zipIdx st with
  | error e => rw [h1] at h; cases h
  | ok x =>
    obtain ⟨outs, st1⟩ := x
    rw [h1] at h
    simp only at h
    cases h2 : checkAllECDSASigs .repaired (sigVerdictAt outs) (sigInnerAt outs)
        (sarts.map SigArt.art) with
    | error e => rw [h2] at h; cases h
    | ok y =>
      rw [h2] at h
      simp only [Except.ok.injEq] at h
      subst h
      exact ⟨rfl, h2⟩

/-- the registered checks ran one after another, each from the state the previous one left;
`Inv` is any invariant of the curve objects that every check preserves. -/
theorem sigStepsG_spec {p : EcParams} {O : SigOracle} {arts : List Artifact}
    {sigs : List EcdsaChecks.Sig} (Inv : SigState XTable → Prop)
    (hInv : ∀ c j st out st', Inv st →
      runSigStepG listImpl p O arts sigs c j st = .ok (out, st') → Inv st') :
    ∀ (l : List (CheckSpec × Nat)) (st : SigState XTable) (outs : List StepOut)
      (st' : SigState XTable), Inv st →
      sigStepsG listImpl p O arts sigs l st = .ok (outs, st') →
      Inv st' ∧ List.Forall₂ (fun (cj : CheckSpec × Nat) out => ∃ sti sti', Inv sti ∧
        runSigStepG listImpl p O arts sigs cj.1 cj.2 sti = .ok (out, sti')) l outs := by
  intro l
  induction l with
  | nil =>
    intro st outs st' hi h
    simp only [sigStepsG, Except.ok.injEq, Prod.mk.injEq] at h
    obtain ⟨rfl, rfl⟩ := h
    exact ⟨hi, .nil⟩
  | cons cj rest ih =>
    intro st outs st' hi h
    rw [sigStepsG] at h
    cases h1 : runSigStepG listImpl p O arts sigs cj.1 cj.2 st with
    | error e => rw [h1] at h; cases h
    | ok x =>
      obtain ⟨out, st1⟩ := x
      rw [h1] at h
      simp only at h
      cases h2 : sigStepsG listImpl p O arts sigs rest st1 with
      | error e => rw [h2] at h; cases h
      | ok y =>
        obtain ⟨outs1, st2⟩ := y
        rw [h2] at h
        simp only [Except.ok.injEq, Prod.mk.injEq] at h
        obtain ⟨rfl, rfl⟩ := h
        have hi1 := hInv _ _ _ _ _ hi h1
        obtain ⟨hi2, hf⟩ := ih st1 outs1 st2 hi1 h2
        exact ⟨hi2, .cons ⟨st, st1, hi, h1⟩ hf⟩

/-- what a successful step is. -/
theorem runSigStepG_cases {p : EcParams} {O : SigOracle} {arts : List Artifact}
    {sigs : List EcdsaChecks.Sig} {c : CheckSpec} {j : Nat} {st st' : SigState XTable}
    {out : StepOut} (h : runSigStepG listImpl p O arts sigs c j st = .ok (out, st')) :
    (c.issuer = true ∧ c.name = "CheckIssuerKey" ∧ st'.factory = st.factory ∧ ∃ rows, out = .inner rows ∧
      ecRowsG listImpl p (O.floats j) st.tables (issuerKeys .repaired arts) = .ok (rows, st'.tables)) ∨
    (c.issuer = false ∧ st'.tables = st.tables ∧ ∃ k res, kindOfName c.name = some k ∧
      EcdsaChecks.check k (O.solver j) st.factory sigs = .ok res ∧
      out = .direct res.writes res.calls ∧ st'.factory = res.factory ∧
      writesOK c arts res.writes = true) := by
  unfold runSigStepG at h
  split at h
  · rename_i hname
    split at h
    · rename_i hiss
      cases h1 : ecRowsG listImpl p (O.floats j) st.tables (issuerKeys .repaired arts) with
      | error e => rw [h1] at h; cases h
      | ok x =>
        obtain ⟨rows, tables'⟩ := x
        rw [h1] at h
        simp only [Except.ok.injEq, Prod.mk.injEq] at h
        obtain ⟨rfl, rfl⟩ := h
        exact .inl ⟨hiss, hname, rfl, rows, rfl, rfl⟩
    · cases h
  · split at h
    · cases h
    · rename_i k hk
      cases h1 : EcdsaChecks.check k (O.solver j) st.factory sigs with
      | error e => rw [h1] at h; cases h
      | ok res =>
        rw [h1] at h
        simp only at h
        split at h
        · rename_i hw
          simp only [Except.ok.injEq, Prod.mk.injEq] at h
          obtain ⟨rfl, rfl⟩ := h
          have hiss : c.issuer = false := by
            unfold writesOK at hw
            rw [Bool.and_eq_true] at hw
            simpa using hw.1
          exact .inr ⟨hiss, rfl, k, res, hk, h1, rfl, rfl, hw⟩
        · cases h

/-- invariant of the curve objects used by the soundness theorems: every object is valid
(`C02S.FactoryOK`: valid curve, sound `_cache`), ids are unique, and every object has the curve of an
object of the initial factory `f0`. -/
def SigInv (f0 : EcdsaChecks.Factory) (st : SigState XTable) : Prop :=
  EcdsaChecks.FactoryOK st.factory ∧ (st.factory.map Prod.fst).Nodup ∧
  ∀ cid obj', (cid, some obj') ∈ st.factory → ∃ obj, (cid, some obj) ∈ f0 ∧ obj'.curve = obj.curve

theorem sigInv_step {p : EcParams} {O : SigOracle} {arts : List Artifact}
    {sigs : List EcdsaChecks.Sig} (f0 : EcdsaChecks.Factory) :
    ∀ c j st out st', SigInv f0 st →
      runSigStepG listImpl p O arts sigs c j st = .ok (out, st') → SigInv f0 st' := by
  intro c j st out st' hi h
  rcases runSigStepG_cases h with ⟨_, _, hf, _⟩ | ⟨_, _, k, res, _, hchk, _, hf, _⟩
  · unfold SigInv; rw [hf]; exact hi
  · obtain ⟨h1, h2, h3⟩ := hi
    obtain ⟨p1, p2, _⟩ := EcdsaChecks.check_preserves k (O.solver j) st.factory sigs res h1 hchk
    obtain ⟨_, q2⟩ := EcdsaChecks.checkLoop_factory k (O.solver j) sigs st.factory res hchk
    unfold SigInv
    rw [hf]
    refine ⟨p2, by rw [p1]; exact h2, ?_⟩
    intro cid obj' hm
    obtain ⟨obj, g1, g2, _⟩ := q2 cid obj' hm
    obtain ⟨obj0, g3, g4⟩ := h3 cid obj g1
    exact ⟨obj0, g3, g2.trans g4⟩

theorem checkAllECFull_of {p : EcParams} {o : EcOracle} {sts sts' : List EcState}
    {arts : List Artifact} {rows : List (List Bsgs.KeyVerdict)} {r : List Artifact × Bool}
    (h1 : ecRowsG listImpl p o sts arts = .ok (rows, sts'))
    (h2 : checkAllEC .repaired (verdictAt rows) noInner arts = .ok r) :
    checkAllECFull p o sts arts = .ok (r, sts') := by
  unfold checkAllECFull checkAllECFullG
  rw [h1]
  simp only
  rw [h2]

theorem zipIdx_getElem? {α} (l : List α) (j : Nat) (c : α) (h : l[j]? = some c) :
    (l.zipIdx)[j]? = some (c, j) := by
  simp [List.getElem?_zipIdx, h]

/-- the `j`-th registered signature check of a run that returned. -/
theorem sig_step_at {p : EcParams} {O : SigOracle} {arts : List Artifact}
    {sigs : List EcdsaChecks.Sig} {f0 : EcdsaChecks.Factory} {st st' : SigState XTable}
    {outs : List StepOut} (hi : SigInv f0 st)
    (h : sigStepsG listImpl p O arts sigs ecdsaAll.zipIdx st = .ok (outs, st'))
    (j : Nat) (c : CheckSpec) (hj : ecdsaAll[j]? = some c) :
    ∃ out sti sti', outs[j]? = some out ∧ SigInv f0 sti ∧
      runSigStepG listImpl p O arts sigs c j sti = .ok (out, sti') := by
  obtain ⟨_, hf⟩ := sigStepsG_spec (SigInv f0) (sigInv_step f0) _ st outs st' hi h
  obtain ⟨out, hout, sti, sti', h1, h2⟩ := forall₂_idx hf j (c, j) (zipIdx_getElem? _ j c hj)
  exact ⟨out, sti, sti', hout, h1, h2⟩

theorem ecdsaAll_flags : ∀ c ∈ ecdsaAll, c.unknownIfUnfactored = false ∧
    (c.issuer = true → c.name = "CheckIssuerKey" ∧ c.severity = 0) := by
  rw [ecdsaAll_eq]; decide

theorem ecdsaAll_nodup : (ecdsaAll.map (·.name)).Nodup := C16.registry_names_nodup.2.2.1

theorem mkSteps_nodup (specs : List CheckSpec) (O : Nat → Nat → Verdict)
    (I : Nat → Nat → Nat → Verdict) (h : (specs.map (·.name)).Nodup) :
    ((mkSteps specs O I).map (·.spec.name)).Nodup := by
  have : (mkSteps specs O I).map (·.spec.name) = specs.map (·.name) := by
    conv => rhs; rw [← mkSteps_names specs O I]
    rw [List.map_map]; rfl
  rw [this]; exact h

theorem mkSteps_mem {specs : List CheckSpec} {O : Nat → Nat → Verdict}
    {I : Nat → Nat → Nat → Verdict} {j : Nat} {c : CheckSpec} (h : specs[j]? = some c) :
    (⟨c, O j, I j⟩ : Step) ∈ mkSteps specs O I := by
  unfold mkSteps
  exact List.mem_map.mpr ⟨(c, j), List.mem_of_getElem? (zipIdx_getElem? _ j c h), rfl⟩

theorem sigArts_getElem? {sarts : List SigArt} {n : Nat} {sa : SigArt} (h : sarts[n]? = some sa) :
    (sarts.map SigArt.art)[n]? = some sa.art ∧ (sarts.map SigArt.sig)[n]? = some sa.sig := by
  simp [List.getElem?_map, h]

/-- no registered signature check attaches a factor list. -/
theorem sigVerdictAt_factors {p : EcParams} {O : SigOracle} {arts : List Artifact}
    {sigs : List EcdsaChecks.Sig} {f0 : EcdsaChecks.Factory} {st st' : SigState XTable}
    {outs : List StepOut} (hi : SigInv f0 st)
    (h : sigStepsG listImpl p O arts sigs ecdsaAll.zipIdx st = .ok (outs, st')) (j i : Nat) :
    (sigVerdictAt outs j i).factors = none := by
  obtain ⟨_, hf⟩ := sigStepsG_spec (SigInv f0) (sigInv_step f0) _ st outs st' hi h
  unfold sigVerdictAt
  cases hout : outs[j]? with
  | none => rfl
  | some out =>
    cases out with
    | inner rows => rfl
    | direct w calls =>
      simp only
      cases hv : EcdsaChecks.verdictOf w i with
      | none => rfl
      | some v =>
        simp only
        obtain ⟨cj, _, sti, sti', hinv, hstep⟩ := forall₂_getElem? hf j _ hout
        rcases runSigStepG_cases hstep with ⟨_, _, _, rows, hr, _⟩ | ⟨_, _, k, res, _, hchk, hr, _, _⟩
        · cases hr
        · cases hr
          obtain ⟨_, _, _, _, hcase⟩ := EcdsaChecks.check_sound k (O.solver cj.2) sti.factory sigs res
            hinv.1 hinv.2.1 hchk i v hv
          rcases hcase with rfl | ⟨d, rfl, _⟩ <;> rfl

theorem sigInnerAt_factors (outs : List StepOut) (j jj k : Nat) :
    (sigInnerAt outs j jj k).factors = none := by
  unfold sigInnerAt
  split
  · exact verdictAt_factors _ _ _
  · rfl

/-! ### totality of the row computation (the body of `checkAllECFull_total`) -/

theorem ecRowsG_total (hp : FieldPrimes) (p : EcParams) (hb : p.bound = 2 ^ 32)
    (o : EcOracle) (sts : List EcState) (arts : List Artifact) (hwf : ECWF p o sts arts) :
    ∃ rows sts', ecRowsG listImpl p o sts arts = .ok (rows, sts') ∧ StatesOK ecFactory sts' := by
  have hfac := ecwf_factory hp hwf
  have hnd := ecFactory_nodup
  have h1 : checkValidECKey ecFactory (arts.map keyOf) = _ := C06.checkValidECKey_factory _
  obtain ⟨row3, sts3, h3, l3, st3, n3, s3⟩ := C10.checkWeakECPrivateKey_spec ecFactory sts o.wk
    (arts.map keyOf) hnd (wkHyp_of _ _ _ _ (fun e he c hc =>
      ⟨(hfac e he c hc).1, fun P hP => ((hfac e he c hc).2 P hP).1⟩) hwf.states hwf.wk)
  obtain ⟨row4, sts4, h4, l4, st4, n4, s4⟩ := C10.checkECKeySmallDifference_spec ecFactory sts3 o.sd
    (arts.map keyOf) p.maxDiff hnd (sdHyp_of _ _ _ _ _ hfac st3 hwf.sd)
  have h3' : checkWeakECPrivateKeyB listImpl p.bound ecFactory sts o.wk (arts.map keyOf) =
      .ok (row3, sts3) := by rw [hb, checkWeakECPrivateKeyB_eq]; exact h3
  have hshape : shapeOK ecAll arts [(arts.map keyOf).map fun k => some ⟨invalidKeySpec regenFactory k, none⟩,
      checkWeakCurve ecFactory (arts.map keyOf), row3, row4] = true := by
    rw [ecAll_eq]
    simp only [shapeOK, Bool.not_false, Bool.true_and, Bool.and_true, Bool.and_eq_true]
    refine ⟨?_, ?_, ?_, ?_⟩
    · apply rowOK_of (by simp)
      intro n a kvo ha hkvo
      rw [(applicable_ec a).1]
      simp only [List.getElem?_map, ha, Option.map_some, Option.some.injEq] at hkvo
      rw [← hkvo]; rfl
    · apply rowOK_of (by simp [checkWeakCurve])
      intro n a kvo ha hkvo
      rw [(applicable_ec a).2.1]
      simp only [checkWeakCurve, List.getElem?_map, ha, Option.map_some, Option.some.injEq,
        weakCurveOne] at hkvo
      rw [← hkvo]
      simp only [keyOf]
      cases factoryGet ecFactory a.curve <;> rfl
    · apply rowOK_of (by rw [l3, List.length_map])
      intro n a kvo ha hkvo
      rw [(applicable_ec a).2.2.1]
      cases hg : factoryGet ecFactory a.curve with
      | none =>
        rw [n3 n (keyOf a) (keys_getElem? ha) hg] at hkvo
        cases hkvo; rfl
      | some c =>
        obtain ⟨kv, _, hkv, _⟩ := s3 n (keyOf a) c (keys_getElem? ha) hg
        rw [hkv] at hkvo
        cases hkvo; rfl
    · apply rowOK_of (by rw [l4, List.length_map])
      intro n a kvo ha hkvo
      rw [(applicable_ec a).2.2.2]
      cases hg : factoryGet ecFactory a.curve with
      | none =>
        rw [n4 n (keyOf a) (keys_getElem? ha) hg] at hkvo
        cases hkvo; rfl
      | some c =>
        obtain ⟨e, he, hid, hcur⟩ := factoryGet_mem hg
        obtain ⟨kv, _, hkv, _⟩ := s4 n (keyOf a) e c (keys_getElem? ha) he hid hcur
        rw [hkv] at hkvo
        cases hkvo; rfl
  refine ⟨[(arts.map keyOf).map fun k => some ⟨invalidKeySpec regenFactory k, none⟩,
    checkWeakCurve ecFactory (arts.map keyOf), row3, row4], sts4, ?_, st4⟩
  unfold ecRowsG
  rw [ecVerdictsG_ecAll, h1]
  simp only
  rw [h3']
  simp only
  have h4' : checkECKeySmallDifferenceG listImpl ecFactory sts3 o.sd (arts.map keyOf) p.maxDiff =
      .ok (row4, sts4) := h4
  rw [h4']
  simp only
  rw [if_pos hshape]

/-! ### totality of the signature checks -/

/-- ids and curve parameters of the objects of a factory (everything but `_cache`). -/
def curvesOf (f : EcdsaChecks.Factory) : List (Nat × Option Curve) :=
  f.map fun e => (e.1, e.2.map (·.curve))

theorem checkLoop_curves (k : EcdsaChecks.Kind) (O : Nat → EcdsaChecks.GroupOracle)
    (arts : List EcdsaChecks.Sig) : ∀ (f : EcdsaChecks.Factory) (res : EcdsaChecks.CheckResult),
    EcdsaChecks.checkLoop k O arts f = .ok res → curvesOf res.factory = curvesOf f
  | [], res, h => by
    simp only [EcdsaChecks.checkLoop, Except.ok.injEq] at h
    subst h; rfl
  | (cid, o) :: rest, res, h => by
    rcases EcdsaChecks.checkLoop_cases k O arts cid o rest with ⟨_, heq⟩ | ⟨obj, ho, _, heq⟩
    · rw [heq] at h
      cases hr : EcdsaChecks.checkLoop k O arts rest with
      | error e => rw [hr] at h; cases h
      | ok r =>
        rw [hr] at h
        simp only [Except.ok.injEq] at h
        subst h
        have := checkLoop_curves k O arts rest r hr
        simp only [curvesOf, EcdsaChecks.CheckResult.cons, List.map_cons] at this ⊢
        rw [this]
    · subst ho
      rw [heq] at h
      cases hp : EcdsaChecks.processGroup k cid obj.curve obj.cache (O cid)
          (EcdsaChecks.groupFrom cid 0 arts) with
      | error e => rw [hp] at h; cases h
      | ok gr =>
        rw [hp] at h
        simp only at h
        cases hr : EcdsaChecks.checkLoop k O arts rest with
        | error e => rw [hr] at h; cases h
        | ok r =>
          rw [hr] at h
          simp only [Except.ok.injEq] at h
          subst h
          have := checkLoop_curves k O arts rest r hr
          simp only [curvesOf, EcdsaChecks.CheckResult.consGroup, List.map_cons, Option.map_some] at this ⊢
          rw [this]

theorem curvesOf_mem {f g : EcdsaChecks.Factory} (h : curvesOf f = curvesOf g) {cid : Nat}
    {obj : EcdsaChecks.CurveObj} (hm : (cid, some obj) ∈ f) :
    ∃ obj', (cid, some obj') ∈ g ∧ obj'.curve = obj.curve := by
  have : (cid, some obj.curve) ∈ curvesOf f := List.mem_map.mpr ⟨(cid, some obj), hm, rfl⟩
  rw [h] at this
  obtain ⟨e, he, heq⟩ := List.mem_map.mp this
  obtain ⟨cid', o'⟩ := e
  simp only [Prod.mk.injEq] at heq
  obtain ⟨rfl, ho⟩ := heq
  cases o' with
  | none => cases ho
  | some obj' => exact ⟨obj', he, by simpa using ho⟩

theorem curvesOf_ids {f g : EcdsaChecks.Factory} (h : curvesOf f = curvesOf g) :
    f.map Prod.fst = g.map Prod.fst := by
  have : ∀ f' : EcdsaChecks.Factory, f'.map Prod.fst = (curvesOf f').map Prod.fst := by
    intro f'; simp [curvesOf, List.map_map, Function.comp_def]
  rw [this f, this g, h]

/-- a curve id has an object in `namedFactory` iff it is in `Consts.knownCurves`. -/
theorem named_known (cid : Nat) :
    (∃ obj, (cid, some obj) ∈ EcdsaChecks.namedFactory) ↔ Consts.knownCurves.contains cid = true := by
  rw [List.contains_iff_mem, ← C02S.namedFactory_ids.2, List.mem_filterMap]
  constructor
  · rintro ⟨obj, hm⟩
    exact ⟨(cid, some obj), hm, rfl⟩
  · rintro ⟨⟨cid', o⟩, hm, hx⟩
    cases o with
    | none => cases hx
    | some obj =>
      simp only [Option.map_some, Option.some.injEq] at hx
      subst hx
      exact ⟨obj, hm⟩

/-- Well-formed `CheckAllECDSASigs` call (C18): valid curve objects (C02S) that are those of
`CURVE_FACTORY` up to the content of `_cache`; reachable `_table` states; for every registered nonce
check the `list(set)` order oracle is an enumeration of the right sets; `s` of every signature with
a known curve is invertible modulo the curve order (`r, s ∈ [1, n-1]`: `C02S.wf_of_range`); and the
inner `CheckAllEC` call of CheckIssuerKey on the distinct issuer keys is well-formed (`ECWF`: every
issuer key with a known curve id is a reduced point of its curve, float oracles `≥ 1`). -/
structure SigWF (p : EcParams) (O : SigOracle) (st : SigState XTable) (sarts : List SigArt) : Prop where
  factory : EcdsaChecks.FactoryOK st.factory
  curves : curvesOf st.factory = curvesOf EcdsaChecks.namedFactory
  tables : StatesOK ecFactory st.tables
  uniq : ∀ j c k, ecdsaAll[j]? = some c → kindOfName c.name = some k →
    EcdsaChecks.UniqConsistent (O.solver j) (sarts.map SigArt.sig) EcdsaChecks.namedFactory
  sInv : ∀ sa ∈ sarts, ∀ obj, (sa.sig.curve, some obj) ∈ EcdsaChecks.namedFactory →
    Int.gcd (bytes2int sa.sig.s : Int) obj.curve.n = 1
  inner : ∀ j c, ecdsaAll[j]? = some c → c.issuer = true → ∀ sts, StatesOK ecFactory sts →
    ECWF p (O.floats j) sts (issuerKeys .repaired (sarts.map SigArt.art))

/-- the part of `SigWF` that is an invariant of the curve objects. -/
def TotInv (st : SigState XTable) : Prop :=
  EcdsaChecks.FactoryOK st.factory ∧ curvesOf st.factory = curvesOf EcdsaChecks.namedFactory ∧
  StatesOK ecFactory st.tables

theorem ecdsaAll_kinds : ∀ c ∈ ecdsaAll, c.issuer = false →
    c.name ≠ "CheckIssuerKey" ∧ c.needsCurve = true ∧ ∃ k, kindOfName c.name = some k := by
  have h : ∀ c ∈ ecdsaAll, c.issuer = false →
      c.name ≠ "CheckIssuerKey" ∧ c.needsCurve = true ∧ (kindOfName c.name).isSome = true := by
    rw [ecdsaAll_eq]; decide
  intro c hc hiss
  obtain ⟨h1, h2, h3⟩ := h c hc hiss
  exact ⟨h1, h2, Option.isSome_iff_exists.mp h3⟩

theorem runSigStepG_total (hp : FieldPrimes) {p : EcParams} (hb : p.bound = 2 ^ 32) {O : SigOracle}
    {st0 : SigState XTable} {sarts : List SigArt} (hwf : SigWF p O st0 sarts)
    (j : Nat) (c : CheckSpec) (hj : ecdsaAll[j]? = some c) (st : SigState XTable) (hi : TotInv st) :
    ∃ out st', runSigStepG listImpl p O (sarts.map SigArt.art) (sarts.map SigArt.sig) c j st =
      .ok (out, st') ∧ TotInv st' := by
  obtain ⟨hF, hcur, htab⟩ := hi
  have hmem := List.mem_of_getElem? hj
  cases hiss : c.issuer with
  | true =>
    obtain ⟨hname, _⟩ := (ecdsaAll_flags c hmem).2 hiss
    obtain ⟨rows, sts', hrows, hst'⟩ := ecRowsG_total hp p hb (O.floats j) st.tables _
      (hwf.inner j c hj hiss st.tables htab)
    refine ⟨.inner rows, ⟨sts', st.factory⟩, ?_, hF, hcur, hst'⟩
    unfold runSigStepG
    rw [if_pos hname, if_pos hiss, hrows]
  | false =>
    obtain ⟨hname, hneeds, k, hk⟩ := ecdsaAll_kinds c hmem hiss
    have hnd : (st.factory.map Prod.fst).Nodup := by
      rw [curvesOf_ids hcur]; exact C02S.namedFactory_ids.1
    -- the order oracle and the invertibility of `s`, transferred to the current curve objects
    have huniq : EcdsaChecks.UniqConsistent (O.solver j) (sarts.map SigArt.sig) st.factory := by
      intro cid obj hm hne
      obtain ⟨obj0, hm0, hc0⟩ := curvesOf_mem hcur hm
      have := hwf.uniq j c k hj hk cid obj0 hm0 hne
      rw [hc0] at this
      exact this
    have hs : k ≠ .cr50 → ∀ s ∈ sarts.map SigArt.sig, ∀ obj, (s.curve, some obj) ∈ st.factory →
        Int.gcd (bytes2int s.s : Int) obj.curve.n = 1 := by
      intro _ s hs obj hm
      obtain ⟨sa, hsa, rfl⟩ := List.mem_map.mp hs
      obtain ⟨obj0, hm0, hc0⟩ := curvesOf_mem hcur hm
      rw [← hc0]
      exact hwf.sInv sa hsa obj0 hm0
    obtain ⟨res, hres⟩ := C02S.check_total k (O.solver j) st.factory _ hF huniq hs
    obtain ⟨_, p2, _⟩ := C02S.check_preserves k (O.solver j) st.factory _ res hF hres
    have hcur' : curvesOf res.factory = curvesOf EcdsaChecks.namedFactory := by
      rw [checkLoop_curves k (O.solver j) _ st.factory res hres, hcur]
    have hw : writesOK c (sarts.map SigArt.art) res.writes = true := by
      unfold writesOK
      rw [hiss, Bool.not_false, Bool.true_and, List.all_eq_true]
      rintro ⟨a, i⟩ hm
      have hai : (sarts.map SigArt.art)[i]? = some a := by
        have := List.mem_zipIdx hm
        simp only [Nat.zero_le, Nat.zero_add, Nat.sub_zero, true_and] at this
        rw [List.getElem?_eq_getElem this.1]; exact congrArg some this.2.symm
      rw [List.getElem?_map] at hai
      cases hsa : sarts[i]? with
      | none => rw [hsa] at hai; cases hai
      | some sa =>
        rw [hsa] at hai
        simp only [Option.map_some, Option.some.injEq] at hai
        subst hai
        simp only [beq_iff_eq]
        have happ : applicable c sa.art = Consts.knownCurves.contains sa.sig.curve := by
          simp [applicable, hneeds, known, SigArt.art]
        rw [happ]
        obtain ⟨_, hidx⟩ := C02S.writes_by_index k (O.solver j) st.factory _ res hnd hres
        apply Bool.eq_iff_iff.mpr
        rw [Option.isSome_iff_ne_none, Ne, EcdsaChecks.verdictOf_none, Classical.not_not, hidx,
          ← named_known]
        constructor
        · rintro ⟨s, obj, hs', hm'⟩
          rw [List.getElem?_map, hsa] at hs'
          simp only [Option.map_some, Option.some.injEq] at hs'
          subst hs'
          obtain ⟨obj0, hm0, _⟩ := curvesOf_mem hcur hm'
          exact ⟨obj0, hm0⟩
        · rintro ⟨obj0, hm0⟩
          obtain ⟨obj, hm', _⟩ := curvesOf_mem hcur.symm hm0
          exact ⟨sa.sig, obj, by rw [List.getElem?_map, hsa]; rfl, hm'⟩
    refine ⟨.direct res.writes res.calls, ⟨st.tables, res.factory⟩, ?_, p2, hcur', htab⟩
    unfold runSigStepG
    rw [if_neg hname, hk]
    simp only
    rw [hres]
    simp only
    rw [if_pos hw]

theorem sigStepsG_total (hp : FieldPrimes) {p : EcParams} (hb : p.bound = 2 ^ 32) {O : SigOracle}
    {st0 : SigState XTable} {sarts : List SigArt} (hwf : SigWF p O st0 sarts) :
    ∀ (l : List (CheckSpec × Nat)), (∀ cj ∈ l, ecdsaAll[cj.2]? = some cj.1) →
    ∀ (st : SigState XTable), TotInv st →
    ∃ outs st', sigStepsG listImpl p O (sarts.map SigArt.art) (sarts.map SigArt.sig) l st =
      .ok (outs, st') ∧ TotInv st' := by
  intro l
  induction l with
  | nil => intro _ st hi; exact ⟨[], st, rfl, hi⟩
  | cons cj rest ih =>
    intro hl st hi
    obtain ⟨out, st1, h1, hi1⟩ := runSigStepG_total hp hb hwf cj.2 cj.1 (hl cj List.mem_cons_self) st hi
    obtain ⟨outs, st2, h2, hi2⟩ := ih (fun x hx => hl x (List.mem_cons_of_mem _ hx)) st1 hi1
    refine ⟨out :: outs, st2, ?_, hi2⟩
    rw [sigStepsG, h1]
    simp only
    rw [h2]

/-! ### the state of a fresh process -/

theorem statesOK_init : ∀ (f : Factory), StatesOK f (f.map fun _ => StateG.init listImpl)
  | [] => trivial
  | _ :: es => ⟨fun c _ => tableIs_init c, statesOK_init es⟩

theorem forall₂_const {α β} {R : α → β → Prop} (g : α → β) (l : List α) (h : ∀ a ∈ l, R a (g a)) :
    List.Forall₂ R l (l.map g) :=
  List.forall₂_map_right_iff.mpr (List.forall₂_same.mpr h)

end Paranoid.EcAll
