/-
Proofs/EcAllBound.lean — totality of the composed EC / ECDSA entry-point models for EVERY value of
the parameter `EcParams.bound` (the literal `2**32` that `ExtendedBatchDL` hands to `BatchDL`; the
quick tier of harness/corr/ecall.py runs the real code and the model with `2**16`), and without the
primality hypothesis (`fieldPrimes`).

The only place the bound enters the control flow of the real code is through the two float values
`table_size = int(math.sqrt(bound * len(all_points)))` and `int(math.sqrt(table_size))`, which are
oracle arguments of the model; `ECWF.wk` asks them to be `≥ 1` for every curve that has keys.  With
the real `math.sqrt` that is the case exactly when `bound ≥ 1` (`len(all_points) ≥ 1` for a
non-empty group), so: the code returns for every bound `≥ 1`; for `bound = 0` the float is `0`,
outside `ECWF` (the real `BatchDL` then runs with `t = -1` on whatever table is cached).
-/
import ParanoidModel.Proofs.EcAllPrimes
namespace Paranoid.EcAll
open Paranoid Paranoid.Ec Paranoid.Bsgs WeierstrassCurve

/-- `ExtendedBatchDL` with any bound leaves a reachable `_table` state behind. -/
theorem extendedBatchDLB_tableIs (c : Curve) (bound : Nat) {st st' : EcState} (h : TableIs c st)
    {points : List Pt} {ts m : Nat} {dls : List (Option Int)}
    (he : extendedBatchDLB listImpl c bound st points ts m = .ok (dls, st')) :
    TableIs c st' ∧ st.tableSize ≤ st'.tableSize := by
  simp only [extendedBatchDLB] at he
  split at he
  · cases he
  · split at he
    · cases he
    · split at he
      · cases he
      · rename_i dls1 st1 hdl
        split at he
        · cases he
        · cases he
          simp only [batchDLG] at hdl
          split at hdl
          · cases hdl
          · rename_i st2 h1
            split at hdl
            · cases hdl
            · cases hdl
              exact ⟨(ensureTable_tableIs c h h1).1, (ensureTable_tableIs c h h1).2.1⟩

/-- one curve's batch of CheckWeakECPrivateKey, any bound: the call returns one answer per point and
a reachable state. -/
theorem weakGroupB_total (c : Curve) (hc : CurveHyp c) (bound : Nat) (st : EcState)
    (hst : TableIs c st) (points : List Pt) (hpts : ∀ P ∈ points, onCurve c P = true) (ts m : Nat)
    (hts : 1 ≤ ts) (hm : 1 ≤ m) :
    ∃ dls st', extendedBatchDLB listImpl c bound st points ts m = .ok (dls, st') ∧ TableIs c st' ∧
      dls.length = points.length := by
  haveI : Fact (Nat.Prime c.p) := ⟨hc.prime⟩
  obtain ⟨h1, h2, _, h4, _, _⟩ := generator_of_paramsOK c hc.params
  obtain ⟨h7, h8⟩ := reduced_of_paramsOK c hc.params
  obtain ⟨V, hV⟩ := stateOK_of_tableIs c h1 h2 hst
  obtain ⟨res, st', e1, _, _, e4, _⟩ := extendedBatchDLB_complete c h1 h2 h7 h8 h4
    (multipliersOK_of_b hc.mults) bound st V hV points hpts ts m hts (fun _ => hm)
  exact ⟨res, st', e1, (extendedBatchDLB_tableIs c bound hst e1).1, e4⟩

/-- CheckWeakECPrivateKey with ANY bound under `WKHyp`: does not raise, writes a verdict exactly for
the keys with a known curve id, leaves reachable states. -/
theorem weakKeyLoopB_total (bound : Nat) (keys : List ECKey) : ∀ (f : Factory) (sts : List EcState)
    (os : List (Nat × Nat)) (res : List Bsgs.KeyVerdict), (f.map (·.id)).Nodup →
    WKHyp keys f sts os → res.length = keys.length →
    ∃ res' sts', weakKeyLoopB listImpl bound keys f sts os res = .ok (res', sts') ∧
      res'.length = keys.length ∧ StatesOK f sts' ∧
      (∀ (p : Nat) (k : ECKey), keys[p]? = some k →
        (∀ e ∈ f, e.id = k.curveType → e.curve = none) → res'[p]? = res[p]?) ∧
      (∀ (p : Nat) (k : ECKey) (e : FEntry) (c : Curve), keys[p]? = some k → e ∈ f →
        e.id = k.curveType → e.curve = some c → ∃ kv, res'[p]? = some (some kv)) := by
  intro f
  induction f with
  | nil =>
    intro sts os res _ hh hl
    cases sts <;> cases os <;> simp only [WKHyp] at hh
    exact ⟨res, [], rfl, hl, trivial, fun _ _ _ _ => rfl, fun _ _ e _ _ he => by simp at he⟩
  | cons e es ih =>
    intro sts os res hnd hh hl
    cases sts with
    | nil => simp only [WKHyp] at hh
    | cons st sts =>
    cases os with
    | nil => simp only [WKHyp] at hh
    | cons o os =>
    obtain ⟨he, hrest⟩ := hh
    rw [List.map_cons, List.nodup_cons] at hnd
    obtain ⟨hnotin, hnd'⟩ := hnd
    have hother : ∀ e' ∈ es, e'.id ≠ e.id := fun e' he' h =>
      hnotin (List.mem_map.mpr ⟨e', he', h⟩)
    have skip : (∀ (p : Nat) (k : ECKey), keys[p]? = some k → k.curveType = e.id → e.curve = none) →
        ∃ res' sts', consState st (weakKeyLoopB listImpl bound keys es sts os res) = .ok (res', sts') ∧
        res'.length = keys.length ∧ StatesOK (e :: es) sts' ∧
        (∀ (p : Nat) (k : ECKey), keys[p]? = some k →
          (∀ e' ∈ e :: es, e'.id = k.curveType → e'.curve = none) → res'[p]? = res[p]?) ∧
        (∀ (p : Nat) (k : ECKey) (e' : FEntry) (c : Curve), keys[p]? = some k → e' ∈ e :: es →
          e'.id = k.curveType → e'.curve = some c → ∃ kv, res'[p]? = some (some kv)) := by
      intro hnone
      obtain ⟨res', sts', h1, h2, h3, h4, h5⟩ := ih sts os res hnd' hrest hl
      refine ⟨res', st :: sts', consState_ok h1, h2, ⟨fun c hc => (he c hc).2.1, h3⟩, ?_, ?_⟩
      · intro p k hk hall
        exact h4 p k hk (fun e' he' => hall e' (List.mem_cons_of_mem _ he'))
      · intro p k e' c hk he' hid hcur
        rcases List.mem_cons.mp he' with rfl | he'
        · have := hnone p k hk hid.symm
          rw [this] at hcur; cases hcur
        · exact h5 p k e' c hk he' hid hcur
    rw [weakKeyLoopB]
    cases hcur : e.curve with
    | none => exact skip (fun _ _ _ _ => hcur)
    | some c =>
      simp only
      by_cases hg : (groupPoints e.id keys).isEmpty = true
      · rw [if_pos hg]
        refine skip (fun p k hk hid => ?_)
        exfalso
        obtain ⟨r, _, hr⟩ := group_rank e.id keys p k hk hid
        rw [List.isEmpty_iff] at hg
        rw [hg] at hr; simp at hr
      · rw [if_neg hg]
        obtain ⟨hch, hst, hon, horc⟩ := he c hcur
        have hne : groupPoints e.id keys ≠ [] := by
          intro h; apply hg; rw [h]; rfl
        obtain ⟨ho1, ho2⟩ := horc hne
        obtain ⟨dls, st', e1, e2, e3⟩ := weakGroupB_total c hch bound st hst (groupPoints e.id keys)
          hon o.1 o.2 ho1 ho2
        rw [e1]
        simp only
        have hpar := group_parallel e.id keys
        have hsc := scatter_spec (keyIdxs e.id keys 0) (dls.map dlogVerdict) res
          (keyIdxs_nodup e.id keys) (by rw [List.length_map, e3, hpar.length_eq])
          (fun i hi => by rw [hl]; exact keyIdxs_lt e.id keys i hi)
        obtain ⟨s1, s2, s3⟩ := hsc
        obtain ⟨res', sts', h1, h2, h3, h4, h5⟩ := ih sts os
          (scatter res (keyIdxs e.id keys 0) (dls.map dlogVerdict)) hnd' hrest (by rw [s1, hl])
        refine ⟨res', st' :: sts', consState_ok h1, h2, ⟨fun c' hc' => (by
          rw [hcur] at hc'; cases hc'; exact e2), h3⟩, ?_, ?_⟩
        · intro p k hk hall
          have hnot : p ∉ keyIdxs e.id keys 0 := by
            intro hp
            have := mem_keyIdxs_type e.id keys p k hp hk
            have := hall e List.mem_cons_self this.symm
            rw [hcur] at this; cases this
          rw [h4 p k hk (fun e' he' => hall e' (List.mem_cons_of_mem _ he')), s3 p hnot]
        · intro p k e' c' hk he' hid hcur'
          rcases List.mem_cons.mp he' with rfl | he'
          · obtain ⟨r, hr1, hr2⟩ := group_rank e'.id keys p k hk hid.symm
            have hrlt : r < dls.length := by
              rw [e3]
              by_contra hge; rw [List.getElem?_eq_none (by omega)] at hr2; cases hr2
            have hres1 : (scatter res (keyIdxs e'.id keys 0) (dls.map dlogVerdict))[p]? =
                some (some (dlogVerdict dls[r])) :=
              s2 r p (dlogVerdict dls[r]) hr1 (by
                rw [List.getElem?_map, List.getElem?_eq_getElem hrlt]; rfl)
            have hkeep := h4 p k hk (fun e'' he'' hid'' =>
              absurd (hid''.trans hid.symm) (hother e'' he''))
            exact ⟨dlogVerdict dls[r], by rw [hkeep, hres1]⟩
          · exact h5 p k e' c' hk he' hid hcur'

/-- the check-level statement. -/
theorem checkWeakECPrivateKeyB_total (bound : Nat) (f : Factory) (sts : List EcState)
    (orc : List (Nat × Nat)) (keys : List ECKey) (hnd : (f.map (·.id)).Nodup)
    (hh : WKHyp keys f sts orc) :
    ∃ res sts', checkWeakECPrivateKeyB listImpl bound f sts orc keys = .ok (res, sts') ∧
      res.length = keys.length ∧ StatesOK f sts' ∧
      (∀ (p : Nat) (k : ECKey), keys[p]? = some k → factoryGet f k.curveType = none →
        res[p]? = some none) ∧
      (∀ (p : Nat) (k : ECKey) (c : Curve), keys[p]? = some k →
        factoryGet f k.curveType = some c → ∃ kv, res[p]? = some (some kv)) := by
  obtain ⟨res, sts', h1, h2, h3, h4, h5⟩ := weakKeyLoopB_total bound keys f sts orc
    (List.replicate keys.length none) hnd hh (by simp)
  refine ⟨res, sts', h1, h2, h3, ?_, ?_⟩
  · intro p k hk hget
    rw [h4 p k hk ((factoryGet_none_iff hnd _).mp hget), List.getElem?_replicate]
    have : p < keys.length := by
      by_contra hge; rw [List.getElem?_eq_none (by omega)] at hk; cases hk
    rw [if_pos this]
  · intro p k c hk hget
    obtain ⟨e, he, hid, hcur⟩ := factoryGet_mem hget
    exact h5 p k e c hk he hid hcur

/-! ### the row computation and the signature steps, any bound, no primality hypothesis -/

/-- `ecRowsG_total` without `FieldPrimes` and for EVERY `p.bound`. -/
theorem ecRowsG_totalB (p : EcParams) (o : EcOracle) (sts : List EcState) (arts : List Artifact)
    (hwf : ECWF p o sts arts) :
    ∃ rows sts', ecRowsG listImpl p o sts arts = .ok (rows, sts') ∧ StatesOK ecFactory sts' := by
  have hfac := ecwf_factory fieldPrimes hwf
  have hnd := ecFactory_nodup
  have h1 : checkValidECKey ecFactory (arts.map keyOf) = _ := C06.checkValidECKey_factory _
  obtain ⟨row3, sts3, h3, l3, st3, n3, s3⟩ := checkWeakECPrivateKeyB_total p.bound ecFactory sts o.wk
    (arts.map keyOf) hnd (wkHyp_of _ _ _ _ (fun e he c hc =>
      ⟨(hfac e he c hc).1, fun P hP => ((hfac e he c hc).2 P hP).1⟩) hwf.states hwf.wk)
  obtain ⟨row4, sts4, h4, l4, st4, n4, s4⟩ := C10.checkECKeySmallDifference_spec ecFactory sts3 o.sd
    (arts.map keyOf) p.maxDiff hnd (sdHyp_of _ _ _ _ _ hfac st3 hwf.sd)
  have hshape : shapeOK ecAll arts [(arts.map keyOf).map fun k => some ⟨invalidKeySpec regenFactory k, none⟩,
      checkWeakCurve ecFactory (arts.map keyOf), row3, row4] = true := by
    rw [ecAll_eq]
    simp only [shapeOK, Bool.not_false, Bool.true_and, Bool.and_true, Bool.and_eq_true]
    refine ⟨?_, ?_, ?_, ?_⟩
    · apply rowOK_of (by simp)
      intro n a kvo ha hkvo
      rw [(applicable_ec a).1]
      simp only [List.getElem?_map, ha, Option.map_some, Option.some.injEq] at hkvo
      rw [← hkvo]; rfl
    · apply rowOK_of (by simp [checkWeakCurve])
      intro n a kvo ha hkvo
      rw [(applicable_ec a).2.1]
      simp only [checkWeakCurve, List.getElem?_map, ha, Option.map_some, Option.some.injEq,
        weakCurveOne] at hkvo
      rw [← hkvo]
      simp only [keyOf]
      cases factoryGet ecFactory a.curve <;> rfl
    · apply rowOK_of (by rw [l3, List.length_map])
      intro n a kvo ha hkvo
      rw [(applicable_ec a).2.2.1]
      cases hg : factoryGet ecFactory a.curve with
      | none =>
        rw [n3 n (keyOf a) (keys_getElem? ha) hg] at hkvo
        cases hkvo; rfl
      | some c =>
        obtain ⟨kv, hkv⟩ := s3 n (keyOf a) c (keys_getElem? ha) hg
        rw [hkv] at hkvo
        cases hkvo; rfl
    · apply rowOK_of (by rw [l4, List.length_map])
      intro n a kvo ha hkvo
      rw [(applicable_ec a).2.2.2]
      cases hg : factoryGet ecFactory a.curve with
      | none =>
        rw [n4 n (keyOf a) (keys_getElem? ha) hg] at hkvo
        cases hkvo; rfl
      | some c =>
        obtain ⟨e, he, hid, hcur⟩ := factoryGet_mem hg
        obtain ⟨kv, _, hkv, _⟩ := s4 n (keyOf a) e c (keys_getElem? ha) he hid hcur
        rw [hkv] at hkvo
        cases hkvo; rfl
  refine ⟨[(arts.map keyOf).map fun k => some ⟨invalidKeySpec regenFactory k, none⟩,
    checkWeakCurve ecFactory (arts.map keyOf), row3, row4], sts4, ?_, st4⟩
  unfold ecRowsG
  rw [ecVerdictsG_ecAll, h1]
  simp only
  rw [h3]
  simp only
  have h4' : checkECKeySmallDifferenceG listImpl ecFactory sts3 o.sd (arts.map keyOf) p.maxDiff =
      .ok (row4, sts4) := h4
  rw [h4']
  simp only
  rw [if_pos hshape]

/-- `runSigStepG_total` without `FieldPrimes` and for every `p.bound`. -/
theorem runSigStepG_totalB {p : EcParams} {O : SigOracle}
    {st0 : SigState XTable} {sarts : List SigArt} (hwf : SigWF p O st0 sarts)
    (j : Nat) (c : CheckSpec) (hj : ecdsaAll[j]? = some c) (st : SigState XTable) (hi : TotInv st) :
    ∃ out st', runSigStepG listImpl p O (sarts.map SigArt.art) (sarts.map SigArt.sig) c j st =
      .ok (out, st') ∧ TotInv st' := by
  cases hiss : c.issuer with
  | true =>
    obtain ⟨hF, hcur, htab⟩ := hi
    obtain ⟨hname, _⟩ := (ecdsaAll_flags c (List.mem_of_getElem? hj)).2 hiss
    obtain ⟨rows, sts', hrows, hst'⟩ := ecRowsG_totalB p (O.floats j) st.tables _
      (hwf.inner j c hj hiss st.tables htab)
    refine ⟨.inner rows, ⟨sts', st.factory⟩, ?_, hF, hcur, hst'⟩
    unfold runSigStepG
    rw [if_pos hname, if_pos hiss, hrows]
  | false =>
    -- a nonce check never reads `p`: reuse the proof for the literal bound
    have hwf' : SigWF ⟨2 ^ 32, p.maxDiff⟩ O st0 sarts :=
      ⟨hwf.factory, hwf.curves, hwf.tables, hwf.uniq, hwf.sInv, fun j c hj hiss sts hsts =>
        let w := hwf.inner j c hj hiss sts hsts
        ⟨w.states, w.points, w.wk, w.sd⟩⟩
    obtain ⟨out, st', h, hi'⟩ := runSigStepG_total fieldPrimes (p := ⟨2 ^ 32, p.maxDiff⟩) rfl hwf'
      j c hj st hi
    refine ⟨out, st', ?_, hi'⟩
    obtain ⟨hname, _, _⟩ := ecdsaAll_kinds c (List.mem_of_getElem? hj) hiss
    unfold runSigStepG at h ⊢
    rw [if_neg hname] at h ⊢
    exact h

theorem sigStepsG_totalB {p : EcParams} {O : SigOracle}
    {st0 : SigState XTable} {sarts : List SigArt} (hwf : SigWF p O st0 sarts) :
    ∀ (l : List (CheckSpec × Nat)), (∀ cj ∈ l, ecdsaAll[cj.2]? = some cj.1) →
    ∀ (st : SigState XTable), TotInv st →
    ∃ outs st', sigStepsG listImpl p O (sarts.map SigArt.art) (sarts.map SigArt.sig) l st =
      .ok (outs, st') ∧ TotInv st' := by
  intro l
  induction l with
  | nil => intro _ st hi; exact ⟨[], st, rfl, hi⟩
  | cons cj rest ih =>
    intro hl st hi
    obtain ⟨out, st1, h1, hi1⟩ := runSigStepG_totalB hwf cj.2 cj.1 (hl cj List.mem_cons_self) st hi
    obtain ⟨outs, st2, h2, hi2⟩ := ih (fun x hx => hl x (List.mem_cons_of_mem _ hx)) st1 hi1
    refine ⟨out :: outs, st2, ?_, hi2⟩
    rw [sigStepsG, h1]
    simp only
    rw [h2]

end Paranoid.EcAll
