/-
Proofs/EcAllFast.lean — the native driver runs the composed entry-point models of Model/EcAll.lean
with the hash-map instance of the `_table` dict; the theorems of Props/EcAll.lean are about the
association-list instance.  Composition of Proofs/BsgsFast.lean: from `Sim`-related states both give
the same error, or the same annotated batch / return value / per-check outputs and related states.
-/
import ParanoidModel.Model.EcAll
import ParanoidModel.Proofs.BsgsFast
namespace Paranoid.EcAll
open Paranoid Paranoid.Ec Paranoid.Bsgs

/-- results of two runs of a composed model: same error, or `R`-related values. -/
def RelErr {α β} (R : α → β → Prop) : Except Err α → Except Err β → Prop
  | .ok a, .ok b => R a b
  | .error e, .error e' => e = e'
  | _, _ => False

theorem relErr_liftPy {α β} {R : α → β → Prop} {x : Except PyErr α} {y : Except PyErr β}
    (h : RelE R x y) : RelErr R (liftPy x) (liftPy y) := by
  cases x with
  | error e =>
    cases y with
    | error e' => exact congrArg Err.py h
    | ok b => exact h.elim
  | ok a =>
    cases y with
    | error e' => exact h.elim
    | ok b => exact h

theorem weakKeyLoopB_sim (bound : Nat) (keys : List ECKey) : ∀ (f : Factory)
    (ss : List (StateG XTable)) (ts : List (StateG HTable)) (os : List (Nat × Nat))
    (res : List Bsgs.KeyVerdict), SimSts ss ts →
    SimResL (weakKeyLoopB listImpl bound keys f ss os res) (weakKeyLoopB hashImpl bound keys f ts os res) := by
  intro f
  induction f with
  | nil => intro ss ts os res _; simp [weakKeyLoopB, SimResL, RelE, SimSts]
  | cons e es ihf =>
    intro ss ts os res h
    cases h with
    | nil => simp [weakKeyLoopB, SimResL, RelE, SimSts]
    | cons hst hrest =>
      rename_i s t ss ts
      cases os with
      | nil => simp [weakKeyLoopB, SimResL, RelE, SimSts]
      | cons o os =>
        rw [weakKeyLoopB, weakKeyLoopB]
        cases e.curve with
        | none => exact consState_sim hst (ihf ss ts os res hrest)
        | some c =>
          simp only
          by_cases hg : (groupPoints e.id keys).isEmpty = true
          · rw [if_pos hg, if_pos hg]; exact consState_sim hst (ihf ss ts os res hrest)
          · rw [if_neg hg, if_neg hg]
            have hx := extendedBatchDLB_sim c bound hst (groupPoints e.id keys) o.1 o.2
            revert hx
            cases extendedBatchDLB listImpl c bound s (groupPoints e.id keys) o.1 o.2 with
            | error e1 =>
              cases extendedBatchDLB hashImpl c bound t (groupPoints e.id keys) o.1 o.2 with
              | error e2 => intro h'; exact h'
              | ok r => intro h'; exact h'.elim
            | ok r1 =>
              cases extendedBatchDLB hashImpl c bound t (groupPoints e.id keys) o.1 o.2 with
              | error e2 => intro h'; exact h'.elim
              | ok r2 =>
                intro h'
                obtain ⟨d1, s1⟩ := r1
                obtain ⟨d2, s2⟩ := r2
                obtain ⟨hd, hs⟩ := h'
                simp only at hd
                subst hd
                exact consState_sim hs (ihf ss ts os _ hrest)

/-- rows and states of one / all registered EC checks. -/
def RowsSim {α} : Except Err (α × List (StateG XTable)) → Except Err (α × List (StateG HTable)) → Prop :=
  RelErr fun a b => a.1 = b.1 ∧ SimSts a.2 b.2

theorem runEcCheckG_sim (p : EcParams) (o : EcOracle) (keys : List ECKey) (name : String)
    {ss : List (StateG XTable)} {ts : List (StateG HTable)} (h : SimSts ss ts) :
    RowsSim (runEcCheckG listImpl p o keys name ss) (runEcCheckG hashImpl p o keys name ts) := by
  unfold runEcCheckG
  split
  · cases checkValidECKey ecFactory keys with
    | error e => rfl
    | ok row => exact ⟨rfl, h⟩
  · split
    · exact ⟨rfl, h⟩
    · split
      · exact relErr_liftPy (weakKeyLoopB_sim p.bound keys ecFactory ss ts o.wk _ h)
      · split
        · exact relErr_liftPy ((driver_agrees_checks ecFactory h keys).2 o.sd p.maxDiff)
        · rfl

theorem ecVerdictsG_sim (p : EcParams) (o : EcOracle) (keys : List ECKey) :
    ∀ (names : List String) (ss : List (StateG XTable)) (ts : List (StateG HTable)), SimSts ss ts →
    RowsSim (ecVerdictsG listImpl p o keys names ss) (ecVerdictsG hashImpl p o keys names ts) := by
  intro names
  induction names with
  | nil => intro ss ts h; exact ⟨rfl, h⟩
  | cons name names ih =>
    intro ss ts h
    rw [ecVerdictsG, ecVerdictsG]
    have h1 := runEcCheckG_sim p o keys name h
    revert h1
    cases runEcCheckG listImpl p o keys name ss with
    | error e1 =>
      cases runEcCheckG hashImpl p o keys name ts with
      | error e2 => intro h'; exact h'
      | ok r => intro h'; exact h'.elim
    | ok r1 =>
      cases runEcCheckG hashImpl p o keys name ts with
      | error e2 => intro h'; exact h'.elim
      | ok r2 =>
        intro h'
        obtain ⟨row1, s1⟩ := r1
        obtain ⟨row2, s2⟩ := r2
        obtain ⟨hr, hs⟩ := h'
        simp only at hr hs ⊢
        subst hr
        have h2 := ih s1 s2 hs
        revert h2
        cases ecVerdictsG listImpl p o keys names s1 with
        | error e1 =>
          cases ecVerdictsG hashImpl p o keys names s2 with
          | error e2 => intro h''; exact h''
          | ok r => intro h''; exact h''.elim
        | ok q1 =>
          cases ecVerdictsG hashImpl p o keys names s2 with
          | error e2 => intro h''; exact h''.elim
          | ok q2 =>
            intro h''
            obtain ⟨hq, hs'⟩ := h''
            exact ⟨by simp only; rw [hq], hs'⟩

theorem ecRowsG_sim (p : EcParams) (o : EcOracle) (arts : List Artifact)
    {ss : List (StateG XTable)} {ts : List (StateG HTable)} (h : SimSts ss ts) :
    RowsSim (ecRowsG listImpl p o ss arts) (ecRowsG hashImpl p o ts arts) := by
  unfold ecRowsG
  have h1 := ecVerdictsG_sim p o (arts.map keyOf) (ecAll.map (·.name)) ss ts h
  revert h1
  cases ecVerdictsG listImpl p o (arts.map keyOf) (ecAll.map (·.name)) ss with
  | error e1 =>
    cases ecVerdictsG hashImpl p o (arts.map keyOf) (ecAll.map (·.name)) ts with
    | error e2 => intro h'; exact h'
    | ok r => intro h'; exact h'.elim
  | ok r1 =>
    cases ecVerdictsG hashImpl p o (arts.map keyOf) (ecAll.map (·.name)) ts with
    | error e2 => intro h'; exact h'.elim
    | ok r2 =>
      intro h'
      obtain ⟨rows1, s1⟩ := r1
      obtain ⟨rows2, s2⟩ := r2
      obtain ⟨hr, hs⟩ := h'
      simp only at hr hs ⊢
      subst hr
      split
      · exact ⟨rfl, hs⟩
      · rfl

/-- ★ `CheckAllEC`: the driver's instance and the instance of the theorems agree. -/
theorem checkAllECFullG_sim (p : EcParams) (o : EcOracle) (arts : List Artifact)
    {ss : List (StateG XTable)} {ts : List (StateG HTable)} (h : SimSts ss ts) :
    RowsSim (checkAllECFullG listImpl p o ss arts) (checkAllECFullG hashImpl p o ts arts) := by
  unfold checkAllECFullG
  have h1 := ecRowsG_sim p o arts h
  revert h1
  cases ecRowsG listImpl p o ss arts with
  | error e1 =>
    cases ecRowsG hashImpl p o ts arts with
    | error e2 => intro h'; exact h'
    | ok r => intro h'; exact h'.elim
  | ok r1 =>
    cases ecRowsG hashImpl p o ts arts with
    | error e2 => intro h'; exact h'.elim
    | ok r2 =>
      intro h'
      obtain ⟨rows1, s1⟩ := r1
      obtain ⟨rows2, s2⟩ := r2
      obtain ⟨hr, hs⟩ := h'
      simp only at hr hs ⊢
      subst hr
      cases checkAllEC .repaired (verdictAt rows1) noInner arts with
      | error e => rfl
      | ok r => exact ⟨rfl, hs⟩

/-- the curve objects of the two instances: same `_cache`s, related `_table`s. -/
def SimSig (a : SigState XTable) (b : SigState HTable) : Prop :=
  SimSts a.tables b.tables ∧ a.factory = b.factory

def StepSim : Except Err (StepOut × SigState XTable) → Except Err (StepOut × SigState HTable) → Prop :=
  RelErr fun a b => a.1 = b.1 ∧ SimSig a.2 b.2

theorem runSigStepG_sim (p : EcParams) (O : SigOracle) (arts : List Artifact)
    (sigs : List EcdsaChecks.Sig) (c : CheckSpec) (j : Nat) {a : SigState XTable}
    {b : SigState HTable} (h : SimSig a b) :
    StepSim (runSigStepG listImpl p O arts sigs c j a) (runSigStepG hashImpl p O arts sigs c j b) := by
  obtain ⟨ht, hf⟩ := h
  unfold runSigStepG
  split
  · split
    · have h1 := ecRowsG_sim p (O.floats j) (issuerKeys .repaired arts) ht
      revert h1
      cases ecRowsG listImpl p (O.floats j) a.tables (issuerKeys .repaired arts) with
      | error e1 =>
        cases ecRowsG hashImpl p (O.floats j) b.tables (issuerKeys .repaired arts) with
        | error e2 => intro h'; exact h'
        | ok r => intro h'; exact h'.elim
      | ok r1 =>
        cases ecRowsG hashImpl p (O.floats j) b.tables (issuerKeys .repaired arts) with
        | error e2 => intro h'; exact h'.elim
        | ok r2 =>
          intro h'
          obtain ⟨rows1, s1⟩ := r1
          obtain ⟨rows2, s2⟩ := r2
          obtain ⟨hr, hs⟩ := h'
          simp only at hr hs
          subst hr
          exact ⟨rfl, hs, hf⟩
    · rfl
  · rw [hf]
    split
    · rfl
    · cases EcdsaChecks.check _ (O.solver j) b.factory sigs with
      | error e => rfl
      | ok res =>
        simp only
        split
        · exact ⟨rfl, ht, rfl⟩
        · rfl

def StepsSim : Except Err (List StepOut × SigState XTable) → Except Err (List StepOut × SigState HTable) → Prop :=
  RelErr fun a b => a.1 = b.1 ∧ SimSig a.2 b.2

theorem sigStepsG_sim (p : EcParams) (O : SigOracle) (arts : List Artifact)
    (sigs : List EcdsaChecks.Sig) : ∀ (l : List (CheckSpec × Nat)) (a : SigState XTable)
    (b : SigState HTable), SimSig a b →
    StepsSim (sigStepsG listImpl p O arts sigs l a) (sigStepsG hashImpl p O arts sigs l b) := by
  intro l
  induction l with
  | nil => intro a b h; exact ⟨rfl, h⟩
  | cons cj rest ih =>
    intro a b h
    rw [sigStepsG, sigStepsG]
    have h1 := runSigStepG_sim p O arts sigs cj.1 cj.2 h
    revert h1
    cases runSigStepG listImpl p O arts sigs cj.1 cj.2 a with
    | error e1 =>
      cases runSigStepG hashImpl p O arts sigs cj.1 cj.2 b with
      | error e2 => intro h'; exact h'
      | ok r => intro h'; exact h'.elim
    | ok r1 =>
      cases runSigStepG hashImpl p O arts sigs cj.1 cj.2 b with
      | error e2 => intro h'; exact h'.elim
      | ok r2 =>
        intro h'
        obtain ⟨out1, s1⟩ := r1
        obtain ⟨out2, s2⟩ := r2
        obtain ⟨hr, hs⟩ := h'
        simp only at hr hs ⊢
        subst hr
        have h2 := ih s1 s2 hs
        revert h2
        cases sigStepsG listImpl p O arts sigs rest s1 with
        | error e1 =>
          cases sigStepsG hashImpl p O arts sigs rest s2 with
          | error e2 => intro h''; exact h''
          | ok r => intro h''; exact h''.elim
        | ok q1 =>
          cases sigStepsG hashImpl p O arts sigs rest s2 with
          | error e2 => intro h''; exact h''.elim
          | ok q2 =>
            intro h''
            obtain ⟨hq, hs'⟩ := h''
            exact ⟨by simp only; rw [hq], hs'⟩

/-- ★ `CheckAllECDSASigs`: the driver's instance and the instance of the theorems agree on the
annotated batch, the return value, what every registered check produced (verdicts, solver calls,
inner rows) and leave related curve objects. -/
theorem checkAllECDSASigsFullG_sim (p : EcParams) (O : SigOracle) (sarts : List SigArt)
    {a : SigState XTable} {b : SigState HTable} (h : SimSig a b) :
    RelErr (fun (x : SigRun XTable) (y : SigRun HTable) =>
        x.result = y.result ∧ x.outs = y.outs ∧ SimSig x.state y.state)
      (checkAllECDSASigsFullG listImpl p O a sarts) (checkAllECDSASigsFullG hashImpl p O b sarts) := by
  unfold checkAllECDSASigsFullG
  have h1 := sigStepsG_sim p O (sarts.map SigArt.art) (sarts.map SigArt.sig) ecdsaAll.zipIdx a b h
  revert h1
  cases sigStepsG listImpl p O (sarts.map SigArt.art) (sarts.map SigArt.sig) ecdsaAll.zipIdx a with
  | error e1 =>
    cases sigStepsG hashImpl p O (sarts.map SigArt.art) (sarts.map SigArt.sig) ecdsaAll.zipIdx b with
    | error e2 => intro h'; exact h'
    | ok r => intro h'; exact h'.elim
  | ok r1 =>
    cases sigStepsG hashImpl p O (sarts.map SigArt.art) (sarts.map SigArt.sig) ecdsaAll.zipIdx b with
    | error e2 => intro h'; exact h'.elim
    | ok r2 =>
      intro h'
      obtain ⟨outs1, s1⟩ := r1
      obtain ⟨outs2, s2⟩ := r2
      obtain ⟨hr, hs⟩ := h'
      simp only at hr hs ⊢
      subst hr
      cases checkAllECDSASigs .repaired (sigVerdictAt outs1) (sigInnerAt outs1) (sarts.map SigArt.art) with
      | error e => rfl
      | ok r => exact ⟨rfl, rfl, hs⟩

end Paranoid.EcAll
