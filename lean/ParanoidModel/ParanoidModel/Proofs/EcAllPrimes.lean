/-
Proofs/EcAllPrimes.lean — the primality hypothesis `FieldPrimes` of the end-to-end EC / ECDSA
theorems (Proofs/EcAll.lean), `hprime` of `C02S.namedFactory_ok` and the premise of
`C10.curve_factory_hyp`, DISCHARGED from the kernel-checked Pratt certificates of
Props/C11Primes.lean.  Nothing here is a hypothesis: the statements are about the curve constants
regenerated from `ec_util.CURVE_FACTORY`, so a changed constant breaks the build.
-/
import ParanoidModel.Proofs.EcAll
import ParanoidModel.Props.C11Primes
namespace Paranoid.EcAll
open Paranoid Paranoid.Ec Paranoid.Bsgs

/-- the nine curve objects of the regenerated `CURVE_FACTORY`, in dict order. -/
theorem ecFactory_curves : ecFactory.filterMap (·.curve) =
    [secp256r1, secp384r1, secp192r1, secp224r1, secp521r1, secp256k1, brainpoolP256r1,
     brainpoolP384r1, brainpoolP512r1] := by
  decide +kernel

/-- the nine field moduli are prime (Pratt certificates, Props/C11Primes). -/
theorem named_primes : ∀ c ∈ [secp256r1, secp384r1, secp192r1, secp224r1, secp521r1, secp256k1,
    brainpoolP256r1, brainpoolP384r1, brainpoolP512r1], Nat.Prime c.p := by
  intro c hc
  simp only [List.mem_cons, List.not_mem_nil, or_false] at hc
  rcases hc with rfl | rfl | rfl | rfl | rfl | rfl | rfl | rfl | rfl
  · exact C11Primes.secp256r1_p_prime
  · exact C11Primes.secp384r1_p_prime
  · exact C11Primes.secp192r1_p_prime
  · exact C11Primes.secp224r1_p_prime
  · exact C11Primes.secp521r1_p_prime
  · exact C11Primes.secp256k1_p_prime
  · exact C11Primes.brainpoolP256r1_p_prime
  · exact C11Primes.brainpoolP384r1_p_prime
  · exact C11Primes.brainpoolP512r1_p_prime

/-- the nine group orders are prime (Pratt certificates, Props/C11Primes). -/
theorem named_orders_prime : ∀ c ∈ [secp256r1, secp384r1, secp192r1, secp224r1, secp521r1,
    secp256k1, brainpoolP256r1, brainpoolP384r1, brainpoolP512r1], Nat.Prime c.n := by
  intro c hc
  simp only [List.mem_cons, List.not_mem_nil, or_false] at hc
  rcases hc with rfl | rfl | rfl | rfl | rfl | rfl | rfl | rfl | rfl
  · exact C11Primes.secp256r1_n_prime
  · exact C11Primes.secp384r1_n_prime
  · exact C11Primes.secp192r1_n_prime
  · exact C11Primes.secp224r1_n_prime
  · exact C11Primes.secp521r1_n_prime
  · exact C11Primes.secp256k1_n_prime
  · exact C11Primes.brainpoolP256r1_n_prime
  · exact C11Primes.brainpoolP384r1_n_prime
  · exact C11Primes.brainpoolP512r1_n_prime

/-- ★ `FieldPrimes` holds: the field modulus of every curve object of the regenerated
`CURVE_FACTORY` is prime.  (Was a hypothesis "validated per run by gmpy2.is_prime".) -/
theorem fieldPrimes : FieldPrimes := by
  intro e he c hc
  have hm : c ∈ ecFactory.filterMap (·.curve) := List.mem_filterMap.2 ⟨e, he, hc⟩
  rw [ecFactory_curves] at hm
  exact named_primes c hm

/-- the same for the group orders. -/
theorem orderPrimes : ∀ e ∈ ecFactory, ∀ c, e.curve = some c → Nat.Prime c.n := by
  intro e he c hc
  have hm : c ∈ ecFactory.filterMap (·.curve) := List.mem_filterMap.2 ⟨e, he, hc⟩
  rw [ecFactory_curves] at hm
  exact named_orders_prime c hm

/-- `CurveHyp` (field prime, `paramsOK`, invertible multipliers) for every curve object of the
regenerated factory — no hypothesis. -/
theorem ecFactory_curveHyp : ∀ e ∈ ecFactory, ∀ c, e.curve = some c → CurveHyp c :=
  regenFactory_curveHyp fieldPrimes

theorem curveHyp_of_get {id : Nat} {c : Curve} (h : factoryGet ecFactory id = some c) :
    CurveHyp c := curveHyp_of_factoryGet fieldPrimes h

theorem prime_of_get {id : Nat} {c : Curve} (h : factoryGet ecFactory id = some c) :
    Nat.Prime c.p := (curveHyp_of_get h).prime

theorem orderPrime_of_get {id : Nat} {c : Curve} (h : factoryGet ecFactory id = some c) :
    Nat.Prime c.n := by
  obtain ⟨e, he, _, hcur⟩ := factoryGet_mem h
  exact orderPrimes e he c hcur

end Paranoid.EcAll
