/-
Proofs/EcBatch.lean — every batched affine operation equals the list map of the scalar operation,
for ALL lists (∞, equal points, opposite points, duplicates, unreduced coordinates).
Only primality of `p` is used (through `batchInverse_spec`).
-/
import ParanoidModel.Proofs.EcBatchInverse
namespace Paranoid.Ec
open Paranoid WeierstrassCurve
variable (c : Curve)

theorem mapE_eq_mapM {α β} (f : α → Except PyErr β) (l : List α) : mapE f l = l.mapM f := by
  induction l with
  | nil => rfl
  | cons a as ih =>
    rw [List.mapM_cons, mapE, ih]
    cases f a with
    | error e => rfl
    | ok b =>
      cases List.mapM f as with
      | error e => rfl
      | ok bs => rfl

theorem inv_red (v : Int) : c.inv (c.red v) = c.inv v := by
  unfold Curve.inv invMod Curve.red
  simp only [Int.emod_emod_of_dvd _ (dvd_refl _)]

theorem mapM₂_map {α β} (step : α → Option Int → Except PyErr β) (g : α → Option Int) (ps : List α) :
    mapM₂ step ps (ps.map g) = mapE (fun a => step a (g a)) ps := by
  induction ps with
  | nil => rfl
  | cons a as ih =>
    simp only [List.map_cons, mapM₂, mapE, ih]
    cases step a (g a) with
    | error e => rfl
    | ok r => cases mapE (fun a => step a (g a)) as <;> rfl

variable [hp : Fact (Nat.Prime c.p)]

/-- every entry is `None` or a reduced value `w % p` (what the batched point operations pass
to BatchInverse). -/
def IsRedList (l : List (Option Int)) : Prop := ∀ v ∈ l, ∀ u, v = some u → ∃ w, u = c.red w

omit hp in
theorem isRedList_nil : IsRedList c [] := fun _ h => absurd h List.not_mem_nil

omit hp in
theorem isRedList_cons {v : Option Int} {l : List (Option Int)}
    (hv : ∀ u, v = some u → ∃ w, u = c.red w) (hl : IsRedList c l) : IsRedList c (v :: l) := by
  intro v' hv' u hu
  rcases List.mem_cons.mp hv' with rfl | h
  · exact hv u hu
  · exact hl v' h u hu

omit hp in
theorem isRedList_map {α} (g : α → Option Int) (ps : List α)
    (hg : ∀ a u, g a = some u → ∃ w, u = c.red w) : IsRedList c (ps.map g) := by
  intro v hv u hu
  obtain ⟨a, _, rfl⟩ := List.mem_map.mp hv
  exact hg a u hu

/-- a reduced, non-zero value is invertible: BatchInverse cannot fail inside the batched
point operations. -/
theorem allInvertible_of_isRedList {l : List (Option Int)} (h : IsRedList c l) :
    AllInvertible c l := by
  intro v hv x hx
  cases v with
  | none => simp [truthy] at hx
  | some u =>
    obtain ⟨w, rfl⟩ := h _ hv u rfl
    simp only [truthy] at hx
    split at hx
    · cases hx
    · rename_i hne
      cases hx
      rwa [Ne, ← red_cast_eq_zero]

theorem batchInverse_red {l : List (Option Int)} (h : IsRedList c l) :
    batchInverse c l = .ok (l.map (specEntry c)) := by
  rw [batchInverse_spec, mapE_invEntry_ok c l (allInvertible_of_isRedList c h)]

/-- the inverse BatchInverse delivers for a reduced entry `w % p`. -/
theorem specEntry_red (w : Int) :
    (c.red w = 0 ∧ specEntry c (some (c.red w)) = none) ∨
    (c.red w ≠ 0 ∧ ∃ i, specEntry c (some (c.red w)) = some i ∧ c.inv w = .ok i ∧ i ≠ 0) := by
  by_cases h : c.red w = 0
  · left; exact ⟨h, by simp [specEntry, truthy, h]⟩
  · right
    refine ⟨h, invVal c (c.red w), by simp [specEntry, truthy, h], ?_, ?_⟩
    · have hne : ((c.red w : Int) : ZMod c.p) ≠ 0 := by rwa [Ne, ← red_cast_eq_zero]
      rw [← inv_red]; exact (invVal_spec c hne).1
    · have hne : ((c.red w : Int) : ZMod c.p) ≠ 0 := by rwa [Ne, ← red_cast_eq_zero]
      intro h0
      have := (invVal_spec c hne).2.2.2
      rw [h0, Int.cast_zero] at this
      exact inv_ne_zero hne this.symm

/-! ### BatchAddList -/

omit hp in
theorem diffX_red (p q : Pt) (u : Int) (h : diffX c p q = some u) : ∃ w, u = c.red w := by
  cases p <;> cases q <;> simp only [diffX, Option.some.injEq, reduceCtorEq] at h
  exact ⟨_, h.symm⟩

theorem addListStep_spec (p q : Pt) : addListStep c p q (specEntry c (diffX c p q)) = add c p q := by
  cases p with
  | inf => cases q <;> simp [diffX, specEntry, truthy, addListStep]
  | aff x1 y1 =>
  cases q with
  | inf => simp [diffX, specEntry, truthy, addListStep]
  | aff x2 y2 =>
    simp only [diffX]
    rcases specEntry_red c (x1 - x2) with ⟨h0, hs⟩ | ⟨h0, i, hs, hi, _⟩
    · rw [hs]; simp [addListStep]
    · rw [hs, add_aff, if_neg h0, hi]
      simp only [addListStep, mul_comm i]

omit hp in
theorem isRedList_zipWith_diffX (ps qs : List Pt) : IsRedList c (List.zipWith (diffX c) ps qs) := by
  induction ps generalizing qs with
  | nil => simpa using isRedList_nil c
  | cons p ps ih =>
    cases qs with
    | nil => simpa using isRedList_nil c
    | cons q qs =>
      rw [List.zipWith_cons_cons]
      exact isRedList_cons c (diffX_red c p q) (ih qs)

theorem addListLoop_spec (ps qs : List Pt) :
    addListLoop c ps qs ((List.zipWith (diffX c) ps qs).map (specEntry c)) =
      mapE (fun pq : Pt × Pt => add c pq.1 pq.2) (ps.zip qs) := by
  induction ps generalizing qs with
  | nil => simp [addListLoop, mapE]
  | cons p ps ih =>
    cases qs with
    | nil => simp [addListLoop, mapE]
    | cons q qs =>
      simp only [List.zipWith_cons_cons, List.map_cons, List.zip_cons_cons, addListLoop, mapE,
        addListStep_spec, ih]
      cases add c p q with
      | error e => rfl
      | ok r => cases mapE (fun pq : Pt × Pt => add c pq.1 pq.2) (ps.zip qs) <;> rfl

/-- **BatchAddList** is `[Add(p, q) for (p, q) in zip(p_list, q_list)]` for ALL lists (any mixture
of ∞, equal points, opposite points, unreduced coordinates), after the length check. -/
theorem batchAddList_eq_map (ps qs : List Pt) :
    batchAddList c ps qs =
      if ps.length ≠ qs.length then .error .valueError
      else mapE (fun pq : Pt × Pt => add c pq.1 pq.2) (ps.zip qs) := by
  unfold batchAddList
  split
  · rfl
  · rw [batchInverse_red c (isRedList_zipWith_diffX c ps qs)]
    exact addListLoop_spec c ps qs

/-! ### BatchDouble -/

omit hp in
theorem twoY_red (p : Pt) (u : Int) (h : twoY c p = some u) : ∃ w, u = c.red w := by
  cases p <;> simp only [twoY, Option.some.injEq, reduceCtorEq] at h
  exact ⟨_, h.symm⟩

theorem doubleStep_spec (p : Pt) : doubleStep c (double c) p (specEntry c (twoY c p)) = double c p := by
  cases p with
  | inf => simp [twoY, specEntry, truthy, doubleStep]
  | aff x y =>
    simp only [twoY]
    rcases specEntry_red c (2 * y) with ⟨h0, hs⟩ | ⟨h0, i, hs, hi, _⟩
    · rw [hs]; simp [doubleStep]
    · rw [hs, double_aff]
      have hy : c.red y ≠ 0 := by
        intro hy
        apply h0
        rw [red_eq_zero_iff] at hy ⊢
        push_cast; rw [hy, mul_zero]
      rw [if_neg hy, hi]
      simp only [doubleStep]

omit hp in
theorem doubleLoop_map (dbl : Pt → Except PyErr Pt) (g : Pt → Option Int) (ps : List Pt) :
    doubleLoop c dbl ps (ps.map g) = mapE (fun p => doubleStep c dbl p (g p)) ps := by
  induction ps with
  | nil => rfl
  | cons a as ih =>
    simp only [List.map_cons, doubleLoop, mapE, ih]
    cases doubleStep c dbl a (g a) with
    | error e => rfl
    | ok r => cases mapE (fun p => doubleStep c dbl p (g p)) as <;> rfl

/-- **BatchDouble** is `[Double(p) for p in p_list]` for ALL lists. -/
theorem batchDouble_eq_map (ps : List Pt) : batchDouble c ps = mapE (double c) ps := by
  unfold batchDouble
  rw [batchInverse_red c (isRedList_map c _ ps (twoY_red c)), List.map_map]
  simp only [doubleLoop_map, Function.comp_def, doubleStep_spec]

/-! ### BatchAdd, BatchAddX, BatchAddSubtractX -/

omit hp in
theorem truthy_some_ne {i : Int} (h : i ≠ 0) : truthy (some i) = some i := by simp [truthy, h]

theorem batchAddStep_spec (x1 y1 : Int) (q : Pt) :
    batchAddStep c x1 y1 q (specEntry c (diffX c (.aff x1 y1) q)) = add c (.aff x1 y1) q := by
  cases q with
  | inf => simp [diffX, specEntry, truthy, batchAddStep]
  | aff x2 y2 =>
    simp only [diffX]
    rcases specEntry_red c (x1 - x2) with ⟨h0, hs⟩ | ⟨h0, i, hs, hi, hi0⟩
    · rw [hs]; simp [batchAddStep, truthy]
    · rw [hs, add_aff, if_neg h0, hi]
      simp only [batchAddStep, truthy_some_ne hi0, mul_comm i]

omit hp in
theorem mapE_add_inf (qs : List Pt) : mapE (add c .inf) qs = .ok qs := by
  induction qs with
  | nil => rfl
  | cons q qs ih => simp [mapE, ih, add]

/-- **BatchAdd** is `[Add(p, q) for q in points]` for ALL lists. -/
theorem batchAdd_eq_map (P : Pt) (qs : List Pt) : batchAdd c P qs = mapE (add c P) qs := by
  cases P with
  | inf => rw [mapE_add_inf]; rfl
  | aff x1 y1 =>
    simp only [batchAdd]
    rw [batchInverse_red c (isRedList_map c _ qs (diffX_red c _)), List.map_map]
    dsimp only
    rw [mapM₂_map]
    simp only [Function.comp_def, batchAddStep_spec]

theorem batchAddXStep_spec (x1 y1 : Int) (q : Pt) :
    batchAddXStep c x1 y1 q (specEntry c (diffX c (.aff x1 y1) q)) = addX c (.aff x1 y1) q := by
  cases q with
  | inf => simp [diffX, specEntry, truthy, batchAddXStep, addX]
  | aff x2 y2 =>
    simp only [diffX]
    rcases specEntry_red c (x1 - x2) with ⟨h0, hs⟩ | ⟨h0, i, hs, hi, hi0⟩
    · rw [hs]; simp [batchAddXStep, truthy]
    · rw [hs, addX, add_aff, if_neg h0, hi]
      simp only [batchAddXStep, truthy_some_ne hi0, mul_comm i, chord, Pt.x?]

omit hp in
theorem mapE_addX_inf (qs : List Pt) : mapE (addX c .inf) qs = .ok (qs.map Pt.x?) := by
  induction qs with
  | nil => rfl
  | cons q qs ih => simp [mapE, ih, add, addX]

/-- **BatchAddX** is `[Add(p, q)[0] for q in points]` for ALL lists. -/
theorem batchAddX_eq_map (P : Pt) (qs : List Pt) : batchAddX c P qs = mapE (addX c P) qs := by
  cases P with
  | inf => rw [mapE_addX_inf]; rfl
  | aff x1 y1 =>
    simp only [batchAddX]
    rw [batchInverse_red c (isRedList_map c _ qs (diffX_red c _)), List.map_map]
    dsimp only
    rw [mapM₂_map]
    simp only [Function.comp_def, batchAddXStep_spec]

theorem batchAddSubXStep_spec (x1 y1 : Int) (q : Pt) :
    batchAddSubXStep c x1 y1 q (specEntry c (diffX c (.aff x1 y1) q)) = addSubX c (.aff x1 y1) q := by
  cases q with
  | inf => simp [diffX, specEntry, truthy, batchAddSubXStep, addSubX]
  | aff x2 y2 =>
    simp only [diffX]
    rcases specEntry_red c (x1 - x2) with ⟨h0, hs⟩ | ⟨h0, i, hs, hi, hi0⟩
    · rw [hs]; simp [batchAddSubXStep, truthy]
    · rw [hs, addSubX, subtract, negate, add_aff, add_aff]
      have ht : c.red (i * (y1 + y2)) = c.red ((y1 - c.red (-y2)) * i) := by
        rw [red_eq_red_iff]; push_cast; rw [cast_red]; push_cast; ring
      simp only [h0, ↓reduceIte, hi, batchAddSubXStep, truthy_some_ne hi0, mul_comm i (y1 - y2),
        chord, Pt.x?, ht]

/-- **BatchAddSubtractX**: `(sums[i], diffs[i]) = (Add(p, q_i)[0], Subtract(p, q_i)[0])` for ALL lists. -/
theorem batchAddSubtractX_eq_map (P : Pt) (qs : List Pt) :
    batchAddSubtractX c P qs =
      match mapE (addSubX c P) qs with
      | .error e => .error e
      | .ok l => .ok (l.map Prod.fst, l.map Prod.snd) := by
  cases P with
  | inf =>
    have : mapE (addSubX c .inf) qs = .ok (qs.map fun q => (q.x?, q.x?)) := by
      induction qs with
      | nil => rfl
      | cons q qs ih => cases q <;> simp [mapE, ih, add, addSubX, subtract, negate, Pt.x?]
    rw [this]
    simp [batchAddSubtractX, Function.comp_def]
  | aff x1 y1 =>
    simp only [batchAddSubtractX]
    rw [batchInverse_red c (isRedList_map c _ qs (diffX_red c _)), List.map_map]
    dsimp only
    rw [mapM₂_map]
    simp only [Function.comp_def, batchAddSubXStep_spec]
    cases mapE (addSubX c (Pt.aff x1 y1)) qs <;> rfl

end Paranoid.Ec
