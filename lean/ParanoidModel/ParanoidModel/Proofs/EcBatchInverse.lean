/-
Proofs/EcBatchInverse.lean — BatchInverse (Montgomery's simultaneous inversion) equals the
entry-wise `gmpy.invert`, raises ZeroDivisionError exactly when a non-skipped entry is `≡ 0 (mod p)`,
and its final self-check is unreachable.
-/
import ParanoidModel.Proofs.Ec
namespace Paranoid.Ec
open Paranoid WeierstrassCurve
variable (c : Curve)

/-- `[f(x) for x in xs]` where `f` may raise: the first exception wins. -/
def mapE {α β} (f : α → Except PyErr β) : List α → Except PyErr (List β)
  | [] => .ok []
  | a :: as =>
    match f a with
    | .error e => .error e
    | .ok b =>
      match mapE f as with
      | .error e => .error e
      | .ok bs => .ok (b :: bs)

/-- specification of one entry of BatchInverse: `None`/`0` ↦ `None`, else `gmpy.invert(v, mod)`. -/
def invEntry (v : Option Int) : Except PyErr (Option Int) :=
  match truthy v with
  | none => .ok none
  | some x =>
    match c.inv x with
    | .error e => .error e
    | .ok i => .ok (some i)

theorem biForward_cons (v : Option Int) (vs : List (Option Int)) (prod : Int) :
    biForward c (v :: vs) prod =
      match truthy v with
      | some x => (some prod :: (biForward c vs (c.red (prod * x))).1, (biForward c vs (c.red (prod * x))).2)
      | none => (none :: (biForward c vs prod).1, (biForward c vs prod).2) := by
  rw [biForward]
  cases truthy v with
  | none => generalize biForward c vs prod = q; obtain ⟨a, b⟩ := q; rfl
  | some x => generalize biForward c vs (c.red (prod * x)) = q; obtain ⟨a, b⟩ := q; rfl

theorem biBackward_cons (v r : Option Int) (vs rs : List (Option Int)) (inv : Int) :
    biBackward c (v :: vs) (r :: rs) inv =
      match truthy v, r with
      | some x, some r' => (some (c.red (r' * (biBackward c vs rs inv).2)) :: (biBackward c vs rs inv).1,
          c.red ((biBackward c vs rs inv).2 * x))
      | _, _ => (r :: (biBackward c vs rs inv).1, (biBackward c vs rs inv).2) := by
  rw [biBackward]
  generalize biBackward c vs rs inv = q; obtain ⟨a, b⟩ := q; rfl

/-- product in `ZMod p` of the entries that BatchInverse does not skip. -/
def fprod : List (Option Int) → ZMod c.p
  | [] => 1
  | v :: vs =>
    match truthy v with
    | some x => (x : ZMod c.p) * fprod vs
    | none => fprod vs

theorem biForward_prod (vs : List (Option Int)) : ∀ prod : Int,
    (((biForward c vs prod).2 : Int) : ZMod c.p) = (prod : ZMod c.p) * fprod c vs := by
  induction vs with
  | nil => intro prod; simp [biForward, fprod]
  | cons v vs ih =>
    intro prod
    rw [biForward_cons, fprod]
    cases hv : truthy v with
    | none => simp only; exact ih prod
    | some x =>
      simp only
      rw [ih, cast_red, Int.cast_mul, mul_assoc]

variable [hp : Fact (Nat.Prime c.p)]

/-- the value `gmpy.invert(x, mod)` when it exists. -/
def invVal (x : Int) : Int :=
  match c.inv x with
  | .ok i => i
  | .error _ => 0

theorem invVal_spec {x : Int} (hx : (x : ZMod c.p) ≠ 0) :
    c.inv x = .ok (invVal c x) ∧ 0 ≤ invVal c x ∧ invVal c x < c.p ∧
      ((invVal c x : Int) : ZMod c.p) = (x : ZMod c.p)⁻¹ := by
  rcases inv_cases c x with ⟨_, i, hi, h0, hlt, hiv⟩ | ⟨h0, _⟩
  · have : invVal c x = i := by simp [invVal, hi]
    rw [this]; exact ⟨hi, h0, hlt, hiv⟩
  · exact absurd h0 hx

/-- every non-skipped entry is invertible mod `p`. -/
def AllInvertible (vs : List (Option Int)) : Prop :=
  ∀ v ∈ vs, ∀ x, truthy v = some x → (x : ZMod c.p) ≠ 0

def specEntry (v : Option Int) : Option Int :=
  match truthy v with
  | none => none
  | some x => some (invVal c x)

theorem bi_core (vs : List (Option Int)) (hall : AllInvertible c vs) : ∀ (prod inv : Int),
    0 ≤ inv → inv < c.p →
    (inv : ZMod c.p) * (((biForward c vs prod).2 : Int) : ZMod c.p) = 1 →
    (biBackward c vs (biForward c vs prod).1 inv).1 = vs.map (specEntry c) ∧
    0 ≤ (biBackward c vs (biForward c vs prod).1 inv).2 ∧
    (biBackward c vs (biForward c vs prod).1 inv).2 < c.p ∧
    (((biBackward c vs (biForward c vs prod).1 inv).2 : Int) : ZMod c.p) * (prod : ZMod c.p) = 1 := by
  have hpos : 0 < c.p := hp.out.pos
  induction vs with
  | nil =>
    intro prod inv h0 hlt h
    simp only [biForward, biBackward, List.map_nil] at h ⊢
    exact ⟨trivial, h0, hlt, h⟩
  | cons v vs ih =>
    intro prod inv h0 hlt h
    have hall' : AllInvertible c vs := fun w hw => hall w (List.mem_cons_of_mem _ hw)
    rw [biForward_cons] at h ⊢
    cases hv : truthy v with
    | none =>
      simp only [hv] at h ⊢
      rw [biBackward_cons]
      simp only [hv]
      obtain ⟨i1, i2, i3, i4⟩ := ih hall' prod inv h0 hlt h
      refine ⟨?_, i2, i3, i4⟩
      rw [List.map_cons, i1]
      simp [specEntry, hv]
    | some x =>
      simp only [hv] at h ⊢
      rw [biBackward_cons]
      simp only [hv]
      have hx : (x : ZMod c.p) ≠ 0 := hall v List.mem_cons_self x hv
      obtain ⟨i1, i2, i3, i4⟩ := ih hall' (c.red (prod * x)) inv h0 hlt h
      rw [cast_red, Int.cast_mul] at i4
      obtain ⟨_, s0, slt, sv⟩ := invVal_spec c hx
      refine ⟨?_, red_nonneg c hpos _, red_lt c hpos _, ?_⟩
      · rw [List.map_cons, i1]
        congr 1
        simp only [specEntry, hv]
        congr 1
        apply eq_of_cast_eq c (red_nonneg c hpos _) (red_lt c hpos _) s0 slt
        rw [cast_red, Int.cast_mul, sv]
        apply eq_inv_of_mul_eq_one_left
        linear_combination i4
      · rw [cast_red, Int.cast_mul]
        linear_combination i4

theorem mapE_invEntry_ok (vs : List (Option Int)) (hall : AllInvertible c vs) :
    mapE (invEntry c) vs = .ok (vs.map (specEntry c)) := by
  induction vs with
  | nil => rfl
  | cons v vs ih =>
    have hall' : AllInvertible c vs := fun w hw => hall w (List.mem_cons_of_mem _ hw)
    rw [mapE, ih hall']
    cases hv : truthy v with
    | none => simp [invEntry, specEntry, hv]
    | some x =>
      have hx : (x : ZMod c.p) ≠ 0 := hall v List.mem_cons_self x hv
      simp [invEntry, specEntry, hv, (invVal_spec c hx).1]

theorem mapE_invEntry_err (vs : List (Option Int)) (hbad : ¬ AllInvertible c vs) :
    mapE (invEntry c) vs = .error .zeroDivision := by
  induction vs with
  | nil => exact absurd (fun v hv => absurd hv (List.not_mem_nil)) hbad
  | cons v vs ih =>
    rw [mapE]
    cases hv : truthy v with
    | none =>
      have : ¬ AllInvertible c vs := by
        intro h; apply hbad
        intro w hw x hx
        rcases List.mem_cons.mp hw with rfl | hw
        · rw [hv] at hx; cases hx
        · exact h w hw x hx
      simp [invEntry, hv, ih this]
    | some x =>
      rcases inv_cases c x with ⟨hx, i, hi, _⟩ | ⟨_, he⟩
      · have : ¬ AllInvertible c vs := by
          intro h; apply hbad
          intro w hw y hy
          rcases List.mem_cons.mp hw with rfl | hw
          · rw [hv] at hy; cases hy; exact hx
          · exact h w hw y hy
        simp [invEntry, hv, hi, ih this]
      · simp [invEntry, hv, he]

theorem fprod_eq_zero_iff (vs : List (Option Int)) : fprod c vs = 0 ↔ ¬ AllInvertible c vs := by
  induction vs with
  | nil => simp [fprod, AllInvertible]
  | cons v vs ih =>
    rw [fprod]
    cases hv : truthy v with
    | none =>
      simp only
      rw [ih]
      constructor
      · intro h h'; exact h (fun w hw => h' w (List.mem_cons_of_mem _ hw))
      · intro h h'; apply h
        intro w hw x hx
        rcases List.mem_cons.mp hw with rfl | hw
        · rw [hv] at hx; cases hx
        · exact h' w hw x hx
    | some x =>
      simp only
      rw [mul_eq_zero, ih]
      constructor
      · rintro (h | h) h'
        · exact h' v List.mem_cons_self x hv h
        · exact h (fun w hw => h' w (List.mem_cons_of_mem _ hw))
      · intro h
        by_cases hx : (x : ZMod c.p) = 0
        · exact Or.inl hx
        · right
          intro h'; apply h
          intro w hw y hy
          rcases List.mem_cons.mp hw with rfl | hw
          · rw [hv] at hy; cases hy; exact hx
          · exact h' w hw y hy

/-- **BatchInverse**: entry `i` is `gmpy.invert(values[i], mod)` for every entry that is not
`None`/`0`, `None` otherwise; the call raises ZeroDivisionError exactly when some such entry is
`≡ 0 (mod p)`; the final self-check (`ArithmeticError`) is unreachable. -/
theorem batchInverse_spec (vs : List (Option Int)) :
    batchInverse c vs = mapE (invEntry c) vs := by
  have hpos : 0 < c.p := hp.out.pos
  unfold batchInverse
  have hprod := biForward_prod c vs 1
  rw [Int.cast_one, one_mul] at hprod
  by_cases hall : AllInvertible c vs
  · rw [mapE_invEntry_ok c vs hall]
    have hne : (((biForward c vs 1).2 : Int) : ZMod c.p) ≠ 0 := by
      rw [hprod]; intro h; exact (fprod_eq_zero_iff c vs).mp h hall
    obtain ⟨hinv, s0, slt, sv⟩ := invVal_spec c hne
    obtain ⟨i1, i2, i3, i4⟩ := bi_core c vs hall 1 _ s0 slt (by rw [sv]; exact inv_mul_cancel₀ hne)
    simp only [hinv]
    have h1 : (biBackward c vs (biForward c vs 1).1 (invVal c (biForward c vs 1).2)).2 = 1 := by
      apply eq_of_cast_eq c i2 i3 (by norm_num) (by have := hp.out.two_le; omega)
      rw [Int.cast_one, mul_one] at i4
      rw [i4, Int.cast_one]
    rw [if_neg (not_not.mpr h1), i1]
  · rw [mapE_invEntry_err c vs hall]
    have h0 : (((biForward c vs 1).2 : Int) : ZMod c.p) = 0 := by
      rw [hprod]; exact (fprod_eq_zero_iff c vs).mpr hall
    rcases inv_cases c (biForward c vs 1).2 with ⟨hne, _⟩ | ⟨_, he⟩
    · exact absurd h0 hne
    · simp only [he]

end Paranoid.Ec
