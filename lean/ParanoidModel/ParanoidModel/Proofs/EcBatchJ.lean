/-
Proofs/EcBatchJ.lean — BatchJacobianToAffine / BatchJacobianToX equal the map of JacobianToAffine.
-/
import ParanoidModel.Proofs.EcBatch
import ParanoidModel.Proofs.EcMul
namespace Paranoid.Ec
open Paranoid WeierstrassCurve
variable (c : Curve)

/-- `JacobianToAffine(p)[0]`. -/
def jToX (P : JPt) : Except PyErr (Option Int) :=
  match jToAffine c P with
  | .error e => .error e
  | .ok r => .ok r.x?

/-- batch inversion followed by an entry-wise total post-processing `h` is the map of
`k a = h a (invert (g a))`. -/
theorem zipWith_mapE {α β} (g : α → Option Int) (h : α → Option Int → β) (k : α → Except PyErr β)
    (ps : List α)
    (hk : ∀ a ∈ ps, k a = match invEntry c (g a) with
      | .error e => .error e
      | .ok w => .ok (h a w)) :
    (match mapE (invEntry c) (ps.map g) with
      | .error e => .error e
      | .ok ws => .ok (List.zipWith h ps ws)) = mapE k ps := by
  induction ps with
  | nil => rfl
  | cons a as ih =>
    have ih' := ih (fun b hb => hk b (List.mem_cons_of_mem _ hb))
    rw [List.map_cons, mapE, mapE, hk a List.mem_cons_self, ← ih']
    cases invEntry c (g a) with
    | error e => rfl
    | ok w =>
      simp only
      cases mapE (invEntry c) (as.map g) with
      | error e => rfl
      | ok ws => rfl

variable [hp : Fact (Nat.Prime c.p)]

omit hp in
theorem jToAffine_eq_invEntry (P : JPt) (h000 : ¬(P.x = 0 ∧ P.y = 0 ∧ P.z = 0)) :
    jToAffine c P = match invEntry c (some P.z) with
      | .error e => .error e
      | .ok w => .ok (match w with
        | none => Pt.inf
        | some w => jScale c P.x P.y w) := by
  unfold jToAffine invEntry truthy
  by_cases hz : P.z = 0
  · have : ¬(P.x = 0 ∧ P.y = 0) := fun h => h000 ⟨h.1, h.2, hz⟩
    simp [hz, this]
  · simp only [hz, ↓reduceIte]
    cases c.inv P.z <;> rfl

/-- **BatchJacobianToAffine** is `[JacobianToAffine(p) for p in p_list]` for every list that does
not contain the invalid triple `(0, 0, 0)` (for which the scalar function raises ValueError while the
batched one returns INFINITY). -/
theorem batchJToAffine_eq_map (ps : List JPt) (h000 : ∀ P ∈ ps, ¬(P.x = 0 ∧ P.y = 0 ∧ P.z = 0)) :
    batchJToAffine c ps = mapE (jToAffine c) ps := by
  unfold batchJToAffine
  rw [batchInverse_spec]
  exact zipWith_mapE c _ _ _ ps (fun P hP => jToAffine_eq_invEntry c P (h000 P hP))

omit hp in
theorem jToX_eq_invEntry (P : JPt) (h000 : ¬(P.x = 0 ∧ P.y = 0 ∧ P.z = 0)) :
    jToX c P = match invEntry c (some P.z) with
      | .error e => .error e
      | .ok w => .ok (match w with
        | none => none
        | some w => some (c.red (P.x * c.red (w * w)))) := by
  rw [jToX, jToAffine_eq_invEntry c P h000]
  cases invEntry c (some P.z) with
  | error e => rfl
  | ok w => cases w <;> rfl

/-- **BatchJacobianToX** is `[JacobianToAffine(p)[0] for p in p_list]` (same proviso). -/
theorem batchJToX_eq_map (ps : List JPt) (h000 : ∀ P ∈ ps, ¬(P.x = 0 ∧ P.y = 0 ∧ P.z = 0)) :
    batchJToX c ps = mapE (jToX c) ps := by
  unfold batchJToX
  rw [batchInverse_spec]
  exact zipWith_mapE c _ _ _ ps (fun P hP => jToX_eq_invEntry c P (h000 P hP))

end Paranoid.Ec
