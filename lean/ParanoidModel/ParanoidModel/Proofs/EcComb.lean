/-
Proofs/EcComb.lean — BatchMultiplyG computes `(s mod n) • G` for every cache content satisfying the
cache invariant (comb method, Horner evaluation over BatchDouble / BatchAddList).
-/
import ParanoidModel.Proofs.EcCombArith
import ParanoidModel.Proofs.EcBatchJ
namespace Paranoid.Ec
open Paranoid WeierstrassCurve
variable (c : Curve) [hp : Fact (Nat.Prime c.p)]

/-- `P` is on the curve and denotes `k • G`. -/
def RepG (P : Pt) (k : Nat) : Prop := onCurve c P = true ∧ toPoint c P = k • toPoint c c.g

/-- cache invariant of BatchMultiplyG: `self._cache[k] = k • G`. -/
def CacheOK (cache : Cache) : Prop := ∀ e ∈ cache, RepG c e.2 e.1

omit hp in
theorem cache_get?_mem : ∀ (cache : Cache) (k : Nat) (P : Pt), cache.get? k = some P → (k, P) ∈ cache
  | [], _, _, h => by simp [Cache.get?] at h
  | (k', P') :: rest, k, P, h => by
    unfold Cache.get? at h
    split at h
    · rename_i hk
      cases h; subst hk; exact List.mem_cons_self
    · exact List.mem_cons_of_mem _ (cache_get?_mem rest k P h)

theorem repG_add (hc : c.Good) {P Q : Pt} {a b : Nat} (hP : RepG c P a) (hQ : RepG c Q b) :
    ∃ R, add c P Q = .ok R ∧ RepG c R (a + b) := by
  obtain ⟨R, h1, h2, h3⟩ := add_refines c hc P Q hP.1 hQ.1
  exact ⟨R, h1, h2, by rw [h3, hP.2, hQ.2, add_nsmul]⟩

theorem repG_double (hc : c.Good) {P : Pt} {a : Nat} (hP : RepG c P a) :
    ∃ R, double c P = .ok R ∧ RepG c R (2 * a) := by
  obtain ⟨R, h1, h2, h3⟩ := double_refines c hc P hP.1
  exact ⟨R, h1, h2, by rw [h3, hP.2, ← two_nsmul, ← mul_nsmul']⟩

theorem batchDouble_repG (hc : c.Good) {f : Nat → Nat} {ps : List Pt} {ss : List Nat}
    (h : List.Forall₂ (fun P x => RepG c P (f x)) ps ss) :
    ∃ rs, batchDouble c ps = .ok rs ∧ List.Forall₂ (fun P x => RepG c P (2 * f x)) rs ss := by
  rw [batchDouble_eq_map]
  induction h with
  | nil => exact ⟨[], rfl, .nil⟩
  | cons hP _ ih =>
    obtain ⟨R, hR1, hR2⟩ := repG_double c hc hP
    obtain ⟨rs, hrs1, hrs2⟩ := ih
    exact ⟨R :: rs, by simp [mapE, hR1, hrs1], .cons hR2 hrs2⟩

theorem batchAddList_repG (hc : c.Good) {f g : Nat → Nat} {ps qs : List Pt} {ss : List Nat}
    (h1 : List.Forall₂ (fun P x => RepG c P (f x)) ps ss)
    (h2 : List.Forall₂ (fun P x => RepG c P (g x)) qs ss) :
    ∃ rs, batchAddList c ps qs = .ok rs ∧ List.Forall₂ (fun P x => RepG c P (f x + g x)) rs ss := by
  rw [batchAddList_eq_map, if_neg (by rw [h1.length_eq, h2.length_eq]; simp)]
  induction h1 generalizing qs with
  | nil => cases h2; exact ⟨[], rfl, .nil⟩
  | cons hP _ ih =>
    cases h2 with
    | cons hQ hqs =>
      obtain ⟨R, hR1, hR2⟩ := repG_add c hc hP hQ
      obtain ⟨rs, hrs1, hrs2⟩ := ih hqs
      exact ⟨R :: rs, by simp [mapE, hR1, hrs1], .cons hR2 hrs2⟩

theorem bmgPoints_spec (hc : c.Good) (hG : onCurve c c.g = true) (i mask : Nat) :
    ∀ (ss : List Nat) (cache : Cache), CacheOK c cache →
    ∃ ps cache', bmgPoints c i mask ss cache = .ok (ps, cache') ∧ CacheOK c cache' ∧
      cache <:+ cache' ∧ List.Forall₂ (fun P x => RepG c P (combWindow mask x i)) ps ss
  | [], cache, hcache => ⟨[], cache, rfl, hcache, List.suffix_refl _, .nil⟩
  | s :: ss, cache, hcache => by
    unfold bmgPoints
    cases hget : cache.get? ((s >>> i) &&& mask) with
    | some P =>
      obtain ⟨ps, cache', h1, h2, h3, h4⟩ := bmgPoints_spec hc hG i mask ss cache hcache
      simp only [h1]
      exact ⟨P :: ps, cache', rfl, h2, h3, .cons (hcache _ (cache_get?_mem _ _ _ hget)) h4⟩
    | none =>
      obtain ⟨P, hP1, hP2, hP3⟩ := multiply_zsmul c hc c.g (((s >>> i) &&& mask : Nat) : Int) hG
      rw [natCast_zsmul] at hP3
      have hrep : RepG c P ((s >>> i) &&& mask) := ⟨hP2, hP3⟩
      have hcache1 : CacheOK c ((((s >>> i) &&& mask), P) :: cache) := by
        intro e he
        rcases List.mem_cons.mp he with rfl | he
        · exact hrep
        · exact hcache e he
      obtain ⟨ps, cache', h1, h2, h3, h4⟩ := bmgPoints_spec hc hG i mask ss _ hcache1
      simp only [hP1, h1]
      exact ⟨P :: ps, cache', rfl, h2, (List.suffix_cons _ _).trans h3, .cons hrep h4⟩

theorem bmgLoop_spec (hc : c.Good) (hG : onCurve c c.g = true) (mask : Nat) (ss : List Nat) :
    ∀ (i : Nat) (f : Nat → Nat) (res : List Pt) (cache : Cache), CacheOK c cache →
    List.Forall₂ (fun P x => RepG c P (f x)) res ss →
    ∃ rs cache', bmgLoop c mask ss i res cache = .ok (rs, cache') ∧ CacheOK c cache' ∧
      cache <:+ cache' ∧ List.Forall₂ (fun P x => RepG c P (hloop mask x i (f x))) rs ss
  | 0, f, res, cache, hcache, hres => ⟨res, cache, rfl, hcache, List.suffix_refl _, hres⟩
  | i + 1, f, res, cache, hcache, hres => by
    unfold bmgLoop
    obtain ⟨pts, cache1, h1, h2, h3, h4⟩ := bmgPoints_spec c hc hG i mask ss cache hcache
    obtain ⟨r1, hr1, hr1'⟩ := batchDouble_repG c hc hres
    obtain ⟨r2, hr2, hr2'⟩ := batchAddList_repG c hc hr1' h4
    obtain ⟨rs, cache', h5, h6, h7, h8⟩ :=
      bmgLoop_spec hc hG mask ss i (fun x => 2 * f x + combWindow mask x i) r2 cache1 h2 hr2'
    simp only [h1, hr1, hr2, h5]
    exact ⟨rs, cache', rfl, h6, h3.trans h7, h8⟩

/-- **BatchMultiplyG**: for every cache content satisfying the cache invariant and every list of
Python ints, the call succeeds, entry `j` is `(scalars[j] mod n) • G`, the new cache extends the
old one and satisfies the invariant again. -/
theorem batchMultiplyG_spec (hc : c.Good) (hG : onCurve c c.g = true) (hn : 0 < c.n)
    (cache : Cache) (hcache : CacheOK c cache) (scalars : List Int) :
    ∃ rs cache', batchMultiplyG c cache scalars = .ok (rs, cache') ∧ CacheOK c cache' ∧
      cache <:+ cache' ∧
      List.Forall₂ (fun P (s : Int) => RepG c P (s % (c.n : Int)).toNat) rs scalars := by
  unfold batchMultiplyG
  have hL : 0 < bitLength c.n := by
    unfold bitLength; rw [if_neg (by omega)]; omega
  cases hst : combSteps c with
  | zero => unfold combSteps at hst; omega
  | succ st =>
    simp only
    obtain ⟨pts, cache1, h1, h2, h3, h4⟩ := bmgPoints_spec c hc hG st (combMask c)
      (scalars.map fun x => (x % (c.n : Int)).toNat) cache hcache
    obtain ⟨rs, cache', h5, h6, h7, h8⟩ := bmgLoop_spec c hc hG (combMask c)
      (scalars.map fun x => (x % (c.n : Int)).toNat) st _ pts cache1 h2 h4
    simp only [h1, h5]
    refine ⟨rs, cache', rfl, h6, h3.trans h7, ?_⟩
    rw [List.forall₂_map_right_iff] at h8
    refine h8.imp ?_
    intro P s hP
    have hlt : (s % (c.n : Int)).toNat < c.n := by
      have := Int.emod_lt_of_pos s (show (0 : Int) < c.n by omega)
      have := Int.emod_nonneg s (show (c.n : Int) ≠ 0 by omega)
      omega
    rwa [comb_scalar c hn _ hlt st hst] at hP

/-- with `n • G = 0` the result is `scalars[j] • G` for every integer scalar. -/
theorem batchMultiplyG_zsmul (hc : c.Good) (hG : onCurve c c.g = true) (hn : 0 < c.n)
    (hord : c.n • toPoint c c.g = 0)
    (cache : Cache) (hcache : CacheOK c cache) (scalars : List Int) :
    ∃ rs cache', batchMultiplyG c cache scalars = .ok (rs, cache') ∧ CacheOK c cache' ∧
      List.Forall₂ (fun P (s : Int) => onCurve c P = true ∧ toPoint c P = s • toPoint c c.g)
        rs scalars := by
  obtain ⟨rs, cache', h1, h2, _, h4⟩ := batchMultiplyG_spec c hc hG hn cache hcache scalars
  refine ⟨rs, cache', h1, h2, h4.imp ?_⟩
  intro P s hP
  refine ⟨hP.1, ?_⟩
  rw [hP.2, ← natCast_zsmul, Int.toNat_of_nonneg (Int.emod_nonneg s (by omega))]
  have hz : (c.n : Int) • toPoint c c.g = 0 := by rw [natCast_zsmul]; exact hord
  conv_rhs => rw [← Int.emod_add_mul_ediv s c.n, add_zsmul, mul_zsmul', hz, zsmul_zero, add_zero]

end Paranoid.Ec
