/-
Proofs/EcCombArith.lean — the comb identity behind BatchMultiplyG (pure arithmetic, no curve).
-/
import ParanoidModel.Model.Ec
import ParanoidModel.Proofs.Basic
import Mathlib.Tactic.Ring
import Mathlib.Tactic.Linarith
namespace Paranoid.Ec
open Paranoid

/-! ### the comb identity of BatchMultiplyG (pure arithmetic) -/

/-- `Σ_{i<k} 2^i · f i`. -/
def sumTo (f : Nat → Nat) : Nat → Nat
  | 0 => 0
  | k + 1 => sumTo f k + 2 ^ k * f k

theorem sumTo_add_mul (f g h : Nat → Nat) (B : Nat) : ∀ k, (∀ i, i < k → f i = g i + B * h i) →
    sumTo f k = sumTo g k + B * sumTo h k
  | 0, _ => by simp [sumTo]
  | k + 1, hf => by
    rw [sumTo, sumTo, sumTo, sumTo_add_mul f g h B k (fun i hi => hf i (by omega)), hf k (by omega)]
    ring

theorem sumTo_bits (x : Nat) : ∀ k, sumTo (fun i => (x >>> i) % 2) k = x % 2 ^ k
  | 0 => by simp [sumTo, Nat.mod_one]
  | k + 1 => by
    rw [sumTo, sumTo_bits x k, Nat.shiftRight_eq_div_pow, Nat.mod_pow_succ]

theorem combMaskAux_shift (s : Nat) : ∀ cnt j, combMaskAux s cnt j = 2 ^ j * combMaskAux s cnt 0
  | 0, j => by simp [combMaskAux]
  | cnt + 1, j => by
    rw [combMaskAux, combMaskAux, combMaskAux_shift s cnt (j + s), combMaskAux_shift s cnt (0 + s)]
    simp only [Nat.shiftLeft_eq, one_mul, pow_zero, zero_add]
    rw [pow_add]; ring

theorem combMaskAux_succ (s cnt : Nat) :
    combMaskAux s (cnt + 1) 0 = 1 + 2 ^ s * combMaskAux s cnt 0 := by
  rw [combMaskAux, combMaskAux_shift s cnt (0 + s)]
  simp [Nat.shiftLeft_eq]

theorem and_mask_succ (s cnt y : Nat) (hs : 0 < s) :
    y &&& combMaskAux s (cnt + 1) 0 = y % 2 + 2 ^ s * ((y / 2 ^ s) &&& combMaskAux s cnt 0) := by
  rw [combMaskAux_succ]
  generalize combMaskAux s cnt 0 = m
  have hB : 2 ≤ 2 ^ s := by
    calc 2 = 2 ^ 1 := rfl
      _ ≤ 2 ^ s := Nat.pow_le_pow_right (by norm_num) hs
  have h1 : (y &&& (1 + 2 ^ s * m)) % 2 ^ s = y % 2 := by
    rw [Nat.and_mod_two_pow]
    have : (1 + 2 ^ s * m) % 2 ^ s = 1 := by
      rw [Nat.add_mul_mod_self_left]; exact Nat.mod_eq_of_lt (by omega)
    rw [this, Nat.and_one_is_mod]
    exact Nat.mod_mod_of_dvd y (dvd_pow_self 2 (by omega))
  have h2 : (y &&& (1 + 2 ^ s * m)) / 2 ^ s = (y / 2 ^ s) &&& m := by
    rw [Nat.and_div_two_pow]
    congr 1
    rw [Nat.add_mul_div_left _ _ (by omega), Nat.div_eq_of_lt (by omega), zero_add]
  rw [← Nat.mod_add_div (y &&& (1 + 2 ^ s * m)) (2 ^ s), h1, h2]

/-- the window `(x >> i) & mask` of BatchMultiplyG. -/
def combWindow (mask x i : Nat) : Nat := (x >>> i) &&& mask

/-- **comb identity**: `Σ_{i<steps} 2^i · ((x >> i) & mask_cnt) = x mod 2^(steps·cnt)`. -/
theorem comb_identity (s : Nat) (hs : 0 < s) : ∀ (cnt x : Nat),
    sumTo (combWindow (combMaskAux s cnt 0) x) s = x % (2 ^ s) ^ cnt
  | 0, x => by
    have h0 : combMaskAux s 0 0 = 0 := rfl
    have : ∀ k, sumTo (combWindow 0 x) k = 0 := by
      intro k
      induction k with
      | zero => rfl
      | succ k ih => simp [sumTo, ih, combWindow]
    rw [h0, this, pow_zero, Nat.mod_one]
  | cnt + 1, x => by
    rw [sumTo_add_mul _ (fun i => (x >>> i) % 2) (combWindow (combMaskAux s cnt 0) (x / 2 ^ s)) (2 ^ s)]
    · rw [sumTo_bits, comb_identity s hs cnt (x / 2 ^ s), pow_succ', Nat.mod_mul]
    · intro i _
      simp only [combWindow]
      rw [and_mask_succ s cnt _ hs]
      congr 3
      simp only [Nat.shiftRight_eq_div_pow, Nat.div_div_eq_div_mul, mul_comm]

/-- Horner evaluation performed by the rounds `i-1, …, 0` of BatchMultiplyG on the scalar `a`. -/
def hloop (mask x : Nat) : Nat → Nat → Nat
  | 0, a => a
  | i + 1, a => hloop mask x i (2 * a + combWindow mask x i)

theorem hloop_eq (mask x : Nat) : ∀ i a, hloop mask x i a = 2 ^ i * a + sumTo (combWindow mask x) i
  | 0, a => by simp [hloop, sumTo]
  | i + 1, a => by
    rw [hloop, hloop_eq mask x i, sumTo]; ring

theorem comb_cover (c : Curve) (hn : 0 < c.n) (x : Nat) (hx : x < c.n) :
    x < (2 ^ combSteps c) ^ ((bitLength c.n + combSteps c - 1) / combSteps c) := by
  have hL : 0 < bitLength c.n := by
    unfold bitLength; rw [if_neg (by omega)]; omega
  have hs : 0 < combSteps c := by unfold combSteps; omega
  have h1 : x < 2 ^ bitLength c.n := lt_trans hx (lt_two_pow_bitLength c.n)
  rw [← pow_mul]
  refine lt_of_lt_of_le h1 (Nat.pow_le_pow_right (by norm_num) ?_)
  generalize combSteps c = s at hs ⊢
  generalize bitLength c.n = L
  have h3 := Nat.div_add_mod (L + s - 1) s
  have h4 := Nat.mod_lt (L + s - 1) hs
  generalize s * ((L + s - 1) / s) = t at h3 ⊢
  omega

/-- the scalar computed by the comb for a reduced scalar is the scalar itself. -/
theorem comb_scalar (c : Curve) (hn : 0 < c.n) (x : Nat) (hx : x < c.n) (st : Nat)
    (hst : combSteps c = st + 1) :
    hloop (combMask c) x st (combWindow (combMask c) x st) = x := by
  rw [hloop_eq]
  have : 2 ^ st * combWindow (combMask c) x st + sumTo (combWindow (combMask c) x) st =
      sumTo (combWindow (combMask c) x) (st + 1) := by rw [sumTo]; ring
  rw [this, ← hst]
  unfold combMask
  rw [comb_identity _ (by omega)]
  exact Nat.mod_eq_of_lt (comb_cover c hn x hx)

end Paranoid.Ec
