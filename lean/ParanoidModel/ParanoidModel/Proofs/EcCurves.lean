/-
Proofs/EcCurves.lean — kernel-evaluated facts about the curve parameters regenerated from
`ec_util.CURVE_FACTORY` (Generated/Consts.lean). Rebuilt only when the constants or Model/Ec change.
No Mathlib: everything is `decide +kernel` on the executable model.
-/
import ParanoidModel.Model.Ec
import ParanoidModel.Generated.Consts
namespace Paranoid.Ec
open Paranoid

/-- `(a, b, mod, gx, gy, n, h)` as emitted by harness/consts/curves.py. -/
def Curve.ofTuple (t : Int × Int × Nat × Int × Int × Nat × Nat) : Curve :=
  ⟨t.1, t.2.1, t.2.2.1, t.2.2.2.1, t.2.2.2.2.1, t.2.2.2.2.2.1, t.2.2.2.2.2.2⟩

def secp256r1 : Curve := .ofTuple Consts.ecCurve_secp256r1
def secp384r1 : Curve := .ofTuple Consts.ecCurve_secp384r1
def secp192r1 : Curve := .ofTuple Consts.ecCurve_secp192r1
def secp224r1 : Curve := .ofTuple Consts.ecCurve_secp224r1
def secp521r1 : Curve := .ofTuple Consts.ecCurve_secp521r1
def secp256k1 : Curve := .ofTuple Consts.ecCurve_secp256k1
def brainpoolP256r1 : Curve := .ofTuple Consts.ecCurve_brainpoolP256r1
def brainpoolP384r1 : Curve := .ofTuple Consts.ecCurve_brainpoolP384r1
def brainpoolP512r1 : Curve := .ofTuple Consts.ecCurve_brainpoolP512r1

theorem secp256r1_paramsOK : secp256r1.paramsOK = true := by decide +kernel
theorem secp384r1_paramsOK : secp384r1.paramsOK = true := by decide +kernel
theorem secp192r1_paramsOK : secp192r1.paramsOK = true := by decide +kernel
theorem secp224r1_paramsOK : secp224r1.paramsOK = true := by decide +kernel
theorem secp521r1_paramsOK : secp521r1.paramsOK = true := by decide +kernel
theorem secp256k1_paramsOK : secp256k1.paramsOK = true := by decide +kernel
theorem brainpoolP256r1_paramsOK : brainpoolP256r1.paramsOK = true := by decide +kernel
theorem brainpoolP384r1_paramsOK : brainpoolP384r1.paramsOK = true := by decide +kernel
theorem brainpoolP512r1_paramsOK : brainpoolP512r1.paramsOK = true := by decide +kernel

/-- the regenerated factory contains exactly these nine prime-field curves … -/
theorem curveNames_eq : Consts.ecCurveNames =
    ["secp256r1", "secp384r1", "secp192r1", "secp224r1", "secp521r1", "secp256k1",
     "brainpoolP256r1", "brainpoolP384r1", "brainpoolP512r1"] := by decide +kernel

/-- … every other `CurveType` that the factory knows (the ten binary-field curves) maps to `None`,
and the only enum value without an entry is `CURVE_UNKNOWN`. -/
theorem curveNone_eq : Consts.ecCurveNone.map Prod.fst = [7, 8, 9, 10, 11, 12, 13, 14, 15, 16]
    ∧ Consts.ecCurveUnmapped = [(0, "CURVE_UNKNOWN")]
    ∧ Consts.ecCurveTable.map Prod.snd = Consts.ecCurveNames := by decide +kernel

/-! ### defect D3: the pinned `Add` / `Double` / `BatchDouble` are not the group law on inputs whose
coordinates are only congruent mod `p` (fixes/D3-ec-add-double.diff; the model `add`, `double`,
`batchDouble` is the patched code) -/

/-- `G + (G.x + p, G.y)`: the pinned `Add` raises ZeroDivisionError, the patched one returns `2G`. -/
theorem add_pinned_fails_x :
    addPinned secp256r1 secp256r1.g (.aff (secp256r1.gx + secp256r1.p) secp256r1.gy)
      = .error .zeroDivision ∧
    add secp256r1 secp256r1.g (.aff (secp256r1.gx + secp256r1.p) secp256r1.gy)
      = double secp256r1 secp256r1.g := by decide +kernel

/-- `G + (G.x, G.y + p)`: the pinned `Add` silently returns INFINITY instead of `2G`. -/
theorem add_pinned_fails_y :
    addPinned secp256r1 secp256r1.g (.aff secp256r1.gx (secp256r1.gy + secp256r1.p)) = .ok .inf ∧
    add secp256r1 secp256r1.g (.aff secp256r1.gx (secp256r1.gy + secp256r1.p))
      = double secp256r1 secp256r1.g ∧
    double secp256r1 secp256r1.g ≠ .ok .inf := by decide +kernel

/-- `Double((5, 0))` (`y ≡ 0`): the pinned `Double` raises ZeroDivisionError, the patched one
returns INFINITY as DoubleJacobian does. -/
theorem double_pinned_fails :
    doublePinned secp256r1 (.aff 5 0) = .error .zeroDivision ∧
    double secp256r1 (.aff 5 0) = .ok .inf ∧
    doubleJ secp256r1 ⟨5, 0, 1⟩ = infJ := by decide +kernel

/-- `BatchDouble([(x, p)])` (`y ≡ 0`, `y ≠ 0`): the pinned BatchDouble raises ZeroDivisionError. -/
theorem batchDouble_pinned_fails :
    batchDoublePinned secp256r1 [.aff 5 secp256r1.p] = .error .zeroDivision ∧
    batchDouble secp256r1 [.aff 5 secp256r1.p] = .ok [.inf] := by decide +kernel

end Paranoid.Ec
