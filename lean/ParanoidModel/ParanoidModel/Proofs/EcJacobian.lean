/-
Proofs/EcJacobian.lean — DoubleJacobian / AddJacobian / JacobianToAffine / AffineToJacobian refine the
group law: `JRep c P A` ("the triple P represents the group element A") is preserved.
-/
import ParanoidModel.Proofs.Ec
namespace Paranoid.Ec
open Paranoid WeierstrassCurve
variable (c : Curve) [hp : Fact (Nat.Prime c.p)]

/-- `JRep c P A`: the Jacobian triple `P` (unreduced Python ints) represents the group element `A`:
either `z == 0` as an integer (and not all coordinates are zero) and `A = 0`, or `z ≢ 0 (mod p)`
and `A` is the nonsingular affine point `(x/z², y/z³)`. -/
def JRep (P : JPt) (A : (W c).Point) : Prop :=
  (P.z = 0 ∧ ¬(P.x = 0 ∧ P.y = 0) ∧ A = 0) ∨
  ((P.z : ZMod c.p) ≠ 0 ∧
    ∃ h : (W c).Nonsingular ((P.x : ZMod c.p) / (P.z : ZMod c.p) ^ 2)
      ((P.y : ZMod c.p) / (P.z : ZMod c.p) ^ 3), A = Affine.Point.some _ _ h)

theorem JRep.z_ne {P : JPt} {A : (W c).Point} (h : JRep c P A) (hz : P.z ≠ 0) :
    (P.z : ZMod c.p) ≠ 0 := by
  rcases h with ⟨h0, _⟩ | ⟨h1, _⟩
  · exact absurd h0 hz
  · exact h1

theorem jrep_infJ : JRep c infJ 0 := Or.inl ⟨rfl, by simp [infJ], rfl⟩

theorem jrep_affineToJ (hc : c.Good) (P : Pt) (hP : onCurve c P = true) :
    JRep c (affineToJ P) (toPoint c P) := by
  cases P with
  | inf => exact jrep_infJ c
  | aff x y =>
    have h := nonsingular_of_onCurve c hc hP
    right
    simp only [affineToJ, Int.cast_one, one_pow, div_one]
    exact ⟨one_ne_zero, h, toPoint_aff c h⟩

theorem doubleJM_cast (x zsqr : Int) : ((doubleJM c x zsqr : Int) : ZMod c.p) =
    3 * (x : ZMod c.p) ^ 2 + (c.a : ZMod c.p) * (zsqr : ZMod c.p) ^ 2 := by
  unfold doubleJM
  split
  · rename_i ha
    rw [cast_red, ha]; push_cast; ring
  · rw [cast_red]; push_cast; ring

theorem jToAffine_refines {P : JPt} {A : (W c).Point} (h : JRep c P A) :
    ∃ R, jToAffine c P = .ok R ∧ onCurve c R = true ∧ toPoint c R = A := by
  unfold jToAffine
  rcases h with ⟨hz, hxy, rfl⟩ | ⟨hz, hns, rfl⟩
  · rw [if_pos hz, if_neg hxy]
    exact ⟨.inf, rfl, rfl, rfl⟩
  · have hz' : P.z ≠ 0 := by
      intro h0; rw [h0] at hz; exact hz (by simp)
    rw [if_neg hz']
    rcases inv_cases c P.z with ⟨_, w, hw, _, _, hwv⟩ | ⟨h0, _⟩
    swap
    · exact absurd h0 hz
    rw [hw]
    have := aff_spec c (x := c.red (P.x * c.red (w * w))) (y := c.red (P.y * c.red (c.red (w * w) * w)))
      (X := (P.x : ZMod c.p) / (P.z : ZMod c.p) ^ 2) (Y := (P.y : ZMod c.p) / (P.z : ZMod c.p) ^ 3)
      (by simp only [cast_red, Int.cast_mul, hwv]; field_simp)
      (by simp only [cast_red, Int.cast_mul, hwv]; field_simp) hns
    exact ⟨_, rfl, this.1, this.2⟩


theorem jrep_of_eq {P : JPt} {X Y : ZMod c.p} (hz : (P.z : ZMod c.p) ≠ 0)
    (hx : (P.x : ZMod c.p) / (P.z : ZMod c.p) ^ 2 = X)
    (hy : (P.y : ZMod c.p) / (P.z : ZMod c.p) ^ 3 = Y) (h : (W c).Nonsingular X Y) :
    JRep c P (Affine.Point.some X Y h) := by
  subst hx; subst hy
  exact Or.inr ⟨hz, h, rfl⟩

omit hp in
theorem doubleJ_eq (P : JPt) (h : ¬(P.z = 0 ∨ P.y = 0)) : doubleJ c P =
    doubleJOut c P.y P.z (c.red (P.y * P.y)) (c.red (4 * P.x * c.red (P.y * P.y)))
      (doubleJM c P.x (c.red (P.z * P.z))) := by
  unfold doubleJ; rw [if_neg h]

/-- the tangent-line identities behind DoubleJacobian, in the field. -/
theorem doubleJ_field (x y z a : ZMod c.p) (h2 : (2 : ZMod c.p) ≠ 0) (hy : y ≠ 0) (hz : z ≠ 0) :
    let m := 3 * x ^ 2 + a * (z * z) ^ 2
    let s := 4 * x * (y * y)
    let l := (3 * (x / z ^ 2) ^ 2 + a) / (2 * (y / z ^ 3))
    (m * m - 2 * s) / (2 * y * z) ^ 2 = l ^ 2 - x / z ^ 2 - x / z ^ 2 ∧
    (m * (s - (m * m - 2 * s)) - 8 * (y * y) * (y * y)) / (2 * y * z) ^ 3 =
      -(l * (l ^ 2 - x / z ^ 2 - x / z ^ 2 - x / z ^ 2) + y / z ^ 3) := by
  intro m s l
  simp only [m, s, l]
  constructor
  · field_simp; ring
  · field_simp; ring

theorem doubleJ_refines (hc : c.Good) {P : JPt} {A : (W c).Point} (h : JRep c P A) :
    JRep c (doubleJ c P) (A + A) := by
  have h2 := two_ne_zero' c hc
  rcases h with ⟨hz, _, rfl⟩ | ⟨hz, hns, rfl⟩
  · unfold doubleJ; rw [if_pos (Or.inl hz), add_zero]; exact jrep_infJ c
  · have hz' : P.z ≠ 0 := by
      intro h0; rw [h0] at hz; exact hz (by simp)
    by_cases hy0 : P.y = 0
    · unfold doubleJ; rw [if_pos (Or.inr hy0)]
      rw [Affine.Point.add_self_of_Y_eq (by simp [hy0, Affine.negY])]
      exact jrep_infJ c
    · rw [doubleJ_eq c P (by tauto)]
      by_cases hyF : (P.y : ZMod c.p) = 0
      · -- y ≡ 0 (mod p) but y ≠ 0: the formulas give z2 = 0 and x2 = m² ≠ 0
        rw [Affine.Point.add_self_of_Y_eq (by simp [hyF, Affine.negY])]
        left
        refine ⟨?_, ?_, rfl⟩
        · simp only [doubleJOut]
          rw [red_eq_zero_iff]; push_cast; rw [hyF]; ring
        · intro hxy
          have hx2 := hxy.1
          simp only [doubleJOut] at hx2
          rw [red_eq_zero_iff] at hx2
          simp only [Int.cast_sub, Int.cast_mul, doubleJM_cast, cast_red, hyF, Int.cast_ofNat] at hx2
          have hm : 3 * (P.x : ZMod c.p) ^ 2 + (c.a : ZMod c.p) * ((P.z : ZMod c.p) * P.z) ^ 2 = 0 := by
            have : (3 * (P.x : ZMod c.p) ^ 2 + (c.a : ZMod c.p) * ((P.z : ZMod c.p) * P.z) ^ 2) ^ 2 = 0 := by
              linear_combination hx2
            exact pow_eq_zero_iff (two_ne_zero) |>.mp this
          have hsing := hns.2
          rw [Affine.evalEval_polynomialX, Affine.evalEval_polynomialY] at hsing
          simp only [W_a₁, W_a₂, W_a₃, W_a₄, hyF, zero_div, mul_zero, zero_mul, add_zero,
            zero_sub, ne_eq, not_true_eq_false, or_false, neg_eq_zero] at hsing
          apply hsing
          field_simp
          linear_combination hm
      · -- generic tangent
        have hne : (P.y : ZMod c.p) / (P.z : ZMod c.p) ^ 3 ≠
            (W c).negY ((P.x : ZMod c.p) / (P.z : ZMod c.p) ^ 2) ((P.y : ZMod c.p) / (P.z : ZMod c.p) ^ 3) := by
          simp only [Affine.negY, W_a₁, W_a₃, zero_mul, sub_zero]
          intro he
          have : (2 : ZMod c.p) * ((P.y : ZMod c.p) / (P.z : ZMod c.p) ^ 3) = 0 := by linear_combination he
          rcases mul_eq_zero.mp this with h | h
          · exact h2 h
          · rw [div_eq_zero_iff] at h
            rcases h with h | h
            · exact hyF h
            · exact hz (pow_eq_zero_iff (by norm_num) |>.mp h)
        rw [Affine.Point.add_self_of_Y_ne hne]
        have hf := doubleJ_field c (P.x : ZMod c.p) (P.y : ZMod c.p) (P.z : ZMod c.p) (c.a : ZMod c.p) h2 hyF hz
        simp only at hf
        have hsl : (W c).slope ((P.x : ZMod c.p) / (P.z : ZMod c.p) ^ 2) ((P.x : ZMod c.p) / (P.z : ZMod c.p) ^ 2)
            ((P.y : ZMod c.p) / (P.z : ZMod c.p) ^ 3) ((P.y : ZMod c.p) / (P.z : ZMod c.p) ^ 3) =
            (3 * ((P.x : ZMod c.p) / (P.z : ZMod c.p) ^ 2) ^ 2 + (c.a : ZMod c.p)) /
              (2 * ((P.y : ZMod c.p) / (P.z : ZMod c.p) ^ 3)) := by
          rw [Affine.slope_of_Y_ne rfl hne]
          simp only [Affine.negY, W_a₁, W_a₂, W_a₃, W_a₄]
          congr 1 <;> ring
        apply jrep_of_eq c
        · simp only [doubleJOut, cast_red]; push_cast
          exact mul_ne_zero (mul_ne_zero h2 hyF) hz
        · simp only [doubleJOut, cast_red, Int.cast_sub, Int.cast_mul, doubleJM_cast, Int.cast_ofNat,
            Affine.addX, W_a₁, W_a₂, hsl]
          rw [hf.1]; ring
        · simp only [doubleJOut, cast_red, Int.cast_sub, Int.cast_mul, doubleJM_cast, Int.cast_ofNat,
            Affine.addY, Affine.negAddY, Affine.negY, Affine.addX, W_a₁, W_a₂, W_a₃, hsl]
          rw [hf.2]; ring


/-- the chord identities behind AddJacobian, in the field. -/
theorem addJ_field (x1 y1 z1 x2 y2 z2 : ZMod c.p) (hz1 : z1 ≠ 0) (hz2 : z2 ≠ 0)
    (hx : x1 / z1 ^ 2 ≠ x2 / z2 ^ 2) :
    let u1 := x1 * (z2 * z2)
    let s1 := y1 * z2 * (z2 * z2)
    let h := x2 * (z1 * z1) - u1
    let r := y2 * z1 * (z1 * z1) - s1
    let l := (y1 / z1 ^ 3 - y2 / z2 ^ 3) / (x1 / z1 ^ 2 - x2 / z2 ^ 2)
    h * z1 * z2 ≠ 0 ∧
    (r * r - h * h * h - 2 * (u1 * (h * h))) / (h * z1 * z2) ^ 2 = l ^ 2 - x1 / z1 ^ 2 - x2 / z2 ^ 2 ∧
    (r * (u1 * (h * h) - (r * r - h * h * h - 2 * (u1 * (h * h)))) - s1 * (h * h * h)) / (h * z1 * z2) ^ 3 =
      -(l * (l ^ 2 - x1 / z1 ^ 2 - x2 / z2 ^ 2 - x1 / z1 ^ 2) + y1 / z1 ^ 3) := by
  intro u1 s1 h r l
  obtain ⟨D, hD⟩ : ∃ D, x2 = (D + x1 * z2 ^ 2) / z1 ^ 2 :=
    ⟨x2 * z1 ^ 2 - x1 * z2 ^ 2, by field_simp; ring⟩
  have hDh : h = D := by
    simp only [h, u1, hD]; field_simp; ring
  have hD0 : D ≠ 0 := by
    intro h0
    apply hx
    rw [hD, h0]; field_simp; ring
  have hden : x1 / z1 ^ 2 - x2 / z2 ^ 2 = -D / (z1 ^ 2 * z2 ^ 2) := by
    rw [hD]; field_simp; ring
  have hl : l = -(y1 * z2 ^ 3 - y2 * z1 ^ 3) / (D * z1 * z2) := by
    simp only [l]; rw [hden]; field_simp
  rw [hl, hDh]
  simp only [r, s1, u1]
  refine ⟨mul_ne_zero (mul_ne_zero hD0 hz1) hz2, ?_, ?_⟩
  · rw [hD]; field_simp; ring
  · rw [hD]; field_simp; ring

omit hp in
theorem addJ_eq (P Q : JPt) (h1 : P.z ≠ 0) (h2 : Q.z ≠ 0) : addJ c P Q =
    addJCore c P P.z Q.z
    (c.red (P.x * c.red (Q.z * Q.z))) (c.red (Q.x * c.red (P.z * P.z)))
    (c.red (P.y * Q.z * c.red (Q.z * Q.z))) (c.red (Q.y * P.z * c.red (P.z * P.z))) := by
  unfold addJ; rw [if_neg h1, if_neg h2]

theorem addJ_refines (hc : c.Good) {P Q : JPt} {A B : (W c).Point} (hP : JRep c P A)
    (hQ : JRep c Q B) : JRep c (addJ c P Q) (A + B) := by
  by_cases hz1 : P.z = 0
  · have : A = 0 := by
      rcases hP with ⟨_, _, h⟩ | ⟨h, _⟩
      · exact h
      · rw [hz1] at h; exact absurd (by simp) h
    unfold addJ; rw [if_pos hz1, this, zero_add]; exact hQ
  by_cases hz2 : Q.z = 0
  · have : B = 0 := by
      rcases hQ with ⟨_, _, h⟩ | ⟨h, _⟩
      · exact h
      · rw [hz2] at h; exact absurd (by simp) h
    unfold addJ; rw [if_neg hz1, if_pos hz2, this, add_zero]; exact hP
  rw [addJ_eq c P Q hz1 hz2]
  have hP' := hP
  rcases hP with ⟨h0, _⟩ | ⟨hzF1, hns1, rfl⟩
  · exact absurd h0 hz1
  rcases hQ with ⟨h0, _⟩ | ⟨hzF2, hns2, rfl⟩
  · exact absurd h0 hz2
  have hXiff : c.red (P.x * c.red (Q.z * Q.z)) = c.red (Q.x * c.red (P.z * P.z)) ↔
      (P.x : ZMod c.p) / (P.z : ZMod c.p) ^ 2 = (Q.x : ZMod c.p) / (Q.z : ZMod c.p) ^ 2 := by
    rw [red_eq_red_iff, div_eq_div_iff (pow_ne_zero 2 hzF1) (pow_ne_zero 2 hzF2)]
    simp only [Int.cast_mul, cast_red]
    constructor <;> intro h <;> linear_combination h
  have hYiff : c.red (P.y * Q.z * c.red (Q.z * Q.z)) = c.red (Q.y * P.z * c.red (P.z * P.z)) ↔
      (P.y : ZMod c.p) / (P.z : ZMod c.p) ^ 3 = (Q.y : ZMod c.p) / (Q.z : ZMod c.p) ^ 3 := by
    rw [red_eq_red_iff, div_eq_div_iff (pow_ne_zero 3 hzF1) (pow_ne_zero 3 hzF2)]
    simp only [Int.cast_mul, cast_red]
    constructor <;> intro h <;> linear_combination h
  unfold addJCore
  by_cases hu : c.red (P.x * c.red (Q.z * Q.z)) = c.red (Q.x * c.red (P.z * P.z))
  · rw [if_pos hu]
    have hX := hXiff.mp hu
    by_cases hs : c.red (P.y * Q.z * c.red (Q.z * Q.z)) = c.red (Q.y * P.z * c.red (P.z * P.z))
    · rw [if_neg (not_not.mpr hs)]
      have hY := hYiff.mp hs
      have := doubleJ_refines c hc hP'
      rwa [some_congr c hns1 hX hY hns2] at this ⊢
    · rw [if_pos hs]
      have hY : ¬ _ := fun h => hs (hYiff.mpr h)
      rw [Affine.Point.add_of_Y_eq hX ((Affine.Y_eq_of_X_eq hns1.1 hns2.1 hX).resolve_left hY)]
      exact jrep_infJ c
  · rw [if_neg hu]
    have hX : ¬ _ := fun h => hu (hXiff.mpr h)
    rw [Affine.Point.add_of_X_ne hX]
    have hf := addJ_field c (P.x : ZMod c.p) (P.y : ZMod c.p) (P.z : ZMod c.p) (Q.x : ZMod c.p)
      (Q.y : ZMod c.p) (Q.z : ZMod c.p) hzF1 hzF2 hX
    simp only at hf
    apply jrep_of_eq c
    · simp only [addJOut, cast_red, Int.cast_sub, Int.cast_mul]
      exact hf.1
    · simp only [addJOut, cast_red, Int.cast_sub, Int.cast_mul, Int.cast_ofNat,
        Affine.addX, W_a₁, W_a₂, Affine.slope_of_X_ne hX]
      rw [hf.2.1]; ring
    · simp only [addJOut, cast_red, Int.cast_sub, Int.cast_mul, Int.cast_ofNat,
        Affine.addY, Affine.negAddY, Affine.negY, Affine.addX, W_a₁, W_a₂, W_a₃, Affine.slope_of_X_ne hX]
      rw [hf.2.2]; ring

/-- a triple that JacobianToAffine converts to an on-curve point is a valid representation of it
(in particular `z == 0` or `z ≢ 0 (mod p)`). -/
theorem jrep_of_jToAffine (hc : c.Good) {P : JPt} {P' : Pt} (h : jToAffine c P = .ok P')
    (hon : onCurve c P' = true) : JRep c P (toPoint c P') := by
  unfold jToAffine at h
  by_cases hz : P.z = 0
  · rw [if_pos hz] at h
    by_cases hxy : P.x = 0 ∧ P.y = 0
    · rw [if_pos hxy] at h; cases h
    · rw [if_neg hxy] at h; cases h
      exact Or.inl ⟨hz, hxy, rfl⟩
  · rw [if_neg hz] at h
    rcases inv_cases c P.z with ⟨hzF, w, hw, _, _, hwv⟩ | ⟨_, he⟩
    · rw [hw] at h
      cases h
      have hns := nonsingular_of_onCurve c hc hon
      have hx : ((c.red (P.x * c.red (w * w)) : Int) : ZMod c.p) = (P.x : ZMod c.p) / (P.z : ZMod c.p) ^ 2 := by
        simp only [cast_red, Int.cast_mul, hwv]; field_simp
      have hy : ((c.red (P.y * c.red (c.red (w * w) * w)) : Int) : ZMod c.p) =
          (P.y : ZMod c.p) / (P.z : ZMod c.p) ^ 3 := by
        simp only [cast_red, Int.cast_mul, hwv]; field_simp
      right
      refine ⟨hzF, hx ▸ hy ▸ hns, ?_⟩
      unfold jScale
      exact toPoint_eq c hx hy _
    · rw [he] at h; cases h

end Paranoid.Ec
