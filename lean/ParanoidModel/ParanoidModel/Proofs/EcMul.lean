/-
Proofs/EcMul.lean — MultiplyAffine and Multiply compute `k • P` for every integer `k`.
-/
import ParanoidModel.Proofs.EcJacobian
namespace Paranoid.Ec
open Paranoid WeierstrassCurve
variable (c : Curve) [hp : Fact (Nat.Prime c.p)]

theorem mulAffLoop_refines (hc : c.Good) : ∀ (fuel n : Nat) (res p : Pt),
    n < 2 ^ fuel → onCurve c res = true → onCurve c p = true →
    ∃ R, mulAffLoop c fuel n res p = .ok R ∧ onCurve c R = true ∧
      toPoint c R = toPoint c res + n • toPoint c p
  | 0, n, res, p, hn, hres, _ => by
    have : n = 0 := by simpa using hn
    subst this
    exact ⟨res, rfl, hres, by simp⟩
  | fuel + 1, n, res, p, hn, hres, hp' => by
    unfold mulAffLoop
    by_cases h0 : n = 0
    · subst h0
      exact ⟨res, by simp, hres, by simp⟩
    · rw [if_neg h0]
      obtain ⟨res', hr1, hr2, hr3⟩ : ∃ R, (if n % 2 = 1 then add c res p else .ok res) = .ok R ∧
          onCurve c R = true ∧ toPoint c R = toPoint c res + (n % 2) • toPoint c p := by
        by_cases hodd : n % 2 = 1
        · rw [if_pos hodd, hodd, one_smul]
          exact add_refines c hc res p hres hp'
        · rw [if_neg hodd]
          have : n % 2 = 0 := by omega
          exact ⟨res, rfl, hres, by simp [this]⟩
      obtain ⟨p2, hd1, hd2, hd3⟩ := double_refines c hc p hp'
      rw [hr1, hd1]
      have hn2 : n / 2 < 2 ^ fuel := by
        rw [pow_succ] at hn; omega
      obtain ⟨R, hR1, hR2, hR3⟩ := mulAffLoop_refines hc fuel (n / 2) res' p2 hn2 hr2 hd2
      refine ⟨R, hR1, hR2, ?_⟩
      rw [hR3, hr3, hd3, add_assoc, ← two_nsmul, ← mul_nsmul', ← add_nsmul]
      congr 2
      omega

theorem multiplyAffine_zsmul (hc : c.Good) (P : Pt) (k : Int) (hP : onCurve c P = true) :
    ∃ R, multiplyAffine c P k = .ok R ∧ onCurve c R = true ∧ toPoint c R = k • toPoint c P := by
  unfold multiplyAffine
  have hfuel := lt_two_pow_bitLength k.natAbs
  by_cases hk : k < 0
  · rw [if_pos hk]
    obtain ⟨R, h1, h2, h3⟩ := mulAffLoop_refines c hc _ _ .inf (negate c P) hfuel rfl
      (negate_onCurve c P hP)
    refine ⟨R, h1, h2, ?_⟩
    rw [h3, toPoint_inf, zero_add, negate_refines c hc P hP]
    have e : k • toPoint c P = -((k.natAbs : ℤ) • toPoint c P) := by
      rw [← neg_smul]; congr 1; omega
    rw [e, natCast_zsmul]; exact neg_nsmul _ _
  · rw [if_neg hk]
    obtain ⟨R, h1, h2, h3⟩ := mulAffLoop_refines c hc _ _ .inf P hfuel rfl hP
    refine ⟨R, h1, h2, ?_⟩
    rw [h3, toPoint_inf, zero_add, ← natCast_zsmul]
    congr 1
    omega

theorem mulJLoop_refines (hc : c.Good) : ∀ (fuel n : Nat) (res pj : JPt) (A B : (W c).Point),
    n < 2 ^ fuel → JRep c res A → JRep c pj B → JRep c (mulJLoop c fuel n res pj) (A + n • B)
  | 0, n, res, pj, A, B, hn, hres, _ => by
    have : n = 0 := by simpa using hn
    subst this
    simpa [mulJLoop] using hres
  | fuel + 1, n, res, pj, A, B, hn, hres, hpj => by
    unfold mulJLoop
    by_cases h0 : n = 0
    · subst h0
      simpa using hres
    · rw [if_neg h0]
      have hn2 : n / 2 < 2 ^ fuel := by
        rw [pow_succ] at hn; omega
      have hres' : JRep c (if n % 2 = 1 then addJ c res pj else res) (A + (n % 2) • B) := by
        by_cases hodd : n % 2 = 1
        · rw [if_pos hodd, hodd, one_smul]; exact addJ_refines c hc hres hpj
        · rw [if_neg hodd]
          have : n % 2 = 0 := by omega
          simpa [this] using hres
      have := mulJLoop_refines hc fuel (n / 2) _ _ _ _ hn2 hres' (doubleJ_refines c hc hpj)
      have e : A + (n % 2) • B + (n / 2) • (B + B) = A + n • B := by
        rw [add_assoc, ← two_nsmul, ← mul_nsmul', ← add_nsmul]
        congr 2
        omega
      rwa [e] at this

theorem multiplyNat_refines (hc : c.Good) (P : Pt) (n : Nat) (hP : onCurve c P = true) :
    ∃ R, multiplyNat c P n = .ok R ∧ onCurve c R = true ∧ toPoint c R = n • toPoint c P := by
  unfold multiplyNat
  by_cases h1 : n = 1
  · rw [if_pos h1, h1, one_smul]; exact ⟨P, rfl, hP, rfl⟩
  · rw [if_neg h1]
    have := mulJLoop_refines c hc (bitLength n) n infJ (affineToJ P) 0 (toPoint c P)
      (lt_two_pow_bitLength n) (jrep_infJ c) (jrep_affineToJ c hc P hP)
    rw [zero_add] at this
    exact jToAffine_refines c this

omit hp in
theorem multiply_aff (x y : Int) (k : Int) : multiply c (.aff x y) k =
    multiplyNat c (if k < 0 then negate c (.aff x y) else .aff x y) k.natAbs := rfl

/-- `Multiply(P, k)` is `k • P` for every integer `k` (zero, negative, beyond the group order). -/
theorem multiply_zsmul (hc : c.Good) (P : Pt) (k : Int) (hP : onCurve c P = true) :
    ∃ R, multiply c P k = .ok R ∧ onCurve c R = true ∧ toPoint c R = k • toPoint c P := by
  cases P with
  | inf => exact ⟨.inf, rfl, rfl, (zsmul_zero k).symm⟩
  | aff x y =>
    rw [multiply_aff]
    by_cases hk : k < 0
    · rw [if_pos hk]
      obtain ⟨R, h1, h2, h3⟩ := multiplyNat_refines c hc (negate c (.aff x y)) k.natAbs
        (negate_onCurve c _ hP)
      refine ⟨R, h1, h2, ?_⟩
      rw [h3, negate_refines c hc _ hP]
      have e : k • toPoint c (.aff x y) = -((k.natAbs : ℤ) • toPoint c (.aff x y)) := by
        rw [← neg_smul]; congr 1; omega
      rw [e, natCast_zsmul]; exact neg_nsmul _ _
    · rw [if_neg hk]
      obtain ⟨R, h1, h2, h3⟩ := multiplyNat_refines c hc (.aff x y) k.natAbs hP
      refine ⟨R, h1, h2, ?_⟩
      rw [h3, ← natCast_zsmul]
      congr 1
      omega

end Paranoid.Ec
