/-
Proofs/EcOrder.lean — meaning of the evaluated parameter check `Curve.paramsOK` in the group
(generator of order `n`), and the exact answer of IsValidPublicKey.
-/
import ParanoidModel.Proofs.EcMul
import Mathlib.GroupTheory.OrderOfElement
namespace Paranoid.Ec
open Paranoid WeierstrassCurve
variable (c : Curve) [hp : Fact (Nat.Prime c.p)]

omit hp in
theorem isOkInf_iff (r : Except PyErr Pt) : isOkInf r = true ↔ r = .ok .inf := by
  cases r with
  | error e => simp [isOkInf]
  | ok P => cases P <;> simp [isOkInf]

omit hp in
/-- the evaluated parameter check implies the hypotheses `Curve.Good` of the refinement theorems. -/
theorem good_of_paramsOK (h : c.paramsOK = true) : c.Good := by
  simp only [Curve.paramsOK, Bool.and_eq_true, decide_eq_true_eq] at h
  exact ⟨by omega, h.1.1.1.1.1.1.1.2⟩

theorem toPoint_g_ne_zero (hc : c.Good) (hG : onCurve c c.g = true) : toPoint c c.g ≠ 0 := by
  have h := nonsingular_of_onCurve c hc (x := c.gx) (y := c.gy) hG
  rw [Curve.g, toPoint_aff c h]
  exact Affine.Point.some_ne_zero h

/-- what `paramsOK` (evaluated by the kernel on the regenerated constants) means in the group:
the generator is a non-zero point of the nonsingular curve with `n • G = 0`; if `n` is prime its
order is exactly `n`. -/
theorem generator_of_paramsOK (h : c.paramsOK = true) :
    c.Good ∧ onCurve c c.g = true ∧ toPoint c c.g ≠ 0 ∧ c.n • toPoint c c.g = 0 ∧ 0 < c.n ∧
      (Nat.Prime c.n → addOrderOf (toPoint c c.g) = c.n) := by
  have hc := good_of_paramsOK c h
  have h' := h
  simp only [Curve.paramsOK, Bool.and_eq_true, decide_eq_true_eq, isOkInf_iff] at h'
  obtain ⟨⟨⟨⟨⟨⟨⟨⟨⟨⟨⟨_, _⟩, hn1⟩, _⟩, _⟩, _⟩, _⟩, _⟩, _⟩, hG⟩, _⟩, hmul⟩ := h'
  have hne := toPoint_g_ne_zero c hc hG
  obtain ⟨R, hR1, _, hR3⟩ := multiply_zsmul c hc c.g c.n hG
  rw [hmul] at hR1
  cases hR1
  rw [toPoint_inf, natCast_zsmul] at hR3
  refine ⟨hc, hG, hne, hR3.symm, by omega, ?_⟩
  intro hn
  have : Fact (Nat.Prime c.n) := ⟨hn⟩
  exact addOrderOf_eq_prime hR3.symm hne

/-- `IsValidPublicKey`: never raises on a valid curve and answers exactly "on the curve, not ∞,
killed by `n` when the cofactor is `> 1`, coordinates in `[0, p-1]`". -/
theorem isValidPublicKey_spec (hc : c.Good) (P : Pt) :
    ∃ b, isValidPublicKey c P = .ok b ∧
      (b = true ↔ onCurve c P = true ∧ P ≠ .inf ∧ (1 < c.h → c.n • toPoint c P = 0) ∧
        ∃ x y, P = .aff x y ∧ 0 ≤ x ∧ x ≤ (c.p : Int) - 1 ∧ 0 ≤ y ∧ y ≤ (c.p : Int) - 1) := by
  unfold isValidPublicKey
  by_cases hon : onCurve c P = true
  · rw [if_neg (by simpa using hon)]
    cases P with
    | inf => exact ⟨false, rfl, by simp⟩
    | aff x y =>
      simp only
      by_cases hh : c.h > 1
      · rw [if_pos hh]
        obtain ⟨R, hR1, _, hR3⟩ := multiply_zsmul c hc (.aff x y) c.n hon
        rw [natCast_zsmul] at hR3
        rw [hR1]
        simp only
        by_cases hR : R = .inf
        · subst hR
          rw [toPoint_inf] at hR3
          simp only [ne_eq, not_true_eq_false, ↓reduceIte]
          refine ⟨_, rfl, ?_⟩
          simp only [decide_eq_true_eq, hon, true_and, reduceCtorEq, not_false_eq_true]
          constructor
          · intro h; exact ⟨fun _ => hR3.symm, x, y, rfl, by omega, by omega, by omega, by omega⟩
          · rintro ⟨_, x', y', he, h1, h2, h3, h4⟩; cases he; omega
        · rw [if_pos hR]
          refine ⟨false, rfl, ?_⟩
          simp only [Bool.false_eq_true, false_iff, not_and]
          intro _ _ hord
          exfalso
          apply hR
          have h0 := hord hh
          rw [← hR3] at h0
          cases R with
          | inf => rfl
          | aff xr yr =>
            exfalso
            have hns := nonsingular_of_onCurve c hc (x := xr) (y := yr) ‹_›
            rw [toPoint_aff c hns] at h0
            exact Affine.Point.some_ne_zero hns h0
      · rw [if_neg hh]
        refine ⟨_, rfl, ?_⟩
        simp only [decide_eq_true_eq, hon, true_and, reduceCtorEq, not_false_eq_true, ne_eq]
        constructor
        · intro h; exact ⟨fun h' => absurd h' hh, x, y, rfl, by omega, by omega, by omega, by omega⟩
        · rintro ⟨_, x', y', he, h1, h2, h3, h4⟩; cases he; omega
  · rw [if_pos (by simpa using hon)]
    exact ⟨false, rfl, by simp [hon]⟩

end Paranoid.Ec
