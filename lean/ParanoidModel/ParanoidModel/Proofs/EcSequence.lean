/-
Proofs/EcSequence.lean — PointSequence(base, n)[i] = i • base.
-/
import ParanoidModel.Proofs.EcComb
namespace Paranoid.Ec
open Paranoid WeierstrassCurve
variable (c : Curve) [hp : Fact (Nat.Prime c.p)]

/-- coordinates in `[0, p)` (or the point at infinity). -/
def Reduced : Pt → Prop
  | .inf => True
  | .aff x y => 0 ≤ x ∧ x < c.p ∧ 0 ≤ y ∧ y < c.p

theorem JRep.not000 {P : JPt} {A : (W c).Point} (h : JRep c P A) : ¬(P.x = 0 ∧ P.y = 0 ∧ P.z = 0) := by
  rcases h with ⟨_, h, _⟩ | ⟨h, _⟩
  · exact fun h' => h ⟨h'.1, h'.2.1⟩
  · intro h'; rw [h'.2.2] at h; exact h (by simp)

theorem forall₂_mem_left {α β} {R : α → β → Prop} {l1 : List α} {l2 : List β}
    (h : List.Forall₂ R l1 l2) {a : α} (ha : a ∈ l1) : ∃ b, b ∈ l2 ∧ R a b := by
  induction h with
  | nil => exact absurd ha List.not_mem_nil
  | cons hab _ ih =>
    rcases List.mem_cons.mp ha with rfl | ha
    · exact ⟨_, List.mem_cons_self, hab⟩
    · obtain ⟨b, hb, hr⟩ := ih ha
      exact ⟨b, List.mem_cons_of_mem _ hb, hr⟩

theorem jToAffine_reduced {P : JPt} {R : Pt} (h : jToAffine c P = .ok R) : Reduced c R := by
  have hpos : 0 < c.p := hp.out.pos
  unfold jToAffine at h
  split at h
  · split at h
    · cases h
    · cases h; trivial
  · split at h
    · cases h
    · cases h
      exact ⟨red_nonneg c hpos _, red_lt c hpos _, red_nonneg c hpos _, red_lt c hpos _⟩

theorem batchJToAffine_rep {α} {φ : α → (W c).Point} {js : List JPt} {is : List α}
    (h : List.Forall₂ (fun J i => JRep c J (φ i)) js is) :
    ∃ rs, batchJToAffine c js = .ok rs ∧
      List.Forall₂ (fun R i => onCurve c R = true ∧ toPoint c R = φ i ∧ Reduced c R) rs is := by
  rw [batchJToAffine_eq_map c js (by
    intro P hP
    obtain ⟨i, _, hi⟩ := forall₂_mem_left h hP
    exact hi.not000 c)]
  induction h with
  | nil => exact ⟨[], rfl, .nil⟩
  | cons hJ _ ih =>
    obtain ⟨R, hR1, hR2, hR3⟩ := jToAffine_refines c hJ
    obtain ⟨rs, hrs1, hrs2⟩ := ih
    exact ⟨R :: rs, by simp [mapE, hR1, hrs1], .cons ⟨hR2, hR3, jToAffine_reduced c hR1⟩ hrs2⟩


theorem pointSeqJ_spec (hc : c.Good) {baseJ : JPt} {B : (W c).Point} (hb : JRep c baseJ B) :
    ∀ (cnt : Nat) (prev : JPt) (a : Nat), JRep c prev (a • B) →
    List.Forall₂ (fun J (i : Nat) => JRep c J (i • B)) (pointSeqJ c baseJ cnt prev)
      (List.range' (a + 1) cnt)
  | 0, _, _, _ => .nil
  | cnt + 1, prev, a, hprev => by
    rw [pointSeqJ, List.range'_succ]
    have h1 : JRep c (addJ c prev baseJ) ((a + 1) • B) := by
      rw [succ_nsmul]; exact addJ_refines c hc hprev hb
    exact .cons h1 (pointSeqJ_spec hc hb cnt _ (a + 1) h1)

/-- **PointSequence**: `PointSequence(base, n)[i] = i • base` for `i < n` (`n ≥ 1`; `n = 0` raises
IndexError), every entry reduced. -/
theorem pointSequence_spec (hc : c.Good) (base : Pt) (hbase : onCurve c base = true) (n : Nat)
    (hn : 0 < n) :
    ∃ rs, pointSequence c base n = .ok rs ∧
      List.Forall₂ (fun R (i : Nat) => onCurve c R = true ∧ toPoint c R = i • toPoint c base ∧ Reduced c R)
        rs (List.range n) := by
  obtain ⟨k, rfl⟩ := Nat.exists_eq_succ_of_ne_zero (by omega : n ≠ 0)
  rw [pointSequence, List.range_eq_range', List.range'_succ]
  have hb := jrep_affineToJ c hc base hbase
  have h0 : JRep c infJ ((0 : Nat) • toPoint c base) := by rw [zero_nsmul]; exact jrep_infJ c
  exact batchJToAffine_rep c (φ := fun i : Nat => i • toPoint c base)
    (.cons h0 (pointSeqJ_spec c hc hb k infJ 0 h0))

omit hp in
theorem pointSequence_zero (base : Pt) : pointSequence c base 0 = .error .indexError := rfl

end Paranoid.Ec
