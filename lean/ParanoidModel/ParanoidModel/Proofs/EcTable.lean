/-
Proofs/EcTable.lean — BatchAddX on reduced on-curve points, the Python dict model, and the content of
PointTable for every split `m ≥ 1`.
-/
import ParanoidModel.Proofs.EcSequence
namespace Paranoid.Ec
open Paranoid WeierstrassCurve
variable (c : Curve) [hp : Fact (Nat.Prime c.p)]

/-- the dict key (`x`-coordinate as a reduced Python int, `None` for ∞) of a group element. -/
def xKey : (W c).Point → Option Int
  | .zero => none
  | .some x _ _ => some (x.val : Int)

/-- on the curve, denotes `A`, coordinates reduced. -/
def RepR (R : Pt) (A : (W c).Point) : Prop := onCurve c R = true ∧ toPoint c R = A ∧ Reduced c R

theorem x?_eq_xKey (hc : c.Good) {R : Pt} {A : (W c).Point} (h : RepR c R A) : R.x? = xKey c A := by
  obtain ⟨h1, h2, h3⟩ := h
  cases R with
  | inf => rw [toPoint_inf] at h2; rw [← h2]; rfl
  | aff x y =>
    have hns := nonsingular_of_onCurve c hc h1
    rw [toPoint_aff c hns] at h2
    rw [← h2]
    simp only [Pt.x?, xKey]
    have : NeZero c.p := ⟨hp.out.ne_zero⟩
    rw [ZMod.val_intCast, Int.emod_eq_of_lt h3.1 h3.2.1]

theorem double_reduced {P R : Pt} (hP : Reduced c P) (h : double c P = .ok R) : Reduced c R := by
  have hpos : 0 < c.p := hp.out.pos
  cases P with
  | inf => cases h; trivial
  | aff x y =>
    rw [double_aff] at h
    split at h
    · cases h; trivial
    · split at h
      · cases h
      · cases h
        exact ⟨red_nonneg c hpos _, red_lt c hpos _, red_nonneg c hpos _, red_lt c hpos _⟩

theorem add_reduced {P Q R : Pt} (hP : Reduced c P) (hQ : Reduced c Q) (h : add c P Q = .ok R) :
    Reduced c R := by
  have hpos : 0 < c.p := hp.out.pos
  cases P with
  | inf => cases Q <;> (cases h; assumption)
  | aff x1 y1 =>
  cases Q with
  | inf => cases h; exact hP
  | aff x2 y2 =>
    rw [add_aff] at h
    split at h
    · split at h
      · exact double_reduced c hP h
      · cases h; trivial
    · split at h
      · cases h
      · cases h
        exact ⟨red_nonneg c hpos _, red_lt c hpos _, red_nonneg c hpos _, red_lt c hpos _⟩

theorem repR_add (hc : c.Good) {P Q : Pt} {A B : (W c).Point} (hP : RepR c P A) (hQ : RepR c Q B) :
    ∃ R, add c P Q = .ok R ∧ RepR c R (A + B) := by
  obtain ⟨R, h1, h2, h3⟩ := add_refines c hc P Q hP.1 hQ.1
  exact ⟨R, h1, h2, by rw [h3, hP.2.1, hQ.2.1], add_reduced c hP.2.2 hQ.2.2 h1⟩

theorem batchAddX_repR (hc : c.Good) {α} {φ : α → (W c).Point} {P : Pt} {A : (W c).Point}
    (hP : RepR c P A) {low : List Pt} {js : List α}
    (h : List.Forall₂ (fun Q j => RepR c Q (φ j)) low js) :
    ∃ xs, batchAddX c P low = .ok xs ∧ List.Forall₂ (fun x j => x = xKey c (A + φ j)) xs js := by
  rw [batchAddX_eq_map]
  induction h with
  | nil => exact ⟨[], rfl, .nil⟩
  | cons hQ _ ih =>
    obtain ⟨R, hR1, hR2⟩ := repR_add c hc hP hQ
    obtain ⟨xs, hxs1, hxs2⟩ := ih
    exact ⟨R.x? :: xs, by simp [mapE, addX, hR1, hxs1], .cons (x?_eq_xKey c hc hR2) hxs2⟩

/-! ### the dict -/

omit hp in
theorem XTable.get?_set (t : XTable) (k k' : Option Int) (v : Nat) :
    (t.set k v).get? k' = if k = k' then some v else t.get? k' := by
  induction t with
  | nil => simp [XTable.set, XTable.get?]
  | cons e rest ih =>
    obtain ⟨k0, v0⟩ := e
    unfold XTable.set
    by_cases h0 : k0 = k
    · rw [if_pos h0]
      subst h0
      unfold XTable.get?
      by_cases h1 : k0 = k' <;> simp [h1]
    · rw [if_neg h0]
      unfold XTable.get?
      by_cases h1 : k0 = k'
      · rw [if_pos h1, if_pos h1]
        have : ¬ k = k' := fun h => h0 (h1.trans h.symm)
        rw [if_neg this]
      · rw [if_neg h1, if_neg h1, ih]

/-- table invariant after the first `N` writes `t[K w] = w`, `w = 0 … N-1`. -/
def TableInv (K : Nat → Option Int) (t : XTable) (N : Nat) : Prop :=
  (∀ k v, t.get? k = some v → v < N ∧ K v = k) ∧ (∀ v, v < N → ∃ v', t.get? (K v) = some v')

omit hp in
theorem tableInv_set {K : Nat → Option Int} {t : XTable} {N : Nat} (h : TableInv K t N) :
    TableInv K (t.set (K N) N) (N + 1) := by
  constructor
  · intro k v hv
    rw [XTable.get?_set] at hv
    split at hv
    · rename_i hk; cases hv; exact ⟨by omega, hk⟩
    · obtain ⟨h1, h2⟩ := h.1 k v hv; exact ⟨by omega, h2⟩
  · intro v hv
    rw [XTable.get?_set]
    split
    · exact ⟨N, rfl⟩
    · have : v ≠ N := by rintro rfl; simp_all
      exact h.2 v (by omega)

omit hp in
theorem tableRow_inv {K : Nat → Option Int} : ∀ (xs : List (Option Int)) (t : XTable) (v0 : Nat),
    List.Forall₂ (fun x w => x = K w) xs (List.range' v0 xs.length) → TableInv K t v0 →
    TableInv K (tableRow t xs v0) (v0 + xs.length)
  | [], t, v0, _, h => by simpa [tableRow] using h
  | x :: xs, t, v0, hxs, h => by
    rw [List.length_cons, List.range'_succ] at hxs
    cases hxs with
    | cons hx hrest =>
      subst hx
      rw [tableRow, List.length_cons]
      have := tableRow_inv xs (t.set (K v0) v0) (v0 + 1) hrest (tableInv_set h)
      rwa [show v0 + 1 + xs.length = v0 + (xs.length + 1) by omega] at this

theorem tableRows_inv (hc : c.Good) {B : (W c).Point} {low : List Pt} {m : Nat}
    (hlow : List.Forall₂ (fun Q (j : Nat) => RepR c Q (j • B)) low (List.range m)) :
    ∀ (ps : List Pt) (i0 : Nat) (t : XTable),
    List.Forall₂ (fun P (i : Nat) => RepR c P (i • (m • B))) ps (List.range' i0 ps.length) →
    TableInv (fun w => xKey c (w • B)) t (i0 * m) →
    ∃ t', tableRows c low m ps i0 t = .ok t' ∧
      TableInv (fun w => xKey c (w • B)) t' ((i0 + ps.length) * m)
  | [], i0, t, _, h => ⟨t, rfl, by simpa using h⟩
  | P :: ps, i0, t, hps, h => by
    rw [List.length_cons, List.range'_succ] at hps
    cases hps with
    | cons hP hrest =>
      obtain ⟨xs, hxs1, hxs2⟩ := batchAddX_repR c hc hP hlow
      have hlen : xs.length = m := by rw [hxs2.length_eq, List.length_range]
      have hxs3 : List.Forall₂ (fun x w => x = (fun w => xKey c (w • B)) w) xs
          (List.range' (i0 * m) xs.length) := by
        rw [hlen, List.range'_eq_map_range, List.forall₂_map_right_iff]
        refine hxs2.imp ?_
        intro x j hx
        rw [hx]; show _ = xKey c ((i0 * m + j) • B)
        rw [add_nsmul, mul_nsmul']
      have hinv := tableRow_inv xs t (i0 * m) hxs3 h
      rw [hlen, show i0 * m + m = (i0 + 1) * m by ring] at hinv
      obtain ⟨t', ht1, ht2⟩ := tableRows_inv hc hlow ps (i0 + 1) _ hrest hinv
      refine ⟨t', ?_, ?_⟩
      · rw [tableRows, hxs1]; exact ht1
      · rwa [List.length_cons, show i0 + (ps.length + 1) = i0 + 1 + ps.length by omega]

/-- **PointTable**: for every split `m ≥ 1` (the float oracle `int(math.sqrt(n))`) and `n ≥ 1`, with
`r = ceil(n / m)`: the call succeeds; every entry `x ↦ v` of the table has `v < r·m` and `x` is the
reduced x-coordinate of `v • base` (`None` for ∞); every `v < r·m` (in particular every `v < n`)
finds an entry under the x-coordinate of `v • base`. -/
theorem pointTable_spec (hc : c.Good) (base : Pt) (hbase : onCurve c base = true) (n m : Nat)
    (hn : 0 < n) (hm : 0 < m) :
    ∃ t, pointTable c base n m = .ok t ∧ n ≤ (n + m - 1) / m * m ∧
      (∀ k v, t.get? k = some v → v < (n + m - 1) / m * m ∧ xKey c (v • toPoint c base) = k) ∧
      (∀ v, v < (n + m - 1) / m * m → ∃ v', t.get? (xKey c (v • toPoint c base)) = some v') := by
  have hr : 0 < (n + m - 1) / m := Nat.div_pos (by omega) hm
  have hcover : n ≤ (n + m - 1) / m * m := by
    have h3 := Nat.div_add_mod (n + m - 1) m
    have h4 := Nat.mod_lt (n + m - 1) hm
    rw [mul_comm] at h3
    generalize (n + m - 1) / m * m = q at h3 ⊢
    omega
  unfold pointTable
  rw [if_neg (by omega)]
  obtain ⟨low, hlow1, hlow2⟩ := pointSequence_spec c hc base hbase m hm
  obtain ⟨bm, hbm1, hbm2, hbm3⟩ := multiply_zsmul c hc base (m : Int) hbase
  rw [natCast_zsmul] at hbm3
  obtain ⟨high, hhigh1, hhigh2⟩ := pointSequence_spec c hc bm hbm2 _ hr
  simp only [hlow1, hbm1, hhigh1]
  have hlen : high.length = (n + m - 1) / m := by rw [hhigh2.length_eq, List.length_range]
  have hhigh3 : List.Forall₂ (fun P (i : Nat) => RepR c P (i • (m • toPoint c base))) high
      (List.range' 0 high.length) := by
    rw [hlen, ← List.range_eq_range']
    refine hhigh2.imp ?_
    intro P i hP
    exact ⟨hP.1, by rw [hP.2.1, hbm3], hP.2.2⟩
  have hinit : TableInv (fun w => xKey c (w • toPoint c base)) [] (0 * m) := by
    constructor
    · intro k v h; simp [XTable.get?] at h
    · intro v hv; omega
  obtain ⟨t, ht1, ht2⟩ := tableRows_inv c hc (hlow2.imp fun Q j h => ⟨h.1, h.2.1, h.2.2⟩) high 0 []
    hhigh3 hinit
  rw [zero_add, hlen] at ht2
  exact ⟨t, ht1, hcover, ht2.1, ht2.2⟩

end Paranoid.Ec
