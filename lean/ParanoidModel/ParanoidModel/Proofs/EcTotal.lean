/-
Proofs/EcTotal.lean — totality of the discrete-log searches and of the two batched EC checks on
ARBITRARY coordinates (review finding F2): no on-curve hypothesis, no reducedness hypothesis, no
hypothesis on the cached `_table` state.

Why nothing can raise (odd prime field, valid generator):
* every user point enters the affine batch operations only through `BatchAddX(p, list)`, which equals
  `[Add(p, q)[0] for q in list]` for ALL lists (`batchAddX_eq_map`) and `Add` is total for all
  integer pairs (`add_total`, after fix D3);
* `Multiply(user point, k)` (only in `ExtendedBatchDL`, `k = invert(multiplier, n)`) raises only for
  `k = 2` (`Ec.multiply_cases`), and `2` is never the inverse of a multiplier (`ext_inverse_ne_two`:
  `2·mult < n`);
* everything else (`PointTable(g, ·)`, `PointSequence(Multiply(g, -t), ·)`, `Multiply(g, dl)`) works
  on multiples of the generator;
* the `_table` contents are only READ (`x in table`, `table[x]`): whatever they are, the candidates
  are verified by `Multiply(g, dl)`.
-/
import ParanoidModel.Proofs.EcTotalJ
import ParanoidModel.Proofs.BsgsCheckLoop
import ParanoidModel.Model.EcAll
namespace Paranoid.Bsgs
open Paranoid Paranoid.Ec

/-! ### `2` is not the inverse of an ExtendedBatchDL multiplier -/

theorem extMultipliers_small (c : Curve) (hn : c.n ≠ 0) : ∀ mu ∈ extMultipliers c, 1 ≤ mu ∧ 2 * mu < c.n := by
  intro mu hmu
  have hlow := two_pow_le_of_bitLength c.n hn
  unfold extMultipliers at hmu
  rcases List.mem_append.mp hmu with h | h
  · obtain ⟨k, hk, rfl⟩ := List.mem_map.mp h
    rw [List.mem_range] at hk
    have hk' : 8 * k + 32 ≤ bitLength c.n := by omega
    have h1 : 2 ^ (8 * k) * 2 ^ 31 ≤ 2 ^ (bitLength c.n - 1) := by
      rw [← pow_add]; exact Nat.pow_le_pow_right (by decide) (by omega)
    have h2 : 1 ≤ 2 ^ (8 * k) := Nat.one_le_two_pow
    refine ⟨h2, ?_⟩
    generalize 2 ^ (8 * k) = a at *
    norm_num at h1
    omega
  · obtain ⟨k, hk, rfl⟩ := List.mem_map.mp h
    rw [List.mem_range] at hk
    have hk' : 32 * (k + 2) ≤ bitLength c.n := by omega
    have hmul := repUnit_mul (k + 2)
    have h1 : 2 ^ (32 * (k + 2)) ≤ 2 * 2 ^ (bitLength c.n - 1) := by
      rw [← pow_succ']; exact Nat.pow_le_pow_right (by decide) (by omega)
    have h2 : 1 ≤ repUnit (k + 2) := by
      rw [show k + 2 = (k + 1) + 1 from rfl, repUnit]
      have : 1 ≤ 2 ^ (32 * (k + 1)) := Nat.one_le_two_pow
      omega
    refine ⟨h2, ?_⟩
    generalize repUnit (k + 2) = a at *
    generalize 2 ^ (32 * (k + 2)) = b at *
    norm_num at hmul
    omega

/-- `gmpy.invert(mult, n)` is never `2`: `ExtendedBatchDL` never calls `Multiply(point, 2)`. -/
theorem ext_inverse_ne_two (c : Curve) (hn : 2 ≤ c.n) (mu : Nat) (hmu : mu ∈ extMultipliers c)
    (inv : Nat) (h : invMod (mu : Int) c.n = .ok inv) : inv ≠ 2 := by
  rintro rfl
  obtain ⟨h1, h2⟩ := extMultipliers_small c (by omega) mu hmu
  obtain ⟨hm, _, _⟩ := invMod_ok (mu : Int) c.n 2 hn h
  have : ((mu : Int) * (2 : Nat)) % (c.n : Int) = (mu : Int) * 2 := by
    apply Int.emod_eq_of_lt <;> push_cast <;> omega
  rw [this] at hm
  omega

section group
variable (c : Curve) [hp : Fact (Nat.Prime c.p)]

/-! ### BatchAddX and the BatchDL scan on arbitrary points -/

theorem mapE_total_len {α β} {f : α → Except PyErr β} (h : ∀ a, ∃ b, f a = .ok b) :
    ∀ l : List α, ∃ bs, mapE f l = .ok bs ∧ bs.length = l.length
  | [] => ⟨[], rfl, rfl⟩
  | a :: as => by
    obtain ⟨b, hb⟩ := h a
    obtain ⟨bs, hbs, hl⟩ := mapE_total_len h as
    exact ⟨b :: bs, by rw [mapE, hb]; simp only; rw [hbs], by simp [hl]⟩

/-- `BatchAddX(p, points)` never raises, for ANY points. -/
theorem batchAddX_total_any (h2 : c.p ≠ 2) (P : Pt) (qs : List Pt) :
    ∃ xs, batchAddX c P qs = .ok xs ∧ xs.length = qs.length := by
  rw [batchAddX_eq_map]
  apply mapE_total_len
  intro Q
  obtain ⟨R, hR⟩ := add_total c h2 P Q
  exact ⟨R.x?, by rw [addX, hR]⟩

/-- one point of `BatchDL`: any point, any giant-step list, any table. -/
theorem dlPoint_total_any (hc : c.Good) (hG : onCurve c c.g = true) (look : Lookup) (t : Int)
    (listC : List Pt) (P : Pt) : ∃ r, dlPoint c look t listC P = .ok r := by
  cases P with
  | inf => exact ⟨some 0, rfl⟩
  | aff px py =>
    obtain ⟨xs, hxs, _⟩ := batchAddX_total_any c hc.two (.aff px py) listC
    obtain ⟨r, hr, _⟩ := dlScan_spec c hc hG look t px py xs 0 none
    exact ⟨r, by rw [dlPoint, hxs]; exact hr⟩

theorem forE_length {α β} {f : α → Except PyErr β} {l : List α} {rs : List β}
    (h : forE f l = .ok rs) : rs.length = l.length := (forE_ok h).length_eq.symm

/-- `BatchDL` after the table update: any points, any lookup table, `ts ≥ 1`. -/
theorem batchDLCore_total_any (hc : c.Good) (hG : onCurve c c.g = true) (hGr : Reduced c c.g)
    (look : Lookup) (points : List Pt) (n ts : Nat) (hts : 1 ≤ ts) :
    ∃ res, batchDLCore c look points n ts = .ok res ∧ res.length = points.length := by
  have hgs : 0 < 2 + n / (2 * ts - 1) := Nat.add_pos_left (by decide) _
  obtain ⟨b, listC, hb, hl1, _⟩ := listC_spec c hc hG hGr (2 * (ts : Int) - 1)
    (2 + n / (2 * ts - 1)) hgs
  obtain ⟨res, hres⟩ := forE_total (f := dlPoint c look (2 * (ts : Int) - 1) listC) (l := points)
    (fun P _ => dlPoint_total_any c hc hG look _ listC P)
  refine ⟨res, ?_, forE_length hres⟩
  unfold batchDLCore
  rw [hb]
  simp only
  rw [giantSteps_eq n ts hts, pointSequenceI, if_neg (by exact_mod_cast Nat.not_le.mpr hgs),
    Int.toNat_natCast, hl1]
  exact hres

/-- the table update never raises, from ANY state (`m ≥ 1` when the table is rebuilt). -/
theorem ensureTable_total_any (hc : c.Good) (hG : onCurve c c.g = true) (st : EcState)
    (size m : Nat) (hm : st.tableSize < size → 1 ≤ m) :
    ∃ st', ensureTableG listImpl c st size m = .ok st' := by
  unfold ensureTableG
  by_cases h : size > st.tableSize
  · rw [if_pos h, pointTableG_list]
    obtain ⟨t, ht1, _⟩ := pointTable_spec c hc c.g hG size m (by omega) (hm h)
    rw [ht1]; exact ⟨_, rfl⟩
  · rw [if_neg h]; exact ⟨_, rfl⟩

/-- **BatchDL** never raises: any state, any points. -/
theorem batchDL_total_any (hc : c.Good) (hG : onCurve c c.g = true) (hGr : Reduced c c.g)
    (st : EcState) (points : List Pt) (n ts m : Nat) (hts : 1 ≤ ts)
    (hm : st.tableSize < ts → 1 ≤ m) :
    ∃ res st', batchDLG listImpl c st points n ts m = .ok (res, st') ∧ res.length = points.length := by
  obtain ⟨st', hst'⟩ := ensureTable_total_any c hc hG st ts m hm
  obtain ⟨res, hres, hlen⟩ := batchDLCore_total_any c hc hG hGr (listImpl.get? st'.table) points n ts hts
  exact ⟨res, st', by rw [batchDLG, hst']; simp only; rw [hres], hlen⟩

/-! ### ExtendedBatchDL -/

theorem extAllPoints_total_any (h2 : c.p ≠ 2) (points : List Pt) :
    ∀ invs : List Nat, (∀ inv ∈ invs, inv ≠ 2) →
    ∃ all, extAllPoints c points invs = .ok all ∧ all.length = invs.length * points.length
  | [], _ => ⟨[], rfl, by simp⟩
  | inv :: invs, h => by
    obtain ⟨rest, hr1, hr2⟩ := extAllPoints_total_any h2 points invs
      (fun i hi => h i (List.mem_cons_of_mem _ hi))
    obtain ⟨row, hrow⟩ := forE_total (f := fun P => multiply c P (inv : Int)) (l := points)
      (fun P _ => multiply_total_of_ne_two c h2 P inv (by
        have := h inv List.mem_cons_self
        exact_mod_cast this))
    refine ⟨row ++ rest, by rw [extAllPoints, hrow]; simp only; rw [hr1], ?_⟩
    rw [List.length_append, forE_length hrow, hr2, List.length_cons]
    ring

/-- **ExtendedBatchDL** never raises: any state, ANY points (off the curve, unreduced, `(0,0)`,
coordinates `≥ p`), one result per point. -/
theorem extendedBatchDLB_total_any (hc : c.Good) (hG : onCurve c c.g = true) (hGr : Reduced c c.g)
    (hn : 2 ≤ c.n) (hmu : MultipliersOK c) (bound : Nat) (st : EcState) (points : List Pt)
    (ts m : Nat) (hts : 1 ≤ ts) (hm : st.tableSize < ts → 1 ≤ m) :
    ∃ res st', extendedBatchDLB listImpl c bound st points ts m = .ok (res, st') ∧
      res.length = points.length := by
  obtain ⟨invs, hinvs, hinv⟩ := extInverses_total c hn hmu
  have hno2 : ∀ inv ∈ invs, inv ≠ 2 := by
    intro inv hi
    obtain ⟨mu, hmu', hr⟩ := forall₂_mem_left hinv.flip hi
    exact ext_inverse_ne_two c hn mu hmu' inv hr
  obtain ⟨all, hall, halllen⟩ := extAllPoints_total_any c hc.two points invs hno2
  obtain ⟨dls, st1, hdl, hdlen⟩ := batchDL_total_any c hc hG hGr st all bound ts m hts hm
  have hlen : dls.length = (extMultipliers c).length * points.length := by
    rw [hdlen, halllen, hinv.length_eq]
  unfold extendedBatchDLB
  rw [hinvs]; simp only; rw [hall]; simp only; rw [hdl]; simp only
  rcases Nat.eq_zero_or_pos points.length with hnp0 | hnp
  · have hp0 : points = [] := List.eq_nil_of_length_eq_zero hnp0
    subst hp0
    have : dls = [] := List.eq_nil_of_length_eq_zero (by rw [hlen]; simp)
    subst this
    exact ⟨[], st1, rfl, rfl⟩
  · obtain ⟨res, h1, h2, _⟩ := extCollect_spec points.length hnp (extMultipliers c) dls 0
      (List.replicate points.length none) (by simp) (by omega)
    rw [h1]
    exact ⟨res, st1, rfl, h2⟩

/-! ### BatchDLOfDifferences -/

theorem diffStep_total_any (hc : c.Good) (hG : onCurve c c.g = true) (look : Lookup) {p nq : Pt}
    (hp' : IsAff p) (hq : IsAff nq) (nOther i : Nat) (res : List (Option Rel)) (j : Nat)
    (x : Option Int) :
    ∃ res', diffStep c look p nOther i res j nq x = .ok res' ∧ res'.length = res.length := by
  unfold diffStep
  cases x with
  | none => exact ⟨res, rfl, rfl⟩
  | some xv =>
    simp only
    cases look (some xv) with
    | none => exact ⟨res, rfl, rfl⟩
    | some v =>
      simp only
      obtain ⟨diff, hdiff⟩ := subtract_total c hc.two p (negate c nq)
      rw [hdiff]
      simp only
      obtain ⟨r1, h1, l1, _⟩ := diffTry_spec c hc hG hp' (isAff_negate c hq) diff nOther i j res (v : Int)
      rw [h1]
      simp only
      obtain ⟨r2, h2', l2, _⟩ := diffTry_spec c hc hG hp' (isAff_negate c hq) diff nOther i j r1 (-(v : Int))
      exact ⟨r2, h2', by rw [l2, l1]⟩

theorem diffScan_total_any (hc : c.Good) (hG : onCurve c c.g = true) (look : Lookup) {p : Pt}
    (hp' : IsAff p) (nOther i : Nat) :
    ∀ (nqs : List Pt) (xs : List (Option Int)) (j : Nat) (res : List (Option Rel)),
    (∀ nq ∈ nqs, IsAff nq) →
    ∃ res', diffScan c look p nOther i nqs xs j res = .ok res' ∧ res'.length = res.length
  | [], _, _, res, _ => ⟨res, by simp [diffScan], rfl⟩
  | _ :: _, [], _, res, _ => ⟨res, by simp [diffScan], rfl⟩
  | nq :: nqs, x :: xs, j, res, h => by
    obtain ⟨r1, h1, l1⟩ := diffStep_total_any c hc hG look hp' (h nq List.mem_cons_self) nOther i res j x
    obtain ⟨r2, h2', l2⟩ := diffScan_total_any hc hG look hp' nOther i nqs xs (j + 1) r1
      (fun q hq => h q (List.mem_cons_of_mem _ hq))
    exact ⟨r2, by rw [diffScan, h1]; exact h2', by rw [l2, l1]⟩

theorem diffOuter_total_any (hc : c.Good) (hG : onCurve c c.g = true) (look : Lookup)
    (nOther : Nat) :
    ∀ (ps : List Pt) (i : Nat) (negated : List Pt) (res : List (Option Rel)),
    (∀ P ∈ ps, IsAff P) → (∀ nq ∈ negated, IsAff nq) →
    ∃ res', diffOuter c look nOther ps i negated res = .ok res' ∧ res'.length = res.length
  | [], _, _, res, _, _ => ⟨res, rfl, rfl⟩
  | p :: ps, i, negated, res, hps, hneg => by
    have hp' : IsAff p := hps p List.mem_cons_self
    obtain ⟨xs, hxs, _⟩ := batchAddX_total_any c hc.two p negated
    obtain ⟨r1, h1, l1⟩ := diffScan_total_any c hc hG look hp' nOther i negated xs 0 res hneg
    obtain ⟨r2, h2', l2⟩ := diffOuter_total_any hc hG look nOther ps (i + 1) (negated ++ [negate c p]) r1
      (fun P hP => hps P (List.mem_cons_of_mem _ hP))
      (fun nq hnq => by
        rcases List.mem_append.mp hnq with h | h
        · exact hneg nq h
        · rw [List.mem_singleton] at h; subst h; exact isAff_negate c hp')
    exact ⟨r2, by rw [diffOuter, hxs]; simp only; rw [h1]; exact h2', by rw [l2, l1]⟩

/-- **BatchDLOfDifferences** never raises: any state, ANY finite points (equal up to reduction
mod `p`, off the curve, `(0,0)`, …), one result per point. -/
theorem batchDLOfDifferences_total_any (hc : c.Good) (hG : onCurve c c.g = true) (st : EcState)
    (points other : List Pt) (hpts : ∀ P ∈ points, IsAff P) (hoth : ∀ P ∈ other, IsAff P)
    (maxDiff m : Nat) (hm : st.tableSize < maxDiff → 1 ≤ m) :
    ∃ rels st', batchDLOfDifferencesG listImpl c st points other maxDiff m = .ok (rels, st') ∧
      rels.length = points.length := by
  unfold batchDLOfDifferencesG
  split
  · exact ⟨_, st, rfl, by simp⟩
  · obtain ⟨st', hst'⟩ := ensureTable_total_any c hc hG st maxDiff m hm
    rw [hst']
    simp only
    obtain ⟨res, hres, hl⟩ := diffOuter_total_any c hc hG (listImpl.get? st'.table) other.length points 0
      (other.map (negate c)) (List.replicate points.length none) hpts
      (fun nq hnq => by
        obtain ⟨q, hq, rfl⟩ := List.mem_map.mp hnq
        exact isAff_negate c (hoth q hq))
    rw [hres]
    exact ⟨res, st', rfl, by rw [hl]; simp⟩

end group

/-! ### the loop over `CURVE_FACTORY.items()`, generically -/

/-- the common shape of `CheckWeakECPrivateKey.Check` / `CheckECKeySmallDifference.Check`:
`step e c st o = none` is `continue`; `some r` is the discrete-log search of the curve's group. -/
def genLoop {ω : Type} (keys : List ECKey)
    (step : FEntry → Curve → EcState → ω → Option (Except PyErr (List KV × EcState))) :
    Factory → List EcState → List ω → List KeyVerdict →
    Except PyErr (List KeyVerdict × List EcState)
  | e :: es, st :: sts, o :: os, res =>
    match e.curve with
    | none => consState st (genLoop keys step es sts os res)
    | some c =>
      match step e c st o with
      | none => consState st (genLoop keys step es sts os res)
      | some (.error err) => .error err
      | some (.ok (vs, st')) =>
        consState st' (genLoop keys step es sts os (scatter res (keyIdxs e.id keys 0) vs))
  | _, _, _, res => .ok (res, [])

/-- what a step must deliver, given a state invariant `Inv` and a per-key postcondition `Q`
(`Q e c rank point verdict`): it skips only an empty group, and otherwise returns a state satisfying
the invariant and one verdict per key of the group, each satisfying `Q`. -/
def StepOKQ (keys : List ECKey) (Inv : FEntry → EcState → Prop)
    (Q : FEntry → Curve → Nat → Pt → KV → Prop) (e : FEntry) (c : Curve)
    (r : Option (Except PyErr (List KV × EcState))) : Prop :=
  match r with
  | none => groupPoints e.id keys = []
  | some r => ∃ vs st', r = .ok (vs, st') ∧ Inv e st' ∧ vs.length = (groupPoints e.id keys).length ∧
      ∀ (rk : Nat) (P : Pt), (groupPoints e.id keys)[rk]? = some P → ∃ kv, vs[rk]? = some kv ∧ Q e c rk P kv

/-- the loop never raises, preserves the state invariant, writes an entry exactly for the keys whose
curve id has a curve object, and every entry satisfies the postcondition of its group search. -/
theorem genLoop_spec {ω : Type} (keys : List ECKey)
    (step : FEntry → Curve → EcState → ω → Option (Except PyErr (List KV × EcState)))
    (Inv : FEntry → EcState → Prop) (Q : FEntry → Curve → Nat → Pt → KV → Prop) :
    ∀ (f : Factory) (sts : List EcState) (os : List ω) (res : List KeyVerdict),
    (f.map (·.id)).Nodup → List.Forall₂ Inv f sts →
    List.Forall₂ (fun e o => ∀ c st, e.curve = some c → Inv e st →
      StepOKQ keys Inv Q e c (step e c st o)) f os →
    res.length = keys.length →
    ∃ res' sts', genLoop keys step f sts os res = .ok (res', sts') ∧
      res'.length = keys.length ∧ List.Forall₂ Inv f sts' ∧
      (∀ (p : Nat) (k : ECKey), keys[p]? = some k →
        (∀ e ∈ f, e.id = k.curveType → e.curve = none) → res'[p]? = res[p]?) ∧
      (∀ (p : Nat) (k : ECKey) (e : FEntry) (c : Curve), keys[p]? = some k → e ∈ f →
        e.id = k.curveType → e.curve = some c →
        ∃ kv rk, res'[p]? = some (some kv) ∧ (keyIdxs e.id keys 0)[rk]? = some p ∧ Q e c rk k.pt kv) := by
  intro f
  induction f with
  | nil =>
    intro sts os res _ hst _ hl
    cases hst
    refine ⟨res, [], ?_, hl, .nil, fun _ _ _ _ => rfl, fun _ _ e _ _ he => by simp at he⟩
    cases os <;> rfl
  | cons e es ih =>
    intro sts os res hnd hst hos hl
    cases hst with
    | @cons _ st _ sts hinv hst' =>
    cases hos with
    | @cons _ o _ os ho hos' =>
    rw [List.map_cons, List.nodup_cons] at hnd
    obtain ⟨hnotin, hnd'⟩ := hnd
    have hother : ∀ e' ∈ es, e'.id ≠ e.id := fun e' he' h =>
      hnotin (List.mem_map.mpr ⟨e', he', h⟩)
    have skip : (∀ (p : Nat) (k : ECKey), keys[p]? = some k → k.curveType = e.id → e.curve = none) →
        ∃ res' sts', consState st (genLoop keys step es sts os res) = .ok (res', sts') ∧
        res'.length = keys.length ∧ List.Forall₂ Inv (e :: es) sts' ∧
        (∀ (p : Nat) (k : ECKey), keys[p]? = some k →
          (∀ e' ∈ e :: es, e'.id = k.curveType → e'.curve = none) → res'[p]? = res[p]?) ∧
        (∀ (p : Nat) (k : ECKey) (e' : FEntry) (c : Curve), keys[p]? = some k → e' ∈ e :: es →
          e'.id = k.curveType → e'.curve = some c →
          ∃ kv rk, res'[p]? = some (some kv) ∧ (keyIdxs e'.id keys 0)[rk]? = some p ∧
            Q e' c rk k.pt kv) := by
      intro hnone
      obtain ⟨res', sts', h1, h2, h3, h4, h5⟩ := ih sts os res hnd' hst' hos' hl
      refine ⟨res', st :: sts', consState_ok h1, h2, .cons hinv h3, ?_, ?_⟩
      · intro p k hk hall
        exact h4 p k hk (fun e' he' => hall e' (List.mem_cons_of_mem _ he'))
      · intro p k e' c hk he' hid hcur
        rcases List.mem_cons.mp he' with rfl | he'
        · have := hnone p k hk hid.symm
          rw [this] at hcur; cases hcur
        · exact h5 p k e' c hk he' hid hcur
    rw [genLoop]
    cases hcur : e.curve with
    | none => exact skip (fun _ _ _ _ => hcur)
    | some c =>
      simp only
      have hstep := ho c st hcur hinv
      cases hs : step e c st o with
      | none =>
        rw [hs] at hstep
        simp only
        refine skip (fun p k hk hid => ?_)
        exfalso
        obtain ⟨r, _, hr⟩ := group_rank e.id keys p k hk hid
        have hg : groupPoints e.id keys = [] := hstep
        rw [hg] at hr; simp at hr
      | some r =>
        rw [hs] at hstep
        obtain ⟨vs, st', rfl, hinv', hvs, hq⟩ := hstep
        simp only
        have hpar := group_parallel e.id keys
        have hsc := scatter_spec (keyIdxs e.id keys 0) vs res
          (keyIdxs_nodup e.id keys) (by rw [hvs, hpar.length_eq])
          (fun i hi => by rw [hl]; exact keyIdxs_lt e.id keys i hi)
        obtain ⟨s1, s2, s3⟩ := hsc
        obtain ⟨res', sts', h1, h2', h3, h4, h5⟩ := ih sts os
          (scatter res (keyIdxs e.id keys 0) vs) hnd' hst' hos' (by rw [s1, hl])
        refine ⟨res', st' :: sts', consState_ok h1, h2', .cons hinv' h3, ?_, ?_⟩
        · intro p k hk hall
          have hnot : p ∉ keyIdxs e.id keys 0 := by
            intro hp
            have := mem_keyIdxs_type e.id keys p k hp hk
            have := hall e List.mem_cons_self this.symm
            rw [hcur] at this; cases this
          rw [h4 p k hk (fun e' he' => hall e' (List.mem_cons_of_mem _ he')), s3 p hnot]
        · intro p k e' c' hk he' hid hcur'
          rcases List.mem_cons.mp he' with rfl | he'
          · rw [hcur] at hcur'; cases hcur'
            obtain ⟨r, hr1, hr2⟩ := group_rank e'.id keys p k hk hid.symm
            obtain ⟨kv, hkv, hqk⟩ := hq r k.pt hr2
            have hres1 : (scatter res (keyIdxs e'.id keys 0) vs)[p]? = some (some kv) :=
              s2 r p kv hr1 hkv
            have hkeep := h4 p k hk
              (fun e'' he'' hid'' => absurd (hid''.trans hid.symm) (hother e'' he''))
            exact ⟨kv, r, by rw [hkeep, hres1], hr1, hqk⟩
          · exact h5 p k e' c' hk he' hid hcur'

/-- `StepOKQ` without invariant and postcondition. -/
def StepOK (keys : List ECKey) (e : FEntry) (c : Curve)
    (r : Option (Except PyErr (List KV × EcState))) : Prop :=
  StepOKQ keys (fun _ _ => True) (fun _ _ _ _ _ => True) e c r

theorem stepOK_of {keys : List ECKey} {e : FEntry} {c : Curve} {vs : List KV} {st' : EcState}
    (h : vs.length = (groupPoints e.id keys).length) : StepOK keys e c (some (.ok (vs, st'))) := by
  refine ⟨vs, st', rfl, trivial, h, fun rk P hP => ?_⟩
  have hr : rk < vs.length := by
    rw [h]; by_contra hge; rw [List.getElem?_eq_none (by omega)] at hP; cases hP
  exact ⟨vs[rk], List.getElem?_eq_getElem hr, trivial⟩

theorem forall₂_true {α β} : ∀ {l1 : List α} {l2 : List β}, l2.length = l1.length →
    List.Forall₂ (fun _ _ => True) l1 l2
  | [], [], _ => .nil
  | [], _ :: _, h => by simp at h
  | _ :: _, [], h => by simp at h
  | _ :: _, _ :: _, h => .cons trivial (forall₂_true (by simpa using h))

/-- the loop never raises and writes an entry exactly for the keys whose curve id has a curve
object — for ANY `_table` states. -/
theorem genLoop_shape {ω : Type} (keys : List ECKey)
    (step : FEntry → Curve → EcState → ω → Option (Except PyErr (List KV × EcState))) :
    ∀ (f : Factory) (sts : List EcState) (os : List ω) (res : List KeyVerdict),
    (f.map (·.id)).Nodup → sts.length = f.length →
    List.Forall₂ (fun e o => ∀ c st, e.curve = some c → StepOK keys e c (step e c st o)) f os →
    res.length = keys.length →
    ∃ res' sts', genLoop keys step f sts os res = .ok (res', sts') ∧
      res'.length = keys.length ∧ sts'.length = f.length ∧
      (∀ (p : Nat) (k : ECKey), keys[p]? = some k →
        (∀ e ∈ f, e.id = k.curveType → e.curve = none) → res'[p]? = res[p]?) ∧
      (∀ (p : Nat) (k : ECKey) (e : FEntry) (c : Curve), keys[p]? = some k → e ∈ f →
        e.id = k.curveType → e.curve = some c → ∃ kv, res'[p]? = some (some kv)) := by
  intro f sts os res hnd hlen hos hl
  obtain ⟨res', sts', h1, h2, h3, h4, h5⟩ := genLoop_spec keys step (fun _ _ => True)
    (fun _ _ _ _ _ => True) f sts os res hnd (forall₂_true hlen)
    (hos.imp fun _ _ h c st hc _ => h c st hc) hl
  refine ⟨res', sts', h1, h2, h3.length_eq.symm, h4, ?_⟩
  intro p k e c hk he hid hcur
  obtain ⟨kv, _, hkv, _⟩ := h5 p k e c hk he hid hcur
  exact ⟨kv, hkv⟩

/-! ### the two checks as instances -/

/-- the group search of CheckWeakECPrivateKey (`if not keys: continue`). -/
def weakStep (bound : Nat) (keys : List ECKey) (e : FEntry) (c : Curve) (st : EcState)
    (o : Nat × Nat) : Option (Except PyErr (List KV × EcState)) :=
  if (groupPoints e.id keys).isEmpty then none
  else some (match extendedBatchDLB listImpl c bound st (groupPoints e.id keys) o.1 o.2 with
    | .error err => .error err
    | .ok (dls, st') => .ok (dls.map dlogVerdict, st'))

theorem weakKeyLoopB_eq_gen (bound : Nat) (keys : List ECKey) :
    ∀ (f : Factory) (sts : List EcState) (os : List (Nat × Nat)) (res : List KeyVerdict),
    EcAll.weakKeyLoopB listImpl bound keys f sts os res = genLoop keys (weakStep bound keys) f sts os res
  | [], _, _, _ => by rw [EcAll.weakKeyLoopB, genLoop] <;> simp
  | _ :: _, [], _, _ => by rw [EcAll.weakKeyLoopB, genLoop] <;> simp
  | _ :: _, _ :: _, [], _ => by rw [EcAll.weakKeyLoopB, genLoop] <;> simp
  | e :: es, st :: sts, o :: os, res => by
    rw [EcAll.weakKeyLoopB, genLoop]
    cases hcur : e.curve with
    | none => simp only; rw [weakKeyLoopB_eq_gen bound keys es sts os res]
    | some c =>
      simp only [weakStep]
      by_cases hg : (groupPoints e.id keys).isEmpty = true
      · rw [if_pos hg, if_pos hg]; simp only; rw [weakKeyLoopB_eq_gen bound keys es sts os res]
      · rw [if_neg hg, if_neg hg]
        cases hx : extendedBatchDLB listImpl c bound st (groupPoints e.id keys) o.1 o.2 with
        | error err => rfl
        | ok r =>
          obtain ⟨dls, st'⟩ := r
          simp only
          rw [weakKeyLoopB_eq_gen bound keys es sts os _]

/-- the group search of CheckECKeySmallDifference (no `continue`). -/
def diffStepE (maxDiff : Nat) (keys : List ECKey) (e : FEntry) (c : Curve) (st : EcState)
    (m : Nat) : Option (Except PyErr (List KV × EcState)) :=
  some (match batchDLOfDifferencesG listImpl c st (groupPoints e.id keys) [] maxDiff m with
    | .error err => .error err
    | .ok (rels, st') => .ok (rels.map diffVerdict, st'))

theorem smallDiffLoop_eq_gen (maxDiff : Nat) (keys : List ECKey) :
    ∀ (f : Factory) (sts : List EcState) (ms : List Nat) (res : List KeyVerdict),
    smallDiffLoop listImpl keys maxDiff f sts ms res = genLoop keys (diffStepE maxDiff keys) f sts ms res
  | [], _, _, _ => by rw [smallDiffLoop, genLoop] <;> simp
  | _ :: _, [], _, _ => by rw [smallDiffLoop, genLoop] <;> simp
  | _ :: _, _ :: _, [], _ => by rw [smallDiffLoop, genLoop] <;> simp
  | e :: es, st :: sts, m :: ms, res => by
    rw [smallDiffLoop, genLoop]
    cases hcur : e.curve with
    | none => simp only; rw [smallDiffLoop_eq_gen maxDiff keys es sts ms res]
    | some c =>
      simp only [diffStepE]
      cases hx : batchDLOfDifferencesG listImpl c st (groupPoints e.id keys) [] maxDiff m with
      | error err => rfl
      | ok r =>
        obtain ⟨rels, st'⟩ := r
        simp only
        rw [smallDiffLoop_eq_gen maxDiff keys es sts ms _]

theorem isAff_groupPoints (id : Nat) (keys : List ECKey) : ∀ P ∈ groupPoints id keys, IsAff P := by
  intro P hP
  unfold groupPoints at hP
  obtain ⟨k, _, rfl⟩ := List.mem_map.mp hP
  trivial

/-! ### check level: every factory of valid curve objects, ANY keys, ANY `_table` states -/

/-- every curve object of the factory is valid (prime field, evaluated parameter check, invertible
multipliers): C11 / C10 for the nine named curves (`regenFactory_curveHyp`). -/
def FactoryHyp (f : Factory) : Prop := ∀ e ∈ f, ∀ c, e.curve = some c → CurveHyp c

/-- what a check leaves in the batch: one slot per key; no entry for a key whose curve id has no
curve object, an entry for every other key. -/
def RowShape (f : Factory) (keys : List ECKey) (res : List KeyVerdict) : Prop :=
  res.length = keys.length ∧
  (∀ (p : Nat) (k : ECKey), keys[p]? = some k → factoryGet f k.curveType = none → res[p]? = some none) ∧
  (∀ (p : Nat) (k : ECKey) (c : Curve), keys[p]? = some k → factoryGet f k.curveType = some c →
    ∃ kv, res[p]? = some (some kv))

theorem factoryGet_eq_of_mem {f : Factory} (hnd : (f.map (·.id)).Nodup) {e : FEntry} (he : e ∈ f) :
    factoryGet f e.id = e.curve := by
  induction f with
  | nil => cases he
  | cons e' es ih =>
    rw [List.map_cons, List.nodup_cons] at hnd
    rw [factoryGet]
    rcases List.mem_cons.mp he with rfl | he
    · rw [if_pos rfl]
    · have : e'.id ≠ e.id := fun h => hnd.1 (List.mem_map.mpr ⟨e, he, h.symm⟩)
      rw [if_neg this]
      exact ih hnd.2 he

theorem rowShape_of_gen {f : Factory} (hnd : (f.map (·.id)).Nodup) {keys : List ECKey}
    {res : List KeyVerdict} (h2 : res.length = keys.length)
    (h4 : ∀ (p : Nat) (k : ECKey), keys[p]? = some k →
      (∀ e ∈ f, e.id = k.curveType → e.curve = none) →
      res[p]? = (List.replicate keys.length (none : KeyVerdict))[p]?)
    (h5 : ∀ (p : Nat) (k : ECKey) (e : FEntry) (c : Curve), keys[p]? = some k → e ∈ f →
      e.id = k.curveType → e.curve = some c → ∃ kv, res[p]? = some (some kv)) :
    RowShape f keys res := by
  refine ⟨h2, ?_, ?_⟩
  · intro p k hk hg
    rw [h4 p k hk (fun e he hid => by rw [← factoryGet_eq_of_mem hnd he, hid]; exact hg)]
    have hp : p < keys.length := (List.getElem?_eq_some_iff.mp hk).1
    rw [List.getElem?_replicate, if_pos hp]
  · intro p k c hk hg
    obtain ⟨e, he, hid, hcur⟩ := factoryGet_mem hg
    exact h5 p k e c hk he hid hcur

theorem forall₂_imp_mem {α β} {R S : α → β → Prop} : ∀ {l1 : List α} {l2 : List β},
    List.Forall₂ R l1 l2 → (∀ a ∈ l1, ∀ b, R a b → S a b) → List.Forall₂ S l1 l2
  | _, _, .nil, _ => .nil
  | _, _, .cons hab h, himp =>
    .cons (himp _ List.mem_cons_self _ hab)
      (forall₂_imp_mem h (fun a ha b hr => himp a (List.mem_cons_of_mem _ ha) b hr))

/-- ★ **CheckWeakECPrivateKey is total on arbitrary coordinates.** Every factory of valid curve
objects, every `_table` state (one per curve object), every bound, every batch of keys — any
natural-number coordinates, any mixture of curve ids — with float oracles `≥ 1` for the non-empty
groups: the check returns, with an entry exactly for the keys on known curves. -/
theorem checkWeakECPrivateKeyB_total_any (bound : Nat) (f : Factory) (hf : FactoryHyp f)
    (hnd : (f.map (·.id)).Nodup) (sts : List EcState) (hlen : sts.length = f.length)
    (orc : List (Nat × Nat)) (keys : List ECKey)
    (horc : List.Forall₂ (fun (e : FEntry) (x : Nat × Nat) =>
      groupPoints e.id keys ≠ [] → 1 ≤ x.1 ∧ 1 ≤ x.2) f orc) :
    ∃ res sts', EcAll.checkWeakECPrivateKeyB listImpl bound f sts orc keys = .ok (res, sts') ∧
      sts'.length = f.length ∧ RowShape f keys res := by
  have hstep : List.Forall₂ (fun e o => ∀ c st, e.curve = some c →
      StepOK keys e c (weakStep bound keys e c st o)) f orc := by
    refine forall₂_imp_mem horc ?_
    intro e he o ho c st hcur
    obtain ⟨hprime, hparams, hmults⟩ := hf e he c hcur
    haveI : Fact (Nat.Prime c.p) := ⟨hprime⟩
    obtain ⟨h1, h2, _, _, _, _⟩ := generator_of_paramsOK c hparams
    obtain ⟨h7, h8⟩ := reduced_of_paramsOK c hparams
    unfold weakStep
    by_cases hg : (groupPoints e.id keys).isEmpty = true
    · rw [if_pos hg]; exact List.isEmpty_iff.mp hg
    · rw [if_neg hg]
      have hne : groupPoints e.id keys ≠ [] := fun h => hg (by rw [h]; rfl)
      obtain ⟨ho1, ho2⟩ := ho hne
      obtain ⟨res, st', hr, hl⟩ := extendedBatchDLB_total_any c h1 h2 h7 h8 (multipliersOK_of_b hmults)
        bound st (groupPoints e.id keys) o.1 o.2 ho1 (fun _ => ho2)
      rw [hr]
      exact stepOK_of (by rw [List.length_map, hl])
  obtain ⟨res', sts', h1, h2, h3, h4, h5⟩ := genLoop_shape keys (weakStep bound keys) f sts orc
    (List.replicate keys.length none) hnd hlen hstep (by simp)
  refine ⟨res', sts', ?_, h3, rowShape_of_gen hnd h2 h4 h5⟩
  rw [EcAll.checkWeakECPrivateKeyB, weakKeyLoopB_eq_gen]
  exact h1

/-- ★ **CheckECKeySmallDifference is total on arbitrary coordinates** (same quantification; the
float oracle `int(math.sqrt(max_diff))` is `≥ 1` when `max_diff ≥ 1`). -/
theorem checkECKeySmallDifference_total_any (maxDiff : Nat) (f : Factory) (hf : FactoryHyp f)
    (hnd : (f.map (·.id)).Nodup) (sts : List EcState) (hlen : sts.length = f.length)
    (ms : List Nat) (keys : List ECKey)
    (hms : List.Forall₂ (fun (_ : FEntry) (m : Nat) => 0 < maxDiff → 1 ≤ m) f ms) :
    ∃ res sts', checkECKeySmallDifferenceG listImpl f sts ms keys maxDiff = .ok (res, sts') ∧
      sts'.length = f.length ∧ RowShape f keys res := by
  have hstep : List.Forall₂ (fun e o => ∀ c st, e.curve = some c →
      StepOK keys e c (diffStepE maxDiff keys e c st o)) f ms := by
    refine forall₂_imp_mem hms ?_
    intro e he m hm c st hcur
    obtain ⟨hprime, hparams, _⟩ := hf e he c hcur
    haveI : Fact (Nat.Prime c.p) := ⟨hprime⟩
    obtain ⟨h1, h2, _, _, _, _⟩ := generator_of_paramsOK c hparams
    unfold diffStepE
    obtain ⟨rels, st', hr, hl⟩ := batchDLOfDifferences_total_any c h1 h2 st (groupPoints e.id keys) []
      (isAff_groupPoints e.id keys) (fun _ h => by simp at h) maxDiff m (fun h => hm (by omega))
    rw [hr]
    exact stepOK_of (by rw [List.length_map, hl])
  obtain ⟨res', sts', h1, h2, h3, h4, h5⟩ := genLoop_shape keys (diffStepE maxDiff keys) f sts ms
    (List.replicate keys.length none) hnd hlen hstep (by simp)
  refine ⟨res', sts', ?_, h3, rowShape_of_gen hnd h2 h4 h5⟩
  rw [checkECKeySmallDifferenceG, smallDiffLoop_eq_gen]
  exact h1

end Paranoid.Bsgs
