/-
Proofs/EcTotalAll.lean — the entry-point models `checkAllECFull` / `checkAllECDSASigsFull` are total
on ARBITRARY coordinates and issuer keys (review finding F2), for every `ExtendedBatchDL` bound
(F16) and without the hypothesis `FieldPrimes` (F4: discharged here from C11Primes).

`ECWF'` / `SigWF'` are `ECWF` / `SigWF` of Proofs/EcAll.lean WITHOUT the clauses
  * `points`  (every key on a known curve is on the curve and reduced),
  * `states` / `tables` reachable (`StatesOK`: replaced by "one `_table` state per curve object"),
  * `inner`'s `points` (valid issuer keys).
What remains are conditions on ORACLES only (float values `≥ 1`, `set` orders are enumerations),
on the curve objects (those of `CURVE_FACTORY`), and — for the nonce checks — `gcd(s, n) = 1`.
-/
import ParanoidModel.Proofs.EcAll
import ParanoidModel.Proofs.EcTotal
import ParanoidModel.Proofs.EcTotalSolver
import ParanoidModel.Props.C11Primes
import ParanoidModel.Proofs.EcAllPrimes
namespace Paranoid.EcAll
open Paranoid Paranoid.Ec Paranoid.Bsgs

/-! ### the field moduli of the nine curves are prime (kernel-checked Pratt certificates) -/

-- `fieldPrimes : FieldPrimes` is proved in Proofs/EcAllPrimes.lean (from the C11Primes certificates).

theorem ecFactory_hyp : FactoryHyp ecFactory := regenFactory_curveHyp fieldPrimes

/-! ### CheckAllEC -/

/-- Well-formed `CheckAllEC` call WITHOUT any condition on the keys or on the cached tables: one
`_table` state per `CURVE_FACTORY` item (whatever it contains), float oracles `≥ 1` where a table is
(re)built. -/
structure ECWF' (p : EcParams) (o : EcOracle) (sts : List EcState) (arts : List Artifact) : Prop where
  len : sts.length = ecFactory.length
  wk : List.Forall₂ (fun (e : FEntry) (x : Nat × Nat) =>
    groupPoints e.id (arts.map keyOf) ≠ [] → 1 ≤ x.1 ∧ 1 ≤ x.2) ecFactory o.wk
  sd : List.Forall₂ (fun (_ : FEntry) (m : Nat) => 0 < p.maxDiff → 1 ≤ m) ecFactory o.sd

theorem statesOK_length : ∀ {f : Factory} {sts : List EcState}, StatesOK f sts → sts.length = f.length
  | [], [], _ => rfl
  | [], _ :: _, h => by simp [StatesOK] at h
  | _ :: _, [], h => by simp [StatesOK] at h
  | _ :: es, _ :: sts, h => by simp [statesOK_length h.2]

/-- `ECWF` is `ECWF'` plus conditions. -/
theorem ECWF.weaken {p : EcParams} {o : EcOracle} {sts : List EcState} {arts : List Artifact}
    (h : ECWF p o sts arts) : ECWF' p o sts arts := ⟨statesOK_length h.states, h.wk, h.sd⟩

theorem shape_row {c : CheckSpec} {arts : List Artifact} {row : List Bsgs.KeyVerdict}
    (happ : ∀ a, applicable c a = (factoryGet ecFactory a.curve).isSome)
    (h : RowShape ecFactory (arts.map keyOf) row) : rowOK c arts row = true := by
  obtain ⟨hl, hn, hs⟩ := h
  apply rowOK_of (by rw [hl, List.length_map])
  intro n a kvo ha hkvo
  rw [happ a]
  cases hg : factoryGet ecFactory a.curve with
  | none =>
    rw [hn n (keyOf a) (keys_getElem? ha) hg] at hkvo
    cases hkvo; rfl
  | some c' =>
    obtain ⟨kv, hkv⟩ := hs n (keyOf a) c' (keys_getElem? ha) hg
    rw [hkv] at hkvo
    cases hkvo; rfl

/-- the four registered EC checks never raise and agree with the bookkeeping layer about which keys
get an entry: ANY keys, ANY `_table` states, ANY bound and `max_diff`. -/
theorem ecRowsG_total_any (p : EcParams) (o : EcOracle) (sts : List EcState) (arts : List Artifact)
    (hwf : ECWF' p o sts arts) :
    ∃ rows sts', ecRowsG listImpl p o sts arts = .ok (rows, sts') ∧ sts'.length = ecFactory.length := by
  have hnd := ecFactory_nodup
  have h1 : checkValidECKey ecFactory (arts.map keyOf) = _ := C06.checkValidECKey_factory _
  obtain ⟨row3, sts3, h3, l3, s3⟩ := checkWeakECPrivateKeyB_total_any p.bound ecFactory ecFactory_hyp
    hnd sts hwf.len o.wk (arts.map keyOf) hwf.wk
  obtain ⟨row4, sts4, h4, l4, s4⟩ := checkECKeySmallDifference_total_any p.maxDiff ecFactory
    ecFactory_hyp hnd sts3 l3 o.sd (arts.map keyOf) hwf.sd
  have hshape : shapeOK ecAll arts [(arts.map keyOf).map fun k => some ⟨invalidKeySpec regenFactory k, none⟩,
      checkWeakCurve ecFactory (arts.map keyOf), row3, row4] = true := by
    rw [ecAll_eq]
    simp only [shapeOK, Bool.not_false, Bool.true_and, Bool.and_true, Bool.and_eq_true]
    refine ⟨?_, ?_, ?_, ?_⟩
    · apply rowOK_of (by simp)
      intro n a kvo ha hkvo
      rw [(applicable_ec a).1]
      simp only [List.getElem?_map, ha, Option.map_some, Option.some.injEq] at hkvo
      rw [← hkvo]; rfl
    · apply rowOK_of (by simp [checkWeakCurve])
      intro n a kvo ha hkvo
      rw [(applicable_ec a).2.1]
      simp only [checkWeakCurve, List.getElem?_map, ha, Option.map_some, Option.some.injEq,
        weakCurveOne] at hkvo
      rw [← hkvo]
      simp only [keyOf]
      cases factoryGet ecFactory a.curve <;> rfl
    · exact shape_row (fun a => (applicable_ec a).2.2.1) s3
    · exact shape_row (fun a => (applicable_ec a).2.2.2) s4
  refine ⟨[(arts.map keyOf).map fun k => some ⟨invalidKeySpec regenFactory k, none⟩,
    checkWeakCurve ecFactory (arts.map keyOf), row3, row4], sts4, ?_, l4⟩
  unfold ecRowsG
  rw [ecVerdictsG_ecAll, h1]
  simp only
  rw [h3]
  simp only
  rw [h4]
  simp only
  rw [if_pos hshape]

/-! ### CheckAllECDSASigs -/

/-- Well-formed `CheckAllECDSASigs` call WITHOUT any condition on the issuer keys or on the cached
tables: valid curve objects that are those of `CURVE_FACTORY` up to `_cache`; one `_table` state per
`CURVE_FACTORY` item; `list(set)` order oracles that are enumerations; `s` invertible modulo the
curve order for signatures with a known curve; float oracles of the inner `CheckAllEC` `≥ 1`. -/
structure SigWF' (p : EcParams) (O : SigOracle) (st : SigState XTable) (sarts : List SigArt) : Prop where
  factory : EcdsaChecks.FactoryOK st.factory
  curves : curvesOf st.factory = curvesOf EcdsaChecks.namedFactory
  tables : st.tables.length = ecFactory.length
  uniq : ∀ j c k, ecdsaAll[j]? = some c → kindOfName c.name = some k →
    EcdsaChecks.UniqConsistent (O.solver j) (sarts.map SigArt.sig) EcdsaChecks.namedFactory
  sInv : ∀ sa ∈ sarts, ∀ obj, (sa.sig.curve, some obj) ∈ EcdsaChecks.namedFactory →
    Int.gcd (bytes2int sa.sig.s : Int) obj.curve.n = 1
  innerWk : ∀ j c, ecdsaAll[j]? = some c → c.issuer = true →
    List.Forall₂ (fun (e : FEntry) (x : Nat × Nat) =>
      groupPoints e.id ((issuerKeys .repaired (sarts.map SigArt.art)).map keyOf) ≠ [] →
        1 ≤ x.1 ∧ 1 ≤ x.2) ecFactory (O.floats j).wk
  innerSd : ∀ j c, ecdsaAll[j]? = some c → c.issuer = true →
    List.Forall₂ (fun (_ : FEntry) (m : Nat) => 0 < p.maxDiff → 1 ≤ m) ecFactory (O.floats j).sd

/-- `SigWF` is `SigWF'` plus conditions. -/
theorem SigWF.weaken {p : EcParams} {O : SigOracle} {st : SigState XTable} {sarts : List SigArt}
    (h : SigWF p O st sarts) : SigWF' p O st sarts :=
  ⟨h.factory, h.curves, statesOK_length h.tables, h.uniq, h.sInv,
   fun j c hj hi => (h.inner j c hj hi st.tables h.tables).wk,
   fun j c hj hi => (h.inner j c hj hi st.tables h.tables).sd⟩

/-- the part of `SigWF'` that is an invariant of the curve objects. -/
def TotInv' (st : SigState XTable) : Prop :=
  EcdsaChecks.FactoryOK st.factory ∧ curvesOf st.factory = curvesOf EcdsaChecks.namedFactory ∧
  st.tables.length = ecFactory.length

/-- a nonce-check step IS a successful run of the check model `EcdsaChecks.check` from the curve
objects `st.factory`; its recorded solver calls are those of that run. -/
def StepFrom (O : SigOracle) (sigs : List EcdsaChecks.Sig) (c : CheckSpec) (j : Nat)
    (st : SigState XTable) (out : StepOut) : Prop :=
  ∀ writes calls, out = .direct writes calls → ∃ k res, kindOfName c.name = some k ∧
    EcdsaChecks.check k (O.solver j) st.factory sigs = .ok res ∧ calls = res.calls

theorem runSigStepG_total_any {p : EcParams} {O : SigOracle}
    {st0 : SigState XTable} {sarts : List SigArt} (hwf : SigWF' p O st0 sarts)
    (j : Nat) (c : CheckSpec) (hj : ecdsaAll[j]? = some c) (st : SigState XTable) (hi : TotInv' st) :
    ∃ out st', runSigStepG listImpl p O (sarts.map SigArt.art) (sarts.map SigArt.sig) c j st =
      .ok (out, st') ∧ TotInv' st' ∧ StepFrom O (sarts.map SigArt.sig) c j st out := by
  obtain ⟨hF, hcur, htab⟩ := hi
  have hmem := List.mem_of_getElem? hj
  cases hiss : c.issuer with
  | true =>
    obtain ⟨hname, _⟩ := (ecdsaAll_flags c hmem).2 hiss
    obtain ⟨rows, sts', hrows, hst'⟩ := ecRowsG_total_any p (O.floats j) st.tables
      (issuerKeys .repaired (sarts.map SigArt.art))
      ⟨htab, hwf.innerWk j c hj hiss, hwf.innerSd j c hj hiss⟩
    refine ⟨.inner rows, ⟨sts', st.factory⟩, ?_, ⟨hF, hcur, hst'⟩, fun _ _ h => by cases h⟩
    unfold runSigStepG
    rw [if_pos hname, if_pos hiss, hrows]
  | false =>
    obtain ⟨hname, hneeds, k, hk⟩ := ecdsaAll_kinds c hmem hiss
    have hnd : (st.factory.map Prod.fst).Nodup := by
      rw [curvesOf_ids hcur]; exact C02S.namedFactory_ids.1
    have huniq : EcdsaChecks.UniqConsistent (O.solver j) (sarts.map SigArt.sig) st.factory := by
      intro cid obj hm hne
      obtain ⟨obj0, hm0, hc0⟩ := curvesOf_mem hcur hm
      have := hwf.uniq j c k hj hk cid obj0 hm0 hne
      rw [hc0] at this
      exact this
    have hs : k ≠ .cr50 → ∀ s ∈ sarts.map SigArt.sig, ∀ obj, (s.curve, some obj) ∈ st.factory →
        Int.gcd (bytes2int s.s : Int) obj.curve.n = 1 := by
      intro _ s hs obj hm
      obtain ⟨sa, hsa, rfl⟩ := List.mem_map.mp hs
      obtain ⟨obj0, hm0, hc0⟩ := curvesOf_mem hcur hm
      rw [← hc0]
      exact hwf.sInv sa hsa obj0 hm0
    obtain ⟨res, hres⟩ := C02S.check_total k (O.solver j) st.factory _ hF huniq hs
    obtain ⟨_, p2, _⟩ := C02S.check_preserves k (O.solver j) st.factory _ res hF hres
    have hcur' : curvesOf res.factory = curvesOf EcdsaChecks.namedFactory := by
      rw [checkLoop_curves k (O.solver j) _ st.factory res hres, hcur]
    have hw : writesOK c (sarts.map SigArt.art) res.writes = true := by
      unfold writesOK
      rw [hiss, Bool.not_false, Bool.true_and, List.all_eq_true]
      rintro ⟨a, i⟩ hm
      have hai : (sarts.map SigArt.art)[i]? = some a := by
        have := List.mem_zipIdx hm
        simp only [Nat.zero_le, Nat.zero_add, Nat.sub_zero, true_and] at this
        rw [List.getElem?_eq_getElem this.1]; exact congrArg some this.2.symm
      rw [List.getElem?_map] at hai
      cases hsa : sarts[i]? with
      | none => rw [hsa] at hai; cases hai
      | some sa =>
        rw [hsa] at hai
        simp only [Option.map_some, Option.some.injEq] at hai
        subst hai
        simp only [beq_iff_eq]
        have happ : applicable c sa.art = Consts.knownCurves.contains sa.sig.curve := by
          simp [applicable, hneeds, known, SigArt.art]
        rw [happ]
        obtain ⟨_, hidx⟩ := C02S.writes_by_index k (O.solver j) st.factory _ res hnd hres
        apply Bool.eq_iff_iff.mpr
        rw [Option.isSome_iff_ne_none, Ne, EcdsaChecks.verdictOf_none, Classical.not_not, hidx,
          ← named_known]
        constructor
        · rintro ⟨s, obj, hs', hm'⟩
          rw [List.getElem?_map, hsa] at hs'
          simp only [Option.map_some, Option.some.injEq] at hs'
          subst hs'
          obtain ⟨obj0, hm0, _⟩ := curvesOf_mem hcur hm'
          exact ⟨obj0, hm0⟩
        · rintro ⟨obj0, hm0⟩
          obtain ⟨obj, hm', _⟩ := curvesOf_mem hcur.symm hm0
          exact ⟨sa.sig, obj, by rw [List.getElem?_map, hsa]; rfl, hm'⟩
    refine ⟨.direct res.writes res.calls, ⟨st.tables, res.factory⟩, ?_, ⟨p2, hcur', htab⟩,
      fun _ _ h => by cases h; exact ⟨k, res, hk, hres, rfl⟩⟩
    unfold runSigStepG
    rw [if_neg hname, hk]
    simp only
    rw [hres]
    simp only
    rw [if_pos hw]

theorem sigStepsG_total_any {p : EcParams} {O : SigOracle}
    {st0 : SigState XTable} {sarts : List SigArt} (hwf : SigWF' p O st0 sarts) :
    ∀ (l : List (CheckSpec × Nat)), (∀ cj ∈ l, ecdsaAll[cj.2]? = some cj.1) →
    ∀ (st : SigState XTable), TotInv' st →
    ∃ outs st', sigStepsG listImpl p O (sarts.map SigArt.art) (sarts.map SigArt.sig) l st =
      .ok (outs, st') ∧ TotInv' st' ∧
      List.Forall₂ (fun (cj : CheckSpec × Nat) out => ∃ sti, TotInv' sti ∧
        StepFrom O (sarts.map SigArt.sig) cj.1 cj.2 sti out) l outs := by
  intro l
  induction l with
  | nil => intro _ st hi; exact ⟨[], st, rfl, hi, .nil⟩
  | cons cj rest ih =>
    intro hl st hi
    obtain ⟨out, st1, h1, hi1, hs1⟩ := runSigStepG_total_any hwf cj.2 cj.1 (hl cj List.mem_cons_self) st hi
    obtain ⟨outs, st2, h2, hi2, hf⟩ := ih (fun x hx => hl x (List.mem_cons_of_mem _ hx)) st1 hi1
    refine ⟨out :: outs, st2, ?_, hi2, .cons ⟨st, hi, hs1⟩ hf⟩
    rw [sigStepsG, h1]
    simp only
    rw [h2]

/-! ### the nonce checks composed with the solver models, at the entry point -/

/-- the orders of the nine named curves are odd primes (kernel-checked Pratt certificates). -/
theorem named_orders : ∀ cid obj, (cid, some obj) ∈ EcdsaChecks.namedFactory →
    obj.curve.n.Prime ∧ obj.curve.n ≠ 2 := by
  intro cid obj hm
  rw [C02S.namedFactory_eq] at hm
  simp only [List.mem_cons, Prod.mk.injEq, Option.some.injEq, reduceCtorEq, and_false,
    List.not_mem_nil, or_false] at hm
  rcases hm with ⟨_, rfl⟩ | ⟨_, rfl⟩ | ⟨_, rfl⟩ | ⟨_, rfl⟩ | ⟨_, rfl⟩ | ⟨_, rfl⟩ | ⟨_, rfl⟩ |
    ⟨_, rfl⟩ | ⟨_, rfl⟩
  · exact ⟨C11Primes.secp256r1_n_prime, by decide⟩
  · exact ⟨C11Primes.secp384r1_n_prime, by decide⟩
  · exact ⟨C11Primes.secp192r1_n_prime, by decide⟩
  · exact ⟨C11Primes.secp224r1_n_prime, by decide⟩
  · exact ⟨C11Primes.secp521r1_n_prime, by decide⟩
  · exact ⟨C11Primes.secp256k1_n_prime, by decide⟩
  · exact ⟨C11Primes.brainpoolP256r1_n_prime, by decide⟩
  · exact ⟨C11Primes.brainpoolP384r1_n_prime, by decide⟩
  · exact ⟨C11Primes.brainpoolP512r1_n_prime, by decide⟩

/-- Well-formed `CheckAllECDSASigs` call in the PROPERTY's terms: `SigWF'` with "`s` invertible"
replaced by `r, s ∈ [1, n-1]` for every signature whose curve id is known. Nothing about the hash,
nothing about the issuer key. -/
structure SigWFR (p : EcParams) (O : SigOracle) (st : SigState XTable) (sarts : List SigArt) : Prop where
  factory : EcdsaChecks.FactoryOK st.factory
  curves : curvesOf st.factory = curvesOf EcdsaChecks.namedFactory
  tables : st.tables.length = ecFactory.length
  uniq : ∀ j c k, ecdsaAll[j]? = some c → kindOfName c.name = some k →
    EcdsaChecks.UniqConsistent (O.solver j) (sarts.map SigArt.sig) EcdsaChecks.namedFactory
  range : ∀ sa ∈ sarts, ∀ obj, (sa.sig.curve, some obj) ∈ EcdsaChecks.namedFactory →
    EcdsaChecks.SigRange obj.curve.n sa.sig
  innerWk : ∀ j c, ecdsaAll[j]? = some c → c.issuer = true →
    List.Forall₂ (fun (e : FEntry) (x : Nat × Nat) =>
      groupPoints e.id ((issuerKeys .repaired (sarts.map SigArt.art)).map keyOf) ≠ [] →
        1 ≤ x.1 ∧ 1 ≤ x.2) ecFactory (O.floats j).wk
  innerSd : ∀ j c, ecdsaAll[j]? = some c → c.issuer = true →
    List.Forall₂ (fun (_ : FEntry) (m : Nat) => 0 < p.maxDiff → 1 ≤ m) ecFactory (O.floats j).sd

theorem SigWFR.toWF' {p : EcParams} {O : SigOracle} {st : SigState XTable} {sarts : List SigArt}
    (h : SigWFR p O st sarts) : SigWF' p O st sarts :=
  ⟨h.factory, h.curves, h.tables, h.uniq,
   fun sa hsa obj hobj => by
     obtain ⟨_, _, h1, h2⟩ := h.range sa hsa obj hobj
     exact C02S.wf_of_range _ (named_orders _ obj hobj).1 _ h1 h2,
   h.innerWk, h.innerSd⟩

theorem factoryN_curvesOf : ∀ {f g : EcdsaChecks.Factory}, curvesOf f = curvesOf g →
    EcdsaChecks.factoryN f = EcdsaChecks.factoryN g
  | [], [], _ => rfl
  | [], _ :: _, h => by simp [curvesOf] at h
  | _ :: _, [], h => by simp [curvesOf] at h
  | (c1, o1) :: f, (c2, o2) :: g, h => by
    simp only [curvesOf, List.map_cons, List.cons.injEq, Prod.mk.injEq] at h
    obtain ⟨⟨rfl, ho⟩, hrest⟩ := h
    have ih := factoryN_curvesOf (f := f) (g := g) hrest
    funext cid
    simp only [EcdsaChecks.factoryN, ih]
    have : o1.map (fun obj => obj.curve.n) = o2.map (fun obj => obj.curve.n) := by
      cases o1 <;> cases o2 <;> simp_all
    rw [this]

def kindOKb : EcdsaChecks.Kind → Bool
  | .biased (.bias b) => (EcdsaChecks.biasOfNat b).isSome
  | .biased (.lcg _ flags) => !(EcdsaChecks.flagsOfNat flags).none
  | .cr50 => true

theorem kindOK_of_b {k : EcdsaChecks.Kind} (h : kindOKb k = true) : EcdsaChecks.KindOK k := by
  cases k with
  | cr50 => trivial
  | biased m =>
    cases m with
    | bias b => exact h
    | lcg name flags =>
      simp only [kindOKb, Bool.not_eq_true'] at h
      exact h

/-- the constructor arguments of the seven registered nonce checks are enum members. -/
theorem ecdsaAll_kindOK : ∀ c ∈ ecdsaAll, ∀ k, kindOfName c.name = some k → EcdsaChecks.KindOK k := by
  have h : ∀ c ∈ ecdsaAll, (match kindOfName c.name with
      | some k => kindOKb k
      | none => true) = true := by
    rw [ecdsaAll_eq]; decide
  intro c hc k hk
  have := h c hc
  rw [hk] at this
  exact kindOK_of_b this

/-- every solver call recorded by a nonce-check step that started from curve objects satisfying the
invariant has well-formed arguments, hence the solver MODEL returns on it. -/
theorem step_calls_solved {p : EcParams} {O : SigOracle} {st0 : SigState XTable}
    {sarts : List SigArt} (hwf : SigWFR p O st0 sarts) (lcg : List LcgMeta)
    (hlcg : ∀ m ∈ lcg, Hnp.MetaOk m) (S : EcdsaChecks.SolverOracle)
    (hS : ∀ cid j kk, EcdsaChecks.LllShape (S cid j kk))
    (j : Nat) (c : CheckSpec) (hj : ecdsaAll[j]? = some c) (sti : SigState XTable)
    (hi : TotInv' sti) (out : StepOut) (hstep : StepFrom O (sarts.map SigArt.sig) c j sti out)
    (writes : List (Nat × Verdict)) (calls : List (Nat × List (List EcdsaChecks.Call)))
    (hout : out = .direct writes calls) :
    ∃ a, EcdsaChecks.solveAll (EcdsaChecks.envOf lcg EcdsaChecks.namedFactory) S calls = .ok a := by
  obtain ⟨hF, hcur, _⟩ := hi
  obtain ⟨k, res, hk, hres, rfl⟩ := hstep writes calls hout
  have hnd : (sti.factory.map Prod.fst).Nodup := by
    rw [curvesOf_ids hcur]; exact C02S.namedFactory_ids.1
  have huniq : EcdsaChecks.UniqConsistent (O.solver j) (sarts.map SigArt.sig) sti.factory := by
    intro cid obj hm hne
    obtain ⟨obj0, hm0, hc0⟩ := curvesOf_mem hcur hm
    have := hwf.uniq j c k hj hk cid obj0 hm0 hne
    rw [hc0] at this
    exact this
  have hwfc := EcdsaChecks.check_calls_wf (EcdsaChecks.envOf lcg EcdsaChecks.namedFactory) k
    (ecdsaAll_kindOK c (List.mem_of_getElem? hj) k hk) (O.solver j) sti.factory _ res hres
    (fun cid obj hm => by
      obtain ⟨obj0, hm0, hc0⟩ := curvesOf_mem hcur hm
      have := named_orders cid obj0 hm0
      rw [hc0] at this
      refine ⟨this.1, this.2, ?_⟩
      show EcdsaChecks.factoryN EcdsaChecks.namedFactory cid = _
      rw [← factoryN_curvesOf hcur]
      exact EcdsaChecks.factoryN_of_mem hnd hm)
    huniq
    (fun s hs obj hm => by
      obtain ⟨sa, hsa, rfl⟩ := List.mem_map.mp hs
      obtain ⟨obj0, hm0, hc0⟩ := curvesOf_mem hcur hm
      rw [← hc0]
      exact hwf.range sa hsa obj0 hm0)
  exact EcdsaChecks.solveAll_total _ hlcg S hS res.calls hwfc

end Paranoid.EcAll
