/-
Proofs/EcTotalComplete.lean — C10 / C02 for `ExtendedBatchDL` and `CheckWeakECPrivateKey` WITHOUT the
hypothesis that the OTHER keys of the batch are on the curve (review finding F2, last sentence):
the discrete-log searches treat every point independently (`BatchDL`: one `BatchAddX(p, list_c)` scan
per point; `ExtendedBatchDL`: one `Multiply(point, inverse)` per point and multiplier), so what is
proved about an on-curve (and reduced) key holds whatever its neighbours are — off the curve,
unreduced, `(0,0)`, coordinates `≥ p`.

Still needed (and true of every state earlier calls can leave): the cached table is a table
(`StateOK` / `TableIs`) — completeness reads it.
-/
import ParanoidModel.Proofs.EcTotal
import ParanoidModel.Proofs.EcAll
namespace Paranoid.Bsgs
open Paranoid Paranoid.Ec WeierstrassCurve

section group
variable (c : Curve) [hp : Fact (Nat.Prime c.p)]

/-- `batchDLCore_total` for arbitrary points, keeping the giant-step list. -/
theorem batchDLCore_total_list (hc : c.Good) (hG : onCurve c c.g = true) (hGr : Reduced c c.g)
    (look : Lookup) (points : List Pt) (n ts : Nat) (hts : 1 ≤ ts) :
    ∃ res listC, batchDLCore c look points n ts = .ok res ∧
      ListCOK c (2 * (ts : Int) - 1) (2 + n / (2 * ts - 1)) listC ∧
      List.Forall₂ (fun P r => dlPoint c look (2 * (ts : Int) - 1) listC P = .ok r) points res := by
  have hgs : 0 < 2 + n / (2 * ts - 1) := Nat.add_pos_left (by decide) _
  obtain ⟨b, listC, hb, hl1, hl2⟩ := listC_spec c hc hG hGr (2 * (ts : Int) - 1)
    (2 + n / (2 * ts - 1)) hgs
  obtain ⟨res, hres⟩ := forE_total (f := dlPoint c look (2 * (ts : Int) - 1) listC) (l := points)
    (fun P _ => dlPoint_total_any c hc hG look _ listC P)
  refine ⟨res, listC, ?_, hl2, forE_ok hres⟩
  unfold batchDLCore
  rw [hb]
  simp only
  rw [giantSteps_eq n ts hts, pointSequenceI, if_neg (by exact_mod_cast Nat.not_le.mpr hgs),
    Int.toNat_natCast, hl1]
  exact hres

/-- **BatchDL completeness with arbitrary neighbours**: as `batchDL_complete`, for ANY list of points;
the statement about an entry needs only THAT point on the curve. -/
theorem batchDL_complete_any (hc : c.Good) (hG : onCurve c c.g = true) (hGr : Reduced c c.g)
    (st : EcState) (V : Nat) (hst : StateOK c st V) (points : List Pt)
    (n ts m : Nat) (hts : 1 ≤ ts) (hm : st.tableSize < ts → 1 ≤ m) :
    ∃ res st', batchDL c st points n ts m = .ok (res, st') ∧
      StateOK c st' (rangeAfter st V ts m) ∧ st'.tableSize = max st.tableSize ts ∧
      (ts ≤ st.tableSize → st' = st) ∧
      List.Forall₂ (fun P r => ∀ x : Nat, onCurve c P = true → Reduced c P → x < n →
        toPoint c P = x • Gp c →
        ∃ v : Int, r = some v ∧ v • Gp c = toPoint c P ∧
          (addOrderOf (Gp c) = c.n → 2 * n + (2 * ts - 1) + rangeAfter st V ts m ≤ c.n → v = (x : Int)))
        points res := by
  obtain ⟨st1, h1, hst1, hsz, hsame⟩ := ensureTable_spec c hc hG st V hst ts m hm
  obtain ⟨res, listC, hres, hl, hall⟩ := batchDLCore_total_list c hc hG hGr (st1.table.get?) points n ts hts
  refine ⟨res, st1, ?_, hst1, hsz, hsame, ?_⟩
  · unfold batchDL batchDLG
    rw [h1]
    simp only
    have hres' : batchDLCore c (listImpl.get? st1.table) points n ts = .ok res := hres
    rw [hres']
  · refine hall.imp ?_
    intro P r hr x hon hPr hx hPx
    obtain ⟨r', hr', hsome⟩ := dlPoint_found c hc hG hGr hst1 n ts hts (by rw [hsz]; omega) hl hon
      hPr x hx hPx
    rw [hr] at hr'; cases hr'
    obtain ⟨v, rfl⟩ := Option.isSome_iff_exists.mp hsome
    refine ⟨v, rfl, dlPoint_sound c hc hG _ _ listC P _ hr v rfl, ?_⟩
    intro hord hwrap
    exact dlPoint_exact c hc hG hGr hord hst1 n ts hts hl hon hPr x hx hPx hwrap v hr

/-- **ExtendedBatchDL: totality, soundness and completeness with arbitrary neighbours.** For every
state satisfying the table invariant, `ts ≥ 1`, and ANY list of points the call returns one result
per point; a value recorded for an on-curve point `P` with `n • P = ∞` is a log of `P`; an on-curve
reduced `P = d • G` with `d = i · mu`, `i < bound`, is recorded. -/
theorem extendedBatchDLB_complete_any (hc : c.Good) (hG : onCurve c c.g = true) (hGr : Reduced c c.g)
    (hn : 2 ≤ c.n) (hNG : c.n • Gp c = 0) (hmu : MultipliersOK c) (bound : Nat)
    (st : EcState) (V : Nat) (hst : StateOK c st V) (points : List Pt)
    (ts m : Nat) (hts : 1 ≤ ts) (hm : st.tableSize < ts → 1 ≤ m) :
    ∃ res st', extendedBatchDLB listImpl c bound st points ts m = .ok (res, st') ∧
      StateOK c st' (rangeAfter st V ts m) ∧ st'.tableSize = max st.tableSize ts ∧
      res.length = points.length ∧
      (∀ (i : Nat) (P : Pt) (v : Int), points[i]? = some P → onCurve c P = true →
        c.n • toPoint c P = 0 → res[i]? = some (some v) → v • Gp c = toPoint c P) ∧
      ∀ (i : Nat) (P : Pt) (d i0 mu : Nat), points[i]? = some P → onCurve c P = true → Reduced c P →
        toPoint c P = d • Gp c → mu ∈ extMultipliers c → d = i0 * mu → i0 < bound →
        ∃ v : Int, res[i]? = some (some v) ∧ v • Gp c = toPoint c P := by
  obtain ⟨invs, hinvs, hinv⟩ := extInverses_total c hn hmu
  have hno2 : ∀ inv ∈ invs, inv ≠ 2 := by
    intro inv hi
    obtain ⟨mu, hmu', hr⟩ := forall₂_mem_left hinv.flip hi
    exact ext_inverse_ne_two c hn mu hmu' inv hr
  obtain ⟨all, hall, _⟩ := extAllPoints_total_any c hc.two points invs hno2
  obtain ⟨dls, st1, hdl, hst1, hsz, _, hcomp⟩ := batchDL_complete_any c hc hG hGr st V hst all bound
    ts m hts hm
  have hpairs := extAllPoints_spec c points invs all hall
  have hlen : dls.length = (extMultipliers c).length * points.length := by
    rw [← hcomp.length_eq, hpairs.length_eq, extPairs_length, hinv.length_eq]
  rcases Nat.eq_zero_or_pos points.length with hnp0 | hnp
  · have hp0 : points = [] := List.eq_nil_of_length_eq_zero hnp0
    subst hp0
    have : dls = [] := List.eq_nil_of_length_eq_zero (by rw [hlen]; simp)
    subst this
    refine ⟨[], st1, ?_, hst1, hsz, rfl, fun i P v hP => by simp at hP,
      fun i P d i0 mu hP => by simp at hP⟩
    unfold extendedBatchDLB
    rw [hinvs]; simp only; rw [hall]; simp only
    have hdl' : batchDLG listImpl c st all bound ts m = .ok ([], st1) := hdl
    rw [hdl']
    rfl
  · obtain ⟨res, h1, h2, h3, _, h5⟩ := extCollect_spec points.length hnp (extMultipliers c) dls 0
      (List.replicate points.length none) (by simp) (by omega)
    have hrun : extendedBatchDLB listImpl c bound st points ts m = .ok (res, st1) := by
      unfold extendedBatchDLB
      rw [hinvs]; simp only; rw [hall]; simp only
      have hdl' : batchDLG listImpl c st all bound ts m = .ok (dls, st1) := hdl
      rw [hdl']; simp only; rw [h1]
    refine ⟨res, st1, hrun, hst1, hsz, h2, ?_, ?_⟩
    · intro i P v hP hon hNP hv
      exact extendedBatchDLB_sound c hc hG hn bound st points ts m res st1 hrun i P v hP hon hNP hv
    intro i P d i0 mu hP hon hPr hPd hmem hd hi0
    obtain ⟨j, hj⟩ := List.getElem?_of_mem hmem
    obtain ⟨inv, hinvj, hinvmod⟩ : ∃ inv, invs[j]? = some inv ∧ invMod (mu : Int) c.n = .ok inv := by
      obtain ⟨a, ha, hr⟩ := forall₂_getElem? hinv.flip j mu hj
      exact ⟨a, ha, hr⟩
    have hio := invMod_ok (mu : Int) c.n inv hn hinvmod
    have hpair := extPairs_getElem? points invs j i P inv hP hinvj
    obtain ⟨Q, hQ, hmul⟩ := forall₂_getElem? hpairs _ _ hpair
    simp only at hmul
    obtain ⟨R, hR1, hR2⟩ := multiply_repR c hc hon hPr (inv : Int)
    rw [hR1] at hmul; cases hmul
    have hQi0 : toPoint c Q = i0 • Gp c := by
      rw [hR2.2.1, hPd, hd, ← natCast_zsmul, ← mul_zsmul]
      have e : (inv : Int) * ((i0 * mu : Nat) : Int) = (i0 : Int) * ((mu : Int) * inv) := by
        push_cast; ring
      rw [e, mul_zsmul, smul_inv_cancel c hNG mu inv hio.1, natCast_zsmul]
    obtain ⟨r, hr, hrel⟩ := forall₂_getElem? hcomp.flip (j * points.length + i) Q hQ
    obtain ⟨v', rfl, _, _⟩ := hrel i0 hR2.1 hR2.2.2 hi0 hQi0
    obtain ⟨v, hv⟩ := h5 (j * points.length + i) v' hr
    have hi : i < points.length := by
      by_contra hge; rw [List.getElem?_eq_none (by omega)] at hP; cases hP
    rw [zero_add, Nat.mul_add_mod_of_lt hi] at hv
    refine ⟨v, hv, ?_⟩
    have hNP : c.n • toPoint c P = 0 := by rw [hPd, smul_comm, hNG, nsmul_zero]
    exact extendedBatchDLB_sound c hc hG hn bound st points ts m res st1 hrun i P v hP hon hNP hv

end group

/-! ### check level -/

/-- `WeakKeyOK` for a key that need not be on the curve: result and attached `DISCRETE_LOG` go
together; IF the key is on the curve, the two C02 / C10 clauses of `WeakKeyOK` hold for it. -/
def WeakKeyOK' (c : Curve) (hp : Nat.Prime c.p) (P : Pt) (kv : KV) : Prop :=
  haveI : Fact (Nat.Prime c.p) := ⟨hp⟩
  (kv = ⟨false, none⟩ ∨ ∃ v, kv = ⟨true, some (.dlog v)⟩) ∧
  (onCurve c P = true →
    (∀ v, kv.info = some (.dlog v) → c.n • toPoint c P = 0 → v • Gp c = toPoint c P) ∧
    (∀ d i : Nat, Reduced c P → toPoint c P = d • Gp c → i < 2 ^ 32 → StructuredKey c d i →
      ∃ v : Int, kv = ⟨true, some (.dlog v)⟩ ∧ v • Gp c = toPoint c P ∧
        (Nat.Prime c.n → (v - d) % (c.n : Int) = 0)))

/-- one curve's batch of CheckWeakECPrivateKey, ANY keys in the group. -/
theorem weakGroup_spec_any (c : Curve) (hc : CurveHyp c) (st : EcState) (hst : TableIs c st)
    (points : List Pt) (ts m : Nat) (hts : 1 ≤ ts) (hm : 1 ≤ m) :
    ∃ dls st', extendedBatchDLG listImpl c st points ts m = .ok (dls, st') ∧ TableIs c st' ∧
      dls.length = points.length ∧
      ∀ (r : Nat) (P : Pt), points[r]? = some P → ∃ x, dls[r]? = some x ∧
        WeakKeyOK' c hc.prime P (dlogVerdict x) := by
  haveI : Fact (Nat.Prime c.p) := ⟨hc.prime⟩
  obtain ⟨h1, h2, _, h4, _, h6⟩ := generator_of_paramsOK c hc.params
  obtain ⟨h7, h8⟩ := reduced_of_paramsOK c hc.params
  obtain ⟨V, hV⟩ := stateOK_of_tableIs c h1 h2 hst
  obtain ⟨res, st', e1, _, _, e4, e5, e6⟩ := extendedBatchDLB_complete_any c h1 h2 h7 h8 h4
    (multipliersOK_of_b hc.mults) (2 ^ 32) st V hV points ts m hts (fun _ => hm)
  refine ⟨res, st', e1, tableIs_after_ext c hst e1, e4, ?_⟩
  intro r P hP
  have hr : r < res.length := by
    rw [e4]; by_contra hge; rw [List.getElem?_eq_none (by omega)] at hP; cases hP
  refine ⟨res[r], List.getElem?_eq_getElem hr, ?_, ?_⟩
  · rcases dlogVerdict_cases res[r] with ⟨h, _⟩ | ⟨v, h, _⟩
    · exact .inl h
    · exact .inr ⟨v, h⟩
  · intro hon
    refine ⟨?_, ?_⟩
    · intro v hv hN
      rcases dlogVerdict_cases res[r] with ⟨h, _⟩ | ⟨v', h, hx'⟩
      · rw [h] at hv; cases hv
      · rw [h] at hv; cases hv
        exact e5 r P v hP hon hN (by rw [List.getElem?_eq_getElem hr, hx'])
    · intro d i hPr hPd hi hform
      obtain ⟨mu, hmem, hd⟩ : ∃ mu, mu ∈ extMultipliers c ∧ d = i * mu := by
        rcases hform with ⟨j, hj, hd⟩ | ⟨r', hr2, hr', hd⟩
        · exact ⟨_, pow_mem_extMultipliers c j hj, hd⟩
        · exact ⟨_, repUnit_mem_extMultipliers c r' hr2 hr', by rw [repUnit_eq]; exact hd⟩
      obtain ⟨v, hv1, hv2⟩ := e6 r P d i mu hP hon hPr hPd hmem hd hi
      rw [List.getElem?_eq_getElem hr] at hv1
      have hx : res[r] = some v := by simpa using hv1
      refine ⟨v, by rw [hx]; rfl, hv2, fun hn => ?_⟩
      have h0 : (v - d) • Gp c = 0 := by rw [sub_zsmul, hv2, hPd, natCast_zsmul]; simp
      have := addOrderOf_dvd_iff_zsmul_eq_zero.mpr h0
      rw [h6 hn] at this
      exact Int.emod_eq_zero_of_dvd this

/-- hypotheses of a CheckWeakECPrivateKey call WITHOUT any condition on the keys: valid curve
objects, reachable `_table` states, float oracles `≥ 1` for the non-empty groups. -/
def WKHyp' (keys : List ECKey) : Factory → List EcState → List (Nat × Nat) → Prop
  | e :: es, st :: sts, o :: os =>
    (∀ c, e.curve = some c → CurveHyp c ∧ TableIs c st ∧
      (groupPoints e.id keys ≠ [] → 1 ≤ o.1 ∧ 1 ≤ o.2)) ∧ WKHyp' keys es sts os
  | [], [], [] => True
  | _, _, _ => False

theorem WKHyp.weaken {keys : List ECKey} : ∀ {f : Factory} {sts : List EcState} {os : List (Nat × Nat)},
    WKHyp keys f sts os → WKHyp' keys f sts os
  | [], [], [], _ => trivial
  | [], [], _ :: _, h => h
  | [], _ :: _, _, h => by simp [WKHyp] at h
  | _ :: _, [], _, h => by simp [WKHyp] at h
  | _ :: _, _ :: _, [], h => by simp [WKHyp] at h
  | _ :: _, _ :: _, _ :: _, h =>
    ⟨fun c hc => ⟨(h.1 c hc).1, (h.1 c hc).2.1, (h.1 c hc).2.2.2⟩, WKHyp.weaken h.2⟩

theorem wkHyp'_of (keys : List ECKey) : ∀ (f : Factory) (sts : List EcState) (os : List (Nat × Nat)),
    FactoryHyp f → StatesOK f sts →
    List.Forall₂ (fun (e : FEntry) (x : Nat × Nat) =>
      groupPoints e.id keys ≠ [] → 1 ≤ x.1 ∧ 1 ≤ x.2) f os →
    WKHyp' keys f sts os
  | [], [], _, _, _, .nil => trivial
  | [], _ :: _, _, _, h, _ => by simp [StatesOK] at h
  | _ :: _, [], _, _, h, _ => by simp [StatesOK] at h
  | e :: es, st :: sts, _, hf, hst, .cons ho hos =>
    ⟨fun c hc => ⟨hf e List.mem_cons_self c hc, hst.1 c hc, ho⟩,
     wkHyp'_of keys es sts _ (fun e' he' => hf e' (List.mem_cons_of_mem _ he')) hst.2 hos⟩

theorem statesOK_of_forall₂ : ∀ {f : Factory} {sts : List EcState},
    List.Forall₂ (fun (e : FEntry) st => ∀ c, e.curve = some c → TableIs c st) f sts → StatesOK f sts
  | _, _, .nil => trivial
  | _, _, .cons h hs => ⟨h, statesOK_of_forall₂ hs⟩

/-- ★ **CheckWeakECPrivateKey, every batch.** With valid curve objects and reachable tables — and
NOTHING assumed about the keys — the check returns one slot per key, no entry for keys on unknown
curves, and for every key on a known curve an entry satisfying `WeakKeyOK'`: if THAT key is on its
curve, a recorded `DISCRETE_LOG` is a log of it (given `n • P = ∞`), and if it is moreover reduced
with a structured private key it is flagged with that key — whatever the other keys of the batch
are. -/
theorem checkWeakECPrivateKey_spec_any (f : Factory) (sts : List EcState) (orc : List (Nat × Nat))
    (keys : List ECKey) (hnd : (f.map (·.id)).Nodup) (hh : WKHyp' keys f sts orc) :
    ∃ res sts', checkWeakECPrivateKey f sts orc keys = .ok (res, sts') ∧ res.length = keys.length ∧
      StatesOK f sts' ∧
      (∀ (p : Nat) (k : ECKey), keys[p]? = some k → factoryGet f k.curveType = none →
        res[p]? = some none) ∧
      (∀ (p : Nat) (k : ECKey) (c : Curve), keys[p]? = some k → factoryGet f k.curveType = some c →
        ∃ kv hp, res[p]? = some (some kv) ∧ WeakKeyOK' c hp k.pt kv) := by
  -- the state invariant and the per-key postcondition of the generic loop
  let Inv : FEntry → EcState → Prop := fun e st => ∀ c, e.curve = some c → TableIs c st
  let Q : FEntry → Curve → Nat → Pt → KV → Prop := fun _ c _ P kv => ∃ hp, WeakKeyOK' c hp P kv
  have split : ∀ (f : Factory) (sts : List EcState) (os : List (Nat × Nat)), WKHyp' keys f sts os →
      List.Forall₂ Inv f sts ∧ List.Forall₂ (fun e o => ∀ c st, e.curve = some c → Inv e st →
        StepOKQ keys Inv Q e c (weakStep (2 ^ 32) keys e c st o)) f os := by
    intro f
    induction f with
    | nil =>
      intro sts os h
      cases sts <;> cases os <;> simp only [WKHyp'] at h
      exact ⟨.nil, .nil⟩
    | cons e es ih =>
      intro sts os h
      cases sts with
      | nil => simp only [WKHyp'] at h
      | cons st sts =>
      cases os with
      | nil => simp only [WKHyp'] at h
      | cons o os =>
      obtain ⟨he, hrest⟩ := h
      obtain ⟨i1, i2⟩ := ih sts os hrest
      refine ⟨.cons (fun c hc => (he c hc).2.1) i1, .cons ?_ i2⟩
      intro c st' hcur hinv
      obtain ⟨hch, _, horc⟩ := he c hcur
      unfold weakStep
      by_cases hg : (groupPoints e.id keys).isEmpty = true
      · rw [if_pos hg]; exact List.isEmpty_iff.mp hg
      · rw [if_neg hg]
        have hne : groupPoints e.id keys ≠ [] := fun h => hg (by rw [h]; rfl)
        obtain ⟨ho1, ho2⟩ := horc hne
        obtain ⟨dls, st2, e1, e2, e3, e4⟩ := weakGroup_spec_any c hch st' (hinv c hcur)
          (groupPoints e.id keys) o.1 o.2 ho1 ho2
        have e1' : extendedBatchDLB listImpl c (2 ^ 32) st' (groupPoints e.id keys) o.1 o.2 =
            .ok (dls, st2) := e1
        rw [e1']
        refine ⟨dls.map dlogVerdict, st2, rfl, fun c' hc' => by rw [hcur] at hc'; cases hc'; exact e2,
          by rw [List.length_map, e3], ?_⟩
        intro rk P hP
        obtain ⟨x, hx, hq⟩ := e4 rk P hP
        exact ⟨dlogVerdict x, by rw [List.getElem?_map, hx]; rfl, hch.prime, hq⟩
  obtain ⟨hinv, hstep⟩ := split f sts orc hh
  obtain ⟨res', sts', h1, h2, h3, h4, h5⟩ := genLoop_spec keys (weakStep (2 ^ 32) keys) Inv Q f sts orc
    (List.replicate keys.length none) hnd hinv hstep (by simp)
  have hst' : StatesOK f sts' := statesOK_of_forall₂ h3
  refine ⟨res', sts', ?_, h2, hst', ?_, ?_⟩
  · rw [← EcAll.checkWeakECPrivateKeyB_eq, EcAll.checkWeakECPrivateKeyB, weakKeyLoopB_eq_gen]
    exact h1
  · intro p k hk hg
    rw [h4 p k hk (fun e he hid => by rw [← factoryGet_eq_of_mem hnd he, hid]; exact hg)]
    have hp : p < keys.length := (List.getElem?_eq_some_iff.mp hk).1
    rw [List.getElem?_replicate, if_pos hp]
  · intro p k c hk hg
    obtain ⟨e, he, hid, hcur⟩ := factoryGet_mem hg
    obtain ⟨kv, _, hkv, _, hp, hq⟩ := h5 p k e c hk he hid hcur
    exact ⟨kv, hp, hkv, hq⟩

end Paranoid.Bsgs
