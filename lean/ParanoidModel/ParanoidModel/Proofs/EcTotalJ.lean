/-
Proofs/EcTotalJ.lean — `EcCurve.Multiply(p, n)` on ARBITRARY integer coordinates (on the curve or
not, reduced or not), over an odd prime field: the exact set of inputs on which the Jacobian
ladder + `JacobianToAffine` raises.

    Multiply((x, y), k) raises  ⇔  k = 2,  y ≠ 0,  y ≡ 0 (mod p),  and the tangent slope numerator
                                   `m = 3x² + a·1⁴` (`3(x+1)(x-1)` for `a = -3`) is ≡ 0 (mod p);
                                   the exception is ValueError("All coordinates zero in Jacobian
                                   representation").

Mechanism (ec_util.py): `DoubleJacobian` tests `y == 0` on the UNREDUCED integer; for `y = p, 2p, …`
it goes on and returns `(m², -m³, 0)`, which is `(0, 0, 0)` when `m ≡ 0`. `AddJacobian` treats every
`z == 0` triple as the neutral element, so the triple survives only when the scalar is exactly `2`
(for every other scalar a later `AddJacobian(INF, (1,1,0))` or the odd first bit replaces it) and
`JacobianToAffine((0,0,0))` raises. Real code: `Multiply((1, p), 2)` on secp256r1 raises ValueError;
`Multiply((1, p), k)` for `k ≠ 2` returns `(1, 0)` (k odd) or INFINITY (k even).

No caller inside the checks passes a user point with the scalar `2` (`ExtendedBatchDL` multiplies by
`invert(mult, n)`, never `2`: Proofs/EcTotal.lean `noTwoInverse`).
-/
import ParanoidModel.Proofs.EcMul
namespace Paranoid.Ec
open Paranoid

variable (c : Curve)

theorem red_red (v : Int) : c.red (c.red v) = c.red v := by
  unfold Curve.red
  exact Int.emod_emod_of_dvd _ (dvd_refl _)

theorem doubleJM_red (x z : Int) : c.red (doubleJM c x z) = doubleJM c x z := by
  unfold doubleJM
  split <;> exact red_red c _

variable [hp : Fact (Nat.Prime c.p)]

theorem red_one : c.red 1 = 1 := by
  unfold Curve.red
  have := hp.out.two_le
  exact Int.emod_eq_of_lt (by omega) (by omega)

/-- invariant of the Jacobian triples the ladder handles when it starts from a point whose `y` is
not a non-zero multiple of `p`: never `(0,0,0)`, `z` is `0` or a unit, `y` is `0` or a unit. -/
def JGood (P : JPt) : Prop :=
  (P.z = 0 → ¬(P.x = 0 ∧ P.y = 0)) ∧ (P.z ≠ 0 → c.red P.z ≠ 0) ∧ (c.red P.y = 0 → P.y = 0)

theorem jgood_infJ : JGood c infJ := by
  refine ⟨fun _ h => by simp [infJ] at h, fun h => by simp [infJ] at h, fun h => ?_⟩
  simp only [infJ] at h
  rw [red_one] at h
  cases h

theorem jgood_affineToJ (x y : Int) (hy : c.red y = 0 → y = 0) : JGood c (affineToJ (.aff x y)) := by
  refine ⟨fun h => by simp [affineToJ] at h, fun _ => ?_, hy⟩
  simp only [affineToJ]
  rw [red_one]
  decide

theorem doubleJ_good (h2 : c.p ≠ 2) {P : JPt} (h : JGood c P) : JGood c (doubleJ c P) := by
  unfold doubleJ
  by_cases hc : P.z = 0 ∨ P.y = 0
  · rw [if_pos hc]; exact jgood_infJ c
  · rw [if_neg hc]
    have hc := not_or.mp hc
    have hz : ((P.z : Int) : ZMod c.p) ≠ 0 :=
      fun h0 => h.2.1 hc.1 ((red_eq_zero_iff c _).mpr h0)
    have hy : ((P.y : Int) : ZMod c.p) ≠ 0 :=
      fun h0 => hc.2 (h.2.2 ((red_eq_zero_iff c _).mpr h0))
    have hz' : c.red (2 * P.y * P.z) ≠ 0 := by
      rw [Ne, red_eq_zero_iff]
      push_cast
      exact mul_ne_zero (mul_ne_zero (two_ne_zero_of_ne_two c h2) hy) hz
    refine ⟨fun h0 => absurd h0 hz', fun _ => ?_, fun h0 => ?_⟩
    · simp only [doubleJOut]; rw [red_red]; exact hz'
    · simp only [doubleJOut] at h0 ⊢; rwa [red_red] at h0

theorem addJ_good (h2 : c.p ≠ 2) {P Q : JPt} (hP : JGood c P) (hQ : JGood c Q) :
    JGood c (addJ c P Q) := by
  unfold addJ
  by_cases h1 : P.z = 0
  · rw [if_pos h1]; exact hQ
  · rw [if_neg h1]
    by_cases h2' : Q.z = 0
    · rw [if_pos h2']; exact hP
    · rw [if_neg h2']
      unfold addJCore
      split
      · split
        · exact jgood_infJ c
        · exact doubleJ_good c h2 hP
      · rename_i hne
        have hz1 : ((P.z : Int) : ZMod c.p) ≠ 0 :=
          fun h0 => hP.2.1 h1 ((red_eq_zero_iff c _).mpr h0)
        have hz2 : ((Q.z : Int) : ZMod c.p) ≠ 0 :=
          fun h0 => hQ.2.1 h2' ((red_eq_zero_iff c _).mpr h0)
        have hh : ((c.red (Q.x * c.red (P.z * P.z)) - c.red (c.red (P.x * c.red (Q.z * Q.z))) : Int) :
            ZMod c.p) ≠ 0 := by
          intro h0
          apply hne
          rw [red_red] at h0
          rw [Int.cast_sub, sub_eq_zero] at h0
          have := (red_eq_red_iff c _ _).mpr h0
          rw [red_red, red_red] at this
          exact this.symm
        have hz' : c.red ((c.red (Q.x * c.red (P.z * P.z)) -
            c.red (c.red (P.x * c.red (Q.z * Q.z)))) * P.z * Q.z) ≠ 0 := by
          rw [Ne, red_eq_zero_iff, Int.cast_mul, Int.cast_mul]
          exact mul_ne_zero (mul_ne_zero hh hz1) hz2
        refine ⟨fun h0 => absurd h0 hz', fun _ => ?_, fun h0 => ?_⟩
        · simp only [addJOut]; rw [red_red]; exact hz'
        · simp only [addJOut] at h0 ⊢; rwa [red_red] at h0

theorem mulJLoop_good (h2 : c.p ≠ 2) : ∀ (fuel n : Nat) (res pj : JPt), JGood c res → JGood c pj →
    JGood c (mulJLoop c fuel n res pj)
  | 0, _, _, _, hres, _ => by simpa [mulJLoop] using hres
  | fuel + 1, n, res, pj, hres, hpj => by
    unfold mulJLoop
    by_cases h0 : n = 0
    · rw [if_pos h0]; exact hres
    · rw [if_neg h0]
      apply mulJLoop_good h2 fuel
      · split
        · exact addJ_good c h2 hres hpj
        · exact hres
      · exact doubleJ_good c h2 hpj

theorem inv_ok_of_red_ne (v : Int) (h : c.red v ≠ 0) : ∃ i, c.inv v = .ok i := by
  rcases inv_cases c v with ⟨_, i, hi, _⟩ | ⟨h0, _⟩
  · exact ⟨i, hi⟩
  · exact absurd ((red_eq_zero_iff c v).mpr h0) h

theorem jToAffine_good {P : JPt} (h : JGood c P) : ∃ R, jToAffine c P = .ok R := by
  unfold jToAffine
  by_cases hz : P.z = 0
  · rw [if_pos hz, if_neg (h.1 hz)]; exact ⟨_, rfl⟩
  · rw [if_neg hz]
    obtain ⟨i, hi⟩ := inv_ok_of_red_ne c P.z (h.2.1 hz)
    rw [hi]; exact ⟨_, rfl⟩

/-- `Multiply` never raises when `y` is not a non-zero multiple of `p` (every reduced `y`, in
particular): ANY `x`, ANY scalar, on the curve or not. -/
theorem multiplyNat_total_of_y (h2 : c.p ≠ 2) (x y : Int) (hy : c.red y = 0 → y = 0) (n : Nat) :
    ∃ R, multiplyNat c (.aff x y) n = .ok R := by
  unfold multiplyNat
  by_cases h1 : n = 1
  · rw [if_pos h1]; exact ⟨_, rfl⟩
  · rw [if_neg h1]
    exact jToAffine_good c (mulJLoop_good c h2 _ _ _ _ (jgood_infJ c) (jgood_affineToJ c x y hy))

/-! ### the remaining case: `y` a non-zero multiple of `p` -/

omit hp in
theorem addJ_left_inf (P Q : JPt) (h : P.z = 0) : addJ c P Q = Q := by
  unfold addJ; rw [if_pos h]

omit hp in
theorem addJ_right_inf (P Q : JPt) (h1 : P.z ≠ 0) (h : Q.z = 0) : addJ c P Q = P := by
  unfold addJ; rw [if_neg h1, if_pos h]

omit hp in
theorem doubleJ_of_z (P : JPt) (h : P.z = 0) : doubleJ c P = infJ := by
  unfold doubleJ; rw [if_pos (Or.inl h)]

omit hp in
/-- once the running multiple `pj` is a `z = 0` triple it stays one and is never added to a finite
`res`. -/
theorem mulJLoop_stay : ∀ (fuel n : Nat) (res pj : JPt), res.z ≠ 0 → pj.z = 0 →
    mulJLoop c fuel n res pj = res
  | 0, _, _, _, _, _ => rfl
  | fuel + 1, n, res, pj, hres, hpj => by
    unfold mulJLoop
    by_cases h0 : n = 0
    · rw [if_pos h0]
    · rw [if_neg h0, addJ_right_inf c res pj hres hpj, ite_self, doubleJ_of_z c pj hpj]
      exact mulJLoop_stay fuel _ res infJ hres rfl

omit hp in
theorem mulJLoop_inf : ∀ (fuel n : Nat), mulJLoop c fuel n infJ infJ = infJ
  | 0, _ => rfl
  | fuel + 1, n => by
    unfold mulJLoop
    by_cases h0 : n = 0
    · rw [if_pos h0]
    · rw [if_neg h0, addJ_left_inf c infJ infJ rfl, ite_self, doubleJ_of_z c infJ rfl]
      exact mulJLoop_inf fuel _

omit hp in
/-- a `z = 0` accumulator is replaced by `INFINITY_JACOBIAN = (1,1,0)` as soon as one more bit of
the scalar is set. -/
theorem mulJLoop_flush : ∀ (fuel n : Nat) (res : JPt), res.z = 0 → n ≠ 0 → n < 2 ^ fuel →
    mulJLoop c fuel n res infJ = infJ
  | 0, n, _, _, hn, hlt => by simp at hlt; exact absurd hlt hn
  | fuel + 1, n, res, hres, hn, hlt => by
    unfold mulJLoop
    rw [if_neg hn, doubleJ_of_z c infJ rfl]
    by_cases hodd : n % 2 = 1
    · rw [if_pos hodd, addJ_left_inf c res infJ hres]
      exact mulJLoop_inf c fuel _
    · rw [if_neg hodd]
      have h2 : n / 2 ≠ 0 := by omega
      have hlt' : n / 2 < 2 ^ fuel := by rw [pow_succ] at hlt; omega
      exact mulJLoop_flush fuel (n / 2) res hres h2 hlt'

/-- the first doubling of `(x, y, 1)` with `y` a non-zero multiple of `p`. -/
theorem doubleJ_bad (x y : Int) (hy0 : y ≠ 0) (hy : c.red y = 0) :
    (doubleJ c ⟨x, y, 1⟩).z = 0 ∧
    (((doubleJ c ⟨x, y, 1⟩).x = 0 ∧ (doubleJ c ⟨x, y, 1⟩).y = 0) ↔ doubleJM c x 1 = 0) := by
  have hcond : ¬((⟨x, y, 1⟩ : JPt).z = 0 ∨ (⟨x, y, 1⟩ : JPt).y = 0) := by
    simp only [not_or]; exact ⟨by decide, hy0⟩
  have hyz : ((y : Int) : ZMod c.p) = 0 := (red_eq_zero_iff c y).mp hy
  have hysq : c.red (y * y) = 0 := by
    rw [red_eq_zero_iff]; push_cast; rw [hyz]; ring
  unfold doubleJ
  rw [if_neg hcond]
  simp only [doubleJOut, hysq, mul_one, red_one]
  have hs : c.red (4 * x * 0) = 0 := by simp [Curve.red]
  rw [hs]
  refine ⟨?_, ?_⟩
  · rw [red_eq_zero_iff]; push_cast; rw [hyz]; ring
  · constructor
    · rintro ⟨hx, _⟩
      have : ((doubleJM c x 1 : Int) : ZMod c.p) = 0 := by
        rw [red_eq_zero_iff] at hx
        push_cast at hx
        simpa using hx
      rw [← doubleJM_red, red_eq_zero_iff]
      exact this
    · intro hm
      rw [hm]
      simp [Curve.red]

/-- the ladder on `(x, y, 1)` with `y` a non-zero multiple of `p`: the point itself for an odd
scalar, the first doubling for the scalar `2`, `(1,1,0)` for every other even scalar. -/
theorem mulJLoop_bad (x y : Int) (hy0 : y ≠ 0) (hy : c.red y = 0) : ∀ (fuel n : Nat), n < 2 ^ fuel →
    mulJLoop c fuel n infJ ⟨x, y, 1⟩ =
      if n % 2 = 1 then ⟨x, y, 1⟩ else if n = 2 then doubleJ c ⟨x, y, 1⟩ else infJ := by
  have hDz := (doubleJ_bad c x y hy0 hy).1
  intro fuel n hlt
  cases fuel with
  | zero =>
    have : n = 0 := by simpa using hlt
    subst this
    simp [mulJLoop]
  | succ fuel =>
    unfold mulJLoop
    by_cases h0 : n = 0
    · subst h0; simp
    · rw [if_neg h0]
      by_cases hodd : n % 2 = 1
      · rw [if_pos hodd, if_pos hodd, addJ_left_inf c infJ _ rfl]
        exact mulJLoop_stay c fuel _ _ _ (by simp) hDz
      · rw [if_neg hodd, if_neg hodd]
        have hn2 : n / 2 ≠ 0 := by omega
        have hlt2 : n / 2 < 2 ^ fuel := by rw [pow_succ] at hlt; omega
        cases fuel with
        | zero => exfalso; simp at hlt2; omega
        | succ fuel =>
          unfold mulJLoop
          rw [if_neg hn2, doubleJ_of_z c _ hDz]
          by_cases hodd2 : n / 2 % 2 = 1
          · rw [if_pos hodd2, addJ_left_inf c infJ _ rfl]
            by_cases h4 : n / 2 / 2 = 0
            · have hn : n = 2 := by omega
              rw [if_pos hn, h4]
              cases fuel <;> simp [mulJLoop]
            · have hn : n ≠ 2 := by omega
              rw [if_neg hn]
              have hlt4 : n / 2 / 2 < 2 ^ fuel := by rw [pow_succ] at hlt2; omega
              exact mulJLoop_flush c fuel _ _ hDz h4 hlt4
          · rw [if_neg hodd2]
            have hn : n ≠ 2 := by omega
            rw [if_neg hn]
            exact mulJLoop_inf c fuel _

/-- the inputs on which `Multiply` raises. -/
def MultiplyBad (x y k : Int) : Prop := k = 2 ∧ y ≠ 0 ∧ c.red y = 0 ∧ doubleJM c x 1 = 0

instance (x y k : Int) : Decidable (MultiplyBad c x y k) := by unfold MultiplyBad; infer_instance

/-- **`Multiply` on arbitrary integer coordinates** (odd prime field): it raises exactly on
`MultiplyBad`, and then `ValueError`. -/
theorem multiply_cases (h2 : c.p ≠ 2) (x y k : Int) :
    (MultiplyBad c x y k ∧ multiply c (.aff x y) k = .error .valueError) ∨
    (¬ MultiplyBad c x y k ∧ ∃ R, multiply c (.aff x y) k = .ok R) := by
  rw [multiply_aff]
  by_cases hk : k < 0
  · right
    refine ⟨fun h => by rw [h.1] at hk; omega, ?_⟩
    rw [if_pos hk]
    exact multiplyNat_total_of_y c h2 x (c.red (-y)) (fun h => by rwa [red_red] at h) _
  · rw [if_neg hk]
    by_cases hyok : c.red y = 0 → y = 0
    · right
      exact ⟨fun h => h.2.1 (hyok h.2.2.1), multiplyNat_total_of_y c h2 x y hyok _⟩
    · obtain ⟨hy, hy0⟩ := Classical.not_imp.mp hyok
      obtain ⟨hDz, hD⟩ := doubleJ_bad c x y hy0 hy
      unfold multiplyNat
      by_cases h1 : k.natAbs = 1
      · right
        rw [if_pos h1]
        exact ⟨fun h => by rw [h.1] at h1; simp at h1, _, rfl⟩
      · rw [if_neg h1]
        have hloop := mulJLoop_bad c x y hy0 hy (bitLength k.natAbs) k.natAbs
          (lt_two_pow_bitLength _)
        simp only [affineToJ]
        rw [hloop]
        by_cases hodd : k.natAbs % 2 = 1
        · right
          rw [if_pos hodd]
          refine ⟨fun h => by rw [h.1] at hodd; simp at hodd, ?_⟩
          unfold jToAffine
          simp only [if_neg (show (1 : Int) ≠ 0 by decide)]
          obtain ⟨i, hi⟩ := inv_ok_of_red_ne c 1 (by rw [red_one]; decide)
          rw [hi]; exact ⟨_, rfl⟩
        · rw [if_neg hodd]
          by_cases hk2 : k.natAbs = 2
          · have hk2' : k = 2 := by omega
            rw [if_pos hk2]
            unfold jToAffine
            rw [if_pos hDz]
            by_cases hm : doubleJM c x 1 = 0
            · left
              rw [if_pos (hD.mpr hm)]
              exact ⟨⟨hk2', hy0, hy, hm⟩, rfl⟩
            · right
              rw [if_neg (fun h => hm (hD.mp h))]
              exact ⟨fun h => hm h.2.2.2, _, rfl⟩
          · right
            rw [if_neg hk2]
            refine ⟨fun h => by rw [h.1] at hk2; simp at hk2, .inf, ?_⟩
            simp [jToAffine, infJ]

theorem multiply_error_iff (h2 : c.p ≠ 2) (x y k : Int) (e : PyErr) :
    multiply c (.aff x y) k = .error e ↔ e = .valueError ∧ MultiplyBad c x y k := by
  rcases multiply_cases c h2 x y k with ⟨hb, he⟩ | ⟨hb, R, hR⟩
  · rw [he]
    constructor
    · intro h; cases h; exact ⟨rfl, hb⟩
    · rintro ⟨rfl, _⟩; rfl
  · rw [hR]
    constructor
    · intro h; cases h
    · intro h; exact absurd h.2 hb

/-- `Multiply` with a scalar other than `2` never raises, whatever the coordinates. -/
theorem multiply_total_of_ne_two (h2 : c.p ≠ 2) (P : Pt) (k : Int) (hk : k ≠ 2) :
    ∃ R, multiply c P k = .ok R := by
  cases P with
  | inf => exact ⟨.inf, rfl⟩
  | aff x y =>
    rcases multiply_cases c h2 x y k with ⟨hb, _⟩ | ⟨_, h⟩
    · exact absurd hb.1 hk
    · exact h

end Paranoid.Ec
