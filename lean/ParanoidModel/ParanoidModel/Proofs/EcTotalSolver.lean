/-
Proofs/EcTotalSolver.lean — the ECDSA nonce checks COMPOSED with the models of the lattice solvers
(review finding F7).

In Model/EcdsaChecks.lean every call of `hnp.HiddenNumberProblem`, `hnp.HiddenNumberProblemForCurve`
and `cr50_u2f_weakness.Cr50U2fGuesses` is an oracle: the check model computes the ARGUMENTS
(`Call`) and is handed an answer. An exception raised INSIDE a solver is therefore invisible to
`check`. Here the answer is computed by the solver models (Model/Hnp.lean, Model/Cr50.lean) from the
arguments the check builds:

    solveCall E L call        the solver model on the arguments of one call
    checkSolved …             `check`, then every recorded call through `solveCall`

What remains an oracle of the composed model: the reduced bases returned by `lll.reduce` (any list
of rows with at least two entries), the float value `int(n.bit_length() / len(a) * 1.25)` of
`GetLattice` (any value), the two `set` iteration orders of the check layer, and the table
`lcg_constants.CONSTANT_FACTORY` (only its positive size fields matter).

The solver models DO raise:
  * `Cr50U2fGuesses` raises ZeroDivisionError (`gmpy.invert(r1, n)`) as soon as a reduced row passes
    the congruence test and `r1 ≡ 0 (mod n)` — real code: secp256r1, nonce bytes repeated four times,
    `s = z·k⁻¹`, `r = 0` or `r = n`: `CheckCr50U2f().Check([sig])` raises ZeroDivisionError;
  * `HiddenNumberProblem(…, COMMON_POSTFIX)` raises ZeroDivisionError when `gcd(2^bits, n) ≠ 1`
    (even `n`) and for an empty `a` (`n.bit_length() / 0`);
  * both post-processing loops raise when `gcd(v[0], n) ∉ {1, n}` (composite `n`).
None of this is reachable from the checks on signatures with `r, s ∈ [1, n-1]` on the named curves
(`n` an odd prime): `check_calls_wf` + `solveCall_total`.
-/
import ParanoidModel.Proofs.EcdsaChecks
import ParanoidModel.Props.C08
namespace Paranoid.EcdsaChecks
open Paranoid Paranoid.Ec Paranoid.Hnp

/-! ### the solver models behind a `Call` -/

/-- `hnp.Bias(value)`. -/
def biasOfNat : Nat → Option Bias
  | 1 => some .msb
  | 2 => some .commonPrefix
  | 3 => some .commonPostfix
  | 4 => some .generalized
  | _ => none

/-- `hnp.SearchStrategy(value)`: SINGLE = 1, SLIDING = 2, INCLUDE_KEY = 4. -/
def flagsOfNat (v : Nat) : SearchFlags :=
  ⟨decide (v % 2 = 1), decide (v / 2 % 2 = 1), decide (v / 4 % 2 = 1)⟩

/-- what the solvers read besides their arguments. -/
structure SolverEnv where
  /-- `lcg_constants.CONSTANT_FACTORY` -/
  lcg : List LcgMeta
  /-- `ec_util.CURVE_FACTORY[curve_type]` as `HiddenNumberProblemForCurve` sees it: KeyError /
  `None` entry / the order `n` -/
  curveN : Nat → Option (Option Nat)

/-- the oracles of ONE solver call. -/
structure LllOracle where
  /-- what the `i`-th `lll.reduce` of the call returned -/
  reduce : Nat → List (List Int)
  /-- `int(n.bit_length() / len(a) * 1.25)` (GetLattice, `w = None`, COMMON_POSTFIX) -/
  fbits : Nat

def intsOfNats (l : List Nat) : List Int := l.map Int.ofNat

def liftGuesses : Except PyErr (List Nat) → Except PyErr (List Int)
  | .ok gs => .ok (intsOfNats gs)
  | .error e => .error e

/-- the solver model on the arguments of one call. (A `bias` number that is no `hnp.Bias` member
cannot be constructed in Python; it is reported as ValueError here.) -/
def solveCall (E : SolverEnv) (L : LllOracle) : Call → Except PyErr (List Int)
  | .hnp a b n bias =>
    match biasOfNat bias with
    | none => .error .valueError
    | some β =>
      liftGuesses (hiddenNumberProblem (intsOfNats a) (intsOfNats b) none n β L.fbits (L.reduce 0))
  | .hnpCurve a b cid name flags =>
    liftGuesses (hnpForCurve (intsOfNats a) (intsOfNats b) cid (E.curveN cid) (some name)
      (flagsOfNat flags) E.lcg L.reduce)
  | .cr50 v1 v2 n =>
    liftGuesses (cr50Guesses v1.1 v1.2.1 v1.2.2 v2.1 v2.2.1 v2.2.2 n (L.reduce 0))

/-- every reduced basis handed back has rows with at least two entries (`lll.reduce` returns a
matrix of the dimensions of its argument, and every lattice built here has `≥ 2` columns). -/
def LllShape (L : LllOracle) : Prop := ∀ i, ∀ r ∈ L.reduce i, 2 ≤ r.length

/-- the arguments of a call are harmless. -/
def CallWF (E : SolverEnv) : Call → Prop
  | .hnp a b n bias => a.length = b.length ∧ a ≠ [] ∧ n.Prime ∧ n ≠ 2 ∧ (biasOfNat bias).isSome
  | .hnpCurve a b cid _ flags =>
    a.length = b.length ∧ (flagsOfNat flags).none = false ∧
      ∃ n, E.curveN cid = some (some n) ∧ n.Prime
  | .cr50 v1 v2 n => n.Prime ∧ ¬ n ∣ v1.1 ∧ ¬ n ∣ v2.1

theorem gcd_two_pow_prime (n : Nat) (hp : n.Prime) (h2 : n ≠ 2) (k : Nat) :
    Int.gcd ((2 : Int) ^ k) n = 1 := by
  have hc : Nat.Coprime (2 ^ k) n :=
    Nat.Coprime.pow_left k ((Nat.coprime_primes Nat.prime_two hp).mpr (fun h => h2 h.symm))
  have : ((2 : Int) ^ k) = ((2 ^ k : Nat) : Int) := by push_cast; rfl
  rw [this, Int.gcd_natCast_natCast]
  exact hc

/-- `HiddenNumberProblem(a, b, None, n, bias)` never raises for a non-empty `a`, `len(a) = len(b)`,
an odd prime `n`, every bias, every float value and every reduced basis with rows of length `≥ 2`. -/
theorem hiddenNumberProblem_total (a b : List Int) (n : Nat) (β : Bias) (fb : Nat)
    (basis : List (List Int)) (hlen : a.length = b.length) (ha : a ≠ []) (hp : n.Prime)
    (h2 : n ≠ 2) (hrows : ∀ r ∈ basis, 2 ≤ r.length) :
    ∃ gs, hiddenNumberProblem a b none n β fb basis = .ok gs := by
  have hl0 : a.length ≠ 0 := fun h => ha (List.eq_nil_of_length_eq_zero h)
  have hlat : ∃ lat, getLattice a b none n β fb = .ok lat := by
    unfold getLattice
    rw [if_neg (by simpa using hlen)]
    cases β with
    | msb => exact ⟨_, rfl⟩
    | commonPrefix => exact ⟨_, rfl⟩
    | generalized => exact ⟨_, rfl⟩
    | commonPostfix =>
      simp only [hnpResolveW, hnpDefaultW, if_neg hl0, getLatticeW]
      obtain ⟨wi, hwi⟩ := invMod_of_coprime ((2 : Int) ^ (max 3 fb)) n hp.pos
        (gcd_two_pow_prime n hp h2 _)
      rw [hwi]
      exact ⟨_, rfl⟩
  obtain ⟨lat, hlat⟩ := hlat
  unfold hiddenNumberProblem
  rw [hlat]
  obtain ⟨gs, hgs, _⟩ := hnpGuessLoop_ok (hnpRowGuess n) basis []
    (fun r hr => hnpRowGuess_total n hp.pos r (rowOk_of_prime n hp r (hrows r hr)))
  exact ⟨gs, hgs⟩

/-- `HiddenNumberProblemForCurve` never raises for `len(a) = len(b)`, a known curve with prime order,
a non-empty flag set, a constant table with positive size fields and reduced bases with rows of
length `≥ 2`. -/
theorem hnpForCurve_total (a b : List Int) (curve n : Nat) (lcg : Option Nat) (f : SearchFlags)
    (factory : List LcgMeta) (oracle : Nat → List (List Int))
    (hlen : a.length = b.length) (hf : f.none = false) (hp : n.Prime)
    (hmeta : ∀ m ∈ factory, MetaOk m) (hrows : ∀ k, ∀ r ∈ oracle k, 2 ≤ r.length) :
    ∃ gs, hnpForCurve a b curve (some (some n)) lcg f factory oracle = .ok gs := by
  unfold hnpForCurve forCurveRun
  rw [if_neg (by omega)]
  have hsub : hnpSubsets a b curve lcg f factory = subsetsLoop a b curve lcg f factory := by
    unfold hnpSubsets; rw [hf]; rfl
  simp only
  rw [hsub]
  obtain ⟨herr, hl⟩ := subsetsLoop_ok a b curve lcg f hlen factory (fun m hm _ => hmeta m hm)
  obtain ⟨gs, hgs, _⟩ := forCurveLoop_ok n oracle hp.pos
    (subsetsLoop a b curve lcg f factory).yields 0 []
    (fun s hs => le_of_eq (hl s hs))
    (fun k _ r hr => rowOk_of_prime n hp r (hrows _ r hr))
  simp only [hgs, herr]
  exact ⟨gs, rfl⟩

theorem intsOfNats_length (l : List Nat) : (intsOfNats l).length = l.length := by simp [intsOfNats]

/-- ★ the solver model never raises on well-formed call arguments, whatever `lll.reduce` returns
(rows of length `≥ 2`) and whatever the float oracle is. -/
theorem solveCall_total (E : SolverEnv) (hE : ∀ m ∈ E.lcg, MetaOk m) (L : LllOracle)
    (hL : LllShape L) (call : Call) (h : CallWF E call) : ∃ gs, solveCall E L call = .ok gs := by
  cases call with
  | hnp a b n bias =>
    obtain ⟨hlen, ha, hp, h2, hb⟩ := h
    obtain ⟨β, hβ⟩ := Option.isSome_iff_exists.mp hb
    obtain ⟨gs, hgs⟩ := hiddenNumberProblem_total (intsOfNats a) (intsOfNats b) n β L.fbits (L.reduce 0)
      (by rw [intsOfNats_length, intsOfNats_length, hlen])
      (by intro h0; apply ha; unfold intsOfNats at h0; exact List.map_eq_nil_iff.mp h0) hp h2 (hL 0)
    exact ⟨intsOfNats gs, by simp only [solveCall, hβ, hgs, liftGuesses]⟩
  | hnpCurve a b cid name flags =>
    obtain ⟨hlen, hf, n, hn, hp⟩ := h
    obtain ⟨gs, hgs⟩ := hnpForCurve_total (intsOfNats a) (intsOfNats b) cid n (some name)
      (flagsOfNat flags) E.lcg L.reduce (by rw [intsOfNats_length, intsOfNats_length, hlen]) hf hp hE hL
    exact ⟨intsOfNats gs, by simp only [solveCall, hn, hgs, liftGuesses]⟩
  | cr50 v1 v2 n =>
    obtain ⟨hp, h1, h2⟩ := h
    obtain ⟨gs, hgs⟩ := C08.cr50_total_prime v1.1 v1.2.1 v1.2.2 v2.1 v2.2.1 v2.2.2 n (L.reduce 0) hp
      (by exact_mod_cast h1) (by exact_mod_cast h2)
    exact ⟨intsOfNats gs, by simp only [solveCall, hgs, liftGuesses]⟩

/-- ★ and it DOES raise outside: `Cr50U2fGuesses` with `r1 ≡ 0 (mod n)` raises ZeroDivisionError as
soon as one reduced row passes the congruence test (the input class of F7; excluded by
`r ∈ [1, n-1]`). Concrete instance on the 32-bit prime `2^32 - 5`. -/
theorem solveCall_cr50_raises :
    solveCall ⟨[], fun _ => none⟩ ⟨fun _ => [[3, 0, 256, 0]], 0⟩
      (.cr50 (4294967291, 1979693995, 2619613418) (1, 1, 0) 4294967291) = .error .zeroDivision := by
  decide +kernel

/-! ### the arguments the checks build are well-formed -/

/-- the property's well-formedness of a signature on a curve of order `n`: `r, s ∈ [1, n-1]`. -/
def SigRange (n : Nat) (s : Sig) : Prop :=
  1 ≤ bytes2int s.r ∧ bytes2int s.r ≤ n - 1 ∧ 1 ≤ bytes2int s.s ∧ bytes2int s.s ≤ n - 1

/-- the constructor arguments of a registered check are enum members. -/
def KindOK : Kind → Prop
  | .biased (.bias b) => (biasOfNat b).isSome
  | .biased (.lcg _ flags) => (flagsOfNat flags).none = false
  | .cr50 => True

theorem not_dvd_of_range {n r : Nat} (h1 : 1 ≤ r) (h2 : r ≤ n - 1) : ¬ n ∣ r := by
  intro h
  have := Nat.le_of_dvd (by omega) h
  omega

theorem cr50Spec_mem (n : Nat) : ∀ (uniq : List Triple) (call : Call), call ∈ cr50Spec n uniq →
    ∃ v w, call = .cr50 v w n ∧ v ∈ uniq ∧ (w ∈ uniq ∨ w = (1, 1, 0))
  | [], _, h => by simp [cr50Spec] at h
  | [v], call, h => by
    simp only [cr50Spec, List.mem_singleton] at h
    exact ⟨v, (1, 1, 0), h, by simp, .inr rfl⟩
  | v :: w :: rest, call, h => by
    rw [cr50Spec, List.mem_cons] at h
    rcases h with rfl | h
    · exact ⟨v, w, rfl, by simp, .inl (by simp)⟩
    · obtain ⟨v', w', h1, h2, h3⟩ := cr50Spec_mem n (w :: rest) call h
      refine ⟨v', w', h1, List.mem_cons_of_mem _ h2, ?_⟩
      rcases h3 with h3 | h3
      · exact .inl (List.mem_cons_of_mem _ h3)
      · exact .inr h3

theorem sizeLoop_mem {α} (l : List α) : ∀ w ∈ sizeLoop windowSizes l, w ≠ [] := by
  intro w hw
  rw [sizeLoop_windowSizes] at hw
  have h24 := chunks_mem 24 (by decide) l.length l (Nat.le_refl _)
  have h48 := chunks_mem 48 (by decide) l.length l (Nat.le_refl _)
  have h120 := chunks_mem 120 (by decide) l.length l (Nat.le_refl _)
  split at hw
  · exact (h24 w hw).choose_spec.2.2.2
  · split at hw
    · rcases List.mem_append.mp hw with h | h
      · exact (h24 w h).choose_spec.2.2.2
      · exact (h48 w h).choose_spec.2.2.2
    · rcases List.mem_append.mp hw with h | h
      · rcases List.mem_append.mp h with h | h
        · exact (h24 w h).choose_spec.2.2.2
        · exact (h48 w h).choose_spec.2.2.2
      · exact (h120 w h).choose_spec.2.2.2

/-- the calls of one issuer, from a `unique_vals` list whose `r` values are no multiples of `n`. -/
theorem issuerCalls_wf (E : SolverEnv) (k : Kind) (hk : KindOK k) (cid n : Nat) (hp : n.Prime)
    (h2 : n ≠ 2) (hE : E.curveN cid = some (some n)) (uniq : List Triple)
    (hr : ∀ v ∈ uniq, ¬ n ∣ v.1) (cs : List Call) (h : issuerCalls k cid n uniq = .ok cs) :
    ∀ call ∈ cs, CallWF E call := by
  intro call hcall
  cases k with
  | cr50 =>
    simp only [issuerCalls] at h
    have hne : uniq ≠ [] := by
      rintro rfl; rw [cr50Calls_nil] at h; cases h
    rw [cr50Calls_eq n uniq hne] at h
    cases h
    obtain ⟨v, w, rfl, hv, hw⟩ := cr50Spec_mem n uniq call hcall
    refine ⟨hp, hr v hv, ?_⟩
    rcases hw with hw | rfl
    · exact hr w hw
    · intro hd
      have := Nat.le_of_dvd (by decide) hd
      have := hp.two_le
      omega
  | biased m =>
    simp only [issuerCalls, biasedCalls] at h
    split at h
    · cases h
    · rename_i ab hab
      cases h
      cases m with
      | bias b =>
        simp only [modeCalls, List.mem_map] at hcall
        obtain ⟨w, hw, rfl⟩ := hcall
        refine ⟨by simp, ?_, hp, h2, hk⟩
        intro h0
        exact sizeLoop_mem ab w hw (by simpa using h0)
      | lcg name flags =>
        simp only [modeCalls, List.mem_singleton] at hcall
        subst hcall
        exact ⟨by simp, hk, n, hE, hp⟩

/-- ★ every solver call a successful `Check` recorded has well-formed arguments — for batches whose
signatures on known curves have `r, s ∈ [1, n-1]` (any hash, any issuer key, any mixture of curve
ids), curve objects with odd prime orders, and `set`-order oracles that are enumerations. -/
theorem check_calls_wf (E : SolverEnv) (k : Kind) (hk : KindOK k) (O : Nat → GroupOracle)
    (factory : Factory) (arts : List Sig) (res : CheckResult)
    (h : check k O factory arts = .ok res)
    (hprime : ∀ cid obj, (cid, some obj) ∈ factory →
      obj.curve.n.Prime ∧ obj.curve.n ≠ 2 ∧ E.curveN cid = some (some obj.curve.n))
    (hcons : UniqConsistent O arts factory)
    (hrange : ∀ s ∈ arts, ∀ obj, (s.curve, some obj) ∈ factory → SigRange obj.curve.n s) :
    ∀ cid css, (cid, css) ∈ res.calls → ∀ cs ∈ css, ∀ call ∈ cs, CallWF E call := by
  intro cid css hmem cs hcs call hcall
  obtain ⟨_, _, h3⟩ := checkLoop_ok k O arts factory res h
  obtain ⟨obj, gr, hobj, hgr, rfl⟩ := h3 cid css hmem
  obtain ⟨hp, h2, hE⟩ := hprime cid obj hobj
  obtain ⟨_, _, hcalls, _⟩ := processGroup_ok _ _ _ _ _ _ _ hgr
  obtain ⟨hlen, hinv⟩ := groupCallsFrom_inv k cid obj.curve.n _ (O cid) _ 0 gr.calls hcalls
  obtain ⟨j, hj⟩ := List.getElem?_of_mem hcs
  have hj' := hinv j cs hj
  rw [Nat.zero_add] at hj'
  have hne : groupFrom cid 0 arts ≠ [] := by
    intro h0
    rw [h0] at hlen
    simp only [List.map_nil, mapIssuerSigIndexes, mapIssuerFrom, List.length_nil] at hlen
    rw [List.eq_nil_of_length_eq_zero hlen] at hcs
    cases hcs
  have hjlt : j < (mapIssuerSigIndexes ((groupFrom cid 0 arts).map Prod.snd)).length := by
    rw [← hlen]
    by_contra hge
    rw [List.getElem?_eq_none (by omega)] at hj; cases hj
  obtain ⟨vals, hvals, henum⟩ := uniqConsistentFrom_get obj.curve.n _ (O cid) _ 0
    (hcons cid obj hobj hne) j _ (List.getElem?_eq_getElem hjlt)
  rw [Nat.zero_add] at henum
  apply issuerCalls_wf E k hk cid obj.curve.n hp h2 hE ((O cid).uniq j) ?_ cs hj' call hcall
  intro v hv
  have hv' : v ∈ vals := (((isEnumOf_iff _ _).mp henum).2 v).mp hv
  obtain ⟨i, _, sg, hsg, hval⟩ := issuerValues_mem obj.curve.n _ _ vals hvals v hv'
  have hsgmem : sg ∈ (groupFrom cid 0 arts).map Prod.snd := List.mem_of_getElem? hsg
  obtain ⟨⟨bi, sg'⟩, hbs, rfl⟩ := List.mem_map.mp hsgmem
  obtain ⟨_, hart, hcur⟩ := (mem_groupFrom cid arts 0 bi sg').mp hbs
  have hrg := hrange sg' (List.mem_of_getElem? hart) obj (by rw [hcur]; exact hobj)
  rw [(ecdsaValues_fields _ _ _ _ v hval).1]
  exact not_dvd_of_range hrg.1 hrg.2.1

/-! ### the composed check -/

/-- the LLL / float oracles of every solver call of one `Check`: curve id, issuer position, call
position. -/
abbrev SolverOracle := Nat → Nat → Nat → LllOracle

def solveIssuer (E : SolverEnv) (L : Nat → LllOracle) : List Call → Nat → Except PyErr (List (List Int))
  | [], _ => .ok []
  | call :: rest, kk =>
    match solveCall E (L kk) call with
    | .error e => .error e
    | .ok gs =>
      match solveIssuer E L rest (kk + 1) with
      | .error e => .error e
      | .ok gss => .ok (gs :: gss)

def solveGroup (E : SolverEnv) (L : Nat → Nat → LllOracle) :
    List (List Call) → Nat → Except PyErr (List (List (List Int)))
  | [], _ => .ok []
  | cs :: rest, j =>
    match solveIssuer E (L j) cs 0 with
    | .error e => .error e
    | .ok a =>
      match solveGroup E L rest (j + 1) with
      | .error e => .error e
      | .ok as => .ok (a :: as)

def solveAll (E : SolverEnv) (S : SolverOracle) :
    List (Nat × List (List Call)) → Except PyErr (List (Nat × List (List (List Int))))
  | [] => .ok []
  | (cid, css) :: rest =>
    match solveGroup E (S cid) css 0 with
    | .error e => .error e
    | .ok a =>
      match solveAll E S rest with
      | .error e => .error e
      | .ok as => .ok ((cid, a) :: as)

/-- `Check(artifacts)` with the solvers evaluated by their models: the result of the check layer
and, per curve group / issuer / call, the guess list the solver model returns. `.ok` iff NEITHER
layer raises. (Which exception comes first when both layers raise in different curve groups is not
modelled: the check layer is run to its end first.) -/
def checkSolved (E : SolverEnv) (S : SolverOracle) (k : Kind) (O : Nat → GroupOracle)
    (factory : Factory) (arts : List Sig) :
    Except PyErr (CheckResult × List (Nat × List (List (List Int)))) :=
  match check k O factory arts with
  | .error e => .error e
  | .ok res =>
    match solveAll E S res.calls with
    | .error e => .error e
    | .ok answers => .ok (res, answers)

theorem solveIssuer_total (E : SolverEnv) (hE : ∀ m ∈ E.lcg, MetaOk m) (L : Nat → LllOracle)
    (hL : ∀ kk, LllShape (L kk)) : ∀ (cs : List Call) (kk : Nat), (∀ call ∈ cs, CallWF E call) →
    ∃ a, solveIssuer E L cs kk = .ok a
  | [], _, _ => ⟨[], rfl⟩
  | call :: rest, kk, h => by
    obtain ⟨gs, hgs⟩ := solveCall_total E hE (L kk) (hL kk) call (h call List.mem_cons_self)
    obtain ⟨a, ha⟩ := solveIssuer_total E hE L hL rest (kk + 1)
      (fun c hc => h c (List.mem_cons_of_mem _ hc))
    exact ⟨gs :: a, by rw [solveIssuer, hgs]; simp only; rw [ha]⟩

theorem solveGroup_total (E : SolverEnv) (hE : ∀ m ∈ E.lcg, MetaOk m) (L : Nat → Nat → LllOracle)
    (hL : ∀ j kk, LllShape (L j kk)) : ∀ (css : List (List Call)) (j : Nat),
    (∀ cs ∈ css, ∀ call ∈ cs, CallWF E call) → ∃ a, solveGroup E L css j = .ok a
  | [], _, _ => ⟨[], rfl⟩
  | cs :: rest, j, h => by
    obtain ⟨a, ha⟩ := solveIssuer_total E hE (L j) (hL j) cs 0 (h cs List.mem_cons_self)
    obtain ⟨as, has⟩ := solveGroup_total E hE L hL rest (j + 1)
      (fun c hc => h c (List.mem_cons_of_mem _ hc))
    exact ⟨a :: as, by rw [solveGroup, ha]; simp only; rw [has]⟩

theorem solveAll_total (E : SolverEnv) (hE : ∀ m ∈ E.lcg, MetaOk m) (S : SolverOracle)
    (hS : ∀ cid j kk, LllShape (S cid j kk)) : ∀ (calls : List (Nat × List (List Call))),
    (∀ cid css, (cid, css) ∈ calls → ∀ cs ∈ css, ∀ call ∈ cs, CallWF E call) →
    ∃ a, solveAll E S calls = .ok a
  | [], _ => ⟨[], rfl⟩
  | (cid, css) :: rest, h => by
    obtain ⟨a, ha⟩ := solveGroup_total E hE (S cid) (hS cid) css 0 (h cid css List.mem_cons_self)
    obtain ⟨as, has⟩ := solveAll_total E hE S hS rest
      (fun c cs hc => h c cs (List.mem_cons_of_mem _ hc))
    exact ⟨(cid, a) :: as, by rw [solveAll, ha]; simp only; rw [has]⟩

/-! ### the composed check is total on the property's inputs -/

/-- `ec_util.CURVE_FACTORY[curve_type]` read off the very factory the check iterates over. -/
def factoryN : Factory → Nat → Option (Option Nat)
  | [], _ => none
  | (cid', o) :: rest, cid => if cid' = cid then some (o.map fun obj => obj.curve.n) else factoryN rest cid

/-- the environment of the solvers: the constant table and the curve orders of `factory`. -/
def envOf (lcg : List LcgMeta) (factory : Factory) : SolverEnv := ⟨lcg, factoryN factory⟩

theorem factoryN_of_mem {f : Factory} (hnd : (f.map Prod.fst).Nodup) {cid : Nat} {obj : CurveObj}
    (h : (cid, some obj) ∈ f) : factoryN f cid = some (some obj.curve.n) := by
  induction f with
  | nil => cases h
  | cons e es ih =>
    obtain ⟨cid', o⟩ := e
    rw [List.map_cons, List.nodup_cons] at hnd
    rw [factoryN]
    rcases List.mem_cons.mp h with h | h
    · cases h; rw [if_pos rfl]; rfl
    · have : cid' ≠ cid := fun hc => hnd.1 (by
        subst hc; exact List.mem_map.mpr ⟨(cid', some obj), h, rfl⟩)
      rw [if_neg this]
      exact ih hnd.2 h

/-- ★ **the composed check never raises on the property's inputs** (F7). For every registered
kind of nonce check, every factory of valid curve objects with distinct ids and odd prime orders
(the nine named curves), every batch in which each signature with a known curve id has
`r, s ∈ [1, n-1]` — any hash length, any issuer key (off the curve, unreduced, `(0,0)`), any
mixture of curve ids, duplicates, the empty batch —, `set`-order oracles that are enumerations,
every constant table with positive size fields, every float value and every answer of `lll.reduce`
(rows of length `≥ 2`): the check layer returns AND every solver call it makes returns. -/
theorem checkSolved_total (lcg : List LcgMeta) (hlcg : ∀ m ∈ lcg, MetaOk m) (S : SolverOracle)
    (hS : ∀ cid j kk, LllShape (S cid j kk)) (k : Kind) (hk : KindOK k) (O : Nat → GroupOracle)
    (factory : Factory) (arts : List Sig) (hF : FactoryOK factory)
    (hnd : (factory.map Prod.fst).Nodup)
    (hprime : ∀ cid obj, (cid, some obj) ∈ factory → obj.curve.n.Prime ∧ obj.curve.n ≠ 2)
    (hcons : UniqConsistent O arts factory)
    (hrange : ∀ s ∈ arts, ∀ obj, (s.curve, some obj) ∈ factory → SigRange obj.curve.n s) :
    ∃ res answers, checkSolved (envOf lcg factory) S k O factory arts = .ok (res, answers) := by
  obtain ⟨res, hres⟩ := check_total k O factory arts hF hcons (fun _ s hs obj hm => by
    obtain ⟨_, _, h1, h2⟩ := hrange s hs obj hm
    exact C02S.wf_of_range _ (hprime _ obj hm).1 _ h1 h2)
  have hwf := check_calls_wf (envOf lcg factory) k hk O factory arts res hres
    (fun cid obj hm => ⟨(hprime cid obj hm).1, (hprime cid obj hm).2, factoryN_of_mem hnd hm⟩)
    hcons hrange
  obtain ⟨a, ha⟩ := solveAll_total (envOf lcg factory) hlcg S hS res.calls hwf
  exact ⟨res, a, by rw [checkSolved, hres]; simp only; rw [ha]⟩

/-- what `checkSolved` returns is what `check` returns (all C02 / C08 statements about `check`
apply to the composed model). -/
theorem checkSolved_ok (E : SolverEnv) (S : SolverOracle) (k : Kind) (O : Nat → GroupOracle)
    (factory : Factory) (arts : List Sig) (res : CheckResult)
    (answers : List (Nat × List (List (List Int))))
    (h : checkSolved E S k O factory arts = .ok (res, answers)) :
    check k O factory arts = .ok res ∧ solveAll E S res.calls = .ok answers := by
  unfold checkSolved at h
  split at h
  · cases h
  · rename_i res' hres
    split at h
    · cases h
    · rename_i a ha
      cases h
      exact ⟨hres, ha⟩

end Paranoid.EcdsaChecks
