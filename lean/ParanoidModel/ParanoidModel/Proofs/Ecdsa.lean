/-
Proofs/Ecdsa.lean — lemmas for C09: `TransformOrderLen` = RFC 6979 `bits2int` followed by one
reduction, `HiddenNumberParams` algebra, `ECDSAValues`, `Hex2Bytes`.
-/
import ParanoidModel.Model.Ecdsa
import ParanoidModel.Spec.Rfc6979
import ParanoidModel.Proofs.Basic
import Mathlib.Data.ZMod.Basic
import Mathlib.Algebra.Field.ZMod
namespace Paranoid
open Rfc6979

theorem ofBits_foldl (l : List Bool) (acc : Nat) :
    l.foldl (fun a b => 2 * a + b.toNat) acc = acc * 2 ^ l.length + ofBits l := by
  induction l generalizing acc with
  | nil => simp [ofBits]
  | cons x t ih =>
    simp only [List.foldl_cons, List.length_cons, ofBits]
    rw [ih, ih (2 * 0 + x.toNat)]
    ring

theorem ofBits_cons (x : Bool) (t : List Bool) :
    ofBits (x :: t) = x.toNat * 2 ^ t.length + ofBits t := by
  simp only [ofBits, List.foldl_cons]
  rw [ofBits_foldl]; simp [ofBits]

theorem toBits_length (h blen : Nat) : (toBits h blen).length = blen := by simp [toBits]

theorem toBits_succ (h blen : Nat) : toBits h (blen + 1) = h.testBit blen :: toBits h blen := by
  unfold toBits
  rw [List.range_succ_eq_map, List.map_cons, List.map_map]
  congr 1
  apply List.map_congr_left
  intro i hi
  rw [List.mem_range] at hi
  simp only [Function.comp]
  congr 1
  omega

theorem ofBits_toBits (blen : Nat) (h : Nat) : ofBits (toBits h blen) = h % 2 ^ blen := by
  induction blen with
  | zero => simp [toBits, ofBits, Nat.mod_one]
  | succ k ih =>
    rw [toBits_succ, ofBits_cons, toBits_length, ih, Nat.mod_pow_succ, Nat.toNat_testBit]
    ring

theorem ofBits_lt (l : List Bool) : ofBits l < 2 ^ l.length := by
  induction l with
  | nil => simp [ofBits]
  | cons x t ih =>
    rw [ofBits_cons, List.length_cons, Nat.pow_succ]
    have : x.toNat ≤ 1 := by cases x <;> simp
    nlinarith

theorem ofBits_zeros_append (k : Nat) (b : List Bool) :
    ofBits (List.replicate k false ++ b) = ofBits b := by
  induction k with
  | zero => simp
  | succ k ih => rw [List.replicate_succ, List.cons_append, ofBits_cons, ih]; simp

theorem take_toBits (h blen q : Nat) (hq : q ≤ blen) :
    (toBits h blen).take q = toBits (h >>> (blen - q)) q := by
  unfold toBits
  rw [← List.map_take, List.take_range, Nat.min_eq_left hq]
  apply List.map_congr_left
  intro i hi
  rw [List.mem_range] at hi
  rw [Nat.testBit_shiftRight]
  congr 1
  omega

/-- `bits2int` of the `blen`-bit string of `h`: the `min(blen, qlen)` leftmost bits. -/
theorem bits2int_toBits (qlen h blen : Nat) (hh : h < 2 ^ blen) :
    bits2int qlen (toBits h blen) = if qlen < blen then h >>> (blen - qlen) else h := by
  unfold bits2int
  rw [toBits_length]
  split
  · rename_i hlt
    rw [take_toBits _ _ _ (Nat.le_of_lt hlt), ofBits_toBits]
    apply Nat.mod_eq_of_lt
    rw [Nat.shiftRight_eq_div_pow, Nat.div_lt_iff_lt_mul (Nat.two_pow_pos _), ← Nat.pow_add]
    rwa [show qlen + (blen - qlen) = blen by omega]
  · rw [ofBits_zeros_append, ofBits_toBits, Nat.mod_eq_of_lt hh]

theorem bits2int_lt (qlen : Nat) (b : List Bool) : bits2int qlen b < 2 ^ qlen := by
  unfold bits2int
  split
  · rename_i h
    have := ofBits_lt (b.take qlen)
    rwa [List.length_take, Nat.min_eq_left (Nat.le_of_lt h)] at this
  · rename_i h
    have := ofBits_lt (List.replicate (qlen - b.length) false ++ b)
    rwa [List.length_append, List.length_replicate, show qlen - b.length + b.length = qlen by omega] at this

/-- `% n` and the single conditional subtraction of RFC 6979 agree on everything `bits2int`
can return when `qlen = bitLength n`, because `2^qlen ≤ 2n`. -/
theorem mod_eq_reduceOnce (n z1 : Nat) (hn : n ≠ 0) (hz : z1 < 2 ^ bitLength n) :
    z1 % n = reduceOnce z1 n := by
  have h2 : 2 ^ bitLength n ≤ 2 * n := by
    have := two_pow_le_of_bitLength n hn
    have hb : bitLength n ≠ 0 := by unfold bitLength; simp [hn]
    have e : 2 ^ bitLength n = 2 * 2 ^ (bitLength n - 1) := by
      conv_lhs => rw [show bitLength n = (bitLength n - 1) + 1 by omega]
      rw [Nat.pow_succ]; ring
    omega
  unfold reduceOnce
  split
  · exact Nat.mod_eq_of_lt ‹_›
  · rename_i hge
    rw [Nat.mod_eq_sub_mod (by omega)]
    exact Nat.mod_eq_of_lt (by omega)

theorem orderShift_nat (n h hlen : Nat) :
    orderShift n (h : Int) (hlen : Int) =
      ((if bitLength n < hlen then h >>> (hlen - bitLength n) else h : Nat) : Int) := by
  unfold orderShift
  by_cases hc : bitLength n < hlen
  · have h1 : (hlen : Int) - (bitLength n : Int) > 0 := by omega
    have h2 : ((hlen : Int) - (bitLength n : Int)).toNat = hlen - bitLength n := by omega
    simp only [h1, hc, ↓reduceIte, h2]
    rfl
  · have h1 : ¬ (hlen : Int) - (bitLength n : Int) > 0 := by omega
    simp only [h1, hc, ↓reduceIte]

theorem transformOrderLen_nat (n h hlen : Nat) (hn : n ≠ 0) :
    transformOrderLen n (h : Int) (hlen : Int) =
      .ok ((if bitLength n < hlen then h >>> (hlen - bitLength n) else h) % n) := by
  unfold transformOrderLen
  rw [orderShift_nat]
  simp only [hn, ↓reduceIte]
  congr 1

/-- the `hlen`-bit string of `h`, cut by `bits2int` to the order length and reduced: this is
what `TransformOrderLen` returns (all `hlen`: shorter, equal, longer than `qlen`). -/
theorem transformOrderLen_bits (n h hlen : Nat) (hn : n ≠ 0) (hh : h < 2 ^ hlen) :
    transformOrderLen n (h : Int) (hlen : Int) =
      .ok (bits2int (bitLength n) (toBits h hlen) % n) := by
  rw [transformOrderLen_nat n h hlen hn, bits2int_toBits _ _ _ hh]

/-! ### octet strings -/

theorem toBits_append (a x m k : Nat) (hx : x < 2 ^ k) :
    toBits (a * 2 ^ k + x) (m + k) = toBits a m ++ toBits x k := by
  apply List.ext_getElem
  · simp [toBits_length]
  · intro i h1 h2
    simp only [toBits, List.getElem_map, List.getElem_range, List.getElem_append, List.length_map,
      List.length_range]
    rw [Nat.mul_comm, Nat.testBit_two_pow_mul_add a hx]
    simp only [toBits_length] at h1
    by_cases hi : i < m
    · have : ¬ (m + k - 1 - i < k) := by omega
      rw [if_neg this, dif_pos hi]
      congr 1; omega
    · have : m + k - 1 - i < k := by omega
      rw [if_pos this, dif_neg hi]
      congr 1; omega

theorem octetsToBits_append_singleton (l : List Nat) (x : Nat) :
    octetsToBits (l ++ [x]) = octetsToBits l ++ toBits x 8 := by
  simp [octetsToBits]

/-- the integer `Bytes2Int` reads from an octet string, written as `8·len` bits, is the octet
string's own bit sequence. -/
theorem toBits_bytes2int (o : List Nat) (h : ∀ x ∈ o, x < 256) :
    toBits (bytes2int o) (o.length * 8) = octetsToBits o := by
  induction o using List.reverseRecOn with
  | nil => simp [toBits, octetsToBits]
  | append_singleton l x ih =>
    have hx : x < 2 ^ 8 := h x (by simp)
    rw [bytes2int_append_singleton, octetsToBits_append_singleton, List.length_append,
      List.length_singleton, Nat.add_mul, Nat.one_mul,
      show bytes2int l * 256 + x = bytes2int l * 2 ^ 8 + x from rfl,
      toBits_append _ _ _ _ hx, ih (fun y hy => h y (by simp [hy]))]

theorem bytes2int_lt_two_pow (o : List Nat) (h : ∀ x ∈ o, x < 256) :
    bytes2int o < 2 ^ (o.length * 8) := by
  have := bytes2int_lt o h
  rwa [show (256 : Nat) = 2 ^ 8 from rfl, ← Nat.pow_mul, Nat.mul_comm] at this

/-- `ECDSAValues`: `r`, `s` are the big-endian values of their fields; `z` is
`bits2int(message_hash)` reduced modulo `n`, with `hlen = 8 · len(message_hash)`. -/
theorem ecdsaValues_eq (n : Nat) (r s mh : List Nat) (hn : n ≠ 0) (hmh : ∀ x ∈ mh, x < 256) :
    ecdsaValues n r s mh =
      .ok (bytes2int r, bytes2int s, bits2int (bitLength n) (octetsToBits mh) % n) := by
  unfold ecdsaValues
  rw [transformOrderLen_bits n _ _ hn (bytes2int_lt_two_pow mh hmh), toBits_bytes2int mh hmh]

theorem ecdsaValues_comp (n : Nat) (r s mh : List Nat) :
    ecdsaValues n r s mh =
      (transformOrderLen n (bytes2int mh) ((8 * mh.length : Nat) : Int)).map
        (fun z => (bytes2int r, bytes2int s, z)) := by
  unfold ecdsaValues
  rw [Nat.mul_comm]
  cases transformOrderLen n (bytes2int mh) ((8 * mh.length : Nat) : Int) <;> rfl

/-! ### HiddenNumberParams -/

theorem mulMod_spec (x : Int) (si n : Nat) (hn : n ≠ 0) :
    mulMod x si n < n ∧ (mulMod x si n : Int) ≡ x * si [ZMOD (n : Int)] := by
  have hnz : (n : Int) ≠ 0 := by omega
  have h0 := Int.emod_nonneg (x * (si : Int)) hnz
  have h1 := Int.emod_lt_of_pos (x * (si : Int)) (show (0 : Int) < n by omega)
  unfold mulMod
  refine ⟨by omega, ?_⟩
  rw [Int.toNat_of_nonneg h0]
  exact Int.mod_modEq _ _

/-- `HiddenNumberParams` for any modulus `n ≥ 2` and any `s` invertible modulo `n`:
if `s·k ≡ z + r·d`, the returned pair satisfies `k ≡ a + b·d (mod n)`, `a, b < n`. -/
theorem hiddenNumberParams_spec (n : Nat) (hn : 2 ≤ n) (r s z d k : Int)
    (hs : Int.gcd s n = 1) (hsig : s * k ≡ z + r * d [ZMOD (n : Int)]) :
    ∃ a b : Nat, hiddenNumberParams n r s z = .ok (a, b) ∧ a < n ∧ b < n ∧
      (a : Int) + b * d ≡ k [ZMOD (n : Int)] := by
  rcases invMod_cases s n hn with ⟨_, si, hsi, _, hinv⟩ | ⟨hg, _⟩
  · have hn0 : n ≠ 0 := by omega
    obtain ⟨ha, hac⟩ := mulMod_spec z si n hn0
    obtain ⟨hb, hbc⟩ := mulMod_spec r si n hn0
    refine ⟨mulMod z si n, mulMod r si n, ?_, ha, hb, ?_⟩
    · simp [hiddenNumberParams, hsi]
    · have hinv' : s * si ≡ 1 [ZMOD (n : Int)] := by
        rw [Int.ModEq, hinv]; symm; exact Int.emod_eq_of_lt (by omega) (by omega)
      calc (mulMod z si n : Int) + mulMod r si n * d
          ≡ z * si + r * si * d [ZMOD (n : Int)] := hac.add (hbc.mul_right d)
        _ = (z + r * d) * si := by ring
        _ ≡ (s * k) * si [ZMOD (n : Int)] := (hsig.symm).mul_right _
        _ = (s * si) * k := by ring
        _ ≡ 1 * k [ZMOD (n : Int)] := hinv'.mul_right k
        _ = k := by ring
  · exact absurd hs hg

/-- when `HiddenNumberParams` raises: exactly `ZeroDivisionError`, exactly for `s` not
invertible modulo `n` (`n ≥ 2`). -/
theorem hiddenNumberParams_error_iff (n : Nat) (hn : 2 ≤ n) (r s z : Int) (e : PyErr) :
    hiddenNumberParams n r s z = .error e ↔ (e = .zeroDivision ∧ Int.gcd s n ≠ 1) := by
  rcases invMod_cases s n hn with ⟨hg, si, hsi, _, _⟩ | ⟨hg, herr⟩
  · simp [hiddenNumberParams, hsi, hg]
  · simp only [hiddenNumberParams, herr, Except.error.injEq, hg, ne_eq, not_false_eq_true, and_true]
    exact eq_comm

theorem gcd_eq_one_of_prime (n : Nat) (hp : n.Prime) (s : Int) (hs : s % (n : Int) ≠ 0) :
    Int.gcd s n = 1 := by
  rw [Int.gcd_comm]
  show Nat.gcd _ _ = 1
  rw [Int.natAbs_natCast]
  apply (Nat.Prime.coprime_iff_not_dvd hp).2
  intro hd
  apply hs
  exact Int.emod_eq_zero_of_dvd (Int.natCast_dvd.2 hd)

/-- ★ `hnparams`, field form: `n` prime, `s = k⁻¹ (z + r d)` in `ZMod n`, `k ≠ 0`, `s ≠ 0`. -/
theorem hnparams_zmod (n : Nat) [Fact n.Prime] (r s z d k : Int)
    (hk : (k : ZMod n) ≠ 0) (hs : (s : ZMod n) ≠ 0)
    (hsig : (s : ZMod n) = (k : ZMod n)⁻¹ * ((z : ZMod n) + r * d)) :
    ∃ a b : Nat, hiddenNumberParams n r s z = .ok (a, b) ∧ a < n ∧ b < n ∧
      (k : ZMod n) = (a : ZMod n) + (b : ZMod n) * d := by
  have hp : n.Prime := Fact.out
  have hs' : s % (n : Int) ≠ 0 := by
    intro h
    apply hs
    rw [ZMod.intCast_zmod_eq_zero_iff_dvd]
    exact Int.dvd_of_emod_eq_zero h
  have hsig' : s * k ≡ z + r * d [ZMOD (n : Int)] := by
    rw [← ZMod.intCast_eq_intCast_iff]
    push_cast
    have hkk : (k : ZMod n) * (k : ZMod n)⁻¹ = 1 := mul_inv_cancel₀ hk
    rw [hsig, mul_comm, ← mul_assoc, hkk, one_mul]
  obtain ⟨a, b, h1, h2, h3, h4⟩ :=
    hiddenNumberParams_spec n hp.two_le r s z d k (gcd_eq_one_of_prime n hp s hs') hsig'
  refine ⟨a, b, h1, h2, h3, ?_⟩
  rw [← ZMod.intCast_eq_intCast_iff] at h4
  push_cast at h4
  exact h4.symm

/-! ### Hex2Bytes -/

/-- value of a hex digit character (0 for a non-digit). -/
def hexDigitVal (c : Char) : Nat := match hexVal? c with | some v => v | none => 0

/-- big-endian base-16 value of a string of hex digits. -/
def hexNum (s : List Char) : Nat := s.foldl (fun a c => a * 16 + hexDigitVal c) 0

/-- every character is a hex digit `0-9a-fA-F`. -/
def AllHex (s : List Char) : Prop := ∀ c ∈ s, hexVal? c ≠ none

theorem hexVal?_lt {c : Char} {v : Nat} (h : hexVal? c = some v) : v < 16 := by
  unfold hexVal? at h
  split at h
  · simp only [Option.some.injEq] at h; omega
  · split at h
    · simp only [Option.some.injEq] at h; omega
    · split at h
      · simp only [Option.some.injEq] at h; omega
      · simp at h

theorem not_space_of_hex {c : Char} (h : hexVal? c ≠ none) : isPySpace c = false := by
  unfold hexVal? at h
  unfold isPySpace
  split at h
  · simp; omega
  · split at h
    · simp; omega
    · split at h
      · simp; omega
      · simp at h

theorem hexNum_foldl (l : List Char) (acc : Nat) :
    l.foldl (fun a c => a * 16 + hexDigitVal c) acc = acc * 16 ^ l.length + hexNum l := by
  induction l generalizing acc with
  | nil => simp [hexNum]
  | cons x t ih =>
    simp only [List.foldl_cons, List.length_cons, hexNum]
    rw [ih, ih (0 * 16 + hexDigitVal x)]
    ring

theorem hexNum_cons (c : Char) (t : List Char) :
    hexNum (c :: t) = hexDigitVal c * 16 ^ t.length + hexNum t := by
  simp only [hexNum, List.foldl_cons]
  rw [hexNum_foldl]; simp [hexNum]

theorem fromHex_even : ∀ (k : Nat) (s : List Char), s.length = 2 * k → AllHex s →
    ∃ bs, fromHex s = .ok bs ∧ bs.length = k ∧ (∀ x ∈ bs, x < 256) ∧ bytes2int bs = hexNum s
  | 0, s, hl, _ => by
    have : s = [] := List.eq_nil_of_length_eq_zero (by omega)
    subst this
    exact ⟨[], by simp [fromHex], rfl, by simp, by simp [bytes2int, hexNum]⟩
  | k + 1, s, hl, hh => by
    match s, hl, hh with
    | c :: d :: rest, hl, hh =>
      have hc : hexVal? c ≠ none := hh c (by simp)
      have hd : hexVal? d ≠ none := hh d (by simp)
      have hrest : AllHex rest := fun x hx => hh x (by simp [hx])
      have hlr : rest.length = 2 * k := by simp only [List.length_cons] at hl; omega
      obtain ⟨bs, h1, h2, h3, h4⟩ := fromHex_even k rest hlr hrest
      obtain ⟨vc, hvc⟩ := Option.ne_none_iff_exists'.1 hc
      obtain ⟨vd, hvd⟩ := Option.ne_none_iff_exists'.1 hd
      have lc := hexVal?_lt hvc
      have ld := hexVal?_lt hvd
      refine ⟨(vc * 16 + vd) :: bs, ?_, by simp [h2], ?_, ?_⟩
      · rw [fromHex]
        simp [not_space_of_hex hc, hexPair?, hvc, hvd, h1]
      · intro x hx
        simp only [List.mem_cons] at hx
        rcases hx with rfl | hx
        · omega
        · exact h3 x hx
      · rw [bytes2int_cons, h4, hexNum_cons, hexNum_cons, h2, List.length_cons, hlr]
        simp only [hexDigitVal, hvc, hvd]
        rw [show (256 : Nat) = 16 ^ 2 from rfl, ← Nat.pow_mul, Nat.pow_succ]
        ring

/-- `Hex2Bytes` on a string of hex digits of any length `L`: `⌈L/2⌉` bytes whose big-endian
value is the number the string denotes — an odd-length string is read as if prefixed by `0`
(so `"abc"` is `0a bc`, not `ab c0`). -/
theorem hex2bytes_hex (s : List Char) (hh : AllHex s) :
    ∃ bs, hex2bytes s = .ok bs ∧ bs.length = (s.length + 1) / 2 ∧ (∀ x ∈ bs, x < 256) ∧
      bytes2int bs = hexNum s := by
  unfold hex2bytes
  split
  · rename_i hodd
    have h0 : AllHex ('0' :: s) := by
      intro c hc
      simp only [List.mem_cons] at hc
      rcases hc with rfl | hc
      · decide
      · exact hh c hc
    obtain ⟨bs, h1, h2, h3, h4⟩ := fromHex_even ((s.length + 1) / 2) ('0' :: s)
      (by simp only [List.length_cons]; omega) h0
    refine ⟨bs, h1, h2, h3, ?_⟩
    rw [h4, hexNum_cons]
    simp [hexDigitVal, hexVal?]
  · rename_i heven
    obtain ⟨bs, h1, h2, h3, h4⟩ := fromHex_even ((s.length + 1) / 2) s (by omega) hh
    exact ⟨bs, h1, h2, h3, h4⟩

/-- ASCII whitespace in front of a byte (i.e. between digit pairs, leading or trailing) is
skipped by `bytes.fromhex`. -/
theorem fromHex_skip_space (c : Char) (s : List Char) (hc : isPySpace c = true) :
    fromHex (c :: s) = fromHex s := by
  cases s with
  | nil => simp [fromHex, hc]
  | cons d rest => rw [fromHex, if_pos hc]

/-- anything but whitespace-separated pairs of hex digits is a `ValueError`; no other
exception is possible. -/
theorem hex2bytes_error (s : List Char) (e : PyErr) (h : hex2bytes s = .error e) :
    e = .valueError := by
  have key : ∀ (k : Nat) (t : List Char), t.length ≤ k → fromHex t = .error e → e = .valueError := by
    intro k
    induction k with
    | zero =>
      intro t ht h
      have : t = [] := List.eq_nil_of_length_eq_zero (by omega)
      subst this; simp [fromHex] at h
    | succ k ih =>
      intro t ht h
      match t, ht, h with
      | [], _, h => simp [fromHex] at h
      | [c], _, h =>
        rw [fromHex] at h
        split at h
        · simp at h
        · simp only [Except.error.injEq] at h; exact h.symm
      | c :: d :: rest, ht, h =>
        rw [fromHex] at h
        split at h
        · exact ih (d :: rest) (by simp only [List.length_cons] at ht ⊢; omega) h
        · split at h
          · simp only [Except.error.injEq] at h; exact h.symm
          · split at h
            · rename_i e' he'
              simp only [Except.error.injEq] at h
              subst h
              exact ih rest (by simp only [List.length_cons] at ht; omega) he'
            · simp at h
  unfold hex2bytes at h
  split at h
  · exact key _ _ (Nat.le_refl _) h
  · exact key _ _ (Nat.le_refl _) h
end Paranoid
