/-
Proofs/EcdsaChecks.lean — lemmas about Model/EcdsaChecks.lean that need no elliptic-curve facts:
`_MapIssuerSigIndexes` (partition of the indices), the dict / loop of `_IssuerDLogs` (exact
behaviour: last matching guess), the window loop, the solver arguments, grouping by curve and
writing back by index, the loop over CURVE_FACTORY, the set-order oracles.
-/
import ParanoidModel.Model.EcdsaChecks
import Mathlib.Data.List.Forall2
namespace Paranoid.EcdsaChecks
open Paranoid Paranoid.Ec

/-! ### `_MapIssuerSigIndexes` -/

/-- the indices `i0 + j` of the signatures of `sigs` whose issuer key is `k`, increasing. -/
def idxOfKey (k : Key) : Nat → List Sig → List Nat
  | _, [] => []
  | i, s :: ss => if s.key = k then i :: idxOfKey k (i + 1) ss else idxOfKey k (i + 1) ss

/-- `old + new` on an optional list (a missing key of the defaultdict is the empty list). -/
def optApp (o : Option (List Nat)) (l : List Nat) : Option (List Nat) :=
  match l with
  | [] => o
  | x :: xs => match o with
    | none => some (x :: xs)
    | some l0 => some (l0 ++ x :: xs)

theorem get?_push (pks : Pks) (k k' : Key) (i : Nat) :
    (pks.push k i).get? k' = if k = k' then optApp (pks.get? k') [i] else pks.get? k' := by
  induction pks with
  | nil =>
    by_cases h : k = k' <;> simp [Pks.push, Pks.get?, optApp, h]
  | cons e rest ih =>
    obtain ⟨k0, l0⟩ := e
    unfold Pks.push
    by_cases h0 : k0 = k
    · rw [if_pos h0]
      subst h0
      unfold Pks.get?
      by_cases h1 : k0 = k' <;> simp [h1, optApp]
    · rw [if_neg h0]
      unfold Pks.get?
      by_cases h1 : k0 = k'
      · have : ¬ k = k' := fun h => h0 (h1.trans h.symm)
        simp [h1, this]
      · rw [if_neg h1, if_neg h1, ih]

theorem optApp_assoc (o : Option (List Nat)) (a b : List Nat) :
    optApp (optApp o a) b = optApp o (a ++ b) := by
  cases a with
  | nil => rfl
  | cons x xs =>
    cases b with
    | nil => simp [optApp]
    | cons y ys => cases o <;> simp [optApp]

theorem get?_mapIssuerFrom (k : Key) : ∀ (ss : List Sig) (i : Nat) (pks : Pks),
    (mapIssuerFrom i ss pks).get? k = optApp (pks.get? k) (idxOfKey k i ss)
  | [], i, pks => by simp [mapIssuerFrom, idxOfKey, optApp]
  | s :: ss, i, pks => by
    unfold mapIssuerFrom idxOfKey
    rw [get?_mapIssuerFrom k ss (i + 1), get?_push]
    by_cases h : s.key = k
    · rw [if_pos h, if_pos h, optApp_assoc]; rfl
    · rw [if_neg h, if_neg h]

theorem get?_mapIssuer (k : Key) (sigs : List Sig) :
    (mapIssuerSigIndexes sigs).get? k = optApp none (idxOfKey k 0 sigs) := by
  unfold mapIssuerSigIndexes
  rw [get?_mapIssuerFrom]; rfl

theorem mem_idxOfKey (k : Key) : ∀ (ss : List Sig) (i j : Nat),
    j ∈ idxOfKey k i ss ↔ i ≤ j ∧ ∃ s, ss[j - i]? = some s ∧ s.key = k
  | [], i, j => by simp [idxOfKey]
  | s :: ss, i, j => by
    unfold idxOfKey
    have ih := mem_idxOfKey k ss (i + 1) j
    by_cases h : s.key = k
    · rw [if_pos h, List.mem_cons, ih]
      constructor
      · rintro (rfl | ⟨h1, s', h2, h3⟩)
        · exact ⟨Nat.le_refl _, s, by simp, h⟩
        · refine ⟨by omega, s', ?_, h3⟩
          have : j - i = (j - (i + 1)) + 1 := by omega
          rw [this]; simpa using h2
      · rintro ⟨h1, s', h2, h3⟩
        by_cases hj : j = i
        · left; exact hj
        · right
          refine ⟨by omega, s', ?_, h3⟩
          have : j - i = (j - (i + 1)) + 1 := by omega
          rw [this] at h2; simpa using h2
    · rw [if_neg h, ih]
      constructor
      · rintro ⟨h1, s', h2, h3⟩
        refine ⟨by omega, s', ?_, h3⟩
        have : j - i = (j - (i + 1)) + 1 := by omega
        rw [this]; simpa using h2
      · rintro ⟨h1, s', h2, h3⟩
        have hj : j ≠ i := by
          rintro rfl
          simp at h2
          subst h2
          exact h h3
        refine ⟨by omega, s', ?_, h3⟩
        have : j - i = (j - (i + 1)) + 1 := by omega
        rw [this] at h2; simpa using h2

theorem idxOfKey_sorted (k : Key) : ∀ (ss : List Sig) (i : Nat),
    (idxOfKey k i ss).Pairwise (· < ·)
  | [], _ => by simp [idxOfKey]
  | s :: ss, i => by
    unfold idxOfKey
    have ih := idxOfKey_sorted k ss (i + 1)
    split
    · rw [List.pairwise_cons]
      refine ⟨?_, ih⟩
      intro j hj
      have := (mem_idxOfKey k ss (i + 1) j).mp hj
      omega
    · exact ih

theorem keys_push (pks : Pks) (k : Key) (i : Nat) :
    ∀ k', k' ∈ (pks.push k i).map Prod.fst ↔ k' = k ∨ k' ∈ pks.map Prod.fst := by
  induction pks with
  | nil => intro k'; simp [Pks.push]
  | cons e rest ih =>
    obtain ⟨k0, l0⟩ := e
    intro k'
    unfold Pks.push
    by_cases h0 : k0 = k
    · rw [if_pos h0]; subst h0; simp
    · rw [if_neg h0]
      simp only [List.map_cons, List.mem_cons, ih k']
      constructor
      · rintro (h | h | h)
        · right; left; exact h
        · left; exact h
        · right; right; exact h
      · rintro (h | h | h)
        · right; left; exact h
        · left; exact h
        · right; right; exact h

theorem nodup_push (pks : Pks) (k : Key) (i : Nat) (h : (pks.map Prod.fst).Nodup) :
    ((pks.push k i).map Prod.fst).Nodup := by
  induction pks with
  | nil => simp [Pks.push]
  | cons e rest ih =>
    obtain ⟨k0, l0⟩ := e
    unfold Pks.push
    simp only [List.map_cons, List.nodup_cons] at h
    by_cases h0 : k0 = k
    · rw [if_pos h0]; simpa using h
    · rw [if_neg h0]
      simp only [List.map_cons, List.nodup_cons]
      refine ⟨?_, ih h.2⟩
      intro hm
      rcases (keys_push rest k i k0).mp hm with h1 | h1
      · exact h0 h1
      · exact h.1 h1

theorem nodup_mapIssuerFrom : ∀ (ss : List Sig) (i : Nat) (pks : Pks),
    (pks.map Prod.fst).Nodup → ((mapIssuerFrom i ss pks).map Prod.fst).Nodup
  | [], _, _, h => h
  | s :: ss, i, pks, h => nodup_mapIssuerFrom ss (i + 1) _ (nodup_push pks s.key i h)

theorem nodup_mapIssuer (sigs : List Sig) : ((mapIssuerSigIndexes sigs).map Prod.fst).Nodup :=
  nodup_mapIssuerFrom sigs 0 [] (by simp)

/-- in a dict (distinct keys) membership of an item is `get?`. -/
theorem mem_iff_get? (pks : Pks) (h : (pks.map Prod.fst).Nodup) (k : Key) (l : List Nat) :
    (k, l) ∈ pks ↔ pks.get? k = some l := by
  induction pks with
  | nil => simp [Pks.get?]
  | cons e rest ih =>
    obtain ⟨k0, l0⟩ := e
    simp only [List.map_cons, List.nodup_cons] at h
    unfold Pks.get?
    by_cases h0 : k0 = k
    · subst h0
      simp only [List.mem_cons, Prod.mk.injEq, true_and, if_true, Option.some.injEq]
      constructor
      · rintro (h1 | h1)
        · exact h1.symm
        · exact absurd (List.mem_map_of_mem (f := Prod.fst) h1) h.1
      · intro h1; left; exact h1.symm
    · rw [if_neg h0]
      simp only [List.mem_cons, Prod.mk.injEq]
      rw [← ih h.2]
      constructor
      · rintro (⟨h1, _⟩ | h1)
        · exact absurd h1.symm h0
        · exact h1
      · intro h1; right; exact h1

theorem get?_some_mem (pks : Pks) (k : Key) (l : List Nat) (h : pks.get? k = some l) : (k, l) ∈ pks := by
  induction pks with
  | nil => simp [Pks.get?] at h
  | cons e rest ih =>
    obtain ⟨k0, l0⟩ := e
    unfold Pks.get? at h
    split at h
    · rename_i h0; cases h; subst h0; exact List.mem_cons_self
    · exact List.mem_cons_of_mem _ (ih h)

theorem flatten_push (pks : Pks) (k : Key) (i : Nat) :
    ((pks.push k i).map Prod.snd).flatten.Perm ((pks.map Prod.snd).flatten ++ [i]) := by
  induction pks with
  | nil => simp [Pks.push]
  | cons e rest ih =>
    obtain ⟨k0, l0⟩ := e
    unfold Pks.push
    by_cases h0 : k0 = k
    · rw [if_pos h0]
      simp only [List.map_cons, List.flatten_cons, List.append_assoc]
      exact (List.perm_append_comm (l₁ := [i])).append_left l0
    · rw [if_neg h0]
      simp only [List.map_cons, List.flatten_cons, List.append_assoc]
      exact ih.append_left l0

theorem flatten_mapIssuerFrom : ∀ (ss : List Sig) (i : Nat) (pks : Pks),
    ((mapIssuerFrom i ss pks).map Prod.snd).flatten.Perm
      ((pks.map Prod.snd).flatten ++ List.range' i ss.length)
  | [], _, _ => by simp [mapIssuerFrom]
  | s :: ss, i, pks => by
    unfold mapIssuerFrom
    refine (flatten_mapIssuerFrom ss (i + 1) _).trans ?_
    refine ((flatten_push pks s.key i).append_right _).trans ?_
    simp [List.range'_succ]

theorem flatten_mapIssuer (sigs : List Sig) :
    ((mapIssuerSigIndexes sigs).map Prod.snd).flatten.Perm (List.range sigs.length) := by
  have := flatten_mapIssuerFrom sigs 0 []
  simpa [mapIssuerSigIndexes, List.range_eq_range'] using this

theorem optApp_none (l : List Nat) : optApp none l = if l = [] then none else some l := by
  cases l <;> simp [optApp]

/-- items of `_MapIssuerSigIndexes(sigs)`: exactly `(k, indices of the signatures with key k)`,
never an empty list. -/
theorem mem_mapIssuer (sigs : List Sig) (k : Key) (l : List Nat) :
    (k, l) ∈ mapIssuerSigIndexes sigs ↔ l = idxOfKey k 0 sigs ∧ l ≠ [] := by
  rw [mem_iff_get? _ (nodup_mapIssuer sigs), get?_mapIssuer, optApp_none]
  by_cases h : idxOfKey k 0 sigs = []
  · rw [if_pos h]
    constructor
    · intro h'; cases h'
    · rintro ⟨h1, h2⟩; exact absurd (h1.trans h) h2
  · rw [if_neg h]
    constructor
    · intro h'; cases h'; exact ⟨rfl, h⟩
    · rintro ⟨h1, _⟩; rw [h1]

/-- every signature index is filed under the key of its own issuer … -/
theorem mapIssuer_covers (sigs : List Sig) (i : Nat) (s : Sig) (h : sigs[i]? = some s) :
    ∃ l, (s.key, l) ∈ mapIssuerSigIndexes sigs ∧ i ∈ l := by
  have hm : i ∈ idxOfKey s.key 0 sigs := (mem_idxOfKey s.key sigs 0 i).mpr ⟨Nat.zero_le _, s, by simpa using h, rfl⟩
  refine ⟨idxOfKey s.key 0 sigs, (mem_mapIssuer sigs _ _).mpr ⟨rfl, ?_⟩, hm⟩
  intro h0; rw [h0] at hm; simp at hm

/-- … and only there. -/
theorem mapIssuer_owner (sigs : List Sig) (k : Key) (l : List Nat) (i : Nat)
    (h : (k, l) ∈ mapIssuerSigIndexes sigs) (hi : i ∈ l) : ∃ s, sigs[i]? = some s ∧ s.key = k := by
  rw [mem_mapIssuer] at h
  rw [h.1, mem_idxOfKey] at hi
  simpa using hi.2

/-! ### `_IssuerDLogs` -/

theorem dlogs_get?_set (dl : DLogs) (k k' : Nat) (v : Int) :
    (dl.set k v).get? k' = if k = k' then some v else dl.get? k' := by
  induction dl with
  | nil => by_cases h : k = k' <;> simp [DLogs.set, DLogs.get?, h]
  | cons e rest ih =>
    obtain ⟨k0, v0⟩ := e
    unfold DLogs.set
    by_cases h0 : k0 = k
    · rw [if_pos h0]; subst h0
      unfold DLogs.get?
      by_cases h1 : k0 = k' <;> simp [h1]
    · rw [if_neg h0]
      unfold DLogs.get?
      by_cases h1 : k0 = k'
      · have : ¬ k = k' := fun h => h0 (h1.trans h.symm)
        simp [h1, this]
      · rw [if_neg h1, if_neg h1, ih]

theorem get?_assignAll : ∀ (idxs : List Nat) (dl : DLogs) (g : Int) (i : Nat),
    (assignAll dl idxs g).get? i = if i ∈ idxs then some g else dl.get? i
  | [], dl, g, i => by simp [assignAll]
  | j :: js, dl, g, i => by
    unfold assignAll
    rw [get?_assignAll js, dlogs_get?_set]
    by_cases h1 : i ∈ js
    · simp [h1]
    · by_cases h2 : j = i
      · simp [h2]
      · have : ¬ i = j := fun h => h2 h.symm
        simp [h1, h2, this]

theorem keyEqPt_iff (k : Key) (P : Pt) : keyEqPt k P = true ↔ P = .aff (k.1 : Int) (k.2 : Int) := by
  cases P with
  | inf => simp [keyEqPt]
  | aff x y =>
    simp only [keyEqPt, Bool.and_eq_true, beq_iff_eq, Pt.aff.injEq]
    constructor
    · rintro ⟨h1, h2⟩; exact ⟨h1.symm, h2.symm⟩
    · rintro ⟨h1, h2⟩; exact ⟨h1.symm, h2.symm⟩

theorem aff_key_inj (k k' : Key) : Pt.aff (k.1 : Int) (k.2 : Int) = .aff (k'.1 : Int) (k'.2 : Int) ↔ k = k' := by
  constructor
  · intro h
    simp only [Pt.aff.injEq, Int.natCast_inj] at h
    exact Prod.ext h.1 h.2
  · rintro rfl; rfl

/-- `guess_pk in pks` / `pks[guess_pk]` for a computed point equal to a raw key tuple. -/
theorem lookupPt_aff (pks : Pks) (k : Key) : pks.lookupPt (.aff (k.1 : Int) (k.2 : Int)) = pks.get? k := by
  induction pks with
  | nil => rfl
  | cons e rest ih =>
    obtain ⟨k0, l0⟩ := e
    unfold Pks.lookupPt Pks.get?
    by_cases h0 : k0 = k
    · rw [if_pos h0, if_pos ((keyEqPt_iff _ _).mpr (by rw [h0]))]
    · rw [if_neg h0, if_neg, ih]
      rw [keyEqPt_iff, aff_key_inj]
      exact fun h => h0 h.symm

theorem lookupPt_some (pks : Pks) (P : Pt) (l : List Nat) (h : pks.lookupPt P = some l) :
    ∃ k : Key, P = .aff (k.1 : Int) (k.2 : Int) ∧ pks.get? k = some l := by
  induction pks with
  | nil => simp [Pks.lookupPt] at h
  | cons e rest ih =>
    obtain ⟨k0, l0⟩ := e
    unfold Pks.lookupPt at h
    split at h
    · rename_i hk
      cases h
      refine ⟨k0, (keyEqPt_iff _ _).mp hk, ?_⟩
      simp [Pks.get?]
    · rename_i hk
      obtain ⟨k, h1, h2⟩ := ih h
      refine ⟨k, h1, ?_⟩
      unfold Pks.get?
      rw [if_neg]
      · exact h2
      · rintro rfl
        exact hk ((keyEqPt_iff _ _).mpr h1)

/-- the value `_IssuerDLogs` leaves for an index filed under key `k`: the guess of the LAST
position whose computed point equals the raw key tuple. -/
def lastMatch (k : Key) : List Pt → List Int → Option Int → Option Int
  | P :: ps, g :: gs, acc => lastMatch k ps gs (if P = .aff (k.1 : Int) (k.2 : Int) then some g else acc)
  | _, _, acc => acc

/-- **exact behaviour of the loop of `_IssuerDLogs`** for an index `i` that is listed under key `k`
and under no other key. -/
theorem dlogLoop_get? (pks : Pks) (k : Key) (i : Nat)
    (hk : ∃ l, pks.get? k = some l ∧ i ∈ l)
    (hown : ∀ k' l', pks.get? k' = some l' → i ∈ l' → k' = k) :
    ∀ (pts : List Pt) (gs : List Int) (dl : DLogs),
      (dlogLoop pks pts gs dl).get? i = lastMatch k pts gs (dl.get? i)
  | [], _, _ => by simp [dlogLoop, lastMatch]
  | _ :: _, [], _ => by simp [dlogLoop, lastMatch]
  | P :: ps, g :: gs, dl => by
    unfold dlogLoop lastMatch
    rw [dlogLoop_get? pks k i hk hown ps gs]
    congr 1
    unfold dlogStep
    cases hl : pks.lookupPt P with
    | none =>
      simp only
      rw [if_neg]
      intro hP
      obtain ⟨l, h1, _⟩ := hk
      rw [hP, lookupPt_aff, h1] at hl
      cases hl
    | some l' =>
      simp only
      obtain ⟨k', hP, hget⟩ := lookupPt_some pks P l' hl
      rw [get?_assignAll]
      by_cases hi : i ∈ l'
      · have := hown k' l' hget hi
        subst this
        rw [if_pos hi, if_pos hP]
      · rw [if_neg hi, if_neg]
        intro hP'
        rw [hP, aff_key_inj] at hP'
        subst hP'
        obtain ⟨l, h1, h2⟩ := hk
        rw [h1] at hget
        cases hget
        exact hi h2

/-- an index listed under no key is never assigned. -/
theorem dlogLoop_get?_none (pks : Pks) (i : Nat)
    (hno : ∀ k' l', pks.get? k' = some l' → i ∉ l') :
    ∀ (pts : List Pt) (gs : List Int) (dl : DLogs), (dlogLoop pks pts gs dl).get? i = dl.get? i
  | [], _, _ => by simp [dlogLoop]
  | _ :: _, [], _ => by simp [dlogLoop]
  | P :: ps, g :: gs, dl => by
    unfold dlogLoop
    rw [dlogLoop_get?_none pks i hno ps gs]
    unfold dlogStep
    cases hl : pks.lookupPt P with
    | none => rfl
    | some l' =>
      simp only
      obtain ⟨k', _, hget⟩ := lookupPt_some pks P l' hl
      rw [get?_assignAll, if_neg (hno k' l' hget)]

/-- soundness of the loop for EVERY `pks` (any dict, keys repeated or not): an assigned value is a
guess whose computed point equals a raw key under which the index is listed. -/
theorem dlogLoop_sound (pks : Pks) (Q : Nat → Int → Prop) :
    ∀ (pts : List Pt) (gs : List Int) (dl : DLogs),
      (∀ P g, (P, g) ∈ pts.zip gs → ∀ k l i, P = .aff ((k : Key).1 : Int) (k.2 : Int) →
        pks.get? k = some l → i ∈ l → Q i g) →
      (∀ i d, dl.get? i = some d → Q i d) →
      ∀ i d, (dlogLoop pks pts gs dl).get? i = some d → Q i d
  | [], _, _, _, hdl => by simpa [dlogLoop] using hdl
  | _ :: _, [], _, _, hdl => by simpa [dlogLoop] using hdl
  | P :: ps, g :: gs, dl, hz, hdl => by
    unfold dlogLoop
    apply dlogLoop_sound pks Q ps gs
    · intro P' g' hm
      exact hz P' g' (by simp [List.zip_cons_cons, hm])
    · intro i d hget
      unfold dlogStep at hget
      cases hl : pks.lookupPt P with
      | none => rw [hl] at hget; exact hdl i d hget
      | some l' =>
        rw [hl] at hget
        simp only at hget
        rw [get?_assignAll] at hget
        obtain ⟨k', hP, hk'⟩ := lookupPt_some pks P l' hl
        by_cases hi : i ∈ l'
        · rw [if_pos hi] at hget
          cases hget
          exact hz P g (by simp [List.zip_cons_cons]) k' l' i hP hk' hi
        · rw [if_neg hi] at hget
          exact hdl i d hget

theorem lastMatch_isSome (k : Key) : ∀ (pts : List Pt) (gs : List Int) (acc : Option Int),
    (lastMatch k pts gs acc).isSome = true ↔
      acc.isSome = true ∨ ∃ g, (Pt.aff (k.1 : Int) (k.2 : Int), g) ∈ pts.zip gs
  | [], _, acc => by simp [lastMatch]
  | _ :: _, [], acc => by simp [lastMatch]
  | P :: ps, g :: gs, acc => by
    unfold lastMatch
    rw [lastMatch_isSome k ps gs]
    by_cases hP : P = .aff (k.1 : Int) (k.2 : Int)
    · subst hP
      simp [List.zip_cons_cons]
    · simp only [if_neg hP, List.zip_cons_cons, List.mem_cons, Prod.mk.injEq]
      constructor
      · rintro (h | ⟨g', h⟩)
        · left; exact h
        · right; exact ⟨g', Or.inr h⟩
      · rintro (h | ⟨g', h | h⟩)
        · left; exact h
        · exact absurd h.1.symm hP
        · right; exact ⟨g', h⟩

/-- the value is the guess at the last matching position. -/
theorem lastMatch_some (k : Key) : ∀ (pts : List Pt) (gs : List Int) (acc : Option Int) (d : Int),
    lastMatch k pts gs acc = some d →
      (acc = some d ∧ ∀ g, (Pt.aff (k.1 : Int) (k.2 : Int), g) ∉ pts.zip gs) ∨
      ∃ pre post, pts.zip gs = pre ++ (Pt.aff (k.1 : Int) (k.2 : Int), d) :: post ∧
        ∀ e ∈ post, e.1 ≠ Pt.aff (k.1 : Int) (k.2 : Int)
  | [], _, acc, d, h => by left; simpa [lastMatch] using h
  | _ :: _, [], acc, d, h => by left; simpa [lastMatch] using h
  | P :: ps, g :: gs, acc, d, h => by
    unfold lastMatch at h
    rcases lastMatch_some k ps gs _ d h with ⟨h1, h2⟩ | ⟨pre, post, h1, h2⟩
    · by_cases hP : P = .aff (k.1 : Int) (k.2 : Int)
      · rw [if_pos hP] at h1
        cases h1
        right
        refine ⟨[], ps.zip gs, by simp [List.zip_cons_cons, hP], ?_⟩
        intro e he he1
        exact h2 e.2 (by rw [← he1]; exact he)
      · rw [if_neg hP] at h1
        left
        refine ⟨h1, ?_⟩
        intro g' hm
        simp only [List.zip_cons_cons, List.mem_cons, Prod.mk.injEq] at hm
        rcases hm with hm | hm
        · exact hP hm.1.symm
        · exact h2 g' hm
    · right
      exact ⟨(P, g) :: pre, post, by simp [List.zip_cons_cons, h1], h2⟩

/-! ### the window loop -/

theorem chunksAux_eq {α} (size : Nat) (hs : 0 < size) : ∀ (fuel : Nat) (l : List α), l.length ≤ fuel →
    chunksAux size fuel l = match l with
      | [] => []
      | x :: xs => (x :: xs).take size :: chunksAux size ((x :: xs).drop size).length ((x :: xs).drop size)
  | 0, l, h => by
    cases l with
    | nil => rfl
    | cons x xs => simp at h
  | fuel + 1, l, h => by
    cases l with
    | nil => rfl
    | cons x xs =>
      simp only [chunksAux]
      congr 1
      have hlen : ((x :: xs).drop size).length ≤ fuel := by
        simp only [List.length_drop, List.length_cons] at *; omega
      generalize (x :: xs).drop size = r at hlen
      -- fuel independence
      have key : ∀ (f1 f2 : Nat) (r : List α), r.length ≤ f1 → r.length ≤ f2 →
          chunksAux size f1 r = chunksAux size f2 r := by
        intro f1
        induction f1 with
        | zero =>
          intro f2 r h1 h2
          cases r with
          | nil => cases f2 <;> rfl
          | cons y ys => simp at h1
        | succ f1 ih =>
          intro f2 r h1 h2
          cases r with
          | nil => cases f2 <;> rfl
          | cons y ys =>
            cases f2 with
            | zero => simp at h2
            | succ f2 =>
              simp only [chunksAux]
              congr 1
              apply ih
              · simp only [List.length_drop, List.length_cons] at *; omega
              · simp only [List.length_drop, List.length_cons] at *; omega
      exact key _ _ r hlen (Nat.le_refl _)

/-- `chunks size l = [l[0:size]] + chunks size l[size:]` for a non-empty `l`. -/
theorem chunks_cons {α} (size : Nat) (hs : 0 < size) (x : α) (xs : List α) :
    chunks size (x :: xs) = (x :: xs).take size :: chunks size ((x :: xs).drop size) := by
  unfold chunks
  rw [chunksAux_eq size hs _ _ (Nat.le_refl _)]

theorem chunks_nil {α} (size : Nat) : chunks size ([] : List α) = [] := rfl

/-- a list that fits in one window is handed over in one piece. -/
theorem chunks_of_le {α} (size : Nat) (hs : 0 < size) (l : List α) (h0 : l ≠ []) (h : l.length ≤ size) :
    chunks size l = [l] := by
  cases l with
  | nil => exact absurd rfl h0
  | cons x xs =>
    rw [chunks_cons size hs, List.take_of_length_le h, List.drop_of_length_le h, chunks_nil]

/-- the windows of one size are a partition of the list into consecutive pieces. -/
theorem chunks_flatten {α} (size : Nat) (hs : 0 < size) : ∀ (n : Nat) (l : List α), l.length ≤ n →
    (chunks size l).flatten = l
  | 0, l, h => by
    cases l with
    | nil => rfl
    | cons x xs => simp at h
  | n + 1, l, h => by
    cases l with
    | nil => rfl
    | cons x xs =>
      rw [chunks_cons size hs, List.flatten_cons, chunks_flatten size hs n, List.take_append_drop]
      simp only [List.length_drop, List.length_cons] at *; omega

/-- every window is non-empty, at most `size` long, and a consecutive slice `l[i:i+size]`. -/
theorem chunks_mem {α} (size : Nat) (hs : 0 < size) : ∀ (n : Nat) (l : List α), l.length ≤ n →
    ∀ w ∈ chunks size l, ∃ i, i < l.length ∧ i % size = 0 ∧ w = (l.drop i).take size ∧ w ≠ []
  | 0, l, h, w, hw => by
    cases l with
    | nil => simp [chunks_nil] at hw
    | cons x xs => simp at h
  | n + 1, l, h, w, hw => by
    cases l with
    | nil => simp [chunks_nil] at hw
    | cons x xs =>
      rw [chunks_cons size hs, List.mem_cons] at hw
      rcases hw with rfl | hw
      · refine ⟨0, by simp, by simp, by simp, ?_⟩
        cases size with
        | zero => omega
        | succ s => simp
      · have hlen : ((x :: xs).drop size).length ≤ n := by
          simp only [List.length_drop, List.length_cons] at *; omega
        obtain ⟨i, h1, h2, h3, h4⟩ := chunks_mem size hs n _ hlen w hw
        refine ⟨size + i, ?_, ?_, ?_, h4⟩
        · simp only [List.length_drop] at h1; omega
        · rw [Nat.add_mod, h2]; simp
        · rw [h3, List.drop_drop]

theorem sizeLoop_windowSizes {α} (l : List α) :
    sizeLoop windowSizes l =
      if l.length ≤ 24 then chunks 24 l
      else if l.length ≤ 48 then chunks 24 l ++ chunks 48 l
      else chunks 24 l ++ chunks 48 l ++ chunks 120 l := by
  simp only [sizeLoop, windowSizes]
  by_cases h1 : l.length ≤ 24
  · simp [h1]
  · by_cases h2 : l.length ≤ 48
    · simp [h1, h2]
    · by_cases h3 : l.length ≤ 120
      · simp [h1, h2, h3]
      · simp [h1, h2, h3]

/-! ### solver arguments -/

theorem hnpParamsList_ok (n : Nat) : ∀ (uniq : List Triple) (ab : List (Nat × Nat)),
    hnpParamsList n uniq = .ok ab ↔
      List.Forall₂ (fun (v : Triple) p => hiddenNumberParams n v.1 v.2.1 v.2.2 = .ok p) uniq ab
  | [], ab => by
    simp only [hnpParamsList]
    constructor
    · intro h; cases h; exact .nil
    · intro h; cases h; rfl
  | v :: rest, ab => by
    unfold hnpParamsList
    cases hv : hiddenNumberParams n v.1 v.2.1 v.2.2 with
    | error e =>
      simp only
      constructor
      · intro h; cases h
      · intro h
        cases h with
        | cons h1 _ => rw [hv] at h1; cases h1
    | ok p =>
      simp only
      cases hr : hnpParamsList n rest with
      | error e =>
        simp only
        constructor
        · intro h; cases h
        · intro h
          cases h with
          | cons _ h2 =>
            rw [← hnpParamsList_ok n rest, hr] at h2; cases h2
      | ok ps =>
        simp only
        constructor
        · intro h; cases h
          exact .cons hv ((hnpParamsList_ok n rest ps).mp hr)
        · intro h
          cases h with
          | cons h1 h2 =>
            rw [hv] at h1; cases h1
            rw [← hnpParamsList_ok n rest, hr] at h2; cases h2
            rfl

theorem hnpParamsList_error (n : Nat) : ∀ (uniq : List Triple) (e : PyErr),
    hnpParamsList n uniq = .error e ↔
      ∃ pre v post, uniq = pre ++ v :: post ∧ hiddenNumberParams n v.1 v.2.1 v.2.2 = .error e ∧
        ∀ u ∈ pre, ∃ p, hiddenNumberParams n u.1 u.2.1 u.2.2 = .ok p
  | [], e => by simp [hnpParamsList]
  | v :: rest, e => by
    unfold hnpParamsList
    cases hv : hiddenNumberParams n v.1 v.2.1 v.2.2 with
    | error e' =>
      simp only
      constructor
      · intro h; cases h
        exact ⟨[], v, rest, rfl, hv, by simp⟩
      · rintro ⟨pre, u, post, h1, h2, h3⟩
        cases pre with
        | nil =>
          simp only [List.nil_append, List.cons.injEq] at h1
          rw [← h1.1, hv] at h2; cases h2; rfl
        | cons w pre =>
          simp only [List.cons_append, List.cons.injEq] at h1
          obtain ⟨p, hp⟩ := h3 w (by simp)
          rw [← h1.1, hv] at hp; cases hp
    | ok p =>
      simp only
      cases hr : hnpParamsList n rest with
      | error e' =>
        simp only
        have ih := (hnpParamsList_error n rest e')
        constructor
        · intro h; cases h
          obtain ⟨pre, u, post, h1, h2, h3⟩ := ih.mp hr
          refine ⟨v :: pre, u, post, by rw [h1]; rfl, h2, ?_⟩
          intro w hw
          rcases List.mem_cons.mp hw with rfl | hw
          · exact ⟨p, hv⟩
          · exact h3 w hw
        · rintro ⟨pre, u, post, h1, h2, h3⟩
          cases pre with
          | nil =>
            simp only [List.nil_append, List.cons.injEq] at h1
            rw [← h1.1, hv] at h2; cases h2
          | cons w pre =>
            simp only [List.cons_append, List.cons.injEq] at h1
            have : hnpParamsList n rest = .error e :=
              (hnpParamsList_error n rest e).mpr ⟨pre, u, post, h1.2, h2,
                fun x hx => h3 x (List.mem_cons_of_mem _ hx)⟩
            rw [hr] at this; cases this; rfl
      | ok ps =>
        simp only
        constructor
        · intro h; cases h
        · rintro ⟨pre, u, post, h1, h2, h3⟩
          cases pre with
          | nil =>
            simp only [List.nil_append, List.cons.injEq] at h1
            rw [← h1.1, hv] at h2; cases h2
          | cons w pre =>
            simp only [List.cons_append, List.cons.injEq] at h1
            have : hnpParamsList n rest = .error e :=
              (hnpParamsList_error n rest e).mpr ⟨pre, u, post, h1.2, h2,
                fun x hx => h3 x (List.mem_cons_of_mem _ hx)⟩
            rw [hr] at this; cases this

/-- the Cr50 sliding window: consecutive pairs, then the last value with `(1, 1, 0)`. -/
def cr50Spec (n : Nat) : List Triple → List Call
  | [] => []
  | [v] => [Call.cr50 v (1, 1, 0) n]
  | v :: w :: rest => Call.cr50 v w n :: cr50Spec n (w :: rest)

theorem cr50Calls_eq (n : Nat) : ∀ (uniq : List Triple), uniq ≠ [] →
    cr50Calls n uniq = .ok (cr50Spec n uniq)
  | [], h => absurd rfl h
  | [v], _ => rfl
  | v :: w :: rest, _ => by
    unfold cr50Calls cr50Spec
    rw [cr50Calls_eq n (w :: rest) (by simp)]

theorem cr50Calls_nil (n : Nat) : cr50Calls n [] = .error .indexError := rfl

theorem cr50Spec_length (n : Nat) : ∀ (uniq : List Triple), (cr50Spec n uniq).length = uniq.length
  | [] => rfl
  | [_] => rfl
  | _ :: w :: rest => by
    unfold cr50Spec
    simp [cr50Spec_length n (w :: rest)]

/-! ### grouping by curve, writing back by index -/

theorem mem_groupFrom (cid : Nat) : ∀ (arts : List Sig) (i0 bi : Nat) (s : Sig),
    (bi, s) ∈ groupFrom cid i0 arts ↔ i0 ≤ bi ∧ arts[bi - i0]? = some s ∧ s.curve = cid
  | [], i0, bi, s => by simp [groupFrom]
  | a :: as, i0, bi, s => by
    unfold groupFrom
    have ih := mem_groupFrom cid as (i0 + 1) bi s
    have hsub : i0 < bi → bi - i0 = (bi - (i0 + 1)) + 1 := by omega
    by_cases h : a.curve = cid
    · rw [if_pos h, List.mem_cons, ih]
      constructor
      · rintro (h1 | ⟨h1, h2, h3⟩)
        · cases h1; exact ⟨Nat.le_refl _, by simp, h⟩
        · refine ⟨by omega, ?_, h3⟩
          rw [hsub (by omega)]; simpa using h2
      · rintro ⟨h1, h2, h3⟩
        by_cases hb : bi = i0
        · left; subst hb; simp at h2; rw [h2]
        · right
          refine ⟨by omega, ?_, h3⟩
          rw [hsub (by omega)] at h2; simpa using h2
    · rw [if_neg h, ih]
      constructor
      · rintro ⟨h1, h2, h3⟩
        refine ⟨by omega, ?_, h3⟩
        rw [hsub (by omega)]; simpa using h2
      · rintro ⟨h1, h2, h3⟩
        have hb : bi ≠ i0 := by
          rintro rfl
          simp at h2; subst h2; exact h h3
        refine ⟨by omega, ?_, h3⟩
        rw [hsub (by omega)] at h2; simpa using h2

theorem groupFrom_sorted (cid : Nat) : ∀ (arts : List Sig) (i0 : Nat),
    ((groupFrom cid i0 arts).map Prod.fst).Pairwise (· < ·)
  | [], _ => by simp [groupFrom]
  | a :: as, i0 => by
    unfold groupFrom
    have ih := groupFrom_sorted cid as (i0 + 1)
    split
    · rw [List.map_cons, List.pairwise_cons]
      refine ⟨?_, ih⟩
      intro j hj
      obtain ⟨⟨j', s⟩, hm, rfl⟩ := List.mem_map.mp hj
      have := (mem_groupFrom cid as (i0 + 1) j' s).mp hm
      simp only; omega
    · exact ih

theorem groupFrom_nodup (cid : Nat) (arts : List Sig) (i0 : Nat) :
    ((groupFrom cid i0 arts).map Prod.fst).Nodup :=
  (groupFrom_sorted cid arts i0).imp (fun h => Nat.ne_of_lt h)

theorem groupWrites_fst (dl : DLogs) : ∀ (group : List (Nat × Sig)) (g0 : Nat),
    (groupWrites dl g0 group).map Prod.fst = group.map Prod.fst
  | [], _ => rfl
  | (bi, s) :: rest, g0 => by
    unfold groupWrites
    simp [groupWrites_fst dl rest (g0 + 1)]

theorem verdictOf_none (w : List (Nat × Verdict)) (i : Nat) :
    verdictOf w i = none ↔ i ∉ w.map Prod.fst := by
  induction w with
  | nil => simp [verdictOf]
  | cons e rest ih =>
    obtain ⟨j, v⟩ := e
    unfold verdictOf
    by_cases h : j = i
    · simp [h]
    · rw [if_neg h, ih]
      simp only [List.map_cons, List.mem_cons, not_or]
      exact ⟨fun h' => ⟨fun h'' => h h''.symm, h'⟩, fun h' => h'.2⟩

theorem verdictOf_append (a b : List (Nat × Verdict)) (i : Nat) :
    verdictOf (a ++ b) i = match verdictOf a i with
      | some v => some v
      | none => verdictOf b i := by
  induction a with
  | nil => rfl
  | cons e rest ih =>
    obtain ⟨j, v⟩ := e
    simp only [List.cons_append, verdictOf]
    by_cases h : j = i
    · simp [h]
    · rw [if_neg h, if_neg h, ih]

/-- results are written back by index: the `gi`-th signature of the group receives the verdict
computed for group index `gi`. -/
theorem verdictOf_groupWrites (dl : DLogs) : ∀ (group : List (Nat × Sig)) (g0 gi bi : Nat) (s : Sig),
    (group.map Prod.fst).Nodup → group[gi]? = some (bi, s) →
    verdictOf (groupWrites dl g0 group) bi = some (dlogVerdict dl (g0 + gi))
  | [], _, gi, _, _, _, h => by simp at h
  | (b0, s0) :: rest, g0, gi, bi, s, hnd, h => by
    unfold groupWrites verdictOf
    simp only [List.map_cons, List.nodup_cons] at hnd
    cases gi with
    | zero =>
      simp only [List.getElem?_cons_zero, Option.some.injEq, Prod.mk.injEq] at h
      rw [if_pos h.1]; rfl
    | succ gi =>
      simp only [List.getElem?_cons_succ] at h
      have hne : b0 ≠ bi := by
        rintro rfl
        exact hnd.1 (List.mem_map.mpr ⟨(b0, s), List.mem_of_getElem? h, rfl⟩)
      rw [if_neg hne, verdictOf_groupWrites dl rest (g0 + 1) gi bi s hnd.2 h]
      congr 2; omega

/-! ### `processGroup` and the loop over `CURVE_FACTORY` -/

theorem processGroup_ok (k : Kind) (cid : Nat) (c : Curve) (cache : Cache) (O : GroupOracle)
    (group : List (Nat × Sig)) (gr : GroupResult)
    (h : processGroup k cid c cache O group = .ok gr) :
    ∃ dl, issuerDLogs c cache O.guessList (mapIssuerSigIndexes (group.map Prod.snd)) = .ok (dl, gr.cache) ∧
      groupCallsFrom k cid c.n (group.map Prod.snd) O 0 (mapIssuerSigIndexes (group.map Prod.snd))
        = .ok gr.calls ∧
      gr.writes = groupWrites dl 0 group := by
  unfold processGroup at h
  split at h
  · cases h
  · rename_i calls hcalls
    split at h
    · cases h
    · rename_i dl cache' hdl
      cases h
      exact ⟨dl, hdl, hcalls, rfl⟩

theorem processGroup_of_ok (k : Kind) (cid : Nat) (c : Curve) (cache : Cache) (O : GroupOracle)
    (group : List (Nat × Sig)) (calls : List (List Call)) (dl : DLogs) (cache' : Cache)
    (h1 : groupCallsFrom k cid c.n (group.map Prod.snd) O 0 (mapIssuerSigIndexes (group.map Prod.snd))
      = .ok calls)
    (h2 : issuerDLogs c cache O.guessList (mapIssuerSigIndexes (group.map Prod.snd)) = .ok (dl, cache')) :
    processGroup k cid c cache O group = .ok ⟨groupWrites dl 0 group, calls, cache'⟩ := by
  unfold processGroup
  rw [h1, h2]

theorem processGroup_error (k : Kind) (cid : Nat) (c : Curve) (cache : Cache) (O : GroupOracle)
    (group : List (Nat × Sig)) (e : PyErr)
    (h : processGroup k cid c cache O group = .error e) :
    groupCallsFrom k cid c.n (group.map Prod.snd) O 0 (mapIssuerSigIndexes (group.map Prod.snd))
        = .error e ∨
    issuerDLogs c cache O.guessList (mapIssuerSigIndexes (group.map Prod.snd)) = .error e := by
  unfold processGroup at h
  split at h
  · rename_i e' he'; cases h; left; exact he'
  · split at h
    · rename_i e' he'; cases h; right; exact he'
    · cases h

/-- which entries of the factory lead to a processed group. -/
def Processed (arts : List Sig) (e : Nat × Option CurveObj) : Prop :=
  ∃ obj, e.2 = some obj ∧ groupFrom e.1 0 arts ≠ []

theorem checkLoop_cases (k : Kind) (O : Nat → GroupOracle) (arts : List Sig)
    (cid : Nat) (o : Option CurveObj) (rest : Factory) :
    (¬ Processed arts (cid, o) ∧
      checkLoop k O arts ((cid, o) :: rest) =
        match checkLoop k O arts rest with
        | .error e => .error e
        | .ok r => .ok (r.cons (cid, o))) ∨
    (∃ obj, o = some obj ∧ groupFrom cid 0 arts ≠ [] ∧
      checkLoop k O arts ((cid, o) :: rest) =
        match processGroup k cid obj.curve obj.cache (O cid) (groupFrom cid 0 arts) with
        | .error e => .error e
        | .ok gr =>
          match checkLoop k O arts rest with
          | .error e => .error e
          | .ok r => .ok (r.consGroup cid obj.curve gr)) := by
  cases o with
  | none =>
    left
    refine ⟨?_, ?_⟩
    · rintro ⟨obj, h, _⟩; cases h
    · cases hr : checkLoop k O arts rest <;> simp [checkLoop, hr]
  | some obj =>
    cases hg : groupFrom cid 0 arts with
    | nil =>
      left
      refine ⟨?_, ?_⟩
      · rintro ⟨obj', _, h⟩; exact h hg
      · cases hr : checkLoop k O arts rest <;> simp [checkLoop, hg, hr]
    | cons g gs =>
      right
      refine ⟨obj, rfl, by simp, ?_⟩
      cases hp : processGroup k cid obj.curve obj.cache (O cid) (g :: gs) with
      | error e => simp [checkLoop, hg, hp]
      | ok gr => cases hr : checkLoop k O arts rest <;> simp [checkLoop, hg, hp, hr]

/-- every processed group succeeded, and the batch indices written are exactly the signatures
whose curve id has a curve object in the factory. -/
theorem checkLoop_ok (k : Kind) (O : Nat → GroupOracle) (arts : List Sig) :
    ∀ (factory : Factory) (res : CheckResult), checkLoop k O arts factory = .ok res →
      (∀ cid obj, (cid, some obj) ∈ factory → groupFrom cid 0 arts ≠ [] →
        ∃ gr, processGroup k cid obj.curve obj.cache (O cid) (groupFrom cid 0 arts) = .ok gr ∧
          (cid, gr.calls) ∈ res.calls ∧
          ((factory.map Prod.fst).Nodup → ∀ bi s, (bi, s) ∈ groupFrom cid 0 arts →
            verdictOf res.writes bi = verdictOf gr.writes bi)) ∧
      (∀ bi, bi ∈ res.writes.map Prod.fst ↔
        ∃ s obj, arts[bi]? = some s ∧ (s.curve, some obj) ∈ factory) ∧
      (∀ cid cs, (cid, cs) ∈ res.calls → ∃ obj gr, (cid, some obj) ∈ factory ∧
        processGroup k cid obj.curve obj.cache (O cid) (groupFrom cid 0 arts) = .ok gr ∧ cs = gr.calls)
  | [], res, h => by
    simp only [checkLoop, Except.ok.injEq] at h
    subst h
    simp
  | (cid0, o) :: rest, res, h => by
    rcases checkLoop_cases k O arts cid0 o rest with ⟨hnp, heq⟩ | ⟨obj0, ho, hg, heq⟩
    · rw [heq] at h
      cases hr : checkLoop k O arts rest with
      | error e => rw [hr] at h; cases h
      | ok r =>
        rw [hr] at h
        simp only [Except.ok.injEq] at h
        subst h
        obtain ⟨ih1, ih2, ih3⟩ := checkLoop_ok k O arts rest r hr
        refine ⟨?_, ?_, ?_⟩
        · intro cid obj hm hne
          rcases List.mem_cons.mp hm with hm | hm
          · cases hm
            exact absurd ⟨obj, rfl, hne⟩ hnp
          · obtain ⟨gr, h1, h2, h3⟩ := ih1 cid obj hm hne
            refine ⟨gr, h1, h2, ?_⟩
            intro hnd
            simp only [List.map_cons, List.nodup_cons] at hnd
            exact h3 hnd.2
        · intro bi
          rw [show (r.cons (cid0, o)).writes = r.writes from rfl, ih2]
          constructor
          · rintro ⟨s, obj, h1, h2⟩; exact ⟨s, obj, h1, List.mem_cons_of_mem _ h2⟩
          · rintro ⟨s, obj, h1, h2⟩
            rcases List.mem_cons.mp h2 with h2 | h2
            · cases h2
              refine absurd ⟨obj, rfl, ?_⟩ hnp
              intro hnil
              have : (bi, s) ∈ groupFrom s.curve 0 arts :=
                (mem_groupFrom _ arts 0 bi s).mpr ⟨Nat.zero_le _, by simpa using h1, rfl⟩
              rw [hnil] at this; simp at this
            · exact ⟨s, obj, h1, h2⟩
        · intro cid cs hm
          obtain ⟨obj, gr, h1, h2, h3⟩ := ih3 cid cs hm
          exact ⟨obj, gr, List.mem_cons_of_mem _ h1, h2, h3⟩
    · subst ho
      rw [heq] at h
      cases hp : processGroup k cid0 obj0.curve obj0.cache (O cid0) (groupFrom cid0 0 arts) with
      | error e => rw [hp] at h; cases h
      | ok gr0 =>
        rw [hp] at h
        simp only at h
        cases hr : checkLoop k O arts rest with
        | error e => rw [hr] at h; cases h
        | ok r =>
          rw [hr] at h
          simp only [Except.ok.injEq] at h
          subst h
          obtain ⟨ih1, ih2, ih3⟩ := checkLoop_ok k O arts rest r hr
          obtain ⟨dl0, _, _, hw0⟩ := processGroup_ok _ _ _ _ _ _ _ hp
          have hfst0 : gr0.writes.map Prod.fst = (groupFrom cid0 0 arts).map Prod.fst := by
            rw [hw0, groupWrites_fst]
          refine ⟨?_, ?_, ?_⟩
          · intro cid obj hm hne
            rcases List.mem_cons.mp hm with hm | hm
            · cases hm
              refine ⟨gr0, hp, List.mem_cons_self, ?_⟩
              intro _ bi s hbs
              show verdictOf (gr0.writes ++ r.writes) bi = _
              rw [verdictOf_append]
              cases hv : verdictOf gr0.writes bi with
              | some v => rfl
              | none =>
                exfalso
                rw [verdictOf_none, hfst0] at hv
                exact hv (List.mem_map.mpr ⟨(bi, s), hbs, rfl⟩)
            · obtain ⟨gr, h1, h2, h3⟩ := ih1 cid obj hm hne
              refine ⟨gr, h1, List.mem_cons_of_mem _ h2, ?_⟩
              intro hnd bi s hbs
              simp only [List.map_cons, List.nodup_cons] at hnd
              rw [show (r.consGroup cid0 obj0.curve gr0).writes = gr0.writes ++ r.writes from rfl,
                verdictOf_append]
              have hv : verdictOf gr0.writes bi = none := by
                rw [verdictOf_none, hfst0]
                intro hmem
                obtain ⟨⟨bi', s'⟩, hm', rfl⟩ := List.mem_map.mp hmem
                have h1' := (mem_groupFrom cid0 arts 0 bi' s').mp hm'
                have h2' := (mem_groupFrom cid arts 0 bi' s).mp hbs
                rw [h1'.2.1] at h2'
                have : s' = s := by simpa using h2'.2.1
                subst this
                have : cid0 = cid := h1'.2.2.symm.trans h2'.2.2
                subst this
                exact hnd.1 (List.mem_map.mpr ⟨(cid0, some obj), hm, rfl⟩)
              rw [hv]
              exact h3 hnd.2 bi s hbs
          · intro bi
            rw [show (r.consGroup cid0 obj0.curve gr0).writes = gr0.writes ++ r.writes from rfl,
              List.map_append, List.mem_append, hfst0, ih2]
            constructor
            · rintro (hm | ⟨s, obj, h1, h2⟩)
              · obtain ⟨⟨bi', s⟩, hm', rfl⟩ := List.mem_map.mp hm
                have h1' := (mem_groupFrom cid0 arts 0 bi' s).mp hm'
                refine ⟨s, obj0, by simpa using h1'.2.1, ?_⟩
                rw [h1'.2.2]; exact List.mem_cons_self
              · exact ⟨s, obj, h1, List.mem_cons_of_mem _ h2⟩
            · rintro ⟨s, obj, h1, h2⟩
              rcases List.mem_cons.mp h2 with h2 | h2
              · cases h2
                left
                exact List.mem_map.mpr ⟨(bi, s),
                  (mem_groupFrom _ arts 0 bi s).mpr ⟨Nat.zero_le _, by simpa using h1, rfl⟩, rfl⟩
              · right; exact ⟨s, obj, h1, h2⟩
          · intro cid cs hm
            rcases List.mem_cons.mp hm with hm | hm
            · cases hm
              exact ⟨obj0, gr0, List.mem_cons_self, hp, rfl⟩
            · obtain ⟨obj, gr, h1, h2, h3⟩ := ih3 cid cs hm
              exact ⟨obj, gr, List.mem_cons_of_mem _ h1, h2, h3⟩

/-- the loop raises exactly when some processed group raises (first one in factory order). -/
theorem checkLoop_error (k : Kind) (O : Nat → GroupOracle) (arts : List Sig) :
    ∀ (factory : Factory) (e : PyErr), checkLoop k O arts factory = .error e →
      ∃ cid obj, (cid, some obj) ∈ factory ∧ groupFrom cid 0 arts ≠ [] ∧
        processGroup k cid obj.curve obj.cache (O cid) (groupFrom cid 0 arts) = .error e
  | [], e, h => by simp [checkLoop] at h
  | (cid0, o) :: rest, e, h => by
    rcases checkLoop_cases k O arts cid0 o rest with ⟨_, heq⟩ | ⟨obj0, ho, hg, heq⟩
    · rw [heq] at h
      cases hr : checkLoop k O arts rest with
      | ok r => rw [hr] at h; cases h
      | error e' =>
        rw [hr] at h; cases h
        obtain ⟨cid, obj, h1, h2, h3⟩ := checkLoop_error k O arts rest e hr
        exact ⟨cid, obj, List.mem_cons_of_mem _ h1, h2, h3⟩
    · subst ho
      rw [heq] at h
      cases hp : processGroup k cid0 obj0.curve obj0.cache (O cid0) (groupFrom cid0 0 arts) with
      | error e' =>
        rw [hp] at h; cases h
        exact ⟨cid0, obj0, List.mem_cons_self, hg, hp⟩
      | ok gr0 =>
        rw [hp] at h
        simp only at h
        cases hr : checkLoop k O arts rest with
        | ok r => rw [hr] at h; cases h
        | error e' =>
          rw [hr] at h; cases h
          obtain ⟨cid, obj, h1, h2, h3⟩ := checkLoop_error k O arts rest e hr
          exact ⟨cid, obj, List.mem_cons_of_mem _ h1, h2, h3⟩

/-- if every processed group succeeds, so does the loop. -/
theorem checkLoop_total (k : Kind) (O : Nat → GroupOracle) (arts : List Sig) :
    ∀ (factory : Factory),
      (∀ cid obj, (cid, some obj) ∈ factory → groupFrom cid 0 arts ≠ [] →
        ∃ gr, processGroup k cid obj.curve obj.cache (O cid) (groupFrom cid 0 arts) = .ok gr) →
      ∃ res, checkLoop k O arts factory = .ok res
  | [], _ => ⟨_, rfl⟩
  | (cid0, o) :: rest, h => by
    obtain ⟨r, hr⟩ := checkLoop_total k O arts rest
      (fun cid obj hm => h cid obj (List.mem_cons_of_mem _ hm))
    rcases checkLoop_cases k O arts cid0 o rest with ⟨_, heq⟩ | ⟨obj0, ho, hg, heq⟩
    · rw [heq, hr]; exact ⟨_, rfl⟩
    · subst ho
      obtain ⟨gr, hgr⟩ := h cid0 obj0 List.mem_cons_self hg
      rw [heq, hgr, hr]; exact ⟨_, rfl⟩

/-! ### set-order oracles -/

theorem memB_iff {α} [DecidableEq α] (x : α) (l : List α) : memB x l = true ↔ x ∈ l := by
  induction l with
  | nil => simp [memB]
  | cons y ys ih =>
    unfold memB
    by_cases h : x = y
    · simp [h]
    · rw [if_neg h, ih]; simp [h]

theorem nodupB_iff {α} [DecidableEq α] (l : List α) : nodupB l = true ↔ l.Nodup := by
  induction l with
  | nil => simp [nodupB]
  | cons y ys ih =>
    unfold nodupB
    rw [Bool.and_eq_true, ih, List.nodup_cons, ← memB_iff y ys]
    cases memB y ys <;> simp

/-- `isEnumOf enum vals`: `enum` is `list(set(vals))` for some iteration order. -/
theorem isEnumOf_iff {α} [DecidableEq α] (enum vals : List α) :
    isEnumOf enum vals = true ↔ enum.Nodup ∧ ∀ x, x ∈ enum ↔ x ∈ vals := by
  unfold isEnumOf
  simp only [Bool.and_eq_true, nodupB_iff, List.all_eq_true, memB_iff]
  constructor
  · rintro ⟨⟨h1, h2⟩, h3⟩; exact ⟨h1, fun x => ⟨h2 x, h3 x⟩⟩
  · rintro ⟨h1, h2⟩; exact ⟨⟨h1, fun x hx => (h2 x).mp hx⟩, fun x hx => (h2 x).mpr hx⟩

/-! ### `issuerValues`, `groupCallsFrom` -/

theorem ecdsaValues_ok (n : Nat) (hn : n ≠ 0) (r s mh : List Nat) :
    ∃ z, ecdsaValues n r s mh = .ok (bytes2int r, bytes2int s, z) := by
  unfold ecdsaValues transformOrderLen
  rw [if_neg hn]
  exact ⟨_, rfl⟩

theorem ecdsaValues_fields (n : Nat) (r s mh : List Nat) (v : Triple)
    (h : ecdsaValues n r s mh = .ok v) : v.1 = bytes2int r ∧ v.2.1 = bytes2int s := by
  unfold ecdsaValues at h
  split at h
  · cases h
  · cases h; exact ⟨rfl, rfl⟩

/-- `issuerValues` never raises on the index lists `_MapIssuerSigIndexes` produces (for `n ≠ 0`),
and its values are the `ECDSAValues` of exactly those signatures. -/
theorem issuerValues_ok (n : Nat) (hn : n ≠ 0) (sigs : List Sig) : ∀ (idxs : List Nat),
    (∀ i ∈ idxs, i < sigs.length) →
    ∃ vals, issuerValues n sigs idxs = .ok vals ∧
      List.Forall₂ (fun i v => ∃ sg, sigs[i]? = some sg ∧ ecdsaValues n sg.r sg.s sg.mh = .ok v) idxs vals
  | [], _ => ⟨[], rfl, .nil⟩
  | i :: rest, h => by
    unfold issuerValues
    have hi : i < sigs.length := h i (by simp)
    rw [List.getElem?_eq_getElem hi]
    obtain ⟨z, hz⟩ := ecdsaValues_ok n hn sigs[i].r sigs[i].s sigs[i].mh
    obtain ⟨vals, h1, h2⟩ := issuerValues_ok n hn sigs rest (fun j hj => h j (List.mem_cons_of_mem _ hj))
    simp only [hz, h1]
    exact ⟨_, rfl, .cons ⟨sigs[i], List.getElem?_eq_getElem hi, hz⟩ h2⟩

theorem issuerValues_mem (n : Nat) (sigs : List Sig) : ∀ (idxs : List Nat) (vals : List Triple),
    issuerValues n sigs idxs = .ok vals →
    ∀ v ∈ vals, ∃ i ∈ idxs, ∃ sg, sigs[i]? = some sg ∧ ecdsaValues n sg.r sg.s sg.mh = .ok v
  | [], vals, h => by
    simp only [issuerValues, Except.ok.injEq] at h
    subst h; simp
  | i :: rest, vals, h => by
    unfold issuerValues at h
    split at h
    · cases h
    · rename_i sg hsg
      split at h
      · cases h
      · rename_i v0 hv0
        split at h
        · cases h
        · rename_i vs hvs
          cases h
          intro v hv
          rcases List.mem_cons.mp hv with rfl | hv
          · exact ⟨i, by simp, sg, hsg, hv0⟩
          · obtain ⟨j, hj, sg', h1, h2⟩ := issuerValues_mem n sigs rest vs hvs v hv
            exact ⟨j, List.mem_cons_of_mem _ hj, sg', h1, h2⟩

theorem issuerValues_length (n : Nat) (sigs : List Sig) : ∀ (idxs : List Nat) (vals : List Triple),
    issuerValues n sigs idxs = .ok vals → vals.length = idxs.length
  | [], vals, h => by
    simp only [issuerValues, Except.ok.injEq] at h
    subst h; rfl
  | i :: rest, vals, h => by
    unfold issuerValues at h
    split at h
    · cases h
    · split at h
      · cases h
      · split at h
        · cases h
        · rename_i vs hvs
          cases h
          simp [issuerValues_length n sigs rest vs hvs]

/-- success of the per-issuer loop: the calls of issuer `j` are `issuerCalls … (O.uniq (j0 + j))`. -/
theorem groupCallsFrom_ok (k : Kind) (cid n : Nat) (sigs : List Sig) (O : GroupOracle) :
    ∀ (pks : Pks) (j0 : Nat),
      (∀ e ∈ pks, ∃ vals, issuerValues n sigs e.2 = .ok vals) →
      (∀ j, j < pks.length → ∃ cs, issuerCalls k cid n (O.uniq (j0 + j)) = .ok cs) →
      ∃ css, groupCallsFrom k cid n sigs O j0 pks = .ok css ∧ css.length = pks.length ∧
        ∀ j cs, css[j]? = some cs → issuerCalls k cid n (O.uniq (j0 + j)) = .ok cs
  | [], j0, _, _ => ⟨[], rfl, rfl, by simp⟩
  | (k0, idxs) :: rest, j0, hv, hc => by
    unfold groupCallsFrom
    obtain ⟨vals, hvals⟩ := hv (k0, idxs) (by simp)
    obtain ⟨cs0, hcs0⟩ := hc 0 (by simp)
    obtain ⟨css, h1, h2, h3⟩ := groupCallsFrom_ok k cid n sigs O rest (j0 + 1)
      (fun e he => hv e (List.mem_cons_of_mem _ he))
      (fun j hj => by
        have := hc (j + 1) (by simp; omega)
        rwa [show j0 + (j + 1) = j0 + 1 + j by omega] at this)
    simp only [hvals, Nat.add_zero] at hcs0 ⊢
    simp only [hcs0, h1]
    refine ⟨cs0 :: css, rfl, by simp [h2], ?_⟩
    intro j cs hj
    cases j with
    | zero => simp at hj; subst hj; simpa using hcs0
    | succ j =>
      simp only [List.getElem?_cons_succ] at hj
      have := h3 j cs hj
      rwa [show j0 + 1 + j = j0 + (j + 1) by omega] at this

theorem groupCallsFrom_inv (k : Kind) (cid n : Nat) (sigs : List Sig) (O : GroupOracle) :
    ∀ (pks : Pks) (j0 : Nat) (css : List (List Call)),
      groupCallsFrom k cid n sigs O j0 pks = .ok css →
      css.length = pks.length ∧
        ∀ j cs, css[j]? = some cs → issuerCalls k cid n (O.uniq (j0 + j)) = .ok cs
  | [], j0, css, h => by
    simp only [groupCallsFrom, Except.ok.injEq] at h
    subst h; simp
  | (k0, idxs) :: rest, j0, css, h => by
    unfold groupCallsFrom at h
    split at h
    · cases h
    · split at h
      · cases h
      · rename_i cs0 hcs0
        split at h
        · cases h
        · rename_i css' hcss'
          cases h
          obtain ⟨h2, h3⟩ := groupCallsFrom_inv k cid n sigs O rest (j0 + 1) css' hcss'
          refine ⟨by simp [h2], ?_⟩
          intro j cs hj
          cases j with
          | zero => simp at hj; subst hj; simpa using hcs0
          | succ j =>
            simp only [List.getElem?_cons_succ] at hj
            have := h3 j cs hj
            rwa [show j0 + 1 + j = j0 + (j + 1) by omega] at this

/-- the per-issuer loop raises only because `ECDSAValues` or the argument preparation of one
issuer raises. -/
theorem groupCallsFrom_error (k : Kind) (cid n : Nat) (sigs : List Sig) (O : GroupOracle) :
    ∀ (pks : Pks) (j0 : Nat) (e : PyErr),
      groupCallsFrom k cid n sigs O j0 pks = .error e →
      (∃ en ∈ pks, issuerValues n sigs en.2 = .error e) ∨
      (∃ j, j < pks.length ∧ issuerCalls k cid n (O.uniq (j0 + j)) = .error e)
  | [], j0, e, h => by simp [groupCallsFrom] at h
  | (k0, idxs) :: rest, j0, e, h => by
    unfold groupCallsFrom at h
    split at h
    · rename_i e' he'
      cases h
      left; exact ⟨(k0, idxs), by simp, he'⟩
    · split at h
      · rename_i e' he'
        cases h
        right; exact ⟨0, by simp, by simpa using he'⟩
      · split at h
        · rename_i e' he'
          cases h
          rcases groupCallsFrom_error k cid n sigs O rest (j0 + 1) e he' with ⟨en, h1, h2⟩ | ⟨j, h1, h2⟩
          · left; exact ⟨en, List.mem_cons_of_mem _ h1, h2⟩
          · right
            refine ⟨j + 1, by simp; omega, ?_⟩
            rwa [show j0 + 1 + j = j0 + (j + 1) by omega] at h2
        · cases h

/-- … and it does raise as soon as one issuer's argument preparation raises. -/
theorem groupCallsFrom_raises (k : Kind) (cid n : Nat) (sigs : List Sig) (O : GroupOracle) :
    ∀ (pks : Pks) (j0 j : Nat) (e : PyErr), j < pks.length →
      issuerCalls k cid n (O.uniq (j0 + j)) = .error e →
      ∃ e', groupCallsFrom k cid n sigs O j0 pks = .error e'
  | [], _, j, _, hj, _ => by simp at hj
  | (k0, idxs) :: rest, j0, j, e, hj, h => by
    unfold groupCallsFrom
    cases hv : issuerValues n sigs idxs with
    | error e' => exact ⟨e', rfl⟩
    | ok vals =>
      simp only
      cases hc : issuerCalls k cid n (O.uniq j0) with
      | error e' => exact ⟨e', rfl⟩
      | ok cs =>
        simp only
        cases j with
        | zero => simp only [Nat.add_zero] at h; rw [h] at hc; cases hc
        | succ j =>
          obtain ⟨e', he'⟩ := groupCallsFrom_raises k cid n sigs O rest (j0 + 1) j e
            (by simpa using hj) (by rwa [show j0 + 1 + j = j0 + (j + 1) by omega])
          rw [he']; exact ⟨e', rfl⟩

/-- what `uniqConsistentFrom` says about the issuer at position `j`. -/
theorem uniqConsistentFrom_get (n : Nat) (sigs : List Sig) (O : GroupOracle) :
    ∀ (pks : Pks) (j0 : Nat), uniqConsistentFrom n sigs O j0 pks = true →
      ∀ j en, pks[j]? = some en →
        ∃ vals, issuerValues n sigs en.2 = .ok vals ∧ isEnumOf (O.uniq (j0 + j)) vals = true
  | [], _, _, j, en, h => by simp at h
  | (k0, idxs) :: rest, j0, hc, j, en, h => by
    unfold uniqConsistentFrom at hc
    rw [Bool.and_eq_true] at hc
    cases j with
    | zero =>
      simp only [List.getElem?_cons_zero, Option.some.injEq] at h
      subst h
      obtain ⟨h1, _⟩ := hc
      split at h1
      · rename_i vals hvals; exact ⟨vals, hvals, by simpa using h1⟩
      · cases h1
    | succ j =>
      simp only [List.getElem?_cons_succ] at h
      obtain ⟨vals, h1, h2⟩ := uniqConsistentFrom_get n sigs O rest (j0 + 1) hc.2 j en h
      exact ⟨vals, h1, by rwa [show j0 + 1 + j = j0 + (j + 1) by omega] at h2⟩

/-! ### group level, core part -/

/-- the verdict written for the `gi`-th signature of a group is `dlogVerdict` of the dict returned
by `_IssuerDLogs` on the group's own `pks` and `list(guesses)`. -/
theorem group_verdict (k : Kind) (cid : Nat) (c : Curve) (cache : Cache) (O : GroupOracle)
    (group : List (Nat × Sig)) (gr : GroupResult)
    (hok : processGroup k cid c cache O group = .ok gr) (hnd : (group.map Prod.fst).Nodup)
    (gi bi : Nat) (s : Sig) (hg : group[gi]? = some (bi, s)) :
    ∃ dl, issuerDLogs c cache O.guessList (mapIssuerSigIndexes (group.map Prod.snd)) = .ok (dl, gr.cache) ∧
      verdictOf gr.writes bi = some (dlogVerdict dl gi) := by
  obtain ⟨dl, h1, _, h3⟩ := processGroup_ok _ _ _ _ _ _ _ hok
  refine ⟨dl, h1, ?_⟩
  rw [h3, verdictOf_groupWrites dl group 0 gi bi s hnd hg, Nat.zero_add]

theorem dlogVerdict_cases (dl : DLogs) (i : Nat) :
    (dl.get? i = none ∧ dlogVerdict dl i = ⟨false, none, none⟩) ∨
    (∃ d, dl.get? i = some d ∧
      dlogVerdict dl i = ⟨true, none, some (infoNameDiscreteLog, .raw (dlogHex d))⟩) := by
  unfold dlogVerdict
  cases dl.get? i with
  | none => left; exact ⟨rfl, rfl⟩
  | some d => right; exact ⟨d, rfl, rfl⟩

/-- the batch indices written by one `Check` call are pairwise distinct (every signature with a
known curve receives exactly one entry). -/
theorem checkLoop_writes_nodup (k : Kind) (O : Nat → GroupOracle) (arts : List Sig) :
    ∀ (factory : Factory) (res : CheckResult), checkLoop k O arts factory = .ok res →
      (factory.map Prod.fst).Nodup → (res.writes.map Prod.fst).Nodup
  | [], res, h, _ => by
    simp only [checkLoop, Except.ok.injEq] at h
    subst h; simp
  | (cid0, o) :: rest, res, h, hnd => by
    simp only [List.map_cons, List.nodup_cons] at hnd
    rcases checkLoop_cases k O arts cid0 o rest with ⟨_, heq⟩ | ⟨obj0, ho, hg, heq⟩
    · rw [heq] at h
      cases hr : checkLoop k O arts rest with
      | error e => rw [hr] at h; cases h
      | ok r =>
        rw [hr] at h
        simp only [Except.ok.injEq] at h
        subst h
        exact checkLoop_writes_nodup k O arts rest r hr hnd.2
    · subst ho
      rw [heq] at h
      cases hp : processGroup k cid0 obj0.curve obj0.cache (O cid0) (groupFrom cid0 0 arts) with
      | error e => rw [hp] at h; cases h
      | ok gr0 =>
        rw [hp] at h
        simp only at h
        cases hr : checkLoop k O arts rest with
        | error e => rw [hr] at h; cases h
        | ok r =>
          rw [hr] at h
          simp only [Except.ok.injEq] at h
          subst h
          obtain ⟨dl0, _, _, hw0⟩ := processGroup_ok _ _ _ _ _ _ _ hp
          show ((gr0.writes ++ r.writes).map Prod.fst).Nodup
          rw [List.map_append, List.nodup_append]
          refine ⟨?_, checkLoop_writes_nodup k O arts rest r hr hnd.2, ?_⟩
          · rw [hw0, groupWrites_fst]; exact groupFrom_nodup cid0 arts 0
          · intro a ha b hb hab
            subst hab
            rw [hw0, groupWrites_fst] at ha
            obtain ⟨⟨bi', s⟩, hm', rfl⟩ := List.mem_map.mp ha
            have h1' := (mem_groupFrom cid0 arts 0 bi' s).mp hm'
            obtain ⟨_, ih2, _⟩ := checkLoop_ok k O arts rest r hr
            obtain ⟨s', obj, h2, h3⟩ := (ih2 bi').mp hb
            have : s' = s := by
              have := h1'.2.1
              simp only [Nat.sub_zero] at this
              rw [h2] at this; exact Option.some.inj this
            subst this
            rw [h1'.2.2] at h3
            exact hnd.1 (List.mem_map.mpr ⟨(cid0, some obj), h3, rfl⟩)

/-- **group isolation, oracle side**: the verdict of a signature depends on the oracle only
through the answers given for ITS curve group. -/
theorem group_isolation_core (k : Kind) (O O' : Nat → GroupOracle) (factory : Factory) (arts : List Sig)
    (res res' : CheckResult) (h : check k O factory arts = .ok res)
    (h' : check k O' factory arts = .ok res') (hnd : (factory.map Prod.fst).Nodup)
    (bi : Nat) (s : Sig) (hs : arts[bi]? = some s) (hO : O s.curve = O' s.curve) :
    verdictOf res.writes bi = verdictOf res'.writes bi := by
  unfold check at h h'
  obtain ⟨a1, a2, _⟩ := checkLoop_ok k O arts factory res h
  obtain ⟨b1, b2, _⟩ := checkLoop_ok k O' arts factory res' h'
  by_cases hk : ∃ obj, (s.curve, some obj) ∈ factory
  · obtain ⟨obj, hobj⟩ := hk
    have hmem : (bi, s) ∈ groupFrom s.curve 0 arts :=
      (mem_groupFrom _ arts 0 bi s).mpr ⟨Nat.zero_le _, by simpa using hs, rfl⟩
    have hne : groupFrom s.curve 0 arts ≠ [] := by
      intro h0; rw [h0] at hmem; simp at hmem
    obtain ⟨gr, g1, _, g3⟩ := a1 s.curve obj hobj hne
    obtain ⟨gr', g1', _, g3'⟩ := b1 s.curve obj hobj hne
    rw [hO, g1'] at g1
    cases g1
    rw [g3 hnd bi s hmem, g3' hnd bi s hmem]
  · have n1 : verdictOf res.writes bi = none := by
      rw [verdictOf_none, a2]
      rintro ⟨s', obj, h1, h2⟩
      rw [hs] at h1; cases h1
      exact hk ⟨obj, h2⟩
    have n2 : verdictOf res'.writes bi = none := by
      rw [verdictOf_none, b2]
      rintro ⟨s', obj, h1, h2⟩
      rw [hs] at h1; cases h1
      exact hk ⟨obj, h2⟩
    rw [n1, n2]

/-! ### consistency of the order oracles -/

/-- `unique_vals` handed to the model is an enumeration of the issuer's value set, for every
processed group. -/
def UniqConsistent (O : Nat → GroupOracle) (arts : List Sig) (factory : Factory) : Prop :=
  ∀ cid obj, (cid, some obj) ∈ factory → groupFrom cid 0 arts ≠ [] →
    uniqConsistentFrom obj.curve.n ((groupFrom cid 0 arts).map Prod.snd) (O cid) 0
      (mapIssuerSigIndexes ((groupFrom cid 0 arts).map Prod.snd)) = true

/-- `list(guesses)` handed to the model is an enumeration of the union of all solver answers. -/
def GuessConsistent (k : Kind) (O : Nat → GroupOracle) (arts : List Sig) (factory : Factory) : Prop :=
  ∀ cid obj, (cid, some obj) ∈ factory → groupFrom cid 0 arts ≠ [] →
    isEnumOf (O cid).guessList (groupAnswersFrom k cid obj.curve.n (O cid) 0
      (mapIssuerSigIndexes ((groupFrom cid 0 arts).map Prod.snd))) = true

theorem consistent_of_check (k : Kind) (O : Nat → GroupOracle) (arts : List Sig) :
    ∀ (factory : Factory), checkConsistent k O arts factory = true →
      UniqConsistent O arts factory ∧ GuessConsistent k O arts factory
  | [], _ => ⟨fun _ _ h => by simp at h, fun _ _ h => by simp at h⟩
  | (cid0, none) :: rest, h => by
    unfold checkConsistent at h
    obtain ⟨i1, i2⟩ := consistent_of_check k O arts rest h
    constructor
    · intro cid obj hm hne
      rcases List.mem_cons.mp hm with hm | hm
      · cases hm
      · exact i1 cid obj hm hne
    · intro cid obj hm hne
      rcases List.mem_cons.mp hm with hm | hm
      · cases hm
      · exact i2 cid obj hm hne
  | (cid0, some obj0) :: rest, h => by
    unfold checkConsistent at h
    rw [Bool.and_eq_true] at h
    obtain ⟨i1, i2⟩ := consistent_of_check k O arts rest h.2
    have h1 := h.1
    constructor
    · intro cid obj hm hne
      rcases List.mem_cons.mp hm with hm | hm
      · cases hm
        cases hg : groupFrom cid0 0 arts with
        | nil => exact absurd hg hne
        | cons g gs =>
          rw [hg] at h1
          simp only [groupConsistent, Bool.and_eq_true] at h1
          exact h1.1
      · exact i1 cid obj hm hne
    · intro cid obj hm hne
      rcases List.mem_cons.mp hm with hm | hm
      · cases hm
        cases hg : groupFrom cid0 0 arts with
        | nil => exact absurd hg hne
        | cons g gs =>
          rw [hg] at h1
          simp only [groupConsistent, Bool.and_eq_true] at h1
          exact h1.2
      · exact i2 cid obj hm hne

theorem mem_answersOf (O : GroupOracle) (j : Nat) (g : Int) : ∀ (cnt k0 kk : Nat),
    k0 ≤ kk → kk < k0 + cnt → g ∈ O.answer j kk → g ∈ answersOf O j cnt k0
  | 0, k0, kk, h1, h2, _ => by omega
  | cnt + 1, k0, kk, h1, h2, hg => by
    unfold answersOf
    rw [List.mem_append]
    by_cases hk : kk = k0
    · left; rw [← hk]; exact hg
    · right; exact mem_answersOf O j g cnt (k0 + 1) kk (by omega) (by omega) hg

/-- an answer of the `kk`-th solver call for the issuer at position `j` is among the group's answers. -/
theorem mem_groupAnswers (k : Kind) (cid n : Nat) (O : GroupOracle) (g : Int) :
    ∀ (pks : Pks) (j0 j : Nat) (cs : List Call) (kk : Nat), j < pks.length →
      issuerCalls k cid n (O.uniq (j0 + j)) = .ok cs → kk < cs.length → g ∈ O.answer (j0 + j) kk →
      g ∈ groupAnswersFrom k cid n O j0 pks
  | [], _, j, _, _, hj, _, _, _ => by simp at hj
  | e :: rest, j0, j, cs, kk, hj, hc, hk, hg => by
    unfold groupAnswersFrom
    rw [List.mem_append]
    cases j with
    | zero =>
      left
      simp only [Nat.add_zero] at hc hg
      rw [hc]
      exact mem_answersOf O j0 g cs.length 0 kk (Nat.zero_le _) (by omega) hg
    | succ j =>
      right
      exact mem_groupAnswers k cid n O g rest (j0 + 1) j cs kk (by simpa using hj)
        (by rwa [show j0 + 1 + j = j0 + (j + 1) by omega])
        hk (by rwa [show j0 + 1 + j = j0 + (j + 1) by omega])

/-- position of a key in the dict. -/
theorem pks_index_of_mem (pks : Pks) (k : Key) (l : List Nat) (h : (k, l) ∈ pks) :
    ∃ j, j < pks.length ∧ pks[j]? = some (k, l) := by
  obtain ⟨j, hj, he⟩ := List.mem_iff_getElem.mp h
  exact ⟨j, hj, by rw [List.getElem?_eq_getElem hj, he]⟩


/-- what `_IssuerDLogs` literally guarantees, with no hypothesis on curve, cache, guesses or dict:
a recorded `idx ↦ d` means that at some position `BatchMultiplyG(guesses)` returned exactly the raw
key tuple under which `idx` is listed, and `d` is the guess at that position. -/
theorem issuerDLogs_literal (c : Curve) (cache : Cache) (gs : List Int) (pks : Pks) (dl : DLogs)
    (cache' : Cache) (h : issuerDLogs c cache gs pks = .ok (dl, cache')) (i : Nat) (d : Int)
    (hd : dl.get? i = some d) :
    ∃ pts, batchMultiplyG c cache gs = .ok (pts, cache') ∧
      ∃ k l, pks.get? k = some l ∧ i ∈ l ∧ (Pt.aff ((k : Key).1 : Int) (k.2 : Int), d) ∈ pts.zip gs := by
  unfold issuerDLogs at h
  split at h
  · cases h
  · rename_i pts cache'' hb
    simp only [Except.ok.injEq, Prod.mk.injEq] at h
    obtain ⟨rfl, rfl⟩ := h
    refine ⟨pts, hb, ?_⟩
    refine dlogLoop_sound pks
      (fun i d => ∃ k l, pks.get? k = some l ∧ i ∈ l ∧ (Pt.aff ((k : Key).1 : Int) (k.2 : Int), d) ∈ pts.zip gs)
      pts gs [] ?_ ?_ i d hd
    · intro P g hm k l i hP hk hi
      exact ⟨k, l, hk, hi, by rw [← hP]; exact hm⟩
    · intro i d h0; simp [DLogs.get?] at h0

end Paranoid.EcdsaChecks
