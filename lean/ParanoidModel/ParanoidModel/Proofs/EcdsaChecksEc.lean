/-
Proofs/EcdsaChecksEc.lean — the elliptic-curve side of the ECDSA signature checks:
every point `BatchMultiplyG` returns is reduced, reduced on-curve representations are unique,
`_IssuerDLogs` is sound for every guess list and exact on the dict of `_MapIssuerSigIndexes`,
and the check-level theorems (soundness, exact verdict, totality, the exact set of raising inputs,
state after a call, independence of batch / order / cache).
-/
import ParanoidModel.Proofs.EcdsaChecks
import ParanoidModel.Proofs.EcTable
import ParanoidModel.Proofs.EcOrder
import ParanoidModel.Proofs.Ecdsa
namespace Paranoid.Ec
open Paranoid WeierstrassCurve
variable (c : Curve) [hp : Fact (Nat.Prime c.p)]

/-! ### every point `BatchMultiplyG` returns has reduced coordinates -/

omit hp in
theorem mapE_ok_mem {α β} (f : α → Except PyErr β) : ∀ (l : List α) (rs : List β),
    mapE f l = .ok rs → ∀ r ∈ rs, ∃ a ∈ l, f a = .ok r
  | [], rs, h => by
    simp only [mapE, Except.ok.injEq] at h
    subst h; simp
  | a :: as, rs, h => by
    unfold mapE at h
    split at h
    · cases h
    · rename_i b hb
      split at h
      · cases h
      · rename_i bs hbs
        cases h
        intro r hr
        rcases List.mem_cons.mp hr with rfl | hr
        · exact ⟨a, by simp, hb⟩
        · obtain ⟨a', h1, h2⟩ := mapE_ok_mem f as bs hbs r hr
          exact ⟨a', List.mem_cons_of_mem _ h1, h2⟩

theorem multiply_g_reduced (hg : Reduced c c.g) (m : Nat) (P : Pt)
    (h : multiply c c.g (m : Int) = .ok P) : Reduced c P := by
  unfold Curve.g at h hg
  rw [multiply_aff, if_neg (by omega)] at h
  unfold multiplyNat at h
  split at h
  · cases h; exact hg
  · exact jToAffine_reduced c h

theorem bmgPoints_reduced (hg : Reduced c c.g) (i mask : Nat) :
    ∀ (ss : List Nat) (cache : Cache) (ps : List Pt) (cache' : Cache),
      (∀ e ∈ cache, Reduced c e.2) → bmgPoints c i mask ss cache = .ok (ps, cache') →
      (∀ P ∈ ps, Reduced c P) ∧ (∀ e ∈ cache', Reduced c e.2)
  | [], cache, ps, cache', hc, h => by
    simp only [bmgPoints, Except.ok.injEq, Prod.mk.injEq] at h
    obtain ⟨rfl, rfl⟩ := h
    exact ⟨by simp, hc⟩
  | s :: ss, cache, ps, cache', hc, h => by
    unfold bmgPoints at h
    split at h
    · rename_i P hP
      split at h
      · cases h
      · rename_i ps' cache'' hrec
        cases h
        obtain ⟨h1, h2⟩ := bmgPoints_reduced hg i mask ss cache ps' cache' hc hrec
        refine ⟨?_, h2⟩
        intro Q hQ
        rcases List.mem_cons.mp hQ with rfl | hQ
        · exact hc _ (cache_get?_mem _ _ _ hP)
        · exact h1 Q hQ
    · split at h
      · cases h
      · rename_i P hP
        split at h
        · cases h
        · rename_i ps' cache'' hrec
          cases h
          have hPr := multiply_g_reduced c hg _ P hP
          obtain ⟨h1, h2⟩ := bmgPoints_reduced hg i mask ss _ ps' cache' (by
            intro e he
            rcases List.mem_cons.mp he with rfl | he
            · exact hPr
            · exact hc e he) hrec
          refine ⟨?_, h2⟩
          intro Q hQ
          rcases List.mem_cons.mp hQ with rfl | hQ
          · exact hPr
          · exact h1 Q hQ

theorem batchDouble_reduced {ps rs : List Pt} (hps : ∀ P ∈ ps, Reduced c P)
    (h : batchDouble c ps = .ok rs) : ∀ R ∈ rs, Reduced c R := by
  rw [batchDouble_eq_map] at h
  intro R hR
  obtain ⟨P, hP, hPR⟩ := mapE_ok_mem _ ps rs h R hR
  exact double_reduced c (hps P hP) hPR

theorem batchAddList_reduced {ps qs rs : List Pt} (hps : ∀ P ∈ ps, Reduced c P)
    (hqs : ∀ P ∈ qs, Reduced c P) (h : batchAddList c ps qs = .ok rs) : ∀ R ∈ rs, Reduced c R := by
  rw [batchAddList_eq_map] at h
  split at h
  · cases h
  · intro R hR
    obtain ⟨⟨P, Q⟩, hPQ, hadd⟩ := mapE_ok_mem _ _ rs h R hR
    exact add_reduced c (hps P (List.of_mem_zip hPQ).1) (hqs Q (List.of_mem_zip hPQ).2) hadd

theorem bmgLoop_reduced (hg : Reduced c c.g) (mask : Nat) (ss : List Nat) :
    ∀ (i : Nat) (res : List Pt) (cache : Cache) (rs : List Pt) (cache' : Cache),
      (∀ P ∈ res, Reduced c P) → (∀ e ∈ cache, Reduced c e.2) →
      bmgLoop c mask ss i res cache = .ok (rs, cache') →
      (∀ P ∈ rs, Reduced c P) ∧ (∀ e ∈ cache', Reduced c e.2)
  | 0, res, cache, rs, cache', hres, hc, h => by
    simp only [bmgLoop, Except.ok.injEq, Prod.mk.injEq] at h
    obtain ⟨rfl, rfl⟩ := h
    exact ⟨hres, hc⟩
  | i + 1, res, cache, rs, cache', hres, hc, h => by
    unfold bmgLoop at h
    split at h
    · cases h
    · rename_i pts cache1 hpts
      split at h
      · cases h
      · rename_i r1 hr1
        split at h
        · cases h
        · rename_i r2 hr2
          obtain ⟨h1, h2⟩ := bmgPoints_reduced c hg i mask ss cache pts cache1 hc hpts
          have h3 := batchDouble_reduced c hres hr1
          have h4 := batchAddList_reduced c h3 h1 hr2
          exact bmgLoop_reduced hg mask ss i r2 cache1 rs cache' h4 h2 h

/-- **BatchMultiplyG returns reduced points**: when the generator has reduced coordinates and
every cached point has, every returned point (and every point of the new cache) has coordinates in
`[0, p)` — whatever the scalars. -/
theorem batchMultiplyG_reduced (hg : Reduced c c.g) (cache : Cache) (scalars : List Int)
    (rs : List Pt) (cache' : Cache) (hc : ∀ e ∈ cache, Reduced c e.2)
    (h : batchMultiplyG c cache scalars = .ok (rs, cache')) :
    (∀ P ∈ rs, Reduced c P) ∧ (∀ e ∈ cache', Reduced c e.2) := by
  unfold batchMultiplyG at h
  split at h
  · cases h
  · split at h
    · cases h
    · rename_i pts cache1 hpts
      obtain ⟨h1, h2⟩ := bmgPoints_reduced c hg _ _ _ cache pts cache1 hc hpts
      exact bmgLoop_reduced c hg _ _ _ pts cache1 rs cache' h1 h2 h

/-- two reduced on-curve representations of the same group element are the same Python value. -/
theorem eq_of_toPoint_eq (hc : c.Good) {P Q : Pt} (hP : onCurve c P = true) (hQ : onCurve c Q = true)
    (hPr : Reduced c P) (hQr : Reduced c Q) (h : toPoint c P = toPoint c Q) : P = Q := by
  cases P with
  | inf =>
    cases Q with
    | inf => rfl
    | aff x y =>
      have hns := nonsingular_of_onCurve c hc hQ
      rw [toPoint_inf, toPoint_aff c hns] at h
      exact absurd h.symm (Affine.Point.some_ne_zero hns)
  | aff x y =>
    have hns := nonsingular_of_onCurve c hc hP
    cases Q with
    | inf =>
      rw [toPoint_inf, toPoint_aff c hns] at h
      exact absurd h (Affine.Point.some_ne_zero hns)
    | aff x' y' =>
      have hns' := nonsingular_of_onCurve c hc hQ
      rw [toPoint_aff c hns, toPoint_aff c hns'] at h
      simp only [Affine.Point.some.injEq] at h
      have hx := eq_of_cast_eq c hPr.1 hPr.2.1 hQr.1 hQr.2.1 h.1
      have hy := eq_of_cast_eq c hPr.2.2.1 hPr.2.2.2 hQr.2.2.1 hQr.2.2.2 h.2
      rw [hx, hy]

omit hp in
/-- the generator of a curve that passed `paramsOK` has reduced coordinates. -/
theorem reduced_g_of_paramsOK (h : c.paramsOK = true) : Reduced c c.g := by
  simp only [Curve.paramsOK, Bool.and_eq_true, decide_eq_true_eq] at h
  exact ⟨h.1.1.1.1.1.1.2, h.1.1.1.1.1.2, h.1.1.1.1.2, h.1.1.1.2⟩

end Paranoid.Ec

namespace Paranoid.EcdsaChecks
open Paranoid Paranoid.Ec WeierstrassCurve

section curve
variable (c : Curve) [hp : Fact (Nat.Prime c.p)]

/-- `d` is a private key of the raw issuer key tuple `k`: the tuple is a point of the curve and
denotes `(d mod n) • G` in the Mathlib group (`= d • G` when `n • G = 0`). -/
def IsKeyOf (k : Key) (d : Int) : Prop :=
  RepG c (.aff (k.1 : Int) (k.2 : Int)) (d % (c.n : Int)).toNat

/-- both coordinates of the raw key tuple are below `p`. -/
def KeyReduced (k : Key) : Prop := k.1 < c.p ∧ k.2 < c.p

omit hp in
theorem reduced_aff_key (k : Key) : Reduced c (.aff (k.1 : Int) (k.2 : Int)) ↔ KeyReduced c k := by
  simp only [Reduced, KeyReduced]
  constructor
  · rintro ⟨_, h1, _, h2⟩; exact ⟨by exact_mod_cast h1, by exact_mod_cast h2⟩
  · rintro ⟨h1, h2⟩; exact ⟨by omega, by exact_mod_cast h1, by omega, by exact_mod_cast h2⟩

/-- the issuer's private key is the LAST guess of the list that is a private key of `k`. -/
def LastKeyGuess (k : Key) (gs : List Int) (d : Int) : Prop :=
  ∃ pre post, gs = pre ++ d :: post ∧ IsKeyOf c k d ∧ ∀ g ∈ post, ¬ IsKeyOf c k g

theorem lastKeyGuess_unique (k : Key) (gs : List Int) (d d' : Int)
    (h : LastKeyGuess c k gs d) (h' : LastKeyGuess c k gs d') : d = d' := by
  obtain ⟨pre, post, h1, h2, h3⟩ := h
  obtain ⟨pre', post', h1', h2', h3'⟩ := h'
  rw [h1] at h1'
  rcases List.append_eq_append_iff.mp h1' with ⟨a, ha1, ha2⟩ | ⟨a, ha1, ha2⟩
  · cases a with
    | nil => simp at ha2; exact ha2.1
    | cons x xs =>
      simp only [List.cons_append, List.cons.injEq] at ha2
      exfalso
      exact h3 d' (by rw [ha2.2]; simp) h2'
  · cases a with
    | nil => simp at ha2; exact ha2.1.symm
    | cons x xs =>
      simp only [List.cons_append, List.cons.injEq] at ha2
      exfalso
      exact h3' d (by rw [ha2.2]; simp) h2

omit hp in
theorem forall₂_zip_mem {α β} {R : α → β → Prop} : ∀ {l1 : List α} {l2 : List β},
    List.Forall₂ R l1 l2 → ∀ a b, (a, b) ∈ l1.zip l2 → R a b
  | _, _, .nil, a, b, h => by simp at h
  | _, _, .cons hab ht, a, b, h => by
    simp only [List.zip_cons_cons, List.mem_cons, Prod.mk.injEq] at h
    rcases h with ⟨rfl, rfl⟩ | h
    · exact hab
    · exact forall₂_zip_mem ht a b h

/-- **`_IssuerDLogs` never raises** on a valid curve with a sound cache, for EVERY guess list and
every dict; the cache stays sound (and reduced). -/
theorem issuerDLogs_total (hc : c.Good) (hG : onCurve c c.g = true) (hn : 0 < c.n)
    (cache : Cache) (hcache : CacheOK c cache) (gs : List Int) (pks : Pks) :
    ∃ dl cache', issuerDLogs c cache gs pks = .ok (dl, cache') ∧ CacheOK c cache' ∧ cache <:+ cache' ∧
      (Reduced c c.g → (∀ e ∈ cache, Reduced c e.2) → ∀ e ∈ cache', Reduced c e.2) := by
  obtain ⟨pts, cache', h1, h2, h3, _⟩ := batchMultiplyG_spec c hc hG hn cache hcache gs
  refine ⟨dlogLoop pks pts gs [], cache', by simp [issuerDLogs, h1], h2, h3, ?_⟩
  intro hg hr
  exact (batchMultiplyG_reduced c hg cache gs pts cache' hr h1).2

/-- **`issuerDLogs_sound`**: for every guess list (LLL noise included), every dict and every sound
cache: a recorded `idx ↦ d` means `d` is one of the guesses, `idx` is listed under a key `k` of the
dict, and `k` IS the point `(d mod n) • G`. -/
theorem issuerDLogs_sound (hc : c.Good) (hG : onCurve c c.g = true) (hn : 0 < c.n)
    (cache : Cache) (hcache : CacheOK c cache) (gs : List Int) (pks : Pks) (dl : DLogs) (cache' : Cache)
    (h : issuerDLogs c cache gs pks = .ok (dl, cache')) (i : Nat) (d : Int) (hd : dl.get? i = some d) :
    d ∈ gs ∧ ∃ k l, pks.get? k = some l ∧ i ∈ l ∧ IsKeyOf c k d := by
  obtain ⟨pts, cache'', h1, _, _, h4⟩ := batchMultiplyG_spec c hc hG hn cache hcache gs
  simp only [issuerDLogs, h1, Except.ok.injEq, Prod.mk.injEq] at h
  obtain ⟨rfl, rfl⟩ := h
  refine dlogLoop_sound pks (fun i d => d ∈ gs ∧ ∃ k l, pks.get? k = some l ∧ i ∈ l ∧ IsKeyOf c k d)
    pts gs [] ?_ ?_ i d hd
  · intro P g hm k l i hP hk hi
    refine ⟨(List.of_mem_zip hm).2, k, l, hk, hi, ?_⟩
    have := forall₂_zip_mem h4 P g hm
    rwa [hP] at this
  · intro i d h0; simp [DLogs.get?] at h0

/-- **exact behaviour on the dict of `_MapIssuerSigIndexes`** (generator and cache reduced): the
index of a signature is assigned iff some guess is a private key of ITS issuer key tuple and that
tuple has reduced coordinates; the value is the last such guess of the list. -/
theorem issuerDLogs_exact (hc : c.Good) (hG : onCurve c c.g = true) (hn : 0 < c.n)
    (hg : Reduced c c.g) (cache : Cache) (hcache : CacheOK c cache)
    (hcr : ∀ e ∈ cache, Reduced c e.2) (gs : List Int) (sigs : List Sig) (dl : DLogs) (cache' : Cache)
    (h : issuerDLogs c cache gs (mapIssuerSigIndexes sigs) = .ok (dl, cache'))
    (i : Nat) (s : Sig) (hs : sigs[i]? = some s) :
    (∀ d, dl.get? i = some d → KeyReduced c s.key ∧ LastKeyGuess c s.key gs d) ∧
    (KeyReduced c s.key → (∃ g ∈ gs, IsKeyOf c s.key g) → ∃ d, dl.get? i = some d) := by
  obtain ⟨pts, cache'', h1, _, _, h4⟩ := batchMultiplyG_spec c hc hG hn cache hcache gs
  have hred := (batchMultiplyG_reduced c hg cache gs pts cache'' hcr h1).1
  simp only [issuerDLogs, h1, Except.ok.injEq, Prod.mk.injEq] at h
  obtain ⟨rfl, rfl⟩ := h
  have hlen : pts.length = gs.length := h4.length_eq
  -- the index is filed under its own key and under no other
  obtain ⟨l, hl, hil⟩ := mapIssuer_covers sigs i s hs
  have hget := (mem_iff_get? _ (nodup_mapIssuer sigs) _ _).mp hl
  have hown : ∀ k' l', (mapIssuerSigIndexes sigs).get? k' = some l' → i ∈ l' → k' = s.key := by
    intro k' l' hk' hi'
    obtain ⟨s', h1', h2'⟩ := mapIssuer_owner sigs k' l' i (get?_some_mem _ _ _ hk') hi'
    rw [hs] at h1'; cases h1'; exact h2'.symm
  have hex := dlogLoop_get? (mapIssuerSigIndexes sigs) s.key i ⟨l, hget, hil⟩ hown pts gs []
  simp only [DLogs.get?] at hex
  -- a computed point equals the raw tuple iff the guess is a key of it (and the tuple is reduced)
  have hpt : ∀ P g, (P, g) ∈ pts.zip gs →
      (P = .aff (s.key.1 : Int) (s.key.2 : Int) ↔ KeyReduced c s.key ∧ IsKeyOf c s.key g) := by
    intro P g hm
    have hrep : RepG c P (g % (c.n : Int)).toNat := forall₂_zip_mem h4 P g hm
    have hPr := hred P (List.of_mem_zip hm).1
    constructor
    · intro hP
      rw [hP] at hrep hPr
      exact ⟨(reduced_aff_key c _).mp hPr, hrep⟩
    · rintro ⟨hkr, hk⟩
      exact eq_of_toPoint_eq c hc hrep.1 hk.1 hPr ((reduced_aff_key c _).mpr hkr)
        (hrep.2.trans hk.2.symm)
  constructor
  · intro d hd
    rw [hex] at hd
    rcases lastMatch_some s.key pts gs none d hd with ⟨h0, _⟩ | ⟨pre, post, hz, hpost⟩
    · cases h0
    · have hmem : (Pt.aff (s.key.1 : Int) (s.key.2 : Int), d) ∈ pts.zip gs := by rw [hz]; simp
      have hk := (hpt _ d hmem).mp rfl
      refine ⟨hk.1, pre.map Prod.snd, post.map Prod.snd, ?_, hk.2, ?_⟩
      · have := congrArg (List.map Prod.snd) hz
        rw [List.map_snd_zip (by omega)] at this
        simpa using this
      · intro g hgm hkg
        obtain ⟨⟨P, g'⟩, he, rfl⟩ := List.mem_map.mp hgm
        have hm' : (P, g') ∈ pts.zip gs := by rw [hz]; simp [he]
        exact hpost (P, g') he ((hpt P g' hm').mpr ⟨hk.1, hkg⟩)
  · rintro hkr ⟨g, hgm, hkg⟩
    have : (lastMatch s.key pts gs none).isSome = true := by
      rw [lastMatch_isSome]
      right
      obtain ⟨j, hj, rfl⟩ := List.mem_iff_getElem.mp hgm
      refine ⟨gs[j], ?_⟩
      have hjp : j < pts.length := by omega
      have hm' : (pts[j], gs[j]) ∈ pts.zip gs := by
        refine List.mem_iff_getElem.mpr ⟨j, by simp [hlen, hj], by simp⟩
      rw [← (hpt _ _ hm').mpr ⟨hkr, hkg⟩]
      exact hm'
    rw [hex]
    exact Option.isSome_iff_exists.mp this

omit hp in
/-- an index outside `range(len(sigs))` is never assigned. -/
theorem issuerDLogs_out_of_range (gs : List Int) (sigs : List Sig) (cache : Cache) (dl : DLogs)
    (cache' : Cache) (h : issuerDLogs c cache gs (mapIssuerSigIndexes sigs) = .ok (dl, cache'))
    (i : Nat) (hi : sigs.length ≤ i) : dl.get? i = none := by
  unfold issuerDLogs at h
  split at h
  · cases h
  · cases h
    rw [dlogLoop_get?_none]
    · rfl
    · intro k' l' hk' hmem
      obtain ⟨s', h1', _⟩ := mapIssuer_owner sigs k' l' i (get?_some_mem _ _ _ hk') hmem
      rw [List.getElem?_eq_none hi] at h1'; cases h1'
end curve

/-! ### the `Check` methods: hypotheses on the curve objects -/

/-- an `EcCurve` object the theorems apply to: prime field, `p ≠ 2`, non-singular, generator on the
curve, order parameter `n ≥ 2`, and a sound `_cache` (`_cache[k] = k • G`). -/
def ObjOK (obj : CurveObj) : Prop :=
  ∃ _ : Fact (Nat.Prime obj.curve.p), obj.curve.Good ∧ onCurve obj.curve obj.curve.g = true ∧
    1 < obj.curve.n ∧ CacheOK obj.curve obj.cache

/-- generator and cached points have coordinates in `[0, p)`. -/
def ObjReduced (obj : CurveObj) : Prop :=
  Reduced obj.curve obj.curve.g ∧ ∀ e ∈ obj.cache, Reduced obj.curve e.2

def FactoryOK (f : Factory) : Prop := ∀ cid obj, (cid, some obj) ∈ f → ObjOK obj
def FactoryReduced (f : Factory) : Prop := ∀ cid obj, (cid, some obj) ∈ f → ObjReduced obj

/-- `IsKeyOf` with the primality instance packed. -/
def KeyOf (c : Curve) (k : Key) (d : Int) : Prop := ∃ _ : Fact (Nat.Prime c.p), IsKeyOf c k d

/-- `LastKeyGuess` with the primality instance packed. -/
def LastKeyOf (c : Curve) (k : Key) (gs : List Int) (d : Int) : Prop :=
  ∃ _ : Fact (Nat.Prime c.p), LastKeyGuess c k gs d

/-- the verdict of a flagged signature: positive, DISCRETE_LOG = hex of `d`. -/
def posVerdict (d : Int) : Verdict := ⟨true, none, some (infoNameDiscreteLog, .raw (dlogHex d))⟩
/-- the verdict of an unflagged signature. -/
def negVerdict : Verdict := ⟨false, none, none⟩

/-- everything the loop did for one signature whose curve has an object in the factory. -/
theorem sig_group (k : Kind) (O : Nat → GroupOracle) (factory : Factory) (arts : List Sig)
    (res : CheckResult) (h : check k O factory arts = .ok res) (hnd : (factory.map Prod.fst).Nodup)
    (bi : Nat) (s : Sig) (hs : arts[bi]? = some s) (obj : CurveObj)
    (hobj : (s.curve, some obj) ∈ factory) :
    ∃ gi dl gr, (groupFrom s.curve 0 arts)[gi]? = some (bi, s) ∧
      ((groupFrom s.curve 0 arts).map Prod.snd)[gi]? = some s ∧
      processGroup k s.curve obj.curve obj.cache (O s.curve) (groupFrom s.curve 0 arts) = .ok gr ∧
      issuerDLogs obj.curve obj.cache (O s.curve).guessList
        (mapIssuerSigIndexes ((groupFrom s.curve 0 arts).map Prod.snd)) = .ok (dl, gr.cache) ∧
      verdictOf res.writes bi = some (dlogVerdict dl gi) := by
  unfold check at h
  obtain ⟨a1, _, _⟩ := checkLoop_ok k O arts factory res h
  have hmem : (bi, s) ∈ groupFrom s.curve 0 arts :=
    (mem_groupFrom _ arts 0 bi s).mpr ⟨Nat.zero_le _, by simpa using hs, rfl⟩
  have hne : groupFrom s.curve 0 arts ≠ [] := by
    intro h0; rw [h0] at hmem; simp at hmem
  obtain ⟨gr, g1, _, g3⟩ := a1 s.curve obj hobj hne
  obtain ⟨gi, hgi, hget⟩ := List.mem_iff_getElem.mp hmem
  have hgi' : (groupFrom s.curve 0 arts)[gi]? = some (bi, s) := by
    rw [List.getElem?_eq_getElem hgi, hget]
  obtain ⟨dl, d1, d2⟩ := group_verdict k s.curve obj.curve obj.cache (O s.curve) _ gr g1
    (groupFrom_nodup _ arts 0) gi bi s hgi'
  refine ⟨gi, dl, gr, hgi', ?_, g1, d1, ?_⟩
  · rw [List.getElem?_map, hgi']; rfl
  · rw [g3 hnd bi s hmem, d2]

/-- **`weak_only_with_key`** for `BiasedBaseCheck.Check` / `CheckCr50U2f.Check`, every oracle
answer: a signature receives an entry only if its curve has an object in the factory; the entry is
positive only together with DISCRETE_LOG = hex(`d`) where `d` is one of the guesses handed to
`_IssuerDLogs` for the signature's OWN curve group and the issuer key tuple of THAT signature is the
point `(d mod n) • G`. -/
theorem check_sound (k : Kind) (O : Nat → GroupOracle) (factory : Factory) (arts : List Sig)
    (res : CheckResult) (hF : FactoryOK factory) (hnd : (factory.map Prod.fst).Nodup)
    (h : check k O factory arts = .ok res) (bi : Nat) (v : Verdict)
    (hv : verdictOf res.writes bi = some v) :
    ∃ s obj, arts[bi]? = some s ∧ (s.curve, some obj) ∈ factory ∧
      (v = negVerdict ∨
        ∃ d, v = posVerdict d ∧ d ∈ (O s.curve).guessList ∧ KeyOf obj.curve s.key d) := by
  have hm : bi ∈ res.writes.map Prod.fst := by
    by_contra hno
    rw [← verdictOf_none] at hno
    rw [hno] at hv; cases hv
  obtain ⟨_, a2, _⟩ := checkLoop_ok k O arts factory res h
  obtain ⟨s, obj, hs, hobj⟩ := (a2 bi).mp hm
  refine ⟨s, obj, hs, hobj, ?_⟩
  obtain ⟨gi, dl, gr, _, hgs, _, hdl, hver⟩ := sig_group k O factory arts res h hnd bi s hs obj hobj
  rw [hver] at hv
  cases hv
  rcases dlogVerdict_cases dl gi with ⟨_, h2⟩ | ⟨d, h1, h2⟩
  · left; exact h2
  · right
    obtain ⟨hp, hc, hG, hn, hcache⟩ := hF _ obj hobj
    obtain ⟨hd1, k', l', hk', hi', hkey⟩ := issuerDLogs_sound obj.curve hc hG (by omega) obj.cache hcache
      _ _ dl gr.cache hdl gi d h1
    obtain ⟨s', hs', hkk⟩ := mapIssuer_owner _ k' l' gi (get?_some_mem _ _ _ hk') hi'
    rw [hgs] at hs'; cases hs'
    exact ⟨d, h2, hd1, hp, by rw [hkk]; exact hkey⟩

theorem exists_last {α} (p : α → Prop) : ∀ (gs : List α), (∃ g ∈ gs, p g) →
    ∃ pre d post, gs = pre ++ d :: post ∧ p d ∧ ∀ g ∈ post, ¬ p g
  | [], h => by obtain ⟨g, hg, _⟩ := h; simp at hg
  | x :: xs, h => by
    by_cases hx : ∃ g ∈ xs, p g
    · obtain ⟨pre, d, post, h1, h2, h3⟩ := exists_last p xs hx
      exact ⟨x :: pre, d, post, by rw [h1]; rfl, h2, h3⟩
    · obtain ⟨g, hg, hpg⟩ := h
      rcases List.mem_cons.mp hg with rfl | hg
      · exact ⟨[], g, xs, rfl, hpg, fun g' hg' hp' => hx ⟨g', hg', hp'⟩⟩
      · exact absurd ⟨g, hg, hpg⟩ hx

/-- **exact verdict** (curve objects with reduced generator and cache): a signature whose curve
has an object in the factory is flagged IFF its issuer key tuple has reduced coordinates and some
guess of its curve group is a private key of that tuple; the attached value is then the LAST such
guess of `list(guesses)`.  In particular (`all_of_issuer_flagged`) every signature of an issuer
whose key is among the guesses is flagged, whatever else the batch contains. -/
theorem check_exact (k : Kind) (O : Nat → GroupOracle) (factory : Factory) (arts : List Sig)
    (res : CheckResult) (hF : FactoryOK factory) (hR : FactoryReduced factory)
    (hnd : (factory.map Prod.fst).Nodup) (h : check k O factory arts = .ok res)
    (bi : Nat) (s : Sig) (hs : arts[bi]? = some s) (obj : CurveObj)
    (hobj : (s.curve, some obj) ∈ factory) :
    ∃ v, verdictOf res.writes bi = some v ∧
      ((v = negVerdict ∧ ¬ (KeyReduced obj.curve s.key ∧
          ∃ g ∈ (O s.curve).guessList, KeyOf obj.curve s.key g)) ∨
       (∃ d, v = posVerdict d ∧ KeyReduced obj.curve s.key ∧
          LastKeyOf obj.curve s.key (O s.curve).guessList d)) := by
  obtain ⟨gi, dl, gr, _, hgs, _, hdl, hver⟩ := sig_group k O factory arts res h hnd bi s hs obj hobj
  obtain ⟨hp, hc, hG, hn, hcache⟩ := hF _ obj hobj
  obtain ⟨hgr, hcr⟩ := hR _ obj hobj
  obtain ⟨e1, e2⟩ := issuerDLogs_exact obj.curve hc hG (by omega) hgr obj.cache hcache hcr _ _ dl
    gr.cache hdl gi s hgs
  refine ⟨_, hver, ?_⟩
  rcases dlogVerdict_cases dl gi with ⟨h1, h2⟩ | ⟨d', h1, h2⟩
  · left
    refine ⟨h2, ?_⟩
    rintro ⟨hkr, g, hg1, hp', hg2⟩
    obtain ⟨d, hd⟩ := e2 hkr ⟨g, hg1, hg2⟩
    rw [h1] at hd; cases hd
  · right
    obtain ⟨q1, q2⟩ := e1 d' h1
    exact ⟨d', h2, q1, hp, q2⟩

/-! ### totality and the exact set of raising inputs -/

theorem hnpParamsList_total (n : Nat) (hn : 2 ≤ n) (uniq : List Triple)
    (h : ∀ v ∈ uniq, Int.gcd (v.2.1 : Int) n = 1) : ∃ ab, hnpParamsList n uniq = .ok ab := by
  cases hr : hnpParamsList n uniq with
  | ok ab => exact ⟨ab, rfl⟩
  | error e =>
    obtain ⟨pre, v, post, h1, h2, _⟩ := (hnpParamsList_error n uniq e).mp hr
    have := (hiddenNumberParams_error_iff n hn _ _ _ e).mp h2
    exact absurd (h v (by rw [h1]; simp)) this.2

theorem issuerCalls_total (k : Kind) (cid n : Nat) (hn : 2 ≤ n) (uniq : List Triple)
    (hne : uniq ≠ []) (h : k ≠ .cr50 → ∀ v ∈ uniq, Int.gcd (v.2.1 : Int) n = 1) :
    ∃ cs, issuerCalls k cid n uniq = .ok cs := by
  cases k with
  | cr50 => exact ⟨_, cr50Calls_eq n uniq hne⟩
  | biased m =>
    obtain ⟨ab, hab⟩ := hnpParamsList_total n hn uniq (h (by simp))
    refine ⟨modeCalls m cid n ab, ?_⟩
    simp [issuerCalls, biasedCalls, hab]

/-- why `issuerCalls` can raise: an `s` that is not invertible modulo `n` (biased checks only;
always `ZeroDivisionError`), or an empty value list (Cr50 only; `IndexError`). -/
theorem issuerCalls_error (k : Kind) (cid n : Nat) (hn : 2 ≤ n) (uniq : List Triple) (e : PyErr)
    (h : issuerCalls k cid n uniq = .error e) :
    (k = .cr50 ∧ uniq = [] ∧ e = .indexError) ∨
    ((∃ m, k = .biased m) ∧ e = .zeroDivision ∧ ∃ v ∈ uniq, Int.gcd (v.2.1 : Int) n ≠ 1) := by
  cases k with
  | cr50 =>
    left
    cases uniq with
    | nil => simp only [issuerCalls, cr50Calls_nil] at h; cases h; exact ⟨rfl, rfl, rfl⟩
    | cons v rest =>
      simp only [issuerCalls] at h
      rw [cr50Calls_eq n _ (by simp)] at h; cases h
  | biased m =>
    right
    simp only [issuerCalls, biasedCalls] at h
    cases hr : hnpParamsList n uniq with
    | ok ab => rw [hr] at h; cases h
    | error e' =>
      rw [hr] at h; cases h
      obtain ⟨pre, v, post, h1, h2, _⟩ := (hnpParamsList_error n uniq e).mp hr
      have := (hiddenNumberParams_error_iff n hn _ _ _ e).mp h2
      exact ⟨⟨m, rfl⟩, this.1, v, by rw [h1]; simp, this.2⟩

/-- what the consistency of `uniq` gives for the issuer at position `j` of a group's dict:
the values are exactly those of the signatures listed there. -/
theorem uniq_values (n : Nat) (hn : n ≠ 0) (sigs : List Sig) (O : GroupOracle)
    (hcons : uniqConsistentFrom n sigs O 0 (mapIssuerSigIndexes sigs) = true)
    (j : Nat) (k : Key) (l : List Nat) (hj : (mapIssuerSigIndexes sigs)[j]? = some (k, l)) :
    O.uniq j ≠ [] ∧
    (∀ v ∈ O.uniq j, ∃ i ∈ l, ∃ sg, sigs[i]? = some sg ∧ sg.key = k ∧
      ecdsaValues n sg.r sg.s sg.mh = .ok v) ∧
    (∀ i ∈ l, ∀ sg, sigs[i]? = some sg → ∃ v ∈ O.uniq j, ecdsaValues n sg.r sg.s sg.mh = .ok v) := by
  obtain ⟨vals, hv, henum⟩ := uniqConsistentFrom_get n sigs O _ 0 hcons j (k, l) hj
  rw [Nat.zero_add, isEnumOf_iff] at henum
  have hmem : (k, l) ∈ mapIssuerSigIndexes sigs := List.mem_of_getElem? hj
  have hl := (mem_mapIssuer sigs k l).mp hmem
  have hlen := issuerValues_length n sigs l vals hv
  refine ⟨?_, ?_, ?_⟩
  · intro h0
    cases vals with
    | nil =>
      simp only [List.length_nil] at hlen
      exact hl.2 (List.eq_nil_of_length_eq_zero hlen.symm)
    | cons x xs =>
      have := (henum.2 x).mpr (by simp)
      rw [h0] at this; simp at this
  · intro v hvm
    obtain ⟨i, hi, sg, h1, h2⟩ := issuerValues_mem n sigs l vals hv v ((henum.2 v).mp hvm)
    obtain ⟨sg', h3, h4⟩ := mapIssuer_owner sigs k l i hmem hi
    rw [h1] at h3; cases h3
    exact ⟨i, hi, sg, h1, h4, h2⟩
  · intro i hi sg hsg
    have hlt : ∀ i' ∈ l, i' < sigs.length := by
      intro i' hi'
      obtain ⟨sg', h3, _⟩ := mapIssuer_owner sigs k l i' hmem hi'
      exact (List.getElem?_eq_some_iff.mp h3).1
    obtain ⟨vals', hv', hf⟩ := issuerValues_ok n hn sigs l hlt
    rw [hv] at hv'; cases hv'
    obtain ⟨v, hvm, sg', h1, h2⟩ := forall₂_mem_left hf hi
    rw [hsg] at h1; cases h1
    exact ⟨v, (henum.2 v).mpr hvm, h2⟩

/-- every signature of a group has its curve id and is a signature of the batch. -/
theorem group_sig_mem (cid : Nat) (arts : List Sig) (i : Nat) (sg : Sig)
    (h : ((groupFrom cid 0 arts).map Prod.snd)[i]? = some sg) : sg ∈ arts ∧ sg.curve = cid := by
  rw [List.getElem?_map] at h
  cases hg : (groupFrom cid 0 arts)[i]? with
  | none => rw [hg] at h; cases h
  | some e =>
    rw [hg] at h
    obtain ⟨bi, s'⟩ := e
    simp only [Option.map_some, Option.some.injEq] at h
    subst h
    have := (mem_groupFrom cid arts 0 bi s').mp (List.mem_of_getElem? hg)
    exact ⟨List.mem_of_getElem? this.2.1, this.2.2⟩

/-- success of one group. -/
theorem processGroup_total (k : Kind) (cid : Nat) (obj : CurveObj) (hobj : ObjOK obj)
    (O : GroupOracle) (arts : List Sig)
    (hcons : uniqConsistentFrom obj.curve.n ((groupFrom cid 0 arts).map Prod.snd) O 0
      (mapIssuerSigIndexes ((groupFrom cid 0 arts).map Prod.snd)) = true)
    (hwf : k ≠ .cr50 → ∀ s ∈ arts, s.curve = cid → Int.gcd (bytes2int s.s : Int) obj.curve.n = 1) :
    ∃ gr, processGroup k cid obj.curve obj.cache O (groupFrom cid 0 arts) = .ok gr := by
  obtain ⟨hp, hc, hG, hn, hcache⟩ := hobj
  obtain ⟨dl, cache', hdl, _⟩ := issuerDLogs_total obj.curve hc hG (by omega) obj.cache hcache
    O.guessList (mapIssuerSigIndexes ((groupFrom cid 0 arts).map Prod.snd))
  have hn0 : obj.curve.n ≠ 0 := by omega
  obtain ⟨css, hcss, _⟩ := groupCallsFrom_ok k cid obj.curve.n ((groupFrom cid 0 arts).map Prod.snd) O
    (mapIssuerSigIndexes ((groupFrom cid 0 arts).map Prod.snd)) 0
    (by
      intro e he
      obtain ⟨kk, l⟩ := e
      have hlt : ∀ i' ∈ l, i' < ((groupFrom cid 0 arts).map Prod.snd).length := by
        intro i' hi'
        obtain ⟨sg', h3, _⟩ := mapIssuer_owner _ kk l i' he hi'
        exact (List.getElem?_eq_some_iff.mp h3).1
      obtain ⟨vals, hv, _⟩ := issuerValues_ok obj.curve.n hn0 _ l hlt
      exact ⟨vals, hv⟩)
    (by
      intro j hj
      rw [Nat.zero_add]
      obtain ⟨⟨kk, l⟩, hjl⟩ : ∃ e, (mapIssuerSigIndexes ((groupFrom cid 0 arts).map Prod.snd))[j]? = some e :=
        ⟨_, List.getElem?_eq_getElem hj⟩
      obtain ⟨u1, u2, _⟩ := uniq_values obj.curve.n hn0 _ O hcons j kk l hjl
      apply issuerCalls_total k cid obj.curve.n (by omega) (O.uniq j) u1
      intro hk v hv
      obtain ⟨i, _, sg, h1, _, h3⟩ := u2 v hv
      obtain ⟨m1, m2⟩ := group_sig_mem cid arts i sg h1
      rw [(ecdsaValues_fields _ _ _ _ _ h3).2]
      exact hwf hk sg m1 m2)
  exact ⟨_, processGroup_of_ok k cid obj.curve obj.cache O _ css dl cache' hcss hdl⟩

/-- **totality**: with valid curve objects and consistent order oracles, `CheckCr50U2f.Check`
never raises (any `r`, `s`, hash, key, curve id, batch size — the empty batch included), and
`BiasedBaseCheck.Check` never raises when every signature whose curve has an object in the factory
has `s` invertible modulo that curve's `n` (for the prime orders of the named curves:
`s ≢ 0 (mod n)`, in particular `1 ≤ s ≤ n-1`).  `r`, the hash, the issuer key and the oracle
answers are unconstrained. -/
theorem check_total (k : Kind) (O : Nat → GroupOracle) (factory : Factory) (arts : List Sig)
    (hF : FactoryOK factory) (hcons : UniqConsistent O arts factory)
    (hwf : k ≠ .cr50 → ∀ s ∈ arts, ∀ obj, (s.curve, some obj) ∈ factory →
      Int.gcd (bytes2int s.s : Int) obj.curve.n = 1) :
    ∃ res, check k O factory arts = .ok res := by
  apply checkLoop_total
  intro cid obj hm hne
  exact processGroup_total k cid obj (hF cid obj hm) (O cid) arts (hcons cid obj hm hne)
    (fun hk s hs hc => hwf hk s hs obj (by rw [hc]; exact hm))

/-- **the only way to raise**: if a `Check` call raises (valid curve objects, consistent order
oracles), the check is one of the `BiasedBaseCheck`s, the exception is `ZeroDivisionError`, and the
batch contains a signature whose curve has an object in the factory and whose `s` is not invertible
modulo the curve's `n`. -/
theorem check_error (k : Kind) (O : Nat → GroupOracle) (factory : Factory) (arts : List Sig)
    (hF : FactoryOK factory) (hcons : UniqConsistent O arts factory) (e : PyErr)
    (h : check k O factory arts = .error e) :
    (∃ m, k = .biased m) ∧ e = .zeroDivision ∧
      ∃ s ∈ arts, ∃ obj, (s.curve, some obj) ∈ factory ∧
        Int.gcd (bytes2int s.s : Int) obj.curve.n ≠ 1 := by
  obtain ⟨cid, obj, hm, hne, hp⟩ := checkLoop_error k O arts factory e h
  obtain ⟨hpr, hc, hG, hn, hcache⟩ := hF cid obj hm
  have hn0 : obj.curve.n ≠ 0 := by omega
  rcases processGroup_error _ _ _ _ _ _ _ hp with hg | hd
  · rcases groupCallsFrom_error _ _ _ _ _ _ _ _ hg with ⟨en, h1, h2⟩ | ⟨j, h1, h2⟩
    · exfalso
      obtain ⟨kk, l⟩ := en
      have hlt : ∀ i' ∈ l, i' < ((groupFrom cid 0 arts).map Prod.snd).length := by
        intro i' hi'
        obtain ⟨sg', h3, _⟩ := mapIssuer_owner _ kk l i' h1 hi'
        exact (List.getElem?_eq_some_iff.mp h3).1
      obtain ⟨vals, hv, _⟩ := issuerValues_ok obj.curve.n hn0 _ l hlt
      rw [hv] at h2; cases h2
    · rw [Nat.zero_add] at h2
      obtain ⟨⟨kk, l⟩, hjl⟩ : ∃ e, (mapIssuerSigIndexes ((groupFrom cid 0 arts).map Prod.snd))[j]? = some e :=
        ⟨_, List.getElem?_eq_getElem h1⟩
      obtain ⟨u1, u2, _⟩ := uniq_values obj.curve.n hn0 _ (O cid) (hcons cid obj hm hne) j kk l hjl
      rcases issuerCalls_error k cid obj.curve.n (by omega) _ e h2 with ⟨_, h3, _⟩ | ⟨h3, h4, v, hv, hgcd⟩
      · exact absurd h3 u1
      · refine ⟨h3, h4, ?_⟩
        obtain ⟨i, _, sg, q1, _, q3⟩ := u2 v hv
        obtain ⟨m1, m2⟩ := group_sig_mem cid arts i sg q1
        rw [(ecdsaValues_fields _ _ _ _ _ q3).2] at hgcd
        exact ⟨sg, m1, obj, by rw [m2]; exact hm, hgcd⟩
  · exfalso
    obtain ⟨dl, cache', hdl, _⟩ := issuerDLogs_total obj.curve hc hG (by omega) obj.cache hcache
      (O cid).guessList (mapIssuerSigIndexes ((groupFrom cid 0 arts).map Prod.snd))
    rw [hdl] at hd; cases hd

/-- **… and it does raise**: a `BiasedBaseCheck` on a batch containing a signature with a known
curve whose `s` is not invertible modulo `n` raises `ZeroDivisionError` — for the whole batch,
whatever the other signatures and the oracle answers are. -/
theorem check_raises (m : Mode) (O : Nat → GroupOracle) (factory : Factory) (arts : List Sig)
    (hF : FactoryOK factory) (hnd : (factory.map Prod.fst).Nodup)
    (hcons : UniqConsistent O arts factory)
    (s : Sig) (hs : s ∈ arts) (obj : CurveObj) (hobj : (s.curve, some obj) ∈ factory)
    (hbad : Int.gcd (bytes2int s.s : Int) obj.curve.n ≠ 1) :
    check (.biased m) O factory arts = .error .zeroDivision := by
  cases hres : check (.biased m) O factory arts with
  | error e =>
    rw [(check_error _ O factory arts hF hcons e hres).2.1]
  | ok res =>
    exfalso
    obtain ⟨bi, hbi, hget⟩ := List.mem_iff_getElem.mp hs
    have hs' : arts[bi]? = some s := by rw [List.getElem?_eq_getElem hbi, hget]
    obtain ⟨gi, dl, gr, _, hgs, hpg, _, _⟩ := sig_group _ O factory arts res hres hnd bi s hs' obj hobj
    obtain ⟨_, _, hcalls, _⟩ := processGroup_ok _ _ _ _ _ _ _ hpg
    obtain ⟨hpr, _, _, hn, _⟩ := hF _ obj hobj
    have hn0 : obj.curve.n ≠ 0 := by omega
    have hmem : (bi, s) ∈ groupFrom s.curve 0 arts :=
      (mem_groupFrom _ arts 0 bi s).mpr ⟨Nat.zero_le _, by simpa using hs', rfl⟩
    have hne : groupFrom s.curve 0 arts ≠ [] := by
      intro h0; rw [h0] at hmem; simp at hmem
    obtain ⟨l, hl, hil⟩ := mapIssuer_covers _ gi s hgs
    obtain ⟨j, hj, hjl⟩ := pks_index_of_mem _ _ _ hl
    obtain ⟨_, _, u3⟩ := uniq_values obj.curve.n hn0 _ (O s.curve) (hcons _ obj hobj hne) j _ l hjl
    obtain ⟨v, hv, hval⟩ := u3 gi hil s hgs
    obtain ⟨hlen, hinv⟩ := groupCallsFrom_inv _ _ _ _ _ _ _ _ hcalls
    obtain ⟨cs, hcs⟩ : ∃ cs, gr.calls[j]? = some cs := ⟨_, List.getElem?_eq_getElem (by omega)⟩
    have hic := hinv j cs hcs
    rw [Nat.zero_add] at hic
    simp only [issuerCalls, biasedCalls] at hic
    cases hab : hnpParamsList obj.curve.n ((O s.curve).uniq j) with
    | error e => rw [hab] at hic; cases hic
    | ok ab =>
      obtain ⟨p, _, hp⟩ := forall₂_mem_left ((hnpParamsList_ok _ _ _).mp hab) hv
      have herr : hiddenNumberParams obj.curve.n v.1 v.2.1 v.2.2 = .error .zeroDivision := by
        rw [hiddenNumberParams_error_iff _ (by omega)]
        refine ⟨rfl, ?_⟩
        rw [(ecdsaValues_fields _ _ _ _ _ hval).2]
        exact hbad
      rw [herr] at hp; cases hp

/-! ### the curve objects after a call; corollaries for C08 / C17 -/

theorem checkLoop_factory (k : Kind) (O : Nat → GroupOracle) (arts : List Sig) :
    ∀ (factory : Factory) (res : CheckResult), checkLoop k O arts factory = .ok res →
      res.factory.map Prod.fst = factory.map Prod.fst ∧
      ∀ cid obj', (cid, some obj') ∈ res.factory → ∃ obj, (cid, some obj) ∈ factory ∧
        obj'.curve = obj.curve ∧
        (obj'.cache = obj.cache ∨
          ∃ gr, processGroup k cid obj.curve obj.cache (O cid) (groupFrom cid 0 arts) = .ok gr ∧
            obj'.cache = gr.cache)
  | [], res, h => by
    simp only [checkLoop, Except.ok.injEq] at h
    subst h; simp
  | (cid0, o) :: rest, res, h => by
    rcases checkLoop_cases k O arts cid0 o rest with ⟨_, heq⟩ | ⟨obj0, ho, hg, heq⟩
    · rw [heq] at h
      cases hr : checkLoop k O arts rest with
      | error e => rw [hr] at h; cases h
      | ok r =>
        rw [hr] at h
        simp only [Except.ok.injEq] at h
        subst h
        obtain ⟨i1, i2⟩ := checkLoop_factory k O arts rest r hr
        refine ⟨by simp [CheckResult.cons, i1], ?_⟩
        intro cid obj' hm
        rcases List.mem_cons.mp hm with hm | hm
        · cases hm
          exact ⟨obj', List.mem_cons_self, rfl, Or.inl rfl⟩
        · obtain ⟨obj, h1, h2, h3⟩ := i2 cid obj' hm
          exact ⟨obj, List.mem_cons_of_mem _ h1, h2, h3⟩
    · subst ho
      rw [heq] at h
      cases hp : processGroup k cid0 obj0.curve obj0.cache (O cid0) (groupFrom cid0 0 arts) with
      | error e => rw [hp] at h; cases h
      | ok gr0 =>
        rw [hp] at h
        simp only at h
        cases hr : checkLoop k O arts rest with
        | error e => rw [hr] at h; cases h
        | ok r =>
          rw [hr] at h
          simp only [Except.ok.injEq] at h
          subst h
          obtain ⟨i1, i2⟩ := checkLoop_factory k O arts rest r hr
          refine ⟨by simp [CheckResult.consGroup, i1], ?_⟩
          intro cid obj' hm
          rcases List.mem_cons.mp hm with hm | hm
          · cases hm
            exact ⟨obj0, List.mem_cons_self, rfl, Or.inr ⟨gr0, hp, rfl⟩⟩
          · obtain ⟨obj, h1, h2, h3⟩ := i2 cid obj' hm
            exact ⟨obj, List.mem_cons_of_mem _ h1, h2, h3⟩

/-- **no state leaks between calls**: the curve objects after a `Check` call satisfy the hypotheses
of every theorem again (same ids, same curves, caches still sound and reduced), so the theorems
apply to every later call of any check on any batch in the same process. -/
theorem check_preserves (k : Kind) (O : Nat → GroupOracle) (factory : Factory) (arts : List Sig)
    (res : CheckResult) (hF : FactoryOK factory) (h : check k O factory arts = .ok res) :
    res.factory.map Prod.fst = factory.map Prod.fst ∧ FactoryOK res.factory ∧
      (FactoryReduced factory → FactoryReduced res.factory) := by
  obtain ⟨i1, i2⟩ := checkLoop_factory k O arts factory res h
  refine ⟨i1, ?_, ?_⟩
  · intro cid obj' hm
    obtain ⟨obj, h1, h2, h3⟩ := i2 cid obj' hm
    obtain ⟨hp, hc, hG, hn, hcache⟩ := hF cid obj h1
    have hp' : Fact (Nat.Prime obj'.curve.p) := by rw [h2]; exact hp
    refine ⟨hp', ?_⟩
    rcases h3 with h3 | ⟨gr, g1, g2⟩
    · cases obj'; cases obj
      simp only at h2 h3
      subst h2; subst h3
      exact ⟨hc, hG, hn, hcache⟩
    · obtain ⟨dl, d1, _, _⟩ := processGroup_ok _ _ _ _ _ _ _ g1
      obtain ⟨dl', cache', t1, t2, _, _⟩ := issuerDLogs_total obj.curve hc hG (by omega) obj.cache hcache
        (O cid).guessList (mapIssuerSigIndexes ((groupFrom cid 0 arts).map Prod.snd))
      rw [d1] at t1
      simp only [Except.ok.injEq, Prod.mk.injEq] at t1
      cases obj'; cases obj
      simp only at h2 g2
      subst h2; subst g2
      rw [t1.2]
      exact ⟨hc, hG, hn, t2⟩
  · intro hR cid obj' hm
    obtain ⟨obj, h1, h2, h3⟩ := i2 cid obj' hm
    obtain ⟨hp, hc, hG, hn, hcache⟩ := hF cid obj h1
    obtain ⟨r1, r2⟩ := hR cid obj h1
    rcases h3 with h3 | ⟨gr, g1, g2⟩
    · cases obj'; cases obj
      simp only at h2 h3
      subst h2; subst h3
      exact ⟨r1, r2⟩
    · obtain ⟨dl, d1, _, _⟩ := processGroup_ok _ _ _ _ _ _ _ g1
      obtain ⟨dl', cache', t1, _, _, t4⟩ := issuerDLogs_total obj.curve hc hG (by omega) obj.cache hcache
        (O cid).guessList (mapIssuerSigIndexes ((groupFrom cid 0 arts).map Prod.snd))
      rw [d1] at t1
      simp only [Except.ok.injEq, Prod.mk.injEq] at t1
      cases obj'; cases obj
      simp only at h2 g2
      subst h2; subst g2
      rw [t1.2]
      exact ⟨r1, t4 r1 r2⟩

/-- every answer of every solver call of a group is in `list(guesses)` (consistent oracle). -/
theorem answer_in_guessList (k : Kind) (O : Nat → GroupOracle) (factory : Factory) (arts : List Sig)
    (hG : GuessConsistent k O arts factory) (cid : Nat) (obj : CurveObj)
    (hm : (cid, some obj) ∈ factory) (hne : groupFrom cid 0 arts ≠ [])
    (j : Nat) (cs : List Call) (kk : Nat) (g : Int)
    (hj : j < (mapIssuerSigIndexes ((groupFrom cid 0 arts).map Prod.snd)).length)
    (hc : issuerCalls k cid obj.curve.n ((O cid).uniq j) = .ok cs) (hk : kk < cs.length)
    (hg : g ∈ (O cid).answer j kk) : g ∈ (O cid).guessList := by
  have h1 := hG cid obj hm hne
  rw [isEnumOf_iff] at h1
  rw [h1.2]
  exact mem_groupAnswers k cid obj.curve.n (O cid) g _ 0 j cs kk hj (by rwa [Nat.zero_add])
    hk (by rwa [Nat.zero_add])

/-- **the verdict of a signature is a function of (its curve object's curve, its issuer key tuple,
`list(guesses)` of its curve group)** — nothing else of the batch, of the order of the batch, of the
check kind, of the cache content or of earlier calls enters. -/
theorem verdict_independent
    (k k' : Kind) (O O' : Nat → GroupOracle) (factory factory' : Factory) (arts arts' : List Sig)
    (res res' : CheckResult)
    (hF : FactoryOK factory) (hR : FactoryReduced factory) (hnd : (factory.map Prod.fst).Nodup)
    (hF' : FactoryOK factory') (hR' : FactoryReduced factory') (hnd' : (factory'.map Prod.fst).Nodup)
    (h : check k O factory arts = .ok res) (h' : check k' O' factory' arts' = .ok res')
    (bi bi' : Nat) (s s' : Sig) (hs : arts[bi]? = some s) (hs' : arts'[bi']? = some s')
    (obj obj' : CurveObj) (hobj : (s.curve, some obj) ∈ factory) (hobj' : (s'.curve, some obj') ∈ factory')
    (hcurve : obj.curve = obj'.curve) (hkey : s.key = s'.key)
    (hgl : (O s.curve).guessList = (O' s'.curve).guessList) :
    verdictOf res.writes bi = verdictOf res'.writes bi' := by
  obtain ⟨v, hv, hcase⟩ := check_exact k O factory arts res hF hR hnd h bi s hs obj hobj
  obtain ⟨v', hv', hcase'⟩ := check_exact k' O' factory' arts' res' hF' hR' hnd' h' bi' s' hs' obj' hobj'
  rw [hv, hv']
  rw [← hcurve, ← hkey, ← hgl] at hcase'
  rcases hcase with ⟨n1, n2⟩ | ⟨d, p1, p2, hp, p3⟩
  · rcases hcase' with ⟨n1', _⟩ | ⟨d', _, p2', hp', p3'⟩
    · rw [n1, n1']
    · exfalso
      obtain ⟨pre, post, q1, q2, _⟩ := p3'
      exact n2 ⟨p2', d', by rw [q1]; simp, hp', q2⟩
  · rcases hcase' with ⟨_, n2'⟩ | ⟨d', p1', _, hp', p3'⟩
    · exfalso
      obtain ⟨pre, post, q1, q2, _⟩ := p3
      exact n2' ⟨p2, d, by rw [q1]; simp, hp, q2⟩
    · have : d = d' := lastKeyGuess_unique obj.curve s.key _ d d' p3 p3'
      rw [p1, p1', this]

/-- **anything flagged stays flagged when the guesses grow**: if a signature is flagged in one run,
it is flagged in every run (other batch, other order, other check) whose `list(guesses)` for its
curve group contains at least the same values. -/
theorem flagged_monotone
    (k k' : Kind) (O O' : Nat → GroupOracle) (factory factory' : Factory) (arts arts' : List Sig)
    (res res' : CheckResult)
    (hF : FactoryOK factory) (hR : FactoryReduced factory) (hnd : (factory.map Prod.fst).Nodup)
    (hF' : FactoryOK factory') (hR' : FactoryReduced factory') (hnd' : (factory'.map Prod.fst).Nodup)
    (h : check k O factory arts = .ok res) (h' : check k' O' factory' arts' = .ok res')
    (bi bi' : Nat) (s s' : Sig) (hs : arts[bi]? = some s) (hs' : arts'[bi']? = some s')
    (obj obj' : CurveObj) (hobj : (s.curve, some obj) ∈ factory) (hobj' : (s'.curve, some obj') ∈ factory')
    (hcurve : obj.curve = obj'.curve) (hkey : s.key = s'.key)
    (hsub : ∀ g ∈ (O s.curve).guessList, g ∈ (O' s'.curve).guessList)
    (d : Int) (hpos : verdictOf res.writes bi = some (posVerdict d)) :
    ∃ d', verdictOf res'.writes bi' = some (posVerdict d') := by
  obtain ⟨v, hv, hcase⟩ := check_exact k O factory arts res hF hR hnd h bi s hs obj hobj
  obtain ⟨v', hv', hcase'⟩ := check_exact k' O' factory' arts' res' hF' hR' hnd' h' bi' s' hs' obj' hobj'
  rw [hv] at hpos
  cases hpos
  rw [← hcurve, ← hkey] at hcase'
  rcases hcase with ⟨n1, _⟩ | ⟨d0, _, p2, hp, p3⟩
  · cases n1
  · rcases hcase' with ⟨_, n2'⟩ | ⟨d', p1', _⟩
    · exfalso
      obtain ⟨pre, post, q1, q2, _⟩ := p3
      exact n2' ⟨p2, d0, hsub d0 (by rw [q1]; simp), hp, q2⟩
    · exact ⟨d', by rw [hv', p1']⟩

end Paranoid.EcdsaChecks
