/-
Proofs/Factoring.lean — helper lemmas for C01/C04: soundness of every factor-returning function.
-/
import ParanoidModel.Model.Factoring
import Mathlib.Tactic.Ring
import Mathlib.Tactic.Linarith
import Mathlib.Data.Nat.GCD.Basic
import Mathlib.Data.Int.GCD

namespace Paranoid

theorem isSquare_iff (n : Nat) : isSquare n = true ↔ Nat.sqrt n * Nat.sqrt n = n := by
  simp [isSquare]

theorem isSquareI_iff (d : Int) :
    isSquareI d = true ↔ 0 ≤ d ∧ Nat.sqrt d.toNat * Nat.sqrt d.toNat = d.toNat := by
  cases d with
  | ofNat n => simp [isSquareI, isSquare]
  | negSucc n => simp [isSquareI]

/-- difference of squares on naturals. -/
theorem sq_sub_sq_nat (a s n : Nat) (h : s * s + n = a * a) : (a + s) * (a - s) = n := by
  have hs : s ≤ a := by
    by_contra hc
    have : a < s := Nat.lt_of_not_le hc
    have : a * a < s * s := Nat.mul_self_lt_mul_self this
    omega
  obtain ⟨k, rfl⟩ := Nat.exists_eq_add_of_le hs
  have : s + k - s = k := by omega
  rw [this]
  have e : (s + k) * (s + k) = s * s + (s + k + s) * k := by ring
  rw [e] at h
  omega

/-! ### FermatFactor -/

theorem fermatLoop_sound (n : Nat) : ∀ (steps a b2 : Nat) (p q : Nat),
    b2 + n = a * a → fermatLoop steps a b2 = some (p, q) → p * q = n
  | 0, _, _, _, _, _, h => by simp [fermatLoop] at h
  | steps + 1, a, b2, p, q, hinv, h => by
    unfold fermatLoop at h
    split at h
    · rename_i hsq
      rw [isSquare_iff] at hsq
      simp only [isqrt, Option.some.injEq, Prod.mk.injEq] at h
      obtain ⟨rfl, rfl⟩ := h
      apply sq_sub_sq_nat
      omega
    · apply fermatLoop_sound n steps (a + 1) (b2 + a + (a + 1)) p q _ h
      have : (a + 1) * (a + 1) = a * a + a + (a + 1) := by ring
      omega

theorem fermatFactor_sound (n steps p q : Nat) (h : fermatFactor n steps = some (p, q)) :
    p * q = n := by
  unfold fermatFactor at h
  split at h
  · simp only [Option.some.injEq, Prod.mk.injEq] at h
    obtain ⟨rfl, rfl⟩ := h
    omega
  · split at h
    · rename_i hsq
      simp only [Option.some.injEq, Prod.mk.injEq] at h
      obtain ⟨rfl, rfl⟩ := h
      exact hsq
    · apply fermatLoop_sound n _ _ _ p q _ h
      have h1 : n < (Nat.sqrt n + 1) * (Nat.sqrt n + 1) := Nat.lt_succ_sqrt n
      simp only [isqrt]
      omega

/-! ### FactorHighAndLowBitsEqual -/

theorem hlbeInner_sound (n step : Nat) : ∀ (cnt s : Nat) (fs : List Nat),
    hlbeInner n step cnt s = .inl fs → ∃ x y, fs = [x, y] ∧ x * y = n
  | 0, _, _, h => by simp [hlbeInner] at h
  | cnt + 1, s, fs, h => by
    unfold hlbeInner at h
    simp only at h
    generalize s + step = S at h
    split at h
    · rename_i hsq
      rw [isSquareI_iff] at hsq
      obtain ⟨hd, hs⟩ := hsq
      simp only [Sum.inl.injEq] at h
      refine ⟨_, _, h.symm, ?_⟩
      rw [Nat.mul_comm]
      apply sq_sub_sq_nat
      simp only [isqrt]
      rw [hs]
      have h2 := Int.toNat_of_nonneg hd
      zify
      rw [h2]; ring
    · exact hlbeInner_sound n step cnt _ fs h

theorem hlbeBits_sound (n r mb : Nat) : ∀ (fuel i s : Nat) (fs : List Nat),
    hlbeBits n r mb fuel i s = some fs → ∃ x y, fs = [x, y] ∧ x * y = n
  | 0, _, _, _, h => by simp [hlbeBits] at h
  | fuel + 1, i, s, fs, h => by
    unfold hlbeBits at h
    split at h
    · simp only at h
      split at h
      · rename_i fs' hin
        simp only [Option.some.injEq] at h
        subst h
        exact hlbeInner_sound _ _ _ _ _ hin
      · exact hlbeBits_sound n r mb fuel _ _ fs h
    · exact hlbeBits_sound n r mb fuel _ _ fs h

theorem hlbe_sound (n mb : Nat) (fs : List Nat)
    (h : factorHighAndLowBitsEqual n mb = .ok (some fs)) : ∃ x y, fs = [x, y] ∧ x * y = n := by
  unfold factorHighAndLowBitsEqual at h
  split at h
  · simp at h
  · split at h
    · simp at h
    · simp only at h
      split at h
      · simp at h
      · split at h
        · simp at h
        · split at h
          · rename_i fs' hb
            simp only [Except.ok.injEq, Option.some.injEq] at h
            subst h
            exact hlbeBits_sound _ _ _ _ _ _ _ hb
          · simp only [Except.ok.injEq] at h
            exact hlbeBits_sound _ _ _ _ _ _ _ h

/-! ### gcd-based returns -/

/-- the shape `[g, n / g]` with `g ∣ n`, `1 < g < n`. -/
def ProperSplit (n : Nat) (fs : List Nat) : Prop :=
  ∃ g, fs = [g, n / g] ∧ g ∣ n ∧ 1 < g ∧ g < n

theorem ProperSplit.prod {n fs} (h : ProperSplit n fs) : ∃ x y, fs = [x, y] ∧ x * y = n := by
  obtain ⟨g, rfl, hd, _, _⟩ := h
  exact ⟨g, n / g, rfl, Nat.mul_div_cancel' hd⟩

theorem ProperSplit.all_dvd {n fs} (h : ProperSplit n fs) : ∀ f ∈ fs, f ∣ n := by
  obtain ⟨g, rfl, hd, _, _⟩ := h
  intro f hf
  simp only [List.mem_cons, List.not_mem_nil, or_false] at hf
  rcases hf with rfl | rfl
  · exact hd
  · exact Nat.div_dvd_of_dvd hd

theorem ProperSplit.proper {n fs} (h : ProperSplit n fs) : ∀ f ∈ fs, 1 < f ∧ f < n := by
  obtain ⟨g, rfl, hd, h1, h2⟩ := h
  intro f hf
  simp only [List.mem_cons, List.not_mem_nil, or_false] at hf
  have hn : 0 < n := by omega
  have hg : 0 < g := by omega
  have hmul : g * (n / g) = n := Nat.mul_div_cancel' hd
  rcases hf with rfl | rfl
  · exact ⟨h1, h2⟩
  · constructor
    · by_contra hc
      have : n / g ≤ 1 := by omega
      have : g * (n / g) ≤ g * 1 := Nat.mul_le_mul_left g this
      omega
    · exact Nat.div_lt_self hn h1

theorem intGcd_dvd_right_nat (a : Int) (n : Nat) : Int.gcd a (n : Int) ∣ n := by
  have := Int.gcd_dvd_right a (n : Int)
  exact Int.natCast_dvd_natCast.mp this

theorem intGcd_dvd_left_nat (a : Int) (n : Nat) : Int.gcd (n : Int) a ∣ n := by
  have := Int.gcd_dvd_left (n : Int) a
  exact Int.natCast_dvd_natCast.mp this

theorem splitBy_sound (g n : Nat) (fs : List Nat) (hd : g ∣ n) (h : splitBy g n = some fs) :
    ProperSplit n fs := by
  unfold splitBy at h
  split at h
  · rename_i hc
    simp only [Option.some.injEq] at h
    exact ⟨g, h.symm, hd, hc.1, hc.2⟩
  · simp at h

/-! ### CheckContinuedFraction -/

theorem cfTryRoots_sound (n : Nat) (base : Int) (t : Nat) (fs : List Nat)
    (h : cfTryRoots n base t = some fs) : ProperSplit n fs := by
  unfold cfTryRoots at h
  split at h
  · rename_i fs' h1
    simp only [Option.some.injEq] at h
    subst h
    exact splitBy_sound _ _ _ (intGcd_dvd_left_nat _ _) h1
  · exact splitBy_sound _ _ _ (intGcd_dvd_left_nat _ _) h

theorem cfAttempt_sound (n x : Nat) (a b c : Int) (fs : List Nat)
    (h : cfAttempt n x a b c = some fs) : ProperSplit n fs := by
  unfold cfAttempt at h
  split at h
  · exact cfTryRoots_sound _ _ _ _ h
  · simp at h

theorem cfStep_sound (n x bound quot v : Nat) (ok : Bool) (fs : List Nat)
    (h : cfStep n x bound quot v = .ok (some (ok, fs))) :
    ok = false ∧ (fs = [] ∨ ProperSplit n fs) := by
  unfold cfStep at h
  split at h
  · simp at h
  · split at h
    · simp at h
    · split at h
      · rename_i fs' ha
        simp only [Except.ok.injEq, Option.some.injEq, Prod.mk.injEq] at h
        obtain ⟨rfl, rfl⟩ := h
        exact ⟨rfl, Or.inr (cfAttempt_sound _ _ _ _ _ _ ha)⟩
      · split at h
        · simp only [Except.ok.injEq, Option.some.injEq, Prod.mk.injEq] at h
          obtain ⟨rfl, rfl⟩ := h
          exact ⟨rfl, Or.inl rfl⟩
        · simp at h

theorem cfCheckLoop_sound (n x bound : Nat) : ∀ (l : List (Nat × Nat × Nat)) (ok : Bool)
    (fs : List Nat), cfCheckLoop n x bound l = .ok (ok, fs) →
      fs = [] ∨ (ok = false ∧ ProperSplit n fs)
  | [], ok, fs, h => by
    simp only [cfCheckLoop, Except.ok.injEq, Prod.mk.injEq] at h
    exact Or.inl h.2.symm
  | (quot, r0, v) :: rest, ok, fs, h => by
    unfold cfCheckLoop at h
    split at h
    · simp at h
    · rename_i res hs
      simp only [Except.ok.injEq] at h
      subst h
      obtain ⟨h1, h2⟩ := cfStep_sound _ _ _ _ _ _ _ hs
      rcases h2 with h2 | h2
      · exact Or.inl h2
      · exact Or.inr ⟨h1, h2⟩
    · exact cfCheckLoop_sound n x bound rest ok fs h

/-! ### CheckFraction -/

theorem checkFractionLoop_sound (n w : Nat) : ∀ (basis : List (List Int)) (fs : List Nat),
    checkFractionLoop n w basis = .ok fs → fs = [] ∨ ProperSplit n fs
  | [], fs, h => by
    simp only [checkFractionLoop, Except.ok.injEq] at h
    exact Or.inl h.symm
  | row :: rest, fs, h => by
    unfold checkFractionLoop at h
    split at h
    · split at h
      · rename_i fs' hs
        simp only [Except.ok.injEq] at h
        subst h
        exact Or.inr (splitBy_sound _ _ _ (intGcd_dvd_right_nat _ _) hs)
      · exact checkFractionLoop_sound n w rest fs h
    · simp at h

/-! ### FactorWithGuess / CheckSmallUpperDifferences -/

theorem fwgFinish_sound (n a d : Nat) (fs : List Nat) (h : fwgFinish n a d = some fs) :
    ProperSplit n fs := by
  unfold fwgFinish at h
  split at h
  · exact splitBy_sound _ _ _ (Nat.gcd_dvd_right _ _) h
  · simp at h

theorem fwgLoop_sound (n p0 q0 bound : Nat) : ∀ (l : List (Nat × Nat × Nat)) (fs : List Nat),
    fwgLoop n p0 q0 bound l = some fs → ProperSplit n fs
  | [], fs, h => by simp [fwgLoop] at h
  | (_, u, v) :: rest, fs, h => by
    unfold fwgLoop at h
    split at h
    · split at h
      · rename_i fs' hf
        simp only [Option.some.injEq] at h
        subst h
        exact fwgFinish_sound _ _ _ _ hf
      · split at h
        · simp at h
        · exact fwgLoop_sound n p0 q0 bound rest fs h
    · exact fwgLoop_sound n p0 q0 bound rest fs h

theorem factorWithGuess_sound (n p0 cbrt : Nat) (fs : List Nat)
    (h : factorWithGuess n p0 cbrt = .ok (some fs)) : ProperSplit n fs := by
  unfold factorWithGuess at h
  split at h
  · simp at h
  · simp only [Except.ok.injEq] at h
    exact fwgLoop_sound _ _ _ _ _ _ h

theorem sudLoop_sound (n cbrt : Nat) : ∀ (l : List Nat) (fs : List Nat),
    sudLoop n cbrt l = .ok (some fs) → ProperSplit n fs
  | [], fs, h => by simp [sudLoop] at h
  | d :: rest, fs, h => by
    unfold sudLoop at h
    simp only [bind, Except.bind] at h
    split at h
    · simp at h
    · rename_i r hr
      split at h
      · simp only [Except.ok.injEq, Option.some.injEq] at h
        subst h
        exact factorWithGuess_sound _ _ _ _ hr
      · exact sudLoop_sound n cbrt rest fs h

/-! ### Pollardpm1 -/

theorem pm1Decide_sound (p n : Nat) (hd : p ∣ n) (w : Bool) (fs : List Nat)
    (h : pm1Decide p n = (w, fs)) : fs = [] ∨ (w = true ∧ ProperSplit n fs) := by
  unfold pm1Decide at h
  split at h
  · rename_i fs' hs
    simp only [Prod.mk.injEq] at h
    obtain ⟨rfl, rfl⟩ := h
    exact Or.inr ⟨rfl, splitBy_sound _ _ _ hd hs⟩
  · split at h <;> simp only [Prod.mk.injEq] at h <;> exact Or.inl h.2.symm

theorem pollardPm1_sound (n m gb : Nat) (w : Bool) (fs : List Nat)
    (h : pollardPm1 n m gb = (w, fs)) : fs = [] ∨ (w = true ∧ ProperSplit n fs) := by
  unfold pollardPm1 at h
  split at h
  · exact pm1Decide_sound _ _ (intGcd_dvd_right_nat _ _) _ _ h
  · simp only [Prod.mk.injEq] at h
    exact Or.inl h.2.symm

/-! ### CheckLowHammingWeight -/

theorem lhwTry_found (n0 p q hw bit : Nat) (h : LHeap) (dp dq a b : Nat)
    (hf : lhwTry n0 p q hw bit h dp dq = .found a b) : bit = 0 ∧ a * b = n0 := by
  unfold lhwTry at hf
  simp only at hf
  split at hf
  · simp at hf
  · split at hf
    · split at hf <;> simp at hf
    · rename_i hlt hb
      split at hf
      · rename_i hr
        simp only [LhwTry.found.injEq] at hf
        obtain ⟨rfl, rfl⟩ := hf
        refine ⟨by omega, ?_⟩
        omega
      · simp at hf

theorem lhwExtend_sound (n hw : Nat) : ∀ (bit p q : Nat) (h : LHeap) (a b : Nat),
    lhwExtend n hw bit p q h = .inl (a, b) → a * b = n
  | 0, _, _, _, _, _, hf => by simp [lhwExtend] at hf
  | bit + 1, p, q, h, a, b, hf => by
    have ih := lhwExtend_sound n hw bit
    have key : ∀ {hh dp dq a' b'}, lhwTry (n >>> (2 * bit)) (2 * p) (2 * q) hw bit hh dp dq
        = .found a' b' → a' * b' = n := by
      intro hh dp dq a' b' hfound
      obtain ⟨hb, hab⟩ := lhwTry_found _ _ _ _ _ _ _ _ _ _ hfound
      subst hb
      simpa using hab
    unfold lhwExtend at hf
    simp only at hf
    split at hf
    · exact ih _ _ _ _ _ hf
    · rename_i a' b' h1
      simp only [Sum.inl.injEq, Prod.mk.injEq] at hf
      obtain ⟨rfl, rfl⟩ := hf
      exact key h1
    · split at hf
      · exact ih _ _ _ _ _ hf
      · rename_i a' b' h1
        simp only [Sum.inl.injEq, Prod.mk.injEq] at hf
        obtain ⟨rfl, rfl⟩ := hf
        exact key h1
      · split at hf
        · exact ih _ _ _ _ _ hf
        · rename_i a' b' h1
          simp only [Sum.inl.injEq, Prod.mk.injEq] at hf
          obtain ⟨rfl, rfl⟩ := hf
          exact key h1
        · split at hf
          · simp at hf
          · exact ih _ _ _ _ _ hf

theorem lhwMain_sound (n cutoff : Nat) : ∀ (fuel steps minv : Nat) (heap : LHeap) (a b : Nat),
    lhwMain n cutoff fuel steps minv heap = .inl (a, b) → a * b = n
  | 0, _, _, _, _, _, hf => by simp [lhwMain] at hf
  | fuel + 1, steps, minv, heap, a, b, hf => by
    unfold lhwMain at hf
    split at hf
    · simp at hf
    · simp only at hf
      split at hf
      · simp at hf
      · split at hf
        · rename_i pq hext
          simp only [Sum.inl.injEq] at hf
          subst hf
          exact lhwExtend_sound _ _ _ _ _ _ _ _ hext
        · exact lhwMain_sound n cutoff fuel _ _ _ a b hf

end Paranoid
