/-
Proofs/Fermat.lean — exact characterisation of FermatFactor (C04).
-/
import ParanoidModel.Proofs.Factoring
import Mathlib.Data.Nat.Prime.Basic
import Mathlib.Tactic.Ring
import Mathlib.Tactic.Linarith
import Mathlib.Tactic.NormNum

namespace Paranoid

/-- `SqAt n a` : `a*a - n` is a perfect square and `n ≤ a*a` (what the loop tests at `a`). -/
def SqAt (n a : Nat) : Prop := isSquare (a * a - n) = true

instance (n a : Nat) : Decidable (SqAt n a) := by unfold SqAt; infer_instance

/-- the loop finds nothing iff no tested `a` gives a square. -/
theorem fermatLoop_none (n : Nat) : ∀ (steps a b2 : Nat), b2 + n = a * a →
    (∀ j < steps, ¬ SqAt n (a + j)) → fermatLoop steps a b2 = none
  | 0, _, _, _, _ => by simp [fermatLoop]
  | steps + 1, a, b2, hinv, hno => by
    unfold fermatLoop
    have h0 : ¬ SqAt n (a + 0) := hno 0 (Nat.succ_pos _)
    have hb : b2 = a * a - n := by omega
    have : isSquare b2 = false := by
      simp only [SqAt, Nat.add_zero, Bool.not_eq_true] at h0
      rw [hb]; exact h0
    simp only [this, Bool.false_eq_true, if_false]
    apply fermatLoop_none n steps (a + 1)
    · have : (a + 1) * (a + 1) = a * a + a + (a + 1) := by ring
      omega
    · intro j hj
      have := hno (j + 1) (by omega)
      rwa [show a + 1 + j = a + (j + 1) by omega]

/-- the loop returns at the first `k` with a square. -/
theorem fermatLoop_first (n : Nat) : ∀ (steps a b2 k : Nat), b2 + n = a * a → k < steps →
    (∀ j < k, ¬ SqAt n (a + j)) → SqAt n (a + k) →
    fermatLoop steps a b2 =
      some (a + k + Nat.sqrt ((a + k) * (a + k) - n), a + k - Nat.sqrt ((a + k) * (a + k) - n))
  | 0, _, _, _, _, hk, _, _ => by omega
  | steps + 1, a, b2, k, hinv, hk, hno, hsq => by
    unfold fermatLoop
    have hb : b2 = a * a - n := by omega
    cases k with
    | zero =>
      have : isSquare b2 = true := by
        simp only [SqAt, Nat.add_zero] at hsq
        rw [hb]; exact hsq
      subst hb
      simp only [this, if_true, isqrt, Nat.add_zero]
    | succ k =>
      have h0 : ¬ SqAt n (a + 0) := hno 0 (Nat.succ_pos _)
      have : isSquare b2 = false := by
        simp only [SqAt, Nat.add_zero, Bool.not_eq_true] at h0
        rw [hb]; exact h0
      simp only [this, Bool.false_eq_true, if_false]
      have ih := fermatLoop_first n steps (a + 1) (b2 + a + (a + 1)) k
        (by have : (a + 1) * (a + 1) = a * a + a + (a + 1) := by ring
            omega)
        (by omega)
        (by intro j hj
            have := hno (j + 1) (by omega)
            rwa [show a + 1 + j = a + (j + 1) by omega])
        (by rwa [show a + 1 + k = a + (k + 1) by omega])
      rw [ih]
      rw [show a + 1 + k = a + (k + 1) by omega]

/-- divisors of a product of two primes. -/
theorem dvd_prime_mul_prime {p q d : Nat} (hp : p.Prime) (hq : q.Prime) (h : d ∣ p * q) :
    d = 1 ∨ d = p ∨ d = q ∨ d = p * q := by
  rcases (Nat.dvd_mul.mp h) with ⟨d1, d2, h1, h2, rfl⟩
  rcases (Nat.dvd_prime hp).mp h1 with rfl | rfl <;>
  rcases (Nat.dvd_prime hq).mp h2 with rfl | rfl <;> simp

/-- For distinct odd primes, `a*a - p*q` is a perfect square (with `p*q ≤ a*a`) exactly at
`a = (p+q)/2` and `a = (p*q+1)/2`. -/
theorem sq_at_prime_product {p q : Nat} (hp : p.Prime) (hq : q.Prime) (hpq : p < q)
    (hpo : p % 2 = 1) (hqo : q % 2 = 1) (a : Nat) (ha : p * q ≤ a * a) :
    SqAt (p * q) a ↔ a = (p + q) / 2 ∨ a = (p * q + 1) / 2 := by
  have hp2 := hp.two_le
  have hq2 := hq.two_le
  constructor
  · intro h
    unfold SqAt at h
    rw [isSquare_iff] at h
    set b := Nat.sqrt (a * a - p * q) with hb
    have hba : b * b + p * q = a * a := by omega
    have hble : b ≤ a := by
      by_contra hc
      have : a < b := Nat.lt_of_not_le hc
      have := Nat.mul_self_lt_mul_self this
      have : 0 < p * q := Nat.mul_pos (by omega) (by omega)
      omega
    have hfac : (a - b) * (a + b) = p * q := by
      have := sq_sub_sq_nat a b (p * q) hba
      rw [Nat.mul_comm] at this; exact this
    have hd : (a - b) ∣ p * q := Dvd.intro _ hfac
    have hsum : (a - b) + (a + b) = 2 * a := by omega
    rcases dvd_prime_mul_prime hp hq hd with h1 | h1 | h1 | h1
    · -- a - b = 1, a + b = p*q
      right
      rw [h1, Nat.one_mul] at hfac
      omega
    · -- a - b = p, a + b = q
      left
      rw [h1] at hfac
      have : a + b = q := Nat.eq_of_mul_eq_mul_left (by omega) hfac
      omega
    · -- a - b = q, a + b = p : impossible since p < q
      exfalso
      rw [h1, Nat.mul_comm] at hfac
      have : a + b = p := Nat.eq_of_mul_eq_mul_right (by omega : 0 < q) hfac
      omega
    · -- a - b = p*q, a + b = 1
      exfalso
      rw [h1] at hfac
      have hpos : 0 < p * q := Nat.mul_pos (by omega) (by omega)
      have : a + b = 1 := by
        have := Nat.eq_of_mul_eq_mul_left hpos (by rw [hfac, Nat.mul_one] : p * q * (a + b) = p * q * 1)
        exact this
      have : 4 ≤ p * q := by nlinarith
      omega
  · rintro (h | h)
    · -- a = (p+q)/2, b = (q-p)/2
      unfold SqAt
      rw [isSquare_iff]
      obtain ⟨k, hk⟩ : ∃ k, q = p + 2 * k := ⟨(q - p) / 2, by omega⟩
      have ha' : a = p + k := by omega
      have : a * a - p * q = k * k := by
        rw [ha', hk]
        have : (p + k) * (p + k) = p * (p + 2 * k) + k * k := by ring
        omega
      rw [this, Nat.sqrt_eq]
    · unfold SqAt
      rw [isSquare_iff]
      obtain ⟨m, hm⟩ : ∃ m, p * q = 2 * m + 1 := by
        have : (p * q) % 2 = 1 := by rw [Nat.mul_mod, hpo, hqo]
        exact ⟨p * q / 2, by omega⟩
      have ha' : a = m + 1 := by omega
      have : a * a - p * q = m * m := by
        rw [ha', hm]
        have : (m + 1) * (m + 1) = 2 * m + 1 + m * m := by ring
        omega
      rw [this, Nat.sqrt_eq]

end Paranoid
