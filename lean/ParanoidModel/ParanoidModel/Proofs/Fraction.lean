/-
Proofs/Fraction.lean — completeness side of CheckFraction given a good LLL row (C05).
-/
import ParanoidModel.Proofs.Fermat
import Mathlib.Data.Int.GCD

namespace Paranoid

/-- value tested for a basis row `[cx, v1, …]`: `ax*w + cx` with `ax = -v1`. -/
def rowValue (w : Nat) (cx v1 : Int) : Int := (-v1) * w + cx

theorem gcd_semiprime_cases {p q : Nat} (hp : p.Prime) (hq : q.Prime) (z : Int) :
    Int.gcd z ((p * q : Nat) : Int) = 1 ∨ Int.gcd z ((p * q : Nat) : Int) = p ∨
    Int.gcd z ((p * q : Nat) : Int) = q ∨ Int.gcd z ((p * q : Nat) : Int) = p * q :=
  dvd_prime_mul_prime hp hq (intGcd_dvd_right_nat z (p * q))

theorem splitBy_semiprime {p q : Nat} (hp : p.Prime) (hq : q.Prime) (g : Nat)
    (hg : g = p ∨ g = q) : splitBy g (p * q) = some [p, q] ∨ splitBy g (p * q) = some [q, p] := by
  have hp2 := hp.two_le
  have hq2 := hq.two_le
  unfold splitBy
  rcases hg with rfl | rfl
  · left
    rw [if_pos ⟨by omega, by nlinarith⟩, Nat.mul_div_cancel_left _ (by omega)]
  · right
    rw [if_pos ⟨by omega, by nlinarith⟩, Nat.mul_div_cancel _ (by omega)]

theorem splitBy_trivial (n g : Nat) (hg : g = 1 ∨ g = n) : splitBy g n = none := by
  unfold splitBy
  rcases hg with rfl | rfl <;> simp

/-- if some row of the basis has a value divisible by `p` but not by `q`, the loop returns
both primes (whatever the other rows are, as long as each has at least two entries). -/
theorem checkFractionLoop_complete {p q : Nat} (hp : p.Prime) (hq : q.Prime) (hpq : p ≠ q)
    (w : Nat) : ∀ (basis : List (List Int)),
    (∀ row ∈ basis, 2 ≤ row.length) →
    (∃ cx v1 rest, (cx :: v1 :: rest) ∈ basis ∧ (p : Int) ∣ rowValue w cx v1 ∧
        ¬ (q : Int) ∣ rowValue w cx v1) →
    checkFractionLoop (p * q) w basis = .ok [p, q] ∨
      checkFractionLoop (p * q) w basis = .ok [q, p]
  | [], _, ⟨_, _, _, hmem, _⟩ => by simp at hmem
  | row :: rest, hlen, ⟨cx, v1, tl, hmem, hpd, hqd⟩ => by
    have hrow := hlen row (List.mem_cons_self ..)
    match row, hrow with
    | a :: b :: tl', _ =>
      unfold checkFractionLoop
      simp only
      rcases gcd_semiprime_cases hp hq (rowValue w a b) with h | h | h | h
      · -- gcd 1: continue; the good row must be in the rest
        rw [show (-b) * (w : Int) + a = rowValue w a b from rfl, h,
          splitBy_trivial _ _ (Or.inl rfl)]
        have : (cx :: v1 :: tl) ∈ rest := by
          rcases List.mem_cons.mp hmem with heq | hin
          · exfalso
            injection heq with h1 h2
            injection h2 with h2 h3
            subst h1 h2
            have : ((p : Nat) : Int) ∣ ((1 : Nat) : Int) := by
              rw [← h]; exact Int.dvd_coe_gcd hpd (by push_cast; exact Dvd.intro _ rfl)
            have := Int.natCast_dvd_natCast.mp this
            have := Nat.le_of_dvd (by omega) this
            have := hp.two_le; omega
          · exact hin
        exact checkFractionLoop_complete hp hq hpq w rest
          (fun r hr => hlen r (List.mem_cons_of_mem _ hr)) ⟨cx, v1, tl, this, hpd, hqd⟩
      · rw [show (-b) * (w : Int) + a = rowValue w a b from rfl, h]
        rcases splitBy_semiprime hp hq p (Or.inl rfl) with h' | h' <;> rw [h'] <;> simp
      · rw [show (-b) * (w : Int) + a = rowValue w a b from rfl, h]
        rcases splitBy_semiprime hp hq q (Or.inr rfl) with h' | h' <;> rw [h'] <;> simp
      · -- gcd n: continue
        rw [show (-b) * (w : Int) + a = rowValue w a b from rfl, h,
          splitBy_trivial _ _ (Or.inr rfl)]
        have : (cx :: v1 :: tl) ∈ rest := by
          rcases List.mem_cons.mp hmem with heq | hin
          · exfalso
            injection heq with h1 h2
            injection h2 with h2 h3
            subst h1 h2
            apply hqd
            have hd := Int.gcd_dvd_left (rowValue w cx v1) ((p * q : Nat) : Int)
            rw [h] at hd
            exact Dvd.dvd.trans (by push_cast; exact Dvd.intro_left _ rfl) hd
          · exact hin
        exact checkFractionLoop_complete hp hq hpq w rest
          (fun r hr => hlen r (List.mem_cons_of_mem _ hr)) ⟨cx, v1, tl, this, hpd, hqd⟩

end Paranoid
