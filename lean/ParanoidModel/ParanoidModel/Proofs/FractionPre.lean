/-
Proofs/FractionPre.lean — the "pre" half of the lattice sandwich for CheckFraction (C05):

 1. the planted vector `(c·x, −a·x, c·(d·u − a·q))` of a prime `p = (a·w + c)/d` is an explicit
    integer combination of the rows of the lattice the code hands to LLL (`fractionLattice`);
 2. its entries are small (the docstring's derivation, made exact);
 3. its row value is `x·d·p`: a multiple of `p` and not of `q`, so `checkFraction` returns both
    primes whenever the reduced basis contains ± that row (with Proofs/Fraction.lean);
 4. a prime that is a `w`-bit word repeated `k` times, apart from a small deviation, has the
    form `(a·2^(w·k) + c)/(2^w − 1)` with explicit small `a`, `c`;
 5. `CheckBitPatterns` / `CheckPermutedBitPatterns` are "try `CheckFraction(n, d)` for each `d`
    of an explicit list, first success wins".

What is NOT proved (oracle assumption): that `lll.reduce` returns the planted vector.
-/
import ParanoidModel.Proofs.Fraction
import ParanoidModel.Model.RsaChecks
import ParanoidModel.Driver.RsaChecks
import Mathlib.Tactic.Ring
import Mathlib.Tactic.Linarith
import Mathlib.Tactic.LinearCombination
import Mathlib.Algebra.Order.Ring.Abs
import Mathlib.Algebra.Ring.GeomSum
import Mathlib.Data.Int.GCD
import Mathlib.Data.Nat.Prime.Basic

namespace Paranoid

/-! ### 1. membership -/

/-- integer combination `c0·r0 + c1·r1 + c2·r2` of three rows (entrywise). -/
def rowSmul (c : Int) (r : List Int) : List Int := r.map (c * ·)
def rowAdd (r s : List Int) : List Int := List.zipWith (· + ·) r s
def rowCombo3 (c0 c1 c2 : Int) (r0 r1 r2 : List Int) : List Int :=
  rowAdd (rowAdd (rowSmul c0 r0) (rowSmul c1 r1)) (rowSmul c2 r2)

/-- the three rows of the lattice the code builds, spelled out. -/
theorem fractionLattice_rows (n d0 : Nat) :
    fractionLattice n d0 =
      [[((2 ^ bitLength d0 : Nat) : Int), 0,
          ((n / 2 ^ (bitLength n / 2) * d0 % 2 ^ (bitLength n / 2) : Nat) : Int)],
       [0, ((2 ^ bitLength d0 : Nat) : Int),
          ((n % 2 ^ (bitLength n / 2) * d0 % 2 ^ (bitLength n / 2) : Nat) : Int)],
       [0, 0, ((2 ^ (bitLength n / 2) : Nat) : Int)]] := rfl

theorem fraction_vector_in_lattice (n d0 : Nat) (a c k : Int) :
    ∃ r0 r1 r2, fractionLattice n d0 = [r0, r1, r2] ∧
      rowCombo3 c (-a) k r0 r1 r2 =
        [c * ((2 ^ bitLength d0 : Nat) : Int), -a * ((2 ^ bitLength d0 : Nat) : Int),
         c * ((n / 2 ^ (bitLength n / 2) * d0 % 2 ^ (bitLength n / 2) : Nat) : Int)
           - a * ((n % 2 ^ (bitLength n / 2) * d0 % 2 ^ (bitLength n / 2) : Nat) : Int)
           + k * ((2 ^ (bitLength n / 2) : Nat) : Int)] := by
  refine ⟨_, _, _, fractionLattice_rows n d0, ?_⟩
  simp only [rowCombo3, rowAdd, rowSmul, List.map, List.zipWith]
  congr 1
  · ring
  congr 1
  · ring
  congr 1
  ring

/-! ### 2. the planted vector is short -/

/-- `d·u − a·q`, the "error" of the approximation `d·u ≈ a·q` in the docstring. -/
def fracErr (n w q d : Nat) (a : Int) : Int := (d : Int) * ((n / w : Nat) : Int) - a * q

/-- the coefficient of the third lattice row that makes the planted vector short. -/
def fracK (n w q d : Nat) (a c : Int) : Int :=
  c * ((n / w * d / w : Nat) : Int) - a * ((n % w * d / w : Nat) : Int) - a * fracErr n w q d a

/-- docstring: `d*u*w + d*v = a*q*w + c*q`, i.e. `(d·u − a·q)·w = c·q − d·v`. -/
theorem fracErr_mul (p q d w : Nat) (a c : Int) (hfrac : (d : Int) * p = a * w + c) :
    fracErr (p * q) w q d a * w = c * q - (d : Int) * ((p * q % w : Nat) : Int) := by
  have hn : ((p * q : Nat) : Int) = (w : Int) * ((p * q / w : Nat) : Int) + ((p * q % w : Nat) : Int) := by
    exact_mod_cast (Nat.div_add_mod (p * q) w).symm
  unfold fracErr
  push_cast at hn ⊢
  linear_combination (-(d : Int)) * hn + (q : Int) * hfrac

/-- docstring: `d*v == c*q (mod w)`. -/
theorem frac_dv_cong (p q d w : Nat) (a c : Int) (hfrac : (d : Int) * p = a * w + c) :
    ((w : Int)) ∣ c * q - (d : Int) * ((p * q % w : Nat) : Int) :=
  ⟨fracErr (p * q) w q d a, by rw [← fracErr_mul p q d w a c hfrac]; ring⟩

/-- the third entry of the planted vector, with the explicit multiple `fracK` of the last row,
is exactly `c·(d·u − a·q)`. -/
theorem frac_third_entry (p q d w : Nat) (a c : Int) (hfrac : (d : Int) * p = a * w + c) :
    c * ((p * q / w * d % w : Nat) : Int) - a * ((p * q % w * d % w : Nat) : Int)
      + fracK (p * q) w q d a c * w = c * fracErr (p * q) w q d a := by
  have h := fracErr_mul p q d w a c hfrac
  have h1 : ((p * q / w * d % w : Nat) : Int) =
      ((p * q / w : Nat) : Int) * d - w * ((p * q / w * d / w : Nat) : Int) := by
    have := Nat.div_add_mod (p * q / w * d) w
    have : ((w * (p * q / w * d / w) + p * q / w * d % w : Nat) : Int) = ((p * q / w * d : Nat) : Int) := by
      rw [this]
    push_cast at this ⊢
    linarith
  have h2 : ((p * q % w * d % w : Nat) : Int) =
      ((p * q % w : Nat) : Int) * d - w * ((p * q % w * d / w : Nat) : Int) := by
    have := Nat.div_add_mod (p * q % w * d) w
    have : ((w * (p * q % w * d / w) + p * q % w * d % w : Nat) : Int) = ((p * q % w * d : Nat) : Int) := by
      rw [this]
    push_cast at this ⊢
    linarith
  rw [h1, h2]
  unfold fracK
  unfold fracErr at h ⊢
  linear_combination (-a) * h

/-- docstring: `abs(d*u - a*q) < h`: precisely `|d·u − a·q|·w < |c|·q + d·w`. -/
theorem fracErr_bound (p q d w : Nat) (a c : Int) (hd : 0 < d) (hw : 0 < w)
    (hfrac : (d : Int) * p = a * w + c) :
    |fracErr (p * q) w q d a| * w < |c| * q + (d : Int) * w := by
  have h := fracErr_mul p q d w a c hfrac
  have hv : ((p * q % w : Nat) : Int) < w := by exact_mod_cast Nat.mod_lt _ hw
  have hv0 : (0 : Int) ≤ ((p * q % w : Nat) : Int) := Int.natCast_nonneg _
  have hwI : (0 : Int) ≤ (w : Int) := Int.natCast_nonneg _
  have hdI : (0 : Int) < (d : Int) := by exact_mod_cast hd
  calc |fracErr (p * q) w q d a| * w = |fracErr (p * q) w q d a * w| := by
        rw [abs_mul, abs_of_nonneg hwI]
    _ = |c * q - (d : Int) * ((p * q % w : Nat) : Int)| := by rw [h]
    _ ≤ |c * q| + |(d : Int) * ((p * q % w : Nat) : Int)| := abs_sub _ _
    _ = |c| * q + (d : Int) * ((p * q % w : Nat) : Int) := by
        rw [abs_mul, abs_of_nonneg (Int.natCast_nonneg q),
          abs_of_nonneg (mul_nonneg hdI.le hv0)]
    _ < |c| * q + (d : Int) * w := by nlinarith

/-- if moreover `q ≤ m·w` (balanced primes: `m = 1` when `q < w`, `m = 2` always for primes of
equal bit length) then `|d·u − a·q| < |c|·m + d` — the docstring's `h`. -/
theorem fracErr_lt (p q d w m : Nat) (a c : Int) (hd : 0 < d) (hw : 0 < w)
    (hq : q ≤ m * w) (hfrac : (d : Int) * p = a * w + c) :
    |fracErr (p * q) w q d a| < |c| * m + d := by
  have h := fracErr_bound p q d w a c hd hw hfrac
  have hwI : (0 : Int) < (w : Int) := by exact_mod_cast hw
  have hqI : (q : Int) ≤ (m : Int) * w := by exact_mod_cast hq
  have hc : 0 ≤ |c| := abs_nonneg c
  have : |fracErr (p * q) w q d a| * w < (|c| * m + d) * w := by nlinarith
  exact lt_of_mul_lt_mul_right this hwI.le

/-! ### 2b. size helpers -/

namespace FracPre

theorem bitLength_le_iff (n k : Nat) : bitLength n ≤ k ↔ n < 2 ^ k := by
  unfold bitLength
  split
  · subst n; simp
  · rename_i h
    rw [← Nat.log2_lt h]; omega

/-- `x = 2^bit_length(d) ≤ 2·d` for `d > 0`. -/
theorem two_pow_bitLength_le (d : Nat) (hd : 0 < d) : 2 ^ bitLength d ≤ 2 * d := by
  have h : ¬ bitLength d ≤ bitLength d - 1 := by
    have : bitLength d ≠ 0 := by unfold bitLength; simp [Nat.pos_iff_ne_zero.mp hd]
    omega
  rw [bitLength_le_iff] at h
  have e : 2 ^ bitLength d = 2 * 2 ^ (bitLength d - 1) := by
    have : bitLength d ≠ 0 := by unfold bitLength; simp [Nat.pos_iff_ne_zero.mp hd]
    rw [← Nat.pow_succ']; congr 1; omega
  omega

/-- primes (any numbers) of equal bit length: `q < 2·w` for `w = 2^(bitLength (p·q) / 2)`. -/
theorem balanced_q_lt (p q : Nat) (hp : 0 < p) (hL : bitLength p = bitLength q) :
    q < 2 * 2 ^ (bitLength (p * q) / 2) := by
  have hq : 0 < q := by
    rcases Nat.eq_zero_or_pos q with rfl | h
    · have : bitLength p = 0 := by rw [hL]; rfl
      unfold bitLength at this; simp [Nat.pos_iff_ne_zero.mp hp] at this
    · exact h
  set L := bitLength q with hLq
  have hL1 : 1 ≤ L := by
    have : bitLength q ≠ 0 := by unfold bitLength; simp [Nat.pos_iff_ne_zero.mp hq]
    omega
  have hp' : 2 ^ (L - 1) ≤ p := by
    have h : ¬ bitLength p ≤ L - 1 := by omega
    rw [bitLength_le_iff] at h; omega
  have hq' : 2 ^ (L - 1) ≤ q := by
    have h : ¬ bitLength q ≤ L - 1 := by omega
    rw [bitLength_le_iff] at h; omega
  have hq'' : q < 2 ^ L := (bitLength_le_iff q L).1 (Nat.le_refl _)
  have hn : ¬ bitLength (p * q) ≤ 2 * (L - 1) := by
    rw [bitLength_le_iff]
    have : 2 ^ (2 * (L - 1)) = 2 ^ (L - 1) * 2 ^ (L - 1) := by rw [← Nat.pow_add]; congr 1; omega
    have := Nat.mul_le_mul hp' hq'
    omega
  have hh : L - 1 ≤ bitLength (p * q) / 2 := by omega
  have : 2 ^ (L - 1) ≤ 2 ^ (bitLength (p * q) / 2) := Nat.pow_le_pow_right (by norm_num) hh
  have e : 2 ^ L = 2 * 2 ^ (L - 1) := by rw [← Nat.pow_succ']; congr 1; omega
  omega

end FracPre

/-- the docstring's `(c*d*u − a*d*v) % w`: it is congruent to the short entry `c·(d·u − a·q)`. -/
theorem frac_third_entry_emod (p q d w : Nat) (a c : Int) (hfrac : (d : Int) * p = a * w + c) :
    (c * d * ((p * q / w : Nat) : Int) - a * d * ((p * q % w : Nat) : Int)) % (w : Int) =
      (c * fracErr (p * q) w q d a) % (w : Int) := by
  have h := fracErr_mul p q d w a c hfrac
  have : c * d * ((p * q / w : Nat) : Int) - a * d * ((p * q % w : Nat) : Int) =
      c * fracErr (p * q) w q d a + (w : Int) * (a * fracErr (p * q) w q d a) := by
    unfold fracErr at h ⊢
    linear_combination (-a) * h
  rw [this, Int.add_mul_emod_self_left]

/-! ### 3. value of the planted row, sandwich -/

theorem rowValue_planted (w x : Nat) (a c : Int) :
    rowValue w (c * x) (-a * x) = x * (a * w + c) := by
  unfold rowValue; ring

theorem rowValue_neg (w : Nat) (cx v1 : Int) : rowValue w (-cx) (-v1) = -rowValue w cx v1 := by
  unfold rowValue; ring

/-- an odd prime `q` with `q ∤ d` does not divide `2^k·d`. -/
theorem prime_not_dvd_two_pow_mul {q : Nat} (hq : q.Prime) (hq2 : q ≠ 2) (k d : Nat)
    (hqd : ¬ q ∣ d) : ¬ q ∣ 2 ^ k * d := by
  intro h
  rcases (Nat.Prime.dvd_mul hq).mp h with h | h
  · have := hq.dvd_of_dvd_pow h
    exact hq2 ((Nat.prime_dvd_prime_iff_eq hq Nat.prime_two).mp this)
  · exact hqd h

theorem fraction_vector_value {p q : Nat} (hq : q.Prime) (hpq : p ≠ q) (hp : p.Prime)
    (d w x : Nat) (a c : Int) (hfrac : (d : Int) * p = a * w + c) (hqxd : ¬ q ∣ x * d) :
    rowValue w (c * x) (-a * x) = (x : Int) * d * p ∧
    (p : Int) ∣ rowValue w (c * x) (-a * x) ∧ ¬ (q : Int) ∣ rowValue w (c * x) (-a * x) := by
  have hv : rowValue w (c * x) (-a * x) = (x : Int) * d * p := by
    rw [rowValue_planted, ← hfrac]; ring
  refine ⟨hv, ⟨(x : Int) * d, by rw [hv]; ring⟩, ?_⟩
  rw [hv]
  intro h
  have h' : q ∣ x * d * p := by exact_mod_cast h
  rcases (Nat.Prime.dvd_mul hq).mp h' with h1 | h1
  · exact hqxd h1
  · exact hpq ((Nat.prime_dvd_prime_iff_eq hq hp).mp h1).symm

theorem fraction_sandwich' {p q : Nat} (hp : p.Prime) (hq : q.Prime) (hpq : p ≠ q)
    (hq2 : q ≠ 2) (d : Nat) (hqd : ¬ q ∣ d) (a c : Int)
    (hfrac : (d : Int) * p = a * ((2 ^ (bitLength (p * q) / 2) : Nat) : Int) + c)
    (basis : List (List Int)) (hlen : ∀ row ∈ basis, 2 ≤ row.length)
    (hrow : ∃ rest, (c * ((2 ^ bitLength d : Nat) : Int) :: -a * ((2 ^ bitLength d : Nat) : Int) :: rest) ∈ basis ∨
      (-(c * ((2 ^ bitLength d : Nat) : Int)) :: -(-a * ((2 ^ bitLength d : Nat) : Int)) :: rest) ∈ basis) :
    checkFraction (p * q) basis = .ok [p, q] ∨ checkFraction (p * q) basis = .ok [q, p] := by
  obtain ⟨hv, hpd, hqd'⟩ := fraction_vector_value hq hpq hp d (2 ^ (bitLength (p * q) / 2))
    (2 ^ bitLength d) a c hfrac (prime_not_dvd_two_pow_mul hq hq2 _ d hqd)
  apply checkFractionLoop_complete hp hq hpq _ basis hlen
  obtain ⟨rest, h | h⟩ := hrow
  · exact ⟨_, _, rest, h, hpd, hqd'⟩
  · refine ⟨_, _, rest, h, ?_, ?_⟩
    · rw [rowValue_neg]; exact (dvd_neg).mpr hpd
    · rw [rowValue_neg]; exact fun h => hqd' ((dvd_neg).mp h)

/-! ### 4. repetitions are fractions -/

/-- the `w`-bit word `W` written `k` times: `W·(2^(w·k) − 1)/(2^w − 1)`. -/
def repeatWord (W w k : Nat) : Nat := W * ((2 ^ (w * k) - 1) / (2 ^ w - 1))

theorem repUnit_mul (w k : Nat) :
    (2 ^ w - 1) * ((2 ^ (w * k) - 1) / (2 ^ w - 1)) = 2 ^ (w * k) - 1 := by
  apply Nat.mul_div_cancel'
  have := Nat.sub_one_dvd_pow_sub_one (2 ^ w) k
  rwa [← pow_mul] at this

/-- `(2^w − 1)·(W W … W) = W·2^(w·k) − W` (over the integers). -/
theorem repeatWord_mul (W w k : Nat) :
    ((2 : Int) ^ w - 1) * (repeatWord W w k : Int) = (W : Int) * 2 ^ (w * k) - W := by
  have h := repUnit_mul w k
  have h1 : 1 ≤ 2 ^ w := Nat.one_le_two_pow
  have h2 : 1 ≤ 2 ^ (w * k) := Nat.one_le_two_pow
  have hI : (((2 ^ w - 1) * ((2 ^ (w * k) - 1) / (2 ^ w - 1)) : Nat) : Int) = ((2 ^ (w * k) - 1 : Nat) : Int) := by
    rw [h]
  rw [Nat.cast_mul, Nat.cast_sub h1, Nat.cast_sub h2] at hI
  push_cast at hI
  unfold repeatWord
  push_cast
  linear_combination (W : Int) * hI

/-- appending one more copy of the word: shift by `w` bits and add `W`. -/
theorem repeatWord_succ (W w k : Nat) (hw : 0 < w) :
    repeatWord W w (k + 1) = repeatWord W w k * 2 ^ w + W := by
  have h1 := repeatWord_mul W w (k + 1)
  have h2 := repeatWord_mul W w k
  have hpos : (0 : Int) < (2 : Int) ^ w - 1 := by
    have : (2 : Int) ^ 1 ≤ 2 ^ w := pow_le_pow_right₀ (by norm_num) hw
    linarith
  have : ((2 : Int) ^ w - 1) * (repeatWord W w (k + 1) : Int) =
      ((2 : Int) ^ w - 1) * ((repeatWord W w k * 2 ^ w + W : Nat) : Int) := by
    rw [h1]
    push_cast
    have e : (2 : Int) ^ (w * (k + 1)) = 2 ^ (w * k) * 2 ^ w := by rw [Nat.mul_succ, pow_add]
    rw [e]
    linear_combination (-(2 : Int) ^ w) * h2
  exact_mod_cast mul_left_cancel₀ hpos.ne' this

theorem repeatWord_zero (W w : Nat) : repeatWord W w 0 = 0 := by simp [repeatWord]

/-- a repetition with a deviation `δ` (the deviating low-order bits):
`(2^w − 1)·(P + δ) = W·2^(w·k) + ((2^w − 1)·δ − W)`. -/
theorem repetition_dev (W w k : Nat) (δ : Int) :
    ((2 : Int) ^ w - 1) * ((repeatWord W w k : Int) + δ) =
      (W : Int) * 2 ^ (w * k) + (((2 : Int) ^ w - 1) * δ - W) := by
  have := repeatWord_mul W w k
  linear_combination this

/-- size of the numerator's constant term: with `W < 2^w` and `|δ| < 2^t`,
`|(2^w − 1)·δ − W| < 2^(w+t)` (in particular `< 2^w·(2^t + 1)`). -/
theorem repetition_c_bound (W w t : Nat) (δ : Int) (hW : W < 2 ^ w) (hδ : |δ| < 2 ^ t) :
    |((2 : Int) ^ w - 1) * δ - W| < 2 ^ (w + t) := by
  have hWI : (W : Int) ≤ 2 ^ w - 1 := by
    have : (W : Int) < 2 ^ w := by exact_mod_cast hW
    linarith
  have hW0 : (0 : Int) ≤ W := Int.natCast_nonneg _
  have hm : (0 : Int) ≤ (2 : Int) ^ w - 1 := by
    have : (1 : Int) ≤ 2 ^ w := one_le_pow₀ (by norm_num)
    linarith
  have hδ' : |δ| ≤ 2 ^ t - 1 := by linarith [Int.add_one_le_iff.mpr hδ]
  calc |((2 : Int) ^ w - 1) * δ - W| ≤ |((2 : Int) ^ w - 1) * δ| + |(W : Int)| := abs_sub _ _
    _ = ((2 : Int) ^ w - 1) * |δ| + W := by rw [abs_mul, abs_of_nonneg hm, abs_of_nonneg hW0]
    _ ≤ ((2 : Int) ^ w - 1) * (2 ^ t - 1) + (2 ^ w - 1) := by nlinarith
    _ = ((2 : Int) ^ w - 1) * 2 ^ t := by ring
    _ < 2 ^ (w + t) := by
        rw [pow_add]
        have : (0 : Int) < 2 ^ t := by positivity
        nlinarith

/-- a number whose bits have period `w` over its `L` low bits (`p >> w` equals the low `L − w`
bits of `p`): `(2^w − 1)·p = A·2^L − B` with `A = p >> (L − w)` (the bits from position `L − w`
up) and `B = p mod 2^w` (the lowest word). Covers pattern lengths that do not divide `L`. -/
theorem periodic_is_fraction (p L w : Nat) (hwL : w ≤ L) (hper : p / 2 ^ w = p % 2 ^ (L - w)) :
    ((2 : Int) ^ w - 1) * (p : Int) =
      ((p / 2 ^ (L - w) : Nat) : Int) * 2 ^ L - ((p % 2 ^ w : Nat) : Int) := by
  have h1 : (p : Int) = (2 : Int) ^ w * ((p / 2 ^ w : Nat) : Int) + ((p % 2 ^ w : Nat) : Int) := by
    exact_mod_cast (Nat.div_add_mod p (2 ^ w)).symm
  have h2 : (p : Int) = (2 : Int) ^ (L - w) * ((p / 2 ^ (L - w) : Nat) : Int) +
      ((p % 2 ^ (L - w) : Nat) : Int) := by
    exact_mod_cast (Nat.div_add_mod p (2 ^ (L - w))).symm
  have h3 : (2 : Int) ^ L = 2 ^ w * 2 ^ (L - w) := by rw [← pow_add]; congr 1; omega
  rw [hper] at h1
  rw [h3]
  linear_combination (-1 : Int) * h1 + (2 : Int) ^ w * h2

/-! ### 5. enumeration of the denominators -/

/-- the denominators `CheckBitPatterns` tries when every attempt fails (same definition as the
driver op `chk.bitpatterns_ds`, which the harness compares with the Python). -/
def bitPatternDenominators (n : Nat) (ps : List Nat) : List Nat :=
  (ps.filter (fun p => p ≤ bitLength n / 8)).map (fun p => 2 ^ p - 1)

/-- the denominators `CheckPermutedBitPatterns` tries when every attempt fails (driver op
`chk.permuted_ds`). -/
def permutedDenominators (n : Nat) : List Nat :=
  [8, 16, 32, 64].flatMap fun ws =>
    ((oddRange ws).map (permutedDenominator ws)).takeWhile (fun d => bitLength d ≤ bitLength n / 8)

theorem bitPatternDenominators_eq_driver : bitPatternDenominators = Driver.bitPatternDenominators := rfl
theorem permutedDenominators_eq_driver : permutedDenominators = Driver.permutedDenominators := rfl

/-- "call `CheckFraction(n, d)` for each `d` of the list in order; stop at the first non-empty
answer (weak, with those factors) or at the first exception". -/
def tryDenominators (n : Nat) (red : Nat → List (List Int)) : List Nat → Except PyErr KeyVerdict
  | [] => .ok .pass
  | d :: rest =>
    match checkFraction n (red d) with
    | .error e => .error e
    | .ok (f :: fs) => .ok ⟨true, f :: fs, false⟩
    | .ok [] => tryDenominators n red rest

theorem bitPatternsLoop_eq (n : Nat) (red : Nat → List (List Int)) (maxPs : Nat) :
    ∀ ps : List Nat, bitPatternsLoop n maxPs red ps =
      tryDenominators n red ((ps.filter (fun p => p ≤ maxPs)).map (fun p => 2 ^ p - 1))
  | [] => rfl
  | p :: rest => by
    unfold bitPatternsLoop
    by_cases h : p > maxPs
    · rw [if_pos h, List.filter_cons_of_neg (by simpa using h)]
      exact bitPatternsLoop_eq n red maxPs rest
    · rw [if_neg h, List.filter_cons_of_pos (by simpa using h), List.map_cons, tryDenominators]
      rw [bitPatternsLoop_eq n red maxPs rest]
      cases h' : checkFraction n (red (2 ^ p - 1)) with
      | error e => rfl
      | ok fs => cases fs <;> rfl

/-- **bitpatterns_enum (1).** -/
theorem vBitPatterns_eq (n : Nat) (ps : List Nat) (red : Nat → List (List Int)) :
    vBitPatterns n ps red = tryDenominators n red (bitPatternDenominators n ps) :=
  bitPatternsLoop_eq n red _ ps

theorem tryDenominators_append (n : Nat) (red : Nat → List (List Int)) (l2 : List Nat) :
    ∀ l1 : List Nat, tryDenominators n red (l1 ++ l2) =
      match tryDenominators n red l1 with
      | .ok ⟨false, _, _⟩ => tryDenominators n red l2
      | r => r
  | [] => by simp [tryDenominators, KeyVerdict.pass]
  | d :: rest => by
    rw [List.cons_append, tryDenominators, tryDenominators]
    cases h : checkFraction n (red d) with
    | error e => rfl
    | ok fs =>
      cases fs with
      | nil => exact tryDenominators_append n red l2 rest
      | cons f fs => rfl

theorem permutedInner_eq (n maxD ws : Nat) (red : Nat → List (List Int)) :
    ∀ l : List Nat, permutedInner n maxD ws red l =
      match tryDenominators n red
          ((l.map (permutedDenominator ws)).takeWhile (fun d => bitLength d ≤ maxD)) with
      | .error e => .error e
      | .ok ⟨false, _, _⟩ => .ok none
      | .ok v => .ok (some v)
  | [] => by simp [permutedInner, tryDenominators, KeyVerdict.pass]
  | ps :: rest => by
    unfold permutedInner
    simp only [List.map_cons]
    by_cases h : bitLength (permutedDenominator ws ps) > maxD
    · rw [if_pos h, List.takeWhile_cons_of_neg (by simpa using h)]
      simp [tryDenominators, KeyVerdict.pass]
    · rw [if_neg h, List.takeWhile_cons_of_pos (by simpa using h), tryDenominators]
      cases h' : checkFraction n (red (permutedDenominator ws ps)) with
      | error e => rfl
      | ok fs =>
        cases fs with
        | nil => exact permutedInner_eq n maxD ws red rest
        | cons f fs => rfl

theorem permutedOuter_eq (n maxD : Nat) (red : Nat → List (List Int)) :
    ∀ wss : List Nat, permutedOuter n maxD red wss =
      tryDenominators n red (wss.flatMap fun ws =>
        ((oddRange ws).map (permutedDenominator ws)).takeWhile (fun d => bitLength d ≤ maxD))
  | [] => rfl
  | ws :: rest => by
    rw [permutedOuter, List.flatMap_cons, tryDenominators_append, permutedInner_eq,
      ← permutedOuter_eq n maxD red rest]
    cases h : tryDenominators n red
        ((List.map (permutedDenominator ws) (oddRange ws)).takeWhile (fun d => bitLength d ≤ maxD)) with
    | error e => rfl
    | ok v =>
      obtain ⟨wk, fs, su⟩ := v
      cases wk <;> rfl

/-- **permuted_enum (1).** -/
theorem vPermuted_eq (n : Nat) (red : Nat → List (List Int)) :
    vPermuted n red = tryDenominators n red (permutedDenominators n) :=
  permutedOuter_eq n _ red _

/-- every attempt fails ⇔ the verdict is "pass"; then every denominator of the list was tried. -/
theorem tryDenominators_pass_iff (n : Nat) (red : Nat → List (List Int)) :
    ∀ ds : List Nat, tryDenominators n red ds = .ok .pass ↔
      ∀ d ∈ ds, checkFraction n (red d) = .ok []
  | [] => by simp [tryDenominators]
  | d :: rest => by
    rw [tryDenominators]
    cases h : checkFraction n (red d) with
    | error e => simp [h]
    | ok fs =>
      cases fs with
      | nil => simp [h, tryDenominators_pass_iff n red rest]
      | cons f fs => simp [h, KeyVerdict.pass]

/-- first success wins. -/
theorem tryDenominators_weak_iff (n : Nat) (red : Nat → List (List Int)) (v : KeyVerdict) :
    ∀ ds : List Nat, (tryDenominators n red ds = .ok v ∧ v.weak = true) ↔
      ∃ l1 d l2 f fs, ds = l1 ++ d :: l2 ∧ (∀ d' ∈ l1, checkFraction n (red d') = .ok []) ∧
        checkFraction n (red d) = .ok (f :: fs) ∧ v = ⟨true, f :: fs, false⟩
  | [] => by
    simp only [tryDenominators, Except.ok.injEq]
    constructor
    · rintro ⟨rfl, h⟩; simp [KeyVerdict.pass] at h
    · rintro ⟨l1, d, l2, f, fs, h, _⟩; simp at h
  | d :: rest => by
    rw [tryDenominators]
    cases h : checkFraction n (red d) with
    | error e =>
      simp only [false_and, false_iff, reduceCtorEq]
      rintro ⟨l1, d', l2, f, fs, hds, hall, hok, _⟩
      cases l1 with
      | nil =>
        simp only [List.nil_append, List.cons.injEq] at hds
        rw [← hds.1, h] at hok; simp at hok
      | cons x l1 =>
        simp only [List.cons_append, List.cons.injEq] at hds
        have := hall x (List.mem_cons_self ..)
        rw [← hds.1, h] at this; simp at this
    | ok fs0 =>
      cases fs0 with
      | nil =>
        simp only
        rw [tryDenominators_weak_iff n red v rest]
        constructor
        · rintro ⟨l1, d', l2, f, fs, hds, hall, hok, hv⟩
          refine ⟨d :: l1, d', l2, f, fs, by rw [hds]; rfl, ?_, hok, hv⟩
          intro x hx
          rcases List.mem_cons.mp hx with rfl | hx
          · exact h
          · exact hall x hx
        · rintro ⟨l1, d', l2, f, fs, hds, hall, hok, hv⟩
          cases l1 with
          | nil =>
            simp only [List.nil_append, List.cons.injEq] at hds
            rw [← hds.1, h] at hok; simp at hok
          | cons x l1 =>
            simp only [List.cons_append, List.cons.injEq] at hds
            exact ⟨l1, d', l2, f, fs, hds.2, fun y hy => hall y (List.mem_cons_of_mem _ hy), hok, hv⟩
      | cons f0 fs0 =>
        simp only [Except.ok.injEq]
        constructor
        · rintro ⟨rfl, _⟩
          exact ⟨[], d, rest, f0, fs0, rfl, by simp, h, rfl⟩
        · rintro ⟨l1, d', l2, f, fs, hds, hall, hok, hv⟩
          cases l1 with
          | nil =>
            simp only [List.nil_append, List.cons.injEq] at hds
            rw [← hds.1, h] at hok
            simp only [Except.ok.injEq, List.cons.injEq] at hok
            rw [hv, hok.1, hok.2]; exact ⟨rfl, rfl⟩
          | cons x l1 =>
            simp only [List.cons_append, List.cons.injEq] at hds
            have := hall x (List.mem_cons_self ..)
            rw [← hds.1, h] at this; simp at this

/-- the only verdicts are "pass" and "weak with the factors of the first success". -/
theorem tryDenominators_ok_cases (n : Nat) (red : Nat → List (List Int)) (v : KeyVerdict) :
    ∀ ds : List Nat, tryDenominators n red ds = .ok v → v = .pass ∨ v.weak = true
  | [], h => by simp only [tryDenominators, Except.ok.injEq] at h; exact Or.inl h.symm
  | d :: rest, h => by
    rw [tryDenominators] at h
    split at h
    · simp at h
    · simp only [Except.ok.injEq] at h; subst h; exact Or.inr rfl
    · exact tryDenominators_ok_cases n red v rest h

/-- an exception is the exception of the first attempt that does not answer `[]`. -/
theorem tryDenominators_error_iff (n : Nat) (red : Nat → List (List Int)) (e : PyErr) :
    ∀ ds : List Nat, tryDenominators n red ds = .error e ↔
      ∃ l1 d l2, ds = l1 ++ d :: l2 ∧ (∀ d' ∈ l1, checkFraction n (red d') = .ok []) ∧
        checkFraction n (red d) = .error e
  | [] => by simp [tryDenominators]
  | d :: rest => by
    rw [tryDenominators]
    cases h : checkFraction n (red d) with
    | error e' =>
      simp only [Except.error.injEq]
      constructor
      · rintro rfl; exact ⟨[], d, rest, rfl, by simp, h⟩
      · rintro ⟨l1, d', l2, hds, hall, herr⟩
        cases l1 with
        | nil =>
          simp only [List.nil_append, List.cons.injEq] at hds
          rw [← hds.1, h] at herr; simpa using herr
        | cons x l1 =>
          simp only [List.cons_append, List.cons.injEq] at hds
          have := hall x (List.mem_cons_self ..)
          rw [← hds.1, h] at this; simp at this
    | ok fs0 =>
      cases fs0 with
      | nil =>
        simp only
        rw [tryDenominators_error_iff n red e rest]
        constructor
        · rintro ⟨l1, d', l2, hds, hall, herr⟩
          refine ⟨d :: l1, d', l2, by rw [hds]; rfl, ?_, herr⟩
          intro x hx
          rcases List.mem_cons.mp hx with rfl | hx
          · exact h
          · exact hall x hx
        · rintro ⟨l1, d', l2, hds, hall, herr⟩
          cases l1 with
          | nil =>
            simp only [List.nil_append, List.cons.injEq] at hds
            rw [← hds.1, h] at herr; simp at herr
          | cons x l1 =>
            simp only [List.cons_append, List.cons.injEq] at hds
            exact ⟨l1, d', l2, hds.2, fun y hy => hall y (List.mem_cons_of_mem _ hy), herr⟩
      | cons f0 fs0 =>
        simp only [reduceCtorEq, false_iff]
        rintro ⟨l1, d', l2, hds, hall, herr⟩
        cases l1 with
        | nil =>
          simp only [List.nil_append, List.cons.injEq] at hds
          rw [← hds.1, h] at herr; simp at herr
        | cons x l1 =>
          simp only [List.cons_append, List.cons.injEq] at hds
          have := hall x (List.mem_cons_self ..)
          rw [← hds.1, h] at this; simp at this

/-- the verdict depends on the LLL oracle only at the listed denominators. -/
theorem tryDenominators_congr (n : Nat) (red red' : Nat → List (List Int)) :
    ∀ ds : List Nat, (∀ d ∈ ds, red d = red' d) →
      tryDenominators n red ds = tryDenominators n red' ds
  | [], _ => rfl
  | d :: rest, h => by
    rw [tryDenominators, tryDenominators, h d (List.mem_cons_self ..),
      tryDenominators_congr n red red' rest (fun x hx => h x (List.mem_cons_of_mem _ hx))]

/-- `range(3, wsize, 2)`. -/
theorem mem_oddRange (ws ps : Nat) : ps ∈ oddRange ws ↔ 3 ≤ ps ∧ ps < ws ∧ ps % 2 = 1 := by
  unfold oddRange
  simp only [List.mem_map, List.mem_range]
  constructor
  · rintro ⟨i, hi, rfl⟩; omega
  · rintro ⟨h1, h2, h3⟩; exact ⟨(ps - 3) / 2, by omega, by omega⟩

/-- for odd `psize` the division in the denominator formula is exact. -/
theorem permutedDenominator_mul (ws ps : Nat) (hodd : ps % 2 = 1) :
    permutedDenominator ws ps * (2 ^ ws + 1) = (2 ^ ps - 1) * (2 ^ (ps * ws) + 1) := by
  unfold permutedDenominator
  apply Nat.div_mul_cancel
  apply Dvd.dvd.mul_left
  have := Odd.nat_add_dvd_pow_add_pow (2 ^ ws) 1 (Nat.odd_iff.mpr hodd)
  rwa [one_pow, ← pow_mul, Nat.mul_comm ws ps] at this

end Paranoid
