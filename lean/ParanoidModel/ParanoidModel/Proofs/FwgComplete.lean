/-
Proofs/FwgComplete.lean — completeness (reachability) of `FactorWithGuess` for a guess that is
close to a factor: the loop over the convergents of `p0/q0` (code after fix bc0d52f) reaches a
convergent whose single Fermat step on `4uvn` succeeds, and no earlier convergent ends the
search.  Pure arithmetic part (no model function): this file.  Loop: FwgCompleteLoop.lean.

Notation (all of it is about `n = P·Q`, the guess `A = p0`, `B = q0 = n / A`):
  `Δ = u·Q − v·P`   what the Fermat step on `4uvn = (2uQ)(2vP)` sees,
  `R = u·B − v·A`   what the code tests against `bound` (`|R|` is the Euclid remainder),
  `S = u·Q + v·P`.
-/
import ParanoidModel.Proofs.Lehman
import Mathlib.Tactic.Ring
import Mathlib.Tactic.Linarith
import Mathlib.Tactic.LinearCombination
import Mathlib.Algebra.Order.Ring.Abs

namespace Paranoid.FwgC

/-- `A·(Δ − R) = e·(vA + uQ) + u·(n mod A)` with `e = A − P`, hence
`A·|Δ − R| ≤ (2E + 4)·S` when `|A − P| ≤ E`, `A ≤ 2P`, `A ≤ 4Q`. -/
theorem delta_bound (P Q A u v E : Nat)
    (hE1 : (A : Int) - P ≤ E) (hE2 : (P : Int) - A ≤ E) (hA2 : A ≤ 2 * P) (hA4 : A ≤ 4 * Q) (hA : 0 < A) :
    |(A : Int) * (((u : Int) * Q - v * P) - ((u : Int) * ((P * Q / A : Nat) : Int) - v * A))|
      ≤ (2 * (E : Int) + 4) * ((u : Int) * Q + v * P) := by
  have hdm : (A : Int) * ((P * Q / A : Nat) : Int) + ((P * Q % A : Nat) : Int) = (P : Int) * Q := by
    exact_mod_cast Nat.div_add_mod (P * Q) A
  have hmlt : ((P * Q % A : Nat) : Int) < A := by exact_mod_cast Nat.mod_lt (P * Q) hA
  have hm0 : (0 : Int) ≤ ((P * Q % A : Nat) : Int) := Int.natCast_nonneg _
  generalize ((P * Q / A : Nat) : Int) = B at hdm
  generalize ((P * Q % A : Nat) : Int) = m at hdm hmlt hm0
  have hA2' : (A : Int) ≤ 2 * P := by exact_mod_cast hA2
  have hA4' : (A : Int) ≤ 4 * Q := by exact_mod_cast hA4
  have hu : (0 : Int) ≤ u := Int.natCast_nonneg _
  have hv : (0 : Int) ≤ v := Int.natCast_nonneg _
  have hP : (0 : Int) ≤ P := Int.natCast_nonneg _
  have hQ : (0 : Int) ≤ Q := Int.natCast_nonneg _
  have hE : (0 : Int) ≤ E := Int.natCast_nonneg _
  have hApos : (0 : Int) ≤ A := Int.natCast_nonneg _
  generalize (A : Int) = a at *
  generalize (P : Int) = p at *
  generalize (Q : Int) = q at *
  generalize (u : Int) = u' at *
  generalize (v : Int) = v' at *
  generalize (E : Int) = e' at *
  have hid : a * ((u' * q - v' * p) - (u' * B - v' * a)) = (a - p) * (v' * a + u' * q) + u' * m := by
    linear_combination (-u') * hdm
  rw [hid]
  have hW : 0 ≤ v' * a + u' * q := by positivity
  have h1 : (a - p) * (v' * a + u' * q) ≤ e' * (v' * a + u' * q) :=
    mul_le_mul_of_nonneg_right hE1 hW
  have h2 : -(e' * (v' * a + u' * q)) ≤ (a - p) * (v' * a + u' * q) := by
    have := mul_le_mul_of_nonneg_right hE2 hW
    linarith
  have h3 : u' * m ≤ u' * a := mul_le_mul_of_nonneg_left (le_of_lt hmlt) hu
  have h4 : 0 ≤ u' * m := mul_nonneg hu hm0
  have h5 : v' * a ≤ v' * (2 * p) := mul_le_mul_of_nonneg_left hA2' hv
  have h6 : u' * a ≤ u' * (4 * q) := mul_le_mul_of_nonneg_left hA4' hu
  have h7 : e' * (v' * a) ≤ e' * (v' * (2 * p)) := mul_le_mul_of_nonneg_left h5 hE
  have h8 : 0 ≤ e' * (u' * q) := by positivity
  have h9 : 0 ≤ e' * (v' * p) := by positivity
  have h10 : 0 ≤ v' * p := by positivity
  rw [abs_le]
  constructor <;> nlinarith

/-- **Core.** If the Fermat step fails (`Δ² ≥ 2S − 1`) although `A·|Δ − R| ≤ c·S` with
`16c²S ≤ A²`, then the Euclid remainder is still large: `16R² ≥ 9(2S − 1)`. -/
theorem core_fail (A Δ R S c : Int) (hA : 0 < A) (hS : 1 ≤ S) (_hc : 0 ≤ c)
    (hb : |A * (Δ - R)| ≤ c * S) (hsmall : 16 * c ^ 2 * S ≤ A ^ 2) (hfail : 2 * S - 1 ≤ Δ ^ 2) :
    9 * (2 * S - 1) ≤ 16 * R ^ 2 := by
  by_contra hcon
  rw [not_le] at hcon
  set t := A * (Δ - R) with ht
  have ht2 : t ^ 2 ≤ (c * S) ^ 2 := sq_le_sq' (by linarith [(abs_le.mp hb).1]) (abs_le.mp hb).2
  have hAD : A * Δ = A * R + t := by rw [ht]; ring
  have h1 : 3 * (A * Δ) ^ 2 ≤ 4 * (A * R) ^ 2 + 12 * t ^ 2 := by
    rw [hAD]; nlinarith [sq_nonneg (A * R - 3 * t)]
  have hA2 : 0 < A ^ 2 := by positivity
  have h2 : 16 * (c * S) ^ 2 ≤ A ^ 2 * S := by
    have : 16 * (c * S) ^ 2 = (16 * c ^ 2 * S) * S := by ring
    rw [this]
    exact mul_le_mul_of_nonneg_right hsmall (by linarith)
  have h3 : 4 * (A * R) ^ 2 * 16 < 4 * A ^ 2 * (9 * (2 * S - 1)) := by
    have : 4 * (A * R) ^ 2 * 16 = 4 * A ^ 2 * (16 * R ^ 2) := by ring
    rw [this]
    exact mul_lt_mul_of_pos_left hcon (by positivity)
  have h4 : (A * Δ) ^ 2 = A ^ 2 * Δ ^ 2 := by ring
  have h5 : A ^ 2 * (2 * S - 1) ≤ A ^ 2 * Δ ^ 2 := mul_le_mul_of_nonneg_left hfail (le_of_lt hA2)
  have h6 : A ^ 2 * S ≤ A ^ 2 * (2 * S - 1) := mul_le_mul_of_nonneg_left (by linarith) (le_of_lt hA2)
  nlinarith

/-- what a failing admissible convergent implies for the loop: `u·v ≤ bound` (the search goes
on) and the remainder is at least `T` (the next convergent is still small). -/
theorem fail_consequences (P Q u v rho bound T : Nat) (hu : 1 ≤ u) (hv : 1 ≤ v)
    (hadm : rho < bound)
    (h : 9 * (2 * ((u : Int) * Q + v * P) - 1) ≤ 16 * (rho : Int) ^ 2)
    (hT : 16 * T ^ 2 + 9 ≤ 18 * (P + Q))
    (hcb : 16 * bound ^ 3 ≤ 81 * (P * Q)) :
    u * v ≤ bound ∧ T ≤ rho := by
  have hS : P + Q ≤ u * Q + v * P := by
    have := Nat.mul_le_mul_right Q hu
    have := Nat.mul_le_mul_right P hv
    omega
  have h' : 9 * (2 * (u * Q + v * P) - 1) ≤ 16 * rho ^ 2 := by
    have : 1 ≤ 2 * (u * Q + v * P) := by omega
    zify [this]
    exact h
  constructor
  · by_contra hc
    rw [not_le] at hc
    -- 9 S ≤ 8 bound²
    have hb1 : rho + 1 ≤ bound := hadm
    have hb2 : (rho + 1) ^ 2 ≤ bound ^ 2 := Nat.pow_le_pow_left hb1 2
    have h9S : 9 * (u * Q + v * P) ≤ 8 * bound ^ 2 := by
      have : (rho + 1) ^ 2 = rho ^ 2 + 2 * rho + 1 := by ring
      omega
    have hamgm : 4 * ((u * Q) * (v * P)) ≤ (u * Q + v * P) ^ 2 := by
      nlinarith [sq_nonneg ((u * Q : Int) - v * P), sq_nonneg ((u * Q : Nat) - (v * P : Nat) : Int)]
    have h81 : (9 * (u * Q + v * P)) ^ 2 ≤ (8 * bound ^ 2) ^ 2 := Nat.pow_le_pow_left h9S 2
    have hn : 81 * (4 * ((u * v) * (P * Q))) ≤ 64 * bound ^ 4 := by
      have e1 : (u * Q) * (v * P) = (u * v) * (P * Q) := by ring
      have e2 : (9 * (u * Q + v * P)) ^ 2 = 81 * (u * Q + v * P) ^ 2 := by ring
      have e3 : (8 * bound ^ 2) ^ 2 = 64 * bound ^ 4 := by ring
      rw [← e1]; omega
    have hmul : (bound + 1) * (P * Q) ≤ (u * v) * (P * Q) := Nat.mul_le_mul_right _ hc
    have hcb' : 16 * bound ^ 3 * bound ≤ 81 * (P * Q) * bound := Nat.mul_le_mul_right _ hcb
    have e4 : 16 * bound ^ 3 * bound = 16 * bound ^ 4 := by ring
    have hPQ : 0 < P * Q := by
      rcases Nat.eq_zero_or_pos (P * Q) with h0 | h0
      · rw [h0] at hcb
        have : bound ^ 3 = 0 := by omega
        have : bound = 0 := by simpa using this
        omega
      · exact h0
    nlinarith
  · by_contra hc
    rw [not_le] at hc
    have : rho + 1 ≤ T := hc
    have h2 : (rho + 1) ^ 2 ≤ T ^ 2 := Nat.pow_le_pow_left this 2
    have : (rho + 1) ^ 2 = rho ^ 2 + 2 * rho + 1 := by ring
    omega

end Paranoid.FwgC
