/-
Proofs/FwgCompleteFamilies.lean — the two guess-based families of C04 reach the completeness
theorem of `FactorWithGuess` (Proofs/FwgCompleteLoop.lean):

  * `CheckSmallUpperDifferences`: for `q = p + D + g` the guess `isqrt(n + (D/2)²) + D/2`
    lies in `[q − g, q]` (`sudGuess_near`), and the loop over the six differences returns the
    first factorisation found (`sudLoop_complete`);
  * `CheckUnseededRand`: the loop over the candidate values returns the first factorisation found
    (`unseededLoop_complete`).
-/
import ParanoidModel.Proofs.FwgCompleteSized
import ParanoidModel.Proofs.Totality
import ParanoidModel.Proofs.Basic
import ParanoidModel.Model.RsaChecks
import Mathlib.Data.Nat.Prime.Basic

namespace Paranoid.FwgC
open Paranoid

/-- the cube-root oracle is usable: `bound = cbrt << shift` is within
`[n^(1/3) / 2, 1.717·n^(1/3)]`.  (The real float expression is within `1 ± 2^-40` of the
cube root: harness `c04.py`, tag `cbrt-oracle`.) -/
def CbrtOK (n cbrt : Nat) : Prop :=
  n ≤ 8 * (cbrt <<< fwgShift n) ^ 3 ∧ 16 * (cbrt <<< fwgShift n) ^ 3 ≤ 81 * n

instance (n cbrt : Nat) : Decidable (CbrtOK n cbrt) := by unfold CbrtOK; infer_instance

/-- `FactorWithGuess` is complete for `L`-bit factors, a guess within `E` of `P` with
`(E + 2)²·2^12 ≤ 2^(L/2)`, and every admissible oracle value. -/
theorem fwg_complete_sized (L P Q A E cbrt : Nat)
    (hP1 : 2 ^ (L - 1) ≤ P) (hP2 : P < 2 ^ L) (hQ1 : 2 ^ (L - 1) ≤ Q) (hQ2 : Q < 2 ^ L)
    (hET : (E + 2) ^ 2 * 2 ^ 12 ≤ 2 ^ (L / 2))
    (hE1 : A ≤ P + E) (hE2 : P ≤ A + E) (horc : CbrtOK (P * Q) cbrt) :
    ∃ fs, factorWithGuess (P * Q) A cbrt = .ok (some fs) ∧ ProperSplit (P * Q) fs := by
  obtain ⟨hh, hTB⟩ := hyp_of_sizes L P Q A E (cbrt <<< fwgShift (P * Q)) hP1 hP2 hQ1 hQ2 hET
    (by omega) (by omega) horc.1 horc.2
  exact factorWithGuess_complete cbrt hh hTB

/-- a proper split of a product of two primes is the two primes. -/
theorem properSplit_primes {p q : Nat} (hp : p.Prime) (hq : q.Prime) {fs : List Nat}
    (h : ProperSplit (p * q) fs) : fs = [p, q] ∨ fs = [q, p] := by
  obtain ⟨g, rfl, hd, h1, h2⟩ := h
  obtain ⟨a, b, ha, hb, rfl⟩ := (Nat.dvd_mul).mp hd
  have hp0 := hp.pos
  have hq0 := hq.pos
  rcases (Nat.dvd_prime hp).mp ha with rfl | rfl <;> rcases (Nat.dvd_prime hq).mp hb with rfl | rfl
  · omega
  · right
    rw [Nat.one_mul, Nat.mul_div_cancel _ hq0]
  · left
    rw [Nat.mul_one, Nat.mul_div_cancel_left _ hp0]
  · omega

/-! ### the guess of CheckSmallUpperDifferences -/

/-- for `q = p + D + g` (`D = 2k` even) the guess is in `[q − g, q]`. -/
theorem sudGuess_near (p k g : Nat) :
    p + 2 * k ≤ sudGuess (p * (p + 2 * k + g)) (2 * k) ∧
      sudGuess (p * (p + 2 * k + g)) (2 * k) ≤ p + 2 * k + g := by
  unfold sudGuess isqrt
  rw [Nat.mul_div_cancel_left _ (by omega : 0 < 2)]
  have e : p * (p + 2 * k + g) + k ^ 2 = (p + k) * (p + k) + p * g := by ring
  rw [e]
  have h1 : p + k ≤ Nat.sqrt ((p + k) * (p + k) + p * g) := by
    rw [Nat.le_sqrt]; omega
  have h2 : Nat.sqrt ((p + k) * (p + k) + p * g) < p + k + g + 1 := by
    rw [Nat.sqrt_lt]
    have : (p + k + g + 1) * (p + k + g + 1)
        = (p + k) * (p + k) + p * g + (p * g + 2 * k * g + g * g + 2 * (p + k + g) + 1) := by ring
    omega
  omega

/-- the loop over the differences returns a factorisation as soon as one guess works. -/
theorem sudLoop_complete (n cbrt : Nat) (hn : 0 < n) (D : Nat) (fs : List Nat)
    (hD : factorWithGuess n (sudGuess n D) cbrt = .ok (some fs)) :
    ∀ (l : List Nat), D ∈ l → ∃ fs', sudLoop n cbrt l = .ok (some fs') ∧ ProperSplit n fs'
  | [], hm => by simp at hm
  | d :: rest, hm => by
    unfold sudLoop
    obtain ⟨r, hr⟩ := factorWithGuess_ok n (sudGuess n d) cbrt (sudGuess_pos n d hn)
    simp only [bind, Except.bind, hr]
    split
    · rename_i f fs'
      exact ⟨f :: fs', rfl, factorWithGuess_sound _ _ _ _ hr⟩
    · rename_i hne
      rcases List.mem_cons.mp hm with rfl | hm'
      · exfalso
        rw [hD] at hr
        obtain ⟨g, rfl, _⟩ := factorWithGuess_sound _ _ _ _ hD
        simp only [Except.ok.injEq] at hr
        exact hne _ _ hr.symm
      · exact sudLoop_complete n cbrt hn D fs hD rest hm'

/-- `(bit_length(P·Q) + 1) // 2 = L` for `L`-bit `P`, `Q`. -/
theorem primeSize_eq (L P Q : Nat) (hL : 1 ≤ L)
    (hP1 : 2 ^ (L - 1) ≤ P) (hP2 : P < 2 ^ L) (hQ1 : 2 ^ (L - 1) ≤ Q) (hQ2 : Q < 2 ^ L) :
    (bitLength (P * Q) + 1) / 2 = L := by
  have hlo : 2 ^ (2 * L - 2) ≤ P * Q := by
    have : 2 ^ (2 * L - 2) = 2 ^ (L - 1) * 2 ^ (L - 1) := by rw [← pow_add]; congr 1; omega
    rw [this]; exact Nat.mul_le_mul hP1 hQ1
  have hhi : P * Q < 2 ^ (2 * L) := by
    have : 2 ^ (2 * L) = 2 ^ L * 2 ^ L := by rw [← pow_add]; congr 1; omega
    rw [this]; exact Nat.mul_lt_mul'' hP2 hQ2
  have h1 : bitLength (P * Q) ≤ 2 * L := (bitLength_le_iff _ _).mpr hhi
  have h2 : ¬ bitLength (P * Q) ≤ 2 * L - 2 := by
    rw [bitLength_le_iff]; omega
  omega

/-! ### CheckUnseededRand -/

/-- the loop over the candidates returns a factorisation as soon as one candidate works
(no candidate is 0: `n // 0` would raise). -/
theorem unseededLoop_complete (n cbrt : Nat) (x : Nat) (fs : List Nat)
    (hx : factorWithGuess n x cbrt = .ok (some fs)) :
    ∀ (l : List Nat), (∀ c ∈ l, c ≠ 0) → x ∈ l →
      ∃ fs', unseededLoop n cbrt l = .ok ⟨true, fs', false⟩ ∧ ProperSplit n fs'
  | [], _, hm => by simp at hm
  | c :: rest, hnz, hm => by
    unfold unseededLoop
    obtain ⟨r, hr⟩ := factorWithGuess_ok n c cbrt (hnz c (List.mem_cons_self ..))
    rw [hr]
    have hrest : x ≠ c → ∃ fs', unseededLoop n cbrt rest = .ok ⟨true, fs', false⟩ ∧ ProperSplit n fs' := by
      intro hxc
      rcases List.mem_cons.mp hm with rfl | hm'
      · exact absurd rfl hxc
      · exact unseededLoop_complete n cbrt x fs hx rest
          (fun c hc => hnz c (List.mem_cons_of_mem _ hc)) hm'
    have hxne : r = none ∨ r = some [] → x ≠ c := by
      intro hr' hxc
      subst hxc
      rw [hx] at hr
      obtain ⟨g, rfl, _⟩ := factorWithGuess_sound _ _ _ _ hx
      simp only [Except.ok.injEq] at hr
      rcases hr' with h | h <;> rw [h] at hr <;> simp at hr
    match r, hr, hxne with
    | some (f :: fs'), hr, _ => exact ⟨f :: fs', rfl, factorWithGuess_sound _ _ _ _ hr⟩
    | none, _, hxne => exact hrest (hxne (Or.inl rfl))
    | some [], _, hxne => exact hrest (hxne (Or.inr rfl))

end Paranoid.FwgC
