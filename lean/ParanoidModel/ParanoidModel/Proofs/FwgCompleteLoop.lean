/-
Proofs/FwgCompleteLoop.lean — the loop of `FactorWithGuess` (code after fix bc0d52f) over the
convergents of `p0/q0` returns a factorisation whenever the guess is close to a factor
(`FwgC.Hyp`).  Induction over Euclid's algorithm with the invariant "the current remainder
`b` is at least `T`", where `T ≈ n^(1/4)`:

  * a convergent whose remainder is `≥ bound` is skipped by the code, and `bound ≥ T`;
  * an admissible convergent (`remainder < bound`) whose Fermat step fails has, by
    `core_fail`, a remainder `≥ (3/4)·sqrt(2S − 1) ≥ T`, and `u·v ≤ bound` (`fail_consequences`),
    so the code goes on to the next convergent;
  * a remainder `0` cannot fail, so the search cannot run off the end of the list.
-/
import ParanoidModel.Proofs.FwgComplete
import ParanoidModel.Proofs.NTheory

namespace Paranoid.FwgC
open Paranoid Paranoid.NT

/-- the Fermat step on `4uvn` returns something when `(uQ − vP)² < 2(uQ + vP) − 1` and
`2u < P`, `2v < Q` (no primality, no parity needed). -/
theorem step_success (P Q u v : Nat) (hu : 1 ≤ u) (hv : 1 ≤ v) (hQ : 2 ≤ Q) (hP : 2 ≤ P)
    (h2u : 2 * u < P) (h2v : 2 * v < Q)
    (hcond : ((u : Int) * Q - v * P) ^ 2 < 2 * ((u : Int) * Q + v * P) - 1) :
    ∃ fs, fwgFinish (P * Q) (ceilSqrt (4 * u * v * (P * Q))) (4 * u * v * (P * Q)) = some fs := by
  have e : 4 * u * v * (P * Q) = 4 * (u * Q) * (v * P) := by ring
  have hX : 0 < u * Q := Nat.mul_pos hu (by omega)
  have hY : 0 < v * P := Nat.mul_pos hv (by omega)
  have hcond' : (((u * Q : Nat) : Int) - ((v * P : Nat) : Int)) * (((u * Q : Nat) : Int) - ((v * P : Nat) : Int))
      < 2 * (((u * Q : Nat) : Int) + ((v * P : Nat) : Int)) - 1 := by
    push_cast
    rw [← pow_two]; exact hcond
  rw [e, fwgFinish_of_step (P * Q) (u * Q) (v * P) hX hY hcond']
  unfold splitBy
  rcases Nat.le_total (v * P) (u * Q) with hle | hle
  · rw [Nat.max_eq_left hle]
    have hg : Nat.gcd (2 * (u * Q)) (P * Q) = Nat.gcd (2 * u) P * Q := by
      rw [show 2 * (u * Q) = (2 * u) * Q by ring, Nat.gcd_mul_right]
    have hd1 : 0 < Nat.gcd (2 * u) P := Nat.gcd_pos_of_pos_right _ (by omega)
    have hd2 : Nat.gcd (2 * u) P ≤ 2 * u := Nat.gcd_le_left _ (by omega)
    rw [hg, if_pos]
    · exact ⟨_, rfl⟩
    · constructor
      · have : 1 * 2 ≤ Nat.gcd (2 * u) P * Q := Nat.mul_le_mul hd1 hQ
        omega
      · exact Nat.mul_lt_mul_of_pos_right (by omega) (by omega)
  · rw [Nat.max_eq_right hle]
    have hg : Nat.gcd (2 * (v * P)) (P * Q) = Nat.gcd (2 * v) Q * P := by
      rw [show 2 * (v * P) = (2 * v) * P by ring, show P * Q = Q * P by ring, Nat.gcd_mul_right]
    have hd1 : 0 < Nat.gcd (2 * v) Q := Nat.gcd_pos_of_pos_right _ (by omega)
    have hd2 : Nat.gcd (2 * v) Q ≤ 2 * v := Nat.gcd_le_left _ (by omega)
    rw [hg, if_pos]
    · exact ⟨_, rfl⟩
    · constructor
      · have : 1 * 2 ≤ Nat.gcd (2 * v) Q * P := Nat.mul_le_mul hd1 hP
        omega
      · rw [show P * Q = Q * P by ring]
        exact Nat.mul_lt_mul_of_pos_right (by omega) (by omega)

/-- The hypotheses of the completeness theorem on `(P, Q, A = p0, E, T, bound)`; `n = P·Q`,
`q0 = n / A`.  `E` bounds the error of the guess, `T` is the remainder threshold. -/
structure Hyp (P Q A E T bound : Nat) : Prop where
  hP : 2 ≤ P
  hQ : 2 ≤ Q
  hE1 : (A : Int) - P ≤ E
  hE2 : (P : Int) - A ≤ E
  hA2 : A ≤ 2 * P
  hPA : P ≤ 2 * A
  hA4 : A ≤ 4 * Q
  hsmall : 16 * (2 * E + 4) ^ 2 * (A * Q + (P * Q / A) * P) ≤ A ^ 2 * T
  hT5 : 5 ≤ T
  hTb : T ≤ bound
  hbA : bound ≤ A
  hT : 16 * T ^ 2 + 9 ≤ 18 * (P + Q)
  hcb : 16 * bound ^ 3 ≤ 81 * (P * Q)

theorem Hyp.A_pos {P Q A E T bound : Nat} (h : Hyp P Q A E T bound) : 0 < A := by
  have := h.hP; have := h.hPA; omega

theorem Hyp.B_pos {P Q A E T bound : Nat} (h : Hyp P Q A E T bound) : 0 < P * Q / A := by
  apply Nat.div_pos _ h.A_pos
  have : P * 2 ≤ P * Q := Nat.mul_le_mul_left P h.hQ
  have := h.hA2
  omega

theorem Hyp.B_le {P Q A E T bound : Nat} (h : Hyp P Q A E T bound) : P * Q / A ≤ 2 * Q := by
  have h1 : P * Q / A * A ≤ P * Q := Nat.div_mul_le_self _ _
  have h2 : P * Q ≤ 2 * A * Q := Nat.mul_le_mul_right Q h.hPA
  have h3 : P * Q / A * A ≤ (2 * Q) * A := by
    have : 2 * A * Q = (2 * Q) * A := by ring
    omega
  exact Nat.le_of_mul_le_mul_right h3 h.A_pos

/-- **Loop completeness.** From any Euclid state `(a, b, r, s, t, u)` of `ContinuedFraction(A, B)`
whose remainder `b` is at least `T`, the loop of `FactorWithGuess` returns a factorisation. -/
theorem loop_complete {P Q A E T bound : Nat} (h : Hyp P Q A E T bound) :
    ∀ (b a r s t u_ : Nat), A = r * a + s * b → P * Q / A = t * a + u_ * b →
      ((r : Int) * u_ - s * t = 1 ∨ (r : Int) * u_ - s * t = -1) → (1 ≤ u_ ∨ b ≤ a) → T ≤ b →
      ∃ fs, fwgLoop (P * Q) A (P * Q / A) bound (convergents (euclidQuots a b) r s t u_) = some fs := by
  intro b
  induction b using Nat.strong_induction_on with
  | _ b ih =>
    intro a r s t u_ hIA hIB hdet hpos hTb
    have hApos := h.A_pos
    have hBpos := h.B_pos
    have hBle := h.B_le
    obtain ⟨hP, hQ, hE1, hE2, hA2, hPA, hA4, hsmall, hT5, hTbd, hbA, hT, hcb⟩ := h
    have hb0 : b ≠ 0 := by omega
    have hbpos : 0 < b := by omega
    have hmod : a % b < b := Nat.mod_lt _ hbpos
    have hab : b * (a / b) + a % b = a := Nat.div_add_mod a b
    rw [euclidQuots_pos a b hb0]
    simp only [convergents]
    generalize hB : P * Q / A = B at *
    generalize hk : a / b = k at *
    generalize hrho : a % b = rho at *
    -- invariants of the next state
    have F1 : A = (r * k + s) * b + r * rho := by rw [hIA, ← hab]; ring
    have F2 : B = (t * k + u_) * b + t * rho := by rw [hIB, ← hab]; ring
    have F3 : ((r * k + s : Nat) : Int) * B - ((t * k + u_ : Nat) : Int) * A
        = -(((r : Int) * u_ - s * t) * rho) := by
      have e1 : (A : Int) = ((r * k + s : Nat) : Int) * b + r * rho := by exact_mod_cast F1
      have e2 : (B : Int) = ((t * k + u_ : Nat) : Int) * b + t * rho := by exact_mod_cast F2
      rw [e1, e2]; push_cast; ring
    have hdet' : ((r * k + s : Nat) : Int) * t - (r : Int) * ((t * k + u_ : Nat) : Int) = 1 ∨
        ((r * k + s : Nat) : Int) * t - (r : Int) * ((t * k + u_ : Nat) : Int) = -1 := by
      have e : ((r * k + s : Nat) : Int) * t - (r : Int) * ((t * k + u_ : Nat) : Int)
          = -((r : Int) * u_ - s * t) := by push_cast; ring
      rw [e]
      rcases hdet with hd | hd <;> rw [hd] <;> simp
    have hnat : (((r * k + s : Nat) : Int) * B - ((t * k + u_ : Nat) : Int) * A).natAbs = rho := by
      rw [F3]
      rcases hdet with hd | hd <;> rw [hd] <;> simp
    have hRsq : (((r * k + s : Nat) : Int) * B - ((t * k + u_ : Nat) : Int) * A) ^ 2 = (rho : Int) ^ 2 := by
      rw [F3]
      rcases hdet with hd | hd <;> rw [hd] <;> ring
    unfold fwgLoop
    by_cases hadm : rho < bound
    · rw [if_pos (by rw [hnat]; exact hadm)]
      split
      · rename_i fs' hf
        exact ⟨fs', rfl⟩
      · rename_i hfin
        -- positivity of the convergent
        have hv : 1 ≤ t * k + u_ := by
          rcases hpos with hp | hp
          · omega
          · by_contra hc
            have h0 : t * k + u_ = 0 := by omega
            have hk1 : 1 ≤ k := by
              rw [← hk]; exact Nat.div_pos hp hbpos
            have ht0 : t = 0 := by
              rcases Nat.eq_zero_or_pos t with h1 | h1
              · exact h1
              · have : 1 ≤ t * k := Nat.mul_pos h1 hk1
                omega
            have hu0 : u_ = 0 := by omega
            rw [ht0, hu0] at hIB
            omega
        have hu : 1 ≤ r * k + s := by
          by_contra hc
          have h0 : r * k + s = 0 := by omega
          rw [h0] at hnat
          have : (((0 : Nat) : Int) * B - ((t * k + u_ : Nat) : Int) * A).natAbs = (t * k + u_) * A := by
            have e : ((0 : Nat) : Int) * B - ((t * k + u_ : Nat) : Int) * A
                = -((((t * k + u_) * A : Nat)) : Int) := by push_cast; ring
            rw [e, Int.natAbs_neg, Int.natAbs_natCast]
          rw [this] at hnat
          have : 1 * A ≤ (t * k + u_) * A := Nat.mul_le_mul_right A hv
          omega
        -- S·b ≤ A·Q + B·P, hence 16c²S ≤ A²
        have hub : (r * k + s) * b ≤ A := by omega
        have hvb : (t * k + u_) * b ≤ B := by omega
        have hSb : ((r * k + s) * Q + (t * k + u_) * P) * b ≤ A * Q + B * P := by
          have e : ((r * k + s) * Q + (t * k + u_) * P) * b
              = ((r * k + s) * b) * Q + ((t * k + u_) * b) * P := by ring
          rw [e]
          exact Nat.add_le_add (Nat.mul_le_mul_right Q hub) (Nat.mul_le_mul_right P hvb)
        have hS16 : 16 * (2 * E + 4) ^ 2 * ((r * k + s) * Q + (t * k + u_) * P) ≤ A ^ 2 := by
          have h1 : 16 * (2 * E + 4) ^ 2 * ((r * k + s) * Q + (t * k + u_) * P) * T
              ≤ 16 * (2 * E + 4) ^ 2 * ((r * k + s) * Q + (t * k + u_) * P) * b :=
            Nat.mul_le_mul_left _ hTb
          have h2 : 16 * (2 * E + 4) ^ 2 * ((r * k + s) * Q + (t * k + u_) * P) * b
              ≤ 16 * (2 * E + 4) ^ 2 * (A * Q + B * P) := by
            rw [Nat.mul_assoc]
            exact Nat.mul_le_mul_left _ hSb
          exact Nat.le_of_mul_le_mul_right (le_trans h1 (le_trans h2 hsmall)) (by omega)
        have h2u : 2 * (r * k + s) < P := by
          have h1 : 2 * (r * k + s) * T ≤ 2 * ((r * k + s) * b) := by
            rw [Nat.mul_assoc]; exact Nat.mul_le_mul_left 2 (Nat.mul_le_mul_left _ hTb)
          have h2 : 4 * P < P * T := by
            have : P * 5 ≤ P * T := Nat.mul_le_mul_left P hT5
            omega
          exact Nat.lt_of_mul_lt_mul_right (a := T) (by omega)
        have h2v : 2 * (t * k + u_) < Q := by
          have h1 : 2 * (t * k + u_) * T ≤ 2 * ((t * k + u_) * b) := by
            rw [Nat.mul_assoc]; exact Nat.mul_le_mul_left 2 (Nat.mul_le_mul_left _ hTb)
          have h2 : 4 * Q < Q * T := by
            have : Q * 5 ≤ Q * T := Nat.mul_le_mul_left Q hT5
            omega
          exact Nat.lt_of_mul_lt_mul_right (a := T) (by omega)
        -- the Fermat step failed
        have hfail : 2 * (((r * k + s : Nat) : Int) * Q + ((t * k + u_ : Nat) : Int) * P) - 1
            ≤ (((r * k + s : Nat) : Int) * Q - ((t * k + u_ : Nat) : Int) * P) ^ 2 := by
          by_contra hc
          obtain ⟨fs, hfs⟩ := step_success P Q (r * k + s) (t * k + u_) hu hv hQ hP h2u h2v
            (lt_of_not_ge hc)
          rw [hfs] at hfin
          exact absurd hfin (by simp)
        have hdb := delta_bound P Q A (r * k + s) (t * k + u_) E hE1 hE2 hA2 hA4 hApos
        rw [hB] at hdb
        have hcore := core_fail (A : Int)
          (((r * k + s : Nat) : Int) * Q - ((t * k + u_ : Nat) : Int) * P)
          (((r * k + s : Nat) : Int) * B - ((t * k + u_ : Nat) : Int) * A)
          (((r * k + s : Nat) : Int) * Q + ((t * k + u_ : Nat) : Int) * P)
          (2 * (E : Int) + 4) (by exact_mod_cast hApos)
          (by
            have : 1 * 2 ≤ (r * k + s) * Q := Nat.mul_le_mul hu hQ
            have : (1 : Int) ≤ (((r * k + s) * Q + (t * k + u_) * P : Nat) : Int) := by
              exact_mod_cast (by omega : 1 ≤ (r * k + s) * Q + (t * k + u_) * P)
            push_cast at this; exact this)
          (by positivity) hdb
          (by exact_mod_cast hS16) hfail
        rw [hRsq] at hcore
        obtain ⟨huv, hTrho⟩ := fail_consequences P Q (r * k + s) (t * k + u_) rho bound T hu hv
          hadm hcore hT hcb
        rw [if_neg (by omega)]
        exact ih rho hmod b _ _ _ _ F1 F2 hdet' (Or.inr (le_of_lt hmod)) hTrho
    · rw [if_neg (by rw [hnat]; exact hadm)]
      exact ih rho hmod b _ _ _ _ F1 F2 hdet' (Or.inr (le_of_lt hmod)) (by omega)

/-- **`FactorWithGuess` is complete under `Hyp`**: for every value `cbrt` of the float oracle
whose shifted value `bound = cbrt << shift` satisfies `Hyp`, the function returns a proper
factorisation `[g, n / g]` of `n = P·Q`. -/
theorem factorWithGuess_complete {P Q A E T : Nat} (cbrt : Nat)
    (h : Hyp P Q A E T (cbrt <<< fwgShift (P * Q))) (hTB : T ≤ P * Q / A) :
    ∃ fs, factorWithGuess (P * Q) A cbrt = .ok (some fs) ∧ ProperSplit (P * Q) fs := by
  have hA := h.A_pos
  have hex : ∃ fs, factorWithGuess (P * Q) A cbrt = .ok (some fs) := by
    unfold factorWithGuess
    rw [if_neg (by omega)]
    simp only [continuedFraction_eq]
    obtain ⟨fs, hfs⟩ := loop_complete h (P * Q / A) A 1 0 0 1 (by ring) (by ring) (by simp)
      (Or.inl (le_refl 1)) hTB
    exact ⟨fs, by rw [hfs]⟩
  obtain ⟨fs, hfs⟩ := hex
  exact ⟨fs, hfs, factorWithGuess_sound _ _ _ _ hfs⟩

end Paranoid.FwgC
