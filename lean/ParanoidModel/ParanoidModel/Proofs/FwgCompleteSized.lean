/-
Proofs/FwgCompleteSized.lean — the hypotheses `FwgC.Hyp` of the loop-completeness theorem follow
from plain size conditions: `P`, `Q` of `L` bits, a guess within `E` of `P` with
`(E + 2)²·2^12 ≤ 2^(L/2)`, and a cube-root oracle with `n ≤ 8·bound³` and `16·bound³ ≤ 81·n`
(i.e. `bound ∈ [n^(1/3)/2, 1.717·n^(1/3)]`).
-/
import ParanoidModel.Proofs.FwgCompleteLoop

namespace Paranoid.FwgC
open Paranoid

/-- atoms version: `W = 2^(L-2)`, `T = 2^(L/2)`. -/
theorem hyp_of_atoms (P Q A E W T bound : Nat)
    (hP1 : 2 * W ≤ P) (hP2 : P < 4 * W) (hQ1 : 2 * W ≤ Q) (hQ2 : Q < 4 * W)
    (hTT : T * T ≤ 4 * W) (hTW : 4096 * T ≤ W) (hET : (E + 2) ^ 2 * 4096 ≤ T)
    (hE1 : (A : Int) - P ≤ E) (hE2 : (P : Int) - A ≤ E)
    (hlo : P * Q ≤ 8 * bound ^ 3) (hhi : 16 * bound ^ 3 ≤ 81 * (P * Q)) :
    Hyp P Q A E T bound ∧ T ≤ P * Q / A := by
  have hE4 : 4 ≤ (E + 2) ^ 2 := by
    have h2 : 2 ≤ E + 2 := by omega
    have := Nat.mul_le_mul h2 h2
    rw [pow_two]; omega
  have hEsq : E + 2 ≤ (E + 2) ^ 2 := by
    rw [pow_two]; exact Nat.le_mul_of_pos_left _ (by omega)
  have hT : 16384 ≤ T := by omega
  have hEW : 16777216 * (E + 2) ≤ W := by omega
  have hW : 67108864 ≤ W := by omega
  have hA1 : A ≤ P + E := by omega
  have hA0 : P ≤ A + E := by omega
  have hAW : W ≤ A := by omega
  have hA3 : A ≤ 5 * W := by omega
  have hApos : 0 < A := by omega
  -- B
  have hBA : P * Q / A * A ≤ P * Q := Nat.div_mul_le_self _ _
  have hPA : P ≤ 2 * A := by omega
  have hBle : P * Q / A ≤ 2 * Q := by
    have h2 : P * Q ≤ 2 * A * Q := Nat.mul_le_mul_right Q hPA
    have h3 : P * Q / A * A ≤ (2 * Q) * A := by
      have : 2 * A * Q = (2 * Q) * A := by ring
      omega
    exact Nat.le_of_mul_le_mul_right h3 hApos
  have hTB : T ≤ P * Q / A := by
    rw [Nat.le_div_iff_mul_le hApos]
    have h1 : T * A ≤ T * (2 * P) := Nat.mul_le_mul_left T (by omega)
    have h2 : (2 * T) * P ≤ Q * P := Nat.mul_le_mul_right P (by omega)
    have e1 : T * (2 * P) = (2 * T) * P := by ring
    have e2 : Q * P = P * Q := by ring
    omega
  -- T ≤ bound
  have hTb : T ≤ bound := by
    by_contra hc
    have hlt : bound + 1 ≤ T := by omega
    have h3 : bound ^ 3 < T ^ 3 := Nat.pow_lt_pow_left (by omega) (by omega)
    have hT3 : T ^ 3 = T * T * T := by ring
    have h4 : T * T * T ≤ 4 * W * T := Nat.mul_le_mul_right T hTT
    have h5 : 4 * W * (4096 * T) ≤ 4 * W * W := Nat.mul_le_mul_left _ hTW
    have h6 : (2 * W) * (2 * W) ≤ P * Q := Nat.mul_le_mul hP1 hQ1
    have e5 : 4 * W * (4096 * T) = 4096 * (4 * W * T) := by ring
    have e6 : (2 * W) * (2 * W) = 4 * W * W := by ring
    omega
  -- bound ≤ A
  have hbA : bound ≤ A := by
    by_contra hc
    have hlt : W + 1 ≤ bound := by omega
    have h3 : (W + 1) ^ 3 ≤ bound ^ 3 := Nat.pow_le_pow_left hlt 3
    have h4 : P * Q ≤ (4 * W) * (4 * W) := Nat.mul_le_mul (by omega) (by omega)
    have h5 : W * W * W ≤ (W + 1) ^ 3 := by
      have : (W + 1) ^ 3 = W * W * W + (3 * W * W + 3 * W + 1) := by ring
      omega
    have h6 : 67108864 * (W * W) ≤ W * (W * W) := Nat.mul_le_mul_right _ hW
    have e4 : (4 * W) * (4 * W) = 16 * (W * W) := by ring
    have e6 : W * (W * W) = W * W * W := by ring
    have h7 : 0 < W * W := Nat.mul_pos (by omega) (by omega)
    omega
  refine ⟨⟨by omega, by omega, hE1, hE2, by omega, hPA, by omega, ?_, by omega, hTb, hbA, ?_, hhi⟩, hTB⟩
  · -- 16 (2E+4)² (AQ + BP) ≤ A² T
    have h1' : A * Q + P * Q / A * P ≤ 52 * (W * W) := by
      have a1 : A * Q ≤ (5 * W) * (4 * W) := Nat.mul_le_mul hA3 (by omega)
      have a2 : P * Q / A * P ≤ (2 * (4 * W)) * (4 * W) := Nat.mul_le_mul (by omega) (by omega)
      have e1 : (5 * W) * (4 * W) = 20 * (W * W) := by ring
      have e2 : (2 * (4 * W)) * (4 * W) = 32 * (W * W) := by ring
      omega
    have h2 : W * W ≤ A * A := Nat.mul_le_mul hAW hAW
    have e0 : 16 * (2 * E + 4) ^ 2 = 64 * (E + 2) ^ 2 := by ring
    rw [e0]
    calc 64 * (E + 2) ^ 2 * (A * Q + P * Q / A * P)
        ≤ 64 * (E + 2) ^ 2 * (52 * (A * A)) :=
          Nat.mul_le_mul_left _ (by omega)
      _ = (A * A) * (3328 * (E + 2) ^ 2) := by ring
      _ ≤ (A * A) * T := Nat.mul_le_mul_left _ (by omega)
      _ = A ^ 2 * T := by ring
  · -- 16 T² + 9 ≤ 18 (P + Q)
    have : T ^ 2 = T * T := by ring
    omega

/-- size version with the bit length `L`. -/
theorem hyp_of_sizes (L P Q A E bound : Nat)
    (hP1 : 2 ^ (L - 1) ≤ P) (hP2 : P < 2 ^ L) (hQ1 : 2 ^ (L - 1) ≤ Q) (hQ2 : Q < 2 ^ L)
    (hET : (E + 2) ^ 2 * 2 ^ 12 ≤ 2 ^ (L / 2))
    (hE1 : (A : Int) - P ≤ E) (hE2 : (P : Int) - A ≤ E)
    (hlo : P * Q ≤ 8 * bound ^ 3) (hhi : 16 * bound ^ 3 ≤ 81 * (P * Q)) :
    Hyp P Q A E (2 ^ (L / 2)) bound ∧ 2 ^ (L / 2) ≤ P * Q / A := by
  have hL : 14 ≤ L / 2 := by
    by_contra hc
    have h1 : 2 ^ (L / 2) < 2 ^ 14 := Nat.pow_lt_pow_right (by omega) (by omega)
    have h2 : 2 ≤ E + 2 := by omega
    have h3 := Nat.mul_le_mul h2 h2
    rw [pow_two] at hET
    omega
  have e1 : 2 ^ (L - 1) = 2 * 2 ^ (L - 2) := by
    rw [show L - 1 = (L - 2) + 1 by omega, pow_succ]; ring
  have e2 : 2 ^ L = 4 * 2 ^ (L - 2) := by
    rw [show L = (L - 2) + 2 by omega, pow_add]
    simp only [show L - 2 + 2 - 2 = L - 2 by omega]; ring
  have e3 : 2 ^ (L / 2) * 2 ^ (L / 2) ≤ 4 * 2 ^ (L - 2) := by
    rw [← e2, ← pow_add]
    exact Nat.pow_le_pow_right (by omega) (by omega)
  have e4 : 4096 * 2 ^ (L / 2) ≤ 2 ^ (L - 2) := by
    rw [show (4096 : Nat) = 2 ^ 12 by norm_num, ← pow_add]
    exact Nat.pow_le_pow_right (by omega) (by omega)
  rw [e1] at hP1 hQ1
  rw [e2] at hP2 hQ2
  exact hyp_of_atoms P Q A E (2 ^ (L - 2)) (2 ^ (L / 2)) bound hP1 hP2 hQ1 hQ2 e3 e4
    (by simpa using hET) hE1 hE2 hlo hhi

end Paranoid.FwgC
