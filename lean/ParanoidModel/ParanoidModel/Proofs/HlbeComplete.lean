/-
Proofs/HlbeComplete.lean — completeness of FactorHighAndLowBitsEqual (C04, second sentence).

 * `hlbeBits_reaches`: the loop invariant of the bit-fixing walk (the comments in the Python);
 * `two_adic_split`: odd square roots modulo `2^J` agree up to sign modulo `2^(J-1)`;
 * `hlbe_root`: the two 2-adic helper calls succeed and return a square root of `n`;
 * `hlbe_finds`: for odd primes `p < q` of equal bit length that agree on `r ≥ 3` low and `s` high
   bits with `r + s ≥ bitLength (p·q) / 4 + 2`, the function returns factors unless
   `(p+q)/2 = ⌈√n⌉` already (the case FermatFactor handles in its first step).
-/
import ParanoidModel.Proofs.Factoring
import ParanoidModel.Proofs.NTheory
import Mathlib.Tactic.Ring
import Mathlib.Tactic.Linarith
import Mathlib.Tactic.LinearCombination
import Mathlib.Algebra.Ring.Parity
import Mathlib.Algebra.Ring.Int.Parity
import Mathlib.Data.Nat.ModEq
import Mathlib.Data.Int.ModEq
import Mathlib.Data.Nat.Prime.Basic

namespace Paranoid

/-- the inner `for _ in range(2**m)` loop either returns factors, or walks `cnt` steps without
meeting a square. -/
theorem hlbeInner_spec (n step : Nat) : ∀ (cnt s : Nat),
    (∃ fs, hlbeInner n step cnt s = .inl fs) ∨
    (hlbeInner n step cnt s = .inr (s + cnt * step) ∧
      ∀ t, 1 ≤ t → t ≤ cnt →
        isSquareI (((s + t * step : Nat) : Int) * ((s + t * step : Nat) : Int) - n) = false)
  | 0, s => by
    right
    refine ⟨by simp [hlbeInner], ?_⟩
    intro t h1 h2; omega
  | cnt + 1, s => by
    unfold hlbeInner
    simp only
    by_cases hsq : isSquareI (((s + step : Nat) : Int) * ((s + step : Nat) : Int) - n) = true
    · left; rw [if_pos hsq]; exact ⟨_, rfl⟩
    · rw [if_neg hsq]
      rcases hlbeInner_spec n step cnt (s + step) with h | ⟨h1, h2⟩
      · exact Or.inl h
      · right
        refine ⟨by rw [h1]; congr 1; ring, ?_⟩
        intro t ht1 ht2
        rcases Nat.eq_or_lt_of_le ht1 with rfl | ht
        · simpa using hsq
        · have := h2 (t - 1) (by omega) (by omega)
          have e : s + step + (t - 1) * step = s + t * step := by
            obtain ⟨t', rfl⟩ : ∃ t', t = t' + 1 := ⟨t - 1, by omega⟩
            simp only [Nat.add_sub_cancel]; ring
          rwa [e] at this

theorem xor_bit_iff (s r i : Nat) :
    ((s ^^^ r) >>> i) % 2 = 1 ↔ s.testBit i ≠ r.testBit i := by
  rw [Nat.shiftRight_eq_div_pow]
  have h := Nat.testBit_eq_decide_div_mod_eq (x := s ^^^ r) (i := i)
  rw [Nat.testBit_xor] at h
  constructor
  · intro h1
    rw [h1] at h
    cases hs : s.testBit i <;> cases hr : r.testBit i <;> simp_all
  · intro h1
    cases hs : s.testBit i <;> cases hr : r.testBit i <;> simp_all

theorem testBit_of_mod_eq {x y j i : Nat} (h : x % 2 ^ j = y % 2 ^ j) (hi : i < j) :
    x.testBit i = y.testBit i := by
  have h1 := Nat.testBit_mod_two_pow x j i
  have h2 := Nat.testBit_mod_two_pow y j i
  rw [h] at h1
  rw [h1] at h2
  simpa [hi] using h2

theorem mod_succ_of_testBit_eq {x y i : Nat} (h : x % 2 ^ i = y % 2 ^ i)
    (hb : x.testBit i = y.testBit i) : x % 2 ^ (i + 1) = y % 2 ^ (i + 1) := by
  apply Nat.eq_of_testBit_eq
  intro b
  rw [Nat.testBit_mod_two_pow, Nat.testBit_mod_two_pow]
  by_cases hlt : b < i + 1
  · rcases Nat.lt_succ_iff_lt_or_eq.mp hlt with hb' | rfl
    · simp [hlt, testBit_of_mod_eq h hb']
    · simp [hb]
  · simp [hlt]

theorem mod_succ_of_testBit_ne {x y i : Nat} (h : x % 2 ^ i = y % 2 ^ i)
    (hb : y.testBit i ≠ x.testBit i) : x % 2 ^ (i + 1) = (y + 2 ^ i) % 2 ^ (i + 1) := by
  apply mod_succ_of_testBit_eq
  · rw [h, Nat.add_mod_right]
  · rw [Nat.add_comm, Nat.testBit_two_pow_add_eq]
    cases hx : x.testBit i <;> cases hy : y.testBit i <;> simp_all

/-- `S ≡ s (mod 2^i)`, `s < S < s + 2^i` is impossible. -/
theorem no_room {S s i : Nat} (h : S % 2 ^ i = s % 2 ^ i) (h1 : s < S) (h2 : S < s + 2 ^ i) :
    False := by
  have hd : 2 ^ i ∣ S - s := (Nat.modEq_iff_dvd' h1.le).mp h.symm
  have := Nat.le_of_dvd (by omega) hd
  omega

/-- **Loop invariant of the bit-fixing walk** (the comments in the Python: "`s` is the smallest
integer `≥ a` whose `i` low bits agree with `r`"). Let `S` be a target with `S² − n` a perfect
square that agrees with `r` on its `j` low bits. If the walk is at index `i ≤ j` with
`s < S < s + 2^j`, `s ≡ S (mod 2^i)` and at least `j − i` iterations are left, it returns factors
(for every `middle_bits`). -/
theorem hlbeBits_reaches (n r mb S j : Nat)
    (hsq : isSquareI ((S : Int) * S - n) = true) (hr : S % 2 ^ j = r % 2 ^ j) :
    ∀ (fuel i s : Nat), i ≤ j → j ≤ i + fuel → s < S → S < s + 2 ^ j →
      S % 2 ^ i = s % 2 ^ i → ∃ fs, hlbeBits n r mb fuel i s = some fs
  | 0, i, s, hij, hji, hsS, hSs, hmod => by
    exfalso
    have : i = j := by omega
    subst this
    exact no_room hmod hsS hSs
  | fuel + 1, i, s, hij, hji, hsS, hSs, hmod => by
    have hilt : i < j := by
      rcases Nat.lt_or_ge i j with h | h
      · exact h
      · exfalso
        have : i = j := by omega
        subst this
        exact no_room hmod hsS hSs
    have hSr : S.testBit i = r.testBit i := testBit_of_mod_eq hr hilt
    unfold hlbeBits
    by_cases hbit : ((s ^^^ r) >>> i) % 2 = 1
    · rw [if_pos hbit]
      rw [xor_bit_iff, ← hSr] at hbit
      have hmod' := mod_succ_of_testBit_ne hmod hbit
      have hge : s + 2 ^ i ≤ S := by
        have hd : 2 ^ i ∣ S - s := (Nat.modEq_iff_dvd' hsS.le).mp hmod.symm
        have := Nat.le_of_dvd (by omega) hd
        omega
      simp only
      have hm : min mb i ≤ i := Nat.min_le_right _ _
      have htot : 2 ^ (min mb i) * 2 ^ (i - min mb i) = 2 ^ i := by
        rw [← Nat.pow_add]; congr 1; omega
      rcases hlbeInner_spec n (2 ^ (i - min mb i)) (2 ^ (min mb i)) s with ⟨fs, h⟩ | ⟨h1, h2⟩
      · rw [h]; exact ⟨fs, rfl⟩
      · rw [h1, htot]
        simp only
        rcases Nat.eq_or_lt_of_le hge with heq | hlt
        · exfalso
          have := h2 (2 ^ (min mb i)) Nat.one_le_two_pow (Nat.le_refl _)
          rw [htot, heq, hsq] at this
          cases this
        · exact hlbeBits_reaches n r mb S j hsq hr fuel (i + 1) (s + 2 ^ i) hilt (by omega) hlt
            (by have := Nat.two_pow_pos i; omega) hmod'
    · rw [if_neg hbit]
      rw [xor_bit_iff, ← hSr] at hbit
      have hb : S.testBit i = s.testBit i := by
        cases hx : S.testBit i <;> cases hy : s.testBit i <;> simp_all
      exact hlbeBits_reaches n r mb S j hsq hr fuel (i + 1) s hilt (by omega) hsS hSs
        (mod_succ_of_testBit_eq hmod hb)

/-- a power of two dividing `u·v` with `u` odd divides `v`. -/
theorem two_pow_dvd_of_odd_mul (u : Int) (hu : Odd u) : ∀ (k : Nat) (v : Int),
    (2 : Int) ^ k ∣ u * v → (2 : Int) ^ k ∣ v
  | 0, v, _ => by simp
  | k + 1, v, h => by
    have h2 : (2 : Int) ∣ u * v := Dvd.dvd.trans (Dvd.intro_left ((2 : Int) ^ k) (by ring)) h
    have hv : (2 : Int) ∣ v := by
      have : Even (u * v) := even_iff_two_dvd.mpr h2
      rcases Int.even_mul.mp this with h' | h'
      · exact absurd h' (Int.not_even_iff_odd.mpr hu)
      · exact even_iff_two_dvd.mp h'
    obtain ⟨v', rfl⟩ := hv
    have : (2 : Int) ^ k ∣ u * v' := by
      have e : u * (2 * v') = 2 * (u * v') := by ring
      rw [e, pow_succ'] at h
      exact (mul_dvd_mul_iff_left (by norm_num : (2 : Int) ≠ 0)).mp h
    have := two_pow_dvd_of_odd_mul u hu k v' this
    rw [pow_succ']
    exact mul_dvd_mul_left 2 this

/-- square roots modulo `2^J` of an odd number agree up to sign modulo `2^(J-1)`. -/
theorem two_adic_split (x y : Int) (J : Nat) (hx : Odd x) (hy : Odd y)
    (h : (2 : Int) ^ J ∣ x * x - y * y) :
    (2 : Int) ^ (J - 1) ∣ x - y ∨ (2 : Int) ^ (J - 1) ∣ x + y := by
  obtain ⟨u, hu⟩ : ∃ u, x - y = 2 * u := by
    have : Even (x - y) := Odd.sub_odd hx hy
    exact even_iff_two_dvd.mp this
  obtain ⟨v, hv⟩ : ∃ v, x + y = 2 * v := by
    have : Even (x + y) := Odd.add_odd hx hy
    exact even_iff_two_dvd.mp this
  have huv : u + v = x := by linarith
  have hprod : x * x - y * y = 4 * (u * v) := by
    have : x * x - y * y = (x - y) * (x + y) := by ring
    rw [this, hu, hv]; ring
  rcases Nat.lt_or_ge J 2 with hJ | hJ
  · have : J - 1 = 0 := by omega
    rw [this]; left; simp
  · obtain ⟨J', rfl⟩ : ∃ J', J = J' + 2 := ⟨J - 2, by omega⟩
    have h4 : (2 : Int) ^ J' ∣ u * v := by
      rw [hprod, pow_add] at h
      have e : (2 : Int) ^ J' * 2 ^ 2 = 4 * 2 ^ J' := by ring
      rw [e] at h
      exact (mul_dvd_mul_iff_left (by norm_num : (4 : Int) ≠ 0)).mp h
    have e1 : J' + 2 - 1 = J' + 1 := by omega
    rw [e1, pow_succ']
    have hodd : Odd (u + v) := huv ▸ hx
    rcases Classical.em (Odd u) with hu' | hu'
    · -- u odd: 2^J' ∣ v
      right
      rw [hv]
      exact mul_dvd_mul_left 2 (two_pow_dvd_of_odd_mul u hu' J' v h4)
    · -- u even, so v odd
      left
      have hvodd : Odd v := by
        have hue : Even u := Int.not_odd_iff_even.mp hu'
        by_contra hv'
        have hve : Even v := Int.not_odd_iff_even.mp hv'
        exact (Int.not_even_iff_odd.mpr hodd) (hue.add hve)
      rw [hu]
      rw [mul_comm] at h4
      exact mul_dvd_mul_left 2 (two_pow_dvd_of_odd_mul v hvodd J' u h4)

/-- the two 2-adic helper calls of `FactorHighAndLowBitsEqual` succeed for `n ≡ 1 (mod 8)` and
give an odd square root `r0` of `n` modulo `2^K` (`K ≥ 3`). -/
theorem hlbe_root (n K : Nat) (hK : 3 ≤ K) (h8 : n % 8 = 1) :
    ∃ isq r0, inverseSqrt2exp n K = some isq ∧ inverse2exp isq K = some r0 ∧
      r0 * r0 ≡ n [MOD 2 ^ K] ∧ r0 % 2 = 1 := by
  obtain ⟨isq, hisq⟩ := Option.isSome_iff_exists.1 ((NT.inverseSqrt2exp_isSome_iff n K hK).2 h8)
  have hs := NT.inverseSqrt2exp_sound n K isq hisq
  have h2K : 2 ∣ 2 ^ K := dvd_pow_self 2 (by omega)
  have hisq_odd : isq % 2 = 1 := by
    by_contra hc
    have he : isq % 2 = 0 := by omega
    have : (isq * isq * n) % 2 = 0 := by
      rw [Nat.mul_mod, Nat.mul_mod isq isq, he]; simp
    have h1 : (isq * isq * n % 2 ^ K) % 2 = (isq * isq * n) % 2 := Nat.mod_mod_of_dvd _ h2K
    rw [hs, this] at h1; omega
  cases hr : inverse2exp isq K with
  | none => rw [NT.inverse2exp_eq_none_iff] at hr; omega
  | some r0 =>
    obtain ⟨_, hinv⟩ := NT.inverse2exp_correct isq K r0 hr
    refine ⟨isq, r0, hisq, hr, ?_, ?_⟩
    · have h1 : isq * isq * n ≡ 1 [MOD 2 ^ K] := by
        unfold Nat.ModEq; rw [hs, Nat.mod_eq_of_lt]; exact Nat.one_lt_two_pow (by omega)
      calc r0 * r0 = r0 * r0 * 1 := by ring
        _ ≡ r0 * r0 * (isq * isq * n) [MOD 2 ^ K] := (Nat.ModEq.mul_left _ h1).symm
        _ = (r0 * isq) * (r0 * isq) * n := by ring
        _ ≡ 1 * 1 * n [MOD 2 ^ K] := Nat.ModEq.mul_right _ (Nat.ModEq.mul hinv hinv)
        _ = n := by ring
    · by_contra hc
      have he : r0 % 2 = 0 := by omega
      have : (r0 * isq) % 2 = 0 := by rw [Nat.mul_mod, he]; simp
      have h1 : (r0 * isq % 2 ^ K) % 2 = (r0 * isq) % 2 := Nat.mod_mod_of_dvd _ h2K
      have h3 : r0 * isq % 2 ^ K = 1 % 2 ^ K := hinv
      rw [h3, Nat.mod_eq_of_lt (Nat.one_lt_two_pow (by omega)), this] at h1; omega

/-- control flow of `FactorHighAndLowBitsEqual`: once the guards pass and the two helper calls
answer, the result is the first successful walk. -/
theorem hlbe_of_walk (n mb isq r0 : Nat) (h6 : ¬ bitLength n < 6) (h8 : n % 8 = 1)
    (h1 : inverseSqrt2exp n ((bitLength n + 1) / 2 + 1) = some isq)
    (h2 : inverse2exp isq ((bitLength n + 1) / 2 + 1) = some r0)
    (hw : (∃ fs, hlbeBits n r0 mb ((bitLength n + 1) / 2) 0 (isqrt (n - 1) + 1) = some fs) ∨
      (∃ fs, hlbeBits n (fMod2exp ((2 : Int) ^ ((bitLength n + 1) / 2) - r0)
        (2 * ((bitLength n + 1) / 2) + 2)) mb ((bitLength n + 1) / 2) 0 (isqrt (n - 1) + 1)
          = some fs)) :
    ∃ fs, factorHighAndLowBitsEqual n mb = .ok (some fs) := by
  unfold factorHighAndLowBitsEqual
  rw [if_neg h6, if_neg (by omega : ¬ n % 8 ≠ 1)]
  simp only [h1, h2]
  cases hfirst : hlbeBits n r0 mb ((bitLength n + 1) / 2) 0 (isqrt (n - 1) + 1) with
  | some fs => exact ⟨fs, rfl⟩
  | none =>
    rcases hw with ⟨fs, h⟩ | ⟨fs, h⟩
    · rw [hfirst] at h; cases h
    · exact ⟨fs, by simp only [h]⟩

namespace Hlbe

theorem bitLength_le_iff (n k : Nat) : bitLength n ≤ k ↔ n < 2 ^ k := by
  unfold bitLength
  split
  · subst n; simp
  · rename_i h
    rw [← Nat.log2_lt h]; omega

theorem bitLength_bounds (n : Nat) (hn : 0 < n) :
    2 ^ (bitLength n - 1) ≤ n ∧ n < 2 ^ bitLength n ∧ 1 ≤ bitLength n := by
  have h0 : bitLength n ≠ 0 := by unfold bitLength; simp [Nat.pos_iff_ne_zero.mp hn]
  refine ⟨?_, (bitLength_le_iff n _).1 (Nat.le_refl _), by omega⟩
  have h : ¬ bitLength n ≤ bitLength n - 1 := by omega
  rw [bitLength_le_iff] at h
  omega

/-- `isSquareI (S² − n)` when `S² = n + D²`. -/
theorem isSquareI_of_eq (S n D : Nat) (h : S * S = n + D * D) :
    isSquareI ((S : Int) * S - n) = true := by
  have e : (S : Int) * S - n = ((D * D : Nat) : Int) := by
    have : ((S * S : Nat) : Int) = ((n + D * D : Nat) : Int) := by rw [h]
    push_cast at this ⊢
    linarith
  rw [e, isSquareI_iff]
  refine ⟨Int.natCast_nonneg _, ?_⟩
  rw [Int.toNat_natCast, ← Nat.pow_two D, Nat.sqrt_eq']
  exact (Nat.pow_two D).symm
  
end Hlbe

open Hlbe
/-- size part: with `S = a + δ`, `δ·(2a + δ) ≤ D²`, `2^L ≤ 2a`, `D < 2^E`, `2E ≤ j + L`: `δ < 2^j`. -/
theorem window_bound (a δ D L E j : Nat) (h1 : δ * (2 * a + δ) ≤ D * D) (h2 : 2 ^ L ≤ 2 * a)
    (h3 : D < 2 ^ E) (h4 : 2 * E ≤ j + L) : δ < 2 ^ j := by
  by_contra hc
  have hδ : 2 ^ j ≤ δ := Nat.le_of_not_lt hc
  have hDD : D * D < 2 ^ E * 2 ^ E := Nat.mul_self_lt_mul_self h3
  have hEE : 2 ^ E * 2 ^ E ≤ 2 ^ j * 2 ^ L := by
    rw [← Nat.pow_add, ← Nat.pow_add]
    exact Nat.pow_le_pow_right (by norm_num) (by omega)
  have h5 : 2 ^ j * 2 ^ L ≤ δ * (2 * a + δ) :=
    Nat.mul_le_mul hδ (by omega)
  omega



/-- congruence from divisibility, natural-number form. -/
theorem mod_eq_of_int_dvd (S r j : Nat) (h : (2 : Int) ^ j ∣ (S : Int) - r) :
    S % 2 ^ j = r % 2 ^ j := by
  have : r ≡ S [MOD 2 ^ j] := by
    rw [Nat.modEq_iff_dvd]; push_cast; exact h
  exact this.symm

theorem hlbe_finds {p q r s : Nat} (hp : p.Prime) (hq : q.Prime) (hlt : p < q) (hr : 3 ≤ r)
    (hlow : p % 2 ^ r = q % 2 ^ r) (hL : bitLength p = bitLength q)
    (hhigh : p / 2 ^ (bitLength p - s) = q / 2 ^ (bitLength q - s))
    (hrs : bitLength (p * q) / 4 + 2 ≤ r + s) (mb : Nat)
    (ha : Nat.sqrt (p * q - 1) + 1 < (p + q) / 2) :
    ∃ fs, factorHighAndLowBitsEqual (p * q) mb = .ok (some fs) := by
  have hp2 := hp.two_le
  have hq2 := hq.two_le
  -- parity
  have h8r : 8 ∣ 2 ^ r := by
    obtain ⟨r', rfl⟩ : ∃ r', r = r' + 3 := ⟨r - 3, by omega⟩
    exact ⟨2 ^ r', by rw [Nat.pow_add]; ring⟩
  have hpq8 : p % 8 = q % 8 := by
    rw [← Nat.mod_mod_of_dvd p h8r, ← Nat.mod_mod_of_dvd q h8r, hlow]
  have hpo : p % 2 = 1 := by
    by_contra hc
    have hpe : 2 = p := (Nat.prime_dvd_prime_iff_eq Nat.prime_two hp).mp (by omega : 2 ∣ p)
    have hqe : 2 = q := (Nat.prime_dvd_prime_iff_eq Nat.prime_two hq).mp (by omega : 2 ∣ q)
    omega
  have hqo : q % 2 = 1 := by omega
  -- q = p + 2^r t
  have hdvd : 2 ^ r ∣ q - p := (Nat.modEq_iff_dvd' hlt.le).mp hlow
  obtain ⟨t, ht⟩ := hdvd
  have ht1 : 1 ≤ t := by
    rcases Nat.eq_zero_or_pos t with rfl | h
    · simp at ht; omega
    · exact h
  have hr2 : 2 ^ r = 2 * 2 ^ (r - 1) := by rw [← Nat.pow_succ']; congr 1; omega
  have hr4 : 2 ^ (r - 1) = 4 * 2 ^ (r - 3) := by
    have : r - 1 = (r - 3) + 2 := by omega
    rw [this, Nat.pow_add]; ring
  obtain ⟨D, hD⟩ : ∃ D, D = 2 ^ (r - 1) * t := ⟨_, rfl⟩
  have hq_eq : q = p + 2 * D := by rw [hD]; rw [hr2] at ht; rw [← Nat.mul_assoc, ← ht]; omega
  have hD4 : 4 ≤ D := by
    rw [hD, hr4]
    have := Nat.two_pow_pos (r - 3)
    nlinarith
  have hDeven : D % 2 = 0 := by
    rw [hD, hr4]; have : 4 * 2 ^ (r - 3) * t = 2 * (2 * 2 ^ (r - 3) * t) := by ring
    rw [this]; exact Nat.mul_mod_right _ _
  obtain ⟨S, hS⟩ : ∃ S, S = p + D := ⟨_, rfl⟩
  have hS2 : (p + q) / 2 = S := by omega
  rw [hS2] at ha
  have hSS : S * S = p * q + D * D := by rw [hS, hq_eq]; ring
  have hSo : S % 2 = 1 := by omega
  -- n
  obtain ⟨n, hn⟩ : ∃ n, n = p * q := ⟨_, rfl⟩
  rw [← hn] at ha hrs hSS ⊢
  have hn8 : n % 8 = 1 := by
    have h1 : p % 8 = 1 ∨ p % 8 = 3 ∨ p % 8 = 5 ∨ p % 8 = 7 := by omega
    rw [hn, Nat.mul_mod, ← hpq8]
    rcases h1 with h | h | h | h <;> rw [h]
  have hn33 : 2 ^ 5 ≤ n := by
    have : 3 * 11 ≤ p * q := Nat.mul_le_mul (by omega) (by omega)
    rw [hn]; omega
  have hn6 : ¬ bitLength n < 6 := by
    intro h
    have : bitLength n ≤ 5 := by omega
    rw [bitLength_le_iff] at this
    omega
  -- sizes
  obtain ⟨L, hLp⟩ : ∃ L, L = bitLength p := ⟨_, rfl⟩
  obtain ⟨hpl, hpu, hL1⟩ := bitLength_bounds p (by omega)
  obtain ⟨hql, hqu, _⟩ := bitLength_bounds q (by omega)
  rw [← hL, ← hLp] at hql hqu hhigh
  rw [← hLp] at hpl hpu hL1
  have hnl : 2 ^ (L - 1) * 2 ^ (L - 1) ≤ n := by rw [hn]; exact Nat.mul_le_mul hpl hql
  have hB : 2 * L - 1 ≤ bitLength n := by
    by_contra hc
    have : bitLength n ≤ 2 * L - 2 := by omega
    rw [bitLength_le_iff] at this
    have e : 2 ^ (2 * L - 2) = 2 ^ (L - 1) * 2 ^ (L - 1) := by rw [← Nat.pow_add]; congr 1; omega
    omega
  obtain ⟨k, hk⟩ : ∃ k, k = (bitLength n + 1) / 2 := ⟨_, rfl⟩
  have hkL : L ≤ k := by omega
  -- a
  obtain ⟨a, haa⟩ : ∃ a, a = Nat.sqrt (n - 1) + 1 := ⟨_, rfl⟩
  rw [← haa] at ha
  have han : n ≤ a * a := by
    have := Nat.lt_succ_sqrt (n - 1)
    rw [haa]; simp only [Nat.succ_eq_add_one] at this; omega
  have haL : 2 ^ (L - 1) ≤ a := by
    by_contra hc
    have := Nat.mul_self_lt_mul_self (Nat.lt_of_not_le hc)
    omega
  have h2a : 2 ^ L ≤ 2 * a := by
    have : 2 ^ L = 2 * 2 ^ (L - 1) := by rw [← Nat.pow_succ']; congr 1; omega
    omega
  -- high bits: 2 D < 2^(L-s)
  have hT : 2 * D < 2 ^ (L - s) := by
    have e1 := Nat.div_add_mod p (2 ^ (L - s))
    have e2 := Nat.div_add_mod q (2 ^ (L - s))
    have h1 := Nat.mod_lt p (Nat.two_pow_pos (L - s))
    have h2 := Nat.mod_lt q (Nat.two_pow_pos (L - s))
    rw [hhigh] at e1
    omega
  have hLs : 1 ≤ L - s := by
    by_contra hc
    have : L - s = 0 := by omega
    rw [this] at hT; omega
  have hDE : D < 2 ^ (L - s - 1) := by
    have : 2 ^ (L - s) = 2 * 2 ^ (L - s - 1) := by rw [← Nat.pow_succ']; congr 1; omega
    omega
  -- the window
  obtain ⟨j, hj⟩ : ∃ j, j = min (2 * r - 3) k := ⟨_, rfl⟩
  obtain ⟨δ, hδ⟩ : ∃ δ, S = a + δ := ⟨S - a, by omega⟩
  have hδbound : δ * (2 * a + δ) ≤ D * D := by
    have : S * S = a * a + δ * (2 * a + δ) := by rw [hδ]; ring
    omega
  have hδj : δ < 2 ^ j := by
    apply window_bound a δ D L (L - s - 1) j hδbound h2a hDE
    omega
  have hSa : S < a + 2 ^ j := by omega
  have hsq : isSquareI ((S : Int) * S - n) = true := isSquareI_of_eq S n D hSS
  -- the root
  obtain ⟨isq, r0, h1, h2, hroot, hr0o⟩ := hlbe_root n (k + 1) (by omega) hn8
  -- 2-adic
  have hJ : (2 : Int) ^ (min (2 * r - 2) (k + 1)) ∣ (S : Int) * S - (r0 : Int) * r0 := by
    have hA : (2 : Int) ^ (k + 1) ∣ (n : Int) - (r0 : Int) * r0 := by
      have := (Nat.modEq_iff_dvd).mp hroot
      push_cast at this; exact this
    have hB' : (2 : Int) ^ (2 * r - 2) ∣ ((D * D : Nat) : Int) := by
      have : D * D = 2 ^ (2 * r - 2) * (t * t) := by
        rw [hD]
        have : 2 ^ (2 * r - 2) = 2 ^ (r - 1) * 2 ^ (r - 1) := by rw [← Nat.pow_add]; congr 1; omega
        rw [this]; ring
      rw [this]; push_cast; exact Dvd.intro _ rfl
    have e : (S : Int) * S - (r0 : Int) * r0 = ((n : Int) - (r0 : Int) * r0) + ((D * D : Nat) : Int) := by
      have : ((S * S : Nat) : Int) = ((n + D * D : Nat) : Int) := by rw [hSS]
      push_cast at this ⊢; linarith
    rw [e]
    exact dvd_add (Dvd.dvd.trans (pow_dvd_pow 2 (Nat.min_le_right _ _)) hA)
      (Dvd.dvd.trans (pow_dvd_pow 2 (Nat.min_le_left _ _)) hB')
  have hSodd : Odd (S : Int) := by
    rw [Int.odd_coe_nat, Nat.odd_iff]; exact hSo
  have hr0odd : Odd (r0 : Int) := by
    rw [Int.odd_coe_nat, Nat.odd_iff]; exact hr0o
  have hsplit := two_adic_split (S : Int) (r0 : Int) _ hSodd hr0odd hJ
  have hJj : min (2 * r - 2) (k + 1) - 1 = j := by omega
  rw [hJj] at hsplit
  have hjk : j ≤ k := by omega
  apply hlbe_of_walk n mb isq r0 hn6 hn8 (hk ▸ h1) (hk ▸ h2)
  rw [← hk, show isqrt (n - 1) + 1 = a from haa.symm]
  rcases hsplit with hminus | hplus
  · left
    exact hlbeBits_reaches n r0 mb S j hsq (mod_eq_of_int_dvd S r0 j hminus) k 0 a (Nat.zero_le _)
      (by omega) ha hSa (by simp [Nat.mod_one])
  · right
    apply hlbeBits_reaches n _ mb S j hsq _ k 0 a (Nat.zero_le _) (by omega) ha hSa
      (by simp [Nat.mod_one])
    apply mod_eq_of_int_dvd
    unfold fMod2exp
    have hpos : (0 : Int) < (2 : Int) ^ (2 * k + 2) := by positivity
    rw [Int.toNat_of_nonneg (Int.emod_nonneg _ hpos.ne')]
    have hdm := Int.mul_ediv_add_emod ((2 : Int) ^ k - r0) ((2 : Int) ^ (2 * k + 2))
    have e : (S : Int) - ((2 : Int) ^ k - r0) % (2 : Int) ^ (2 * k + 2) =
        ((S : Int) + r0) - 2 ^ k + 2 ^ (2 * k + 2) * (((2 : Int) ^ k - r0) / 2 ^ (2 * k + 2)) := by
      linarith
    rw [e]
    exact dvd_add (dvd_sub hplus (pow_dvd_pow 2 hjk))
      (Dvd.dvd.mul_right (pow_dvd_pow 2 (by omega)) _)

/-- primes that agree on `r ≥ 3` low bits and are distinct are both odd. -/
theorem low_bits_odd {p q r : Nat} (hp : p.Prime) (hq : q.Prime) (hne : p ≠ q) (hr : 3 ≤ r)
    (hlow : p % 2 ^ r = q % 2 ^ r) : p % 2 = 1 ∧ q % 2 = 1 := by
  have h8r : 8 ∣ 2 ^ r := by
    obtain ⟨r', rfl⟩ : ∃ r', r = r' + 3 := ⟨r - 3, by omega⟩
    exact ⟨2 ^ r', by rw [Nat.pow_add]; ring⟩
  have hpq8 : p % 8 = q % 8 := by
    rw [← Nat.mod_mod_of_dvd p h8r, ← Nat.mod_mod_of_dvd q h8r, hlow]
  have hpo : p % 2 = 1 := by
    by_contra hc
    have hpe : 2 = p := (Nat.prime_dvd_prime_iff_eq Nat.prime_two hp).mp (by omega : 2 ∣ p)
    have hqe : 2 = q := (Nat.prime_dvd_prime_iff_eq Nat.prime_two hq).mp (by omega : 2 ∣ q)
    omega
  exact ⟨hpo, by omega⟩

end Paranoid
