/-
Proofs/Hnp.lean — lemmas for property C08 (integer-lattice half) about Model/Hnp.lean:
 * integer combinations of matrix rows (`lincomb`) and the two shapes of the HNP lattice;
 * the planted vector of every `Bias` is such a combination (pre-condition of the LLL oracle);
 * the post-processing loop: exact characterisation of the guess list, and `x` is reported
   whenever the basis contains a row `(u, u·x, …)` with `u` a unit modulo `n`;
 * decision table of `_HiddenNumberProblemSubsets`.
-/
import ParanoidModel.Model.Hnp
import ParanoidModel.Proofs.InvMod
import Mathlib.Tactic.Ring
import Mathlib.Tactic.Linarith
import Mathlib.Data.Nat.Prime.Basic

namespace Paranoid.Hnp

/-! ### integer combinations of rows -/

def vadd (u v : List Int) : List Int := List.zipWith (· + ·) u v
def smul (c : Int) (v : List Int) : List Int := v.map (c * ·)

/-- `Σ_j coeffs_j • rows_j` in `ℤ^dim`. -/
def lincomb (dim : Nat) : List Int → List (List Int) → List Int
  | c :: cs, r :: rs => vadd (smul c r) (lincomb dim cs rs)
  | _, _ => List.replicate dim 0

/-- entry `j` of a vector, `0` outside. -/
def ent (v : List Int) (j : Nat) : Int := v[j]?.getD 0

theorem ent_of_lt (v : List Int) (j : Nat) (h : j < v.length) : ent v j = v[j] := by
  simp [ent, List.getElem?_eq_getElem h]

theorem ent_of_ge (v : List Int) (j : Nat) (h : v.length ≤ j) : ent v j = 0 := by
  simp [ent, List.getElem?_eq_none h]

@[simp] theorem ent_cons_zero (a : Int) (v : List Int) : ent (a :: v) 0 = a := by simp [ent]
@[simp] theorem ent_cons_succ (a : Int) (v : List Int) (j : Nat) : ent (a :: v) (j + 1) = ent v j := by
  simp [ent]
@[simp] theorem ent_nil (j : Nat) : ent [] j = 0 := by simp [ent]

/-- column `j` of the combination. -/
def colSum (j : Nat) : List Int → List (List Int) → Int
  | c :: cs, r :: rs => c * ent r j + colSum j cs rs
  | _, _ => 0

theorem lincomb_length (dim : Nat) : ∀ (cs : List Int) (rs : List (List Int)),
    (∀ r ∈ rs, r.length = dim) → (lincomb dim cs rs).length = dim
  | [], _, _ => by simp [lincomb]
  | _ :: _, [], _ => by simp [lincomb]
  | c :: cs, r :: rs, h => by
    have h1 := h r (List.mem_cons_self ..)
    have h2 := lincomb_length dim cs rs (fun r hr => h r (List.mem_cons_of_mem _ hr))
    simp [lincomb, vadd, smul, h1, h2]

theorem ent_replicate_zero (dim j : Nat) : ent (List.replicate dim (0 : Int)) j = 0 := by
  by_cases h : j < dim
  · rw [ent_of_lt _ _ (by simpa using h)]; simp
  · rw [ent_of_ge _ _ (by simp; omega)]

theorem lincomb_ent (dim j : Nat) : ∀ (cs : List Int) (rs : List (List Int)),
    (∀ r ∈ rs, r.length = dim) → ent (lincomb dim cs rs) j = colSum j cs rs
  | [], _, _ => by simp [lincomb, colSum, ent_replicate_zero]
  | _ :: _, [], _ => by simp [lincomb, colSum, ent_replicate_zero]
  | c :: cs, r :: rs, h => by
    have h1 := h r (List.mem_cons_self ..)
    have hrs : ∀ r ∈ rs, r.length = dim := fun r hr => h r (List.mem_cons_of_mem _ hr)
    have h2 := lincomb_length dim cs rs hrs
    have ih := lincomb_ent dim j cs rs hrs
    simp only [lincomb, colSum, vadd, smul]
    rw [← ih]
    by_cases hj : j < dim
    · rw [ent_of_lt _ _ (by simp [h1, h2, hj]), ent_of_lt _ _ (by omega), ent_of_lt _ _ (by omega)]
      simp
    · rw [ent_of_ge _ _ (by simp [h1, h2]; omega), ent_of_ge _ _ (by omega), ent_of_ge _ _ (by omega)]
      simp

theorem ext_ent (l1 l2 : List Int) (hl : l1.length = l2.length)
    (h : ∀ j, j < l1.length → ent l1 j = ent l2 j) : l1 = l2 := by
  apply List.ext_getElem hl
  intro j h1 h2
  have := h j h1
  rwa [ent_of_lt _ _ h1, ent_of_lt _ _ h2] at this

/-! ### entries of the HNP lattice -/

theorem ent_map_range (m : Nat) (f : Nat → Int) (c : Nat) :
    ent ((List.range m).map f) c = if c < m then f c else 0 := by
  split
  · rename_i h
    rw [ent_of_lt _ _ (by simpa using h)]; simp
  · rename_i h
    rw [ent_of_ge _ _ (by simp; omega)]

theorem ent_map (l : List Int) (f : Int → Int) (hf : f 0 = 0) (c : Nat) :
    ent (l.map f) c = f (ent l c) := by
  by_cases h : c < l.length
  · rw [ent_of_lt _ _ (by simpa using h), ent_of_lt _ _ h]; simp
  · rw [ent_of_ge _ _ (by simp; omega), ent_of_ge _ _ (by omega), hf]

theorem ent_tailRow (m : Nat) (n w : Int) (pfx : Bool) (i c : Nat) :
    ent (hnpTailRow m n w pfx i) (c + 2) =
      if c < m then (if pfx = true ∧ i = 0 then w else if c = i then n * w else 0) else 0 := by
  unfold hnpTailRow
  rw [ent_cons_succ, ent_cons_succ, ent_map_range]

/-- column `c + 2` of a combination of the diagonal rows `s, s+1, …, s+k-1` (MSB shape). -/
theorem colSum_tail_diag (m : Nat) (n w : Int) (c : Nat) (hc : c < m) (d : Nat → Int) :
    ∀ (k s : Nat), 0 < s →
    colSum (c + 2) ((List.range' s k).map d) ((List.range' s k).map (hnpTailRow m n w true)) =
      if s ≤ c ∧ c < s + k then d c * (n * w) else 0
  | 0, s, _ => by simp [colSum]
  | k + 1, s, hs => by
    rw [List.range'_succ, List.map_cons, List.map_cons, colSum, colSum_tail_diag m n w c hc d k (s + 1) (by omega),
      ent_tailRow, if_pos hc, if_neg (by omega)]
    by_cases h1 : c = s
    · subst h1
      rw [if_pos rfl, if_neg (by omega), if_pos (by omega)]; ring
    · rw [if_neg h1]
      by_cases h2 : s + 1 ≤ c ∧ c < s + 1 + k
      · rw [if_pos h2, if_pos (by omega)]; ring
      · rw [if_neg h2, if_neg (by omega)]; ring

theorem colSum_tail_diag_msb (m : Nat) (n w : Int) (c : Nat) (hc : c < m) (d : Nat → Int) :
    ∀ (k s : Nat),
    colSum (c + 2) ((List.range' s k).map d) ((List.range' s k).map (hnpTailRow m n w false)) =
      if s ≤ c ∧ c < s + k then d c * (n * w) else 0
  | 0, s => by simp [colSum]
  | k + 1, s => by
    rw [List.range'_succ, List.map_cons, List.map_cons, colSum, colSum_tail_diag_msb m n w c hc d k (s + 1),
      ent_tailRow, if_pos hc, if_neg (by simp)]
    by_cases h1 : c = s
    · subst h1
      rw [if_pos rfl, if_neg (by omega), if_pos (by omega)]; ring
    · rw [if_neg h1]
      by_cases h2 : s + 1 ≤ c ∧ c < s + 1 + k
      · rw [if_pos h2, if_pos (by omega)]; ring
      · rw [if_neg h2, if_neg (by omega)]; ring

/-- columns 0 and 1 of the tail rows vanish. -/
theorem colSum_tail_low (m : Nat) (n w : Int) (pfx : Bool) (j : Nat) (hj : j < 2) :
    ∀ (cs : List Int) (is : List Nat), colSum j cs (is.map (hnpTailRow m n w pfx)) = 0
  | [], _ => by simp [colSum]
  | _ :: _, [] => by simp [colSum]
  | c :: cs, i :: is => by
    rw [List.map_cons, colSum, colSum_tail_low m n w pfx j hj cs is]
    have : ent (hnpTailRow m n w pfx i) j = 0 := by
      unfold hnpTailRow
      match j, hj with
      | 0, _ => simp
      | 1, _ => simp
    rw [this]; ring

theorem list_eq_map_range (l : List Int) : l = (List.range l.length).map (ent l) := by
  apply List.ext_getElem (by simp)
  intro j h1 h2
  simp [ent_of_lt l j h1]


theorem map_eq_map_range (l : List Int) (f : Int → Int) :
    l.map f = (List.range l.length).map (fun i => f (ent l i)) := by
  conv_lhs => rw [list_eq_map_range l]
  rw [List.map_map]; rfl

theorem hnpRows_length (a b : List Int) (w n u : Int) (pfx : Bool) (hb : b.length = a.length) :
    ∀ r ∈ hnpRows a b w n u pfx, r.length = a.length + 2 := by
  intro r hr
  unfold hnpRows at hr
  simp only [List.mem_cons, List.mem_map, List.mem_range] at hr
  rcases hr with rfl | rfl | ⟨i, _, rfl⟩
  · simp
  · simp [hb]
  · simp [hnpTailRow]

/-- **MSB shape.** `α·row₀ + β·row₁ + Σ dᵢ·row_{i+2}` of the matrix without the all-`w` row. -/
theorem lincomb_hnpRows_msb (a b : List Int) (hb : b.length = a.length) (w n u α β : Int)
    (d : Nat → Int) :
    lincomb (a.length + 2) (α :: β :: (List.range a.length).map d) (hnpRows a b w n u false) =
      α * u :: β :: (List.range a.length).map
        (fun c => (α * ent a c + β * ent b c + d c * n) * w) := by
  have hlen := hnpRows_length a b w n u false hb
  apply ext_ent
  · rw [lincomb_length _ _ _ hlen]; simp
  · intro j hj
    rw [lincomb_length _ _ _ hlen] at hj
    rw [lincomb_ent _ _ _ _ hlen]
    unfold hnpRows
    rw [colSum, colSum]
    match j with
    | 0 => rw [colSum_tail_low _ _ _ _ 0 (by omega)]; simp
    | 1 => rw [colSum_tail_low _ _ _ _ 1 (by omega)]; simp
    | c + 2 =>
      have hc : c < a.length := by omega
      rw [List.range_eq_range', colSum_tail_diag_msb a.length n w c hc d a.length 0,
        if_pos ⟨by omega, by omega⟩]
      simp only [ent_cons_succ]
      rw [ent_map _ _ (by simp), ent_map _ _ (by simp), ← List.range_eq_range', ent_map_range,
        if_pos hc]
      ring

/-- **prefix shape.** Row 2 is `(0, 0, w, …, w)`; its coefficient is `s`, the diagonal rows
`i ≥ 1` get `d i`. -/
theorem lincomb_hnpRows_pfx (a b : List Int) (hb : b.length = a.length) (w n u α β s : Int)
    (d : Nat → Int) :
    lincomb (a.length + 2)
        (α :: β :: (List.range a.length).map (fun i => if i = 0 then s else d i))
        (hnpRows a b w n u true) =
      α * u :: β :: (List.range a.length).map
        (fun c => (α * ent a c + β * ent b c + s + (if c = 0 then 0 else d c * n)) * w) := by
  have hlen := hnpRows_length a b w n u true hb
  apply ext_ent
  · rw [lincomb_length _ _ _ hlen]; simp
  · intro j hj
    rw [lincomb_length _ _ _ hlen] at hj
    rw [lincomb_ent _ _ _ _ hlen]
    unfold hnpRows
    rw [colSum, colSum]
    match j with
    | 0 => rw [colSum_tail_low _ _ _ _ 0 (by omega)]; simp
    | 1 => rw [colSum_tail_low _ _ _ _ 1 (by omega)]; simp
    | c + 2 =>
      have hc : c < a.length := by omega
      obtain ⟨k, hk⟩ : ∃ k, a.length = k + 1 := ⟨a.length - 1, by omega⟩
      simp only [ent_cons_succ]
      rw [ent_map_range, if_pos hc, ent_map _ _ (by simp), ent_map _ _ (by simp)]
      have hck : c < k + 1 := by omega
      have e0 : ent (hnpTailRow (k + 1) n w true 0) (c + 2) = w := by
        rw [ent_tailRow, if_pos hck, if_pos ⟨rfl, rfl⟩]
      have eT := colSum_tail_diag (k + 1) n w c hck (fun i => if i = 0 then s else d i) k 1 (by omega)
      rw [List.range_eq_range', hk, List.range'_succ, List.map_cons, List.map_cons, colSum, e0, eT]
      by_cases h0 : c = 0
      · subst h0
        have h1 : ¬ (1 ≤ 0 ∧ 0 < 1 + k) := by omega
        simp only [if_true, if_neg h1]
        ring
      · have h1 : 1 ≤ c ∧ c < 1 + k := by omega
        simp only [h0, h1, if_false, if_true, and_self]
        ring

/-! ### the guess loop -/

theorem mem_hnpSetAdd (acc : List Nat) (g h : Nat) : h ∈ hnpSetAdd acc g ↔ h ∈ acc ∨ h = g := by
  unfold hnpSetAdd
  split
  · rename_i hg
    constructor
    · exact Or.inl
    · rintro (h1 | rfl)
      · exact h1
      · exact hg
  · simp

/-- if no row raises, the loop returns exactly `acc ∪ {g | some row yields g}`. -/
theorem hnpGuessLoop_ok (step : List Int → Except PyErr (Option Nat)) :
    ∀ (basis : List (List Int)) (acc : List Nat),
    (∀ r ∈ basis, ∃ o, step r = .ok o) →
    ∃ gs, hnpGuessLoop step basis acc = .ok gs ∧
      ∀ g, g ∈ gs ↔ g ∈ acc ∨ ∃ r ∈ basis, step r = .ok (some g)
  | [], acc, _ => ⟨acc, rfl, by simp⟩
  | row :: rest, acc, h => by
    obtain ⟨o, ho⟩ := h row (List.mem_cons_self ..)
    have hrest : ∀ r ∈ rest, ∃ o, step r = .ok o := fun r hr => h r (List.mem_cons_of_mem _ hr)
    unfold hnpGuessLoop
    rw [ho]
    cases o with
    | none =>
      obtain ⟨gs, hgs, hmem⟩ := hnpGuessLoop_ok step rest acc hrest
      refine ⟨gs, hgs, fun g => ?_⟩
      rw [hmem g]
      constructor
      · rintro (h1 | ⟨r, hr, hs⟩)
        · exact Or.inl h1
        · exact Or.inr ⟨r, List.mem_cons_of_mem _ hr, hs⟩
      · rintro (h1 | ⟨r, hr, hs⟩)
        · exact Or.inl h1
        · rcases List.mem_cons.mp hr with rfl | hr
          · rw [ho] at hs; cases hs
          · exact Or.inr ⟨r, hr, hs⟩
    | some g0 =>
      obtain ⟨gs, hgs, hmem⟩ := hnpGuessLoop_ok step rest (hnpSetAdd acc g0) hrest
      refine ⟨gs, hgs, fun g => ?_⟩
      rw [hmem g, mem_hnpSetAdd]
      constructor
      · rintro ((h1 | rfl) | ⟨r, hr, hs⟩)
        · exact Or.inl h1
        · exact Or.inr ⟨row, List.mem_cons_self .., ho⟩
        · exact Or.inr ⟨r, List.mem_cons_of_mem _ hr, hs⟩
      · rintro (h1 | ⟨r, hr, hs⟩)
        · exact Or.inl (Or.inl h1)
        · rcases List.mem_cons.mp hr with rfl | hr
          · rw [ho] at hs
            injection hs with hs; injection hs with hs
            exact Or.inl (Or.inr hs.symm)
          · exact Or.inr ⟨r, hr, hs⟩

/-- an exception of the loop is an exception of some row. -/
theorem hnpGuessLoop_error (step : List Int → Except PyErr (Option Nat)) (e : PyErr) :
    ∀ (basis : List (List Int)) (acc : List Nat), hnpGuessLoop step basis acc = .error e →
    ∃ r ∈ basis, step r = .error e
  | [], acc, h => by simp [hnpGuessLoop] at h
  | row :: rest, acc, h => by
    unfold hnpGuessLoop at h
    split at h
    · rename_i e' he
      injection h with h; subst h
      exact ⟨row, List.mem_cons_self .., he⟩
    · obtain ⟨r, hr, hs⟩ := hnpGuessLoop_error step e rest acc h
      exact ⟨r, List.mem_cons_of_mem _ hr, hs⟩
    · obtain ⟨r, hr, hs⟩ := hnpGuessLoop_error step e rest _ h
      exact ⟨r, List.mem_cons_of_mem _ hr, hs⟩

/-! ### one row -/

/-- a row is *harmless* for modulus `n`: at least two entries and a first entry that is either
a multiple of `n` or a unit modulo `n` (always true for prime `n`). -/
def RowOk (n : Nat) (row : List Int) : Prop :=
  ∃ v0 v1 rest, row = v0 :: v1 :: rest ∧ ((n : Int) ∣ v0 ∨ Int.gcd v0 n = 1)

theorem hnpRowGuess_total (n : Nat) (hn : 0 < n) (row : List Int) (h : RowOk n row) :
    ∃ o, hnpRowGuess n row = .ok o := by
  obtain ⟨v0, v1, rest, rfl, hv⟩ := h
  unfold hnpRowGuess
  simp only [hn.ne', if_false]
  by_cases hd : v0 % (n : Int) = 0
  · simp [hd]
  · rw [if_neg hd]
    rcases hv with hv | hv
    · exact absurd (Int.emod_eq_zero_of_dvd hv) hd
    · obtain ⟨inv, hinv⟩ := invMod_of_coprime v0 n hn hv
      rw [hinv]
      exact ⟨_, rfl⟩

theorem hnpRowGuessPre_total (n : Nat) (hn : 0 < n) (row : List Int) (h : RowOk n row) :
    ∃ o, hnpRowGuessPre n row = .ok o := by
  obtain ⟨v0, v1, rest, rfl, hv⟩ := h
  unfold hnpRowGuessPre
  simp only [hn.ne', if_false]
  by_cases hd : v0 % (n : Int) = 0
  · simp [hd]
  · rw [if_neg hd]
    rcases hv with hv | hv
    · exact absurd (Int.emod_eq_zero_of_dvd hv) hd
    · obtain ⟨inv, hinv⟩ := invMod_of_coprime v0 n hn hv
      simp only [hinv]
      exact ⟨_, rfl⟩

/-- the value both bodies compute for a row `(u, v, …)` with `u` a unit and `v ≡ u·x`. -/
theorem guess_value (n : Nat) (u v x : Int) (inv : Nat) (hinv : u * inv ≡ 1 [ZMOD n])
    (hv : v ≡ u * x [ZMOD n]) : v * (inv : Int) % (n : Int) = x % (n : Int) := by
  have : v * inv ≡ x [ZMOD n] := by
    calc v * inv ≡ u * x * inv [ZMOD n] := hv.mul_right _
      _ = x * (u * inv) := by ring
      _ ≡ x * 1 [ZMOD n] := hinv.mul_left _
      _ = x := by ring
  exact this

theorem hnpRowGuess_good (n : Nat) (hn : 1 < n) (u v x : Int) (rest : List Int)
    (hu : Int.gcd u n = 1) (hv : v ≡ u * x [ZMOD n]) :
    hnpRowGuess n (u :: v :: rest) = .ok (some (x % (n : Int)).toNat) := by
  have hnd : ¬ u % (n : Int) = 0 := by
    intro h0
    have hdvd : (n : Int) ∣ u := Int.dvd_of_emod_eq_zero h0
    have : (n : Int) ∣ ((Int.gcd u n : Nat) : Int) := Int.dvd_coe_gcd hdvd (dvd_refl _)
    rw [hu] at this
    have := Int.natCast_dvd_natCast.mp this
    have := Nat.le_of_dvd (by omega) this
    omega
  obtain ⟨inv, hinv⟩ := invMod_of_coprime u n (by omega) hu
  have hspec := (invMod_ok_modEq u n inv hinv).1
  unfold hnpRowGuess
  simp only [show n ≠ 0 by omega, if_false, if_neg hnd, hinv]
  rw [guess_value n u v x inv hspec hv]

theorem hnpRowGuessPre_good (n : Nat) (hn : 1 < n) (u v x : Int) (rest : List Int)
    (hu : Int.gcd u n = 1) (hv : v ≡ u * x [ZMOD n]) :
    hnpRowGuessPre n (u :: v :: rest) = .ok (some (x % (n : Int)).toNat) := by
  have hnd : ¬ u % (n : Int) = 0 := by
    intro h0
    have hdvd : (n : Int) ∣ u := Int.dvd_of_emod_eq_zero h0
    have : (n : Int) ∣ ((Int.gcd u n : Nat) : Int) := Int.dvd_coe_gcd hdvd (dvd_refl _)
    rw [hu] at this
    have := Int.natCast_dvd_natCast.mp this
    have := Nat.le_of_dvd (by omega) this
    omega
  obtain ⟨inv, hinv⟩ := invMod_of_coprime u n (by omega) hu
  have hspec := (invMod_ok_modEq u n inv hinv).1
  unfold hnpRowGuessPre
  simp only [show n ≠ 0 by omega, if_false, if_neg hnd, hinv]
  rw [guess_value n u v x inv hspec hv]

/-- for a prime modulus every row with two entries is harmless. -/
theorem rowOk_of_prime (p : Nat) (hp : p.Prime) (row : List Int) (h : 2 ≤ row.length) :
    RowOk p row := by
  match row, h with
  | v0 :: v1 :: rest, _ =>
    refine ⟨v0, v1, rest, rfl, ?_⟩
    have hd : Int.gcd v0 p ∣ p := by
      have := Int.gcd_dvd_right v0 (p : Int)
      exact Int.natCast_dvd_natCast.mp this
    rcases (Nat.dvd_prime hp).mp hd with h1 | h1
    · exact Or.inr h1
    · left
      have := Int.gcd_dvd_left v0 (p : Int)
      rwa [h1] at this

/-- a guess produced by a row really comes from that row's first two entries: soundness of the
arithmetic (`g·v₀ ≡ v₁ (mod n)`), for every row. -/
theorem hnpRowGuess_sound (n : Nat) (row : List Int) (g : Nat)
    (h : hnpRowGuess n row = .ok (some g)) :
    ∃ v0 v1 rest, row = v0 :: v1 :: rest ∧ (g : Int) * v0 ≡ v1 [ZMOD n] ∧ g < n := by
  unfold hnpRowGuess at h
  split at h
  · cases h
  rename_i v0 rest
  split at h
  · cases h
  rename_i hn0
  split at h
  · cases h
  split at h
  · cases h
  rename_i inv hinv
  split at h
  · cases h
  rename_i v1 rest'
  injection h with h; injection h with h
  obtain ⟨hspec, hnpos, _⟩ := invMod_ok_modEq v0 n inv hinv
  have hnz : (n : Int) ≠ 0 := by exact_mod_cast hn0
  have hg : (g : Int) = v1 * inv % (n : Int) := by
    rw [← h, Int.toNat_of_nonneg (Int.emod_nonneg _ hnz)]
  refine ⟨v0, v1, rest', rfl, ?_, ?_⟩
  · rw [hg]
    calc v1 * inv % (n : Int) * v0 ≡ v1 * inv * v0 [ZMOD n] := (Int.mod_modEq _ _).mul_right _
      _ = v1 * (v0 * inv) := by ring
      _ ≡ v1 * 1 [ZMOD n] := hspec.mul_left _
      _ = v1 := by ring
  · have := Int.emod_lt_of_pos (v1 * inv) (by exact_mod_cast hnpos : (0 : Int) < n)
    rw [← hg] at this
    exact_mod_cast this


/-- the hidden-number relation, entrywise: `mult·(a_i + b_i·x) = s + e_i + c_i·n`.
MSB: `mult = 1, s = 0, e = k`; common prefix: `mult = 1`, `s` the common part, `e_i` the
differing low parts; generalized: `mult` the secret multiplier. -/
def HnpRel (a b : List Int) (x : Int) (n : Int) (mult s : Int) (es cs : List Int) : Prop :=
  b.length = a.length ∧ es.length = a.length ∧ cs.length = a.length ∧
  ∀ i, i < a.length → mult * (ent a i + ent b i * x) = s + ent es i + ent cs i * n

/-- coefficients of rows `2, 3, …` for the prefix shapes: `-(s + c₀n)` for the all-`w` row,
`-(c_i - c₀)` for the diagonal rows. -/
def prefixCoeffs (s n : Int) (cs : List Int) : List Int :=
  (List.range cs.length).map (fun i => if i = 0 then -(s + ent cs 0 * n) else -(ent cs i - ent cs 0))

theorem map_range_congr {m : Nat} {f g : Nat → Int} (h : ∀ i, i < m → f i = g i) :
    (List.range m).map f = (List.range m).map g :=
  List.map_congr_left (fun i hi => h i (List.mem_range.mp hi))

/-- **pre, MSB.** -/
theorem hnp_pre_msb_rows (a b ks cs : List Int) (x w n : Int) (h : HnpRel a b x n 1 0 ks cs) :
    lincomb (a.length + 2) (1 :: x :: cs.map (fun c => -c)) (hnpRows a b w n (n * w + 1) false) =
      (n * w + 1) :: x :: ks.map (· * w) := by
  obtain ⟨hb, hk, hc, hrel⟩ := h
  rw [map_eq_map_range cs, hc, lincomb_hnpRows_msb a b hb, map_eq_map_range ks, hk, one_mul]
  congr 2
  apply map_range_congr
  intro i hi
  have := hrel i hi
  show (1 * ent a i + x * ent b i + -ent cs i * n) * w = ent ks i * w
  congr 1
  linarith

/-- **pre, prefix shapes** (`u = n·w+1`, `mult = 1` for COMMON_PREFIX; `u = 1` for GENERALIZED). -/
theorem hnp_pre_pfx_rows (a b es cs : List Int) (x w n u mult s : Int)
    (h : HnpRel a b x n mult s es cs) :
    lincomb (a.length + 2) (mult :: mult * x :: prefixCoeffs s n cs) (hnpRows a b w n u true) =
      mult * u :: mult * x :: es.map (· * w) := by
  obtain ⟨hb, hk, hc, hrel⟩ := h
  unfold prefixCoeffs
  rw [hc, lincomb_hnpRows_pfx a b hb w n u mult (mult * x) (-(s + ent cs 0 * n))
    (fun i => -(ent cs i - ent cs 0)), map_eq_map_range es, hk]
  congr 2
  apply map_range_congr
  intro i hi
  have h0 := hrel i hi
  show (mult * ent a i + mult * x * ent b i + -(s + ent cs 0 * n) +
      (if i = 0 then 0 else -(ent cs i - ent cs 0) * n)) * w = ent es i * w
  congr 1
  by_cases hi0 : i = 0
  · subst hi0; rw [if_pos rfl]; linarith
  · rw [if_neg hi0]; linarith


/-! ### COMMON_POSTFIX → COMMON_PREFIX -/

theorem ent_scaleMod (wi : Int) (n : Nat) (l : List Int) (i : Nat) :
    ent (scaleMod wi n l) i = ent l i * wi % (n : Int) := by
  unfold scaleMod
  rw [ent_map l (fun v => v * wi % (n : Int)) (by simp)]

/-- the `c`-list of the reduced problem: `t·h_i + wi·c_i − ⌊a_i·wi/n⌋ − ⌊b_i·wi/n⌋·x` with
`t = (wi·w − 1)/n`. -/
def postfixCs (a b hs cs : List Int) (x w wi : Int) (n : Nat) : List Int :=
  (List.range a.length).map (fun i =>
    (wi * w - 1) / (n : Int) * ent hs i + wi * ent cs i - ent a i * wi / (n : Int) -
      ent b i * wi / (n : Int) * x)

/-- **postfix reduction.** If `k_i = a_i + b_i x − c_i n` and all `k_i = low + w·h_i` share the
suffix `low`, then after multiplying `a`, `b` by `wi = w⁻¹ mod n` (what `GetLattice` does) the
values are `wi·low + h_i` modulo `n`: a common-prefix instance with common part `wi·low` and
small parts `h_i`. -/
theorem postfix_reduction_rel (a b ks cs hs : List Int) (x w low : Int) (n wi : Nat)
    (h : HnpRel a b x n 1 0 ks cs) (hh : hs.length = a.length)
    (hsuf : ∀ i, i < a.length → ent ks i = low + w * ent hs i)
    (hwi : w * wi ≡ 1 [ZMOD n]) :
    HnpRel (scaleMod wi n a) (scaleMod wi n b) x n 1 ((wi : Int) * low) hs
      (postfixCs a b hs cs x w wi n) := by
  obtain ⟨hb, hk, hc, hrel⟩ := h
  have hla : (scaleMod wi n a).length = a.length := by simp [scaleMod]
  refine ⟨by simp [scaleMod, hb], by rw [hla, hh], by simp [postfixCs, scaleMod], ?_⟩
  intro i hi
  rw [hla] at hi
  have h0 := hrel i hi
  have h1 := hsuf i hi
  rw [ent_scaleMod, ent_scaleMod]
  have hpc : ent (postfixCs a b hs cs x w wi n) i =
      ((wi : Int) * w - 1) / (n : Int) * ent hs i + wi * ent cs i - ent a i * wi / (n : Int) -
        ent b i * wi / (n : Int) * x := by
    unfold postfixCs
    rw [ent_map_range, if_pos hi]
  rw [hpc]
  have hdvd : (n : Int) ∣ (wi : Int) * w - 1 := by
    have := hwi.symm.dvd
    rwa [mul_comm] at this
  have ht := Int.ediv_mul_cancel hdvd
  have ea := Int.emod_def (ent a i * wi) n
  have eb := Int.emod_def (ent b i * wi) n
  rw [ea, eb]
  have key : (wi : Int) * (ent a i + ent b i * x) =
      wi * low + (wi * w) * ent hs i + wi * ent cs i * n := by
    have : ent a i + ent b i * x = low + w * ent hs i + ent cs i * n := by linarith
    rw [this]; ring
  have hw2 : (wi : Int) * w = ((wi : Int) * w - 1) / (n : Int) * n + 1 := by linarith
  rw [hw2] at key
  linarith

/-- entry bound of the planted vector: small parts `|e_i| < B` give entries `|e_i·w| < B·w`. -/
theorem target_bound (es : List Int) (w B : Int) (hw : 0 < w) (hB : ∀ e ∈ es, |e| < B) :
    ∀ v ∈ es.map (· * w), |v| < B * w := by
  intro v hv
  obtain ⟨e, he, rfl⟩ := List.mem_map.mp hv
  rw [abs_mul, abs_of_pos hw]
  exact mul_lt_mul_of_pos_right (hB e he) hw


/-! ### the statements at the level of `getLattice` / `hiddenNumberProblem` -/

theorem getLattice_some (a b : List Int) (w : Int) (n : Nat) (bias : Bias) (fb : Nat)
    (hb : b.length = a.length) :
    getLattice a b (some w) n bias fb = getLatticeW a b w n bias := by
  unfold getLattice
  rw [if_neg (by omega)]
  rfl

theorem hnp_pre_msb (a b ks cs : List Int) (x w : Int) (n fb : Nat)
    (h : HnpRel a b x n 1 0 ks cs) :
    ∃ rows, getLattice a b (some w) n .msb fb = .ok rows ∧
      lincomb (a.length + 2) (1 :: x :: cs.map (fun c => -c)) rows =
        ((n : Int) * w + 1) :: x :: ks.map (· * w) :=
  ⟨_, getLattice_some a b w n .msb fb h.1, hnp_pre_msb_rows a b ks cs x w n h⟩

theorem hnp_pre_prefix (a b es cs : List Int) (x w s : Int) (n fb : Nat)
    (h : HnpRel a b x n 1 s es cs) :
    ∃ rows, getLattice a b (some w) n .commonPrefix fb = .ok rows ∧
      lincomb (a.length + 2) (1 :: x :: prefixCoeffs s n cs) rows =
        ((n : Int) * w + 1) :: x :: es.map (· * w) := by
  refine ⟨_, getLattice_some a b w n .commonPrefix fb h.1, ?_⟩
  have := hnp_pre_pfx_rows a b es cs x w n ((n : Int) * w + 1) 1 s h
  simpa using this

theorem hnp_pre_generalized (a b es cs : List Int) (x w mult s : Int) (n fb : Nat)
    (h : HnpRel a b x n mult s es cs) :
    ∃ rows, getLattice a b (some w) n .generalized fb = .ok rows ∧
      lincomb (a.length + 2) (mult :: mult * x :: prefixCoeffs s n cs) rows =
        mult :: mult * x :: es.map (· * w) := by
  refine ⟨_, getLattice_some a b w n .generalized fb h.1, ?_⟩
  have := hnp_pre_pfx_rows a b es cs x w n 1 mult s h
  simpa using this

theorem hnp_pre_postfix (a b ks cs hs : List Int) (x w low : Int) (n fb : Nat) (hn : 0 < n)
    (hw : Int.gcd w n = 1)
    (h : HnpRel a b x n 1 0 ks cs) (hh : hs.length = a.length)
    (hsuf : ∀ i, i < a.length → ent ks i = low + w * ent hs i) :
    ∃ (wi : Nat) (rows : List (List Int)), invMod w n = .ok wi ∧
      getLattice a b (some w) n .commonPostfix fb = .ok rows ∧
      lincomb (a.length + 2)
        (1 :: x :: prefixCoeffs ((wi : Int) * low) n (postfixCs a b hs cs x w wi n)) rows =
        ((n : Int) * w + 1) :: x :: hs.map (· * w) := by
  obtain ⟨wi, hwi⟩ := invMod_of_coprime w n hn hw
  have hspec := (invMod_ok_modEq w n wi hwi).1
  have hrel := postfix_reduction_rel a b ks cs hs x w low n wi h hh hsuf hspec
  refine ⟨wi, hnpRows (scaleMod wi n a) (scaleMod wi n b) w n ((n : Int) * w + 1) true, hwi, ?_, ?_⟩
  · rw [getLattice_some a b w n .commonPostfix fb h.1]
    unfold getLatticeW
    simp only [hwi]
  · have := hnp_pre_pfx_rows _ _ hs _ x w n ((n : Int) * w + 1) 1 _ hrel
    have hla : (scaleMod wi n a).length = a.length := by simp [scaleMod]
    rw [hla] at this
    simpa using this

/-- **post.** Whatever else the reduced basis contains (as long as no row makes `gmpy.invert`
raise — automatic for prime `n`, see `rowOk_of_prime`), a row `(u, v, …)` with `u` a unit and
`v ≡ u·x (mod n)` makes `HiddenNumberProblem` report `x mod n`. -/
theorem hnp_post_general (a b : List Int) (w : Option Int) (n : Nat) (bias : Bias) (fb : Nat)
    (basis lat : List (List Int)) (x : Int) (hn : 1 < n)
    (hlat : getLattice a b w n bias fb = .ok lat)
    (hrows : ∀ r ∈ basis, RowOk n r)
    (hgood : ∃ u v rest, (u :: v :: rest) ∈ basis ∧ Int.gcd u n = 1 ∧ v ≡ u * x [ZMOD n]) :
    ∃ gs, hiddenNumberProblem a b w n bias fb basis = .ok gs ∧ (x % (n : Int)).toNat ∈ gs := by
  unfold hiddenNumberProblem
  rw [hlat]
  obtain ⟨gs, hgs, hmem⟩ := hnpGuessLoop_ok (hnpRowGuess n) basis []
    (fun r hr => hnpRowGuess_total n (by omega) r (hrows r hr))
  refine ⟨gs, hgs, ?_⟩
  obtain ⟨u, v, rest, hin, hu, hv⟩ := hgood
  exact (hmem _).mpr (Or.inr ⟨_, hin, hnpRowGuess_good n hn u v x rest hu hv⟩)

/-- every reported guess is `v₁·v₀⁻¹ mod n` of some basis row (nothing else is ever reported). -/
theorem hnp_guess_origin (a b : List Int) (w : Option Int) (n : Nat) (bias : Bias) (fb : Nat)
    (basis : List (List Int)) (gs : List Nat)
    (h : hiddenNumberProblem a b w n bias fb basis = .ok gs) :
    ∀ g ∈ gs, ∃ v0 v1 rest, (v0 :: v1 :: rest) ∈ basis ∧ (g : Int) * v0 ≡ v1 [ZMOD n] ∧ g < n := by
  unfold hiddenNumberProblem at h
  split at h
  · cases h
  -- no row raised, so the characterisation applies
  have hall : ∀ r ∈ basis, ∃ o, hnpRowGuess n r = .ok o := by
    intro r hr
    cases hs : hnpRowGuess n r with
    | ok o => exact ⟨o, rfl⟩
    | error e =>
      exfalso
      -- an erroring row would make the loop fail
      have : ∀ (l : List (List Int)) (acc : List Nat), r ∈ l →
          (∀ gs', hnpGuessLoop (hnpRowGuess n) l acc ≠ .ok gs') := by
        intro l
        induction l with
        | nil => intro _ hr; cases hr
        | cons r' rest ih =>
          intro acc hr gs' hk
          unfold hnpGuessLoop at hk
          rcases List.mem_cons.mp hr with rfl | hr'
          · rw [hs] at hk; cases hk
          · split at hk
            · cases hk
            · exact ih _ hr' _ hk
            · exact ih _ hr' _ hk
      exact this basis [] hr gs h
  obtain ⟨gs', hgs', hmem⟩ := hnpGuessLoop_ok (hnpRowGuess n) basis [] hall
  rw [h] at hgs'
  injection hgs' with hgs'
  subst hgs'
  intro g hg
  rcases (hmem g).mp hg with h0 | ⟨r, hr, hs⟩
  · cases h0
  · obtain ⟨v0, v1, rest, rfl, hc, hlt⟩ := hnpRowGuess_sound n r g hs
    exact ⟨v0, v1, rest, hr, hc, hlt⟩


/-! ### decision table of `_HiddenNumberProblemSubsets` -/

theorem numConst_pos (ss k : Nat) (hss : 0 < ss) (hk : 0 < k) :
    numConst ss k = .ok ((ss - 1) / k + 1) := by
  unfold numConst; rw [if_neg (by omega), if_neg (by omega)]

/-- **decision table** for one `CONSTANT_FACTORY` entry with positive `sample_size` and
`sliding_window_size`, every length and every flag set. -/
theorem entryShapes_table (ss ms sw len : Nat) (f : SearchFlags) (hss : 0 < ss) (hsw : 0 < sw) :
    entryShapes ss ms sw len f =
      if sw < len then
        ⟨(if f.sliding then (List.range (len - sw + 1)).map
              (fun i => (⟨i, sw, false, (ss - 1) / sw + 1⟩ : HnpShape)) else []) ++
          (if f.single ∨ ¬ f.sliding then
              [(⟨0, min len (2 * ss), false, (ss - 1) / min len (2 * ss) + 1⟩ : HnpShape)] else []),
          none⟩
      else if ms ≤ len then
        (if len = 0 then ⟨[], some .zeroDivision⟩
         else ⟨[⟨0, len, false, (ss - 1) / len + 1⟩], none⟩)
      else if len + 1 = ms ∧ f.includeKey then ⟨[⟨0, len, true, (ss - 1) / (len + 1) + 1⟩], none⟩
      else ⟨[], none⟩ := by
  unfold entryShapes
  by_cases h1 : sw < len
  · have hmin : 0 < min len (2 * ss) := by omega
    rw [if_pos h1, if_pos h1]
    unfold slidingShapes oneShape PyGen.andThen
    simp only [Bool.false_eq_true, if_false]
    rw [numConst_pos ss sw hss hsw, numConst_pos ss _ hss hmin]
    cases hs : f.sliding <;> cases hg : f.single <;> simp
  · rw [if_neg (by omega), if_neg h1]
    by_cases h2 : ms ≤ len
    · rw [if_pos h2, if_pos h2]
      unfold oneShape
      simp only [Bool.false_eq_true, if_false]
      by_cases h0 : len = 0
      · subst h0; simp [numConst]
      · rw [numConst_pos ss len hss (by omega), if_neg h0]
    · rw [if_neg (by omega), if_neg h2]
      by_cases h3 : len + 1 = ms
      · rw [if_pos h3]
        cases hk : f.includeKey
        · simp
        · unfold oneShape
          simp only [if_true]
          rw [numConst_pos ss (len + 1) hss (by omega)]
          simp [h3]
      · rw [if_neg h3, if_neg (by simp [h3])]

/-- no exception for metadata with positive fields (true of every shipped entry). -/
theorem entryShapes_err_none (ss ms sw len : Nat) (f : SearchFlags) (hss : 0 < ss) (hsw : 0 < sw)
    (hms : 0 < ms) : (entryShapes ss ms sw len f).err = none := by
  rw [entryShapes_table ss ms sw len f hss hsw]
  split
  · rfl
  · split
    · rw [if_neg (by omega)]
    · split <;> rfl

/-- with SLIDING and more signatures than the window, every signature lies in some window of
exactly `sliding_window_size` consecutive signatures. -/
theorem sliding_windows_cover (ss ms sw len : Nat) (f : SearchFlags) (hss : 0 < ss) (hsw : 0 < sw)
    (hlen : sw < len) (hf : f.sliding = true) (i : Nat) (hi : i < len) :
    ∃ s ∈ (entryShapes ss ms sw len f).yields, s.size = sw ∧ s.start ≤ i ∧ i < s.start + s.size ∧
      s.start + s.size ≤ len := by
  rw [entryShapes_table ss ms sw len f hss hsw, if_pos hlen]
  simp only [hf, if_true]
  refine ⟨⟨min i (len - sw), sw, false, (ss - 1) / sw + 1⟩, ?_, rfl, ?_, ?_, ?_⟩
  · apply List.mem_append_left
    apply List.mem_map.mpr
    exact ⟨min i (len - sw), List.mem_range.mpr (by omega), rfl⟩
  · simp only; omega
  · simp only; omega
  · simp only; omega

/-- every yielded window stays inside the signature list and uses at least one constant. -/
theorem entryShapes_inside (ss ms sw len : Nat) (f : SearchFlags) (hss : 0 < ss) (hsw : 0 < sw) :
    ∀ s ∈ (entryShapes ss ms sw len f).yields, s.start + s.size ≤ len ∧ 0 < s.numConstants := by
  rw [entryShapes_table ss ms sw len f hss hsw]
  intro s hs
  split at hs
  · rcases List.mem_append.mp hs with h | h
    · split at h
      · obtain ⟨i, hi, rfl⟩ := List.mem_map.mp h
        have := List.mem_range.mp hi
        exact ⟨by simp only; omega, Nat.succ_pos _⟩
      · cases h
    · split at h
      · simp only [List.mem_singleton] at h
        subst h; exact ⟨by simp only; omega, Nat.succ_pos _⟩
      · cases h
  · split at hs
    · split at hs
      · cases hs
      · simp only [List.mem_singleton] at hs
        subst hs; exact ⟨by simp only; omega, Nat.succ_pos _⟩
    · split at hs
      · simp only [List.mem_singleton] at hs
        subst hs; exact ⟨by simp only; omega, Nat.succ_pos _⟩
      · cases hs


/-! ### HiddenNumberProblemWithPrecomputation -/

/-- flattened first-row entries `(a_i·c_j − d_j) mod n`, index `t = i·len(constants) + j`. -/
def precompAs (a : List Int) (n : Nat) (consts : List (Int × Int)) : List Int :=
  a.flatMap (precompA n consts)

/-- flattened second-row entries `(b_i·c_j) mod n`. -/
def precompBs (a b : List Int) (n : Nat) (consts : List (Int × Int)) : List Int :=
  (b.take a.length).flatMap (precompB n consts)

theorem flatMap_nil_fun (l : List Int) : l.flatMap (fun _ => ([] : List Int)) = [] := by
  induction l with
  | nil => rfl
  | cons _ _ ih => simp [List.flatMap_cons]

/-- the precomputation lattice is the MSB-shaped lattice of the flattened lists. -/
theorem precompLattice_eq (a b : List Int) (n : Nat) (consts : List (Int × Int)) (w : Int)
    (hn : 0 < n) (hb : a.length ≤ b.length) :
    precompLattice a b n consts w =
      .ok (hnpRows (precompAs a n consts) (precompBs a b n consts) w n ((n : Int) * w + 1) false) := by
  unfold precompLattice precompAs precompBs
  by_cases h0 : a.length = 0 ∨ consts.length = 0
  · rw [if_pos h0]
    rcases h0 with h0 | h0
    · have : a = [] := List.length_eq_zero_iff.mp h0
      subst this
      simp [hnpRows]
    · have : consts = [] := List.length_eq_zero_iff.mp h0
      subst this
      simp [precompA, precompB, hnpRows]
  · rw [if_neg h0, if_neg (by omega), if_neg (by omega)]

theorem precompAs_length (a : List Int) (n : Nat) (consts : List (Int × Int)) :
    (precompAs a n consts).length = a.length * consts.length := by
  unfold precompAs
  induction a with
  | nil => simp
  | cons x xs ih => simp [List.flatMap_cons, precompA, ih]; ring

theorem precompBs_length (a b : List Int) (n : Nat) (consts : List (Int × Int))
    (hb : a.length ≤ b.length) :
    (precompBs a b n consts).length = a.length * consts.length := by
  unfold precompBs
  have : (b.take a.length).length = a.length := by simp; omega
  generalize b.take a.length = b' at this
  rw [← this]
  induction b' with
  | nil => simp
  | cons x xs ih => simp [List.flatMap_cons, precompB]; ring

/-- **pre (precomputation).** `1·row₀ + x·row₁ − Σ c_t·row_{t+2}` of the lattice built by
`HiddenNumberProblemWithPrecomputation` equals `(n·w+1, x, k_t·w, …)` where
`k_t = A_t + B_t·x − c_t·n`. -/
theorem precomp_pre_rows (a b : List Int) (n : Nat) (consts : List (Int × Int)) (w x : Int)
    (ks cs : List Int) (hn : 0 < n) (hb : a.length ≤ b.length)
    (h : HnpRel (precompAs a n consts) (precompBs a b n consts) x n 1 0 ks cs) :
    ∃ rows, precompLattice a b n consts w = .ok rows ∧
      lincomb (a.length * consts.length + 2) (1 :: x :: cs.map (fun c => -c)) rows =
        ((n : Int) * w + 1) :: x :: ks.map (· * w) := by
  refine ⟨_, precompLattice_eq a b n consts w hn hb, ?_⟩
  have := hnp_pre_msb_rows _ _ ks cs x w n h
  rwa [precompAs_length] at this

/-- the quantity whose smallness the constants encode: entry `t = (i, j)` of the two rows
combines to `c_j·(a_i + b_i·x) − d_j` modulo `n`. -/
theorem precomp_entry_modEq (n : Nat) (ai bi c d x : Int) :
    (ai * c - d) % (n : Int) + bi * c % (n : Int) * x ≡ c * (ai + bi * x) - d [ZMOD n] := by
  have h1 : (ai * c - d) % (n : Int) ≡ ai * c - d [ZMOD n] := Int.mod_modEq _ _
  have h2 : bi * c % (n : Int) ≡ bi * c [ZMOD n] := Int.mod_modEq _ _
  calc (ai * c - d) % (n : Int) + bi * c % (n : Int) * x
      ≡ (ai * c - d) + bi * c * x [ZMOD n] := h1.add (h2.mul_right x)
    _ = c * (ai + bi * x) - d := by ring

theorem zip_flatMap_aligned (L : Nat) (f g : Int → List Int)
    (hf : ∀ v, (f v).length = L) (hg : ∀ v, (g v).length = L) :
    ∀ (a b : List Int), a.length = b.length →
      (a.flatMap f).zip (b.flatMap g) = (a.zip b).flatMap (fun p => (f p.1).zip (g p.2))
  | [], [], _ => rfl
  | x :: xs, y :: ys, h => by
    simp only [List.flatMap_cons, List.zip_cons_cons]
    rw [List.zip_append (by rw [hf, hg]),
      zip_flatMap_aligned L f g hf hg xs ys (by simpa using h)]
  | [], _ :: _, h => by simp at h
  | _ :: _, [], h => by simp at h

theorem zip_take_left : ∀ (a b : List Int), a.zip (b.take a.length) = a.zip b
  | [], _ => by simp
  | _ :: _, [] => by simp
  | x :: xs, y :: ys => by simp [zip_take_left xs ys]

/-- every aligned pair `(A_t, B_t)` of the flattened rows comes from one signature `(a_i, b_i)`
and one constant pair `(c, d)`, and `A_t + B_t·x ≡ c·(a_i + b_i·x) − d (mod n)`. -/
theorem precomp_pairs (a b : List Int) (n : Nat) (consts : List (Int × Int)) (x : Int)
    (hb : a.length ≤ b.length) :
    ∀ p ∈ (precompAs a n consts).zip (precompBs a b n consts),
      ∃ ai bi c d, (ai, bi) ∈ a.zip b ∧ (c, d) ∈ consts ∧
        p.1 + p.2 * x ≡ c * (ai + bi * x) - d [ZMOD n] := by
  intro p hp
  unfold precompAs precompBs at hp
  rw [zip_flatMap_aligned consts.length _ _ (by simp [precompA]) (by simp [precompB]) a
    (b.take a.length) (by simp; omega)] at hp
  obtain ⟨q, hq, hp⟩ := List.mem_flatMap.mp hp
  unfold precompA precompB at hp
  rw [List.zip_map', List.mem_map] at hp
  obtain ⟨cd, hcd, rfl⟩ := hp
  refine ⟨q.1, q.2, cd.1, cd.2, ?_, hcd, precomp_entry_modEq n q.1 q.2 cd.1 cd.2 x⟩
  have : a.zip (b.take a.length) = a.zip b := zip_take_left a b
  rw [this] at hq
  exact hq

/-- result of one precomputation call when nothing raises. -/
theorem precomp_ok (a b : List Int) (n : Nat) (consts : List (Int × Int)) (w : Int)
    (basis : List (List Int)) (hn : 0 < n) (hb : a.length ≤ b.length)
    (hrows : ∀ r ∈ basis, RowOk n r) :
    ∃ gs, hiddenNumberProblemWithPrecomputation a b n consts w basis = .ok gs ∧
      ∀ g, g ∈ gs ↔ ∃ r ∈ basis, hnpRowGuessPre n r = .ok (some g) := by
  unfold hiddenNumberProblemWithPrecomputation
  rw [precompLattice_eq a b n consts w hn hb]
  obtain ⟨gs, hgs, hmem⟩ := hnpGuessLoop_ok (hnpRowGuessPre n) basis []
    (fun r hr => hnpRowGuessPre_total n hn r (hrows r hr))
  refine ⟨gs, hgs, fun g => ?_⟩
  rw [hmem g]; simp

/-- **post (precomputation).** -/
theorem precomp_post_general (a b : List Int) (n : Nat) (consts : List (Int × Int)) (w : Int)
    (basis : List (List Int)) (x : Int) (hn : 1 < n) (hb : a.length ≤ b.length)
    (hrows : ∀ r ∈ basis, RowOk n r)
    (hgood : ∃ u v rest, (u :: v :: rest) ∈ basis ∧ Int.gcd u n = 1 ∧ v ≡ u * x [ZMOD n]) :
    ∃ gs, hiddenNumberProblemWithPrecomputation a b n consts w basis = .ok gs ∧
      (x % (n : Int)).toNat ∈ gs := by
  obtain ⟨gs, hgs, hmem⟩ := precomp_ok a b n consts w basis (by omega) hb hrows
  refine ⟨gs, hgs, (hmem _).mpr ?_⟩
  obtain ⟨u, v, rest, hin, hu, hv⟩ := hgood
  exact ⟨_, hin, hnpRowGuessPre_good n hn u v x rest hu hv⟩


/-! ### HiddenNumberProblemForCurve -/

/-- metadata with positive fields (every shipped entry; see `Props/C08.lean`). -/
def MetaOk (m : LcgMeta) : Prop := 0 < m.sampleSize ∧ 0 < m.slidingWindowSize ∧ 0 < m.minSignatures

theorem applyShape_lengths (a b : List Int) (m : LcgMeta) (s : HnpShape) (h : a.length = b.length) :
    (applyShape a b m s).a.length = (applyShape a b m s).b.length := by
  unfold applyShape
  simp only [List.length_append, List.length_take, List.length_drop, h]
  cases s.withKey <;> simp

theorem subsetsLoop_ok (a b : List Int) (curve : Nat) (lcg : Option Nat) (f : SearchFlags)
    (h : a.length = b.length) : ∀ (factory : List LcgMeta),
    (∀ m ∈ factory, entrySelected m curve lcg = true → MetaOk m) →
    (subsetsLoop a b curve lcg f factory).err = none ∧
      ∀ s ∈ (subsetsLoop a b curve lcg f factory).yields, s.a.length = s.b.length
  | [], _ => by simp [subsetsLoop]
  | m :: rest, hm => by
    have ih := subsetsLoop_ok a b curve lcg f h rest (fun m' hm' => hm m' (List.mem_cons_of_mem _ hm'))
    unfold subsetsLoop
    by_cases hs : entrySelected m curve lcg = true
    · rw [if_pos hs]
      obtain ⟨h1, h2, h3⟩ := hm m (List.mem_cons_self ..) hs
      have he := entryShapes_err_none m.sampleSize m.minSignatures m.slidingWindowSize a.length f h1 h2 h3
      unfold PyGen.andThen PyGen.map
      simp only [he]
      refine ⟨ih.1, ?_⟩
      intro s hs'
      rcases List.mem_append.mp hs' with h' | h'
      · obtain ⟨sh, _, rfl⟩ := List.mem_map.mp h'
        exact applyShape_lengths a b m sh h
      · exact ih.2 s h'
    · rw [if_neg hs]; exact ih

theorem forCurveLoop_ok (n : Nat) (oracle : Nat → List (List Int)) (hn : 0 < n) :
    ∀ (subs : List HnpSubset) (i : Nat) (acc : List Nat),
    (∀ s ∈ subs, s.a.length ≤ s.b.length) →
    (∀ k, k < subs.length → ∀ r ∈ oracle (i + k), RowOk n r) →
    ∃ gs, forCurveLoop n oracle subs i acc = .ok gs ∧
      ∀ g, g ∈ gs ↔ g ∈ acc ∨ ∃ k, k < subs.length ∧ ∃ r ∈ oracle (i + k),
        hnpRowGuessPre n r = .ok (some g)
  | [], i, acc, _, _ => ⟨acc, rfl, by simp⟩
  | s :: rest, i, acc, hl, hr => by
    obtain ⟨g0, hg0, hm0⟩ := precomp_ok s.a s.b n s.constants s.w (oracle i) hn
      (hl s (List.mem_cons_self ..)) (by simpa using hr 0 (by simp))
    obtain ⟨gs, hgs, hmem⟩ := forCurveLoop_ok n oracle hn rest (i + 1) (acc ++ g0)
      (fun s' hs' => hl s' (List.mem_cons_of_mem _ hs'))
      (fun k hk r hrr => hr (k + 1) (by simp; omega) r (by rwa [show i + (k + 1) = i + 1 + k by omega]))
    unfold forCurveLoop
    rw [hg0]
    refine ⟨gs, hgs, fun g => ?_⟩
    rw [hmem g, List.mem_append, hm0 g]
    constructor
    · rintro ((h1 | ⟨r, hr1, hr2⟩) | ⟨k, hk, r, hr1, hr2⟩)
      · exact Or.inl h1
      · exact Or.inr ⟨0, by simp, r, by simpa using hr1, hr2⟩
      · exact Or.inr ⟨k + 1, by simp; omega, r, by rwa [show i + (k + 1) = i + 1 + k by omega], hr2⟩
    · rintro (h1 | ⟨k, hk, r, hr1, hr2⟩)
      · exact Or.inl (Or.inl h1)
      · cases k with
        | zero => exact Or.inl (Or.inr ⟨r, by simpa using hr1, hr2⟩)
        | succ k =>
          exact Or.inr ⟨k, by simp at hk; omega, r, by rwa [show i + 1 + k = i + (k + 1) by omega], hr2⟩

/-- **post (for curve).** If the `k`-th lattice reduction (for the `k`-th yielded subset)
returns a row `(u, u·x, …)` with `u` a unit, `x mod n` is among the guesses — whatever all the
other reductions returned (rows harmless: automatic for a prime group order). -/
theorem forCurve_post (a b : List Int) (curve n : Nat) (lcg : Option Nat) (f : SearchFlags)
    (factory : List LcgMeta) (oracle : Nat → List (List Int)) (x : Int)
    (hlen : a.length = b.length) (hf : f.none = false) (hn : 1 < n)
    (hmeta : ∀ m ∈ factory, entrySelected m curve lcg = true → MetaOk m)
    (hrows : ∀ k, ∀ r ∈ oracle k, RowOk n r)
    (hgood : ∃ k, k < (hnpSubsets a b curve lcg f factory).yields.length ∧
      ∃ u v rest, (u :: v :: rest) ∈ oracle k ∧ Int.gcd u n = 1 ∧ v ≡ u * x [ZMOD n]) :
    ∃ gs, hnpForCurve a b curve (some (some n)) lcg f factory oracle = .ok gs ∧
      (x % (n : Int)).toNat ∈ gs := by
  unfold hnpForCurve forCurveRun
  rw [if_neg (by omega)]
  have hsub : hnpSubsets a b curve lcg f factory = subsetsLoop a b curve lcg f factory := by
    unfold hnpSubsets; rw [hf]; rfl
  rw [hsub] at hgood ⊢
  obtain ⟨herr, hl⟩ := subsetsLoop_ok a b curve lcg f hlen factory hmeta
  obtain ⟨gs, hgs, hmem⟩ := forCurveLoop_ok n oracle (by omega)
    (subsetsLoop a b curve lcg f factory).yields 0 []
    (fun s hs => le_of_eq (hl s hs)) (fun k _ r hr => hrows _ r hr)
  simp only [hgs, herr]
  refine ⟨gs, rfl, (hmem _).mpr (Or.inr ?_)⟩
  obtain ⟨k, hk, u, v, rest, hin, hu, hv⟩ := hgood
  exact ⟨k, hk, _, by simpa using hin, hnpRowGuessPre_good n hn u v x rest hu hv⟩

/-- the control flow in front of the lattice work. -/
theorem forCurve_errors (a b : List Int) (curve : Nat) (lcg : Option Nat) (f : SearchFlags)
    (factory : List LcgMeta) (oracle : Nat → List (List Int)) :
    (a.length ≠ b.length → ∀ cn, hnpForCurve a b curve cn lcg f factory oracle = .error .valueError) ∧
    (a.length = b.length → hnpForCurve a b curve none lcg f factory oracle = .error .keyError) ∧
    (a.length = b.length → hnpForCurve a b curve (some none) lcg f factory oracle = .error .valueError) ∧
    (a.length = b.length → f.none = true → ∀ n,
      hnpForCurve a b curve (some (some n)) lcg f factory oracle = .error .valueError) := by
  refine ⟨fun h cn => ?_, fun h => ?_, fun h => ?_, fun h hf n => ?_⟩
  · unfold hnpForCurve; rw [if_pos h]
  · unfold hnpForCurve; rw [if_neg (by omega)]
  · unfold hnpForCurve; rw [if_neg (by omega)]
  · unfold hnpForCurve forCurveRun hnpSubsets; rw [if_neg (by omega)]; simp [hf, forCurveLoop]


/-- every yield asks for at most `⌊(ss−1)/ms⌋ + 1` constants when `ms ≤ sw` and `ms ≤ 2·ss`
(so the slice `constant_list[:num_constants]` is not cut short if that many are shipped). -/
theorem entryShapes_numConstants_le (ss ms sw len : Nat) (f : SearchFlags) (hss : 0 < ss)
    (hms : 0 < ms) (hsw : ms ≤ sw) (h2 : ms ≤ 2 * ss) :
    ∀ s ∈ (entryShapes ss ms sw len f).yields, s.numConstants ≤ (ss - 1) / ms + 1 := by
  have key : ∀ k, ms ≤ k → (ss - 1) / k + 1 ≤ (ss - 1) / ms + 1 := fun k hk =>
    Nat.succ_le_succ (Nat.div_le_div_left hk hms)
  rw [entryShapes_table ss ms sw len f hss (by omega)]
  intro s hs
  split at hs
  · rcases List.mem_append.mp hs with h | h
    · split at h
      · obtain ⟨i, _, rfl⟩ := List.mem_map.mp h
        exact key sw hsw
      · cases h
    · split at h
      · simp only [List.mem_singleton] at h
        subst h
        exact key _ (by omega)
      · cases h
  · split at hs
    · split at hs
      · cases hs
      · simp only [List.mem_singleton] at hs
        subst hs
        exact key len (by omega)
    · split at hs
      · rename_i hk
        simp only [List.mem_singleton] at hs
        subst hs
        exact key (len + 1) (by omega)
      · cases hs

end Paranoid.Hnp
