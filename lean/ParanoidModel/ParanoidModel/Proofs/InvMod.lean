/-
Proofs/InvMod.lean — correctness of `invMod` (model of `gmpy2.invert`): Bézout invariant of the
extended Euclid loop, sufficiency of the fuel `2·bitLength m + 2`, and the resulting spec.
-/
import ParanoidModel.Proofs.Pollard
import Mathlib.Tactic.Ring
import Mathlib.Tactic.Linarith
import Mathlib.Data.Int.GCD
import Mathlib.Data.Int.ModEq
import Mathlib.Data.Nat.GCD.Basic

namespace Paranoid.Hnp

theorem egcdAux_zero (r0 r1 s0 s1 : Int) : egcdAux 0 r0 r1 s0 s1 = (r0, s0) := rfl

theorem egcdAux_succ_zero (fuel : Nat) (r0 s0 s1 : Int) :
    egcdAux (fuel + 1) r0 0 s0 s1 = (r0, s0) := by
  simp [egcdAux]

theorem egcdAux_succ_step (fuel : Nat) (r0 r1 s0 s1 : Int) (h : r1 ≠ 0) :
    egcdAux (fuel + 1) r0 r1 s0 s1 = egcdAux fuel r1 (r0 % r1) s1 (s0 - r0 / r1 * s1) := by
  have : r0 - r0 / r1 * r1 = r0 % r1 := by rw [Int.emod_def]; ring
  simp [egcdAux, h, this]

/-- Bézout invariant: whatever the fuel, the result `(g, s)` satisfies `g ≡ s * a (mod m)`. -/
theorem egcdAux_modEq (a m : Int) : ∀ (fuel : Nat) (r0 r1 s0 s1 : Int),
    r0 ≡ s0 * a [ZMOD m] → r1 ≡ s1 * a [ZMOD m] →
    (egcdAux fuel r0 r1 s0 s1).1 ≡ (egcdAux fuel r0 r1 s0 s1).2 * a [ZMOD m]
  | 0, r0, r1, s0, s1, h0, _ => by rw [egcdAux_zero]; exact h0
  | fuel + 1, r0, r1, s0, s1, h0, h1 => by
    by_cases h : r1 = 0
    · subst h; rw [egcdAux_succ_zero]; exact h0
    · rw [egcdAux_succ_step _ _ _ _ _ h]
      apply egcdAux_modEq a m fuel _ _ _ _ h1
      have : r0 % r1 = r0 - r0 / r1 * r1 := by rw [Int.emod_def]; ring
      rw [this]
      have h2 := (h1.mul_left (r0 / r1))
      have := h0.sub h2
      calc r0 - r0 / r1 * r1 ≡ s0 * a - r0 / r1 * (s1 * a) [ZMOD m] := this
        _ = (s0 - r0 / r1 * s1) * a := by ring

theorem mod_mod_lt_half (a r : Nat) (hr : 0 < r) (hra : r < a) : 2 * (a % r) < a := by
  have h1 := Nat.mod_lt a hr
  have h2 := Nat.div_add_mod a r
  have h3 : 1 ≤ a / r := Nat.div_pos (Nat.le_of_lt hra) hr
  have h4 : r ≤ r * (a / r) := Nat.le_mul_of_pos_right r h3
  omega

/-- with `2k+1` steps of fuel and `r1 < 2^k` the loop reaches `r1 = 0` and returns the gcd. -/
theorem egcdAux_fst : ∀ (k fuel a0 a1 : Nat) (s0 s1 : Int), a1 < 2 ^ k → 2 * k + 1 ≤ fuel →
    (egcdAux fuel a0 a1 s0 s1).1 = ((Nat.gcd a0 a1 : Nat) : Int)
  | 0, fuel, a0, a1, s0, s1, hk, hf => by
    have : a1 = 0 := by simpa using hk
    subst this
    obtain ⟨f, rfl⟩ : ∃ f, fuel = f + 1 := ⟨fuel - 1, by omega⟩
    simp [egcdAux_succ_zero]
  | k + 1, fuel, a0, a1, s0, s1, hk, hf => by
    obtain ⟨f, rfl⟩ : ∃ f, fuel = f + 2 := ⟨fuel - 2, by omega⟩
    by_cases h1 : a1 = 0
    · subst h1; simp [egcdAux_succ_zero]
    · have h1' : (a1 : Int) ≠ 0 := by exact_mod_cast h1
      rw [egcdAux_succ_step _ _ _ _ _ h1']
      have hc : ((a0 : Int) % (a1 : Int)) = ((a0 % a1 : Nat) : Int) := by norm_cast
      rw [hc]
      by_cases h2 : a0 % a1 = 0
      · rw [h2]
        simp only [Nat.cast_zero, egcdAux_succ_zero]
        have : a1 ∣ a0 := Nat.dvd_of_mod_eq_zero h2
        rw [Nat.gcd_eq_right this]
      · have h2' : ((a0 % a1 : Nat) : Int) ≠ 0 := by exact_mod_cast h2
        rw [egcdAux_succ_step _ _ _ _ _ h2']
        have hc2 : ((a1 : Int) % ((a0 % a1 : Nat) : Int)) = ((a1 % (a0 % a1) : Nat) : Int) := by
          norm_cast
        rw [hc2]
        have hlt : a0 % a1 < a1 := Nat.mod_lt _ (Nat.pos_of_ne_zero h1)
        have hhalf := mod_mod_lt_half a1 (a0 % a1) (Nat.pos_of_ne_zero h2) hlt
        have hk' : a1 % (a0 % a1) < 2 ^ k := by
          have : 2 ^ (k + 1) = 2 * 2 ^ k := by ring
          omega
        rw [egcdAux_fst k f _ _ _ _ hk' (by omega)]
        congr 1
        rw [Nat.gcd_comm (a0 % a1), ← Nat.gcd_rec (a0 % a1) a1, ← Nat.gcd_rec a1 a0, Nat.gcd_comm]

theorem invMod_unfold (a : Int) (m : Nat) :
    invMod a m =
      if m = 0 then .error .zeroDivision
      else if (egcdAux (2 * bitLength m + 2) (a % (m : Int)) m 1 0).1 = 1 then
        .ok ((egcdAux (2 * bitLength m + 2) (a % (m : Int)) m 1 0).2 % (m : Int)).toNat
      else if m = 1 then .ok 0 else .error .zeroDivision := rfl

theorem egcd_invMod_fst (a : Int) (m : Nat) (hm : 0 < m) :
    (egcdAux (2 * bitLength m + 2) (a % (m : Int)) m 1 0).1 = (Int.gcd a m : Int) := by
  have hnn : 0 ≤ a % (m : Int) := Int.emod_nonneg _ (by exact_mod_cast hm.ne')
  obtain ⟨a', ha'⟩ := Int.eq_ofNat_of_zero_le hnn
  rw [ha', egcdAux_fst (bitLength m) _ a' m 1 0 (lt_two_pow_bitLength m) (by omega)]
  congr 1
  rw [← Int.gcd_natCast_natCast, ← ha', Int.gcd_emod]

theorem egcd_invMod_modEq (a : Int) (m : Nat) :
    (egcdAux (2 * bitLength m + 2) (a % (m : Int)) m 1 0).1 ≡
      (egcdAux (2 * bitLength m + 2) (a % (m : Int)) m 1 0).2 * a [ZMOD m] := by
  have h := egcdAux_modEq (a % (m : Int)) m (2 * bitLength m + 2) (a % (m : Int)) m 1 0
    (by rw [one_mul]) (by simp [Int.ModEq])
  exact h.trans ((Int.mod_modEq a m).mul_left _)

/-- `invMod` returns a value `< m` (for `m > 0`) whose product with `a` is `1` modulo `m`. -/
theorem invMod_ok_modEq (a : Int) (m x : Nat) (h : invMod a m = .ok x) :
    a * x ≡ 1 [ZMOD m] ∧ (0 < m) ∧ x < m := by
  rw [invMod_unfold] at h
  split at h
  · cases h
  rename_i hm0
  have hm : 0 < m := Nat.pos_of_ne_zero hm0
  have hmz : (m : Int) ≠ 0 := by exact_mod_cast hm0
  split at h
  · rename_i hg
    injection h with h
    have hx : (x : Int) = (egcdAux (2 * bitLength m + 2) (a % (m : Int)) m 1 0).2 % (m : Int) := by
      rw [← h, Int.toNat_of_nonneg (Int.emod_nonneg _ hmz)]
    refine ⟨?_, hm, ?_⟩
    · have h1 := egcd_invMod_modEq a m
      rw [hg] at h1
      rw [hx]
      calc a * ((egcdAux (2 * bitLength m + 2) (a % (m : Int)) m 1 0).2 % (m : Int))
          ≡ a * (egcdAux (2 * bitLength m + 2) (a % (m : Int)) m 1 0).2 [ZMOD m] :=
            (Int.mod_modEq _ _).mul_left _
        _ = (egcdAux (2 * bitLength m + 2) (a % (m : Int)) m 1 0).2 * a := by ring
        _ ≡ 1 [ZMOD m] := h1.symm
    · have := Int.emod_lt_of_pos (egcdAux (2 * bitLength m + 2) (a % (m : Int)) m 1 0).2
        (by exact_mod_cast hm : (0 : Int) < m)
      rw [← hx] at this
      exact_mod_cast this
  · split at h
    · rename_i hm1
      injection h with h
      subst hm1; subst h
      exact ⟨Int.modEq_one, by omega, by omega⟩
    · cases h

/-- completeness: a unit modulo `m` is inverted. -/
theorem invMod_of_coprime (a : Int) (m : Nat) (hm : 0 < m) (hg : Int.gcd a m = 1) :
    ∃ x, invMod a m = .ok x := by
  rw [invMod_unfold, if_neg hm.ne', if_pos (by rw [egcd_invMod_fst a m hm, hg]; rfl)]
  exact ⟨_, rfl⟩

/-- the error case: `ZeroDivisionError` is the only exception. -/
theorem invMod_error (a : Int) (m : Nat) (e : PyErr) (h : invMod a m = .error e) :
    e = .zeroDivision := by
  rw [invMod_unfold] at h
  repeat' split at h
  all_goals first | cases h; rfl | cases h

end Paranoid.Hnp
