/-
Proofs/KeypairGen.lean — arithmetic of `keypair_generator.Generator.generate_prime` (second review, L33):
the candidate the prime search starts from, and its size.  Helper definitions and lemmas for
Props/C06Gen.lean.  No model of AES / SHA-1: the random bytes are a universally quantified argument.
-/
import ParanoidModel.Proofs.Basic
import Mathlib.Tactic.Linarith
namespace Paranoid.KeypairGen
open Paranoid

/-- `int.from_bytes(bs, 'big')`. -/
def beNat (bs : List UInt8) : Nat := bs.foldl (fun acc b => 256 * acc + b.toNat) 0

theorem foldl_be_lt (bs : List UInt8) : ∀ acc : Nat,
    bs.foldl (fun acc b => 256 * acc + b.toNat) acc < (acc + 1) * 256 ^ bs.length := by
  induction bs with
  | nil => intro acc; simp
  | cons b bs ih =>
    intro acc
    rw [List.foldl_cons, List.length_cons]
    have hb : b.toNat < 256 := UInt8.toNat_lt b
    have h1 := ih (256 * acc + b.toNat)
    have h2 : (256 * acc + b.toNat + 1) * 256 ^ bs.length ≤ (acc + 1) * 256 ^ (bs.length + 1) := by
      rw [Nat.pow_succ, show (acc + 1) * (256 ^ bs.length * 256) = ((acc + 1) * 256) * 256 ^ bs.length by
        rw [Nat.mul_comm (256 ^ bs.length) 256, Nat.mul_assoc]]
      exact Nat.mul_le_mul_right _ (by omega)
    omega

theorem beNat_lt (bs : List UInt8) : beNat bs < 2 ^ (8 * bs.length) := by
  have := foldl_be_lt bs 0
  rw [Nat.zero_add, Nat.one_mul] at this
  rw [Nat.pow_mul]
  exact this

/-- the statements of `generate_prime(k)` between the byte slice and the prime search:
`p = x; p |= 1 << (k - 1); p += 31 - p % 30`, `x = int.from_bytes(prime_bytes[1 : k // 8 + 1], 'big')`. -/
def primeStart (k x : Nat) : Nat := (x ||| 1 <<< (k - 1)) + (31 - (x ||| 1 <<< (k - 1)) % 30)

/-- setting bit `k − 1` of an integer of `k // 8` bytes: below `2^(k−1) + 2^(8(k//8))`, at least `2^(k−1)`. -/
theorem setMsb_bounds (k x : Nat) (hx : x < 2 ^ (8 * (k / 8))) :
    2 ^ (k - 1) ≤ x ||| 1 <<< (k - 1) ∧ x ||| 1 <<< (k - 1) < 2 ^ (k - 1) + 2 ^ (8 * (k / 8)) := by
  rw [Nat.one_shiftLeft]
  refine ⟨Nat.right_le_or, ?_⟩
  by_cases h : x < 2 ^ (k - 1)
  · rw [Nat.or_two_pow_eq_add_of_lt h]; omega
  · have h1 : 2 ^ (k - 1) < 2 ^ (8 * (k / 8)) := by omega
    have := Nat.or_lt_two_pow hx h1
    have hp : 0 < 2 ^ (k - 1) := Nat.two_pow_pos _
    omega

theorem primeStart_bounds (k x : Nat) (hx : x < 2 ^ (8 * (k / 8))) :
    2 ^ (k - 1) ≤ primeStart k x ∧ primeStart k x < 2 ^ (k - 1) + 2 ^ (8 * (k / 8)) + 31 ∧
      primeStart k x % 30 = 1 := by
  obtain ⟨h1, h2⟩ := setMsb_bounds k x hx
  unfold primeStart
  generalize x ||| 1 <<< (k - 1) = p0 at h1 h2 ⊢
  refine ⟨by omega, by omega, by omega⟩

end Paranoid.KeypairGen
