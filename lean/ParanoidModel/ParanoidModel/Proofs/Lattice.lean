/-
Proofs/Lattice.lean — helper lemmas for C19 (misc part): PseudoAverage, Bias, UniformSumCdf,
CombinedPValue, small-root guards.  Property theorems are in Props/C19Misc.lean.
-/
import ParanoidModel.Model.Lattice
import Mathlib.Tactic.Ring
import Mathlib.Tactic.Linarith
import Mathlib.Algebra.BigOperators.Group.List.Basic
import Mathlib.Algebra.BigOperators.Ring.Finset
import Mathlib.Algebra.Order.Field.Rat
import Mathlib.Data.Nat.Choose.Basic
import Mathlib.Data.Nat.Factorial.Basic
import Mathlib.Algebra.Order.Floor.Ring
import Mathlib.Data.Rat.Floor
import Mathlib.Data.Int.GCD

namespace Paranoid.Lat
open Finset


/-! ### PseudoAverage -/

/-- `b`: the list with the first `j` elements incremented by `n`. -/
def paShift (s : List Int) (n : Int) (j : Nat) : List Int :=
  (s.take j).map (· + n) ++ s.drop j

/-- `Σ x²`. -/
def sumSq (l : List Int) : Int := (l.map (fun x => x * x)).sum

/-- the value of `diff` in iteration `j` (prefix sum of the first `j` elements). -/
def paDiffAt (s : List Int) (n : Int) (j : Nat) : Int :=
  paDiff s.length n s.sum (s.take j).sum j

theorem sum_map_add_const (l : List Int) (n : Int) :
    (l.map (· + n)).sum = l.sum + l.length * n := by
  induction l with
  | nil => simp
  | cons x xs ih => simp only [List.map_cons, List.sum_cons, ih, List.length_cons]; push_cast; ring

theorem sumSq_map_add_const (l : List Int) (n : Int) :
    sumSq (l.map (· + n)) = sumSq l + 2 * n * l.sum + l.length * (n * n) := by
  unfold sumSq
  induction l with
  | nil => simp
  | cons x xs ih =>
    simp only [List.map_cons, List.sum_cons, List.length_cons] at ih ⊢
    rw [ih]; push_cast; ring

theorem sumSq_append (a b : List Int) : sumSq (a ++ b) = sumSq a + sumSq b := by
  simp [sumSq, List.sum_append]

theorem paShift_sum (s : List Int) (n : Int) (j : Nat) (hj : j ≤ s.length) :
    (paShift s n j).sum = s.sum + j * n := by
  have h := List.take_append_drop j s
  have hs : s.sum = (s.take j).sum + (s.drop j).sum := by
    conv_lhs => rw [← h]
    exact List.sum_append
  unfold paShift
  rw [List.sum_append, sum_map_add_const, hs, List.length_take, Nat.min_eq_left hj]
  ring

theorem paDiff_identity (s : List Int) (n : Int) (j : Nat) (hj : j ≤ s.length) :
    n * paDiffAt s n j =
      ((s.length : Int) * sumSq (paShift s n j) - (paShift s n j).sum ^ 2)
        - ((s.length : Int) * sumSq s - s.sum ^ 2) := by
  have h := List.take_append_drop j s
  have hs : s.sum = (s.take j).sum + (s.drop j).sum := by
    conv_lhs => rw [← h]
    exact List.sum_append
  have hq : sumSq s = sumSq (s.take j) + sumSq (s.drop j) := by
    conv_lhs => rw [← h]
    exact sumSq_append _ _
  rw [paShift_sum s n j hj]
  unfold paShift paDiffAt paDiff
  rw [sumSq_append, sumSq_map_add_const, List.length_take, Nat.min_eq_left hj, hq, hs]
  ring

theorem paDiffAt_zero (s : List Int) (n : Int) : paDiffAt s n 0 = 0 := by
  simp [paDiffAt, paDiff]



/-- `best = (j*, d j*)` where `j*` is the FIRST minimiser of `d` on `0..k`. -/
def FirstMin (d : Nat → Int) (k : Nat) (best : Nat × Int) : Prop :=
  best.2 = d best.1 ∧ best.1 ≤ k ∧ (∀ j, j ≤ k → best.2 ≤ d j) ∧ (∀ j, j < best.1 → best.2 < d j)

theorem firstMin_step (d : Nat → Int) (k : Nat) (best : Nat × Int) (h : FirstMin d k best) :
    FirstMin d (k + 1) (if d (k + 1) < best.2 then (k + 1, d (k + 1)) else best) := by
  obtain ⟨h1, h2, h3, h4⟩ := h
  split
  · rename_i hlt
    refine ⟨rfl, Nat.le_refl _, ?_, ?_⟩
    · intro j hj
      rcases Nat.lt_or_ge j (k + 1) with hjk | hjk
      · have := h3 j (by omega); simp only; omega
      · have : j = k + 1 := by omega
        subst this; exact Int.le_refl _
    · intro j hj
      have := h3 j (by simp only at hj; omega); simp only; omega
  · rename_i hge
    refine ⟨h1, by omega, ?_, h4⟩
    intro j hj
    rcases Nat.lt_or_ge j (k + 1) with hjk | hjk
    · exact h3 j (by omega)
    · have : j = k + 1 := by omega
      subst this; omega

theorem paLoop_firstMin (s : List Int) (n : Int) :
    ∀ (rest pre : List Int) (best : Nat × Int), s = pre ++ rest →
      FirstMin (paDiffAt s n) pre.length best →
      FirstMin (paDiffAt s n) s.length
        (paLoop s.length n s.sum rest pre.sum pre.length best)
  | [], pre, best, hs, h => by
    simp only [List.append_nil] at hs
    subst hs
    simpa [paLoop] using h
  | x :: rest, pre, best, hs, h => by
    unfold paLoop
    have hs' : s = (pre ++ [x]) ++ rest := by simp [hs]
    have hd : paDiff s.length n s.sum (pre.sum + x) (pre.length + 1)
        = paDiffAt s n (pre.length + 1) := by
      unfold paDiffAt
      congr 1
      rw [hs']
      rw [List.take_append_of_le_length (by simp)]
      rw [List.take_of_length_le (by simp)]
      simp
    have hstep := firstMin_step _ _ _ h
    have := paLoop_firstMin s n rest (pre ++ [x]) _ hs'
      (by simpa using hstep)
    unfold paStep
    rw [hd]
    simpa using this

theorem paBestJ_firstMin (s : List Int) (n : Int) :
    FirstMin (paDiffAt s n) s.length (paBestJ s n, paDiffAt s n (paBestJ s n)) := by
  have h0 : FirstMin (paDiffAt s n) 0 (0, 0) := by
    refine ⟨by simp [paDiffAt, paDiff], Nat.le_refl _, ?_, ?_⟩
    · intro j hj
      have : j = 0 := by omega
      subst this; simp [paDiffAt, paDiff]
    · intro j hj; simp at hj
  have h := paLoop_firstMin s n s [] (0, 0) (by simp) (by simpa using h0)
  simp only [List.sum_nil, List.length_nil] at h
  unfold paBestJ
  obtain ⟨h1, h2, h3, h4⟩ := h
  refine ⟨rfl, h2, ?_, ?_⟩
  · intro j hj; simpa [← h1] using h3 j hj
  · intro j hj; simpa [← h1] using h4 j hj


theorem insertInt_perm (x : Int) (l : List Int) : (insertInt x l).Perm (x :: l) := by
  induction l with
  | nil => simp [insertInt]
  | cons y ys ih =>
    unfold insertInt
    split
    · exact List.Perm.refl _
    · exact (List.Perm.cons y ih).trans (List.Perm.swap x y ys)

theorem sortInts_perm (a : List Int) : (sortInts a).Perm a := by
  induction a with
  | nil => exact List.Perm.refl _
  | cons x xs ih => exact (insertInt_perm x _).trans (List.Perm.cons x ih)

theorem insertInt_sorted (x : Int) (l : List Int) (h : l.Pairwise (· ≤ ·)) :
    (insertInt x l).Pairwise (· ≤ ·) := by
  induction l with
  | nil => simp [insertInt]
  | cons y ys ih =>
    unfold insertInt
    rw [List.pairwise_cons] at h
    split
    · rename_i hxy
      refine List.pairwise_cons.mpr ⟨?_, List.pairwise_cons.mpr h⟩
      intro z hz
      simp only [List.mem_cons] at hz
      rcases hz with rfl | hz
      · exact hxy
      · exact Int.le_trans hxy (h.1 z hz)
    · rename_i hxy
      refine List.pairwise_cons.mpr ⟨?_, ih h.2⟩
      intro z hz
      have := (insertInt_perm x ys).mem_iff.mp hz
      simp only [List.mem_cons] at this
      rcases this with rfl | hz
      · omega
      · exact h.1 z hz

theorem sortInts_sorted (a : List Int) : (sortInts a).Pairwise (· ≤ ·) := by
  induction a with
  | nil => simp [sortInts]
  | cons x xs ih => exact insertInt_sorted x _ ih

theorem sortInts_length (a : List Int) : (sortInts a).length = a.length :=
  (sortInts_perm a).length_eq

theorem sortInts_sum (a : List Int) : (sortInts a).sum = a.sum :=
  (sortInts_perm a).sum_eq

theorem paFinal_range (s : List Int) (n : Int) (hn : 0 < n) :
    0 ≤ paFinal s n ∧ paFinal s n < n := by
  unfold paFinal
  exact ⟨Int.fmod_nonneg_of_pos _ hn, Int.fmod_lt_of_pos _ hn⟩

/-! ### PseudoAverage: prefix shifts of the sorted list are optimal among ALL selections -/

/-- an arbitrary selection: `b[i] = a[i] + n` where the mask is `true`, else `a[i]`. -/
def maskShift (n : Int) : List Int → List Bool → List Int
  | a :: s, b :: c => (if b then a + n else a) :: maskShift n s c
  | _, _ => []

/-- sum of the selected (incremented) elements. -/
def maskSum : List Int → List Bool → Int
  | a :: s, b :: c => (if b then a else 0) + maskSum s c
  | _, _ => 0

/-- `m·Σb² − (Σb)²` = `m(m−1)` times the sample variance of `b`. -/
def varNum (b : List Int) : Int := (b.length : Int) * sumSq b - b.sum ^ 2

theorem maskShift_length (n : Int) : ∀ (s : List Int) (c : List Bool), c.length = s.length →
    (maskShift n s c).length = s.length
  | [], [], _ => rfl
  | a :: s, b :: c, h => by
    simp only [maskShift, List.length_cons]
    rw [maskShift_length n s c (by simpa using h)]
  | [], _ :: _, h => by simp at h
  | _ :: _, [], h => by simp at h

theorem maskShift_sum (n : Int) : ∀ (s : List Int) (c : List Bool), c.length = s.length →
    (maskShift n s c).sum = s.sum + (c.count true : Int) * n
  | [], [], _ => by simp [maskShift]
  | a :: s, b :: c, h => by
    have ih := maskShift_sum n s c (by simpa using h)
    cases b <;> simp only [maskShift, List.sum_cons, ih, List.count_cons, beq_self_eq_true,
      Bool.false_eq_true, if_true, if_false] <;> simp <;> ring
  | [], _ :: _, h => by simp at h
  | _ :: _, [], h => by simp at h

theorem maskShift_sumSq (n : Int) : ∀ (s : List Int) (c : List Bool), c.length = s.length →
    sumSq (maskShift n s c) = sumSq s + 2 * n * maskSum s c + (c.count true : Int) * (n * n)
  | [], [], _ => by simp [maskShift, sumSq, maskSum]
  | a :: s, b :: c, h => by
    have ih := maskShift_sumSq n s c (by simpa using h)
    unfold sumSq at ih ⊢
    cases b <;> simp only [maskShift, maskSum, List.map_cons, List.sum_cons, ih, List.count_cons,
      beq_self_eq_true, Bool.false_eq_true, if_true, if_false] <;> simp <;> ring
  | [], _ :: _, h => by simp at h
  | _ :: _, [], h => by simp at h

theorem count_le_length' (c : List Bool) : c.count true ≤ c.length := List.count_le_length

/-- dropping the head of a sorted list cannot decrease a prefix sum. -/
theorem take_sum_cons_le : ∀ (l : List Int) (a : Int) (j : Nat), (∀ x ∈ l, a ≤ x) →
    l.Pairwise (· ≤ ·) → j ≤ l.length → ((a :: l).take j).sum ≤ (l.take j).sum
  | _, _, 0, _, _, _ => by simp
  | [], _, j + 1, _, _, h => by simp at h
  | x :: l, a, j + 1, ha, hs, h => by
    rw [List.pairwise_cons] at hs
    have ih := take_sum_cons_le l x j hs.1 hs.2 (by simpa using h)
    have hax := ha x (by simp)
    simp only [List.take_succ_cons, List.sum_cons] at ih ⊢
    omega

/-- among all selections of `j` elements of a sorted list the first `j` have the least sum. -/
theorem maskSum_ge_prefix : ∀ (s : List Int) (c : List Bool), c.length = s.length →
    s.Pairwise (· ≤ ·) → (s.take (c.count true)).sum ≤ maskSum s c
  | [], [], _, _ => by simp [maskSum]
  | a :: s, b :: c, h, hs => by
    rw [List.pairwise_cons] at hs
    have hl : c.length = s.length := by simpa using h
    have ih := maskSum_ge_prefix s c hl hs.2
    cases b
    · have h2 := take_sum_cons_le s a (c.count true) hs.1 hs.2
        (by rw [← hl]; exact List.count_le_length)
      simp only [maskSum, List.count_cons, Bool.false_eq_true, if_false]
      simp
      omega
    · simp only [maskSum, List.count_cons, beq_self_eq_true, if_true, List.take_succ_cons,
        List.sum_cons]
      omega
  | [], _ :: _, h, _ => by simp at h
  | _ :: _, [], h, _ => by simp at h

theorem paShift_length (s : List Int) (n : Int) (j : Nat) : (paShift s n j).length = s.length := by
  unfold paShift
  simp only [List.length_append, List.length_map, List.length_take, List.length_drop]
  omega

/-- every selection has at least the variance of the prefix shift with the same number of
incremented elements (sorted list, `n ≥ 0`). -/
theorem varNum_mask_ge_prefix (s : List Int) (n : Int) (hn : 0 ≤ n) (c : List Bool)
    (hc : c.length = s.length) (hs : s.Pairwise (· ≤ ·)) :
    varNum (paShift s n (c.count true)) ≤ varNum (maskShift n s c) := by
  have hj : c.count true ≤ s.length := by rw [← hc]; exact List.count_le_length
  have h1 := paDiff_identity s n _ hj
  have h3 := maskSum_ge_prefix s c hc hs
  unfold varNum
  rw [paShift_length, maskShift_length n s c hc, maskShift_sum n s c hc, maskShift_sumSq n s c hc,
    paShift_sum s n _ hj]
  have h4 : n * paDiffAt s n (c.count true) =
      2 * n * (s.length : Int) * (s.take (c.count true)).sum
        + (s.length : Int) * (c.count true : Int) * (n * n) - 2 * s.sum * (c.count true : Int) * n
        - ((c.count true : Int) * n) ^ 2 := by
    unfold paDiffAt paDiff; ring
  have h5 : 0 ≤ 2 * n * (s.length : Int) * (maskSum s c - (s.take (c.count true)).sum) := by
    apply Int.mul_nonneg
    · apply Int.mul_nonneg <;> omega
    · omega
  rw [paShift_sum s n _ hj] at h1
  nlinarith [h1, h4, h5]

/-! ### Bias -/

theorem biasTerm_spec (n s a b : Int) (hn : 0 < n) :
    0 ≤ biasTerm n s a b ∧ 2 * biasTerm n s a b ≤ n ∧
    (∃ k : Int, |a * s + b - k * n| = biasTerm n s a b) ∧
    (∀ k : Int, biasTerm n s a b ≤ |a * s + b - k * n|) := by
  unfold biasTerm
  generalize a * s + b = x
  rw [Int.fmod_eq_emod_of_nonneg _ (Int.le_of_lt hn)]
  have h0 : 0 ≤ x % n := Int.emod_nonneg _ (by omega)
  have h1 : x % n < n := Int.emod_lt_of_pos _ hn
  have hx : x = n * (x / n) + x % n := (Int.mul_ediv_add_emod x n).symm
  generalize x % n = r at *
  generalize x / n = q at *
  have key : ∀ k : Int, min r (n - r) ≤ |x - k * n| := by
    intro k
    have e : x - k * n = (q - k) * n + r := by rw [hx]; ring
    rw [e]
    rcases lt_or_ge (q - k) 0 with hneg | hpos
    · have : (q - k + 1) * n ≤ 0 := Int.mul_nonpos_of_nonpos_of_nonneg (by omega) (by omega)
      have h2 : (q - k) * n ≤ -n := by linarith
      have : -((q - k) * n + r) ≤ |(q - k) * n + r| := neg_le_abs _
      have : min r (n - r) ≤ n - r := Int.min_le_right _ _
      omega
    · have : 0 ≤ (q - k) * n := Int.mul_nonneg hpos (by omega)
      have : (q - k) * n + r ≤ |(q - k) * n + r| := le_abs_self _
      have : min r (n - r) ≤ r := Int.min_le_left _ _
      omega
  refine ⟨by omega, by omega, ?_, key⟩
  rcases Int.le_total r (n - r) with hle | hle
  · refine ⟨q, ?_⟩
    have e : x - q * n = r := by rw [hx]; ring
    rw [e, abs_of_nonneg h0, Int.min_eq_left hle]
  · refine ⟨q + 1, ?_⟩
    have e : x - (q + 1) * n = -(n - r) := by rw [hx]; ring
    rw [e, abs_neg, abs_of_nonneg (by omega), Int.min_eq_right hle]

theorem biasInner_bounds (n s : Int) (hn : 0 < n) (tr : List (Int × Int)) :
    0 ≤ biasInner n s tr ∧ 2 * biasInner n s tr ≤ tr.length * n := by
  unfold biasInner
  induction tr with
  | nil => simp
  | cons ab tr ih =>
    obtain ⟨h0, h1, -, -⟩ := biasTerm_spec n s ab.1 ab.2 hn
    simp only [List.map_cons, List.sum_cons, List.length_cons]
    push_cast
    constructor
    · omega
    · have : ((tr.length : Int) + 1) * n = tr.length * n + n := by ring
      omega

theorem biasT_bounds (sample : List Int) (n : Int) (hn : 0 < n) (tr : List (Int × Int)) :
    0 ≤ biasT sample n tr ∧ 2 * biasT sample n tr ≤ (sample.length * tr.length : Nat) * n := by
  unfold biasT
  induction sample with
  | nil => simp
  | cons s ss ih =>
    obtain ⟨h0, h1⟩ := biasInner_bounds n s hn tr
    simp only [List.map_cons, List.sum_cons, List.length_cons]
    push_cast at ih ⊢
    constructor
    · omega
    · have : ((ss.length : Int) + 1) * tr.length * n = ss.length * tr.length * n + tr.length * n := by ring
      omega

theorem biasNormalized_range (sample : List Int) (n : Int) (hn : 0 < n) (tr : List (Int × Int)) :
    0 ≤ biasNormalized sample n tr ∧
      biasNormalized sample n tr ≤ ((sample.length * tr.length : Nat) : Rat) := by
  obtain ⟨h0, h1⟩ := biasT_bounds sample n hn tr
  unfold biasNormalized
  have hn' : (0 : Rat) < (n : Rat) := by exact_mod_cast hn
  constructor
  · apply div_nonneg _ (le_of_lt hn')
    exact_mod_cast (by omega : 0 ≤ 2 * biasT sample n tr)
  · rw [div_le_iff₀ hn']
    exact_mod_cast h1

/-! ### UniformSumCdf -/


theorem fact_eq (n : Nat) : fact n = n.factorial := by
  induction n with
  | zero => rfl
  | succ n ih => simp [fact, Nat.factorial, ih]

/-- the `//` in `binom * (n - k) // (k + 1)` is exact and yields the next binomial. -/
theorem usBinomNext_choose (n k : Nat) : usBinomNext n k (n.choose k) = n.choose (k + 1) := by
  unfold usBinomNext
  rw [← Nat.choose_succ_right_eq, Nat.mul_div_cancel _ (Nat.succ_pos k)]

/-- running `binom` after `k` iterations of the loop. -/
def usBinomAt (n : Nat) : Nat → Nat
  | 0 => 1
  | k + 1 => usBinomNext n k (usBinomAt n k)

theorem usBinomAt_choose (n k : Nat) : usBinomAt n k = n.choose k := by
  induction k with
  | zero => simp [usBinomAt]
  | succ k ih => rw [usBinomAt, ih, usBinomNext_choose]

theorem usLoop_eq (n f : Nat) (x : ℚ) : ∀ (cnt k : Nat) (acc : ℚ),
    usLoop n f x cnt k ((-1) ^ k) (n.choose k) acc =
      acc + ∑ i ∈ range cnt, ((-1 : ℚ) ^ (k + i) * (n.choose (k + i) : ℚ)) / (f : ℚ) * (x - ((k + i : Nat) : ℚ)) ^ n
  | 0, k, acc => by simp [usLoop]
  | cnt + 1, k, acc => by
    unfold usLoop
    have hs : -((-1 : Int) ^ k) = (-1) ^ (k + 1) := by ring
    rw [hs, usBinomNext_choose, usLoop_eq n f x cnt (k + 1)]
    rw [Finset.sum_range_succ', add_assoc]
    congr 1
    rw [add_comm]
    congr 1
    · apply Finset.sum_congr rfl
      intro i _
      have : k + 1 + i = k + (i + 1) := by omega
      rw [this]
    · unfold usTerm
      simp
/-- Irwin–Hall CDF formula (Wikipedia): `(1/n!) Σ_{k=0}^{⌊x⌋} (-1)^k C(n,k) (x-k)^n`. -/
def irwinHall (n : ℕ) (x : ℚ) : ℚ :=
  (1 / (n.factorial : ℚ)) *
    ∑ k ∈ range (⌊x⌋ + 1).toNat, (-1 : ℚ) ^ k * (n.choose k : ℚ) * (x - (k : ℚ)) ^ n

theorem usSum_eq_irwinHall (n : Nat) (x : ℚ) : usSum n x = irwinHall n x := by
  unfold usSum irwinHall
  have h := usLoop_eq n (fact n) x (x.floor + 1).toNat 0 0
  simp only [pow_zero, Nat.choose_zero_right, zero_add] at h
  rw [h, fact_eq, Finset.mul_sum]
  have hf : (x.floor + 1).toNat = (⌊x⌋ + 1).toNat := rfl
  rw [hf]
  apply Finset.sum_congr rfl
  intro k _
  ring

theorem usReflect_once (n : Nat) (x : ℚ) (h : 2 * x > (n : ℚ)) :
    ¬ (2 * ((n : ℚ) - x) > (n : ℚ)) := by
  intro h2; linarith



/-! ### CombinedPValue -/

theorem ratMin_spec (p : ℚ) (ps : List ℚ) :
    ratMin p ps ∈ p :: ps ∧ ∀ q ∈ p :: ps, ratMin p ps ≤ q := by
  induction ps generalizing p with
  | nil => simp [ratMin]
  | cons q qs ih =>
    unfold ratMin
    obtain ⟨hm, hle⟩ := ih (if q < p then q else p)
    constructor
    · simp only [List.mem_cons] at hm ⊢
      rcases hm with h | h
      · rw [h]; split <;> simp
      · exact Or.inr (Or.inr h)
    · intro r hr
      simp only [List.mem_cons] at hr
      have h1 := hle (if q < p then q else p) (by simp)
      rcases hr with rfl | rfl | hr
      · refine le_trans h1 ?_; split <;> linarith
      · refine le_trans h1 ?_; split <;> linarith
      · exact hle r (by simp [hr])

theorem ratMin_eq_zero_iff (p : ℚ) (ps : List ℚ) :
    ratMin p ps = 0 ↔ (0 : ℚ) ∈ p :: ps ∧ ∀ q ∈ p :: ps, 0 ≤ q := by
  obtain ⟨hm, hle⟩ := ratMin_spec p ps
  constructor
  · intro h; rw [h] at hm hle; exact ⟨hm, hle⟩
  · rintro ⟨h0, hall⟩
    exact le_antisymm (hle 0 h0) (hall _ hm)

theorem logDomainError_iff (ps : List ℚ) : logDomainError ps = true ↔ ∃ p ∈ ps, p ≤ 0 := by
  simp [logDomainError]

/-! ### small_roots guards -/

theorem symMod_congr (a n : Int) : n ∣ a - symMod a n := by
  have h : a - Int.fmod a n = n * Int.fdiv a n := by
    have := Int.mul_fdiv_add_fmod a n
    omega
  unfold symMod
  split
  · exact ⟨_, h⟩
  · exact ⟨Int.fdiv a n + 1, by rw [Int.mul_add, ← h]; ring⟩

theorem symMod_range (a n : Int) (hn : 0 < n) : -n < 2 * symMod a n ∧ 2 * symMod a n ≤ n := by
  unfold symMod
  rw [Int.fmod_eq_emod_of_nonneg _ (Int.le_of_lt hn), Int.fdiv_eq_ediv_of_nonneg _ (by omega)]
  have h0 : 0 ≤ a % n := Int.emod_nonneg _ (by omega)
  have h1 : a % n < n := Int.emod_lt_of_pos _ hn
  split <;> omega

theorem guardAccept_iff (n y : Int) : guardAccept n y = true ↔ y ≠ 0 ∧ y ∣ n := by
  unfold guardAccept
  simp only [Bool.and_eq_true, ne_eq, beq_iff_eq, decide_eq_true_eq]
  constructor
  · rintro ⟨h1, h2⟩
    refine ⟨h1, ?_⟩
    have := Int.mul_fdiv_add_fmod n y
    exact ⟨Int.fdiv n y, by omega⟩
  · rintro ⟨h1, k, rfl⟩
    exact ⟨h1, Int.mul_fmod_right y k⟩ 

theorem guardAcceptR_iff (n y : Int) : guardAcceptR n y = true ↔ 1 < y.natAbs ∧ y ∣ n := by
  unfold guardAcceptR
  simp only [Bool.and_eq_true, beq_iff_eq, decide_eq_true_eq]
  constructor
  · rintro ⟨h1, h2⟩
    refine ⟨h1, ?_⟩
    have := Int.mul_fdiv_add_fmod n y
    exact ⟨Int.fdiv n y, by omega⟩
  · rintro ⟨h1, k, rfl⟩
    exact ⟨h1, Int.mul_fmod_right y k⟩

/-- if `y ≡ v (mod n)` and `y ∣ n` then `gcd(v, n) = |y|`. -/
theorem gcd_of_congr_dvd (v n y : Int) (hc : n ∣ v - y) (hy : y ∣ n) :
    Int.gcd v n = y.natAbs := by
  obtain ⟨t, ht⟩ := hc
  have hv : v = y + n * t := by omega
  rw [hv, Int.gcd_add_mul_left_left]
  exact Int.gcd_eq_natAbs_left hy  


end Paranoid.Lat
