/-
Proofs/LatticeSigns.lean — what PseudoAverage / Bias (Model/Lattice.lean) do for the moduli
that the `0 < n` theorems of Props/C19.lean leave out: `n < 0` (and `n = 0`, which raises).
Used by Props/C19Shipped.lean.
-/
import ParanoidModel.Proofs.Lattice
import ParanoidModel.Proofs.NTheory
namespace Paranoid.Lat
open Paranoid

/-- negative modulus: Python's `% n` lands in `(n, 0]`. -/
theorem paFinal_range_neg (s : List Int) (n : Int) (hn : n < 0) :
    n < paFinal s n ∧ paFinal s n ≤ 0 := by
  unfold paFinal
  exact NT.fmod_range_neg _ n hn

/-- `n < 0`: `diff_j` minimal means `n·diff_j` MAXIMAL — the loop picks a prefix shift of
maximal variance. -/
theorem paBest_max_variance_neg (s : List Int) (n : Int) (hn : n < 0) (j : Nat)
    (hj : j ≤ s.length) :
    (s.length : Int) * sumSq (paShift s n j) - (paShift s n j).sum ^ 2 ≤
      (s.length : Int) * sumSq (paShift s n (paBestJ s n)) - (paShift s n (paBestJ s n)).sum ^ 2 := by
  obtain ⟨-, hb, hmin, -⟩ := paBestJ_firstMin s n
  have h1 := paDiff_identity s n j hj
  have h2 := paDiff_identity s n _ hb
  have := Int.mul_le_mul_of_nonpos_left (Int.le_of_lt hn) (hmin j hj)
  linarith

/-- `n < 0`: every summand of `Bias` is `≤ 0`, in `[n, n/2]`: minus the LARGER of the two
distances to the neighbouring multiples of `n`. -/
theorem biasTerm_neg (n s a b : Int) (hn : n < 0) :
    n ≤ biasTerm n s a b ∧ 2 * biasTerm n s a b ≤ n := by
  unfold biasTerm
  generalize a * s + b = x
  have h := NT.fmod_range_neg x n hn
  rcases Int.le_total (Int.fmod x n) (n - Int.fmod x n) with hle | hle
  · rw [Int.min_eq_left hle]; omega
  · rw [Int.min_eq_right hle]; omega

theorem biasInner_bounds_neg (n s : Int) (hn : n < 0) (tr : List (Int × Int)) :
    tr.length * n ≤ biasInner n s tr ∧ 2 * biasInner n s tr ≤ tr.length * n := by
  unfold biasInner
  induction tr with
  | nil => simp
  | cons ab tr ih =>
    obtain ⟨h0, h1⟩ := biasTerm_neg n s ab.1 ab.2 hn
    simp only [List.map_cons, List.sum_cons, List.length_cons]
    push_cast
    have : ((tr.length : Int) + 1) * n = tr.length * n + n := by ring
    constructor <;> omega

theorem biasT_bounds_neg (sample : List Int) (n : Int) (hn : n < 0) (tr : List (Int × Int)) :
    (sample.length * tr.length : Nat) * n ≤ biasT sample n tr ∧
      2 * biasT sample n tr ≤ (sample.length * tr.length : Nat) * n := by
  unfold biasT
  induction sample with
  | nil => simp
  | cons s ss ih =>
    obtain ⟨h0, h1⟩ := biasInner_bounds_neg n s hn tr
    simp only [List.map_cons, List.sum_cons, List.length_cons]
    push_cast at ih ⊢
    have : ((ss.length : Int) + 1) * tr.length * n = ss.length * tr.length * n + tr.length * n := by
      ring
    constructor <;> omega

/-- `n < 0`: `normalized = 2t/n` lies in `[len, 2·len]`, i.e. at or beyond the upper end of the
support of the Irwin–Hall distribution (`UniformSumCdf(len, ·)` answers `1.0`). -/
theorem biasNormalized_range_neg (sample : List Int) (n : Int) (hn : n < 0)
    (tr : List (Int × Int)) :
    ((sample.length * tr.length : Nat) : Rat) ≤ biasNormalized sample n tr ∧
      biasNormalized sample n tr ≤ 2 * ((sample.length * tr.length : Nat) : Rat) := by
  obtain ⟨h0, h1⟩ := biasT_bounds_neg sample n hn tr
  unfold biasNormalized
  have hn' : (n : Rat) < 0 := by exact_mod_cast hn
  constructor
  · rw [le_div_iff_of_neg hn']
    exact_mod_cast h1
  · rw [div_le_iff_of_neg hn']
    have : (2 * ((sample.length * tr.length : Nat) : Int)) * n ≤ 2 * biasT sample n tr := by
      have e : (2 * ((sample.length * tr.length : Nat) : Int)) * n =
          2 * (((sample.length * tr.length : Nat) : Int) * n) := by ring
      omega
    exact_mod_cast this

end Paranoid.Lat
