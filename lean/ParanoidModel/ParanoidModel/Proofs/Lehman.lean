/-
Proofs/Lehman.lean — the single Fermat step inside FactorWithGuess (C04): exact success
condition, and what it returns.
-/
import ParanoidModel.Proofs.Fermat

namespace Paranoid

/-- `ceilSqrt d` is the least `a` with `d ≤ a*a`. -/
theorem ceilSqrt_spec (d : Nat) :
    d ≤ ceilSqrt d * ceilSqrt d ∧ ∀ a, d ≤ a * a → ceilSqrt d ≤ a := by
  unfold ceilSqrt isqrt
  have h1 := Nat.sqrt_le d
  have h2 := Nat.lt_succ_sqrt d
  split
  · rename_i hlt
    refine ⟨Nat.le_of_lt h2, fun a ha => ?_⟩
    by_contra hc
    have : a ≤ Nat.sqrt d := by omega
    have := Nat.mul_le_mul this this
    omega
  · rename_i hge
    refine ⟨by omega, fun a ha => ?_⟩
    by_contra hc
    have : a + 1 ≤ Nat.sqrt d := by omega
    have : (a + 1) * (a + 1) ≤ Nat.sqrt d * Nat.sqrt d := Nat.mul_le_mul this this
    have : a * a < (a + 1) * (a + 1) := by nlinarith
    omega

theorem ceilSqrt_eq_iff (d a : Nat) (hd : 0 < d) :
    ceilSqrt d = a ↔ (a - 1) * (a - 1) < d ∧ d ≤ a * a := by
  obtain ⟨h1, h2⟩ := ceilSqrt_spec d
  constructor
  · rintro rfl
    refine ⟨?_, h1⟩
    by_contra hc
    have hle : d ≤ (ceilSqrt d - 1) * (ceilSqrt d - 1) := by omega
    have := h2 _ hle
    have hpos : 0 < ceilSqrt d := by
      by_contra h0
      have : ceilSqrt d = 0 := by omega
      rw [this] at h1; omega
    omega
  · rintro ⟨hl, hr⟩
    have hle := h2 a hr
    by_contra hne
    have : ceilSqrt d ≤ a - 1 := by omega
    have := Nat.mul_le_mul this this
    omega

/-- **One Fermat step, exact.** For `X, Y ≥ 1` the ceiling square root of `4XY` equals
`X + Y` exactly when `(X - Y)^2 < 2(X + Y) - 1`. -/
theorem fermat_one_step (X Y : Nat) (hX : 0 < X) (hY : 0 < Y) :
    ceilSqrt (4 * X * Y) = X + Y ↔
      ((X : Int) - Y) * ((X : Int) - Y) < 2 * ((X : Int) + Y) - 1 := by
  have hd : 0 < 4 * X * Y := by positivity
  rw [ceilSqrt_eq_iff _ _ hd]
  have hsum : 1 ≤ X + Y := by omega
  constructor
  · rintro ⟨hl, _⟩
    have : ((X + Y - 1 : Nat) : Int) = (X : Int) + Y - 1 := by omega
    zify at hl
    rw [this] at hl
    nlinarith
  · intro h
    constructor
    · have : ((X + Y - 1 : Nat) : Int) = (X : Int) + Y - 1 := by omega
      zify
      rw [this]
      nlinarith
    · nlinarith [sq_nonneg ((X : Int) - Y), Nat.zero_le (X * Y),
        (by zify; nlinarith [sq_nonneg ((X : Int) - Y)] : 4 * X * Y ≤ (X + Y) * (X + Y))]

/-- when the step succeeds, `a*a - d` is the square of `|X - Y|`, and `a + b = 2 max X Y`. -/
theorem fwgFinish_of_step (n X Y : Nat) (hX : 0 < X) (hY : 0 < Y)
    (h : ((X : Int) - Y) * ((X : Int) - Y) < 2 * ((X : Int) + Y) - 1) :
    fwgFinish n (ceilSqrt (4 * X * Y)) (4 * X * Y) = splitBy (Nat.gcd (2 * max X Y) n) n := by
  rw [(fermat_one_step X Y hX hY).mpr h]
  have hsq : (X + Y) * (X + Y) - 4 * X * Y = (max X Y - min X Y) * (max X Y - min X Y) := by
    rcases Nat.le_total X Y with hle | hle
    · rw [Nat.max_eq_right hle, Nat.min_eq_left hle]
      obtain ⟨k, rfl⟩ := Nat.exists_eq_add_of_le hle
      have : (X + (X + k)) * (X + (X + k)) = 4 * X * (X + k) + k * k := by ring
      rw [this]; simp
    · rw [Nat.max_eq_left hle, Nat.min_eq_right hle]
      obtain ⟨k, rfl⟩ := Nat.exists_eq_add_of_le hle
      have : (Y + k + Y) * (Y + k + Y) = 4 * (Y + k) * Y + k * k := by ring
      rw [this]; simp
  unfold fwgFinish
  rw [hsq]
  have : isSquare ((max X Y - min X Y) * (max X Y - min X Y)) = true := by
    rw [isSquare_iff, Nat.sqrt_eq]
  rw [if_pos this]
  simp only [isqrt, Nat.sqrt_eq]
  congr 2
  rcases Nat.le_total X Y with hle | hle
  · rw [Nat.max_eq_right hle, Nat.min_eq_left hle]; omega
  · rw [Nat.max_eq_left hle, Nat.min_eq_right hle]; omega

end Paranoid
