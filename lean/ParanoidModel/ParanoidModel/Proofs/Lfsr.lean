/-
Proofs/Lfsr.lean — theory of the textbook Berlekamp–Massey recursion of Spec/Lfsr.lean:

* GF(2) sums (`xsum`), coefficient lists, the convolution coefficient `conv p σ k = [X^k] p·S`;
* the loop invariant `TBInv` of the textbook recursion (upper bound: the LFSR read off `C`
  generates everything read so far);
* Massey's lemma and Massey's theorem `textbookL_isShortest` (the textbook length IS the length
  of the shortest LFSR), and the correctness of the brute-force definition `shortestLfsr`;
* the step structure `textbookL_snoc` and the counting theorem `countL_eq_cnt`.
-/
import ParanoidModel.Spec.Lfsr
import Mathlib.Tactic.Ring
import Mathlib.Tactic.Linarith
import Mathlib.Data.List.Nodup
namespace Paranoid.Lfsr

/-! ### xsum -/

@[simp] theorem xsum_zero (f : Nat → Bool) : xsum 0 f = false := rfl
theorem xsum_succ (n : Nat) (f : Nat → Bool) : xsum (n + 1) f = (xsum n f ^^ f n) := rfl

theorem xsum_congr {n : Nat} {f g : Nat → Bool} (h : ∀ i, i < n → f i = g i) :
    xsum n f = xsum n g := by
  induction n with
  | zero => rfl
  | succ n ih =>
    rw [xsum_succ, xsum_succ, ih (fun i hi => h i (by omega)), h n (by omega)]

theorem xsum_false {n : Nat} {f : Nat → Bool} (h : ∀ i, i < n → f i = false) :
    xsum n f = false := by
  induction n with
  | zero => rfl
  | succ n ih => rw [xsum_succ, ih (fun i hi => h i (by omega)), h n (by omega)]; rfl

theorem xsum_xor (n : Nat) (f g : Nat → Bool) :
    xsum n (fun i => f i ^^ g i) = (xsum n f ^^ xsum n g) := by
  induction n with
  | zero => rfl
  | succ n ih =>
    simp only [xsum_succ, ih]
    cases xsum n f <;> cases xsum n g <;> cases f n <;> cases g n <;> rfl

theorem xsum_and_left (a : Bool) (n : Nat) (f : Nat → Bool) :
    (a && xsum n f) = xsum n (fun i => a && f i) := by
  induction n with
  | zero => cases a <;> rfl
  | succ n ih =>
    simp only [xsum_succ, ← ih]
    cases a <;> cases xsum n f <;> cases f n <;> rfl

/-- split off the first term. -/
theorem xsum_succ' (n : Nat) (f : Nat → Bool) :
    xsum (n + 1) f = (f 0 ^^ xsum n (fun i => f (i + 1))) := by
  induction n with
  | zero => simp [xsum_succ]
  | succ n ih =>
    rw [xsum_succ, ih, xsum_succ]
    cases f 0 <;> cases xsum n (fun i => f (i + 1)) <;> cases f (n + 1) <;> rfl

theorem xsum_add (a b : Nat) (f : Nat → Bool) :
    xsum (a + b) f = (xsum a f ^^ xsum b (fun i => f (a + i))) := by
  induction b with
  | zero => simp
  | succ b ih =>
    rw [← Nat.add_assoc, xsum_succ, ih, xsum_succ]
    cases xsum a f <;> cases xsum b (fun i => f (a + i)) <;> cases f (a + b) <;> rfl

/-- terms beyond `L` vanish. -/
theorem xsum_trunc {L k : Nat} {f : Nat → Bool} (hLk : L ≤ k)
    (h : ∀ i, L ≤ i → i < k → f i = false) : xsum k f = xsum L f := by
  obtain ⟨d, rfl⟩ := Nat.exists_eq_add_of_le hLk
  rw [xsum_add, xsum_false (fun i hi => h (L + i) (by omega) (by omega))]
  simp

theorem xsum_comm (n m : Nat) (f : Nat → Nat → Bool) :
    xsum n (fun i => xsum m (fun j => f i j)) = xsum m (fun j => xsum n (fun i => f i j)) := by
  induction n with
  | zero => simp [xsum_false]
  | succ n ih =>
    simp only [xsum_succ, ih]
    rw [← xsum_xor]

/-! ### polynomials -/

theorem coef_nil (i : Nat) : coef [] i = false := by simp [coef]
@[simp] theorem coef_cons_zero (a : Bool) (p : List Bool) : coef (a :: p) 0 = a := by simp [coef]
@[simp] theorem coef_cons_succ (a : Bool) (p : List Bool) (i : Nat) :
    coef (a :: p) (i + 1) = coef p i := by simp [coef]

theorem coef_polyAdd (p q : List Bool) (i : Nat) :
    coef (polyAdd p q) i = (coef p i ^^ coef q i) := by
  induction p generalizing q i with
  | nil => simp [polyAdd, coef_nil]
  | cons a p ih =>
    cases q with
    | nil => simp [polyAdd, coef_nil]
    | cons b q =>
      cases i with
      | zero => simp [polyAdd]
      | succ i => simp [polyAdd, ih]

theorem coef_polyShift (x : Nat) (p : List Bool) (i : Nat) :
    coef (polyShift x p) i = (decide (x ≤ i) && coef p (i - x)) := by
  induction x generalizing i with
  | zero => simp [polyShift]
  | succ x ih =>
    cases i with
    | zero => simp [polyShift, List.replicate_succ]
    | succ i =>
      have := ih i
      simp only [polyShift, List.replicate_succ, List.cons_append, coef_cons_succ] at this ⊢
      rw [this]
      simp

/-- coefficient of `X^k` in `p · S` where `S = Σ σ_i X^i`. -/
def conv (p : List Bool) (σ : Nat → Bool) (k : Nat) : Bool :=
  xsum (k + 1) (fun i => coef p i && σ (k - i))

theorem conv_polyAdd (p q : List Bool) (σ : Nat → Bool) (k : Nat) :
    conv (polyAdd p q) σ k = (conv p σ k ^^ conv q σ k) := by
  unfold conv
  rw [← xsum_xor]
  apply xsum_congr
  intro i _
  rw [coef_polyAdd]
  cases coef p i <;> cases coef q i <;> cases σ (k - i) <;> rfl

theorem conv_polyShift (x : Nat) (p : List Bool) (σ : Nat → Bool) (k : Nat) :
    conv (polyShift x p) σ k = (decide (x ≤ k) && conv p σ (k - x)) := by
  unfold conv
  by_cases hx : x ≤ k
  · have e : k + 1 = x + (k - x + 1) := by omega
    rw [e, xsum_add, xsum_false]
    · simp only [hx, decide_true, Bool.true_and, Bool.false_xor]
      apply xsum_congr
      intro i hi
      rw [coef_polyShift]
      have h1 : x ≤ x + i := by omega
      have h2 : x + i - x = i := by omega
      have h3 : x + (k - x + 1) - 1 - (x + i) = k - x - i := by omega
      have h4 : x + (k - x + 1) - 1 = k := by omega
      simp only [h1, decide_true, Bool.true_and, h2]
      congr 2
      omega
    · intro i hi
      rw [coef_polyShift]
      have : ¬ x ≤ i := by omega
      simp [this]
  · simp only [hx, decide_false, Bool.false_and]
    apply xsum_false
    intro i hi
    rw [coef_polyShift]
    have : ¬ x ≤ i := by omega
    simp [this]

/-- with `p_0 = 1` and `deg p ≤ L ≤ k`, the convolution coefficient is the textbook
discrepancy form `σ_k ⊕ Σ_{i=1..L} p_i σ_{k-i}`. -/
theorem conv_eq_disc {p : List Bool} {σ : Nat → Bool} {L k : Nat} (h0 : coef p 0 = true)
    (hdeg : ∀ i, L < i → coef p i = false) (hLk : L ≤ k) :
    conv p σ k = (σ k ^^ xsum L (fun i => coef p (i + 1) && σ (k - 1 - i))) := by
  unfold conv
  rw [xsum_succ', h0]
  simp only [Bool.true_and, Nat.sub_zero]
  congr 1
  rw [xsum_trunc hLk]
  · apply xsum_congr
    intro i _
    congr 2
    omega
  · intro i hi _
    rw [hdeg (i + 1) (by omega)]
    rfl


/-! ### invariants of the textbook recursion -/

/-- Loop invariant of textbook Berlekamp–Massey after reading `σ_0 … σ_{n-1}`.
`LB := n + 1 - x - L` is the length of the LFSR `B`; `n - x` the position where `B` failed. -/
structure TBInv (σ : Nat → Bool) (n : Nat) (st : TB) : Prop where
  c0 : coef st.C 0 = true
  degC : ∀ i, st.L < i → coef st.C i = false
  hL : st.L ≤ n
  hx1 : 1 ≤ st.x
  hxL : st.x + st.L ≤ n + 1
  genC : ∀ k, st.L ≤ k → k < n → conv st.C σ k = false
  degB : ∀ i, n + 1 < i + st.x + st.L → coef st.B i = false
  genB : ∀ k, n + 1 ≤ k + st.x + st.L → k + st.x < n → conv st.B σ k = false
  discB : st.x ≤ n → conv st.B σ (n - st.x) = true
  first : n < st.x → st.L = 0

theorem coef_one (i : Nat) (h : 0 < i) : coef [true] i = false := by
  cases i with
  | zero => omega
  | succ i => simp [coef_nil]

theorem tbInv_init (σ : Nat → Bool) : TBInv σ 0 tbInit where
  c0 := rfl
  degC := fun i h => coef_one i h
  hL := Nat.le_refl _
  hx1 := Nat.le_refl _
  hxL := Nat.le_refl _
  genC := fun k _ h => absurd h (Nat.not_lt_zero _)
  degB := fun i h => coef_one i (by simp [tbInit] at h; omega)
  genB := fun k _ h => absurd h (Nat.not_lt_zero _)
  discB := fun h => by simp [tbInit] at h
  first := fun _ => rfl

theorem disc_eq_conv {σ : Nat → Bool} {n : Nat} {st : TB} (h : TBInv σ n st) :
    disc σ st n = conv st.C σ n := by
  unfold disc
  rw [conv_eq_disc h.c0 h.degC h.hL]

theorem conv_update (C B : List Bool) (x : Nat) (σ : Nat → Bool) (k : Nat) :
    conv (polyAdd C (polyShift x B)) σ k
      = (conv C σ k ^^ (decide (x ≤ k) && conv B σ (k - x))) := by
  rw [conv_polyAdd, conv_polyShift]

theorem coef_update (C B : List Bool) (x i : Nat) :
    coef (polyAdd C (polyShift x B)) i = (coef C i ^^ (decide (x ≤ i) && coef B (i - x))) := by
  rw [coef_polyAdd, coef_polyShift]

/-- no discrepancy: nothing changes but the shift. -/
theorem tbInv_keep {σ : Nat → Bool} {n : Nat} {st : TB} (h : TBInv σ n st)
    (hd : conv st.C σ n = false) :
    TBInv σ (n + 1) { C := st.C, B := st.B, L := st.L, x := st.x + 1 } where
  c0 := h.c0
  degC := h.degC
  hL := Nat.le_succ_of_le h.hL
  hx1 := by simp
  hxL := by have := h.hxL; simp only; omega
  genC := fun k h1 h2 => by
    by_cases hk : k < n
    · exact h.genC k h1 hk
    · have : k = n := by omega
      subst this; exact hd
  degB := fun i hi => h.degB i (by simp only at hi; omega)
  genB := fun k h1 h2 => h.genB k (by simp only at h1; omega) (by simp only at h2; omega)
  discB := fun hx => by
    have e : n + 1 - (st.x + 1) = n - st.x := by omega
    simp only at hx ⊢
    rw [e]; exact h.discB (by omega)
  first := fun hx => h.first (by simp only at hx; omega)

/-- discrepancy, `2L > n`: correction without length change. -/
theorem tbInv_fix {σ : Nat → Bool} {n : Nat} {st : TB} (h : TBInv σ n st)
    (hd : conv st.C σ n = true) (hl : ¬ 2 * st.L ≤ n) :
    TBInv σ (n + 1)
      { C := polyAdd st.C (polyShift st.x st.B), B := st.B, L := st.L, x := st.x + 1 } where
  c0 := by
    have := h.hx1
    have hx : ¬ st.x ≤ 0 := by omega
    simp only [coef_update, h.c0, hx, decide_false, Bool.false_and, Bool.xor_false]
  degC := fun i hi => by
    simp only at hi
    rw [coef_update, h.degC i hi]
    by_cases hx : st.x ≤ i
    · rw [h.degB (i - st.x) (by omega)]; simp
    · simp [hx]
  hL := Nat.le_succ_of_le h.hL
  hx1 := by simp
  hxL := by have := h.hxL; simp only; omega
  genC := fun k h1 h2 => by
    simp only at h1
    have hxn : st.x ≤ n := by
      by_contra hc
      have := h.first (by omega)
      omega
    rw [conv_update]
    by_cases hk : k < n
    · rw [h.genC k h1 hk]
      by_cases hx : st.x ≤ k
      · rw [h.genB (k - st.x) (by omega) (by omega)]; simp
      · simp [hx]
    · have : k = n := by omega
      subst this
      rw [hd, h.discB hxn]; simp [hxn]
  degB := fun i hi => h.degB i (by simp only at hi; omega)
  genB := fun k h1 h2 => h.genB k (by simp only at h1; omega) (by simp only at h2; omega)
  discB := fun hx => by
    have e : n + 1 - (st.x + 1) = n - st.x := by omega
    simp only at hx ⊢
    rw [e]; exact h.discB (by omega)
  first := fun hx => h.first (by simp only at hx; omega)

/-- discrepancy, `2L ≤ n`: correction with length change `L' = n + 1 - L`. -/
theorem tbInv_grow {σ : Nat → Bool} {n : Nat} {st : TB} (h : TBInv σ n st)
    (hd : conv st.C σ n = true) (hl : 2 * st.L ≤ n) :
    TBInv σ (n + 1)
      { C := polyAdd st.C (polyShift st.x st.B), B := st.C, L := n + 1 - st.L, x := 1 } where
  c0 := by
    have := h.hx1
    have hx : ¬ st.x ≤ 0 := by omega
    simp only [coef_update, h.c0, hx, decide_false, Bool.false_and, Bool.xor_false]
  degC := fun i hi => by
    simp only at hi
    rw [coef_update, h.degC i (by omega)]
    by_cases hx : st.x ≤ i
    · rw [h.degB (i - st.x) (by omega)]; simp
    · simp [hx]
  hL := by simp only; omega
  hx1 := Nat.le_refl _
  hxL := by simp only; omega
  genC := fun k h1 h2 => by
    simp only at h1
    rw [conv_update]
    by_cases hk : k < n
    · rw [h.genC k (by omega) hk]
      by_cases hx : st.x ≤ k
      · rw [h.genB (k - st.x) (by omega) (by omega)]; simp
      · simp [hx]
    · have : k = n := by omega
      subst this
      have hxn : st.x ≤ k := by
        by_contra hc
        have := h.first (by omega)
        omega
      rw [hd, h.discB hxn]; simp [hxn]
  degB := fun i hi => h.degC i (by simp only at hi; omega)
  genB := fun k h1 h2 => h.genC k (by simp only at h1; omega) (by simp only at h2; omega)
  discB := fun _ => by simpa using hd
  first := fun hx => by simp only at hx; omega

theorem tbInv_step {σ : Nat → Bool} {n : Nat} {st : TB} (h : TBInv σ n st) :
    TBInv σ (n + 1) (tbStep σ n st) := by
  unfold tbStep
  rw [disc_eq_conv h]
  by_cases hd : conv st.C σ n = true
  · rw [if_pos hd]
    by_cases hl : 2 * st.L ≤ n
    · rw [if_pos hl]; exact tbInv_grow h hd hl
    · rw [if_neg hl]; exact tbInv_fix h hd hl
  · rw [if_neg hd]
    exact tbInv_keep h (by simpa using hd)

theorem tbInv_run (σ : Nat → Bool) (n : Nat) : TBInv σ n (tbRun σ n) := by
  induction n with
  | zero => exact tbInv_init σ
  | succ n ih => exact tbInv_step ih

/-! ### LFSRs generating a prefix; Massey's lemma -/

/-- `taps` generates `σ_0 … σ_{n-1}`. -/
def Gen (taps : List Bool) (σ : Nat → Bool) (n : Nat) : Prop :=
  ∀ k, taps.length ≤ k → k < n → σ k = feedback taps σ k

theorem Gen.mono {taps : List Bool} {σ : Nat → Bool} {n m : Nat} (h : Gen taps σ n)
    (hmn : m ≤ n) : Gen taps σ m := fun k h1 h2 => h k h1 (by omega)

theorem generates_iff_gen (taps s : List Bool) : generates taps s ↔ Gen taps (sbit s) s.length :=
  Iff.rfl

/-- **Massey's lemma.** If an LFSR of length `L` generates `σ_0 … σ_{n-1}` but not `σ_n`, every
LFSR generating `σ_0 … σ_n` has length at least `n + 1 - L`. -/
theorem massey_lemma {c c' : List Bool} {σ : Nat → Bool} {n : Nat}
    (hc : Gen c σ n) (hfail : σ n ≠ feedback c σ n) (hc' : Gen c' σ (n + 1)) :
    n + 1 - c.length ≤ c'.length := by
  by_contra hlt
  have hsum : c'.length + c.length ≤ n := by omega
  apply hfail
  -- σ_n = Σ_i c'_i σ_{n-1-i}
  rw [hc' n (by omega) (by omega)]
  unfold feedback
  -- expand each σ_{n-1-i} with c
  have e1 : xsum c'.length (fun i => coef c' i && σ (n - 1 - i))
      = xsum c'.length (fun i => xsum c.length
          (fun j => coef c' i && (coef c j && σ (n - 1 - i - 1 - j)))) := by
    apply xsum_congr
    intro i hi
    rw [hc (n - 1 - i) (by omega) (by omega)]
    unfold feedback
    rw [xsum_and_left]
  have e2 : xsum c.length (fun j => coef c j && σ (n - 1 - j))
      = xsum c.length (fun j => xsum c'.length
          (fun i => coef c' i && (coef c j && σ (n - 1 - i - 1 - j)))) := by
    apply xsum_congr
    intro j hj
    rw [hc' (n - 1 - j) (by omega) (by omega)]
    unfold feedback
    rw [xsum_and_left]
    apply xsum_congr
    intro i hi
    have : n - 1 - j - 1 - i = n - 1 - i - 1 - j := by omega
    rw [this]
    cases coef c j <;> cases coef c' i <;> cases σ (n - 1 - i - 1 - j) <;> rfl
  rw [e1, e2, xsum_comm]

/-- the taps `c_1 … c_L` read off the connection polynomial. -/
def tapsOf (st : TB) : List Bool := (List.range st.L).map fun i => coef st.C (i + 1)

@[simp] theorem tapsOf_length (st : TB) : (tapsOf st).length = st.L := by simp [tapsOf]

theorem coef_tapsOf (st : TB) (i : Nat) (h : i < st.L) : coef (tapsOf st) i = coef st.C (i + 1) := by
  simp [tapsOf, coef, h]

theorem feedback_tapsOf (st : TB) (σ : Nat → Bool) (k : Nat) :
    feedback (tapsOf st) σ k = xsum st.L (fun i => coef st.C (i + 1) && σ (k - 1 - i)) := by
  unfold feedback
  rw [tapsOf_length]
  apply xsum_congr
  intro i hi
  rw [coef_tapsOf st i hi]

theorem conv_eq_feedback {σ : Nat → Bool} {n : Nat} {st : TB} (h : TBInv σ n st) (k : Nat)
    (hk : st.L ≤ k) : conv st.C σ k = (σ k ^^ feedback (tapsOf st) σ k) := by
  rw [feedback_tapsOf, conv_eq_disc h.c0 h.degC hk]

/-- the LFSR read off the textbook state generates everything read so far. -/
theorem tbInv_gen {σ : Nat → Bool} {n : Nat} {st : TB} (h : TBInv σ n st) :
    Gen (tapsOf st) σ n := by
  intro k h1 h2
  rw [tapsOf_length] at h1
  have := h.genC k h1 h2
  rw [conv_eq_feedback h k h1] at this
  revert this
  cases σ k <;> cases feedback (tapsOf st) σ k <;> simp

/-- `L` is a lower bound for every LFSR generating `σ_0 … σ_{n-1}`. -/
theorem tbRun_minimal (σ : Nat → Bool) (n : Nat) :
    ∀ taps : List Bool, Gen taps σ n → (tbRun σ n).L ≤ taps.length := by
  induction n with
  | zero => intro taps _; exact Nat.zero_le _
  | succ n ih =>
    intro taps hg
    have hinv := tbInv_run σ n
    have hprev := ih taps (hg.mono (Nat.le_succ n))
    show (tbStep σ n (tbRun σ n)).L ≤ taps.length
    unfold tbStep
    rw [disc_eq_conv hinv]
    by_cases hd : conv (tbRun σ n).C σ n = true
    · rw [if_pos hd]
      by_cases hl : 2 * (tbRun σ n).L ≤ n
      · rw [if_pos hl]
        show n + 1 - (tbRun σ n).L ≤ taps.length
        have hfail : σ n ≠ feedback (tapsOf (tbRun σ n)) σ n := by
          rw [conv_eq_feedback hinv n hinv.hL] at hd
          revert hd
          cases σ n <;> cases feedback (tapsOf (tbRun σ n)) σ n <;> simp
        have := massey_lemma (tbInv_gen hinv) hfail hg
        rwa [tapsOf_length] at this
      · rw [if_neg hl]; exact hprev
    · rw [if_neg hd]; exact hprev

/-- **Massey's theorem** at the level of prefixes of an infinite sequence. -/
theorem tbRun_shortest (σ : Nat → Bool) (n : Nat) :
    (∃ taps : List Bool, taps.length = (tbRun σ n).L ∧ Gen taps σ n) ∧
      ∀ taps : List Bool, Gen taps σ n → (tbRun σ n).L ≤ taps.length :=
  ⟨⟨tapsOf (tbRun σ n), tapsOf_length _, tbInv_gen (tbInv_run σ n)⟩, tbRun_minimal σ n⟩

/-- **Massey's theorem**: the textbook Berlekamp–Massey length is the length of the shortest
LFSR generating `s`, for every finite bit sequence `s`. -/
theorem textbookL_isShortest (s : List Bool) : IsShortestLfsr s (textbookL s) :=
  tbRun_shortest (sbit s) s.length

/-! ### the brute-force definition -/

theorem IsShortestLfsr.unique {s : List Bool} {a b : Nat} (ha : IsShortestLfsr s a)
    (hb : IsShortestLfsr s b) : a = b := by
  obtain ⟨⟨ta, rfl, ga⟩, ma⟩ := ha
  obtain ⟨⟨tb, rfl, gb⟩, mb⟩ := hb
  exact Nat.le_antisymm (ma tb gb) (mb ta ga)

theorem generatesB_iff (taps s : List Bool) : generatesB taps s = true ↔ generates taps s := by
  unfold generatesB generates
  simp only [List.all_eq_true, List.mem_range, Bool.or_eq_true, decide_eq_true_eq, beq_iff_eq]
  constructor
  · intro h k h1 h2
    rcases h k h2 with h3 | h3
    · omega
    · exact h3
  · intro h k h2
    by_cases h1 : k < taps.length
    · exact Or.inl h1
    · exact Or.inr (h k (by omega) h2)

instance (taps s : List Bool) : Decidable (generates taps s) :=
  decidable_of_iff _ (generatesB_iff taps s)

theorem mem_allSeqs (n : Nat) (s : List Bool) : s ∈ allSeqs n ↔ s.length = n := by
  induction n generalizing s with
  | zero => simp [allSeqs]
  | succ n ih =>
    simp only [allSeqs, List.mem_flatMap, List.mem_cons, List.not_mem_nil, or_false]
    constructor
    · rintro ⟨t, ht, rfl | rfl⟩ <;> simp [(ih t).1 ht]
    · intro hs
      have hne : s ≠ [] := by intro h; simp [h] at hs
      refine ⟨s.dropLast, (ih _).2 (by simp [hs]), ?_⟩
      have := List.dropLast_concat_getLast hne
      cases hb : s.getLast hne
      · left; rw [← hb]; exact this.symm
      · right; rw [← hb]; exact this.symm

theorem hasLfsrB_iff (L : Nat) (s : List Bool) :
    hasLfsrB L s = true ↔ ∃ taps : List Bool, taps.length = L ∧ generates taps s := by
  unfold hasLfsrB
  simp only [List.any_eq_true, mem_allSeqs, generatesB_iff]

theorem findFirst_spec (p : Nat → Bool) (fuel L : Nat) :
    L ≤ findFirst p fuel L ∧ findFirst p fuel L ≤ L + fuel ∧
      (∀ j, L ≤ j → j < findFirst p fuel L → p j = false) ∧
      (findFirst p fuel L < L + fuel → p (findFirst p fuel L) = true) := by
  induction fuel generalizing L with
  | zero => simp [findFirst]; intro j h1 h2; omega
  | succ fuel ih =>
    unfold findFirst
    by_cases hp : p L = true
    · rw [if_pos hp]
      refine ⟨Nat.le_refl _, by omega, fun j h1 h2 => by omega, fun _ => hp⟩
    · rw [if_neg hp]
      obtain ⟨h1, h2, h3, h4⟩ := ih (L + 1)
      refine ⟨by omega, by omega, fun j hj1 hj2 => ?_, fun h => h4 (by omega)⟩
      by_cases hj : j = L
      · subst hj; simpa using hp
      · exact h3 j (by omega) hj2

/-- any LFSR as long as the sequence generates it (vacuously). -/
theorem generates_of_length_ge (taps s : List Bool) (h : s.length ≤ taps.length) :
    generates taps s := fun k h1 h2 => by omega

/-- The brute-force search returns the length of the shortest LFSR. -/
theorem shortestLfsr_isShortest (s : List Bool) : IsShortestLfsr s (shortestLfsr s) := by
  unfold shortestLfsr
  obtain ⟨_, h2, h3, h4⟩ := findFirst_spec (fun L => hasLfsrB L s) s.length 0
  constructor
  · by_cases hlt : findFirst (fun L => hasLfsrB L s) s.length 0 < 0 + s.length
    · exact (hasLfsrB_iff _ s).1 (h4 hlt)
    · have e : findFirst (fun L => hasLfsrB L s) s.length 0 = s.length := by omega
      rw [e]
      exact ⟨List.replicate s.length false, by simp,
        generates_of_length_ge _ _ (by simp)⟩
  · intro taps hg
    by_contra hc
    have := h3 taps.length (Nat.zero_le _) (by omega)
    have h5 : hasLfsrB taps.length s = true := (hasLfsrB_iff _ s).2 ⟨taps, rfl, hg⟩
    rw [h5] at this
    exact Bool.noConfusion this

/-- **Massey's theorem**, computational form. -/
theorem textbookL_eq_shortestLfsr (s : List Bool) : textbookL s = shortestLfsr s :=
  (textbookL_isShortest s).unique (shortestLfsr_isShortest s)

/-! ### counting sequences by linear complexity -/

theorem tbRun_congr {σ τ : Nat → Bool} {n : Nat} (h : ∀ k, k < n → σ k = τ k) :
    tbRun σ n = tbRun τ n := by
  induction n with
  | zero => rfl
  | succ n ih =>
    show tbStep σ n (tbRun σ n) = tbStep τ n (tbRun τ n)
    rw [ih (fun k hk => h k (by omega))]
    have hd : disc σ (tbRun τ n) n = disc τ (tbRun τ n) n := by
      unfold disc
      rw [h n (by omega)]
      congr 1
      apply xsum_congr
      intro i _
      by_cases hn : n = 0
      · subst hn; simp [h 0 (by omega)]
      · rw [h (n - 1 - i) (by omega)]
    unfold tbStep
    rw [hd]

theorem sbit_append_lt (s t : List Bool) (k : Nat) (h : k < s.length) :
    sbit (s ++ t) k = sbit s k := by
  simp [sbit, List.getD_eq_getElem?_getD, List.getElem?_append_left h]

theorem sbit_snoc (s : List Bool) (b : Bool) : sbit (s ++ [b]) s.length = b := by
  simp [sbit, List.getD_eq_getElem?_getD]

/-- the bit the current LFSR predicts for position `|s|`. -/
def predicted (s : List Bool) : Bool :=
  xsum (tbRun (sbit s) s.length).L
    (fun i => coef (tbRun (sbit s) s.length).C (i + 1) && sbit s (s.length - 1 - i))

/-- length after a discrepancy at step `n` from length `l`. -/
def upd (n l : Nat) : Nat := if 2 * l ≤ n then n + 1 - l else l

theorem upd_eq_max (n l : Nat) : upd n l = max l (n + 1 - l) := by
  unfold upd; split <;> omega

/-- **Step structure of the textbook recursion**: appending the predicted bit keeps `L`; appending
the other bit moves `L` to `max L (n + 1 - L)`. -/
theorem textbookL_snoc (s : List Bool) (b : Bool) :
    textbookL (s ++ [b]) =
      if (b ^^ predicted s) = true then upd s.length (textbookL s) else textbookL s := by
  have hrun : tbRun (sbit (s ++ [b])) s.length = tbRun (sbit s) s.length :=
    tbRun_congr (fun k hk => sbit_append_lt s [b] k hk)
  have hL := (tbInv_run (sbit s) s.length).hL
  have hdisc : disc (sbit (s ++ [b])) (tbRun (sbit s) s.length) s.length = (b ^^ predicted s) := by
    unfold disc predicted
    rw [sbit_snoc]
    congr 1
    apply xsum_congr
    intro i hi
    rw [sbit_append_lt s [b] _ (by omega)]
  unfold textbookL
  rw [List.length_append, List.length_singleton]
  show (tbStep (sbit (s ++ [b])) s.length (tbRun (sbit (s ++ [b])) s.length)).L = _
  rw [hrun]
  unfold tbStep
  rw [hdisc]
  unfold upd
  split
  · split <;> rfl
  · rfl

/-- number of sequences of length `n` to which textbook Berlekamp–Massey assigns length `m`. -/
def countL (n m : Nat) : Nat := (allSeqs n).countP (fun s => decide (textbookL s = m))

theorem countP_ext (n m : Nat) (l : List (List Bool)) (hl : ∀ s ∈ l, s.length = n) :
    (l.flatMap fun s => [s ++ [false], s ++ [true]]).countP (fun s => decide (textbookL s = m))
      = l.countP (fun s => decide (textbookL s = m))
        + l.countP (fun s => decide (upd n (textbookL s) = m)) := by
  induction l with
  | nil => rfl
  | cons s l ih =>
    have hs : s.length = n := hl s (by simp)
    rw [List.flatMap_cons, List.countP_append, ih (fun t ht => hl t (by simp [ht]))]
    simp only [List.countP_cons, List.countP_nil, textbookL_snoc, hs]
    cases predicted s <;> simp <;> omega

theorem upd_indicator (n l m : Nat) :
    (if upd n l = m then 1 else 0) =
      (if n < 2 * m then (if l = m then 1 else 0) else 0)
        + (if n + 2 ≤ 2 * m ∧ m ≤ n + 1 then (if l = n + 1 - m then 1 else 0) else 0) := by
  unfold upd
  split_ifs <;> omega

theorem countP_upd (n m : Nat) (l : List (List Bool)) :
    l.countP (fun s => decide (upd n (textbookL s) = m))
      = (if n < 2 * m then l.countP (fun s => decide (textbookL s = m)) else 0)
        + (if n + 2 ≤ 2 * m ∧ m ≤ n + 1
            then l.countP (fun s => decide (textbookL s = n + 1 - m)) else 0) := by
  induction l with
  | nil => simp
  | cons s l ih =>
    simp only [List.countP_cons, ih, decide_eq_true_eq, upd_indicator n (textbookL s) m]
    split_ifs <;> omega

theorem countL_succ (n m : Nat) :
    countL (n + 1) m = countL n m + (if n < 2 * m then countL n m else 0)
      + (if n + 2 ≤ 2 * m ∧ m ≤ n + 1 then countL n (n + 1 - m) else 0) := by
  unfold countL
  rw [allSeqs, countP_ext n m _ (fun s hs => (mem_allSeqs n s).1 hs), countP_upd, Nat.add_assoc]

/-- the closed form (`LfsrCount` for `n ≥ 1`; for `n = 0` it counts the empty sequence). -/
def cnt (n m : Nat) : Nat :=
  if m = 0 then 1 else if m ≤ n / 2 then 2 * 4 ^ (m - 1) else if m ≤ n then 4 ^ (n - m) else 0

theorem cnt_succ (n m : Nat) :
    cnt (n + 1) m = cnt n m + (if n < 2 * m then cnt n m else 0)
      + (if n + 2 ≤ 2 * m ∧ m ≤ n + 1 then cnt n (n + 1 - m) else 0) := by
  unfold cnt
  by_cases h0 : m = 0
  · subst h0; simp
  by_cases h1 : 2 * m ≤ n
  · -- both in the lower branch
    have a1 : m ≤ (n + 1) / 2 := by omega
    have a2 : m ≤ n / 2 := by omega
    have a3 : ¬ n < 2 * m := by omega
    have a4 : ¬ (n + 2 ≤ 2 * m ∧ m ≤ n + 1) := by omega
    simp [h0, a1, a2, a3, a4]
  by_cases h2 : 2 * m = n + 1
  · have a1 : m ≤ (n + 1) / 2 := by omega
    have a2 : ¬ m ≤ n / 2 := by omega
    have a3 : n < 2 * m := by omega
    have a4 : ¬ (n + 2 ≤ 2 * m ∧ m ≤ n + 1) := by omega
    have a5 : m ≤ n := by omega
    have a6 : n - m = m - 1 := by omega
    simp [h0, a1, a2, a3, a4, a5, a6]
    omega
  by_cases h3 : m ≤ n
  · have a1 : ¬ m ≤ (n + 1) / 2 := by omega
    have a2 : ¬ m ≤ n / 2 := by omega
    have a3 : n < 2 * m := by omega
    have a4 : n + 2 ≤ 2 * m ∧ m ≤ n + 1 := by omega
    have a5 : m ≤ n + 1 := by omega
    have a6 : n + 1 - m ≠ 0 := by omega
    have a7 : n + 1 - m ≤ n / 2 := by omega
    have a8 : n + 1 - m = (n - m) + 1 := by omega
    have a9 : n + 1 - m - 1 = n - m := by omega
    simp only [h0, a1, a2, a3, a4, a6, a7, h3, if_true, if_false, and_self, a9]
    rw [a8, Nat.pow_succ]
    omega
  by_cases h4 : m = n + 1
  · subst h4
    have a1 : ¬ n + 1 ≤ (n + 1) / 2 := by omega
    have a2 : ¬ n + 1 ≤ n / 2 := by omega
    have a3 : n < 2 * (n + 1) := by omega
    simp [a1, a2, a3]
    omega
  · have a1 : ¬ m ≤ (n + 1) / 2 := by omega
    have a2 : ¬ m ≤ n / 2 := by omega
    have a4 : ¬ (n + 2 ≤ 2 * m ∧ m ≤ n + 1) := by omega
    have a5 : ¬ m ≤ n + 1 := by omega
    simp [h0, a1, a2, a5, h3]

theorem countL_zero (m : Nat) : countL 0 m = cnt 0 m := by
  unfold countL cnt
  have : textbookL [] = 0 := rfl
  by_cases h : m = 0
  · subst h; simp [allSeqs, this]
  · have h' : ¬ 0 = m := fun e => h e.symm
    simp [allSeqs, this, h, h']

/-- **Counting theorem for the textbook recursion**: exactly `cnt n m` of the `2^n` sequences
of length `n` get linear complexity `m`. -/
theorem countL_eq_cnt (n m : Nat) : countL n m = cnt n m := by
  induction n generalizing m with
  | zero => exact countL_zero m
  | succ n ih => rw [countL_succ, cnt_succ, ih, ih]

theorem nodup_allSeqs (n : Nat) : (allSeqs n).Nodup := by
  induction n with
  | zero => simp [allSeqs]
  | succ n ih =>
    rw [allSeqs, List.nodup_flatMap]
    refine ⟨fun s _ => by simp, ?_⟩
    refine List.Pairwise.imp_of_mem ?_ ih
    intro a b _ _ hab
    simp only [Function.onFun, List.disjoint_cons_left, List.mem_cons, List.append_cancel_right_eq,
      List.not_mem_nil, or_false, List.disjoint_nil_left, and_true]
    simp [hab]

theorem length_allSeqs (n : Nat) : (allSeqs n).length = 2 ^ n := by
  induction n with
  | zero => rfl
  | succ n ih =>
    have key : ∀ l : List (List Bool),
        (l.flatMap fun s => [s ++ [false], s ++ [true]]).length = 2 * l.length := by
      intro l
      induction l with
      | nil => rfl
      | cons a l ihl => rw [List.flatMap_cons, List.length_append, ihl]; simp; omega
    rw [allSeqs, key, ih, Nat.pow_succ, Nat.mul_comm]

end Paranoid.Lfsr
