/-
Proofs/LinAlg.lean — helper lemmas for the linear-algebra part of C19
(`upper_triangular_solve`, `echelon_form`, `solve_right` of linalg_util.py; Model/LinAlg.lean).

Contents: `PyQ` (gmpy2.mpq) ↦ ℚ; `dotQ`; soundness/totality of `upperTriangularSolve`;
row moves (`pop`/`insert`) as permutations with untouched prefix/suffix; row-level and
state-level effect of one elimination / one exact division; loop invariants
(`ElimInv`, `DivInv`, `GoodInv`, `BadInv`); uniqueness for triangular systems; soundness of
`solveRightX .repaired` (`solveRightX_sound`); solution-set equivalences for every kind of step.
-/
import ParanoidModel.Model.LinAlg
import Mathlib.Tactic.Ring
import Mathlib.Tactic.Linarith
import Mathlib.Tactic.FieldSimp
import Mathlib.Data.Int.GCD
import Mathlib.Data.Rat.Defs
import Mathlib.Data.Nat.Cast.Field
import Mathlib.Data.Int.Cast.Field
import Mathlib.Algebra.Order.Field.Rat
import Mathlib.Data.List.Forall2
import Mathlib.Data.List.Perm.Basic
import Mathlib.Tactic.LinearCombination

namespace Paranoid.LA

/-- the rational number a `PyQ` stands for. -/
def PyQ.toRat (q : PyQ) : ℚ := (q.num : ℚ) / (q.den : ℚ)

/-- well-formed: positive denominator. -/
def PyQ.WF (q : PyQ) : Prop := q.den ≠ 0

theorem PyQ.norm_spec (n d : Int) (hd : d ≠ 0) :
    (PyQ.norm n d).WF ∧ (PyQ.norm n d).toRat = (n : ℚ) / (d : ℚ) := by
  have hg : 0 < Int.gcd n d := Int.gcd_pos_of_ne_zero_right _ hd
  have hgn : ((Int.gcd n d : Nat) : Int) ∣ n := Int.gcd_dvd_left n d
  have hgd : (Int.gcd n d : Nat) ∣ d.natAbs := Int.gcd_dvd_natAbs_right n d
  have hgq : ((Int.gcd n d : Nat) : ℚ) ≠ 0 := by exact_mod_cast hg.ne'
  have hdq : (d : ℚ) ≠ 0 := by exact_mod_cast hd
  have hna : 0 < d.natAbs := Int.natAbs_pos.mpr hd
  constructor
  · unfold PyQ.WF PyQ.norm
    simp only
    exact (Nat.div_pos (Nat.le_of_dvd hna hgd) hg).ne'
  · unfold PyQ.toRat PyQ.norm
    simp only
    rw [Nat.cast_div hgd hgq]
    have hnum : ∀ m : Int, ((Int.gcd n d : Nat) : Int) ∣ m →
        (((m / ((Int.gcd n d : Nat) : Int) : Int)) : ℚ) = (m : ℚ) / ((Int.gcd n d : Nat) : ℚ) := by
      intro m hm
      rw [Int.cast_div hm (by exact_mod_cast hg.ne')]
      push_cast
      rfl
    have habs : ((d.natAbs : Nat) : ℚ) = if d < 0 then -(d : ℚ) else (d : ℚ) := by
      split
      · rename_i h
        have : ((d.natAbs : Nat) : Int) = -d := by omega
        rw [← Int.cast_natCast, this, Int.cast_neg]
      · rename_i h
        have : ((d.natAbs : Nat) : Int) = d := by omega
        rw [← Int.cast_natCast, this]
    rw [habs]
    split
    · rw [hnum _ ((Int.dvd_neg).mpr hgn)]
      push_cast
      field_simp
    · rw [hnum _ hgn]
      field_simp

theorem PyQ.ofInt_spec (n : Int) : (PyQ.ofInt n).WF ∧ (PyQ.ofInt n).toRat = n := by
  simp [PyQ.ofInt, PyQ.WF, PyQ.toRat]

theorem PyQ.add_spec (x y : PyQ) (hx : x.WF) (hy : y.WF) :
    (x.add y).WF ∧ (x.add y).toRat = x.toRat + y.toRat := by
  unfold PyQ.WF at hx hy
  have hxq : (x.den : ℚ) ≠ 0 := by exact_mod_cast hx
  have hyq : (y.den : ℚ) ≠ 0 := by exact_mod_cast hy
  have hd : ((x.den : Int) * (y.den : Int)) ≠ 0 := by
    exact_mod_cast Nat.mul_ne_zero hx hy
  obtain ⟨h1, h2⟩ := PyQ.norm_spec (x.num * y.den + y.num * x.den) (x.den * y.den) hd
  refine ⟨h1, ?_⟩
  unfold PyQ.add
  rw [h2]
  unfold PyQ.toRat
  push_cast
  field_simp

theorem PyQ.sub_spec (x y : PyQ) (hx : x.WF) (hy : y.WF) :
    (x.sub y).WF ∧ (x.sub y).toRat = x.toRat - y.toRat := by
  unfold PyQ.WF at hx hy
  have hxq : (x.den : ℚ) ≠ 0 := by exact_mod_cast hx
  have hyq : (y.den : ℚ) ≠ 0 := by exact_mod_cast hy
  have hd : ((x.den : Int) * (y.den : Int)) ≠ 0 := by
    exact_mod_cast Nat.mul_ne_zero hx hy
  obtain ⟨h1, h2⟩ := PyQ.norm_spec (x.num * y.den - y.num * x.den) (x.den * y.den) hd
  refine ⟨h1, ?_⟩
  unfold PyQ.sub
  rw [h2]
  unfold PyQ.toRat
  push_cast
  field_simp

theorem PyQ.mulInt_spec (k : Int) (x : PyQ) (hx : x.WF) :
    (PyQ.mulInt k x).WF ∧ (PyQ.mulInt k x).toRat = k * x.toRat := by
  unfold PyQ.WF at hx
  have hxq : (x.den : ℚ) ≠ 0 := by exact_mod_cast hx
  have hd : ((x.den : Int)) ≠ 0 := by exact_mod_cast hx
  obtain ⟨h1, h2⟩ := PyQ.norm_spec (k * x.num) x.den hd
  refine ⟨h1, ?_⟩
  unfold PyQ.mulInt
  rw [h2]
  unfold PyQ.toRat
  push_cast
  field_simp

theorem PyQ.divInt_spec (x : PyQ) (d : Int) (hx : x.WF) (hd : d ≠ 0) :
    (x.divInt d).WF ∧ (x.divInt d).toRat = x.toRat / d := by
  unfold PyQ.WF at hx
  have hxq : (x.den : ℚ) ≠ 0 := by exact_mod_cast hx
  have hdq : (d : ℚ) ≠ 0 := by exact_mod_cast hd
  have hd' : ((x.den : Int) * d) ≠ 0 := by
    apply Int.mul_ne_zero _ hd
    exact_mod_cast hx
  obtain ⟨h1, h2⟩ := PyQ.norm_spec x.num (x.den * d) hd'
  refine ⟨h1, ?_⟩
  unfold PyQ.divInt
  rw [h2]
  unfold PyQ.toRat
  push_cast
  field_simp

/-! ### dot product of an integer row with a rational vector -/

/-- `Σ_c row[c] * x[c]` (over the common length). -/
def dotQ : List Int → List ℚ → ℚ
  | r :: rs, x :: xs => (r : ℚ) * x + dotQ rs xs
  | _, _ => 0

@[simp] theorem dotQ_nil_left (x : List ℚ) : dotQ [] x = 0 := by cases x <;> rfl
@[simp] theorem dotQ_nil_right (r : List Int) : dotQ r [] = 0 := by cases r <;> rfl
@[simp] theorem dotQ_cons (r : Int) (rs : List Int) (x : ℚ) (xs : List ℚ) :
    dotQ (r :: rs) (x :: xs) = (r : ℚ) * x + dotQ rs xs := rfl

/-! ### `upper_triangular_solve` -/

theorem utsRowSum_spec (row : List Int) (xs : List PyQ) (hwf : ∀ x ∈ xs, x.WF) :
    ∀ (cnt j : Nat) (acc s : PyQ), acc.WF → utsRowSum row xs cnt j acc = .ok s →
      j + cnt = xs.length →
      s.WF ∧ s.toRat = acc.toRat + dotQ (row.drop j) ((xs.map PyQ.toRat).drop j) := by
  intro cnt
  induction cnt with
  | zero =>
    intro j acc s hacc h hj
    simp only [utsRowSum, Except.ok.injEq] at h
    subst h
    have : (xs.map PyQ.toRat).drop j = [] := by
      apply List.drop_eq_nil_of_le
      simp; omega
    simp [this, hacc]
  | succ cnt ih =>
    intro j acc s hacc h hj
    unfold utsRowSum at h
    split at h
    · rename_i v x hv hx
      obtain ⟨hjr, hv'⟩ := List.getElem?_eq_some_iff.mp hv
      obtain ⟨hjx, hx'⟩ := List.getElem?_eq_some_iff.mp hx
      have hxwf : x.WF := hwf x (hx' ▸ List.getElem_mem hjx)
      obtain ⟨m1, m2⟩ := PyQ.mulInt_spec v x hxwf
      obtain ⟨a1, a2⟩ := PyQ.add_spec acc (PyQ.mulInt v x) hacc m1
      obtain ⟨r1, r2⟩ := ih (j + 1) _ s a1 h (by omega)
      refine ⟨r1, ?_⟩
      rw [r2, a2, m2]
      have hjm : j < (xs.map PyQ.toRat).length := by simpa using hjx
      rw [List.drop_eq_getElem_cons hjr, List.drop_eq_getElem_cons hjm]
      simp only [dotQ_cons, List.getElem_map, hv', hx']
      ring
    · simp at h

/-- the equation of row `i` restricted to the columns `≥ i`:
`a[i][i]*x[i] + Σ_{j>i} a[i][j]*x[j] = b[i]`. -/
def UpperRowEq (a : List (List Int)) (b : List Int) (x : List ℚ) (i : Nat) : Prop :=
  ∀ row bi, a[i]? = some row → b[i]? = some bi → dotQ (row.drop i) (x.drop i) = (bi : ℚ)

/-- the diagonal entry of row `i` exists and is not zero. -/
def DiagNZ (a : List (List Int)) (i : Nat) : Prop :=
  ∃ row v, a[i]? = some row ∧ row[i]? = some v ∧ v ≠ 0

theorem utsStep_some (a : List (List Int)) (b : List Int) (ncols i : Nat) (xs xs' : List PyQ)
    (hwf : ∀ x ∈ xs, x.WF) (hlen : xs.length = ncols) (hi : i < ncols)
    (h : utsStep a b ncols i xs = .ok (some xs')) :
    (∃ v : PyQ, v.WF ∧ xs' = xs.set i v) ∧ UpperRowEq a b (xs'.map PyQ.toRat) i ∧ DiagNZ a i := by
  unfold utsStep at h
  split at h
  · simp at h
  rename_i row hrow
  split at h
  · simp at h
  rename_i den hden
  split at h
  · simp at h
  rename_i hdz
  split at h
  · simp at h
  rename_i bi hbi
  split at h
  · simp at h
  rename_i s hs
  split at h
  · rename_i hix
    simp only [Except.ok.injEq, Option.some.injEq] at h
    obtain ⟨o1, o2⟩ := PyQ.ofInt_spec 0
    obtain ⟨s1, s2⟩ := utsRowSum_spec row xs hwf _ _ _ _ o1 hs (by omega)
    obtain ⟨b1, b2⟩ := PyQ.ofInt_spec bi
    obtain ⟨d1, d2⟩ := PyQ.sub_spec _ _ b1 s1
    obtain ⟨q1, q2⟩ := PyQ.divInt_spec _ den d1 hdz
    refine ⟨⟨_, q1, h.symm⟩, ?_, ?_⟩
    · intro row' bi' hrow' hbi'
      rw [hrow] at hrow'
      rw [hbi] at hbi'
      cases hrow'
      cases hbi'
      obtain ⟨hir, hden'⟩ := List.getElem?_eq_some_iff.mp hden
      rw [← h, List.map_set]
      have hixm : i < ((xs.map PyQ.toRat).set i (((PyQ.ofInt bi).sub s).divInt den).toRat).length := by
        simpa using hix
      rw [List.drop_eq_getElem_cons hir, List.drop_eq_getElem_cons hixm]
      simp only [dotQ_cons, List.getElem_set_self, hden']
      rw [List.drop_set_of_lt (Nat.lt_succ_self i), q2, d2, b2, s2, o2]
      have hdq : (den : ℚ) ≠ 0 := by exact_mod_cast hdz
      field_simp
      ring
    · exact ⟨row, den, hrow, hden, hdz⟩
  · simp at h

theorem utsStep_none (a : List (List Int)) (b : List Int) (ncols i : Nat) (xs : List PyQ)
    (h : utsStep a b ncols i xs = .ok none) : ∃ row, a[i]? = some row ∧ row[i]? = some 0 := by
  unfold utsStep at h
  split at h
  · simp at h
  rename_i row hrow
  split at h
  · simp at h
  rename_i den hden
  split at h
  · rename_i hdz
    exact ⟨row, hrow, hdz ▸ hden⟩
  split at h
  · simp at h
  split at h
  · simp at h
  split at h <;> simp at h

theorem UpperRowEq_set_lt (a : List (List Int)) (b : List Int) (xs : List PyQ) (v : PyQ)
    (i i' : Nat) (hlt : i < i') (h : UpperRowEq a b (xs.map PyQ.toRat) i') :
    UpperRowEq a b ((xs.set i v).map PyQ.toRat) i' := by
  intro row bi hrow hbi
  rw [List.map_set, List.drop_set_of_lt hlt]
  exact h row bi hrow hbi

theorem utsLoop_some (a : List (List Int)) (b : List Int) (ncols : Nat) :
    ∀ (cnt : Nat) (xs r : List PyQ), cnt ≤ ncols → xs.length = ncols → (∀ x ∈ xs, x.WF) →
      (∀ i, cnt ≤ i → i < ncols → UpperRowEq a b (xs.map PyQ.toRat) i ∧ DiagNZ a i) →
      utsLoop a b ncols cnt xs = .ok (some r) →
      r.length = ncols ∧ (∀ x ∈ r, x.WF) ∧
        ∀ i, i < ncols → UpperRowEq a b (r.map PyQ.toRat) i ∧ DiagNZ a i := by
  intro cnt
  induction cnt with
  | zero =>
    intro xs r _ hlen hwf hinv h
    simp only [utsLoop, Except.ok.injEq, Option.some.injEq] at h
    subst h
    exact ⟨hlen, hwf, fun i hi => hinv i (Nat.zero_le _) hi⟩
  | succ i ih =>
    intro xs r hle hlen hwf hinv h
    unfold utsLoop at h
    split at h
    · simp at h
    · simp at h
    · rename_i xs' hstep
      obtain ⟨⟨v, hv, rfl⟩, hrow, hdiag⟩ := utsStep_some a b ncols i xs xs' hwf hlen (by omega) hstep
      apply ih (xs.set i v) r (by omega) (by simpa using hlen)
      · intro x hx
        rcases List.mem_or_eq_of_mem_set hx with hx | rfl
        · exact hwf x hx
        · exact hv
      · intro i' hi' hi'n
        rcases Nat.eq_or_lt_of_le hi' with rfl | hlt
        · exact ⟨hrow, hdiag⟩
        · obtain ⟨e1, e2⟩ := hinv i' (by omega) hi'n
          exact ⟨UpperRowEq_set_lt a b xs v i i' hlt e1, e2⟩
      · exact h

theorem utsLoop_none (a : List (List Int)) (b : List Int) (ncols : Nat) :
    ∀ (cnt : Nat) (xs : List PyQ), utsLoop a b ncols cnt xs = .ok none →
      ∃ i, i < cnt ∧ ∃ row, a[i]? = some row ∧ row[i]? = some 0 := by
  intro cnt
  induction cnt with
  | zero => intro xs h; simp [utsLoop] at h
  | succ i ih =>
    intro xs h
    unfold utsLoop at h
    split at h
    · simp at h
    · rename_i hstep
      exact ⟨i, Nat.lt_succ_self i, utsStep_none a b ncols i xs hstep⟩
    · obtain ⟨i', hi', hr⟩ := ih _ h
      exact ⟨i', by omega, hr⟩

/-- `upper_triangular_solve`: a returned vector has the right length, its entries are
well-formed rationals, every row equation (columns `≥ i`) holds and no diagonal entry is 0. -/
theorem uts_some (a : List (List Int)) (b : List Int) (x : List PyQ)
    (h : upperTriangularSolve a b = .ok (some x)) :
    x.length = a.length ∧ b.length = a.length ∧ (∀ q ∈ x, q.WF) ∧
      ∀ i, i < a.length → UpperRowEq a b (x.map PyQ.toRat) i ∧ DiagNZ a i := by
  unfold upperTriangularSolve at h
  split at h
  · simp at h
  rename_i row0 rest
  split at h
  · simp at h
  rename_i hsq
  split at h
  · simp at h
  rename_i hb
  simp only [ne_eq, Decidable.not_not] at hsq hb
  obtain ⟨h1, h2, h3⟩ := utsLoop_some (row0 :: rest) b row0.length (row0 :: rest).length
    (List.replicate row0.length (PyQ.ofInt 0)) x (by omega) (by simp)
    (by intro q hq; rw [List.eq_of_mem_replicate hq]; exact (PyQ.ofInt_spec 0).1)
    (by intro i hi hi'; omega) h
  exact ⟨by omega, hb.symm, h2, fun i hi => h3 i (by omega)⟩

/-- `upper_triangular_solve` returns `None` only when some diagonal entry is zero. -/
theorem uts_none (a : List (List Int)) (b : List Int)
    (h : upperTriangularSolve a b = .ok none) :
    ∃ i, i < a.length ∧ ∃ row, a[i]? = some row ∧ row[i]? = some 0 := by
  unfold upperTriangularSolve at h
  split at h
  · simp at h
  split at h
  · simp at h
  split at h
  · simp at h
  exact utsLoop_none _ _ _ _ _ h

/-! totality of `upper_triangular_solve` on well-formed input -/

theorem utsRowSum_ok (row : List Int) (xs : List PyQ) :
    ∀ (cnt j : Nat) (acc : PyQ), j + cnt ≤ row.length → j + cnt ≤ xs.length →
      ∃ s, utsRowSum row xs cnt j acc = .ok s := by
  intro cnt
  induction cnt with
  | zero => intro j acc _ _; exact ⟨acc, rfl⟩
  | succ cnt ih =>
    intro j acc h1 h2
    unfold utsRowSum
    have hr : j < row.length := by omega
    have hx : j < xs.length := by omega
    rw [List.getElem?_eq_getElem hr, List.getElem?_eq_getElem hx]
    exact ih (j + 1) _ (by omega) (by omega)

theorem utsStep_len (a : List (List Int)) (b : List Int) (ncols i : Nat) (xs xs' : List PyQ)
    (h : utsStep a b ncols i xs = .ok (some xs')) : xs'.length = xs.length := by
  unfold utsStep at h
  split at h
  · simp at h
  split at h
  · simp at h
  split at h
  · simp at h
  split at h
  · simp at h
  split at h
  · simp at h
  split at h
  · simp only [Except.ok.injEq, Option.some.injEq] at h
    rw [← h]; simp
  · simp at h

theorem utsStep_ok (a : List (List Int)) (b : List Int) (n i : Nat) (xs : List PyQ)
    (hsq : ∀ row ∈ a, row.length = n) (ha : a.length = n) (hb : b.length = n)
    (hx : xs.length = n) (hi : i < n) : ∃ r, utsStep a b n i xs = .ok r := by
  unfold utsStep
  have hia : i < a.length := by omega
  rw [List.getElem?_eq_getElem hia]
  have hrl : (a[i]).length = n := hsq _ (List.getElem_mem hia)
  have hir : i < (a[i]).length := by omega
  simp only [List.getElem?_eq_getElem hir]
  split
  · exact ⟨_, rfl⟩
  have hib : i < b.length := by omega
  simp only [List.getElem?_eq_getElem hib]
  obtain ⟨s, hs⟩ := utsRowSum_ok (a[i]) xs (n - (i + 1)) (i + 1) (PyQ.ofInt 0) (by omega) (by omega)
  rw [hs]
  simp only
  rw [if_pos (by omega)]
  exact ⟨_, rfl⟩

theorem utsLoop_ok (a : List (List Int)) (b : List Int) (n : Nat)
    (hsq : ∀ row ∈ a, row.length = n) (ha : a.length = n) (hb : b.length = n) :
    ∀ (cnt : Nat) (xs : List PyQ), cnt ≤ n → xs.length = n →
      ∃ r, utsLoop a b n cnt xs = .ok r := by
  intro cnt
  induction cnt with
  | zero => intro xs _ _; exact ⟨_, rfl⟩
  | succ i ih =>
    intro xs hle hx
    unfold utsLoop
    obtain ⟨r, hr⟩ := utsStep_ok a b n i xs hsq ha hb hx (by omega)
    rw [hr]
    cases r with
    | none => exact ⟨_, rfl⟩
    | some xs' =>
      simp only
      exact ih xs' (by omega) (by rw [utsStep_len a b n i xs xs' hr, hx])

/-- on a square matrix with a right-hand side of matching length the function does not raise. -/
theorem uts_total (a : List (List Int)) (b : List Int) (hne : a ≠ [])
    (hsq : ∀ row ∈ a, row.length = a.length) (hb : b.length = a.length) :
    ∃ r, upperTriangularSolve a b = .ok r := by
  unfold upperTriangularSolve
  cases a with
  | nil => exact absurd rfl hne
  | cons row0 rest =>
    simp only
    have h0 : row0.length = (row0 :: rest).length := hsq row0 (by simp)
    rw [if_neg (by simp only [ne_eq, Decidable.not_not]; exact h0.symm), if_neg (by simp only [ne_eq, Decidable.not_not]; exact hb.symm)]
    rw [h0]
    exact utsLoop_ok _ b _ hsq rfl hb _ _ (Nat.le_refl _) (by simp)

/-! ### pointwise reasoning about `dotQ` -/

theorem dotQ_cons_right (r : List Int) (x : ℚ) (xs : List ℚ) :
    dotQ r (x :: xs) = (r.getD 0 0 : ℚ) * x + dotQ r.tail xs := by
  cases r <;> simp

theorem getD_tail (r : List Int) (c : Nat) : r.tail.getD c 0 = r.getD (c + 1) 0 := by
  cases r <;> simp

/-- if `α·r'[c] = β·r1[c] + γ·r2[c]` for every column `c < |x|` then the same relation holds
between the dot products with `x` (missing entries count as 0). -/
theorem dotQ_lin3 (α β γ : Int) : ∀ (x : List ℚ) (r' r1 r2 : List Int),
    (∀ c, c < x.length → α * r'.getD c 0 = β * r1.getD c 0 + γ * r2.getD c 0) →
    (α : ℚ) * dotQ r' x = β * dotQ r1 x + γ * dotQ r2 x := by
  intro x
  induction x with
  | nil => intro r' r1 r2 _; simp
  | cons x xs ih =>
    intro r' r1 r2 h
    rw [dotQ_cons_right r', dotQ_cons_right r1, dotQ_cons_right r2]
    have h0 : (α : ℚ) * (r'.getD 0 0 : ℚ) = β * (r1.getD 0 0 : ℚ) + γ * (r2.getD 0 0 : ℚ) := by
      exact_mod_cast h 0 (by simp)
    have ht := ih r'.tail r1.tail r2.tail (by
      intro c hc
      rw [getD_tail, getD_tail, getD_tail]
      exact h (c + 1) (by simpa using hc))
    linear_combination x * h0 + ht

theorem dotQ_congr (x : List ℚ) (r' r : List Int)
    (h : ∀ c, c < x.length → r'.getD c 0 = r.getD c 0) : dotQ r' x = dotQ r x := by
  have := dotQ_lin3 1 1 0 x r' r r (by intro c hc; rw [h c hc]; ring)
  simpa using this

theorem getD_set_int (l : List Int) (k c : Nat) (v : Int) (hk : k < l.length) :
    (l.set k v).getD c 0 = if c = k then v else l.getD c 0 := by
  simp only [List.getD_eq_getElem?_getD, List.getElem?_set]
  by_cases h : k = c
  · subst h; simp [hk]
  · rw [if_neg h, if_neg (Ne.symm h)]

/-! ### generic facts about `Forall₂`, `pyInsert`, `moveRow` -/

theorem forall₂_getElem? {α β} {R : α → β → Prop} {l₁ : List α} {l₂ : List β}
    (h : List.Forall₂ R l₁ l₂) : ∀ (i : Nat) (x : α) (y : β), l₁[i]? = some x → l₂[i]? = some y → R x y := by
  induction h with
  | nil => intro i x y hx; simp at hx
  | cons hr _ ih =>
    intro i x y hx hy
    cases i with
    | zero => simp at hx hy; subst hx; subst hy; exact hr
    | succ i => simp at hx hy; exact ih i x y hx hy

theorem forall₂_set {α β} {R : α → β → Prop} {l₁ : List α} {l₂ : List β}
    (h : List.Forall₂ R l₁ l₂) : ∀ (j : Nat) (x : α) (y : β), R x y →
      List.Forall₂ R (l₁.set j x) (l₂.set j y) := by
  induction h with
  | nil => intro j x y _; simp
  | cons hr ht ih =>
    intro j x y hxy
    cases j with
    | zero => simp; exact ⟨hxy, ht⟩
    | succ j => simp; exact ⟨hr, ih j x y hxy⟩

theorem forall₂_eraseIdx {α β} {R : α → β → Prop} {l₁ : List α} {l₂ : List β}
    (h : List.Forall₂ R l₁ l₂) : ∀ (i : Nat), List.Forall₂ R (l₁.eraseIdx i) (l₂.eraseIdx i) := by
  induction h with
  | nil => intro i; simp
  | cons hr ht ih =>
    intro i
    cases i with
    | zero => simpa using ht
    | succ i => simp; exact ⟨hr, ih i⟩

theorem forall₂_pyInsert {α β} {R : α → β → Prop} {l₁ : List α} {l₂ : List β}
    (h : List.Forall₂ R l₁ l₂) : ∀ (k : Nat) (x : α) (y : β), R x y →
      List.Forall₂ R (pyInsert l₁ k x) (pyInsert l₂ k y) := by
  induction h with
  | nil => intro k x y hxy; simp [pyInsert]; exact hxy
  | cons hr ht ih =>
    intro k x y hxy
    cases k with
    | zero => simp [pyInsert]; exact ⟨hxy, hr, ht⟩
    | succ k =>
      have := ih k x y hxy
      simp only [pyInsert, List.take_succ_cons, List.drop_succ_cons, List.cons_append] at this ⊢
      exact List.Forall₂.cons hr this

theorem forall₂_pyInsertI {α β} {R : α → β → Prop} {l₁ : List α} {l₂ : List β}
    (h : List.Forall₂ R l₁ l₂) (k : Int) (x : α) (y : β) (hxy : R x y) :
    List.Forall₂ R (pyInsertI l₁ k x) (pyInsertI l₂ k y) := by
  cases k with
  | ofNat k => exact forall₂_pyInsert h k x y hxy
  | negSucc k =>
    simp only [pyInsertI]
    rw [h.length_eq]
    exact forall₂_pyInsert h _ x y hxy

theorem forall₂_moveRow {α β} {R : α → β → Prop} {l₁ l₁' : List α} {l₂ l₂' : List β}
    (h : List.Forall₂ R l₁ l₂) (i : Nat) (k : Int) (h1 : moveRow l₁ i k = .ok l₁')
    (h2 : moveRow l₂ i k = .ok l₂') : List.Forall₂ R l₁' l₂' := by
  unfold moveRow at h1 h2
  split at h1
  · rename_i x hx
    split at h2
    · rename_i y hy
      simp only [Except.ok.injEq] at h1 h2
      subst h1; subst h2
      exact forall₂_pyInsertI (forall₂_eraseIdx h i) k x y (forall₂_getElem? h i x y hx hy)
    · simp at h2
  · simp at h1

theorem pyInsert_perm {α} (l : List α) (k : Nat) (x : α) : (pyInsert l k x).Perm (x :: l) := by
  unfold pyInsert
  have := @List.perm_middle α x (l.take k) (l.drop k)
  rwa [List.take_append_drop] at this

theorem pyInsertI_perm {α} (l : List α) (k : Int) (x : α) : (pyInsertI l k x).Perm (x :: l) := by
  cases k <;> exact pyInsert_perm _ _ _

theorem moveRow_perm {α} (l l' : List α) (i : Nat) (k : Int) (h : moveRow l i k = .ok l') :
    l'.Perm l := by
  unfold moveRow at h
  split at h
  · rename_i x hx
    simp only [Except.ok.injEq] at h
    subst h
    obtain ⟨hi, rfl⟩ := List.getElem?_eq_some_iff.mp hx
    exact (pyInsertI_perm _ k _).trans (List.getElem_cons_eraseIdx_perm hi)
  · simp at h

theorem moveRow_length {α} (l l' : List α) (i : Nat) (k : Int) (h : moveRow l i k = .ok l') :
    l'.length = l.length := (moveRow_perm l l' i k h).length_eq

theorem take_eraseIdx_le {α} (l : List α) (j t : Nat) (ht : t ≤ j) :
    (l.eraseIdx j).take t = l.take t := by
  rw [List.eraseIdx_eq_take_drop_succ]
  by_cases hj : j ≤ l.length
  · rw [List.take_append_of_le_length (by rw [List.length_take_of_le hj]; exact ht), List.take_take,
      Nat.min_eq_left ht]
  · have hj' : l.length ≤ j := by omega
    rw [List.take_of_length_le hj', List.drop_of_length_le (by omega), List.append_nil]

theorem drop_eraseIdx_ge {α} (l : List α) (j t : Nat) (ht : j ≤ t) :
    (l.eraseIdx j).drop t = l.drop (t + 1) := by
  rw [List.eraseIdx_eq_take_drop_succ]
  by_cases hj : j ≤ l.length
  · rw [List.drop_append, List.length_take_of_le hj, List.drop_of_length_le (by rw [List.length_take_of_le hj]; exact ht),
      List.nil_append, List.drop_drop]
    congr 1; omega
  · have hj' : l.length ≤ j := by omega
    rw [List.take_of_length_le hj', List.drop_of_length_le (l := l) (by omega), List.append_nil,
      List.drop_of_length_le (by omega), List.drop_of_length_le (by omega)]

/-- the move `l.insert(k, l.pop(j))` leaves the first `t ≤ min j k` entries alone. -/
theorem take_pyInsert_eraseIdx {α} (l : List α) (j k t : Nat) (x : α) (hj : j < l.length)
    (htj : t ≤ j) (htk : t ≤ k) : (pyInsert (l.eraseIdx j) k x).take t = l.take t := by
  unfold pyInsert
  have hlen : (l.eraseIdx j).length = l.length - 1 := List.length_eraseIdx_of_lt hj
  rw [List.take_append_of_le_length (by rw [List.length_take]; omega), List.take_take,
    Nat.min_eq_left htk, take_eraseIdx_le l j t htj]

/-- … and the entries from index `t > max j k` on (when `k < len l`). -/
theorem drop_pyInsert_eraseIdx {α} (l : List α) (j k t : Nat) (x : α) (hj : j < l.length)
    (hk : k < l.length) (htj : j < t) (htk : k < t) :
    (pyInsert (l.eraseIdx j) k x).drop t = l.drop t := by
  unfold pyInsert
  have hlen : (l.eraseIdx j).length = l.length - 1 := List.length_eraseIdx_of_lt hj
  have hk' : ((l.eraseIdx j).take k).length = k := by rw [List.length_take]; omega
  rw [List.drop_append, hk', List.drop_of_length_le (by omega), List.nil_append]
  obtain ⟨d, hd⟩ : ∃ d, t - k = d + 1 := ⟨t - k - 1, by omega⟩
  rw [hd, List.drop_succ_cons, List.drop_drop, drop_eraseIdx_ge l j (k + d) (by omega)]
  congr 1; omega

/-- retiring row `j < nrows` (`insert(nrows, pop(j))`): everything from index `nrows - 1` on is
the retired row or was at index `≥ nrows` before. -/
theorem mem_drop_retire {α} (l : List α) (j nrows : Nat) (x row : α) (hj : j < nrows)
    (hn : nrows ≤ l.length)
    (h : row ∈ (pyInsert (l.eraseIdx j) nrows x).drop (nrows - 1)) :
    row = x ∨ row ∈ l.drop nrows := by
  unfold pyInsert at h
  have hlen : (l.eraseIdx j).length = l.length - 1 := List.length_eraseIdx_of_lt (by omega)
  rw [List.drop_append_of_le_length (by rw [List.length_take]; omega)] at h
  have he : ∀ t, nrows - 1 ≤ t → ∀ r, r ∈ (l.eraseIdx j).drop t → r ∈ l.drop nrows := by
    intro t ht r hr
    rw [drop_eraseIdx_ge l j t (by omega)] at hr
    have : l.drop (t + 1) = (l.drop nrows).drop (t + 1 - nrows) := by
      rw [List.drop_drop]; congr 1; omega
    rw [this] at hr
    exact List.mem_of_mem_drop hr
  rcases List.mem_append.mp h with h | h
  · right
    rw [List.drop_take] at h
    exact he _ (Nat.le_refl _) _ (List.mem_of_mem_take h)
  · rcases List.mem_cons.mp h with h | h
    · exact Or.inl h
    · exact Or.inr (he nrows (by omega) _ h)

/-- a permutation that fixes the first `t` entries permutes the rest. -/
theorem perm_drop_of_take_eq {α} (l l' : List α) (t : Nat) (hp : l'.Perm l)
    (ht : l'.take t = l.take t) : (l'.drop t).Perm (l.drop t) := by
  have h1 : (l'.take t ++ l'.drop t).Perm (l.take t ++ l.drop t) := by
    rwa [List.take_append_drop, List.take_append_drop]
  rw [ht] at h1
  exact (List.perm_append_left_iff _).mp h1

/-- columns `< k` of the row are zero (missing entries count as zero). -/
def ZeroTo (k : Nat) (row : List Int) : Prop := ∀ c, c < k → row.getD c 0 = 0

theorem ZeroTo.mono {k k' : Nat} {row : List Int} (h : ZeroTo k row) (hk : k' ≤ k) :
    ZeroTo k' row := fun c hc => h c (by omega)

theorem getD_of_getElem? {l : List Int} {k : Nat} {v : Int} (h : l[k]? = some v) :
    l.getD k 0 = v := by
  simp [List.getD_eq_getElem?_getD, h]

theorem elimCols_spec (p q : Int) (ri : List Int) :
    ∀ (cnt k : Nat) (rj : List Int) (az : Bool) (rj' : List Int) (az' : Bool),
      elimCols p q ri cnt k rj az = .ok (rj', az') →
      rj'.length = rj.length ∧
      (∀ c, rj'.getD c 0 =
        if k ≤ c ∧ c < k + cnt then p * rj.getD c 0 - q * ri.getD c 0 else rj.getD c 0) ∧
      (az' = true → az = true ∧ ∀ c, k ≤ c → c < k + cnt → rj'.getD c 0 = 0) := by
  intro cnt
  induction cnt with
  | zero =>
    intro k rj az rj' az' h
    simp only [elimCols, Except.ok.injEq, Prod.mk.injEq] at h
    obtain ⟨rfl, rfl⟩ := h
    refine ⟨rfl, ?_, ?_⟩
    · intro c; rw [if_neg (by omega)]
    · intro h; exact ⟨h, fun c h1 h2 => by omega⟩
  | succ cnt ih =>
    intro k rj az rj' az' h
    unfold elimCols at h
    split at h
    · rename_i x y hx hy
      obtain ⟨hk, _⟩ := List.getElem?_eq_some_iff.mp hx
      obtain ⟨h1, h2, h3⟩ := ih (k + 1) _ _ rj' az' h
      refine ⟨by rw [h1, List.length_set], ?_, ?_⟩
      · intro c
        rw [h2 c, getD_set_int rj k c _ hk]
        by_cases hc : c = k
        · subst hc
          rw [if_neg (by omega), if_pos rfl, if_pos (by omega), getD_of_getElem? hx,
            getD_of_getElem? hy]
        · rw [if_neg hc]
          by_cases hr : k + 1 ≤ c ∧ c < k + 1 + cnt
          · rw [if_pos hr, if_pos (by omega)]
          · rw [if_neg hr, if_neg (by omega)]
      · intro haz
        obtain ⟨h4, h5⟩ := h3 haz
        simp only [Bool.and_eq_true, beq_iff_eq] at h4
        refine ⟨h4.1, ?_⟩
        intro c hc1 hc2
        by_cases hc : c = k
        · subst hc
          rw [h2 c, if_neg (by omega), getD_set_int rj c c _ hk, if_pos rfl]
          exact h4.2
        · exact h5 c (by omega) (by omega)
    · simp at h

theorem setZero_spec (row row' : List Int) (i : Nat) (h : setZero row i = .ok row') :
    i < row.length ∧ row' = row.set i 0 := by
  unfold setZero at h
  split at h
  · rename_i hi
    simp only [Except.ok.injEq] at h
    exact ⟨hi, h.symm⟩
  · simp at h

theorem divCols_spec (d : Int) :
    ∀ (cnt k : Nat) (row : List Int) (ex : Bool) (row' : List Int) (ex' : Bool),
      divCols d cnt k row ex = .ok (row', ex') →
      row'.length = row.length ∧ (cnt ≠ 0 → d ≠ 0) ∧
      (∀ c, ¬ (k ≤ c ∧ c < k + cnt) → row'.getD c 0 = row.getD c 0) ∧
      (ex' = true → ex = true ∧ ∀ c, k ≤ c → c < k + cnt → d * row'.getD c 0 = row.getD c 0) := by
  intro cnt
  induction cnt with
  | zero =>
    intro k row ex row' ex' h
    simp only [divCols, Except.ok.injEq, Prod.mk.injEq] at h
    obtain ⟨rfl, rfl⟩ := h
    exact ⟨rfl, fun h => absurd rfl h, fun c _ => rfl, fun h => ⟨h, fun c h1 h2 => by omega⟩⟩
  | succ cnt ih =>
    intro k row ex row' ex' h
    unfold divCols at h
    split at h
    · simp at h
    rename_i x hx
    split at h
    · simp at h
    rename_i hd
    obtain ⟨hk, _⟩ := List.getElem?_eq_some_iff.mp hx
    obtain ⟨h1, _, h3, h4⟩ := ih (k + 1) _ _ row' ex' h
    refine ⟨by rw [h1, List.length_set], fun _ => hd, ?_, ?_⟩
    · intro c hc
      rw [h3 c (by omega), getD_set_int row k c _ hk, if_neg (by omega)]
    · intro hex
      obtain ⟨h5, h6⟩ := h4 hex
      simp only [Bool.and_eq_true, beq_iff_eq] at h5
      refine ⟨h5.1, ?_⟩
      intro c hc1 hc2
      by_cases hc : c = k
      · subst hc
        rw [h3 c (by omega), getD_set_int row c c _ hk, if_pos rfl, getD_of_getElem? hx,
          Int.fdiv_eq_ediv_of_dvd (Int.dvd_of_emod_eq_zero h5.2),
          Int.mul_ediv_cancel' (Int.dvd_of_emod_eq_zero h5.2)]
      · rw [h6 c (by omega) (by omega), getD_set_int row k c _ hk, if_neg hc]

/-- row-level effect of one elimination: `rj'' = p·rj − q·ri` on the first `ncols` columns
(given that both rows vanish left of the pivot column `i`). -/
theorem elimRow_row (ncols i : Nat) (p q : Int) (ri rj rj' rj'' : List Int) (az : Bool)
    (hp : ri[i]? = some p) (hq : rj[i]? = some q) (hzi : ZeroTo i ri) (hzj : ZeroTo i rj)
    (hi : i + 1 ≤ ncols)
    (h1 : elimCols p q ri (ncols - (i + 1)) (i + 1) rj true = .ok (rj', az))
    (h2 : setZero rj' i = .ok rj'') :
    (∀ c, c < ncols → rj''.getD c 0 = p * rj.getD c 0 - q * ri.getD c 0) ∧
      ZeroTo (i + 1) rj'' ∧ (az = true → ZeroTo ncols rj'') := by
  obtain ⟨e1, e2, e3⟩ := elimCols_spec p q ri _ _ _ _ _ _ h1
  obtain ⟨s1, rfl⟩ := setZero_spec _ _ _ h2
  have hget : ∀ c, (rj'.set i 0).getD c 0 = if c = i then 0 else rj'.getD c 0 :=
    fun c => getD_set_int rj' i c 0 s1
  have hpi := getD_of_getElem? hp
  have hqi := getD_of_getElem? hq
  refine ⟨?_, ?_, ?_⟩
  · intro c hc
    rw [hget c]
    by_cases hci : c = i
    · subst hci
      rw [if_pos rfl, hpi, hqi]; ring
    · rw [if_neg hci, e2 c]
      by_cases hlt : c < i
      · rw [if_neg (by omega), hzi c hlt, hzj c hlt]; ring
      · rw [if_pos (by omega)]
  · intro c hc
    rw [hget c]
    by_cases hci : c = i
    · rw [if_pos hci]
    · rw [if_neg hci, e2 c, if_neg (by omega)]
      exact hzj c (by omega)
  · intro haz c hc
    rw [hget c]
    by_cases hci : c = i
    · rw [if_pos hci]
    · rw [if_neg hci]
      by_cases hlt : c < i
      · rw [e2 c, if_neg (by omega)]
        exact hzj c hlt
      · exact (e3 haz).2 c (by omega) (by omega)

/-- the same as an identity between dot products. -/
theorem elimRow_dot (ncols : Nat) (p q : Int) (ri rj rj'' : List Int) (x : List ℚ)
    (hx : x.length ≤ ncols)
    (h : ∀ c, c < ncols → rj''.getD c 0 = p * rj.getD c 0 - q * ri.getD c 0) :
    dotQ rj'' x = p * dotQ rj x - q * dotQ ri x := by
  have := dotQ_lin3 1 p (-q) x rj'' rj ri (by
    intro c hc
    rw [h c (by omega)]; ring)
  push_cast at this
  linear_combination this

/-- row-level effect of the exact division pass on one row. -/
theorem divRow_row (ncols i : Nat) (d : Int) (row row' : List Int) (ex ex' : Bool)
    (hz : ZeroTo (i + 1) row)
    (h : divCols d (ncols - (i + 1)) (i + 1) row ex = .ok (row', ex')) :
    ZeroTo (i + 1) row' ∧ (ex' = true → ex = true ∧
      ∀ c, c < ncols → d * row'.getD c 0 = row.getD c 0) := by
  obtain ⟨_, _, e3, e4⟩ := divCols_spec d _ _ _ _ _ _ h
  refine ⟨?_, ?_⟩
  · intro c hc
    rw [e3 c (by omega)]
    exact hz c hc
  · intro hex
    obtain ⟨e5, e6⟩ := e4 hex
    refine ⟨e5, ?_⟩
    intro c hc
    by_cases hlt : c < i + 1
    · rw [e3 c (by omega), hz c hlt]; ring
    · exact e6 c (by omega) (by omega)

theorem divRow_dot (ncols : Nat) (d : Int) (row row' : List Int) (x : List ℚ)
    (hx : x.length ≤ ncols) (h : ∀ c, c < ncols → d * row'.getD c 0 = row.getD c 0) :
    (d : ℚ) * dotQ row' x = dotQ row x := by
  have := dotQ_lin3 d 1 0 x row' row row (by
    intro c hc
    rw [h c (by omega)]; ring)
  push_cast at this
  linear_combination this

/-! ### predicates on the state -/

/-- `x` satisfies the equation `row · x = bv`. -/
def RowSat (x : List ℚ) (row : List Int) (bv : Int) : Prop := dotQ row x = (bv : ℚ)

/-- `x` solves the system `a x = bl`. -/
def Sat (x : List ℚ) (a : List (List Int)) (bl : List Int) : Prop :=
  List.Forall₂ (RowSat x) a bl

/-- rows of index `≥ i` vanish in the columns `< i`. -/
def LZ (i : Nat) (a : List (List Int)) : Prop := ∀ row ∈ a.drop i, ZeroTo i row

/-- rows of index `≥ nrows` (retired rows) vanish in all `ncols` columns. -/
def DZ (ncols nrows : Nat) (a : List (List Int)) : Prop := ∀ row ∈ a.drop nrows, ZeroTo ncols row

/-- rows of index `r < i` vanish in the columns `< r` (upper triangular so far). -/
def UT (i : Nat) (a : List (List Int)) : Prop :=
  ∀ r row, r < i → a[r]? = some row → ZeroTo r row

theorem mem_drop_of_getElem? {α} {l : List α} {r i : Nat} {x : α} (h : l[r]? = some x)
    (hir : i ≤ r) : x ∈ l.drop i := by
  obtain ⟨d, rfl⟩ := Nat.exists_eq_add_of_le hir
  have : (l.drop i)[d]? = some x := by rw [List.getElem?_drop]; exact h
  exact List.mem_of_getElem? this

theorem mem_drop_mono {α} {l : List α} {m n : Nat} {x : α} (hmn : m ≤ n) (h : x ∈ l.drop n) :
    x ∈ l.drop m := by
  have : l.drop n = (l.drop m).drop (n - m) := by rw [List.drop_drop]; congr 1; omega
  rw [this] at h
  exact List.mem_of_mem_drop h

theorem UT_of_take_eq {i : Nat} {a a' : List (List Int)} (h : a'.take i = a.take i) (hu : UT i a) :
    UT i a' := by
  intro r row hr hrow
  apply hu r row hr
  rw [← List.getElem?_take_of_lt hr, ← h, List.getElem?_take_of_lt hr]
  exact hrow

theorem pyInsertI_natCast {α} (l : List α) (k : Nat) (x : α) :
    pyInsertI l (k : Int) x = pyInsert l k x := rfl

theorem moveRow_nat_spec {α} (l l' : List α) (i k : Nat) (h : moveRow l i (k : Int) = .ok l') :
    ∃ hi : i < l.length, l' = pyInsert (l.eraseIdx i) k l[i] := by
  unfold moveRow at h
  split at h
  · rename_i x hx
    obtain ⟨hi, rfl⟩ := List.getElem?_eq_some_iff.mp hx
    simp only [Except.ok.injEq] at h
    exact ⟨hi, by rw [← h, pyInsertI_natCast]⟩
  · simp at h

theorem moveRows_spec (st st' : EchSt) (i : Nat) (k : Int) (bl : List Int)
    (hb : st.b = some bl) (h : moveRows st i k = .ok st') :
    ∃ bl', st'.b = some bl' ∧ moveRow bl i k = .ok bl' ∧ moveRow st.a i k = .ok st'.a ∧
      st'.nrows = st.nrows ∧ st'.rank = st.rank ∧ st'.exact = st.exact := by
  unfold moveRows at h
  rw [hb] at h
  simp only at h
  split at h
  · simp at h
  rename_i bl' hbl'
  split at h
  · simp at h
  rename_i a' ha'
  simp only [Except.ok.injEq] at h
  subst h
  exact ⟨bl', rfl, hbl', ha', rfl, rfl, rfl⟩

theorem moveRows_sat (x : List ℚ) (st st' : EchSt) (i : Nat) (k : Int) (bl : List Int)
    (hb : st.b = some bl) (hsat : Sat x st.a bl) (h : moveRows st i k = .ok st') :
    ∃ bl', st'.b = some bl' ∧ Sat x st'.a bl' := by
  obtain ⟨bl', h1, h2, h3, _⟩ := moveRows_spec st st' i k bl hb h
  exact ⟨bl', h1, forall₂_moveRow hsat i k h3 h2⟩

theorem Sat.length_eq {x : List ℚ} {a : List (List Int)} {bl : List Int} (h : Sat x a bl) :
    a.length = bl.length := List.Forall₂.length_eq h

theorem elimB_spec (p q : Int) (i j : Nat) (bl : List Int) (b' : Option (List Int))
    (h : elimB p q i j (some bl) = .ok b') :
    ∃ bj bi, bl[j]? = some bj ∧ bl[i]? = some bi ∧ b' = some (bl.set j (p * bj - q * bi)) := by
  simp only [elimB] at h
  split at h
  · rename_i bj bi hbj hbi
    simp only [Except.ok.injEq] at h
    exact ⟨bj, bi, hbj, hbi, h.symm⟩
  · simp at h

/-- state-level effect of the elimination of row `j` with pivot row `i`. -/
theorem elimRow_inv (x : List ℚ) (ncols i j : Nat) (st st' : EchSt) (az : Bool) (bl : List Int)
    (hb : st.b = some bl) (hsat : Sat x st.a bl) (hx : x.length ≤ ncols) (hi : i + 1 ≤ ncols)
    (hzi : ∀ row, st.a[i]? = some row → ZeroTo i row)
    (hzj : ∀ row, st.a[j]? = some row → ZeroTo i row)
    (h : elimRow ncols i j st = .ok (st', az)) :
    ∃ rj'' bl', st'.a = st.a.set j rj'' ∧ st'.b = some bl' ∧ Sat x st'.a bl' ∧
      ZeroTo (i + 1) rj'' ∧ (az = true → ZeroTo ncols rj'') ∧ j < st.a.length ∧
      st'.nrows = st.nrows ∧ st'.exact = st.exact := by
  unfold elimRow at h
  split at h
  swap
  · simp at h
  rename_i ri rj hri hrj
  split at h
  swap
  · simp at h
  rename_i p q hp hq
  rw [hb] at h
  split at h
  · simp at h
  rename_i b' hb'
  obtain ⟨bj, bi, hbj, hbi, rfl⟩ := elimB_spec p q i j bl b' hb'
  split at h
  · simp at h
  rename_i rj' az' hcols
  split at h
  · simp at h
  rename_i rj'' hset
  simp only [Except.ok.injEq, Prod.mk.injEq] at h
  obtain ⟨rfl, rfl⟩ := h
  obtain ⟨f1, f2, f3⟩ := elimRow_row ncols i p q ri rj rj' rj'' az' hp hq (hzi ri hri) (hzj rj hrj)
    hi hcols hset
  have hdot := elimRow_dot ncols p q ri rj rj'' x hx f1
  have hsi : RowSat x ri bi := forall₂_getElem? hsat i ri bi hri hbi
  have hsj : RowSat x rj bj := forall₂_getElem? hsat j rj bj hrj hbj
  refine ⟨rj'', _, rfl, rfl, ?_, f2, f3, (List.getElem?_eq_some_iff.mp hrj).1, rfl, rfl⟩
  apply forall₂_set hsat
  unfold RowSat at hsi hsj ⊢
  rw [hdot, hsi, hsj]
  push_cast
  ring

theorem mem_drop_set {α} {l : List α} {i j : Nat} {r row : α} (h : row ∈ (l.set j r).drop i) :
    row = r ∨ row ∈ l.drop i := by
  rw [List.drop_set] at h
  split at h
  · exact Or.inr h
  · rcases List.mem_or_eq_of_mem_set h with h | h
    · exact Or.inr h
    · exact Or.inl h

/-- invariant of the `while j < nrows` loop of step `i` (rows `i+1 … j-1` are done). -/
structure ElimInv (x : List ℚ) (ncols i j : Nat) (st : EchSt) : Prop where
  sat : ∃ bl, st.b = some bl ∧ Sat x st.a bl
  hij : i < j
  hjn : j ≤ st.nrows
  hnl : st.nrows ≤ st.a.length
  lz : LZ i st.a
  proc : ∀ row ∈ (st.a.take j).drop (i + 1), ZeroTo (i + 1) row
  dz : DZ ncols st.nrows st.a
  ut : UT (i + 1) st.a

theorem retireRow_spec (j : Nat) (st st' : EchSt) (h : retireRow j st = .ok st') :
    ∃ st0, moveRows st j (st.nrows : Int) = .ok st0 ∧ st' = { st0 with nrows := st0.nrows - 1 } := by
  unfold retireRow at h
  split at h
  · simp at h
  · rename_i st0 h0
    simp only [Except.ok.injEq] at h
    exact ⟨st0, h0, h.symm⟩

/-- common part of both branches: the state after `elimRow`. -/
theorem elimInv_afterRow (x : List ℚ) (ncols i j : Nat) (st st1 : EchSt) (az : Bool)
    (hx : x.length ≤ ncols) (hi : i + 1 ≤ ncols) (inv : ElimInv x ncols i j st)
    (h : elimRow ncols i j st = .ok (st1, az)) :
    ∃ rj'', st1.a = st.a.set j rj'' ∧ (∃ bl, st1.b = some bl ∧ Sat x st1.a bl) ∧
      ZeroTo (i + 1) rj'' ∧ (az = true → ZeroTo ncols rj'') ∧
      st1.nrows = st.nrows ∧ st1.exact = st.exact := by
  obtain ⟨bl, hb, hsat⟩ := inv.sat
  obtain ⟨rj'', bl', h1, h2, h3, h4, h5, _, h7, h8⟩ := elimRow_inv x ncols i j st st1 az bl hb hsat
    hx hi (fun row hr => inv.lz row (mem_drop_of_getElem? hr (Nat.le_refl _)))
    (fun row hr => inv.lz row (mem_drop_of_getElem? hr (Nat.le_of_lt inv.hij))) h
  exact ⟨rj'', h1, ⟨bl', h2, h3⟩, h4, h5, h7, h8⟩

theorem elimInv_keep (x : List ℚ) (n ncols i j : Nat) (st st1 : EchSt)
    (hx : x.length ≤ ncols) (hi : i + 1 ≤ ncols) (inv : ElimInv x ncols i j st)
    (hj : j < st.nrows) (h : elimRow ncols i j st = .ok (st1, false)) :
    ElimInv x ncols i (j + 1) (bumpRank n st1) ∧ (bumpRank n st1).exact = st.exact ∧
      (bumpRank n st1).nrows = st.nrows ∧ (bumpRank n st1).a.length = st.a.length := by
  obtain ⟨rj'', ha, hsat, hz, _, hn, hex⟩ := elimInv_afterRow x ncols i j st st1 false hx hi inv h
  have hb : (bumpRank n st1).a = st1.a ∧ (bumpRank n st1).b = st1.b ∧
      (bumpRank n st1).nrows = st1.nrows ∧ (bumpRank n st1).exact = st1.exact := by
    unfold bumpRank; split <;> simp
  obtain ⟨b1, b2, b3, b4⟩ := hb
  have hjl : j < st.a.length := Nat.lt_of_lt_of_le hj inv.hnl
  refine ⟨⟨?_, ?_, ?_, ?_, ?_, ?_, ?_, ?_⟩, by rw [b4, hex], by rw [b3, hn], by rw [b1, ha]; simp⟩
  · rw [b1, b2]; exact hsat
  · have := inv.hij; omega
  · rw [b3, hn]; omega
  · rw [b3, hn, b1, ha, List.length_set]; exact inv.hnl
  · rw [b1, ha]
    intro row hrow
    rcases mem_drop_set hrow with rfl | hrow
    · exact hz.mono (Nat.le_succ i)
    · exact inv.lz row hrow
  · rw [b1, ha]
    intro row hrow
    have htake : (st.a.set j rj'').take (j + 1) = st.a.take j ++ [rj''] := by
      rw [List.take_add_one, List.take_set_of_le (Nat.le_refl j)]
      simp [hjl]
    rw [htake, List.drop_append_of_le_length (by rw [List.length_take]; have := inv.hij; omega)] at hrow
    rcases List.mem_append.mp hrow with hrow | hrow
    · exact inv.proc row hrow
    · simp only [List.mem_singleton] at hrow
      subst hrow; exact hz
  · rw [b3, hn, b1, ha]
    intro row hrow
    rw [List.drop_set_of_lt hj] at hrow
    exact inv.dz row hrow
  · rw [b1, ha]
    apply UT_of_take_eq _ inv.ut
    rw [List.take_set_of_le (by have := inv.hij; omega)]

theorem elimInv_retire (x : List ℚ) (ncols i j : Nat) (st st1 st2 : EchSt)
    (hx : x.length ≤ ncols) (hi : i + 1 ≤ ncols) (inv : ElimInv x ncols i j st)
    (hj : j < st.nrows) (h : elimRow ncols i j st = .ok (st1, true))
    (h2 : retireRow j st1 = .ok st2) :
    ElimInv x ncols i j st2 ∧ st2.exact = st.exact ∧ st2.nrows = st.nrows - 1 ∧
      st2.a.length = st.a.length := by
  obtain ⟨rj'', ha, ⟨bl1, hb1, hsat1⟩, _, hz, hn, hex⟩ :=
    elimInv_afterRow x ncols i j st st1 true hx hi inv h
  obtain ⟨st0, hmv, rfl⟩ := retireRow_spec j st1 st2 h2
  obtain ⟨bl', m1, m2, m3, m4, _, m6⟩ := moveRows_spec st1 st0 j _ bl1 hb1 hmv
  obtain ⟨hjl, hA⟩ := moveRow_nat_spec st1.a st0.a j st1.nrows m3
  have hperm := moveRow_perm _ _ _ _ m3
  have hlen : st0.a.length = st.a.length := by rw [hperm.length_eq, ha, List.length_set]
  have hjl' : j < st.a.length := by rw [ha, List.length_set] at hjl; exact hjl
  have hxj : st1.a[j] = rj'' := by simp [ha]
  have hij := inv.hij
  have hnl := inv.hnl
  have htake : ∀ t, t ≤ j → st0.a.take t = st.a.take t := by
    intro t ht
    rw [hA, take_pyInsert_eraseIdx st1.a j st1.nrows t _ hjl ht (by omega), ha,
      List.take_set_of_le ht]
  refine ⟨⟨?_, hij, ?_, ?_, ?_, ?_, ?_, ?_⟩, by simp [m6, hex], by simp [m4, hn], by simpa using hlen⟩
  · exact ⟨bl', m1, forall₂_moveRow hsat1 j _ m3 m2⟩
  · simp only [m4, hn]; omega
  · simp only [m4, hn, hlen]; omega
  · intro row hrow
    have hp := perm_drop_of_take_eq st1.a st0.a i hperm (by
      rw [htake i (by omega), ha, List.take_set_of_le (by omega)])
    have hrow' := (hp.mem_iff).mp hrow
    rw [ha] at hrow'
    rcases mem_drop_set hrow' with rfl | hrow'
    · exact hz rfl |>.mono (by omega)
    · exact inv.lz row hrow'
  · intro row hrow
    simp only at hrow
    rw [htake j (Nat.le_refl j)] at hrow
    exact inv.proc row hrow
  · intro row hrow
    simp only [m4, hn] at hrow
    rw [hA, hn] at hrow
    rcases mem_drop_retire st1.a j st.nrows _ row hj (by rw [ha, List.length_set]; exact hnl) hrow
      with hrow | hrow
    · rw [hrow, hxj]; exact hz rfl
    · rw [ha, List.drop_set_of_lt hj] at hrow
      exact inv.dz row hrow
  · apply UT_of_take_eq _ inv.ut
    exact htake (i + 1) (by omega)

theorem elimLoop_inv (x : List ℚ) (n ncols i : Nat) (hx : x.length ≤ ncols) (hi : i + 1 ≤ ncols) :
    ∀ (fuel j : Nat) (st st' : EchSt), ElimInv x ncols i j st → st.nrows - j ≤ fuel →
      elimLoop n ncols i fuel j st = .ok st' →
      ElimInv x ncols i st'.nrows st' ∧ st'.exact = st.exact ∧ st'.a.length = st.a.length := by
  intro fuel
  induction fuel with
  | zero =>
    intro j st st' inv hf h
    simp only [elimLoop, Except.ok.injEq] at h
    subst h
    have : j = st.nrows := by have := inv.hjn; omega
    subst this
    exact ⟨inv, rfl, rfl⟩
  | succ fuel ih =>
    intro j st st' inv hf h
    unfold elimLoop at h
    split at h
    · rename_i hj
      split at h
      · simp at h
      rename_i st1 az hrow
      split at h
      · rename_i haz
        subst haz
        split at h
        · simp at h
        rename_i st2 hret
        obtain ⟨inv2, e1, e2, e3⟩ := elimInv_retire x ncols i j st st1 st2 hx hi inv hj hrow hret
        obtain ⟨r1, r2, r3⟩ := ih j st2 st' inv2 (by omega) h
        exact ⟨r1, by rw [r2, e1], by rw [r3, e3]⟩
      · rename_i haz
        have haz' : az = false := by simpa using haz
        subst haz'
        obtain ⟨inv2, e1, e2, e3⟩ := elimInv_keep x n ncols i j st st1 hx hi inv hj hrow
        obtain ⟨r1, r2, r3⟩ := ih (j + 1) _ st' inv2 (by omega) h
        exact ⟨r1, by rw [r2, e1], by rw [r3, e3]⟩
    · rename_i hj
      simp only [Except.ok.injEq] at h
      subst h
      have : j = st.nrows := by have := inv.hjn; omega
      subst this
      exact ⟨inv, rfl, rfl⟩

/-- what the finished elimination loop of step `i` gives for step `i + 1`. -/
theorem ElimInv.finish {x : List ℚ} {ncols i : Nat} {st : EchSt} (hi : i + 1 ≤ ncols)
    (inv : ElimInv x ncols i st.nrows st) : LZ (i + 1) st.a := by
  intro row hrow
  have hsplit : st.a.drop (i + 1) = (st.a.take st.nrows).drop (i + 1) ++ st.a.drop st.nrows := by
    have h1 : st.a = st.a.take st.nrows ++ st.a.drop st.nrows := (List.take_append_drop _ _).symm
    conv_lhs => rw [h1]
    rw [List.drop_append_of_le_length]
    rw [List.length_take]
    have := inv.hij; have := inv.hnl; omega
  rw [hsplit] at hrow
  rcases List.mem_append.mp hrow with hrow | hrow
  · exact inv.proc row hrow
  · exact (inv.dz row hrow).mono hi

/-- invariant of the division pass of step `i`. -/
structure DivInv (x : List ℚ) (ncols i : Nat) (st : EchSt) : Prop where
  sat : ∃ bl, st.b = some bl ∧ Sat x st.a bl
  hnl : st.nrows ≤ st.a.length
  lz : LZ (i + 1) st.a
  dz : DZ ncols st.nrows st.a
  ut : UT (i + 1) st.a

theorem divB_spec (d : Int) (j : Nat) (bl : List Int) (ex : Bool) (b' : Option (List Int))
    (ex' : Bool) (h : divB d j (some bl) ex = .ok (b', ex')) :
    ∃ v, bl[j]? = some v ∧ d ≠ 0 ∧ b' = some (bl.set j (Int.fdiv v d)) ∧
      ex' = (ex && (v % d == 0)) := by
  simp only [divB] at h
  split at h
  · simp at h
  rename_i v hv
  split at h
  · simp at h
  rename_i hd
  simp only [Except.ok.injEq, Prod.mk.injEq] at h
  exact ⟨v, hv, hd, h.1.symm, h.2.symm⟩

theorem getRC_spec (a : List (List Int)) (r c : Nat) (v : Int) (h : getRC a r c = .ok v) :
    ∃ row, a[r]? = some row ∧ row[c]? = some v := by
  unfold getRC at h
  split at h
  · simp at h
  rename_i row hrow
  split at h
  · simp at h
  rename_i v' hv
  simp only [Except.ok.injEq] at h
  subst h
  exact ⟨row, hrow, hv⟩

theorem divRow_inv (x : List ℚ) (ncols i j : Nat) (st st' : EchSt) (hx : x.length ≤ ncols)
    (inv : DivInv x ncols i st) (hij : i + 1 ≤ j) (hj : j < st.nrows)
    (h : divRow ncols i j st = .ok st') (hex : st'.exact = true) :
    st.exact = true ∧ DivInv x ncols i st' ∧ st'.nrows = st.nrows ∧
      st'.a.length = st.a.length := by
  obtain ⟨bl, hb, hsat⟩ := inv.sat
  unfold divRow at h
  split at h
  · simp at h
  rename_i d _
  rw [hb] at h
  split at h
  · simp at h
  rename_i b' ex hdivB
  obtain ⟨v, hv, hd, rfl, rfl⟩ := divB_spec d j bl st.exact b' ex hdivB
  split at h
  · simp at h
  rename_i row hrow
  split at h
  · simp at h
  rename_i row' ex' hcols
  simp only [Except.ok.injEq] at h
  subst h
  simp only at hex
  subst hex
  have hzrow : ZeroTo (i + 1) row := inv.lz row (mem_drop_of_getElem? hrow hij)
  obtain ⟨z1, z2⟩ := divRow_row ncols i d row row' _ true hzrow hcols
  obtain ⟨e1, e2⟩ := z2 rfl
  simp only [Bool.and_eq_true, beq_iff_eq] at e1
  have hdvd : d ∣ v := Int.dvd_of_emod_eq_zero e1.2
  have hdot := divRow_dot ncols d row row' x hx e2
  have hsj : RowSat x row v := forall₂_getElem? hsat j row v hrow hv
  have hdq : (d : ℚ) ≠ 0 := by exact_mod_cast hd
  refine ⟨e1.1, ⟨?_, ?_, ?_, ?_, ?_⟩, rfl, by simp⟩
  · refine ⟨_, rfl, ?_⟩
    apply forall₂_set hsat
    unfold RowSat at hsj ⊢
    have hv' : ((Int.fdiv v d : Int) : ℚ) * d = v := by
      rw [Int.fdiv_eq_ediv_of_dvd hdvd]
      exact_mod_cast Int.ediv_mul_cancel hdvd
    apply mul_left_cancel₀ hdq
    rw [hdot, hsj, ← hv']; ring
  · simp only [List.length_set]; exact inv.hnl
  · intro row'' hrow''
    rcases mem_drop_set hrow'' with rfl | hrow''
    · exact z1
    · exact inv.lz _ hrow''
  · intro row'' hrow''
    simp only at hrow''
    rw [List.drop_set_of_lt hj] at hrow''
    exact inv.dz _ hrow''
  · apply UT_of_take_eq _ inv.ut
    simp only
    rw [List.take_set_of_le hij]

theorem divB_mono (d : Int) (j : Nat) (b b' : Option (List Int)) (ex ex' : Bool)
    (h : divB d j b ex = .ok (b', ex')) (he : ex' = true) : ex = true := by
  cases b with
  | none =>
    simp only [divB, Except.ok.injEq, Prod.mk.injEq] at h
    rw [h.2]; exact he
  | some bl =>
    obtain ⟨v, _, _, _, e⟩ := divB_spec d j bl ex b' ex' h
    rw [e] at he
    simp only [Bool.and_eq_true] at he
    exact he.1

theorem divRow_mono (ncols i j : Nat) (st st' : EchSt) (h : divRow ncols i j st = .ok st')
    (he : st'.exact = true) : st.exact = true := by
  unfold divRow at h
  split at h
  · simp at h
  rename_i d _
  split at h
  · simp at h
  rename_i b' ex hdb
  split at h
  · simp at h
  split at h
  · simp at h
  rename_i row' ex' hc
  simp only [Except.ok.injEq] at h
  subst h
  simp only at he
  obtain ⟨_, _, _, e4⟩ := divCols_spec d _ _ _ _ _ _ hc
  exact divB_mono d j st.b b' st.exact ex hdb (e4 he).1

theorem divLoop_mono (ncols i : Nat) : ∀ (cnt j : Nat) (st st' : EchSt),
    divLoop ncols i cnt j st = .ok st' → st'.exact = true → st.exact = true := by
  intro cnt
  induction cnt with
  | zero => intro j s s' hs he; simp only [divLoop, Except.ok.injEq] at hs; subst hs; exact he
  | succ cnt ih =>
    intro j s s' hs he
    unfold divLoop at hs
    split at hs
    · simp at hs
    rename_i s1 hs1
    exact divRow_mono ncols i j s s1 hs1 (ih (j + 1) s1 s' hs he)

theorem divLoop_inv (x : List ℚ) (ncols i : Nat) (hx : x.length ≤ ncols) :
    ∀ (cnt j : Nat) (st st' : EchSt), DivInv x ncols i st → i + 1 ≤ j → j + cnt ≤ st.nrows →
      divLoop ncols i cnt j st = .ok st' → st'.exact = true →
      st.exact = true ∧ DivInv x ncols i st' ∧ st'.nrows = st.nrows ∧
        st'.a.length = st.a.length := by
  intro cnt
  induction cnt with
  | zero =>
    intro j st st' inv _ _ h hex
    simp only [divLoop, Except.ok.injEq] at h
    subst h
    exact ⟨hex, inv, rfl, rfl⟩
  | succ cnt ih =>
    intro j st st' inv hij hjn h hex
    unfold divLoop at h
    split at h
    · simp at h
    rename_i st1 hrow
    -- exactness of the tail first
    have key : st1.exact = true → st.exact = true ∧ DivInv x ncols i st1 ∧ st1.nrows = st.nrows ∧
        st1.a.length = st.a.length :=
      fun h1 => divRow_inv x ncols i j st st1 hx inv hij (by omega) hrow h1
    -- we do not know `st1.exact` yet: get it from the tail, which needs the invariant; so
    -- split on the flag
    by_cases h1 : st1.exact = true
    · obtain ⟨k1, k2, k3, k4⟩ := key h1
      obtain ⟨r1, r2, r3, r4⟩ := ih (j + 1) st1 st' k2 (by omega) (by omega) h hex
      exact ⟨k1, r2, by rw [r3, k3], by rw [r4, k4]⟩
    · exact absurd (divLoop_mono ncols i cnt (j + 1) st1 st' h hex) h1

/-- invariant at the head of step `i` while row `i` is still a live row. -/
structure GoodInv (x : List ℚ) (ncols i : Nat) (st : EchSt) : Prop where
  sat : ∃ bl, st.b = some bl ∧ Sat x st.a bl
  hin : i < st.nrows
  hnl : st.nrows ≤ st.a.length
  lz : LZ i st.a
  dz : DZ ncols st.nrows st.a
  ut : UT i st.a

/-- a row with a non-zero entry among the first `ncols` columns. -/
def nzRow (ncols : Nat) (row : List Int) : Bool :=
  (List.range ncols).any (fun c => row.getD c 0 != 0)

theorem nzRow_false_iff (ncols : Nat) (row : List Int) :
    nzRow ncols row = false ↔ ZeroTo ncols row := by
  unfold nzRow ZeroTo
  simp [List.any_eq_false]

/-- invariant once fewer than `i + 1` live rows are left: fewer than `ncols` non-zero rows. -/
structure BadInv (x : List ℚ) (ncols i : Nat) (st : EchSt) : Prop where
  sat : ∃ bl, st.b = some bl ∧ Sat x st.a bl
  hni : st.nrows ≤ i
  cnt : st.a.countP (nzRow ncols) < ncols

theorem zeroPivotMove_good (x : List ℚ) (ncols i : Nat) (st st' : EchSt)
    (inv : GoodInv x ncols i st)
    (h : moveRows st i (zeroPivotIdx .repaired st.nrows) = .ok st') :
    GoodInv x ncols i st' ∧ st'.exact = st.exact ∧ st'.nrows = st.nrows ∧
      st'.a.length = st.a.length := by
  obtain ⟨bl, hb, hsat⟩ := inv.sat
  have hin := inv.hin
  have hnl := inv.hnl
  have hk : zeroPivotIdx .repaired st.nrows = ((st.nrows - 1 : Nat) : Int) := by
    simp only [zeroPivotIdx]; omega
  rw [hk] at h
  obtain ⟨bl', m1, m2, m3, m4, _, m6⟩ := moveRows_spec st st' i _ bl hb h
  obtain ⟨hil, hA⟩ := moveRow_nat_spec st.a st'.a i (st.nrows - 1) m3
  have hperm := moveRow_perm _ _ _ _ m3
  have htake : st'.a.take i = st.a.take i := by
    rw [hA]; exact take_pyInsert_eraseIdx st.a i (st.nrows - 1) i _ hil (Nat.le_refl i) (by omega)
  refine ⟨⟨⟨bl', m1, forall₂_moveRow hsat i _ m3 m2⟩, by omega, by rw [m4, hperm.length_eq]; exact hnl,
    ?_, ?_, UT_of_take_eq htake inv.ut⟩, m6, m4, hperm.length_eq⟩
  · intro row hrow
    exact inv.lz row ((perm_drop_of_take_eq st.a st'.a i hperm htake).mem_iff.mp hrow)
  · intro row hrow
    rw [m4, hA, drop_pyInsert_eraseIdx st.a i (st.nrows - 1) st.nrows _ hil (by omega) hin (by omega)]
      at hrow
    exact inv.dz row hrow

theorem pivotSearch_good (x : List ℚ) (ncols i : Nat) :
    ∀ (fuel : Nat) (st st' : EchSt), GoodInv x ncols i st →
      pivotSearch .repaired i fuel st = .ok st' →
      GoodInv x ncols i st' ∧ st'.exact = st.exact ∧ st'.nrows = st.nrows ∧
        st'.a.length = st.a.length := by
  intro fuel
  induction fuel with
  | zero =>
    intro st st' inv h
    simp only [pivotSearch, Except.ok.injEq] at h
    subst h; exact ⟨inv, rfl, rfl, rfl⟩
  | succ fuel ih =>
    intro st st' inv h
    unfold pivotSearch at h
    split at h
    · simp at h
    split at h
    · split at h
      · simp at h
      rename_i st1 hmv
      obtain ⟨i1, e1, e2, e3⟩ := zeroPivotMove_good x ncols i st st1 inv hmv
      obtain ⟨r1, r2, r3, r4⟩ := ih st1 st' i1 h
      exact ⟨r1, by rw [r2, e1], by rw [r3, e2], by rw [r4, e3]⟩
    · simp only [Except.ok.injEq] at h
      subst h; exact ⟨inv, rfl, rfl, rfl⟩

theorem pivotSearch_any (x : List ℚ) (v : LaVariant) (i : Nat) :
    ∀ (fuel : Nat) (st st' : EchSt), (∃ bl, st.b = some bl ∧ Sat x st.a bl) →
      pivotSearch v i fuel st = .ok st' →
      (∃ bl, st'.b = some bl ∧ Sat x st'.a bl) ∧ st'.a.Perm st.a ∧ st'.exact = st.exact ∧
        st'.nrows = st.nrows := by
  intro fuel
  induction fuel with
  | zero =>
    intro st st' hs h
    simp only [pivotSearch, Except.ok.injEq] at h
    subst h; exact ⟨hs, List.Perm.refl _, rfl, rfl⟩
  | succ fuel ih =>
    intro st st' hs h
    unfold pivotSearch at h
    split at h
    · simp at h
    split at h
    · split at h
      · simp at h
      rename_i st1 hmv
      obtain ⟨bl, hb, hsat⟩ := hs
      obtain ⟨bl', m1, m2, m3, m4, _, m6⟩ := moveRows_spec st st1 i _ bl hb hmv
      obtain ⟨r1, r2, r3, r4⟩ := ih st1 st' ⟨bl', m1, forall₂_moveRow hsat i _ m3 m2⟩ h
      exact ⟨r1, r2.trans (moveRow_perm _ _ _ _ m3), by rw [r3, m6], by rw [r4, m4]⟩
    · simp only [Except.ok.injEq] at h
      subst h; exact ⟨hs, List.Perm.refl _, rfl, rfl⟩

theorem countP_nz_le (ncols nrows : Nat) (a : List (List Int)) (hdz : DZ ncols nrows a) :
    a.countP (nzRow ncols) ≤ nrows := by
  have h1 : a = a.take nrows ++ a.drop nrows := (List.take_append_drop _ _).symm
  rw [h1, List.countP_append]
  have h2 : (a.drop nrows).countP (nzRow ncols) = 0 := by
    rw [List.countP_eq_zero]
    intro row hrow
    rw [(nzRow_false_iff ncols row).mpr (hdz row hrow)]
    simp
  have h3 : (a.take nrows).countP (nzRow ncols) ≤ (a.take nrows).length := List.countP_le_length
  rw [List.length_take] at h3
  omega

theorem moveRows_exact (st st' : EchSt) (i : Nat) (k : Int) (h : moveRows st i k = .ok st') :
    st'.exact = st.exact := by
  unfold moveRows at h
  split at h
  · split at h
    · simp at h
    simp only [Except.ok.injEq] at h
    rw [← h]
  · split at h
    · simp at h
    split at h
    · simp at h
    simp only [Except.ok.injEq] at h
    rw [← h]

theorem pivotSearch_exact (v : LaVariant) (i : Nat) : ∀ (fuel : Nat) (st st' : EchSt),
    pivotSearch v i fuel st = .ok st' → st'.exact = st.exact := by
  intro fuel
  induction fuel with
  | zero => intro st st' h; simp only [pivotSearch, Except.ok.injEq] at h; subst h; rfl
  | succ fuel ih =>
    intro st st' h
    unfold pivotSearch at h
    split at h
    · simp at h
    split at h
    · split at h
      · simp at h
      rename_i st1 hmv
      rw [ih st1 st' h, moveRows_exact st st1 i _ hmv]
    · simp only [Except.ok.injEq] at h
      subst h; rfl

theorem elimLoop_exact (n ncols i : Nat) : ∀ (fuel j : Nat) (st st' : EchSt),
    elimLoop n ncols i fuel j st = .ok st' → st'.exact = st.exact := by
  intro fuel
  induction fuel with
  | zero => intro j st st' h; simp only [elimLoop, Except.ok.injEq] at h; subst h; rfl
  | succ fuel ih =>
    intro j st st' h
    unfold elimLoop at h
    split at h
    · split at h
      · simp at h
      rename_i st1 az hrow
      have e1 : st1.exact = st.exact := by
        unfold elimRow at hrow
        split at hrow
        swap
        · simp at hrow
        split at hrow
        swap
        · simp at hrow
        split at hrow
        · simp at hrow
        split at hrow
        · simp at hrow
        split at hrow
        · simp at hrow
        simp only [Except.ok.injEq, Prod.mk.injEq] at hrow
        rw [← hrow.1]
      split at h
      · split at h
        · simp at h
        rename_i st2 hret
        obtain ⟨st0, hmv, rfl⟩ := retireRow_spec j st1 st2 hret
        have e2 : st0.exact = st1.exact := moveRows_exact st1 st0 j _ hmv
        rw [ih j _ st' h]
        simp only [e2, e1]
      · rw [ih (j + 1) _ st' h]
        have : (bumpRank n st1).exact = st1.exact := by unfold bumpRank; split <;> rfl
        rw [this, e1]
    · simp only [Except.ok.injEq] at h
      subst h; rfl

theorem echStep_good (x : List ℚ) (n ncols i : Nat) (st st' : EchSt) (hx : x.length ≤ ncols)
    (hi : i + 1 < ncols) (inv : GoodInv x ncols i st)
    (h : echStep .repaired n ncols i st = .ok st') (hex : st'.exact = true) :
    st.exact = true ∧ (GoodInv x ncols (i + 1) st' ∨ BadInv x ncols (i + 1) st') ∧
      st'.a.length = st.a.length := by
  unfold echStep at h
  split at h
  · simp at h
  rename_i st1 hpiv
  obtain ⟨g1, p1, p2, p3⟩ := pivotSearch_good x ncols i _ st st1 inv hpiv
  split at h
  · simp at h
  rename_i st2 helim
  have einv : ElimInv x ncols i (i + 1) st1 :=
    { sat := g1.sat, hij := Nat.lt_succ_self i, hjn := g1.hin, hnl := g1.hnl, lz := g1.lz,
      proc := by
        intro row hrow
        rw [List.drop_of_length_le (by rw [List.length_take]; omega)] at hrow
        simp at hrow
      dz := g1.dz,
      ut := by
        intro r row hr hrow
        rcases Nat.lt_succ_iff_lt_or_eq.mp hr with hr | rfl
        · exact g1.ut r row hr hrow
        · exact g1.lz row (mem_drop_of_getElem? hrow (Nat.le_refl _)) }
  obtain ⟨e1, e2, e3⟩ := elimLoop_inv x n ncols i hx (by omega) _ _ st1 st2 einv (Nat.le_refl _) helim
  have dinv : DivInv x ncols i st2 :=
    { sat := e1.sat, hnl := e1.hnl, lz := e1.finish (by omega), dz := e1.dz, ut := e1.ut }
  have hin2 : i < st2.nrows := e1.hij
  -- the division pass
  have key : st2.exact = true ∧ DivInv x ncols i st' ∧ st'.nrows = st2.nrows ∧
      st'.a.length = st2.a.length := by
    split at h
    · exact divLoop_inv x ncols i hx _ _ st2 st' dinv (Nat.le_refl _) (by omega) h hex
    · simp only [Except.ok.injEq] at h
      subst h
      exact ⟨hex, dinv, rfl, rfl⟩
  obtain ⟨k1, k2, k3, k4⟩ := key
  refine ⟨by rw [← p1, ← e2]; exact k1, ?_, by rw [k4, e3, p3]⟩
  by_cases hlt : i + 1 < st'.nrows
  · exact Or.inl { sat := k2.sat, hin := hlt, hnl := k2.hnl, lz := k2.lz, dz := k2.dz, ut := k2.ut }
  · refine Or.inr { sat := k2.sat, hni := by omega, cnt := ?_ }
    have := countP_nz_le ncols st'.nrows st'.a k2.dz
    omega

theorem echStep_bad (x : List ℚ) (v : LaVariant) (n ncols i : Nat) (st st' : EchSt)
    (inv : BadInv x ncols i st) (h : echStep v n ncols i st = .ok st') :
    BadInv x ncols (i + 1) st' ∧ st'.exact = st.exact ∧ st'.a.length = st.a.length := by
  unfold echStep at h
  split at h
  · simp at h
  rename_i st1 hpiv
  obtain ⟨p1, p2, p3, p4⟩ := pivotSearch_any x v i _ st st1 inv.sat hpiv
  have hni := inv.hni
  have hf : st1.nrows - (i + 1) = 0 := by omega
  rw [hf] at h
  simp only [elimLoop] at h
  rw [hf] at h
  simp only [divLoop, ite_self, Except.ok.injEq] at h
  subst h
  exact ⟨{ sat := p1, hni := by omega, cnt := by rw [p2.countP_eq]; exact inv.cnt }, p3,
    p2.length_eq⟩

theorem echStep_mono (v : LaVariant) (n ncols i : Nat) (st st' : EchSt)
    (h : echStep v n ncols i st = .ok st') (he : st'.exact = true) : st.exact = true := by
  unfold echStep at h
  split at h
  · simp at h
  rename_i st1 h1
  split at h
  · simp at h
  rename_i st2 h2
  rw [← pivotSearch_exact v i _ st st1 h1, ← elimLoop_exact n ncols i _ _ st1 st2 h2]
  split at h
  · exact divLoop_mono ncols i _ _ st2 st' h he
  · simp only [Except.ok.injEq] at h
    subst h; exact he

theorem echOuter_mono (v : LaVariant) (n ncols : Nat) : ∀ (fuel i : Nat) (st st' : EchSt),
    echOuter v n ncols fuel i st = .ok st' → st'.exact = true → st.exact = true := by
  intro fuel
  induction fuel with
  | zero => intro i s s' hs he; simp only [echOuter, Except.ok.injEq] at hs; subst hs; exact he
  | succ fuel ih =>
    intro i s s' hs he
    unfold echOuter at hs
    split at hs
    · simp at hs
    rename_i s1 hs1
    exact echStep_mono v n ncols i s s1 hs1 (ih (i + 1) s1 s' hs he)

theorem echOuter_inv (x : List ℚ) (n ncols : Nat) (hx : x.length ≤ ncols) :
    ∀ (fuel i : Nat) (st st' : EchSt), i + fuel ≤ ncols - 1 →
      (GoodInv x ncols i st ∨ BadInv x ncols i st) →
      echOuter .repaired n ncols fuel i st = .ok st' → st'.exact = true →
      st.exact = true ∧ (GoodInv x ncols (i + fuel) st' ∨ BadInv x ncols (i + fuel) st') ∧
        st'.a.length = st.a.length := by
  intro fuel
  induction fuel with
  | zero =>
    intro i st st' _ inv h hex
    simp only [echOuter, Except.ok.injEq] at h
    subst h
    exact ⟨hex, inv, rfl⟩
  | succ fuel ih =>
    intro i st st' hif inv h hex
    unfold echOuter at h
    split at h
    · simp at h
    rename_i st1 hstep
    have hrec := fun inv1 => ih (i + 1) st1 st' (by omega) inv1 h hex
    have hidx : i + 1 + fuel = i + (fuel + 1) := by omega
    rcases inv with inv | inv
    · -- good: need `st1.exact` first; use the bad/good disjunction after the step
      by_cases h1 : st1.exact = true
      · obtain ⟨s1, s2, s3⟩ := echStep_good x n ncols i st st1 hx (by omega) inv hstep h1
        obtain ⟨r1, r2, r3⟩ := hrec s2
        exact ⟨s1, hidx ▸ r2, by rw [r3, s3]⟩
      · exact absurd (echOuter_mono .repaired n ncols fuel (i + 1) st1 st' h hex) h1
    · obtain ⟨s1, s2, s3⟩ := echStep_bad x .repaired n ncols i st st1 inv hstep
      obtain ⟨r1, r2, r3⟩ := hrec (Or.inr s1)
      exact ⟨by rw [← s2]; exact r1, hidx ▸ r2, by rw [r3, s3]⟩

theorem dotQ_drop_zero : ∀ (r : Nat) (row : List Int) (x : List ℚ), ZeroTo r row →
    dotQ row x = dotQ (row.drop r) (x.drop r) := by
  intro r
  induction r with
  | zero => intro row x _; simp
  | succ r ih =>
    intro row x hz
    cases row with
    | nil => simp
    | cons h t =>
      cases x with
      | nil => simp
      | cons y ys =>
        have h0 : h = 0 := by simpa using hz 0 (Nat.succ_pos r)
        have ht : ZeroTo r t := by
          intro c hc
          have := hz (c + 1) (by omega)
          simpa using this
        simp only [dotQ_cons, List.drop_succ_cons, h0]
        rw [← ih t ys ht]
        simp

/-- an upper-triangular system with non-zero diagonal has at most one solution. -/
theorem tri_unique (ncols : Nat) (xq x0 : List ℚ) (hl1 : xq.length = ncols)
    (hl2 : x0.length = ncols)
    (hrows : ∀ r, r < ncols → ∃ (row : List Int) (v : Int), row[r]? = some v ∧ v ≠ 0 ∧
      dotQ (row.drop r) (xq.drop r) = dotQ (row.drop r) (x0.drop r)) : xq = x0 := by
  have key : ∀ k, k ≤ ncols → xq.drop (ncols - k) = x0.drop (ncols - k) := by
    intro k
    induction k with
    | zero =>
      intro _
      rw [List.drop_of_length_le (by omega), List.drop_of_length_le (by omega)]
    | succ k ih =>
      intro hk
      have ihk := ih (by omega)
      obtain ⟨row, v, hv, hvz, heq⟩ := hrows (ncols - (k + 1)) (by omega)
      obtain ⟨hrl, hv'⟩ := List.getElem?_eq_some_iff.mp hv
      have e : ncols - (k + 1) + 1 = ncols - k := by omega
      have h1 : ncols - (k + 1) < xq.length := by omega
      have h2 : ncols - (k + 1) < x0.length := by omega
      rw [List.drop_eq_getElem_cons hrl, List.drop_eq_getElem_cons h1,
        List.drop_eq_getElem_cons h2] at heq
      rw [List.drop_eq_getElem_cons h1, List.drop_eq_getElem_cons h2]
      simp only [dotQ_cons, e, ihk, hv'] at heq ⊢
      have hvq : (v : ℚ) ≠ 0 := by exact_mod_cast hvz
      have : xq[ncols - (k + 1)] = x0[ncols - (k + 1)] := by
        apply mul_left_cancel₀ hvq
        linarith
      rw [this]
  have := key ncols (Nat.le_refl _)
  simpa using this

/-- the last step of `solve_right`: on a final state satisfying the invariants, a vector
returned by `upper_triangular_solve` on the first `ncols` rows is the solution `x0`. -/
theorem final_unique (x0 : List ℚ) (ncols : Nat) (st : EchSt) (bl : List Int) (xs : List PyQ)
    (hx0 : x0.length = ncols) (hb : st.b = some bl) (hlen : ncols ≤ st.a.length)
    (inv : GoodInv x0 ncols (ncols - 1) st ∨ BadInv x0 ncols (ncols - 1) st)
    (h : upperTriangularSolve (st.a.take ncols) (bl.take ncols) = .ok (some xs)) :
    xs.map PyQ.toRat = x0 := by
  obtain ⟨u1, _, _, u4⟩ := uts_some _ _ _ h
  have hFlen : (st.a.take ncols).length = ncols := by rw [List.length_take]; omega
  rw [hFlen] at u1 u4
  have hsat : Sat x0 st.a bl := by
    rcases inv with inv | inv
    · obtain ⟨bl', hb', hs⟩ := inv.sat
      rw [hb] at hb'; cases hb'; exact hs
    · obtain ⟨bl', hb', hs⟩ := inv.sat
      rw [hb] at hb'; cases hb'; exact hs
  rcases inv with inv | inv
  · -- upper triangular: uniqueness
    apply tri_unique ncols _ x0 (by simpa using u1) hx0
    intro r hr
    obtain ⟨hrow_eq, row, v, hrow, hv, hvz⟩ := u4 r hr
    rw [List.getElem?_take_of_lt hr] at hrow
    have hbr : ∃ br, bl[r]? = some br := by
      have : r < bl.length := by rw [← hsat.length_eq]; omega
      exact ⟨bl[r], List.getElem?_eq_getElem this⟩
    obtain ⟨br, hbr⟩ := hbr
    have hz : ZeroTo r row := by
      by_cases hlt : r < ncols - 1
      · exact inv.ut r row hlt hrow
      · have : r = ncols - 1 := by omega
        subst this
        exact inv.lz row (mem_drop_of_getElem? hrow (Nat.le_refl _))
    have hs : RowSat x0 row br := forall₂_getElem? hsat r row br hrow hbr
    unfold RowSat at hs
    rw [dotQ_drop_zero r row x0 hz] at hs
    have hu := hrow_eq row br (by rw [List.getElem?_take_of_lt hr]; exact hrow)
      (by rw [List.getElem?_take_of_lt hr]; exact hbr)
    exact ⟨row, v, hv, hvz, by rw [hu, hs]⟩
  · -- fewer than `ncols` non-zero rows: a zero row among the first `ncols`, contradiction
    exfalso
    have hc : (st.a.take ncols).countP (nzRow ncols) < (st.a.take ncols).length := by
      have := (List.take_sublist ncols st.a).countP_le (p := nzRow ncols)
      have := inv.cnt
      omega
    have hex : ∃ row ∈ st.a.take ncols, nzRow ncols row = false := by
      by_contra hcon
      have hall : ∀ row ∈ st.a.take ncols, nzRow ncols row = true := by
        intro row hrow
        by_contra hf
        exact hcon ⟨row, hrow, by simpa using hf⟩
      have := List.countP_eq_length.mpr hall
      omega
    obtain ⟨row, hmem, hnz⟩ := hex
    obtain ⟨r, hrow⟩ := List.mem_iff_getElem?.mp hmem
    have hr : r < (st.a.take ncols).length := (List.getElem?_eq_some_iff.mp hrow).1
    have hr' : r < ncols := by omega
    obtain ⟨_, row', v, hrow', hv, hvz⟩ := u4 r hr'
    rw [hrow] at hrow'
    cases hrow'
    have := (nzRow_false_iff ncols row).mp hnz r hr'
    rw [getD_of_getElem? hv] at this
    exact hvz this

/-- the invariants hold at the end of `echelon_form` (repaired variant) run on a system that
`x0` solves, provided all divisions were exact. -/
theorem echelonRun_inv (x0 : List ℚ) (row0 : List Int) (rest : List (List Int)) (b : List Int)
    (st : EchSt) (hx0 : x0.length ≤ row0.length) (hsat : Sat x0 (row0 :: rest) b)
    (hmn : row0.length ≤ (row0 :: rest).length)
    (h : echelonRun .repaired (row0 :: rest) (some b) = .ok st) (hex : st.exact = true) :
    (GoodInv x0 row0.length (row0.length - 1) st ∨ BadInv x0 row0.length (row0.length - 1) st) ∧
      st.a.length = (row0 :: rest).length ∧ ∃ bl, st.b = some bl := by
  have hlen := hsat.length_eq
  cases b with
  | nil => simp at hlen
  | cons y l =>
    unfold echelonRun at h
    simp only [bActive] at h
    rw [if_neg (by simp only [ne_eq, Decidable.not_not]; exact hlen)] at h
    have hmin : min (row0 :: rest).length row0.length = row0.length := Nat.min_eq_right hmn
    rw [hmin] at h
    have good0 : GoodInv x0 row0.length 0 ⟨row0 :: rest, some (y :: l), (row0 :: rest).length, 1, true⟩ :=
      { sat := ⟨_, rfl, hsat⟩, hin := by simp, hnl := Nat.le_refl _,
        lz := fun row _ c hc => absurd hc (Nat.not_lt_zero c),
        dz := by intro row hrow; simp at hrow,
        ut := fun r row hr => absurd hr (Nat.not_lt_zero r) }
    obtain ⟨_, r2, r3⟩ := echOuter_inv x0 row0.length row0.length hx0 _ 0 _ st (by omega)
      (Or.inl good0) h hex
    rw [Nat.zero_add] at r2
    refine ⟨r2, r3, ?_⟩
    rcases r2 with g | g
    · obtain ⟨bl, hb, _⟩ := g.sat; exact ⟨bl, hb⟩
    · obtain ⟨bl, hb, _⟩ := g.sat; exact ⟨bl, hb⟩

/-- **soundness of `solve_right` (repaired variant).**  If `x0` solves the input system
(`x0` has one entry per column), the function returns a vector and every `//=` of the
elimination was exact, then the returned vector is `x0`. -/
theorem solveRightX_sound (row0 : List Int) (rest : List (List Int)) (b : List Int) (x0 : List ℚ)
    (hx0 : x0.length = row0.length) (hsat : Sat x0 (row0 :: rest) b) (xs : List PyQ)
    (h : solveRightX .repaired (row0 :: rest) b = .ok (some xs, true)) :
    xs.map PyQ.toRat = x0 := by
  unfold solveRightX at h
  simp only at h
  split at h
  · simp at h
  split at h
  · simp at h
  rename_i hmn
  split at h
  · simp at h
  rename_i st hrun
  split at h
  · simp at h
  rename_i rank hrank
  split at h
  · simp at h
  rename_i hrk
  simp only [ne_eq, Decidable.not_not] at hrk
  split at h
  · simp at h
  rename_i r huts
  simp only [Except.ok.injEq, Prod.mk.injEq] at h
  obtain ⟨rfl, hex⟩ := h
  obtain ⟨inv, hlen, bl, hb⟩ := echelonRun_inv x0 row0 rest b st (by omega) hsat (by omega) hrun hex
  have hbl : bAfterL b st = bl := by simp [bAfterL, hb]
  rw [hbl, hrk] at huts
  exact final_unique x0 row0.length st bl xs hx0 hb (by omega) inv huts

/-! ### solution sets are preserved (both directions) by each kind of step -/

theorem sat_set_iff (x : List ℚ) (a : List (List Int)) (bl : List Int) (j : Nat)
    (rj r' : List Int) (bj b' : Int) (hr : a[j]? = some rj) (hb : bl[j]? = some bj)
    (hiff : RowSat x r' b' ↔ RowSat x rj bj) :
    Sat x (a.set j r') (bl.set j b') ↔ Sat x a bl := by
  obtain ⟨hja, hra⟩ := List.getElem?_eq_some_iff.mp hr
  obtain ⟨hjb, hrb⟩ := List.getElem?_eq_some_iff.mp hb
  constructor
  · intro h
    have hnew : RowSat x r' b' :=
      forall₂_getElem? h j r' b' (by simp [hja]) (by simp [hjb])
    have := forall₂_set h j rj bj (hiff.mp hnew)
    rw [List.set_set, List.set_set, ← hra, ← hrb, List.set_getElem_self, List.set_getElem_self] at this
    exact this
  · intro h
    exact forall₂_set h j r' b' (hiff.mpr (forall₂_getElem? h j rj bj hr hb))

theorem forall₂_of_pyInsert {α β} {R : α → β → Prop} : ∀ (l₁ : List α) (l₂ : List β) (k : Nat)
    (x : α) (y : β), l₁.length = l₂.length →
    List.Forall₂ R (pyInsert l₁ k x) (pyInsert l₂ k y) → List.Forall₂ R l₁ l₂ ∧ R x y := by
  intro l₁
  induction l₁ with
  | nil =>
    intro l₂ k x y hl h
    cases l₂ with
    | nil => simp [pyInsert] at h; exact ⟨List.Forall₂.nil, h⟩
    | cons _ _ => simp at hl
  | cons a t ih =>
    intro l₂ k x y hl h
    cases l₂ with
    | nil => simp at hl
    | cons b t2 =>
      cases k with
      | zero =>
        simp [pyInsert] at h
        exact ⟨List.Forall₂.cons h.2.1 h.2.2, h.1⟩
      | succ k =>
        simp only [pyInsert, List.take_succ_cons, List.drop_succ_cons, List.cons_append,
          List.forall₂_cons] at h
        obtain ⟨h1, h2⟩ := ih t2 k x y (by simpa using hl) h.2
        exact ⟨List.Forall₂.cons h.1 h1, h2⟩

theorem forall₂_of_eraseIdx {α β} {R : α → β → Prop} : ∀ (l₁ : List α) (l₂ : List β) (i : Nat)
    (x : α) (y : β), l₁[i]? = some x → l₂[i]? = some y → R x y →
    List.Forall₂ R (l₁.eraseIdx i) (l₂.eraseIdx i) → List.Forall₂ R l₁ l₂ := by
  intro l₁
  induction l₁ with
  | nil => intro l₂ i x y hx; simp at hx
  | cons a t ih =>
    intro l₂ i x y hx hy hxy h
    cases l₂ with
    | nil => simp at hy
    | cons b t2 =>
      cases i with
      | zero =>
        simp at hx hy h
        subst hx; subst hy
        exact List.Forall₂.cons hxy h
      | succ i =>
        simp at hx hy h
        exact List.Forall₂.cons h.1 (ih t2 i x y hx hy hxy h.2)

/-- a row move (`pop` + `insert` on both `a` and `b`) permutes the equations. -/
theorem forall₂_moveRow_iff {α β} {R : α → β → Prop} {l₁ l₁' : List α} {l₂ l₂' : List β}
    (hl : l₁.length = l₂.length) (i : Nat) (k : Int) (h1 : moveRow l₁ i k = .ok l₁')
    (h2 : moveRow l₂ i k = .ok l₂') : List.Forall₂ R l₁' l₂' ↔ List.Forall₂ R l₁ l₂ := by
  constructor
  · intro h
    unfold moveRow at h1 h2
    split at h1
    swap
    · simp at h1
    rename_i x hx
    split at h2
    swap
    · simp at h2
    rename_i y hy
    simp only [Except.ok.injEq] at h1 h2
    subst h1; subst h2
    have hle : (l₁.eraseIdx i).length = (l₂.eraseIdx i).length := by
      rw [List.length_eraseIdx_of_lt (List.getElem?_eq_some_iff.mp hx).1,
        List.length_eraseIdx_of_lt (List.getElem?_eq_some_iff.mp hy).1, hl]
    have hins : List.Forall₂ R (l₁.eraseIdx i) (l₂.eraseIdx i) ∧ R x y := by
      cases k with
      | ofNat k => exact forall₂_of_pyInsert _ _ k x y hle h
      | negSucc k =>
        simp only [pyInsertI] at h
        rw [hle] at h
        exact forall₂_of_pyInsert _ _ _ x y hle h
    exact forall₂_of_eraseIdx l₁ l₂ i x y hx hy hins.2 hins.1
  · intro h
    exact forall₂_moveRow h i k h1 h2

/-- the row operation performed by one elimination, with everything it reads and writes. -/
theorem elimRow_rowop (x : List ℚ) (ncols i j : Nat) (st st' : EchSt) (az : Bool) (bl : List Int)
    (hb : st.b = some bl) (hx : x.length ≤ ncols) (hi : i + 1 ≤ ncols)
    (hzi : ∀ row, st.a[i]? = some row → ZeroTo i row)
    (hzj : ∀ row, st.a[j]? = some row → ZeroTo i row)
    (h : elimRow ncols i j st = .ok (st', az)) :
    ∃ (ri rj rj'' : List Int) (p q bi bj : Int),
      st.a[i]? = some ri ∧ st.a[j]? = some rj ∧ ri[i]? = some p ∧ rj[i]? = some q ∧
      bl[i]? = some bi ∧ bl[j]? = some bj ∧
      st'.a = st.a.set j rj'' ∧ st'.b = some (bl.set j (p * bj - q * bi)) ∧
      dotQ rj'' x - ((p * bj - q * bi : Int) : ℚ) =
        (p : ℚ) * (dotQ rj x - bj) - (q : ℚ) * (dotQ ri x - bi) := by
  unfold elimRow at h
  split at h
  swap
  · simp at h
  rename_i ri rj hri hrj
  split at h
  swap
  · simp at h
  rename_i p q hp hq
  rw [hb] at h
  split at h
  · simp at h
  rename_i b' hb'
  obtain ⟨bj, bi, hbj, hbi, rfl⟩ := elimB_spec p q i j bl b' hb'
  split at h
  · simp at h
  rename_i rj' az' hcols
  split at h
  · simp at h
  rename_i rj'' hset
  simp only [Except.ok.injEq, Prod.mk.injEq] at h
  obtain ⟨rfl, rfl⟩ := h
  obtain ⟨f1, _, _⟩ := elimRow_row ncols i p q ri rj rj' rj'' az' hp hq (hzi ri hri) (hzj rj hrj)
    hi hcols hset
  have hdot := elimRow_dot ncols p q ri rj rj'' x hx f1
  refine ⟨ri, rj, rj'', p, q, bi, bj, hri, hrj, hp, hq, hbi, hbj, rfl, rfl, ?_⟩
  rw [hdot]; push_cast; ring

/-- with a non-zero pivot the elimination of one row keeps the solution set. -/
theorem elimRow_sat_iff (x : List ℚ) (ncols i j : Nat) (st st' : EchSt) (az : Bool)
    (bl : List Int) (hb : st.b = some bl) (hx : x.length ≤ ncols) (hi : i + 1 ≤ ncols)
    (hij : i ≠ j)
    (hzi : ∀ row, st.a[i]? = some row → ZeroTo i row)
    (hzj : ∀ row, st.a[j]? = some row → ZeroTo i row)
    (hpiv : getRC st.a i i ≠ .ok 0)
    (h : elimRow ncols i j st = .ok (st', az)) :
    ∃ bl', st'.b = some bl' ∧ (Sat x st'.a bl' ↔ Sat x st.a bl) := by
  obtain ⟨ri, rj, rj'', p, q, bi, bj, hri, hrj, hp, hq, hbi, hbj, ha, hb', hid⟩ :=
    elimRow_rowop x ncols i j st st' az bl hb hx hi hzi hzj h
  have hpz : p ≠ 0 := by
    rintro rfl
    apply hpiv
    simp [getRC, hri, hp]
  have hpq : (p : ℚ) ≠ 0 := by exact_mod_cast hpz
  refine ⟨_, hb', ?_⟩
  rw [ha]
  -- both systems contain the (unchanged) equation of row `i`
  have hrow_i : ∀ {a' : List (List Int)} {b' : List Int}, a'[i]? = some ri → b'[i]? = some bi →
      Sat x a' b' → RowSat x ri bi := fun h1 h2 hs => forall₂_getElem? hs i ri bi h1 h2
  constructor
  · intro hs
    have hsi : RowSat x ri bi := hrow_i (by rw [List.getElem?_set_ne hij.symm]; exact hri)
      (by rw [List.getElem?_set_ne hij.symm]; exact hbi) hs
    refine (sat_set_iff x st.a bl j rj rj'' bj _ hrj hbj ?_).mp hs
    unfold RowSat at hsi ⊢
    constructor
    · intro h1
      have : (p : ℚ) * (dotQ rj x - bj) = 0 := by rw [hsi] at hid; linarith
      rcases mul_eq_zero.mp this with h0 | h0
      · exact absurd h0 hpq
      · linarith
    · intro h1
      rw [hsi, h1] at hid; linarith
  · intro hs
    have hsi : RowSat x ri bi := hrow_i hri hbi hs
    refine (sat_set_iff x st.a bl j rj rj'' bj _ hrj hbj ?_).mpr hs
    unfold RowSat at hsi ⊢
    constructor
    · intro h1
      have : (p : ℚ) * (dotQ rj x - bj) = 0 := by rw [hsi] at hid; linarith
      rcases mul_eq_zero.mp this with h0 | h0
      · exact absurd h0 hpq
      · linarith
    · intro h1
      rw [hsi, h1] at hid; linarith

/-- a row move keeps the solution set. -/
theorem moveRows_sat_iff (x : List ℚ) (st st' : EchSt) (i : Nat) (k : Int) (bl : List Int)
    (hb : st.b = some bl) (hlen : st.a.length = bl.length) (h : moveRows st i k = .ok st') :
    ∃ bl', st'.b = some bl' ∧ (Sat x st'.a bl' ↔ Sat x st.a bl) := by
  obtain ⟨bl', h1, h2, h3, _⟩ := moveRows_spec st st' i k bl hb h
  exact ⟨bl', h1, forall₂_moveRow_iff hlen i k h3 h2⟩

/-- the division pass on one row keeps the solution set when its divisions are exact
(`st'.exact = true`; the divisor is non-zero, otherwise the model raises). -/
theorem divRow_sat_iff (x : List ℚ) (ncols i j : Nat) (st st' : EchSt) (bl : List Int)
    (hb : st.b = some bl) (hx : x.length ≤ ncols)
    (hzj : ∀ row, st.a[j]? = some row → ZeroTo (i + 1) row)
    (h : divRow ncols i j st = .ok st') (hex : st'.exact = true) :
    ∃ bl', st'.b = some bl' ∧ (Sat x st'.a bl' ↔ Sat x st.a bl) := by
  unfold divRow at h
  split at h
  · simp at h
  rename_i d _
  rw [hb] at h
  split at h
  · simp at h
  rename_i b' ex hdivB
  obtain ⟨v, hv, hd, rfl, rfl⟩ := divB_spec d j bl st.exact b' ex hdivB
  split at h
  · simp at h
  rename_i row hrow
  split at h
  · simp at h
  rename_i row' ex' hcols
  simp only [Except.ok.injEq] at h
  subst h
  simp only at hex
  subst hex
  obtain ⟨_, z2⟩ := divRow_row ncols i d row row' _ true (hzj row hrow) hcols
  obtain ⟨e1, e2⟩ := z2 rfl
  simp only [Bool.and_eq_true, beq_iff_eq] at e1
  have hdvd : d ∣ v := Int.dvd_of_emod_eq_zero e1.2
  have hdot := divRow_dot ncols d row row' x hx e2
  have hdq : (d : ℚ) ≠ 0 := by exact_mod_cast hd
  have hv' : ((Int.fdiv v d : Int) : ℚ) * d = v := by
    rw [Int.fdiv_eq_ediv_of_dvd hdvd]
    exact_mod_cast Int.ediv_mul_cancel hdvd
  refine ⟨_, rfl, sat_set_iff x st.a bl j row row' v _ hrow hv ?_⟩
  unfold RowSat
  constructor
  · intro h1
    rw [← hdot, h1, ← hv']; ring
  · intro h1
    apply mul_left_cancel₀ hdq
    rw [hdot, h1, ← hv']; ring

end Paranoid.LA
